#!/usr/bin/env python3
"""Regenerate MANIFEST.json from conf/*.json (claimed checks) and properties.jsonl (everything else -> not_applicable)."""
import os, json, sys
here = os.path.dirname(os.path.dirname(os.path.abspath(__file__)))
sys.path.insert(0, here)
import checkconf
ids = [json.loads(l)["id"] for l in open(os.path.join(here, "properties.jsonl")) if l.strip()]
hooks = json.load(open(os.path.join(here, "conf", "hooks.json")))
m = {"version": 1, "setup_cmd": "./setup.sh", "hooks": hooks,
     "engines": [{"name": "lean-proof+correspondence", "path": "/verif/check",
                  "serves_properties": [i for i in ids if i in checkconf.PROPS],
                  "kind_free_text": "Lean 4 theorems about executable models (lean/Fatchoy), facts regenerated from the source on every run (harness/cmd/extract), differential correspondence model vs real code and an independent Go oracle per property (harness/cmd/hx_*)"}],
     "checks": [], "not_applicable": [],
     "notes": "See DESIGN.md. Every check is ./check <id> [--tier quick|thorough]; KNOWN_FINDINGS lists fixed defects and accepted findings."}
for i in ids:
    c = checkconf.PROPS.get(i)
    if c is None or c.get("not_applicable"):
        m["not_applicable"].append({"property_id": i, "reason": (c or {}).get("not_applicable", "check not built yet (work in progress; the design for it is DESIGN.md §6 %s)" % i)})
        continue
    m["checks"].append({
        "property_id": i, "quick_cmd": "./check %s --tier quick" % i, "thorough_cmd": "./check %s --tier thorough" % i,
        "evidence_file": "/verif/evidence/%s.json" % i, "replay_cmd_template": "./check %s --replay {path}" % i,
        "engine": "lean-proof+correspondence",
        "level_claimed": {"category": "proof", "text": c["level_text"], "design_ref": "DESIGN.md §6 " + i},
        "level_note": c["level_note"], "technique": c["technique"]})
json.dump(m, open(os.path.join(here, "MANIFEST.json"), "w"), indent=1)
print("claimed:", [c["property_id"] for c in m["checks"]])
