#!/bin/sh
# tools/mkmut2.sh ID -> /tmp/mut-ID-w2/{repo, out, PROPERTY.txt, FIRST_WAVE.txt}
set -e
ID="$1"; D=/tmp/mut-$ID-w2
tools/mkmut.sh $ID-w2 $ID >/dev/null
python3 - "$ID" > $D/FIRST_WAVE.txt <<'PY'
import json,sys,glob
for p in sorted(glob.glob('/verif/seeded/%s-*/meta.json'%sys.argv[1])):
    m=json.load(open(p)); print("-",m["summary"]); print("  (needed:",m["needs_to_manifest"],")")
PY
echo $D
