#!/usr/bin/env python3
"""tools/integrate.py NAME [--apply]  — list (and with --apply copy) files a builder created in /tmp/ag-NAME/verif.
New files are copied; files that exist in /verif with different content are only listed (manual review)."""
import os, sys, filecmp, shutil
name = sys.argv[1]; apply = "--apply" in sys.argv
src = "/tmp/ag-%s/verif" % name; dst = "/verif"
SKIP_DIRS = {".work", ".lake", "bin", "evidence", "replays", ".audit", "__pycache__", ".git", "seeded"}
SKIP_FILES = {"MANIFEST.json", "Main.lean", "Fatchoy.lean", "lake-manifest.json"}
new, changed = [], []
for root, dirs, files in os.walk(src):
    dirs[:] = [d for d in dirs if d not in SKIP_DIRS]
    for f in files:
        if f in SKIP_FILES: continue
        sp = os.path.join(root, f); rel = os.path.relpath(sp, src); dp = os.path.join(dst, rel)
        if not os.path.exists(dp): new.append(rel)
        elif not filecmp.cmp(sp, dp, shallow=False): changed.append(rel)
print("NEW:"); [print("  ", r) for r in sorted(new)]
print("CHANGED (not copied):"); [print("  ", r) for r in sorted(changed)]
if apply:
    for r in new:
        os.makedirs(os.path.dirname(os.path.join(dst, r)), exist_ok=True)
        shutil.copy2(os.path.join(src, r), os.path.join(dst, r))
    print("copied", len(new), "files")
