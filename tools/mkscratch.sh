#!/bin/sh
# tools/mkscratch.sh NAME  -> /tmp/ag-NAME/{repo (git worktree of /repo HEAD on branch ag-NAME), verif (copy of /verif)}
set -e
N="$1"; D=/tmp/ag-$N
mkdir -p $D
git -C /repo worktree add -q -b ag-$N $D/repo HEAD
rsync -a --exclude .git --exclude .work --exclude replays /verif/ $D/verif/
echo $D
