#!/usr/bin/env python3
"""
tools/runseeded.py [name ...] [--tier quick|thorough] [--keep]

Runs the registered checks against the seeded property-breaking changes kept under /verif/seeded/<name>/
(patch.diff + meta.json {"property": "Cxx", ...}).  For each: a scratch worktree of /repo HEAD and a scratch
copy of /verif are made under /tmp/seedrun-<name>/ (so neither /repo nor /verif is disturbed), the patch is
applied, `VERIF_REPO=<worktree> ./check <id> --tier <tier>` is run there, and the outcome (caught / missed,
the VIOLATION lines) is written to seeded/<name>/last_run.json and summarised in seeded/RESULTS.md.
Everything under /tmp/seedrun-* is removed afterwards.
"""
import os, sys, json, subprocess, shutil, time, glob

HERE = os.path.dirname(os.path.dirname(os.path.abspath(__file__)))
SEEDED = os.path.join(HERE, "seeded")


def sh(cmd, **kw):
    p = subprocess.run(cmd, stdout=subprocess.PIPE, stderr=subprocess.STDOUT, text=True, **kw)
    return p.returncode, p.stdout


def run_one(name, tier, keep=False):
    d = os.path.join(SEEDED, name)
    meta = json.load(open(os.path.join(d, "meta.json")))
    pid = meta["property"]
    scratch = "/tmp/seedrun-" + name
    shutil.rmtree(scratch, ignore_errors=True)
    sh(["git", "-C", "/repo", "worktree", "prune"])
    os.makedirs(scratch)
    wt = os.path.join(scratch, "repo")
    vf = os.path.join(scratch, "verif")
    rc, out = sh(["git", "-C", "/repo", "worktree", "add", "-q", "--detach", wt, "HEAD"])
    assert rc == 0, out
    res = {"name": name, "property": pid, "tier": tier}
    try:
        rc, out = sh(["git", "-C", wt, "apply", os.path.join(d, "patch.diff")])
        if rc != 0:
            res.update(outcome="patch-does-not-apply", output=out[-2000:])
            return res
        sh(["rsync", "-a", "--exclude", ".git", "--exclude", ".work", "--exclude", "replays", "--exclude", "evidence", HERE + "/", vf + "/"])
        t = time.time()
        env = dict(os.environ, VERIF_REPO=wt)
        rc, out = sh([os.path.join(vf, "check"), pid, "--tier", tier], env=env, cwd=vf)
        res["wall_s"] = round(time.time() - t, 1)
        res["exit"] = rc
        res["violation_lines"] = [l for l in out.splitlines() if l.startswith("VIOLATION") or l.startswith("KNOWN-FINDING")]
        res["log_tail"] = out.splitlines()[-25:]
        with_input = [l for l in res["violation_lines"] if l.startswith("VIOLATION") and not l.rstrip().endswith("no-failing-input-found")]
        if rc == 1 and with_input:
            res["outcome"] = "caught-with-failing-input"
            # keep the first replay's what-line for the record
            try:
                rp = with_input[0].split("replay=")[1].split()[0]
                res["replay_what"] = json.load(open(rp)).get("what")
            except Exception:
                pass
        elif rc == 1:
            res["outcome"] = "caught-no-failing-input-found"
        elif rc == 0:
            res["outcome"] = "MISSED"
        else:
            res["outcome"] = "check-error"
        return res
    finally:
        if not keep:
            sh(["git", "-C", "/repo", "worktree", "remove", "--force", wt])
            shutil.rmtree(scratch, ignore_errors=True)
            sh(["git", "-C", "/repo", "worktree", "prune"])


def main():
    args = [a for a in sys.argv[1:] if not a.startswith("--")]
    tier = "quick"
    if "--tier" in sys.argv:
        tier = sys.argv[sys.argv.index("--tier") + 1]
        args = [a for a in args if a != tier]
    keep = "--keep" in sys.argv
    names = args or sorted(os.path.basename(os.path.dirname(p)) for p in glob.glob(os.path.join(SEEDED, "*", "meta.json")))
    for n in names:
        r = run_one(n, tier, keep)
        json.dump(r, open(os.path.join(SEEDED, n, "last_run_%s.json" % tier), "w"), indent=1)
        print("%-14s %-4s %-8s %s  %s" % (n, r["property"], tier, r.get("outcome"), (r.get("replay_what") or "")[:120]), flush=True)
    # summary table
    rows = []
    for p in sorted(glob.glob(os.path.join(SEEDED, "*", "meta.json"))):
        n = os.path.basename(os.path.dirname(p))
        meta = json.load(open(p))
        row = [n, meta["property"], meta.get("summary", "")[:100]]
        for t in ("quick", "thorough"):
            lp = os.path.join(SEEDED, n, "last_run_%s.json" % t)
            row.append(json.load(open(lp)).get("outcome", "?") if os.path.exists(lp) else "-")
        rows.append(row)
    with open(os.path.join(SEEDED, "RESULTS.md"), "w") as f:
        f.write("# Seeded changes vs checks (tools/runseeded.py)\n\n| change | property | what it does | quick | thorough |\n|---|---|---|---|---|\n")
        for r in rows:
            f.write("| " + " | ".join(r) + " |\n")


if __name__ == "__main__":
    main()
