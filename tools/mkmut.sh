#!/bin/sh
# tools/mkmut.sh ID -> /tmp/mut-ID/{repo (detached worktree of /repo HEAD), out/, PROPERTY.txt}
set -e
ID="$1"; PID="${2:-$1}"; D=/tmp/mut-$ID
mkdir -p $D/out
git -C /repo worktree add -q --detach $D/repo HEAD
python3 - "$PID" > $D/PROPERTY.txt <<'PY'
import json,sys
for l in open('/verif/properties.jsonl'):
    p=json.loads(l)
    if p['id']==sys.argv[1]:
        print("Title:",p['title']);print();print("Statement:",p['statement']);print();print("Quantified over:",p['quantifier']['text']);print();print("Anchored in files:",", ".join(p['anchors']['files']))
PY
echo $D
