#!/bin/sh
set -e
ID="$1"; D=/tmp/mut-$ID-w4
tools/mkmut.sh $ID-w4 $ID >/dev/null
python3 - "$ID" > $D/EARLIER_WAVES.txt <<'PY'
import json,sys,glob
for p in sorted(glob.glob('/verif/seeded/%s-*/meta.json'%sys.argv[1])):
    m=json.load(open(p)); print("-",m["summary"]); print("  (needed:",m["needs_to_manifest"],")")
PY
echo $D
