#!/usr/bin/env python3
"""
tools/ingestmut.py <mutdir> <variant> <property> <pkgdir> <summary> <needs> [--name NAME] [--testpkgs "./a/... ./b/..."]

Confirms an independently written property-breaking change before it is kept (brief: "keep a change only after you
have confirmed all of that yourself"):
  clean tree:   existing tests of the affected packages -> recorded; demo passes
  patched tree: builds; the same existing tests give the same result; demo FAILS
and then files it as /verif/seeded/<name>/{patch.diff, demo/, README.md, meta.json}.
<mutdir> = /tmp/mut-XXX (contains repo/ worktree and out/<variant>/{patch.diff,demo/,README.md}).
<pkgdir> = package directory (relative to the repo root, "." for the root) the demo _test.go files are placed in.
"""
import os, sys, re, json, subprocess, shutil, glob

ENV = dict(os.environ, GOFLAGS="-mod=mod", GOPROXY="off", GOSUMDB="off", GOTOOLCHAIN="local")


NETNS = False


def sh(cmd, cwd, timeout=1500):
    if NETNS and cmd[0] == "go" and cmd[1] == "test":
        import shlex
        cmd = ["unshare", "-n", "sh", "-c", "ip link set lo up; " + " ".join(shlex.quote(c) for c in cmd)]
    p = subprocess.run(cmd, cwd=cwd, env=ENV, stdout=subprocess.PIPE, stderr=subprocess.STDOUT, text=True, timeout=timeout)
    return p.returncode, p.stdout


def main():
    a = sys.argv[1:]
    opts = {}
    while "--name" in a or "--testpkgs" in a or "--race" in a or "--tags" in a:
        for k in ("--name", "--testpkgs", "--tags"):
            if k in a:
                i = a.index(k)
                opts[k] = a[i + 1]
                del a[i:i + 2]
        if "--race" in a:
            a.remove("--race")
            opts["--race"] = True
    if "--netns" in a:
        a.remove("--netns")
        global NETNS
        NETNS = True
    mutdir, variant, pid, pkgdir, summary, needs = a
    repo = os.path.join(mutdir, "repo")
    out = os.path.join(mutdir, "out", variant)
    patch = os.path.join(out, "patch.diff")
    name = opts.get("--name", "%s-%s" % (pid, variant))
    pkgs = opts.get("--testpkgs", "./%s/..." % pkgdir if pkgdir != "." else ".").split()
    demos = sorted(glob.glob(os.path.join(out, "demo", "*_test.go")))
    assert demos, "no demo _test.go"
    tests = []
    for d in demos:
        tests += re.findall(r"^func (Test\w+)\(", open(d).read(), re.M)
    rx = "^(" + "|".join(tests) + ")$"
    pk = "./" + pkgdir if pkgdir != "." else "."

    def clean():
        sh(["git", "checkout", "--", "."], repo)
        sh(["git", "clean", "-fdq"], repo)

    def existing():
        rc, o = sh(["go", "test", "-vet=off", "-count=1"] + pkgs, repo)
        fails = sorted(set(re.findall(r"^--- FAIL: (\S+)", o, re.M)))
        return rc, fails, o

    def demo():
        for d in demos:
            shutil.copy(d, os.path.join(repo, pkgdir))
        cmd = ["go", "test", "-vet=off", "-count=1", "-run", rx]
        if opts.get("--tags"):
            cmd += ["-tags", opts["--tags"]]
        if opts.get("--race"):
            cmd.append("-race")
        rc, o = sh(cmd + [pk], repo)
        for d in demos:
            os.remove(os.path.join(repo, pkgdir, os.path.basename(d)))
        return rc, o

    clean()
    rc0, fails0, _ = existing()
    drc0, dout0 = demo()
    rc, o = sh(["git", "apply", patch], repo)
    assert rc == 0, "patch does not apply: " + o
    rcb, ob = sh(["go", "build", "./..."], repo)
    rc1, fails1, o1 = existing()
    drc1, dout1 = demo()
    clean()
    # tests outside the stable baseline (flaky / always failing there) do not count
    base = json.load(open("/root/.vp/BASELINE.json"))
    unstable = set(t.split("::")[1] for t in base.get("flaky", []) + base.get("always_fail", []) + base.get("dropped_after_offline", []))
    fails0 = [t for t in fails0 if t not in unstable]
    fails1 = [t for t in fails1 if t not in unstable]
    ok = (rcb == 0 and drc0 == 0 and drc1 != 0 and fails1 == fails0)
    print("build rc=%d; existing tests clean rc=%d fails=%s; patched rc=%d fails=%s; demo clean rc=%d; demo patched rc=%d" %
          (rcb, rc0, fails0, rc1, fails1, drc0, drc1))
    if not ok:
        print("NOT CONFIRMED")
        print(dout0[-1500:])
        print(dout1[-1500:])
        print(o1[-1500:])
        return 1
    dst = os.path.join("/verif/seeded", name)
    shutil.rmtree(dst, ignore_errors=True)
    os.makedirs(os.path.join(dst, "demo"))
    shutil.copy(patch, dst)
    for d in demos:
        shutil.copy(d, os.path.join(dst, "demo"))
    if os.path.exists(os.path.join(out, "README.md")):
        shutil.copy(os.path.join(out, "README.md"), dst)
    meta = {
        "property": pid, "name": name, "summary": summary, "needs_to_manifest": needs,
        "demo": {"place_in": pkgdir, "run": "go test -vet=off -count=1 %s-run '%s' %s" % ("-tags %s " % opts["--tags"] if opts.get("--tags") else "", rx, pk)},
        "confirmed": {
            "patched_tree_builds": True,
            "existing_tests_cmd": "go test -vet=off -count=1 " + " ".join(pkgs),
            "existing_tests_failing_before_and_after": fails0,
            "demo_on_clean_tree": "pass", "demo_on_patched_tree": "FAIL",
            "demo_failure_tail": dout1.strip().splitlines()[-12:],
        },
        "written_by": "independent sub-agent given only the property text and a scratch worktree",
    }
    json.dump(meta, open(os.path.join(dst, "meta.json"), "w"), indent=1, ensure_ascii=False)
    print("CONFIRMED ->", dst)
    return 0


if __name__ == "__main__":
    sys.exit(main())
