#!/bin/sh
# tools/runall.sh [tier]  — every claimed check once on /repo's working tree; one summary line each
cd "$(dirname "$0")/.."
T="${1:-quick}"
for p in $(python3 -c "import checkconf;print(' '.join(sorted(checkconf.PROPS)))"); do
  ./check $p --tier $T 2>&1 | grep "done in\|^VIOLATION\|^KNOWN-FINDING"
done
