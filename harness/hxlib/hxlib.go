// Package hxlib is the shared plumbing of the per-property correspondence harnesses:
// one PRNG, the paired op/impl line writers, coverage counters, oracle failures, result.json.
package hxlib

import (
	"bufio"
	"encoding/hex"
	"encoding/json"
	"flag"
	"fmt"
	"os"
	"path/filepath"
	"sort"
	"time"
)

// Rand is splitmix64: every random choice of a run derives from one seed.
type Rand struct{ s uint64 }

func NewRand(seed uint64) *Rand {
	// mix the seed first: with s = seed*G + c the streams of seeds 1,2,3 would be shifts of one another
	z := seed + 0x9E3779B97F4A7C15
	z = (z ^ (z >> 30)) * 0xBF58476D1CE4E5B9
	z = (z ^ (z >> 27)) * 0x94D049BB133111EB
	return &Rand{s: z ^ (z >> 31)}
}

func (r *Rand) U64() uint64 {
	r.s += 0x9E3779B97F4A7C15
	z := r.s
	z = (z ^ (z >> 30)) * 0xBF58476D1CE4E5B9
	z = (z ^ (z >> 27)) * 0x94D049BB133111EB
	return z ^ (z >> 31)
}

// Intn returns a value in [0,n).
func (r *Rand) Intn(n int) int {
	if n <= 0 {
		return 0
	}
	return int(r.U64() % uint64(n))
}

// Range returns a value in [lo,hi].
func (r *Rand) Range(lo, hi int) int { return lo + r.Intn(hi-lo+1) }

func (r *Rand) Bool() bool { return r.U64()&1 == 1 }

// Chance is true with probability num/den.
func (r *Rand) Chance(num, den int) bool { return r.Intn(den) < num }

func (r *Rand) Bytes(n int) []byte {
	b := make([]byte, n)
	for i := range b {
		b[i] = byte(r.U64())
	}
	return b
}

// Pick returns one of the given ints.
func (r *Rand) Pick(vs ...int) int { return vs[r.Intn(len(vs))] }

// Fork derives an independent stream (so that sub-generators do not disturb each other).
func (r *Rand) Fork() *Rand { return NewRand(r.U64()) }

// Failure is an oracle failure: the property does not hold on the real code for this case.
type Failure struct {
	Key  string      `json:"key"`  // stable identity of the failing behaviour (matched against KNOWN_FINDINGS)
	What string      `json:"what"` // human readable
	Case interface{} `json:"case"` // enough to replay
}

type Result struct {
	Property           string         `json:"property"`
	Seed               uint64         `json:"seed"`
	Tier               string         `json:"tier"`
	Evaluations        int            `json:"evaluations"`
	DistinctNontrivial int            `json:"distinct_nontrivial"`
	Rule               string         `json:"rule"`
	Samples            []interface{}  `json:"samples"`
	Hist               map[string]int `json:"histogram"`
	Failures           []Failure      `json:"failures"`
	Broken             []Failure      `json:"broken"` // broken correspondences that are NOT property violations by themselves
	OpLines            int            `json:"op_lines"`
	Notes              []string       `json:"notes,omitempty"`
	WallS              float64        `json:"wall_s"`
}

type Run struct {
	Prop    string
	Seed    uint64
	Tier    string
	OutDir  string
	Replay  string
	Search  bool
	R       *Rand
	res     Result
	nontriv map[string]struct{}
	opsF    *os.File
	implF   *os.File
	ops     *bufio.Writer
	impl    *bufio.Writer
	start   time.Time
	maxSamp int
}

// Start parses the standard flags: -seed -tier -out -replay -search.
func Start(prop, rule string) *Run {
	seed := flag.Uint64("seed", 1, "PRNG seed (VERIF_SEED)")
	tier := flag.String("tier", "quick", "quick|thorough")
	out := flag.String("out", "", "output directory")
	replay := flag.String("replay", "", "replay file (JSON with a `case`)")
	search := flag.Bool("search", false, "failing-input search mode (wider generators)")
	flag.Parse()
	if *out == "" {
		fmt.Fprintln(os.Stderr, "need -out")
		os.Exit(2)
	}
	if err := os.MkdirAll(*out, 0o755); err != nil {
		panic(err)
	}
	r := &Run{Prop: prop, Seed: *seed, Tier: *tier, OutDir: *out, Replay: *replay, Search: *search,
		R: NewRand(*seed), nontriv: map[string]struct{}{}, start: time.Now(), maxSamp: 6}
	r.res = Result{Property: prop, Seed: *seed, Tier: *tier, Rule: rule, Hist: map[string]int{}, Samples: []interface{}{}, Failures: []Failure{}, Broken: []Failure{}}
	var err error
	if r.opsF, err = os.Create(filepath.Join(*out, "ops.txt")); err != nil {
		panic(err)
	}
	if r.implF, err = os.Create(filepath.Join(*out, "impl.txt")); err != nil {
		panic(err)
	}
	r.ops = bufio.NewWriterSize(r.opsF, 1<<20)
	r.impl = bufio.NewWriterSize(r.implF, 1<<20)
	return r
}

func (r *Run) Thorough() bool { return r.Tier == "thorough" || r.Search }

// Scale picks the case count of the tier.
func (r *Run) Scale(quick, thorough int) int {
	if r.Thorough() {
		return thorough
	}
	return quick
}

// Op records one line of the protocol: what the model is asked and what the real code answered.
func (r *Run) Op(op, implOut string) {
	r.ops.WriteString(op)
	r.ops.WriteByte('\n')
	r.impl.WriteString(implOut)
	r.impl.WriteByte('\n')
	r.res.OpLines++
}

// Case counts one generated case (an input, an op sequence, a history).
func (r *Run) Case() { r.res.Evaluations++ }

// NonTrivial records that the case with this canonical key is non-trivial by the property's rule.
func (r *Run) NonTrivial(key string) { r.nontriv[key] = struct{}{} }

func (r *Run) Count(k string)         { r.res.Hist[k]++ }
func (r *Run) CountN(k string, n int) { r.res.Hist[k] += n }
func (r *Run) Note(format string, a ...interface{}) {
	r.res.Notes = append(r.res.Notes, fmt.Sprintf(format, a...))
}

func (r *Run) Sample(v interface{}) {
	if len(r.res.Samples) < r.maxSamp {
		r.res.Samples = append(r.res.Samples, v)
	}
}

// Fail records an oracle failure. Only the first few per key are kept.
func (r *Run) Fail(key, what string, c interface{}) {
	n := 0
	for _, f := range r.res.Failures {
		if f.Key == key {
			n++
		}
	}
	r.res.Hist["oracle_fail:"+key]++
	if n < 3 {
		r.res.Failures = append(r.res.Failures, Failure{Key: key, What: what, Case: c})
	}
}

func (r *Run) Failed() bool { return len(r.res.Failures) > 0 }

// Broken records that the real code left the envelope the model was built from (an internal-invariant probe
// failed, say) on a case where the property itself was NOT seen to fail. ./check treats it as a broken
// correspondence: it searches for a real failing input and otherwise reports `no-failing-input-found`.
func (r *Run) Broken(key, what string, c interface{}) {
	n := 0
	for _, f := range r.res.Broken {
		if f.Key == key {
			n++
		}
	}
	r.res.Hist["broken:"+key]++
	if n < 2 {
		r.res.Broken = append(r.res.Broken, Failure{Key: key, What: what, Case: c})
	}
}

// LoadReplay decodes the `case` member of the replay file into v.
func (r *Run) LoadReplay(v interface{}) {
	b, err := os.ReadFile(r.Replay)
	if err != nil {
		panic(err)
	}
	var w struct {
		Case json.RawMessage `json:"case"`
	}
	if err := json.Unmarshal(b, &w); err != nil {
		panic(err)
	}
	if err := json.Unmarshal(w.Case, v); err != nil {
		panic(err)
	}
}

// Finish flushes the streams and writes result.json.
func (r *Run) Finish() {
	r.ops.Flush()
	r.impl.Flush()
	r.opsF.Close()
	r.implF.Close()
	r.res.DistinctNontrivial = len(r.nontriv)
	r.res.WallS = time.Since(r.start).Seconds()
	sort.Strings(r.res.Notes)
	b, _ := json.MarshalIndent(r.res, "", " ")
	if err := os.WriteFile(filepath.Join(r.OutDir, "result.json"), b, 0o644); err != nil {
		panic(err)
	}
}

// Hex is the wire form of bytes in op lines ("-" for empty).
func Hex(b []byte) string {
	if len(b) == 0 {
		return "-"
	}
	return hex.EncodeToString(b)
}

// Guard runs f and reports a recovered panic as a string ("" = no panic).
func Guard(f func()) (p string) {
	defer func() {
		if v := recover(); v != nil {
			p = fmt.Sprint(v)
		}
	}()
	f()
	return ""
}

// GuardTimed runs f on its own goroutine and waits at most d for it: a recovered panic comes back as a string, a call
// that has not returned after d as hung = true (the goroutine is abandoned: it keeps running until the process exits, so
// the caller must not touch the object under test again).
func GuardTimed(d time.Duration, f func()) (p string, hung bool) {
	done := make(chan string, 1)
	go func() { done <- Guard(f) }()
	t := time.NewTimer(d)
	defer t.Stop()
	select {
	case p = <-done:
		return p, false
	case <-t.C:
		return "", true
	}
}

// DDMin shrinks a failing op list: fails(ops) must be true for the input.
func DDMin(n int, fails func(keep []int) bool) []int {
	keep := make([]int, n)
	for i := range keep {
		keep[i] = i
	}
	chunk := len(keep) / 2
	for chunk >= 1 {
		reduced := false
		for start := 0; start < len(keep); start += chunk {
			end := start + chunk
			if end > len(keep) {
				end = len(keep)
			}
			cand := append(append([]int{}, keep[:start]...), keep[end:]...)
			if len(cand) < len(keep) && fails(cand) {
				keep = cand
				reduced = true
				start -= chunk
			}
		}
		if !reduced {
			chunk /= 2
		}
	}
	return keep
}
