module verifharness

go 1.16

replace (
	github.com/coreos/bbolt => go.etcd.io/bbolt v1.3.6
	google.golang.org/grpc => google.golang.org/grpc v1.26.0
	qchen.fun/fatchoy => /repo
)

require (
	github.com/tjfoc/gmsm v1.4.1
	golang.org/x/crypto v0.0.0-20210921155107-089bfa567519
	google.golang.org/protobuf v1.26.0
	qchen.fun/fatchoy v0.0.0-00010101000000-000000000000
)
