package hxtimers

// Fourth round of legs shared by hx_c05 / hx_c06 (normal tiers, oracle only: the Lean model's clock never reads lower than
// before, and it has no real clock at all).
//
//	back       (regressing clocks)   Case.Back: through the synchronous driver's virtual clock the scheduler is polled with a
//	                                 reading that is LOWER than the previous one by 1, 2, 3, 500, 10^6 … units (NTP step, VM
//	                                 resume), once or several times, and with unit steps before, between and after. Rule of the
//	                                 oracle (RunBack):
//	                                 (a) a timer during whose life no backward step happened — in particular every timer started
//	                                     AFTER the last step — is judged exactly as everywhere else, on the readings it lived
//	                                     through: accepted at reading c with delay D it is due at c+D and must come out on the
//	                                     first poll reading >= max(c+D, c+1), a periodic one on the polls reading c+P, c+2P, …;
//	                                 (b) a timer PENDING across a backward step has two defensible due points — D units of
//	                                     forward-running time after its start (a scheduler that counts ticks) and the poll at
//	                                     which the new readings reach c+D (a scheduler that compares deadlines); one delivery
//	                                     anywhere between the two (inclusive) is accepted, it must have happened by the later of
//	                                     the two, and never twice: not lost, not early by both notions. A periodic one is judged
//	                                     by count at the end (between the two notions' counts) and must still be scheduled.
//	realclock  (real clock path)     RealClock: schedulers built by the public constructors with time units that are NOT whole
//	                                 milliseconds (1/60 s, 1/30 s, 2500 us, 1500 us, 333 us, 1 ms + 1 ns …) next to 1 ms / 10 ms,
//	                                 STARTED, on the real clock: RunAfter(k) must be delivered at all within k*unit + a generous
//	                                 margin, RunEvery(p) must deliver three times, afterwards Size() == 1 (the periodic one) and
//	                                 IsScheduled(one-shot) == false. No early / tight thresholds; a failure is believed only when
//	                                 it shows three times in a row.

import (
	"fmt"
	"sort"
	"time"

	"qchen.fun/fatchoy/sched"
)

// BackSpec: see the header. Delays > 0 in PreEvery / PostEvery.
type BackSpec struct {
	Warm      int        `json:"warm"`                 // unit polls before anything is started
	Pre       []int64    `json:"pre,omitempty"`        // RunAfter delays started before the first step
	PreEvery  []int64    `json:"pre_every,omitempty"`  // RunEvery periods started before the first step
	Gap       int        `json:"gap"`                  // unit polls between those starts and the first step
	Steps     []BackStep `json:"steps"`                // the backward steps
	Post      []int64    `json:"post,omitempty"`       // RunAfter delays started after the last step
	PostEvery []int64    `json:"post_every,omitempty"` // RunEvery periods started after the last step
	PostGap   int        `json:"post_gap,omitempty"`   // unit polls between the last step and those starts
	Polls     int        `json:"polls"`                // unit polls after the starts, each judged
}

type BackStep struct {
	Back int64 `json:"back"` // the poll reads this many units LESS than the previous one
	Then int   `json:"then"` // unit polls after it (before the next step)
}

type backTimer struct {
	id            int
	d, p          int64
	c             int64 // reading when it was accepted
	e             int64 // forward-running units when it was accepted
	crossed       bool  // a backward step happened while it was scheduled
	fired         int
	firedBefore   int // deliveries before the first step it crossed
	cancelled     bool
	afterLastStep bool
}

// RunBack runs Case.Back on a fresh scheduler (Sched, Pos, Time, Ctor … of the case) and returns the property failures.
func RunBack(c Case) (fs []Finding, polls int, crossedDelivered int) {
	b := c.Back
	r := NewReal(c, 1<<13)
	defer r.Close()
	tag := c.Sched
	cfg := c.Config()
	fail := func(key, format string, a ...interface{}) {
		if len(fs) < 3 {
			fs = append(fs, Finding{key, tag + cfg + ": " + fmt.Sprintf(format, a...)})
		}
	}
	reading, elapsed := c.Time, int64(0)
	lastBack := int64(0)
	var ts []*backTimer
	byID := map[int]*backTimer{}
	bad := func(ob Obs, what string) bool {
		if ob.Panic != "" {
			fail("back:crash:"+tag, "%s panicked: %s", what, ob.Panic)
			return true
		}
		if ob.Hang != "" {
			fail("back:hang:"+tag, "%s did not return: %s", what, ob.Hang)
			return true
		}
		return false
	}
	r.Watchdog = 20 * time.Second
	start := func(k string, a int64, post bool) bool {
		ob := r.Do(Op{K: k, A: a})
		if bad(ob, fmt.Sprintf("`%s %d` at reading %d", k, a, reading)) {
			return false
		}
		if ad := r.Do(Op{K: "add"}); bad(ad, "the worker's start-request step") {
			return false
		}
		t := &backTimer{id: ob.ID, d: a, c: reading, e: elapsed, afterLastStep: post}
		if k == "every" {
			t.p = a
		}
		if byID[t.id] != nil && !byID[t.id].cancelled && (byID[t.id].p > 0 || byID[t.id].fired == 0) {
			fail("back:id-reused:"+tag, "start returned id %d which is still scheduled", t.id)
			return false
		}
		ts = append(ts, t)
		byID[t.id] = t
		return true
	}
	since := func() string {
		if lastBack == 0 {
			return "no backward step so far"
		}
		return fmt.Sprintf("the clock had stepped back by %d and runs normally again", lastBack)
	}
	name := func(t *backTimer) string {
		when := "before the step"
		if t.afterLastStep {
			when = "AFTER the step"
		}
		if lastBack == 0 {
			when = "on a clock that never stepped"
		}
		if t.p > 0 {
			return fmt.Sprintf("timer %d (RunEvery(%d) started %s at reading %d)", t.id, t.p, when, t.c)
		}
		return fmt.Sprintf("timer %d (RunAfter(%d) started %s at reading %d)", t.id, t.d, when, t.c)
	}
	// poll: the clock reads `n` more than at the previous poll (n < 0: it stepped back); exact = judge rule (a) strictly
	poll := func(n int64) bool {
		polls++
		ob := r.Do(Op{K: "advance", A: n})
		what := fmt.Sprintf("the poll reading %d (previous reading %d)", reading+n, reading)
		if bad(ob, what) {
			return false
		}
		reading += n
		if n > 0 {
			elapsed += n
		} else {
			lastBack = -n
			for _, t := range ts {
				if !t.cancelled && (t.p > 0 || t.fired == 0) && !t.crossed {
					t.crossed, t.firedBefore = true, t.fired
				}
			}
		}
		got := map[int]int{}
		for _, id := range ob.Fired {
			got[id]++
		}
		for id, k := range got {
			t := byID[id]
			if t == nil {
				fail("back:unknown-delivery:"+tag, "%s delivered a Runnable no started timer carries", what)
				return false
			}
			if t.cancelled {
				fail("back:delivered-after-cancel:"+tag, "%s delivered %s after its Cancel was handled", what, name(t))
				return false
			}
			if t.p == 0 && t.fired+k > 1 {
				fail("back:delivered-twice:"+tag, "%s delivered the one-shot %s again (%d deliveries); %s", what, name(t), t.fired+k, since())
				return false
			}
		}
		for _, t := range ts {
			if t.cancelled {
				continue
			}
			k := got[t.id]
			run := elapsed - t.e // forward-running units since it was accepted
			first := t.d
			if first < 1 {
				first = 1
			}
			if !t.crossed {
				// rule (a): exact
				want := 0
				if t.p == 0 {
					if t.fired == 0 && run >= first {
						want = 1
					}
				} else {
					want = int(run/t.p) - t.fired
				}
				if k != want {
					if want > k {
						fail("back:not-delivered-on-due-poll:"+tag, "%s is due at reading %d; %s delivered it %d time(s), want %d (%d units after its start; %s)", name(t), t.c+first, what, k, want, run, since())
					} else {
						fail("back:early-or-extra-delivery:"+tag, "%s is due at reading %d; %s delivered it %d time(s), want %d (%d units after its start; %s)", name(t), t.c+first, what, k, want, run, since())
					}
					return false
				}
			} else if t.p == 0 {
				// rule (b): window between the tick-counting and the deadline-comparing due points
				if k > 0 && run < first {
					fail("back:early-delivery-across-step:"+tag, "%s, pending across a backward step of %d, was delivered by %s after only %d forward units", name(t), lastBack, what, run)
					return false
				}
				if k > 0 {
					crossedDelivered++
				}
				if t.fired+k == 0 && run >= first && reading >= t.c+first {
					fail("back:lost-across-step:"+tag, "%s was pending when the clock stepped back by %d; %d forward units have passed since its start and the clock reads %d >= its due reading %d again, but %s did not deliver it", name(t), lastBack, run, reading, t.c+first, what)
					return false
				}
			}
			t.fired += k
		}
		return true
	}
	unit := func(k int) bool {
		for i := 0; i < k; i++ {
			if !poll(1) {
				return false
			}
		}
		return true
	}
	if !unit(b.Warm) {
		return
	}
	for _, d := range b.Pre {
		if !start("after", d, false) {
			return
		}
	}
	for _, p := range b.PreEvery {
		if !start("every", p, false) {
			return
		}
	}
	if !unit(b.Gap) {
		return
	}
	for _, s := range b.Steps {
		if !poll(-s.Back) || !unit(s.Then) {
			return
		}
	}
	if !unit(b.PostGap) {
		return
	}
	for _, d := range b.Post {
		if !start("after", d, true) {
			return
		}
	}
	for _, p := range b.PostEvery {
		if !start("every", p, true) {
			return
		}
	}
	if !unit(b.Polls) {
		return
	}
	// counts and bookkeeping at the end of the unit polls
	want := 0
	for _, t := range ts {
		if t.p > 0 || t.fired == 0 {
			want++
		}
		sc := r.Do(Op{K: "sched", A: int64(t.id)})
		if bad(sc, "IsScheduled") {
			return
		}
		if sc.Bool != (t.p > 0 || t.fired == 0) {
			fail("back:scheduled:"+tag, "IsScheduled(%d) answers %v for %s, delivered %d time(s); %s", t.id, sc.Bool, name(t), t.fired, since())
			return
		}
		if t.p > 0 && t.crossed {
			run := elapsed - t.e
			hi := int(run / t.p)
			lo := t.firedBefore
			if x := int((reading - t.c) / t.p); reading >= t.c && x > lo {
				lo = x
			}
			if lo > hi {
				lo = hi
			}
			if t.fired > hi || t.fired < lo-1 { // (-1: a deadline-comparing scheduler re-arms from the delivering tick, which may sit one poll later than a multiple)
				fail("back:periodic-count-across-step:"+tag, "%s, pending across a backward step of %d, was delivered %d time(s) in %d forward units (clock now reads %d); between %d and %d are defensible", name(t), lastBack, t.fired, run, reading, lo, hi)
				return
			}
		}
	}
	sz := r.Do(Op{K: "size"})
	if bad(sz, "Size") {
		return
	}
	if sz.N != want {
		fail("back:size:"+tag, "Size() = %d with %d timers scheduled (%s)", sz.N, want, since())
		return
	}
	// the periodic ones are cancelled; one long stall of the poller then closes every window of rule (b)
	for _, t := range ts {
		if t.p > 0 {
			cn := r.Do(Op{K: "cancel", A: int64(t.id)})
			dl := r.Do(Op{K: "del"})
			if bad(cn, "Cancel") || bad(dl, "the worker's cancel-request step") {
				return
			}
			if !cn.Bool {
				fail("back:cancel-result:"+tag, "Cancel(%d) of the scheduled %s answered false", t.id, name(t))
				return
			}
			t.cancelled = true
		}
	}
	var jump int64 = 2
	for _, s := range b.Steps {
		jump += s.Back
	}
	for _, t := range ts {
		if t.p == 0 && t.fired == 0 && t.d > 0 {
			jump += t.d
		}
	}
	if !poll(jump) {
		return
	}
	ids := []int{}
	for _, t := range ts {
		if t.p == 0 && t.fired != 1 {
			ids = append(ids, t.id)
		}
	}
	sort.Ints(ids)
	if len(ids) > 0 {
		fail("back:lost-across-step:"+tag, "after a final stall of %d units every one-shot timer is long due by every notion; timers %v were not delivered exactly once", jump, ids)
		return
	}
	if sz := r.Do(Op{K: "size"}); sz.N != 0 && sz.Panic == "" {
		fail("back:size:"+tag, "Size() = %d after every timer was delivered or cancelled", sz.N)
	}
	return
}

// ---- real clock ---------------------------------------------------------------------------------------------------

// RealClockUnits: time units for the public constructors (ns).
var RealClockUnits = []int64{
	int64(time.Second / 60), int64(time.Second / 30), int64(2500 * time.Microsecond), int64(1500 * time.Microsecond), int64(333 * time.Microsecond),
	int64(time.Millisecond + 1), int64(time.Millisecond - 1), int64(1001 * time.Microsecond), int64(7777 * time.Microsecond), int64(time.Second / 120),
	int64(time.Second / 144), int64(100 * time.Microsecond), int64(time.Millisecond), int64(10 * time.Millisecond), int64(16 * time.Millisecond),
}

func realClockOnce(kind string, tickNs, unitNs int64, margin time.Duration) string {
	var t sched.Timer
	if kind == "wheel" {
		t = sched.NewHHWheelTimer(time.Duration(tickNs), time.Duration(unitNs))
	} else {
		t = sched.NewTimerQueue(time.Duration(tickNs), time.Duration(unitNs))
	}
	type starter interface{ Start() }
	type stopper interface{ Shutdown() }
	if s, ok := t.(starter); ok {
		s.Start()
	}
	defer func() {
		done := make(chan struct{})
		go func() {
			defer close(done)
			defer func() { recover() }()
			if s, ok := t.(stopper); ok {
				s.Shutdown()
			}
		}()
		select {
		case <-done:
		case <-time.After(5 * time.Second):
		}
	}()
	unit := time.Duration(unitNs)
	const k, p = 3, 2
	one, per := &probe{serial: 1}, &probe{serial: 2}
	t0 := time.Now()
	idOne := t.RunAfter(k, one)
	idPer := t.RunEvery(p, per)
	_ = idPer
	nOne, nPer := 0, 0
	deadline := time.NewTimer(time.Duration(k+3*p)*unit + time.Duration(tickNs)*4 + margin)
	defer deadline.Stop()
	for nOne < 1 || nPer < 3 {
		select {
		case x := <-t.Chan():
			switch x {
			case sched.Runnable(one):
				nOne++
			case sched.Runnable(per):
				nPer++
			default:
				return "Chan() delivered a Runnable that no timer carries"
			}
			if nOne > 1 {
				return fmt.Sprintf("the one-shot RunAfter(%d) was delivered %d times", k, nOne)
			}
		case <-deadline.C:
			return fmt.Sprintf("RunAfter(%d units = %v) delivered %d time(s) and RunEvery(%d units = %v) %d time(s) within %v of their start (want 1 and >= 3; Size() = %d, IsScheduled(one-shot) = %v)",
				k, k*unit, nOne, p, p*unit, nPer, time.Since(t0).Round(time.Millisecond), t.Size(), t.IsScheduled(idOne))
		}
	}
	// bookkeeping read back (the worker removes a delivered one-shot before it sends it)
	if t.IsScheduled(idOne) {
		return fmt.Sprintf("the one-shot RunAfter(%d) was delivered and IsScheduled still answers true", k)
	}
	if n := t.Size(); n != 1 {
		return fmt.Sprintf("Size() = %d after the one-shot was delivered (the periodic timer alone is scheduled)", n)
	}
	return ""
}

// RealClock: "" = fine. A failure is believed only when it shows three times in a row.
func RealClock(kind string, tickNs, unitNs int64) string {
	what := ""
	for rep := 0; rep < 3; rep++ {
		what = realClockOnce(kind, tickNs, unitNs, time.Duration(2+rep)*time.Second)
		if what == "" {
			return ""
		}
	}
	return fmt.Sprintf("%s built by the public constructor with tickInterval=%v timeUnit=%v, started, on the real clock (3 attempts, margins 2-4 s): %s", kind, time.Duration(tickNs), time.Duration(unitNs), what)
}
