package hxtimers

// Dimensions the ordinary generators of hx_c05 / hx_c06 do not vary (they run in the NORMAL tiers: a change that only
// edits function bodies never triggers -search). Each is a field of Case layered over an ordinary history; the judge
// is the same dumb table (Ref) as everywhere else.
//
//	objects      (shared / diverse Runnables)  Case.Obj: one *sched.Task shared by several pending timers, reused after
//	                                           delivery / cancel, a *sched.Task per timer, uncomparable dynamic types;
//	                                           Case.Consume: the consumer calls Run() on what it receives
//	constructors (configuration)               Case.Ctor: NewDefaultHHWheelTimer / NewDefaultTimerQueue and the public
//	                                           constructors with tickInterval/timeUnit = 0, 1, 2, 5, 7, 10, 1000, put
//	                                           under the synchronous driver afterwards (its step functions work on any
//	                                           scheduler value); time is counted in time units as everywhere
//	extremes     (machine-word arguments)      ExtremeArgsCase: RunAfter / RunEvery / Cancel / IsScheduled with MaxInt,
//	                                           MaxInt-1, MinInt, MinInt+1, -1, 0, 62..65, 2^31+-1, 2^32+-1
//	id-wrap      (counter positions)           IDWrapCase (search.go) — cheap, so it runs in every tier too
//	re-entrant   (real goroutines)             LiveReentrant: the consumer goroutine calls Run() on what Chan() hands
//	                                           out, and the Runnables start, re-arm and cancel timers of the same
//	                                           scheduler from there (judged by counts, never by wall-clock)

import (
	"fmt"
	"math"
	"time"

	"verifharness/hxlib"

	"qchen.fun/fatchoy/sched"
)

// ObjKinds: Case.Obj values (shared objects weigh most).
var ObjKinds = []string{"shared:1", "shared:1", "shared:2", "shared:3", "task", "value", "func"}

// Config is one way to build a scheduler through the public API.
type Config struct {
	Ctor           string
	TickNs, UnitNs int64
}

// Configs lists the public constructors and legal parameter combinations (ratio tickInterval/timeUnit in the comment).
func Configs(sched string) []Config {
	ms, us := int64(time.Millisecond), int64(time.Microsecond)
	if sched == "wheel" {
		return []Config{
			{"default", 0, 0},      // 5 ms / 1 ms: 5
			{"new", ms, ms},        // 1
			{"new", 2 * ms, ms},    // 2
			{"new", 5 * ms, ms},    // 5
			{"new", 10 * ms, ms},   // 10
			{"new", 10 * ms, 2 * ms}, // 5, another unit
			{"new", 20 * ms, 2 * ms}, // 10
			{"new", 3 * ms, 2 * ms}, // 1 (1.5)
			{"new", ms, 2 * ms},    // 0 (the ticker is faster than the unit)
			{"new", 7 * us, us},    // 7
			{"new", 1000 * ms, ms}, // 1000
		}
	}
	return []Config{
		{"default", 0, 0}, // 10 ms / 1 ms
		{"new", ms, ms},
		{"new", 2 * ms, ms},
		{"new", 5 * ms, ms},
		{"new", 10 * ms, 2 * ms},
		{"new", ms, 2 * ms},
		{"new", 7 * us, us},
		{"new", 1000 * ms, ms},
	}
}

func (g Config) Apply(c *Case) { c.Ctor, c.TickNs, c.UnitNs = g.Ctor, g.TickNs, g.UnitNs }

// Ratio: tickInterval / timeUnit of the configuration (what a real ticker would make one burst of).
func (g Config) Ratio(sched string) int64 {
	if g.Ctor == "default" {
		if sched == "wheel" {
			return 5
		}
		return 10
	}
	if g.UnitNs <= 0 || g.TickNs/g.UnitNs < 1 {
		return 1
	}
	return g.TickNs / g.UnitNs
}

// ExtremeArgsCase: every int parameter of the Timer API at the machine-word extremes. The scheduler starts at time 0
// (time + delay must fit an int64: the stated assumption of the property), so MaxInt is a legal delay there.
func ExtremeArgsCase(R *hxlib.Rand, sched string) Case {
	c := Case{Sched: sched, Time: 0, Pos: uint32(R.Pick(0, 255, 1<<14-1, 1<<32-1, 1<<32-256))}
	add := func(k string, a int64) { c.Ops = append(c.Ops, Op{K: k, A: a}) }
	start := func(k string, a int64) { add(k, a); add("add", 0) }
	far := []int64{math.MaxInt64, math.MaxInt64 - 1, 1<<31 - 1, 1 << 31, 1<<31 + 1, 1<<32 - 1, 1 << 32, 1<<32 + 1}
	near := []int64{math.MinInt64, math.MinInt64 + 1, -1, 0, 62, 63, 64, 65}
	n := 0
	for _, d := range far {
		start("after", d)
		n++
	}
	for _, d := range near {
		start("after", d)
		n++
	}
	start("every", math.MaxInt64)
	start("every", math.MaxInt64-1)
	start("every", 1<<31+1)
	start("every", 1<<32+1)
	n += 4
	per1 := []int64{int64(n + 1), int64(n + 2), int64(n + 3)}
	start("every", math.MinInt64) // a negative interval counts as 1
	start("every", -1)
	start("every", 0)
	start("every", 64)
	n += 4
	add("size", 0)
	add("links", 0)
	ids := []int64{math.MaxInt64, math.MaxInt64 - 1, math.MinInt64, math.MinInt64 + 1, -1, 0, 62, 63, 64, 65, 1<<31 - 1, 1 << 31, 1<<31 + 1, 1<<32 - 1, 1 << 32, 1<<32 + 1}
	probeIDs := func() {
		for _, x := range ids {
			add("sched", x)
			add("cancel", x) // no such timer: false, and nothing is disturbed
		}
	}
	probeIDs()
	add("advance", 1)
	add("size", 0)
	add("advance", 61)
	add("advance", 1)
	add("advance", 1)
	add("advance", 1)
	add("advance", 2)
	for _, id := range per1 {
		add("cancel", id)
		add("del", 0)
	}
	add("size", 0)
	add("advance", int64(R.Pick(255, 256, 257, 300)))
	probeIDs()
	add("size", 0)
	for id := 1; id <= n; id++ {
		add("sched", int64(id))
	}
	add("links", 0)
	for id := 1; id <= n; id++ {
		add("cancel", int64(id))
		add("del", 0)
	}
	add("advance", 70)
	add("size", 0)
	add("links", 0)
	return c
}

// ---- re-entrancy on the real goroutines ---------------------------------------------------------------------------

// liveReentrantOnce starts the REAL scheduler (worker goroutine, ticker, select loop) built by a public constructor;
// this goroutine is the consumer of Chan() and calls Run() on everything it receives. The Runnables are *sched.Task
// objects whose actions call back into the same scheduler from there:
//
//	chain    hop i starts hop i+1 (delay 0..2 units), cancels the far-away "victim" timer the previous hop started
//	         and starts a new one
//	self     one *sched.Task that re-arms ITSELF (the same object) until it has run 8 times
//	periodic RunEvery(1) whose 5th run cancels its own timer
//
// Judged by counts only: every hop delivered exactly once, the self task exactly 8 times, no victim ever, every
// Cancel of a pending timer true, after the periodic timer's Cancel at most the deliveries that were already in
// Chan() plus the one in flight, Size() 0 at the end, Shutdown returns. Deadlines are generous (10 s).
func liveReentrantOnce(kind string, def bool) string {
	var t sched.Timer
	switch {
	case kind == "wheel" && def:
		t = sched.NewDefaultHHWheelTimer()
	case kind == "wheel":
		t = sched.NewHHWheelTimer(2*time.Millisecond, time.Millisecond)
	case def:
		t = sched.NewDefaultTimerQueue()
	default:
		t = sched.NewTimerQueue(2*time.Millisecond, time.Millisecond)
	}
	t.Start()
	shut := func() string {
		done := make(chan struct{})
		go func() { t.Shutdown(); close(done) }()
		select {
		case <-done:
			return ""
		case <-time.After(5 * time.Second):
			return "Shutdown did not return within 5 s"
		}
	}
	const hops, selfRuns = 10, 8
	var problems []string
	bad := func(format string, a ...interface{}) {
		if len(problems) < 4 {
			problems = append(problems, fmt.Sprintf(format, a...))
		}
	}
	hopCount := make([]int, hops)
	victimRuns, victim := 0, 0
	victimTask := sched.NewTask(func() error { victimRuns++; return nil })
	chainDone := false
	var hop func(i int) *sched.Task
	hop = func(i int) *sched.Task {
		return sched.NewTask(func() error {
			hopCount[i]++
			if victim != 0 {
				if !t.Cancel(victim) {
					bad("Cancel(%d) of a pending timer, called from the Run() of a delivered timer, returned false", victim)
				}
				if t.IsScheduled(victim) {
					bad("IsScheduled(%d) true right after its Cancel returned true (called from Run())", victim)
				}
			}
			victim = t.RunAfter(1000000, victimTask)
			if !t.IsScheduled(victim) {
				bad("a timer started from the Run() of a delivered timer is not reported as scheduled")
			}
			if i+1 < hops {
				t.RunAfter(i%3, hop(i+1))
			} else {
				chainDone = true
			}
			return nil
		})
	}
	selfCount := 0
	var self *sched.Task
	self = sched.NewTask(func() error {
		selfCount++
		if selfCount < selfRuns {
			t.RunAfter(1, self)
		}
		return nil
	})
	perCount, perAfter, perAllowed, perID := 0, 0, 0, 0
	perCancelled := false
	per := sched.NewTask(func() error {
		perCount++
		switch {
		case perCancelled:
			perAfter++
		case perCount == 5:
			inChan := len(t.Chan())
			if !t.Cancel(perID) {
				bad("Cancel of a periodic timer from its own Run() returned false")
			}
			perCancelled, perAllowed = true, inChan+3 // already in Chan(), in flight, and one tick's two passes racing the call
		}
		return nil
	})
	t.RunAfter(1, hop(0))
	t.RunAfter(2, self)
	perID = t.RunEvery(1, per)
	deadline := time.After(10 * time.Second)
	timedOut := false
	for !(chainDone && selfCount >= selfRuns && perCancelled) && !timedOut {
		select {
		case r := <-t.Chan():
			if r != nil {
				r.Run()
			}
		case <-deadline:
			timedOut = true
		}
	}
	if timedOut {
		shut()
		return fmt.Sprintf("after 10 s: chain hops delivered %v (each wants 1), the self-re-arming task ran %d of %d times, the periodic task %d times%s",
			hopCount, selfCount, selfRuns, perCount, join(problems))
	}
	if victim != 0 && !t.Cancel(victim) {
		bad("Cancel(%d) of the last pending victim returned false", victim)
	}
	// whatever is still on its way arrives in these two quiet windows; nothing of it may be a hop, the self task or a victim
	for w := 0; w < 2; w++ {
		quiet := time.After(40 * time.Millisecond)
	drain:
		for {
			select {
			case r := <-t.Chan():
				if r != nil {
					r.Run()
				}
			case <-quiet:
				break drain
			}
		}
	}
	for i, n := range hopCount {
		if n != 1 {
			bad("chain hop %d (a one-shot timer started from the Run() of hop %d) was delivered %d times", i, i-1, n)
		}
	}
	if selfCount != selfRuns {
		bad("the task that re-arms itself from its own Run() was delivered %d times, want %d", selfCount, selfRuns)
	}
	if victimRuns != 0 {
		bad("a timer cancelled from inside Run() (Cancel returned true) was delivered %d time(s)", victimRuns)
	}
	if perAfter > perAllowed {
		bad("the periodic timer was delivered %d more time(s) after its Cancel (from its own Run()) returned true; %d were in Chan() or in flight then", perAfter, perAllowed)
	}
	if n := t.Size(); n != 0 {
		bad("Size()=%d with nothing scheduled", n)
	}
	if s := shut(); s != "" {
		bad("%s", s)
	}
	if len(problems) == 0 {
		return ""
	}
	return join(problems)[2:]
}

func join(ps []string) string {
	s := ""
	for _, p := range ps {
		s += "; " + p
	}
	return s
}

// LiveReentrant believes a failure only if it shows three times in a row. name = "<kind>" or "<kind>-default".
func LiveReentrant(name string) string {
	kind, def := name, false
	if n := len(name); n > 8 && name[n-8:] == "-default" {
		kind, def = name[:n-8], true
	}
	var what string
	for k := 0; k < 3; k++ {
		if what = liveReentrantOnce(kind, def); what == "" {
			return ""
		}
	}
	return what
}

// LiveReentrantNames: the four runs.
var LiveReentrantNames = []string{"wheel-default", "heap-default", "wheel", "heap"}
