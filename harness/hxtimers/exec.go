package hxtimers

import (
	"fmt"
	"hash/fnv"
	"strings"
	"time"

	"verifharness/hxlib"
)

type Finding struct{ Key, What string }

// Result of one case on the real code.
type Exec struct {
	Obs      []Obs
	Findings []Finding
	Ref      *Ref
	Ran      int // ops actually run (a panic ends the case)
	Skipped  bool // the case needs a pre-positioned id counter and the scheduler has no such field
}

// Run executes the case on a fresh real scheduler and evaluates the property on every observation.
func Run(c Case, strictOrder bool) *Exec {
	e := &Exec{}
	bound := 1 << 12
	// deliveries of one advance can never exceed (timers started) * (ticks of the burst) + timers
	starts, maxAdv := 0, int64(0)
	for _, o := range c.Ops {
		if o.K == "after" || o.K == "every" {
			starts++
		}
		if o.K == "advance" && o.A > maxAdv {
			maxAdv = o.A
		}
		if o.K == "ftick" {
			for _, sub := range o.Sub {
				starts += len(sub)
			}
			if maxAdv < 2 {
				maxAdv = 2
			}
		}
	}
	if b := int64(starts)*(maxAdv+2) + 16; b > int64(bound) {
		if b > 1<<24 {
			b = 1 << 24
		}
		bound = int(b)
	}
	if c.Live {
		bound = c.Cbuf
		if bound < 1 {
			bound = 1
		}
	}
	real := NewReal(c, bound)
	defer real.Close()
	if c.Live {
		real.Watchdog = 40 * time.Second
	} else if c.NextID > 0 {
		real.Watchdog = 10 * time.Second
	}
	e.Ref = NewRef(c, func(key, what string) { e.Findings = append(e.Findings, Finding{key, what}) })
	e.Ref.StrictOrder = strictOrder
	e.Ref.Cbuf = bound
	if c.NextID > 0 && !real.PrePositioned {
		e.Skipped = true
		return e
	}
	for _, o := range c.Ops {
		ob := real.Do(o)
		e.Obs = append(e.Obs, ob)
		e.Ran++
		e.Ref.Step(o, ob)
		if real.Dead || len(e.Findings) > 0 {
			break // after the first failure the reference table no longer describes the real scheduler
		}
	}
	return e
}

func (c Case) Key() string {
	h := fnv.New64a()
	h.Write([]byte(c.Header() + c.Config()))
	for _, o := range c.Ops {
		h.Write([]byte(o.String()))
		h.Write([]byte{';'})
	}
	return fmt.Sprintf("%016x", h.Sum64())
}

// Shrink removes ops while a finding with the same key survives.
func Shrink(c Case, key string, strictOrder bool) Case {
	if len(c.Ops) > 2000 {
		return c
	}
	// (live cases and hangs are slow to re-run: shrinking stops when its time is up)
	stop := time.Now().Add(15 * time.Second)
	has := func(cc Case) bool {
		if time.Now().After(stop) {
			return false
		}
		for _, f := range Run(cc, strictOrder).Findings {
			if f.Key == key {
				return true
			}
		}
		return false
	}
	keep := hxlib.DDMin(len(c.Ops), func(keep []int) bool {
		cc := c
		cc.Ops = nil
		for _, i := range keep {
			cc.Ops = append(cc.Ops, c.Ops[i])
		}
		return has(cc)
	})
	out := c
	out.Ops = nil
	for _, i := range keep {
		out.Ops = append(out.Ops, c.Ops[i])
	}
	return out
}

var reported = map[string]int{}

// Emit runs the case, writes its op lines (when model is true) and reports oracle failures.
// Returns the execution for statistics.
func Emit(r *hxlib.Run, c Case, model, strictOrder bool) *Exec {
	r.Case()
	e := Run(c, strictOrder)
	if model {
		r.Op(c.Header(), "ok")
		for i := 0; i < e.Ran; i++ {
			if c.Ops[i].K == "ftick" {
				// flattened: fbegin / (yield, client ops)* / fend
				r.Op("fbegin "+fmt.Sprint(c.Ops[i].A), "ok")
				for _, st := range e.Obs[i].Steps {
					r.Op("yield", fmt.Sprintf("%s %d", st.Point, st.ID))
					for j, co := range st.Ops {
						r.Op(co.String(), st.Obs[j].Out)
					}
				}
				r.Op("fend", e.Obs[i].Out)
				continue
			}
			r.Op(c.Ops[i].String(), e.Obs[i].Out)
		}
	}
	seen := map[string]bool{}
	for _, f := range e.Findings {
		if seen[f.Key] {
			continue
		}
		seen[f.Key] = true
		reported[f.Key]++
		if reported[f.Key] > 3 { // hxlib keeps three per key: count the rest without shrinking them
			r.Fail(f.Key, f.What, nil)
			continue
		}
		if strings.HasPrefix(f.Key, "hang:") { // every re-run would wait for the watchdog again
			r.Fail(f.Key, f.What, c)
			continue
		}
		small := Shrink(c, f.Key, strictOrder)
		what := f.What
		for _, g := range Run(small, strictOrder).Findings {
			if g.Key == f.Key {
				what = g.What
				break
			}
		}
		r.Fail(f.Key, what, small)
	}
	for i := 0; i < e.Ran; i++ {
		r.Count(c.Sched + ":" + c.Ops[i].K)
	}
	return e
}
