package hxtimers

// Failing-input search legs shared by hx_c05 and hx_c06 (run only with -search). Each leg is a generator of
// histories aimed at a CLASS of defect the ordinary generators cannot reach; the judge is the same dumb table
// (Ref) as everywhere else:
//
//	burst-due      (scale)     129 .. 4097 timers due on the same one to three ticks (more than the request queues
//	                           and the default delivery channel hold), delivered in one burst or tick by tick
//	queue-depth    (scale)     32 .. 128 start / cancel requests outstanding at once before the worker handles any,
//	                           cancelled timers meeting their expiry meanwhile, survivors cancelled or delivered later
//	many-pending   (scale)     2^16+1 / 2^17+1 timers pending at once (ids cross 2^16 and 2^17), an eighth cancelled
//	period-exact   (period)    a one-shot and a periodic timer are observed, then EXACTLY 2^16, 2^17, 2^18 or 2^20
//	                           start+cancel cycles, start+deliver cycles or reads follow, then everything is observed again
//	id-wrap        (period)    the id counter pre-positioned just below 2^15, 2^16, 2^31, 2^32 (stands for that many
//	                           starts), timers started across the boundary — cheap: ALSO run in the normal tiers
//	                           (cmd/hx_c05|hx_c06/diversity.go), because a body-only change never triggers -search
//	live-slow      (schedule)  Chan() of capacity 1..3, the worker's burst on its own goroutine, the consumer takes one
//	                           delivery at a time and only when the worker stands blocked in its send
//	live-client    (schedule)  the same, and client calls (Cancel / IsScheduled / Size / RunAfter) are issued while the
//	                           worker stands blocked in its send; the consumer sometimes stalls 15..50 ms first
//
// Long legs are replayed from their recipe (Case.Search); short ones as a plain (shrunk) Case.

import (
	"fmt"
	"sync/atomic"
	"time"

	"verifharness/hxlib"
)

// Spec is the recipe of a generated history (the scheduler, position and time are the Case's own fields).
type Spec struct {
	Leg    string `json:"leg"`
	Seed   uint64 `json:"seed"`
	N      int    `json:"n,omitempty"`
	K      int    `json:"k,omitempty"`
	Flavor string `json:"flavor,omitempty"`
}

// Session runs ops one by one on the real scheduler and the reference table (nothing is stored beyond the first
// few hundred ops, so a history may be millions of ops long).
type Session struct {
	C        Case
	Real     *Real
	Ref      *Ref
	Findings []Finding
	Kept     []Op
	NOps     int
	Fired    int
	MaxDue   int // most deliveries of a single advance
	cur      Op
	beat     int64
}

const keepOps = 2000

func newSession(c Case, cbuf int, strict bool) *Session {
	s := &Session{C: c}
	s.Real = NewReal(c, cbuf)
	s.Ref = NewRef(c, func(key, what string) { s.Findings = append(s.Findings, Finding{key, what}) })
	s.Ref.StrictOrder = strict
	s.Ref.Cbuf = cbuf
	return s
}

func (s *Session) Stopped() bool { return s.Real.Dead || len(s.Findings) > 0 }

func (s *Session) Do(o Op) Obs {
	if s.Stopped() {
		return Obs{Refuse: true, Out: "dead"}
	}
	s.cur = o
	ob := s.Real.Do(o)
	s.NOps++
	atomic.AddInt64(&s.beat, 1)
	if len(s.Kept) < keepOps {
		s.Kept = append(s.Kept, o)
	}
	s.Fired += len(ob.Fired)
	if len(ob.Fired) > s.MaxDue {
		s.MaxDue = len(ob.Fired)
	}
	s.Ref.Step(o, ob)
	return ob
}

func (s *Session) op(k string, a int64) Obs { return s.Do(Op{K: k, A: a}) }

// start: one start request, accepted at once.
func (s *Session) start(k string, a int64) int {
	ob := s.op(k, a)
	s.op("add", 0)
	return ob.ID
}

// Legs lists the generators by name.
var legs = map[string]func(s *Session, sp Spec){
	"burst-due":    legBurstDue,
	"queue-depth":  legQueueDepth,
	"many-pending": legManyPending,
	"period-exact": legPeriodExact,
}

// RunSearch regenerates and runs the history of a recipe case.
func RunSearch(c Case, strict bool) *Session {
	cbuf := 1 << 18
	s := newSession(c, cbuf, strict)
	defer s.Real.Close()
	f := legs[c.Search.Leg]
	if f == nil {
		return s
	}
	// the history runs on a goroutine of its own; an op that never returns is a finding, not a stuck harness
	done := make(chan struct{})
	go func() { defer close(done); f(s, *c.Search) }()
	last, idle := int64(-1), 0
	tk := time.NewTicker(500 * time.Millisecond)
	defer tk.Stop()
	for {
		select {
		case <-done:
			return s
		case <-tk.C:
			if n := atomic.LoadInt64(&s.beat); n != last {
				last, idle = n, 0
			} else if idle++; idle >= 40 {
				s.Real.Dead = true
				s.Findings = append(s.Findings, Finding{"hang:" + c.Sched + ":" + s.cur.K, fmt.Sprintf("%s: `%s` (op %d of the history) did not return within 20 s", c.Sched, s.cur.Short(), s.NOps+1)})
				return s
			}
		}
	}
}

// EmitSearch runs a recipe case and reports its findings: as a plain shrunk Case when the history is short and
// the plain Case shows the same failure, as the recipe otherwise.
func EmitSearch(r *hxlib.Run, c Case, strict bool) *Session {
	r.Case()
	s := RunSearch(c, strict)
	r.Count("search:" + c.Search.Leg)
	r.CountN("search:"+c.Search.Leg+":ops", s.NOps)
	r.CountN("search:"+c.Search.Leg+":deliveries", s.Fired)
	seen := map[string]bool{}
	for _, f := range s.Findings {
		if seen[f.Key] {
			continue
		}
		seen[f.Key] = true
		if s.NOps <= keepOps && len(f.Key) > 5 && f.Key[:5] != "hang:" {
			plain := c
			plain.Search = nil
			plain.Ops = s.Kept
			same := false
			for _, g := range Run(plain, strict).Findings {
				same = same || g.Key == f.Key
			}
			if same {
				small := Shrink(plain, f.Key, strict)
				what := f.What
				for _, g := range Run(small, strict).Findings {
					if g.Key == f.Key {
						what = g.What
						break
					}
				}
				r.Fail(f.Key, what, small)
				continue
			}
		}
		r.Fail(f.Key, fmt.Sprintf("%s [history of %d ops regenerated from the recipe %s n=%d k=%d %s seed=%d]", f.What, s.NOps, c.Search.Leg, c.Search.N, c.Search.K, c.Search.Flavor, c.Search.Seed), c)
	}
	return s
}

// ---- scale: many timers due together -----------------------------------------------------------------------

func legBurstDue(s *Session, sp Spec) {
	R := hxlib.NewRand(sp.Seed)
	d0 := int64(R.Pick(1, 2, 3, 255, 256, 257, 300))
	spread := R.Pick(1, 1, 2, 3)
	var periodic []int
	for i := 0; i < sp.N && !s.Stopped(); i++ {
		if R.Chance(1, 24) {
			periodic = append(periodic, s.start("every", d0))
		} else {
			s.start("after", d0+int64(R.Intn(spread)))
		}
	}
	s.op("size", 0)
	end := d0 + int64(spread) + 2
	if sp.Flavor == "one-burst" {
		s.op("advance", end)
	} else {
		if d0 > 4 {
			s.op("advance", d0-2)
			end -= d0 - 2
		}
		for t := int64(0); t < end; t++ {
			s.op("advance", 1)
		}
	}
	s.op("size", 0)
	s.op("advance", d0) // the periodic ones fall due together once more
	for _, id := range periodic {
		s.op("cancel", int64(id))
		s.op("del", 0)
	}
	s.op("advance", 2*d0+2)
	s.op("size", 0)
	s.op("links", 0)
}

// ---- scale: many requests outstanding before the worker handles any ---------------------------------------------

func legQueueDepth(s *Session, sp Spec) {
	R := hxlib.NewRand(sp.Seed)
	K := sp.K
	var ids []int
	per := map[int]bool{}
	startOne := func(accept bool) {
		var id int
		if R.Chance(1, 8) {
			id = s.op("every", int64(R.Range(2, 9))).ID
			per[id] = true
		} else {
			id = s.op("after", int64(R.Range(3, 40))).ID
		}
		if accept {
			s.op("add", 0)
		}
		ids = append(ids, id)
	}
	M := K + R.Range(1, 40)
	if sp.Flavor == "starts" {
		// K start requests outstanding, some cancelled before the worker has seen them
		for i := 0; i < M-K; i++ {
			startOne(true)
		}
		for i := 0; i < K; i++ {
			startOne(false)
		}
		nc := R.Range(0, K/2)
		for i := 0; i < nc; i++ {
			s.op("cancel", int64(ids[len(ids)-1-R.Intn(K)]))
		}
		if R.Bool() {
			s.op("advance", int64(R.Range(1, 3)))
		}
		for i := 0; i < K; i++ {
			s.op("add", 0)
		}
		for i := 0; i < nc; i++ {
			s.op("del", 0)
		}
	} else {
		for i := 0; i < M; i++ {
			startOne(true)
		}
		if R.Bool() {
			s.op("advance", int64(R.Range(1, 2)))
		}
		// K cancel requests outstanding (each of a different pending timer)
		perm := make([]int, len(ids))
		for i := range perm {
			perm[i] = i
		}
		for i := len(perm) - 1; i > 0; i-- {
			j := R.Intn(i + 1)
			perm[i], perm[j] = perm[j], perm[i]
		}
		for i := 0; i < K && i < len(perm); i++ {
			s.op("cancel", int64(ids[perm[i]]))
		}
		s.op("size", 0)
		if R.Chance(1, 3) {
			s.op("advance", int64(R.Range(1, 4))) // cancelled timers meet their expiry with the request still queued
		}
		for i := 0; i < K; i++ {
			s.op("del", 0)
			if R.Chance(1, 40) {
				s.op("advance", 1)
			}
		}
	}
	s.op("links", 0)
	s.op("size", 0)
	// the survivors: some are cancelled now (one request at a time), the others must be delivered
	for _, id := range ids {
		if R.Chance(1, 3) {
			s.op("cancel", int64(id))
			s.op("del", 0)
		} else if R.Chance(1, 6) {
			s.op("sched", int64(id))
		}
	}
	s.op("links", 0)
	for t := 0; t < 45; t += 3 {
		s.op("advance", 3)
	}
	s.op("size", 0)
	for _, id := range ids {
		if per[id] {
			s.op("cancel", int64(id))
			s.op("del", 0)
		}
	}
	s.op("advance", 10)
	s.op("size", 0)
	s.op("links", 0)
}

// ---- scale: very many timers pending at once ------------------------------------------------------------------

func legManyPending(s *Session, sp Spec) {
	R := hxlib.NewRand(sp.Seed)
	horizon := 4000
	ids := make([]int, 0, sp.N)
	var periodic []int
	for i := 0; i < sp.N && !s.Stopped(); i++ {
		if i%4099 == 7 {
			id := s.start("every", int64(R.Range(300, 1500)))
			periodic = append(periodic, id)
			continue
		}
		ids = append(ids, s.start("after", int64(R.Range(1, horizon))))
	}
	s.op("size", 0)
	for i := 0; i < len(ids); i += 8 { // an eighth is cancelled again
		j := i + R.Intn(8)
		if j < len(ids) {
			s.op("cancel", int64(ids[j]))
			s.op("del", 0)
		}
	}
	s.op("size", 0)
	for t := 0; t < horizon+10 && !s.Stopped(); {
		a := R.Pick(1, 3, 255, 256, 257, 500, 1000)
		s.op("advance", int64(a))
		t += a
		if R.Chance(1, 4) {
			s.op("size", 0)
		}
	}
	for _, id := range periodic {
		s.op("cancel", int64(id))
		s.op("del", 0)
	}
	s.op("advance", 1600)
	s.op("size", 0)
	s.op("links", 0)
	for k := 0; k < 20; k++ {
		s.op("sched", int64(ids[R.Intn(len(ids))]))
	}
}

// ---- period: observe, exactly P operations, observe again ------------------------------------------------------

func legPeriodExact(s *Session, sp Spec) {
	R := hxlib.NewRand(sp.Seed)
	P := sp.N
	observe := func(ids ...int) {
		for _, id := range ids {
			s.op("sched", int64(id))
		}
		s.op("size", 0)
	}
	switch sp.Flavor {
	case "deliver-cycles":
		// every cycle starts a timer and delivers it one tick later; X and Y live through all of them
		x := s.start("after", int64(P)+7)
		y := s.start("every", 50000)
		z := s.start("after", 3)
		observe(x, y, z)
		for i := 0; i < P && !s.Stopped(); i++ {
			s.start("after", int64(R.Intn(2)))
			s.op("advance", 1)
		}
		observe(x, y, z)
		s.op("advance", 6)
		observe(x, y)
		s.op("advance", 1)
		observe(x, y)
		s.op("cancel", int64(y))
		s.op("cancel", int64(x))
		s.op("del", 0)
		s.op("advance", 60000)
		observe(x, y)
	case "reads":
		// P lookups / size reads and nothing else
		x := s.start("after", 40)
		y := s.start("every", 7)
		s.op("advance", 5)
		observe(x, y)
		for i := 0; i < P && !s.Stopped(); i++ {
			if i&1 == 0 {
				s.op("sched", int64(x+R.Intn(3)))
			} else {
				s.op("size", 0)
			}
		}
		s.op("cancel", int64(y))
		s.op("del", 0)
		observe(x, y)
		s.op("advance", 34)
		observe(x)
		s.op("advance", 1)
		observe(x, y)
		s.op("advance", 20)
	default: // "cancel-cycles": every cycle starts a timer and cancels it again
		x := s.start("after", 50)
		y := s.start("every", 20)
		s.op("advance", 3)
		observe(x, y)
		for i := 0; i < P && !s.Stopped(); i++ {
			id := s.start("after", int64(R.Range(0, 300)))
			s.op("cancel", int64(id))
			s.op("del", 0)
		}
		observe(x, y)
		z := s.start("after", 2)
		observe(z)
		s.op("advance", 46)
		observe(x, y, z)
		s.op("advance", 1)
		observe(x, y)
		s.op("cancel", int64(y))
		s.op("del", 0)
		s.op("advance", 400)
		observe(x, y)
		s.op("links", 0)
	}
}

// ---- plain cases (replayed as listed) -----------------------------------------------------------------------------

// IDWrapCase: the id counter stands k below a power-of-two boundary when the history begins.
func IDWrapCase(R *hxlib.Rand, sched string, boundary int64) Case {
	c := Case{Sched: sched, Time: int64(R.Intn(1000)), Pos: uint32(R.Pick(0, 250, 1<<32-3))}
	c.NextID = boundary - int64(R.Range(1, 4))
	add := func(k string, a int64) { c.Ops = append(c.Ops, Op{K: k, A: a}) }
	n := R.Range(4, 9)
	var ids []int64
	id := c.NextID
	for i := 0; i < n; i++ {
		if i == 2 {
			add("every", int64(R.Range(2, 5)))
		} else {
			add("after", int64(R.Range(1, 12)))
		}
		add("add", 0)
		id++
		ids = append(ids, id) // the id this start gets if the counter just counts on (used for lookups only)
	}
	add("size", 0)
	for _, x := range ids {
		add("sched", x)
	}
	for t := 0; t < 14; t++ {
		add("advance", 1)
		if t == 6 {
			add("after", 2)
			add("add", 0)
			add("after", 30)
			add("add", 0)
			add("cancel", ids[len(ids)-1]+2)
			add("del", 0)
		}
	}
	add("size", 0)
	add("cancel", ids[2])
	add("del", 0)
	add("advance", 40)
	add("size", 0)
	add("links", 0)
	return c
}

// LiveSlowCase: more timers due together than Chan() has room, the consumer as slow as can be.
func LiveSlowCase(R *hxlib.Rand, sched string) Case {
	c := Case{Sched: sched, Live: true, Cbuf: R.Pick(1, 1, 2, 3), Time: int64(R.Intn(1000)), Pos: uint32(R.Pick(0, 250, 254, 1<<14-3, 1<<32-3) + R.Intn(4))}
	add := func(k string, a int64) { c.Ops = append(c.Ops, Op{K: k, A: a}) }
	n := R.Pick(2, 3, 4, 5, 6, 8, 12, 20, 40)
	if R.Chance(1, 12) {
		n = R.Pick(129, 140, 300)
	}
	maxd := R.Pick(1, 2, 3, 6, 12)
	for i := 0; i < n; i++ {
		if R.Chance(1, 8) {
			add("every", int64(R.Range(1, 5)))
		} else {
			add("after", int64(R.Range(0, maxd)))
		}
		add("add", 0)
	}
	for t := 0; t < maxd+3; {
		a := R.Pick(1, 1, 1, 2, 3, maxd+1)
		add("advance", int64(a))
		t += a
		if R.Chance(1, 4) {
			add("size", 0)
		}
		if R.Chance(1, 6) {
			add("after", int64(R.Range(0, 2)))
			add("add", 0)
		}
	}
	add("size", 0)
	for id := 1; id <= n+6; id++ {
		add("cancel", int64(id))
	}
	for id := 1; id <= n+6; id++ {
		add("del", 0)
	}
	add("advance", 2)
	add("advance", 300)
	add("size", 0)
	add("links", 0)
	return c
}

// LiveClientCase: client calls issued while the worker stands blocked in its channel send.
func LiveClientCase(R *hxlib.Rand, sched string) Case {
	c := Case{Sched: sched, Live: true, Cbuf: R.Pick(1, 1, 2), Time: int64(R.Intn(1000)), Pos: uint32(R.Pick(0, 250, 254, 1<<32-3) + R.Intn(4))}
	add := func(k string, a int64) { c.Ops = append(c.Ops, Op{K: k, A: a}) }
	n := R.Range(3, 12)
	maxd := R.Pick(1, 1, 2, 4)
	for i := 0; i < n; i++ {
		if R.Chance(1, 6) {
			add("every", int64(R.Range(1, 3)))
		} else {
			add("after", int64(R.Range(0, maxd)))
		}
		add("add", 0)
	}
	started := n
	bursts := R.Range(1, 3)
	for b := 0; b < bursts; b++ {
		o := Op{K: "ladvance", A: int64(R.Pick(1, 1, 2, maxd+1)), Sub: make([][]Op, R.Range(1, 8))}
		for j := R.Range(1, 4); j > 0; j-- {
			k := R.Intn(len(o.Sub))
			switch x := R.Intn(12); {
			case x < 6:
				o.Sub[k] = append(o.Sub[k], Op{K: "cancel", A: int64(R.Range(1, started+1))})
			case x < 7:
				o.Sub[k] = append(o.Sub[k], Op{K: "sched", A: int64(R.Range(1, started+1))})
			case x < 8:
				o.Sub[k] = append(o.Sub[k], Op{K: "size"})
			case x < 10:
				o.Sub[k] = append(o.Sub[k], Op{K: "after", A: int64(R.Range(0, 2))})
				started++
			case x < 11:
				o.Sub[k] = append([]Op{{K: "stall", A: int64(R.Range(15, 50))}}, o.Sub[k]...)
			default:
				o.Sub[k] = append(o.Sub[k], Op{K: "cancel", A: int64(R.Range(1, started+1))}, Op{K: "cancel", A: int64(R.Range(1, started+1))})
			}
		}
		c.Ops = append(c.Ops, o)
		for i := 0; i < 8; i++ {
			add("add", 0)
		}
		if R.Bool() {
			for i := 0; i < 8; i++ {
				add("del", 0)
			}
		}
	}
	for i := 0; i < 10; i++ {
		add("del", 0)
	}
	add("size", 0)
	add("advance", int64(maxd+3))
	add("size", 0)
	for id := 1; id <= started+1; id++ {
		add("sched", int64(id))
	}
	for id := 1; id <= started+1; id++ {
		add("cancel", int64(id))
	}
	for id := 1; id <= started+1; id++ {
		add("del", 0)
	}
	add("advance", 5)
	add("size", 0)
	add("links", 0)
	return c
}
