package hxtimers

import (
	"fmt"
	"sort"
	"strings"
)

// Ref is the property (C05 + C06) spelled out directly: a table of the timers the client started,
// when each is due, and what every observation must therefore be. It has no wheel, no heap, no
// buckets and shares no code with the Lean model.
//
// Wheel: the due time is fixed when the worker accepts the start request (t_accept + delay, for a
// periodic timer t_accept + period) and each delivery re-arms a periodic timer at due + period.
// Heap: the due time is fixed by the client call (t_call + delay / + period) and a periodic timer is
// re-armed at (time of the delivering tick) + period.
// An `advance n` (n >= 1 for the wheel) must deliver exactly the accepted, uncancelled timers whose
// due time is <= the new time, in non-decreasing due order.
type rt struct {
	serial    int
	id        int
	delay     int64
	period    int64
	callAt    int64
	accepted  bool
	due       int64
	cancelled bool
	done      bool // one-shot delivered
	fired     int
	grp       int // >= 0: the timer carries the shared object number grp (Case.Obj = shared:k); -1: an object of its own
}

type Ref struct {
	sched string
	now   int64
	ts    []*rt // by serial
	// plain indexes over ts so that long histories stay linear (no other meaning): sch = the timers that may still
	// be scheduled (compacted now and then), idx = the latest timer started under an id, multi = an id was handed
	// out while still scheduled (already a failure; from then on the table is searched linearly again)
	sch   []*rt
	idx   map[int]*rt
	multi bool
	Cbuf  int // live runs: capacity of C (bounds what can be in flight when a Cancel returns)
	addQ  []int // serials of unhandled start requests
	delQ  []int
	// Finding is called for every property failure: key, sentence.
	Finding func(key, what string)
	// statistics for the non-triviality rules
	CancelBeforeAdd int
	CancelAtExpiry  int
	CancelInPass    int // a cancel issued at a schedule point inside an expiry pass
	CancelInFlight  int // ... of a periodic timer between its commit and its send (the documented window)
	ClientInPass    int // any client op inside a pass
	MultiDue        int
	Deliveries      int
	lastDue         int64
	haveLast        bool
	StrictOrder     bool // check due order across advances too (requests are accepted before the next tick)
	groups          int  // Case.Obj = shared:k: start number s carries the shared object s mod k
	cfg             string
	SharedPending   int // starts made while another scheduled timer carried the same object
	ObjectReused    int // starts carrying an object whose earlier timer had been delivered or cancelled
}

func NewRef(c Case, finding func(key, what string)) *Ref {
	f := &Ref{sched: c.Sched, now: c.Time, idx: map[int]*rt{}, groups: parseGroups(c.Obj), cfg: c.Config()}
	if f.cfg == "" {
		f.Finding = finding
	} else {
		f.Finding = func(key, what string) { finding(key, what+" ["+strings.TrimSpace(f.cfg)+"]") }
	}
	return f
}

// lab: what a delivery of this timer looks like on Chan(): its id, or (shared objects) the label of its object.
func (f *Ref) lab(t *rt) int {
	if t.grp < 0 {
		return t.id
	}
	return groupBase - t.grp
}

// tname names a delivery label in messages.
func (f *Ref) tname(label int) string {
	if label > groupBase {
		return fmt.Sprintf("timer %d", label)
	}
	var ids []int
	for _, t := range f.ts {
		if t.grp == groupBase-label {
			ids = append(ids, t.id)
		}
	}
	return fmt.Sprintf("the *sched.Task object shared by the timers started as %v", ids)
}

// live calls visit for every timer that is scheduled, and forgets the others now and then.
func (f *Ref) live(visit func(t *rt)) {
	n := 0
	for _, t := range f.sch {
		if f.scheduled(t) {
			n++
			visit(t)
		}
	}
	if 2*n+64 < len(f.sch) {
		keep := f.sch[:0]
		for _, t := range f.sch {
			if f.scheduled(t) {
				keep = append(keep, t)
			}
		}
		for i := len(keep); i < len(f.sch); i++ {
			f.sch[i] = nil
		}
		f.sch = keep
	}
}

func (f *Ref) scheduled(t *rt) bool { return !t.cancelled && !t.done }

func (f *Ref) byID(id int) *rt {
	if !f.multi {
		if t := f.idx[id]; t != nil && f.scheduled(t) {
			return t
		}
		return nil
	}
	var hit *rt
	for _, t := range f.ts {
		if t.id == id && f.scheduled(t) {
			hit = t
		}
	}
	return hit
}

func (f *Ref) Now() int64 { return f.now }

// Step checks one op's observation against the property and updates the table.
func (f *Ref) Step(o Op, ob Obs) {
	if ob.Refuse {
		return
	}
	tag := f.sched
	if ob.Panic != "" {
		f.Finding("crash:"+tag+":"+o.K, fmt.Sprintf("%s: `%s` panicked: %s", tag, o, ob.Panic))
		return
	}
	if ob.Hang != "" {
		f.Finding("hang:"+tag+":"+o.K, fmt.Sprintf("%s: `%s` at time %d did not return: %s (scheduled timers: %v)", tag, o.Short(), f.now, ob.Hang, f.ScheduledIDs()))
		return
	}
	switch o.K {
	case "after", "every":
		if f.byID(ob.ID) != nil {
			f.Finding("id-reused:"+tag, fmt.Sprintf("%s: start returned id %d which is still scheduled", tag, ob.ID))
			f.multi = true
		}
		t := &rt{id: ob.ID, callAt: f.now, grp: -1}
		if f.groups > 0 {
			t.grp = len(f.ts) % f.groups
			shared, reused := false, false
			for _, u := range f.ts {
				if u.grp == t.grp {
					if f.scheduled(u) {
						shared = true
					} else {
						reused = true
					}
				}
			}
			if shared {
				f.SharedPending++
			}
			if reused {
				f.ObjectReused++
			}
		}
		a := o.A
		if o.K == "after" {
			if a < 0 {
				a = 0
			}
			t.delay = a
		} else {
			if a < 0 {
				a = 1
			}
			t.delay, t.period = a, a
		}
		f.ts = append(f.ts, t)
		f.sch = append(f.sch, t)
		f.idx[t.id] = t
		t.serial = len(f.ts) - 1
		f.addQ = append(f.addQ, len(f.ts)-1)
	case "cancel":
		t := f.byID(int(o.A))
		want := t != nil
		if ob.Bool != want {
			f.Finding(fmt.Sprintf("cancel-result:%s:want-%v", tag, want), fmt.Sprintf("%s: Cancel(%d) returned %v, the timer is %s", tag, o.A, ob.Bool, map[bool]string{true: "pending", false: "not pending (unknown, delivered or cancelled)"}[want]))
		}
		if t != nil && ob.Bool {
			if !t.accepted {
				f.CancelBeforeAdd++
			} else if t.due <= f.now+1 {
				f.CancelAtExpiry++
			}
			t.cancelled = true
			f.delQ = append(f.delQ, t.serial)
		}
	case "add":
		if ob.Bool != (len(f.addQ) > 0) {
			f.Finding("driver:"+tag, fmt.Sprintf("%s: add step answered %v with %d requests outstanding", tag, ob.Bool, len(f.addQ)))
		}
		if len(f.addQ) > 0 {
			t := f.ts[f.addQ[0]]
			f.addQ = f.addQ[1:]
			if !t.cancelled {
				t.accepted = true
				if f.sched == "wheel" {
					t.due = f.now + t.delay
				} else {
					t.due = t.callAt + t.delay
				}
			}
		}
	case "del":
		if ob.Bool != (len(f.delQ) > 0) {
			f.Finding("driver:"+tag, fmt.Sprintf("%s: del step answered %v with %d requests outstanding", tag, ob.Bool, len(f.delQ)))
		}
		if len(f.delQ) > 0 {
			f.delQ = f.delQ[1:]
		}
	case "clock":
		f.now += o.A
	case "harr":
		// no effect on the table (like `links`); the heap ARRAY itself is judged by three plain statements
		f.heapArray(ob.Arr)
	case "ftick":
		f.fineTick(o, ob)
	case "ladvance":
		f.liveAdvance(o, ob)
	case "advance":
		from := f.now
		f.now += o.A
		ticked := f.sched == "heap" || o.A >= 1
		// what must be delivered: (due, id) pairs
		type dv struct {
			due int64
			id  int
		}
		var want []dv
		if ticked {
			f.live(func(t *rt) {
				if !t.accepted {
					return
				}
				for t.due <= f.now {
					want = append(want, dv{t.due, f.lab(t)})
					t.fired++
					if t.period > 0 {
						if f.sched == "wheel" {
							t.due += t.period
						} else {
							t.due = f.now + t.period
						}
					} else {
						t.done = true
						break
					}
				}
			})
		}
		sort.SliceStable(want, func(i, j int) bool { return want[i].due < want[j].due })
		f.Deliveries += len(want)
		if len(want) >= 2 {
			f.MultiDue++
		}
		// multiset comparison + due order of what was delivered
		wantN, gotN := map[int]int{}, map[int]int{}
		dues := map[int][]int64{}
		for _, w := range want {
			wantN[w.id]++
			dues[w.id] = append(dues[w.id], w.due)
		}
		for _, id := range ob.Fired {
			gotN[id]++
		}
		if f.groups > 0 {
			for _, ds := range dues { // a shared object: which of its timers a delivery belongs to is not observable
				sort.Slice(ds, func(i, j int) bool { return ds[i] < ds[j] })
			}
		}
		span := fmt.Sprintf("advance %d -> %d", from, f.now)
		for id, n := range wantN {
			if gotN[id] < n {
				f.Finding("not-delivered:"+tag, fmt.Sprintf("%s: %s: %s due at %v was delivered %d time(s), want %d", tag, span, f.tname(id), dues[id], gotN[id], n))
			}
		}
		for id, n := range gotN {
			if n > wantN[id] {
				why := "is not due"
				for _, t := range f.ts {
					if f.lab(t) == id && t.cancelled {
						why = "was cancelled (Cancel returned true)"
					} else if f.lab(t) == id && t.done && wantN[id] == 0 {
						why = "was already delivered"
					}
				}
				if id <= groupBase && why != "is not due" {
					why = "is not due that often (timers carrying it were cancelled or already delivered)"
				}
				key := "delivered-not-due:"
				if why != "is not due" {
					key = "delivered-after-cancel-or-twice:"
				}
				f.Finding(key+tag, fmt.Sprintf("%s: %s: %s delivered %d time(s), want %d: it %s", tag, span, f.tname(id), n, wantN[id], why))
			}
		}
		// order: walk the delivered ids, consuming each id's due times in order
		pos := map[int]int{}
		last, have := f.lastDue, f.haveLast && f.StrictOrder
		for _, id := range ob.Fired {
			ds := dues[id]
			if pos[id] >= len(ds) {
				continue
			}
			d := ds[pos[id]]
			pos[id]++
			if have && d < last {
				f.Finding("order:"+tag, fmt.Sprintf("%s: %s: %s (due %d) delivered after a timer due %d", tag, span, f.tname(id), d, last))
			}
			last, have = d, true
		}
		if have {
			f.lastDue, f.haveLast = last, true
		}
	case "size":
		n := 0
		f.live(func(t *rt) { n++ })
		if ob.N != n {
			f.Finding("size:"+tag, fmt.Sprintf("%s: Size()=%d, %d timers are scheduled", tag, ob.N, n))
		}
	case "sched":
		want := f.byID(int(o.A)) != nil
		if ob.Bool != want {
			f.Finding(fmt.Sprintf("is-scheduled:%s:want-%v", tag, want), fmt.Sprintf("%s: IsScheduled(%d)=%v, want %v", tag, o.A, ob.Bool, want))
		}
	}
}

// heapArray: what must hold of the array of a binary min-heap ordered by (deadline, then id DESCENDING), stated on
// the array as it lies in memory: every node knows its own slot, no child sorts before its parent, no id twice.
func (f *Ref) heapArray(a []HeapEnt) {
	less := func(x, y HeapEnt) bool {
		return x.Deadline < y.Deadline || (x.Deadline == y.Deadline && x.ID > y.ID)
	}
	for i := range a {
		if a[i].Index != i {
			f.Finding("heap-array:index", fmt.Sprintf("heap: at time %d the node in slot %d (id %d) carries index %d; array (id@index:deadline) = %s", f.now, i, a[i].ID, a[i].Index, ArrText(a)))
			break
		}
	}
	for i := 1; i < len(a); i++ {
		if p := (i - 1) / 2; less(a[i], a[p]) {
			f.Finding("heap-array:order", fmt.Sprintf("heap: at time %d slot %d (id %d, deadline %d) sorts before its parent slot %d (id %d, deadline %d); array (id@index:deadline) = %s", f.now, i, a[i].ID, a[i].Deadline, p, a[p].ID, a[p].Deadline, ArrText(a)))
			break
		}
	}
	seen := make(map[int]int, len(a))
	for i := range a {
		if j, dup := seen[a[i].ID]; dup {
			f.Finding("heap-array:dup", fmt.Sprintf("heap: at time %d id %d sits in slots %d and %d; array (id@index:deadline) = %s", f.now, a[i].ID, j, i, ArrText(a)))
			break
		}
		seen[a[i].ID] = i
	}
}

// Outstanding reports how many requests the worker has not handled yet.
func (f *Ref) Outstanding() (adds, dels int) { return len(f.addQ), len(f.delQ) }

// ScheduledIDs lists the ids that are scheduled now.
func (f *Ref) ScheduledIDs() []int {
	var out []int
	for _, t := range f.ts {
		if f.scheduled(t) {
			out = append(out, t.id)
		}
	}
	return out
}

// NextDue returns the smallest due time among accepted scheduled timers (ok=false if none).
func (f *Ref) NextDue() (int64, bool) {
	var best int64
	ok := false
	for _, t := range f.ts {
		if t.accepted && f.scheduled(t) && (!ok || t.due < best) {
			best, ok = t.due, true
		}
	}
	return best, ok
}

// fineTick: one tick whose expiry passes were interrupted at their schedule points. The real scheduler
// announces, per node, "about to decide" (it takes the guard next) and, for a node it decided to deliver,
// "about to send". The decision is the commit: it is what the table says at that moment — an accepted,
// due timer that has not been cancelled is committed for delivery (a one-shot timer is from then on no
// longer pending: Cancel must answer false; a periodic timer is re-armed and stays pending — a Cancel
// answering true between its commit and its send cannot stop that send: the one documented window), a
// cancelled one is dropped. What the property demands: the sends announced and the deliveries on Chan()
// are exactly the commits, in order; at the end of the tick no accepted, uncancelled, due timer is
// left out; every client call inside the pass is answered according to the table at that point.
func (f *Ref) fineTick(o Op, ob Obs) {
	tag := f.sched
	from := f.now
	if f.sched == "wheel" {
		f.now++
	} else {
		f.now += o.A
	}
	span := fmt.Sprintf("tick %d -> %d", from, f.now)
	var commits []int
	var commitLabs []int // what each commit looks like on Chan()
	announced := 0
	lastDue, have := int64(0), false
	pending := -1
	resolve := func(k int) {
		if pending < 0 {
			return
		}
		id := pending
		pending = -1
		t := f.byID(id)
		if t == nil {
			return // cancelled (or unknown): the scheduler must drop it — a later send announcement is the failure
		}
		if !t.accepted || t.due > f.now {
			f.Finding("delivered-not-due:"+tag, fmt.Sprintf("%s: %s: schedule point %d: the scheduler decides about timer %d, which is not due", tag, span, k, id))
			return
		}
		if have && t.due < lastDue {
			f.Finding("order:"+tag, fmt.Sprintf("%s: %s: timer %d (due %d) committed after a timer due %d", tag, span, id, t.due, lastDue))
		}
		lastDue, have = t.due, true
		t.fired++
		f.Deliveries++
		if t.period > 0 {
			if f.sched == "wheel" {
				t.due += t.period
			} else {
				t.due = f.now + t.period
			}
		} else {
			t.done = true
		}
		commits = append(commits, id)
		commitLabs = append(commitLabs, f.lab(t))
	}
	for k, st := range ob.Steps {
		resolve(k)
		if st.Point == "decide" {
			pending = st.ID
		} else {
			if announced >= len(commits) || commits[announced] != st.ID {
				why := "is not the next committed timer"
				for _, x := range f.ts {
					if x.id == st.ID && x.cancelled {
						why = "was cancelled (Cancel returned true) before the scheduler decided about it"
					}
				}
				f.Finding("delivered-after-cancel-or-twice:"+tag, fmt.Sprintf("%s: %s: schedule point %d: the scheduler is about to send timer %d, which %s (committed so far: %v)", tag, span, k, st.ID, why, commits))
			}
			announced++
		}
		for i, co := range st.Ops {
			f.ClientInPass++
			if co.K == "cancel" && st.Obs[i].Bool {
				f.CancelInPass++
				sent := announced // sends completed so far: the one just announced has not happened yet
				if st.Point == "send" {
					sent--
				}
				for j := sent; j >= 0 && j < len(commits); j++ {
					if commits[j] == int(co.A) {
						f.CancelInFlight++
					}
				}
			}
			f.Step(co, st.Obs[i])
		}
	}
	resolve(len(ob.Steps))
	if len(commits) >= 2 {
		f.MultiDue++
	}
	// transport: what arrives on Chan() is what was committed, in that order
	same := len(commits) == len(ob.Fired)
	for i := 0; same && i < len(commits); i++ {
		same = commitLabs[i] == ob.Fired[i]
	}
	if !same {
		f.Finding("transport:"+tag, fmt.Sprintf("%s: %s: committed %v but Chan() delivered %v", tag, span, commits, ob.Fired))
	}
	// nothing that is due may be left out
	f.live(func(t *rt) {
		if t.accepted && t.due <= f.now {
			f.Finding("not-delivered:"+tag, fmt.Sprintf("%s: %s: timer %d due at %d was not delivered", tag, span, t.id, t.due))
		}
	})
}

// liveAdvance: `ladvance n` — the worker ran a burst (wheel: n ticks, heap: n units and one tick) on a goroutine of
// its own while this goroutine was the (slow) consumer of Chan() and, at the moments the worker stood blocked in
// its channel send, a client: ob.Steps[k] are the client ops issued at the k-th such moment (ID = deliveries
// received before it), ob.Fired everything received until the burst had ended and Chan() was empty.
//
// Where exactly the worker stands between "decide" and "send" is not observable here, so the statement is the
// schedule-independent one: a timer started, accepted and due within the burst is delivered exactly as often as it
// falls due — unless a Cancel inside the burst returned true: then a one-shot timer is not delivered at all, and a
// periodic one at most as often as it can have been committed before that Cancel (received by then, plus what fits
// in Chan(), plus the one in the blocked send). A Cancel of a one-shot timer that may already be committed may
// answer false; then it must be delivered. Nothing else is delivered; deliveries come in due order.
func (f *Ref) liveAdvance(o Op, ob Obs) {
	tag := f.sched
	from := f.now
	f.now += o.A
	span := fmt.Sprintf("burst %d -> %d (consumer of capacity-%d Chan() reads only when the worker is blocked)", from, f.now, f.Cbuf)
	inWindow := func(t *rt) bool { return t.accepted && t.due <= f.now }
	type cinfo struct {
		recvAt int // deliveries of this timer received when Cancel returned true
	}
	cancelledNow := map[*rt]cinfo{}
	answeredFalse := map[*rt]bool{}
	rc := map[int]int{} // deliveries received so far, per id
	m := 0
	upTo := func(n int) {
		for ; m < n && m < len(ob.Fired); m++ {
			rc[ob.Fired[m]]++
		}
	}
	// the timers that were scheduled when the burst began (those started inside it are never accepted inside it)
	var atStart []*rt
	f.live(func(t *rt) { atStart = append(atStart, t) })
	for k, st := range ob.Steps {
		upTo(st.ID)
		for i, co := range st.Ops {
			cob := st.Obs[i]
			if cob.Refuse {
				continue
			}
			f.ClientInPass++
			if cob.Panic != "" {
				f.Finding("crash:"+tag+":"+co.K, fmt.Sprintf("%s: %s: `%s` issued while the worker was blocked panicked: %s", tag, span, co, cob.Panic))
				return
			}
			switch co.K {
			case "after", "every":
				f.Step(co, cob)
			case "cancel":
				t := f.byID(int(co.A))
				if t != nil && t.period == 0 && inWindow(t) && rc[t.id] > 0 {
					t = nil // a one-shot timer that has been received is delivered
				}
				switch {
				case t == nil:
					if cob.Bool {
						f.Finding("cancel-result:"+tag+":want-false", fmt.Sprintf("%s: %s: block %d: Cancel(%d) returned true, the timer is not pending (unknown, delivered or cancelled)", tag, span, k, co.A))
					}
				case t.period == 0 && inWindow(t):
					// may be committed already: both answers are possible, each binds what follows
					if cob.Bool {
						f.CancelInPass++
						t.cancelled = true
						cancelledNow[t] = cinfo{rc[t.id]}
						f.delQ = append(f.delQ, t.serial)
					} else {
						answeredFalse[t] = true
					}
				default:
					if !cob.Bool {
						f.Finding("cancel-result:"+tag+":want-true", fmt.Sprintf("%s: %s: block %d: Cancel(%d) returned false, the timer is pending", tag, span, k, co.A))
					} else {
						f.CancelInPass++
						t.cancelled = true
						cancelledNow[t] = cinfo{rc[t.id]}
						f.delQ = append(f.delQ, t.serial)
					}
				}
			case "sched":
				t := f.byID(int(co.A))
				maybe := t != nil && t.period == 0 && inWindow(t)
				if maybe && rc[t.id] == 0 && !answeredFalse[t] {
					break // committed or not: not observable
				}
				want := t != nil && !maybe
				if cob.Bool != want {
					f.Finding(fmt.Sprintf("is-scheduled:%s:want-%v", tag, want), fmt.Sprintf("%s: %s: block %d: IsScheduled(%d)=%v, want %v", tag, span, k, co.A, cob.Bool, want))
				}
			case "size":
				lo, hi := 0, 0
				f.live(func(t *rt) {
					switch {
					case t.period == 0 && inWindow(t) && (rc[t.id] > 0 || answeredFalse[t]):
					case t.period == 0 && inWindow(t):
						hi++
					default:
						lo++
						hi++
					}
				})
				if cob.N < lo || cob.N > hi {
					f.Finding("size:"+tag, fmt.Sprintf("%s: %s: block %d: Size()=%d, between %d and %d timers are scheduled", tag, span, k, cob.N, lo, hi))
				}
			}
		}
	}
	upTo(len(ob.Fired))
	// what each timer owes
	type dv struct {
		due int64
		id  int
	}
	dues := map[int][]int64{}
	known := map[int]bool{}
	for _, t := range atStart {
		known[t.id] = true
		var ds []int64
		for d := t.due; t.accepted && d <= f.now; {
			ds = append(ds, d)
			if t.period <= 0 {
				break
			}
			if f.sched == "wheel" {
				d += t.period
			} else {
				d = f.now + t.period
			}
		}
		got := rc[t.id]
		if ci, ok := cancelledNow[t]; ok {
			max := len(ds)
			if t.period == 0 {
				max = 0
			} else if f.sched == "wheel" && ci.recvAt+f.Cbuf+1 < max {
				max = ci.recvAt + f.Cbuf + 1
			}
			if got > max {
				f.Finding("delivered-after-cancel-or-twice:"+tag, fmt.Sprintf("%s: %s: timer %d was delivered %d time(s) although Cancel returned true when %d had been received (at most %d can have been committed by then)", tag, span, t.id, got, ci.recvAt, max))
			}
			if got < len(ds) {
				ds = ds[:got]
			}
			dues[t.id] = ds
			continue
		}
		dues[t.id] = ds
		f.Deliveries += len(ds)
		switch {
		case got < len(ds):
			f.Finding("not-delivered:"+tag, fmt.Sprintf("%s: %s: timer %d due at %v was delivered %d time(s), want %d", tag, span, t.id, ds, got, len(ds)))
		case got > len(ds) && len(ds) == 0:
			f.Finding("delivered-not-due:"+tag, fmt.Sprintf("%s: %s: timer %d delivered %d time(s), it is not due", tag, span, t.id, got))
		case got > len(ds):
			f.Finding("delivered-after-cancel-or-twice:"+tag, fmt.Sprintf("%s: %s: timer %d delivered %d time(s), want %d", tag, span, t.id, got, len(ds)))
		}
		// the table after the burst
		t.fired += len(ds)
		if len(ds) > 0 {
			if t.period > 0 {
				if f.sched == "wheel" {
					t.due = ds[len(ds)-1] + t.period
				} else {
					t.due = f.now + t.period
				}
			} else {
				t.done = true
			}
		}
	}
	for id, n := range rc {
		if !known[id] {
			f.Finding("delivered-after-cancel-or-twice:"+tag, fmt.Sprintf("%s: %s: timer %d delivered %d time(s): it was not scheduled when the burst began (unknown, cancelled or already delivered)", tag, span, id, n))
		}
	}
	// due order of what was received
	pos := map[int]int{}
	last, have := f.lastDue, f.haveLast && f.StrictOrder
	for _, id := range ob.Fired {
		ds := dues[id]
		if pos[id] >= len(ds) {
			continue
		}
		d := ds[pos[id]]
		pos[id]++
		if have && d < last {
			f.Finding("order:"+tag, fmt.Sprintf("%s: %s: timer %d (due %d) delivered after a timer due %d", tag, span, id, d, last))
		}
		last, have = d, true
	}
	if have {
		f.lastDue, f.haveLast = last, true
	}
}
