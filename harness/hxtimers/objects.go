package hxtimers

// The Runnables the started timers carry (Case.Obj). The schedulers store a Runnable per timer and hand it out on
// Chan(); nothing in the property depends on WHAT it is, so everything here must behave exactly like the plain
// *probe: one object shared by several pending timers, an object used again after its timer was delivered or
// cancelled, *sched.Task objects (which carry a state word of their own), uncomparable dynamic types.

import (
	"strconv"
	"strings"

	"qchen.fun/fatchoy/sched"
)

// groupBase: a delivery of the shared object number g is reported as the label groupBase-g (ids are positive,
// -1 = an object the harness never handed in).
const groupBase = -2

// valueRunnable is an uncomparable dynamic type (a struct holding a slice), handed in by value.
type valueRunnable struct {
	serial int
	pad    []int
}

func (v valueRunnable) Run() error { return nil }

// funcRunnable is a func type: uncomparable as well; it names its start call by being called.
type funcRunnable func() int

func (f funcRunnable) Run() error { f(); return nil }

type objects struct {
	kind   string
	groups int                 // shared:k
	tasks  []*sched.Task       // shared:k: the k objects
	byTask map[*sched.Task]int // task: object -> serial; shared: object -> group
	Ran    int                 // actions run (Consume)
}

func parseGroups(obj string) int {
	if strings.HasPrefix(obj, "shared:") {
		if k, err := strconv.Atoi(obj[len("shared:"):]); err == nil && k > 0 {
			return k
		}
		return 1
	}
	return 0
}

func newObjects(obj string) objects {
	o := objects{kind: obj, byTask: map[*sched.Task]int{}}
	if k := parseGroups(obj); k > 0 {
		o.kind, o.groups = "shared", k
	}
	return o
}

// make returns the Runnable of start call number `serial`.
func (o *objects) make(serial int) sched.Runnable {
	switch o.kind {
	case "task":
		t := sched.NewTask(func() error { o.Ran++; return nil })
		o.byTask[t] = serial
		return t
	case "shared":
		g := serial % o.groups
		for len(o.tasks) <= g {
			t := sched.NewTask(func() error { o.Ran++; return nil })
			o.byTask[t] = len(o.tasks)
			o.tasks = append(o.tasks, t)
		}
		return o.tasks[g]
	case "value":
		return valueRunnable{serial: serial, pad: []int{serial}}
	case "func":
		return funcRunnable(func() int { return serial })
	}
	return &probe{serial: serial}
}

// serialOf: the start call a delivered Runnable belongs to (>= 0), the label of a shared object, or -1.
func (o *objects) serialOf(x sched.Runnable) int {
	switch v := x.(type) {
	case *probe:
		return v.serial
	case valueRunnable:
		return v.serial
	case funcRunnable:
		return v()
	case *sched.Task:
		if n, ok := o.byTask[v]; ok {
			if o.kind == "shared" {
				return groupBase - n
			}
			return n
		}
	}
	return -1
}
