// Package hxtimers is shared by hx_c05 and hx_c06: it runs an op script against the REAL timer
// schedulers (sched.HHWheelTimer, sched.TimerQueue) through the synchronous driver H1
// (sched/verif_driver.go, build tag verif) and evaluates the timer properties with a deliberately
// dumb reference that knows nothing about wheels, heaps or the Lean model.
package hxtimers

import (
	"fmt"
	"reflect"
	"runtime"
	"sort"
	"strconv"
	"strings"
	"time"
	"unsafe"

	"verifharness/hxlib"

	"qchen.fun/fatchoy/sched"
)

// Op kinds: after d | every p | cancel id | add | del | advance n | clock n | size | sched id | links | harr
// (harr, heap only: the heap ARRAY as it lies in memory, `arr=ID@INDEX:DEADLINE,...` in array order, `arr=-` when empty)
// and the fine-grained tick `ftick n` (wheel: n = 1, one tick; heap: n units pass, then one tick): Sub[k] are the
// client ops (after / every / cancel / size / sched) that run at the k-th schedule point INSIDE the tick
// (before the worker takes the guard to decide about a node, or between that decision and the send).
type Op struct {
	K   string `json:"k"`
	A   int64  `json:"a,omitempty"`
	Sub [][]Op `json:"sub,omitempty"`
}

func (o Op) String() string {
	switch o.K {
	case "add", "del", "size", "links", "harr":
		return o.K
	}
	s := o.K + " " + strconv.FormatInt(o.A, 10)
	if o.K == "ftick" || o.K == "ladvance" {
		for _, ops := range o.Sub {
			s += " ["
			for i, x := range ops {
				if i > 0 {
					s += ","
				}
				s += x.String()
			}
			s += "]"
		}
	}
	return s
}

// Short is String without the client ops of a fine-grained tick / live burst.
func (o Op) Short() string {
	if len(o.Sub) > 0 {
		return fmt.Sprintf("%s %d [client ops at %d schedule points]", o.K, o.A, len(o.Sub))
	}
	return o.String()
}

// Case is one history on a fresh scheduler.
type Case struct {
	Sched string `json:"sched"` // wheel | heap
	Pos   uint32 `json:"pos"`   // wheel: tick position at start
	Time  int64  `json:"time"`  // virtual time at start
	Ops   []Op   `json:"ops"`
	// Live (failing-input search only): `advance` / `ladvance` run the worker's burst on a goroutine of its own, C
	// has capacity Cbuf, and the goroutine of the harness is the slow consumer of Chan() (and the client).
	Live bool `json:"live,omitempty"`
	Cbuf int  `json:"cbuf,omitempty"`
	// NextID > 0: the id counter of the fresh scheduler is pre-positioned (stands for that many earlier starts)
	NextID int64 `json:"nextid,omitempty"`
	// Search != nil: the history is not listed; it is regenerated from this recipe (long search legs)
	Search *Spec `json:"search,omitempty"`
	// Obj: what the started timers carry as their Runnable (see objects.go). "" = a fresh *probe per start;
	// "task" = a fresh *sched.Task per start; "shared:k" = k *sched.Task objects, start number s carries object
	// s mod k (several pending timers share ONE object, and an object is used again after its timer was delivered
	// or cancelled); "value" / "func" = uncomparable dynamic types. Deliveries of a shared object are judged by
	// count (which of its timers a delivery belongs to is not observable on Chan()).
	Obj string `json:"obj,omitempty"`
	// Consume: the harness behaves like a real consumer of Chan(): it calls Run() on every Runnable it receives
	Consume bool `json:"consume,omitempty"`
	// Ctor != "": the scheduler is built by a PUBLIC constructor and put under the synchronous driver afterwards:
	// "default" = NewDefaultHHWheelTimer / NewDefaultTimerQueue, "new" = NewHHWheelTimer / NewTimerQueue(TickNs, UnitNs)
	Ctor   string `json:"ctor,omitempty"`
	TickNs int64  `json:"tick_ns,omitempty"`
	UnitNs int64  `json:"unit_ns,omitempty"`
	// Back != nil (legs4.go): Ops is unused; the clock steps BACK between polls as the spec says (RunBack).
	// Sched "realclock-wheel" / "realclock-heap" (legs4.go): a started scheduler of TickNs / UnitNs on the real clock (RealClock).
	Back *BackSpec `json:"back,omitempty"`
}

func (c Case) Header() string {
	if c.Sched == "wheel" {
		return fmt.Sprintf("new wheel pos=%d time=%d", c.Pos, c.Time)
	}
	return fmt.Sprintf("new heap time=%d", c.Time)
}

type probe struct{ serial int }

func (p *probe) Run() error { return nil }

// Config describes the construction of the scheduler and the Runnables, for messages and case keys ("" = the driver's
// own 1 ms / 1 ms scheduler with a fresh *probe per start).
func (c Case) Config() string {
	s := ""
	switch c.Ctor {
	case "default":
		s += " built by the Default constructor"
	case "new":
		s += fmt.Sprintf(" built by the public constructor with tickInterval=%v timeUnit=%v", time.Duration(c.TickNs), time.Duration(c.UnitNs))
	}
	if c.Obj != "" {
		s += " runnables=" + c.Obj
	}
	if c.Consume {
		s += " consumer-calls-Run"
	}
	return s
}

// driver is what H1 offers for either scheduler.
type driver interface {
	StepAdd() bool
	StepDel() bool
	PendingAdds() int
	PendingDels() int
	Drain() []sched.Runnable
}

// Real is a live scheduler under the synchronous driver.
type Real struct {
	c      Case
	w      *sched.VerifWheel
	q      *sched.VerifQueue
	d      driver
	t      sched.Timer
	ids    []int // serial -> id returned by the scheduler
	Dead   bool  // a panic happened: the instance is not used any further
	CapC   int
	capReq int
	Live   bool
	PrePositioned bool // Case.NextID was applied
	objs   objects
	// Watchdog > 0: every op runs under a deadline (a tick that never returns is a finding, not a stuck harness)
	Watchdog time.Duration
}

func NewReal(c Case, cbuf int) *Real {
	r := &Real{c: c, CapC: cbuf, capReq: sched.PendingQueueCapacity, Live: c.Live}
	r.objs = newObjects(c.Obj)
	if c.Sched == "wheel" {
		if c.Ctor == "" {
			r.w = sched.NewVerifWheel(cbuf)
		} else {
			// a wheel built by a public constructor; the driver's step functions work on any wheel value
			var t sched.Timer
			if c.Ctor == "default" {
				t = sched.NewDefaultHHWheelTimer()
			} else {
				t = sched.NewHHWheelTimer(time.Duration(c.TickNs), time.Duration(c.UnitNs))
			}
			wt := t.(*sched.HHWheelTimer)
			wt.C = make(chan sched.Runnable, cbuf) // nobody reads C while the synchronous worker step runs
			r.w = &sched.VerifWheel{T: wt}
		}
		r.w.SetPosition(c.Pos)
		r.w.SetTime(c.Time)
		r.d, r.t = r.w, r.w.T
	} else {
		r.q = sched.NewVerifQueue(cbuf)
		if c.Ctor != "" {
			// what the public constructor built, under the virtual clock registered for this queue's address
			var t sched.Timer
			if c.Ctor == "default" {
				t = sched.NewDefaultTimerQueue()
			} else {
				t = sched.NewTimerQueue(time.Duration(c.TickNs), time.Duration(c.UnitNs))
			}
			*r.q.Q = *t.(*sched.TimerQueue) // (a fresh, never started queue: its mutex and wait group are idle; go vet's copylocks note is expected)
			r.q.Q.C = make(chan sched.Runnable, cbuf)
		}
		r.q.SetTime(c.Time)
		r.d, r.t = r.q, r.q.Q
	}
	if c.NextID > 0 {
		var target interface{} = r.t
		r.PrePositioned = setIntField(target, "nextId", c.NextID)
	}
	return r
}

// setIntField pre-positions an unexported integer field of the scheduler (the id counter): the state a fresh
// scheduler is in after that many starts, without making them. false = no such field (the leg is skipped).
func setIntField(ptr interface{}, name string, v int64) (ok bool) {
	defer func() {
		if recover() != nil {
			ok = false
		}
	}()
	rv := reflect.ValueOf(ptr)
	if rv.Kind() != reflect.Ptr || rv.Elem().Kind() != reflect.Struct {
		return false
	}
	f := rv.Elem().FieldByName(name)
	if !f.IsValid() || !f.CanAddr() {
		return false
	}
	p := unsafe.Pointer(f.UnsafeAddr())
	switch f.Kind() {
	case reflect.Int, reflect.Int64:
		if f.Type().Size() != 8 {
			return false
		}
		*(*int64)(p) = v
	case reflect.Int32:
		*(*int32)(p) = int32(v)
	case reflect.Uint32:
		*(*uint32)(p) = uint32(v)
	case reflect.Uint, reflect.Uint64:
		if f.Type().Size() != 8 {
			return false
		}
		*(*uint64)(p) = uint64(v)
	default:
		return false
	}
	return true
}

func (r *Real) Close() {
	if r.q != nil {
		r.q.Release()
	}
}

// Fired is one delivery observed on Chan(): the serial of the start call it belongs to.
// (a shared object cannot name the start call: it is reported as its group label, see objects.go)
func (r *Real) drain() []int {
	var out []int
	for _, x := range r.d.Drain() {
		out = append(out, r.objs.serialOf(x))
		if r.c.Consume && x != nil {
			x.Run() // a real consumer runs what it receives (a panic here is caught by the op's Guard)
		}
	}
	return out
}

// firedIDs turns what drain returned into the ids the scheduler gave those start calls (group labels stay).
func (r *Real) firedIDs(ser []int) []int {
	var out []int
	for _, s := range ser {
		switch {
		case s >= 0 && s < len(r.ids):
			out = append(out, r.ids[s])
		case s <= groupBase:
			out = append(out, s)
		default:
			out = append(out, -1)
		}
	}
	return out
}

func (r *Real) idsOf(serials []int) string {
	if len(serials) == 0 {
		return "-"
	}
	parts := make([]string, len(serials))
	for i, s := range serials {
		if s <= groupBase {
			parts[i] = "g" + strconv.Itoa(groupBase-s)
		} else if s < 0 || s >= len(r.ids) {
			parts[i] = "?"
		} else {
			parts[i] = strconv.Itoa(r.ids[s])
		}
	}
	return strings.Join(parts, ",")
}

// YieldStep is one schedule point reached inside a fine-grained tick and what the client ops placed there showed.
type YieldStep struct {
	Point string // decide | send
	ID    int
	Ops   []Op
	Obs   []Obs
}

// Obs is what one op showed.
type Obs struct {
	Steps  []YieldStep // ftick
	Out    string
	ID     int   // after/every: id returned
	Bool   bool  // cancel / sched / add / del
	N      int   // size
	Fired  []int // advance: ids in delivery order
	Panic  string
	Hang   string // the op did not return within the watchdog's (generous) deadline; the instance is abandoned
	Refuse bool   // the harness did not run the op (it would block the synchronous driver)
	Arr    []HeapEnt // harr: the heap array in array order
}

// HeapEnt is one slot of the heap array as the real scheduler holds it.
type HeapEnt struct {
	ID, Index int
	Deadline  int64
}

// ArrText is the canonical text of a heap array: ID@INDEX:DEADLINE joined by commas, "-" when empty.
func ArrText(a []HeapEnt) string {
	if len(a) == 0 {
		return "-"
	}
	var sb strings.Builder
	for i, e := range a {
		if i > 0 {
			sb.WriteByte(',')
		}
		sb.WriteString(strconv.Itoa(e.ID))
		sb.WriteByte('@')
		sb.WriteString(strconv.Itoa(e.Index))
		sb.WriteByte(':')
		sb.WriteString(strconv.FormatInt(e.Deadline, 10))
	}
	return sb.String()
}

// doInner runs a client op from inside a schedule-point callback (a panic propagates to the tick's Guard).
func (r *Real) doInner(o Op) Obs {
	var ob Obs
	switch o.K {
	case "after", "every":
		if r.d.PendingAdds() >= r.capReq {
			ob.Out, ob.Refuse = "full", true
			return ob
		}
		serial := len(r.ids)
		pr := r.objs.make(serial)
		r.ids = append(r.ids, 0)
		var id int
		if o.K == "after" {
			id = r.t.RunAfter(int(o.A), pr)
		} else {
			id = r.t.RunEvery(int(o.A), pr)
		}
		r.ids[serial] = id
		ob.ID = id
		ob.Out = "id=" + strconv.Itoa(id)
	case "cancel":
		if r.d.PendingDels() >= r.capReq {
			ob.Out, ob.Refuse = "full", true
			return ob
		}
		ob.Bool = r.t.Cancel(int(o.A))
		ob.Out = strconv.FormatBool(ob.Bool)
	case "size":
		ob.N = r.t.Size()
		ob.Out = strconv.Itoa(ob.N)
	case "sched":
		ob.Bool = r.t.IsScheduled(int(o.A))
		ob.Out = strconv.FormatBool(ob.Bool)
	}
	return ob
}

// Do runs one op on the real code and returns the canonical answer line.
func (r *Real) Do(o Op) Obs {
	if r.Watchdog <= 0 || r.Dead {
		return r.do(o)
	}
	ch := make(chan Obs, 1)
	go func() { ch <- r.do(o) }()
	tm := time.NewTimer(r.Watchdog)
	defer tm.Stop()
	select {
	case ob := <-ch:
		return ob
	case <-tm.C:
		r.Dead = true
		return Obs{Out: "hang", Hang: fmt.Sprintf("no answer within %v", r.Watchdog)}
	}
}

func (r *Real) do(o Op) Obs {
	var ob Obs
	if r.Dead {
		ob.Out, ob.Refuse = "dead", true
		return ob
	}
	p := hxlib.Guard(func() {
		switch o.K {
		case "after", "every":
			if r.d.PendingAdds() >= r.capReq {
				ob.Out, ob.Refuse = "full", true
				return
			}
			serial := len(r.ids)
			pr := r.objs.make(serial)
			r.ids = append(r.ids, 0)
			var id int
			if o.K == "after" {
				id = r.t.RunAfter(int(o.A), pr)
			} else {
				id = r.t.RunEvery(int(o.A), pr)
			}
			r.ids[serial] = id
			ob.ID = id
			ob.Out = "id=" + strconv.Itoa(id)
		case "cancel":
			if r.d.PendingDels() >= r.capReq {
				ob.Out, ob.Refuse = "full", true
				return
			}
			ob.Bool = r.t.Cancel(int(o.A))
			ob.Out = strconv.FormatBool(ob.Bool)
		case "add":
			ob.Bool = r.d.StepAdd()
			ob.Out = map[bool]string{true: "ok", false: "none"}[ob.Bool]
		case "del":
			ob.Bool = r.d.StepDel()
			ob.Out = map[bool]string{true: "ok", false: "none"}[ob.Bool]
		case "ftick":
			k := 0
			cb := func(point string, id int) {
				st := YieldStep{Point: point, ID: id}
				if k < len(o.Sub) {
					for _, co := range o.Sub[k] {
						switch co.K {
						case "after", "every", "cancel", "size", "sched":
							st.Ops = append(st.Ops, co)
							st.Obs = append(st.Obs, r.doInner(co))
						}
					}
				}
				k++
				ob.Steps = append(ob.Steps, st)
			}
			if r.w != nil {
				r.w.OnYield(cb)
				defer r.w.OnYield(nil)
				r.w.Advance(1)
			} else {
				r.q.OnYield(cb)
				defer r.q.OnYield(nil)
				r.q.Advance(o.A)
				r.q.Tick()
			}
			ser := r.drain()
			ob.Fired = r.firedIDs(ser)
			ob.Out = "fired=" + r.idsOf(ser)
		case "ladvance":
			if !r.Live {
				ob.Out, ob.Refuse = "bad-op", true
				return
			}
			r.liveBurst(o, &ob)
		case "advance":
			if r.Live {
				r.liveBurst(o, &ob)
				return
			}
			if r.w != nil {
				r.w.Advance(o.A)
			} else {
				r.q.Advance(o.A)
				r.q.Tick()
			}
			ser := r.drain()
			ob.Fired = r.firedIDs(ser)
			ob.Out = "fired=" + r.idsOf(ser)
		case "clock":
			if r.q != nil {
				r.q.Advance(o.A)
				ob.Out = "ok"
			} else {
				ob.Out, ob.Refuse = "bad-op", true
			}
		case "size":
			ob.N = r.t.Size()
			ob.Out = strconv.Itoa(ob.N)
		case "sched":
			ob.Bool = r.t.IsScheduled(int(o.A))
			ob.Out = strconv.FormatBool(ob.Bool)
		case "links":
			ob.Out = r.links()
		case "harr":
			if r.q == nil {
				ob.Out, ob.Refuse = "bad-op", true
				return
			}
			ids, index, deadline := r.q.HeapArray()
			ob.Arr = make([]HeapEnt, len(ids))
			for i := range ids {
				ob.Arr[i] = HeapEnt{ID: ids[i], Index: index[i], Deadline: deadline[i]}
			}
			ob.Out = "arr=" + ArrText(ob.Arr)
		default:
			ob.Out, ob.Refuse = "bad-op", true
		}
	})
	if p != "" {
		ob.Panic = p
		ob.Out = "panic"
		r.Dead = true
	}
	if ob.Hang != "" {
		r.Dead = true
	}
	return ob
}

// liveBurst runs the worker's burst (wheel: o.A ticks; heap: o.A units pass, then one tick) on a goroutine of its
// own. This goroutine is the consumer of Chan(): it takes ONE delivery, and only when Chan() is full and the burst
// has made no progress for a moment (the worker stands in its blocking send, or has nothing more to send). At the
// k-th such moment it first plays the client: o.Sub[k] (`stall n` = hold still for n ms, the stalled consumer).
// Timing decides only where the client ops fall, never what the oracle accepts.
func (r *Real) liveBurst(o Op, ob *Obs) {
	c := r.t.Chan()
	done := make(chan string, 1)
	go func() {
		done <- hxlib.Guard(func() {
			if r.w != nil {
				r.w.Advance(o.A)
			} else {
				r.q.Advance(o.A)
				r.q.Tick()
			}
		})
	}()
	var ser []int
	take := func(x sched.Runnable) { ser = append(ser, r.objs.serialOf(x)) }
	settle := 150 * time.Microsecond
	lastProgress := time.Now()
	k := 0
	finished, pan := false, ""
	for !finished {
		select {
		case pan = <-done:
			finished = true
			continue
		default:
		}
		if len(c) < cap(c) {
			if time.Since(lastProgress) > 20*time.Second {
				ob.Hang = fmt.Sprintf("the burst neither ended nor filled Chan() (capacity %d, %d queued) within 20 s; %d deliveries received", cap(c), len(c), len(ser))
				break
			}
			runtime.Gosched()
			continue
		}
		// full: let the worker run into its send (or end the burst)
		t0 := time.Now()
		for time.Since(t0) < settle && !finished {
			select {
			case pan = <-done:
				finished = true
			default:
				runtime.Gosched()
			}
		}
		if finished {
			break
		}
		st := YieldStep{Point: "block", ID: len(ser)}
		if k < len(o.Sub) {
			for _, co := range o.Sub[k] {
				switch co.K {
				case "stall":
					time.Sleep(time.Duration(co.A) * time.Millisecond)
				case "after", "every", "cancel", "size", "sched":
					var cob Obs
					if p := hxlib.Guard(func() { cob = r.doInner(co) }); p != "" {
						cob.Panic, cob.Out = p, "panic"
					}
					st.Ops = append(st.Ops, co)
					st.Obs = append(st.Obs, cob)
				}
			}
		}
		k++
		if len(st.Ops) > 0 {
			ob.Steps = append(ob.Steps, st)
		}
		select {
		case x := <-c:
			take(x)
			lastProgress = time.Now()
		default:
		}
	}
	if ob.Hang == "" {
		for {
			select {
			case x := <-c:
				take(x)
				continue
			default:
			}
			break
		}
	}
	if pan != "" {
		panic(pan)
	}
	ob.Fired = r.firedIDs(ser)
	ob.Out = "fired=" + r.idsOf(ser)
}

// links: where the back end holds which timer (ids sorted per level; heap: one level).
func (r *Real) links() string {
	var lv [][]int
	if r.w != nil {
		lv = r.w.Linked()
	} else {
		lv = [][]int{r.q.HeapIDs()}
	}
	parts := make([]string, len(lv))
	for i, ids := range lv {
		sort.Ints(ids)
		ss := make([]string, len(ids))
		for j, x := range ids {
			ss[j] = strconv.Itoa(x)
		}
		s := strings.Join(ss, ",")
		if s == "" {
			s = "-"
		}
		parts[i] = strconv.Itoa(i) + ":" + s
	}
	return strings.Join(parts, " ")
}
