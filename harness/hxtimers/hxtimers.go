// Package hxtimers is shared by hx_c05 and hx_c06: it runs an op script against the REAL timer
// schedulers (sched.HHWheelTimer, sched.TimerQueue) through the synchronous driver H1
// (sched/verif_driver.go, build tag verif) and evaluates the timer properties with a deliberately
// dumb reference that knows nothing about wheels, heaps or the Lean model.
package hxtimers

import (
	"fmt"
	"sort"
	"strconv"
	"strings"

	"verifharness/hxlib"

	"qchen.fun/fatchoy/sched"
)

// Op kinds: after d | every p | cancel id | add | del | advance n | clock n | size | sched id | links
// and the fine-grained tick `ftick n` (wheel: n = 1, one tick; heap: n units pass, then one tick): Sub[k] are the
// client ops (after / every / cancel / size / sched) that run at the k-th schedule point INSIDE the tick
// (before the worker takes the guard to decide about a node, or between that decision and the send).
type Op struct {
	K   string `json:"k"`
	A   int64  `json:"a,omitempty"`
	Sub [][]Op `json:"sub,omitempty"`
}

func (o Op) String() string {
	switch o.K {
	case "add", "del", "size", "links":
		return o.K
	}
	s := o.K + " " + strconv.FormatInt(o.A, 10)
	if o.K == "ftick" {
		for _, ops := range o.Sub {
			s += " ["
			for i, x := range ops {
				if i > 0 {
					s += ","
				}
				s += x.String()
			}
			s += "]"
		}
	}
	return s
}

// Case is one history on a fresh scheduler.
type Case struct {
	Sched string `json:"sched"` // wheel | heap
	Pos   uint32 `json:"pos"`   // wheel: tick position at start
	Time  int64  `json:"time"`  // virtual time at start
	Ops   []Op   `json:"ops"`
}

func (c Case) Header() string {
	if c.Sched == "wheel" {
		return fmt.Sprintf("new wheel pos=%d time=%d", c.Pos, c.Time)
	}
	return fmt.Sprintf("new heap time=%d", c.Time)
}

type probe struct{ serial int }

func (p *probe) Run() error { return nil }

// driver is what H1 offers for either scheduler.
type driver interface {
	StepAdd() bool
	StepDel() bool
	PendingAdds() int
	PendingDels() int
	Drain() []sched.Runnable
}

// Real is a live scheduler under the synchronous driver.
type Real struct {
	c      Case
	w      *sched.VerifWheel
	q      *sched.VerifQueue
	d      driver
	t      sched.Timer
	ids    []int // serial -> id returned by the scheduler
	Dead   bool  // a panic happened: the instance is not used any further
	CapC   int
	capReq int
}

func NewReal(c Case, cbuf int) *Real {
	r := &Real{c: c, CapC: cbuf, capReq: sched.PendingQueueCapacity}
	if c.Sched == "wheel" {
		r.w = sched.NewVerifWheel(cbuf)
		r.w.SetPosition(c.Pos)
		r.w.SetTime(c.Time)
		r.d, r.t = r.w, r.w.T
	} else {
		r.q = sched.NewVerifQueue(cbuf)
		r.q.SetTime(c.Time)
		r.d, r.t = r.q, r.q.Q
	}
	return r
}

func (r *Real) Close() {
	if r.q != nil {
		r.q.Release()
	}
}

// Fired is one delivery observed on Chan(): the serial of the start call it belongs to.
func (r *Real) drain() []int {
	var out []int
	for _, x := range r.d.Drain() {
		if p, ok := x.(*probe); ok {
			out = append(out, p.serial)
		} else {
			out = append(out, -1)
		}
	}
	return out
}

func (r *Real) idsOf(serials []int) string {
	if len(serials) == 0 {
		return "-"
	}
	parts := make([]string, len(serials))
	for i, s := range serials {
		if s < 0 || s >= len(r.ids) {
			parts[i] = "?"
		} else {
			parts[i] = strconv.Itoa(r.ids[s])
		}
	}
	return strings.Join(parts, ",")
}

// YieldStep is one schedule point reached inside a fine-grained tick and what the client ops placed there showed.
type YieldStep struct {
	Point string // decide | send
	ID    int
	Ops   []Op
	Obs   []Obs
}

// Obs is what one op showed.
type Obs struct {
	Steps  []YieldStep // ftick
	Out    string
	ID     int   // after/every: id returned
	Bool   bool  // cancel / sched / add / del
	N      int   // size
	Fired  []int // advance: ids in delivery order
	Panic  string
	Refuse bool // the harness did not run the op (it would block the synchronous driver)
}

// doInner runs a client op from inside a schedule-point callback (a panic propagates to the tick's Guard).
func (r *Real) doInner(o Op) Obs {
	var ob Obs
	switch o.K {
	case "after", "every":
		if r.d.PendingAdds() >= r.capReq {
			ob.Out, ob.Refuse = "full", true
			return ob
		}
		pr := &probe{serial: len(r.ids)}
		r.ids = append(r.ids, 0)
		var id int
		if o.K == "after" {
			id = r.t.RunAfter(int(o.A), pr)
		} else {
			id = r.t.RunEvery(int(o.A), pr)
		}
		r.ids[pr.serial] = id
		ob.ID = id
		ob.Out = "id=" + strconv.Itoa(id)
	case "cancel":
		if r.d.PendingDels() >= r.capReq {
			ob.Out, ob.Refuse = "full", true
			return ob
		}
		ob.Bool = r.t.Cancel(int(o.A))
		ob.Out = strconv.FormatBool(ob.Bool)
	case "size":
		ob.N = r.t.Size()
		ob.Out = strconv.Itoa(ob.N)
	case "sched":
		ob.Bool = r.t.IsScheduled(int(o.A))
		ob.Out = strconv.FormatBool(ob.Bool)
	}
	return ob
}

// Do runs one op on the real code and returns the canonical answer line.
func (r *Real) Do(o Op) Obs {
	var ob Obs
	if r.Dead {
		ob.Out, ob.Refuse = "dead", true
		return ob
	}
	p := hxlib.Guard(func() {
		switch o.K {
		case "after", "every":
			if r.d.PendingAdds() >= r.capReq {
				ob.Out, ob.Refuse = "full", true
				return
			}
			pr := &probe{serial: len(r.ids)}
			r.ids = append(r.ids, 0)
			var id int
			if o.K == "after" {
				id = r.t.RunAfter(int(o.A), pr)
			} else {
				id = r.t.RunEvery(int(o.A), pr)
			}
			r.ids[pr.serial] = id
			ob.ID = id
			ob.Out = "id=" + strconv.Itoa(id)
		case "cancel":
			if r.d.PendingDels() >= r.capReq {
				ob.Out, ob.Refuse = "full", true
				return
			}
			ob.Bool = r.t.Cancel(int(o.A))
			ob.Out = strconv.FormatBool(ob.Bool)
		case "add":
			ob.Bool = r.d.StepAdd()
			ob.Out = map[bool]string{true: "ok", false: "none"}[ob.Bool]
		case "del":
			ob.Bool = r.d.StepDel()
			ob.Out = map[bool]string{true: "ok", false: "none"}[ob.Bool]
		case "ftick":
			k := 0
			cb := func(point string, id int) {
				st := YieldStep{Point: point, ID: id}
				if k < len(o.Sub) {
					for _, co := range o.Sub[k] {
						switch co.K {
						case "after", "every", "cancel", "size", "sched":
							st.Ops = append(st.Ops, co)
							st.Obs = append(st.Obs, r.doInner(co))
						}
					}
				}
				k++
				ob.Steps = append(ob.Steps, st)
			}
			if r.w != nil {
				r.w.OnYield(cb)
				defer r.w.OnYield(nil)
				r.w.Advance(1)
			} else {
				r.q.OnYield(cb)
				defer r.q.OnYield(nil)
				r.q.Advance(o.A)
				r.q.Tick()
			}
			ser := r.drain()
			for _, s := range ser {
				if s >= 0 && s < len(r.ids) {
					ob.Fired = append(ob.Fired, r.ids[s])
				} else {
					ob.Fired = append(ob.Fired, -1)
				}
			}
			ob.Out = "fired=" + r.idsOf(ser)
		case "advance":
			if r.w != nil {
				r.w.Advance(o.A)
			} else {
				r.q.Advance(o.A)
				r.q.Tick()
			}
			ser := r.drain()
			for _, s := range ser {
				if s >= 0 && s < len(r.ids) {
					ob.Fired = append(ob.Fired, r.ids[s])
				} else {
					ob.Fired = append(ob.Fired, -1)
				}
			}
			ob.Out = "fired=" + r.idsOf(ser)
		case "clock":
			if r.q != nil {
				r.q.Advance(o.A)
				ob.Out = "ok"
			} else {
				ob.Out, ob.Refuse = "bad-op", true
			}
		case "size":
			ob.N = r.t.Size()
			ob.Out = strconv.Itoa(ob.N)
		case "sched":
			ob.Bool = r.t.IsScheduled(int(o.A))
			ob.Out = strconv.FormatBool(ob.Bool)
		case "links":
			ob.Out = r.links()
		default:
			ob.Out, ob.Refuse = "bad-op", true
		}
	})
	if p != "" {
		ob.Panic = p
		ob.Out = "panic"
		r.Dead = true
	}
	return ob
}

// links: where the back end holds which timer (ids sorted per level; heap: one level).
func (r *Real) links() string {
	var lv [][]int
	if r.w != nil {
		lv = r.w.Linked()
	} else {
		lv = [][]int{r.q.HeapIDs()}
	}
	parts := make([]string, len(lv))
	for i, ids := range lv {
		sort.Ints(ids)
		ss := make([]string, len(ids))
		for j, x := range ids {
			ss[j] = strconv.Itoa(x)
		}
		s := strings.Join(ss, ",")
		if s == "" {
			s = "-"
		}
		parts[i] = strconv.Itoa(i) + ":" + s
	}
	return strings.Join(parts, " ")
}
