package hxconn

// Connection TYPES (Scenario.Transport). qnet.NewTcpConn takes a net.Conn; besides loopback TCP the scenarios
// run over net.Pipe (synchronous, no buffering, no half-close), an abstract unix-domain socket (buffered, a
// *net.UnixConn: has CloseWrite/CloseRead but is not a *net.TCPConn), a *tls.Conn over loopback TCP with a
// completed handshake (this side the TLS server or the TLS client) and a *tls.Conn whose peer never speaks (port
// probe, silent client): the handshake never completes, every Read and Write of the connection waits for it.
// What the properties demand is the same for all of them: Close and ForceClose return, one terminal error, the pumps
// exit, THE PEER SEES THE STREAM END, and (handshake completed) every accepted packet arrives once and in order.

import (
	"crypto/ecdsa"
	"crypto/elliptic"
	"crypto/rand"
	"crypto/tls"
	"crypto/x509"
	"crypto/x509/pkix"
	"errors"
	"fmt"
	"io"
	"math/big"
	"net"
	"os"
	"sync"
	"sync/atomic"
	"syscall"
	"time"
)

// ends are the two ends of one connection.
type ends struct {
	local   net.Conn   // handed to qnet.NewTcpConn
	peer    net.Conn   // driven by the harness (frames are read and written here)
	raws    []net.Conn // every descriptor the harness owns (closed at the very end)
	silent  bool       // the peer is a raw socket that never speaks TLS: nothing can be delivered
	halfFin func() error
	reset   func() // nil: this transport cannot reset
}

var (
	tlsOnce sync.Once
	tlsSrv  *tls.Config
	tlsCli  *tls.Config
	tlsErr  error
	unixSeq int64
)

func tlsConfigs() (*tls.Config, *tls.Config, error) {
	tlsOnce.Do(func() {
		key, err := ecdsa.GenerateKey(elliptic.P256(), rand.Reader)
		if err != nil {
			tlsErr = err
			return
		}
		tmpl := &x509.Certificate{SerialNumber: big.NewInt(1), Subject: pkix.Name{CommonName: "localhost"},
			NotBefore: time.Now().Add(-time.Hour), NotAfter: time.Now().Add(24 * time.Hour), DNSNames: []string{"localhost"}}
		der, err := x509.CreateCertificate(rand.Reader, tmpl, tmpl, &key.PublicKey, key)
		if err != nil {
			tlsErr = err
			return
		}
		tlsSrv = &tls.Config{Certificates: []tls.Certificate{{Certificate: [][]byte{der}, PrivateKey: key}}}
		tlsCli = &tls.Config{InsecureSkipVerify: true, ServerName: "localhost"}
	})
	return tlsSrv, tlsCli, tlsErr
}

func sockPair(network string) (dialled, accepted net.Conn, err error) {
	addr := "127.0.0.1:0"
	if network == "unix" {
		addr = fmt.Sprintf("@hxconn-%d-%d", os.Getpid(), atomic.AddInt64(&unixSeq, 1)) // abstract: no file
	}
	ln, err := net.Listen(network, addr)
	if err != nil {
		return nil, nil, err
	}
	defer ln.Close()
	type acc struct {
		c   net.Conn
		err error
	}
	ch := make(chan acc, 1)
	go func() { c, err := ln.Accept(); ch <- acc{c, err} }()
	d, err := net.Dial(network, ln.Addr().String())
	if err != nil {
		ln.Close()
		<-ch
		return nil, nil, err
	}
	a := <-ch
	if a.err != nil {
		d.Close()
		return nil, nil, a.err
	}
	return d, a.c, nil
}

// lateArmConn forces one legal schedule through the net.Conn seam (Scenario.Forced == "late-arm"; no hook in the
// library needed): the reader goroutine is slow to arm its FIRST read deadline — it gets there only after the graceful
// Close has closed done and set its wake-up deadline in the past — and the writer goroutine is slow to make its first
// write — it gets there only after the reader has armed. On plain TCP that is harmless (the reader sees done and
// leaves; a write never reads). On a *tls.Conn whose handshake is still pending the writer's flush must complete the
// handshake, which READS — under the deadline the reader has just re-armed TConnReadTimeout seconds into the future.
type lateArmConn struct {
	net.Conn
	once1, once2, once3 sync.Once
	woken               chan struct{} // a read deadline in the past was set (Close's wake-up)
	armed               chan struct{} // after that, the reader armed a deadline in the future
	armedAt             time.Time
}

func newLateArm(c net.Conn) *lateArmConn {
	return &lateArmConn{Conn: c, woken: make(chan struct{}), armed: make(chan struct{})}
}

func (c *lateArmConn) SetReadDeadline(t time.Time) error {
	if !t.IsZero() && !t.After(time.Now()) {
		err := c.Conn.SetReadDeadline(t)
		c.once1.Do(func() { close(c.woken) })
		return err
	}
	first := false
	c.once2.Do(func() { first = true })
	if first {
		select {
		case <-c.woken:
		case <-time.After(Deadline / 2):
		}
		err := c.Conn.SetReadDeadline(t)
		c.armedAt = time.Now()
		close(c.armed)
		return err
	}
	return c.Conn.SetReadDeadline(t)
}

func (c *lateArmConn) Write(p []byte) (int, error) {
	c.once3.Do(func() {
		select {
		case <-c.armed:
			time.Sleep(2 * time.Millisecond) // (the reader has looked at done and left)
		case <-time.After(Deadline / 2):
		}
	})
	return c.Conn.Write(p)
}

func connect(sc Scenario) (*ends, error) {
	e, err := connect0(sc)
	if err == nil && sc.Forced == "late-arm" {
		e.local = newLateArm(e.local)
	}
	return e, err
}

func connect0(sc Scenario) (*ends, error) {
	switch sc.Transport {
	case "pipe":
		a, b := net.Pipe()
		return &ends{local: a, peer: b, raws: []net.Conn{a, b}, halfFin: b.Close}, nil
	case "", "tcp", "unix":
		network := "tcp"
		if sc.Transport == "unix" {
			network = "unix"
		}
		d, a, err := sockPair(network)
		if err != nil {
			return nil, err
		}
		e := &ends{local: d, peer: a, raws: []net.Conn{d, a}}
		if sc.Accepted && a.RemoteAddr() != nil {
			e.local, e.peer = a, d
		}
		switch p := e.peer.(type) {
		case *net.TCPConn:
			if sc.Peer.Hold > 0 {
				p.SetReadBuffer(256 << 10) // a peer that keeps still: its receive buffer stays what it was at the start
			}
			e.halfFin = p.CloseWrite
			e.reset = func() { p.SetLinger(0); p.Close() }
		case *net.UnixConn:
			e.halfFin = p.CloseWrite
		}
		return e, nil
	case "tls", "tlsc", "tls-silent", "tlsc-silent":
		srvCfg, cliCfg, err := tlsConfigs()
		if err != nil {
			return nil, err
		}
		d, a, err := sockPair("tcp")
		if err != nil {
			return nil, err
		}
		lraw, praw := d, a
		if sc.Accepted || sc.Transport == "tls" || sc.Transport == "tls-silent" {
			lraw, praw = a, d // a TLS server sits on the accepted end
		}
		e := &ends{raws: []net.Conn{d, a}}
		switch sc.Transport {
		case "tls-silent":
			e.local, e.peer, e.silent = tls.Server(lraw, srvCfg), praw, true
		case "tlsc-silent":
			e.local, e.peer, e.silent = tls.Client(lraw, cliCfg), praw, true
		default:
			var l, p *tls.Conn
			if sc.Transport == "tls" {
				l, p = tls.Server(lraw, srvCfg), tls.Client(praw, cliCfg)
			} else {
				l, p = tls.Client(lraw, cliCfg), tls.Server(praw, srvCfg)
			}
			lraw.SetDeadline(time.Now().Add(Deadline))
			praw.SetDeadline(time.Now().Add(Deadline))
			hs := make(chan error, 1)
			go func() { hs <- p.Handshake() }()
			err := l.Handshake()
			if err2 := <-hs; err == nil {
				err = err2
			}
			lraw.SetDeadline(time.Time{})
			praw.SetDeadline(time.Time{})
			if err != nil {
				d.Close()
				a.Close()
				return nil, fmt.Errorf("tls handshake: %v", err)
			}
			e.local, e.peer = l, p
			e.halfFin = p.CloseWrite
		}
		if e.silent {
			pt := praw.(*net.TCPConn)
			e.halfFin = pt.CloseWrite
			e.reset = func() { pt.SetLinger(0); pt.Close() }
		}
		return e, nil
	}
	return nil, fmt.Errorf("unknown transport %q", sc.Transport)
}

// resetClass: the read ended because the other side went away with the connection (not a clean end-of-stream, but an end).
func resetClass(err error) bool {
	return errors.Is(err, syscall.ECONNRESET) || errors.Is(err, syscall.EPIPE) || errors.Is(err, io.ErrClosedPipe)
}
