// Package hxconn runs scenarios against the REAL qnet.TcpConn over loopback TCP and records
// (a) a linearised trace of the visible events (call/return markers and observations) that the Lean
// LTS of Model/Conn.lean must be able to explain (trace validation), and (b) the plain observations
// the independent oracles of C03/C04 are evaluated on.  Shared by cmd/hx_c03 and cmd/hx_c04.
package hxconn

// Scenario is a replayable description of one run (the schedule itself is up to the Go runtime,
// except for the forced schedules that go through the H2 schedule points).
type Scenario struct {
	Name     string   `json:"name"`
	Codec    int      `json:"codec"`    // 1 | 2
	Cipher   bool     `json:"cipher"`   // aes-128 CFB on both directions
	Cap      int      `json:"cap"`      // outbound queue capacity
	ICap     int      `json:"icap"`     // inbound channel capacity
	ECap     int      `json:"ecap"`     // error channel capacity
	EPrefill int      `json:"eprefill"` // errors already sitting in the error channel (ECap == EPrefill: full)
	Senders  []Sender `json:"senders"`
	Closers  []Closer `json:"closers"`
	Peer     Peer     `json:"peer"`
	Inb      string   `json:"inb"`    // consumer of the inbound channel: prompt | never | ccall | cret
	Err      string   `json:"err"`    // consumer of the error channel: prompt | never
	Late     int      `json:"late"`   // sends issued after every closer returned (must be refused)
	Forced   string   `json:"forced"` // "" | park-send | park-finally   (H2 forced schedules) | late-arm (forced through the net.Conn seam, transport.go)
	Jitter   uint64   `json:"jitter"` // seed of the small yields that vary the schedule
	// third-wave legs (legs3.go): the things the scenarios above never varied
	Transport   string `json:"transport,omitempty"` // "" (loopback TCP) | pipe (net.Pipe) | unix (abstract unix-domain socket) | tls / tlsc (*tls.Conn over TCP, handshake completed; this side is the TLS server / client) | tls-silent / tlsc-silent (the TLS peer never speaks: the handshake never completes)
	Accepted    bool   `json:"accepted,omitempty"`  // the connection under test is the ACCEPTED end of the socket pair (default: the dialling end)
	Stats       *int   `json:"stats,omitempty"`     // nil: NewTcpConn(..., nil); else stats.New(*Stats)
	ReadTimeout int    `json:"rtimeout,omitempty"`  // qnet.TConnReadTimeout (seconds) for this run; 0: unchanged
	Flag        string `json:"flag,omitempty"`      // "" Go(EndpointReadWriter) | w Go(EndpointWriter)
	Iso         bool   `json:"iso,omitempty"`       // run (and replay) in a child process (iso.go)
	Cryptor     string `json:"cryptor,omitempty"`   // with Cipher: "" aes-128 CFB | salsa20 | twofish | new (a custom BlockCryptor whose Encrypt/Decrypt return NEW slices and leave their argument alone) | pad (custom: the output is 3 bytes longer than the input, Decrypt strips them)
}

// Sender issues SendPacket for one packet per size, in order.
type Sender struct {
	Sizes []int  `json:"sizes"`
	When  string `json:"when"`  // start | ccall | cret
	Retry int    `json:"retry"` // on overflow: yield and call again, at most this many times per packet
	Pace  int    `json:"pace"`  // microseconds between sends (0: none)
	Burst bool   `json:"burst"` // no scheduling jitter between the calls (builds a backlog)
	Delay int    `json:"delay,omitempty"` // microseconds to wait (after When) before the first call
	Refs  []int  `json:"refs,omitempty"`  // per packet (parallel to Sizes; missing = 0): number of node references it carries (> 255: the V2 encoder refuses it)
	Share bool   `json:"share,omitempty"` // all packets of this sender carry ONE body slice object (the sizes must be equal)
}

// Closer calls Close (graceful) or ForceClose once.
type Closer struct {
	Graceful bool   `json:"graceful"`
	When     string `json:"when"` // start | senders | pwrote | inball | rfull | ccall | cret | errgot (the terminal error was received: the connection ended by itself)
}

// Peer is the remote end (a raw TCP socket driven by the harness).
type Peer struct {
	Read      string `json:"read"`   // prompt | slow | ccall | cret | never
	Frames    []int  `json:"frames"` // body sizes of the valid frames the peer sends
	Tail      string `json:"tail"`   // "" | fin | rst | garbage | badcrc
	WriteWhen string `json:"wwhen"`  // start | senders | ccall | cret
	Pace      int    `json:"pace,omitempty"` // microseconds between the peer's frames (0: none): keeps the peer writing for a while
	Chunk     int    `json:"chunk,omitempty"`   // > 0: the peer writes its frames in pieces of this many bytes (a short pause after each piece)
	Hold      int    `json:"hold_ms,omitempty"` // milliseconds the peer waits (after its Read trigger) before it reads its first byte; every deadline of the run is extended by it
}

// SendRec is one SendPacket call as seen by the caller.
type SendRec struct {
	Sender int    `json:"sender"`
	Pkt    int    `json:"pkt"`
	Size   int    `json:"size"`
	Wire   int    `json:"wire"` // encoded frame size (0: not encodable)
	Res    string `json:"res"`  // ok | closing | overflow | panic | other
	CallAt int    `json:"call_at"`
	RetAt  int    `json:"ret_at"`
}

// CloseRec is one Close/ForceClose call.
type CloseRec struct {
	Closer    int    `json:"closer"`
	Graceful  bool   `json:"graceful"`
	Res       string `json:"res"` // ok | panic | hang
	CallAt    int    `json:"call_at"`
	RetAt     int    `json:"ret_at"`
	SentPkts  int64  `json:"sent_pkts"`  // counters read right after the call returned
	SentBytes int64  `json:"sent_bytes"` //
	Running   bool   `json:"running"`    // IsRunning() right after the call returned
	Backlog   int    `json:"backlog"`    // packets sitting in the outbound queue when the call began
	DurMs     int    `json:"dur_ms"`     // how long the call took (an observation, never an oracle)
}

// Outcome is everything observed in one run.
type Outcome struct {
	Trace      []string   `json:"-"`
	Sends      []SendRec  `json:"sends"`
	Closes     []CloseRec `json:"closes"`
	PeerGot    []int      `json:"peer_got"`  // packet ids decoded by the peer, in stream order
	PeerGotAt  []int      `json:"-"`         // trace positions of those observations
	PeerBytes  int64      `json:"peer_bytes"`
	PeerEOF    bool       `json:"peer_eof"`
	PeerReset  bool       `json:"peer_reset,omitempty"` // the peer's read ended with a connection reset / closed pipe (a stream end, but not a clean one)
	StatsN     int        `json:"stats_n"`              // number of counters the connection's Stats object has
	EndLagMs   int        `json:"end_lag_ms"`           // milliseconds between the return of the first Close/ForceClose call and the moment the peer saw the stream end (-1: not both observed; an observation, never an oracle)
	PeerEOFAt  int        `json:"-"`
	PeerErr    string     `json:"peer_err"`
	PeerBad    []string   `json:"peer_bad"` // integrity problems in the peer's stream
	PeerSent   []int      `json:"peer_sent"` // frame ids the peer wrote completely
	PeerSizes  []int      `json:"-"`         // their encoded sizes
	InbGot     []int      `json:"inb_got"`
	InbBad     []string   `json:"inb_bad"`
	Errs       []string   `json:"errs"` // kinds received from the error channel (prefill excluded)
	ErrBad     []string   `json:"err_bad"`
	Panics     []string   `json:"panics"`
	Hangs      []string   `json:"hangs"`
	Stats      [4]int64   `json:"stats"` // bytes recv, bytes sent, packets recv, packets sent at the end
	Leak       int        `json:"leak"`  // goroutines above the baseline at the end
	RunningEnd bool       `json:"running_end"`
	Quiet      bool       `json:"quiet"` // reached the quiescent end (trace ends with stats + end)
	Parked     []string   `json:"parked"`
}

func (o *Outcome) Accepted() []SendRec {
	var a []SendRec
	for _, s := range o.Sends {
		if s.Res == "ok" {
			a = append(a, s)
		}
	}
	return a
}
