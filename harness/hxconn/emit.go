package hxconn

import (
	"fmt"
	"strings"

	"verifharness/hxlib"
)

// Emit writes the linearised trace of a real run as op lines; the model driver must be able to
// explain it with an execution of the LTS (`verdict` -> accept).
func Emit(r *hxlib.Run, o *Outcome) {
	for _, e := range o.Trace {
		r.Op(e, "-")
	}
	r.Op("verdict", "accept")
}

// EmitMutant writes a fabricated trace (a negative control of the trace validator): it describes a
// run that contradicts the property, so no execution of the LTS may explain it (`verdict` -> reject).
func EmitMutant(r *hxlib.Run, kind string, trace []string) {
	for _, e := range trace {
		r.Op(e, "-")
	}
	r.Op("verdict mutant="+kind, "reject")
	r.Count("mutant:" + kind)
}

func field(ev, key string) (string, bool) {
	for _, w := range strings.Fields(ev) {
		if strings.HasPrefix(w, key+"=") {
			return w[len(key)+1:], true
		}
	}
	return "", false
}

func setField(ev, key, val string) string {
	ws := strings.Fields(ev)
	for i, w := range ws {
		if strings.HasPrefix(w, key+"=") {
			ws[i] = key + "=" + val
		}
	}
	return strings.Join(ws, " ")
}

func idx(trace []string, verb string) []int {
	var out []int
	for i, e := range trace {
		if strings.HasPrefix(e, verb+" ") || e == verb {
			out = append(out, i)
		}
	}
	return out
}

func renumberWgot(trace []string) []string {
	out := make([]string, 0, len(trace))
	k := 0
	for _, e := range trace {
		switch {
		case strings.HasPrefix(e, "wgot "):
			e = setField(e, "k", fmt.Sprint(k))
			k++
		case strings.HasPrefix(e, "weof "), strings.HasPrefix(e, "werr "):
			e = setField(e, "k", fmt.Sprint(k))
		}
		out = append(out, e)
	}
	return out
}

// Mutants derives property-violating variants of a trace that was observed on a run where the
// peer read to end-of-stream and the connection reached its quiescent end.
func Mutants(rnd *hxlib.Rand, sc Scenario, o *Outcome) map[string][]string {
	m := map[string][]string{}
	t := o.Trace
	if !o.Quiet || len(t) > 48 {
		return m
	}
	// a negative control must be REJECTED, which costs the validator an exhaustive search: with five or more calls open
	// at once (senders and closers overlapping) that search can run out of its budget (3·10^6 states) and the check would
	// report a correspondence it cannot decide — no controls from such traces
	open, maxOpen := 0, 0
	for _, e := range t {
		switch {
		case strings.HasPrefix(e, "scall "), strings.HasPrefix(e, "ccall "):
			open++
			if open > maxOpen {
				maxOpen = open
			}
		case strings.HasPrefix(e, "sret "), strings.HasPrefix(e, "cret "):
			open--
		}
	}
	if maxOpen >= 5 {
		return m
	}
	for _, e := range t {
		if e == "prst" {
			// after a reset the LTS lets any write fail, which legitimately explains lost packets; and the
			// exhaustive search over per-packet write outcomes is exponential
			return m
		}
	}
	cp := func() []string { return append([]string{}, t...) }
	w := idx(t, "wgot")
	if o.PeerEOF && sc.Peer.Tail != "rst" && len(w) >= 1 {
		// an accepted packet never reaches the peer although the stream ended
		d := w[rnd.Intn(len(w))]
		x := cp()
		x = append(x[:d], x[d+1:]...)
		m["lost"] = renumberWgot(x)
		// a packet reaches the peer twice
		x = cp()
		d = w[rnd.Intn(len(w))]
		x = append(x[:d+1], append([]string{x[d]}, x[d+1:]...)...)
		m["duplicate"] = renumberWgot(x)
		if len(w) >= 2 {
			k := rnd.Intn(len(w) - 1)
			a, b := w[k], w[k+1]
			pa, _ := field(t[a], "p")
			pb, _ := field(t[b], "p")
			// only meaningful when the two packets were ordered by the senders: same sender
			if pa != pb && len(pa) == len(pb) && pa[:len(pa)-4] == pb[:len(pb)-4] {
				x = cp()
				x[a], x[b] = setField(x[a], "p", pb), setField(x[b], "p", pa)
				m["reordered"] = x
			}
		}
	}
	// a send that began after a close returned is accepted
	firstCret := -1
	for i, e := range t {
		if strings.HasPrefix(e, "cret ") {
			firstCret = i
			break
		}
	}
	if firstCret >= 0 {
		for i := firstCret; i < len(t); i++ {
			if strings.HasPrefix(t[i], "sret ") && strings.HasSuffix(t[i], "r=closing") {
				si, _ := field(t[i], "i")
				// its call must also be after the close returned
				for c := i - 1; c > firstCret; c-- {
					if strings.HasPrefix(t[c], "scall ") {
						if ci, _ := field(t[c], "i"); ci == si {
							x := cp()
							x[i] = setField(x[i], "r", "ok")
							m["accepted-after-close"] = x
						}
						break
					}
				}
				break
			}
		}
	}
	// a send panics
	if s := idx(t, "sret"); len(s) > 0 {
		x := cp()
		d := s[rnd.Intn(len(s))]
		x[d] = setField(x[d], "r", "panic")
		m["send-panics"] = x
	}
	// a second terminal error
	if st := idx(t, "stats"); len(st) == 1 {
		x := cp()
		dangling := false
		for _, e := range t[:st[0]] {
			if e == "ecall" {
				dangling = true
			} else if strings.HasPrefix(e, "eret ") {
				dangling = false
			}
		}
		cnt := 1
		if len(o.Errs) == 0 {
			cnt = 2
		}
		var extra []string
		for k := 0; k < cnt; k++ {
			if dangling {
				extra = append(extra, "eret e=closed", "ecall")
			} else {
				extra = append(extra, "ecall", "eret e=closed")
			}
		}
		x = append(x[:st[0]], append(extra, x[st[0]:]...)...)
		m["two-errors"] = x
		// counters that disagree with the wire
		y := cp()
		ps, _ := field(y[st[0]], "ps")
		var n int
		fmt.Sscan(ps, &n)
		y[st[0]] = setField(y[st[0]], "ps", fmt.Sprint(n+1))
		m["counter-drift"] = y
	}
	// an inbound frame is skipped
	if ir := idx(t, "iret"); len(ir) >= 2 {
		d := ir[rnd.Intn(len(ir)-1)]
		// remove the iret and its icall
		x := cp()
		c := d - 1
		for c >= 0 && x[c] != "icall" {
			c--
		}
		if c >= 0 {
			x = append(x[:d], x[d+1:]...)
			x = append(x[:c], x[c+1:]...)
			m["inbound-skips"] = x
		}
	}
	return m
}
