package hxconn

// Channel capacities the single-connection scenarios do not vary (oracle only; no trace is emitted for these runs):
// an UNBUFFERED error channel with a receiver already waiting; ONE error channel with a single free slot (or none)
// shared by two or more connections that terminate concurrently while nobody drains it; an inbound channel of
// capacity 0 or 1 shared likewise. What the property demands: nobody blocks (every Close / ForceClose returns, every
// connection terminates, its goroutines exit), a waiting receiver is offered the terminal error, a channel with
// room gets as many terminal errors as it has room for (one per connection at most), frames the peer wrote reach
// a waiting inbound consumer once and in order.

import (
	"bytes"
	"errors"
	"fmt"
	"net"
	"sync"
	"time"

	fatchoy "qchen.fun/fatchoy"
	"qchen.fun/fatchoy/packet"
	"qchen.fun/fatchoy/qnet"

	"verifharness/hxlib"
)

// SharedCase is a replayable description of one such run.
type SharedCase struct {
	Name    string   `json:"name"`
	Codec   int      `json:"codec"`
	ECap    int      `json:"ecap"`    // capacity of the shared error channel
	EFree   int      `json:"efree"`   // free slots in it when the run begins (the rest is prefilled)
	EWait   bool     `json:"ewait"`   // a receiver is already waiting on the error channel when the connections terminate
	ICap    int      `json:"icap"`    // capacity of the shared inbound channel
	IWait   bool     `json:"iwait"`   // a consumer is already waiting on the inbound channel
	Frames  int      `json:"frames"`  // frames each peer writes before the termination
	How     []string `json:"how"`     // per connection: close | force | fin | rst | garbage
	Jitter  uint64   `json:"jitter"`
}

func (c SharedCase) Describe() string {
	return fmt.Sprintf("%s v%d e%d/%dfree wait=%v i%d wait=%v frames=%d %v", c.Name, c.Codec, c.ECap, c.EFree, c.EWait, c.ICap, c.IWait, c.Frames, c.How)
}

// RunShared executes the case against the real code and judges it.
func RunShared(c SharedCase) (fs []Finding, errsGot int) {
	base := settle(0, 0)
	enc := newCodec(c.Codec)
	n := len(c.How)
	errch := make(chan error, c.ECap)
	prefill := errors.New("prefill")
	for k := 0; k < c.ECap-c.EFree; k++ {
		errch <- prefill
	}
	inbound := make(chan fatchoy.IPacket, c.ICap)
	type pair struct {
		local net.Conn
		peer  *net.TCPConn
		t     *qnet.TcpConn
	}
	var ps []pair
	defer func() {
		for _, p := range ps {
			p.peer.Close()
			p.local.Close()
		}
	}()
	for i := 0; i < n; i++ {
		ln, err := net.Listen("tcp", "127.0.0.1:0")
		if err != nil {
			return nil, 0 // not a case
		}
		acc := make(chan net.Conn, 1)
		go func() { x, _ := ln.Accept(); acc <- x }()
		local, err := net.Dial("tcp", ln.Addr().String())
		if err != nil {
			ln.Close()
			return nil, 0
		}
		a := <-acc
		ln.Close()
		if a == nil {
			local.Close()
			return nil, 0
		}
		t := qnet.NewTcpConn(fatchoy.NodeID(0x20001+i), local, enc, errch, inbound, 4, nil)
		ps = append(ps, pair{local, a.(*net.TCPConn), t})
	}
	var mu sync.Mutex
	got := 0
	var kinds []string
	stop := make(chan struct{})
	var cons sync.WaitGroup
	if c.EWait {
		cons.Add(1)
		go func() {
			defer cons.Done()
			for {
				select {
				case e := <-errch:
					if e != prefill {
						mu.Lock()
						got++
						kinds = append(kinds, errKind(e))
						mu.Unlock()
					}
				case <-stop:
					return
				}
			}
		}()
	}
	inbGot := map[int][]int{} // connection -> frame numbers in arrival order
	var inbBad []string
	if c.IWait {
		cons.Add(1)
		go func() {
			defer cons.Done()
			for {
				select {
				case p := <-inbound:
					id := int(p.Command()) - peerIDBase
					ci, k := id/1000, id%1000
					mu.Lock()
					inbGot[ci] = append(inbGot[ci], k)
					if ci >= 0 && ci < n {
						if ep, ok := p.(*packet.Packet); !ok || ep.Endpoint() != fatchoy.MessageEndpoint(ps[ci].t) {
							inbBad = append(inbBad, fmt.Sprintf("frame %d of connection %d is not bound to the connection it arrived on", k, ci))
						}
						if !bytes.Equal(bodyOf(p), Body(int(p.Command()), 12)) {
							inbBad = append(inbBad, fmt.Sprintf("frame %d of connection %d: body differs from what the peer sent", k, ci))
						}
					}
					mu.Unlock()
				case <-stop:
					return
				}
			}
		}()
	}
	for _, p := range ps {
		if pan := hxlib.Guard(func() { p.t.Go(fatchoy.EndpointReadWriter) }); pan != "" {
			add(&fs, false, panicKey(pan), "Go: %s", pan)
			return
		}
	}
	// the peers write their frames; a waiting consumer must get all of them before anything terminates
	for i, p := range ps {
		for k := 0; k < c.Frames; k++ {
			_, raw := wireSize(enc, nil, peerIDBase+i*1000+k, 12)
			p.peer.SetWriteDeadline(time.Now().Add(Deadline))
			p.peer.Write(raw)
		}
	}
	if c.IWait && c.Frames > 0 {
		end := time.Now().Add(Deadline)
		for {
			mu.Lock()
			tot := 0
			for _, v := range inbGot {
				tot += len(v)
			}
			mu.Unlock()
			if tot >= n*c.Frames {
				break
			}
			if time.Now().After(end) {
				add(&fs, true, "inbound:not-delivered", "a consumer waiting on the inbound channel (capacity %d, shared by %d connections) received %d of the %d frames the peers wrote within %v", c.ICap, n, tot, n*c.Frames, Deadline)
				break
			}
			time.Sleep(100 * time.Microsecond)
		}
	} else {
		time.Sleep(2 * time.Millisecond) // readers run into the undrained inbound channel
	}
	time.Sleep(time.Millisecond) // the waiting receivers are parked in their receive
	// all connections terminate at once
	jr := hxlib.NewRand(c.Jitter)
	start := make(chan struct{})
	results := make([]string, n)
	var wg sync.WaitGroup
	for i, p := range ps {
		wg.Add(1)
		go func(i int, p pair, how string, spin int) {
			defer wg.Done()
			<-start
			for k := 0; k < spin; k++ {
				_ = k
			}
			done := make(chan string, 1)
			go func() {
				done <- hxlib.Guard(func() {
					switch how {
					case "close":
						p.t.Close()
					case "force":
						p.t.ForceClose(errTest)
					case "fin":
						p.peer.CloseWrite()
					case "rst":
						p.peer.SetLinger(0)
						p.peer.Close()
					case "garbage":
						p.peer.Write(bytes.Repeat([]byte{0xFF}, 32))
					}
				})
			}()
			select {
			case pan := <-done:
				if pan != "" {
					results[i] = "panic: " + pan
				}
			case <-time.After(Deadline):
				results[i] = "hang"
			}
		}(i, p, c.How[i], jr.Intn(2000))
	}
	close(start)
	wg.Wait()
	for i, res := range results {
		switch {
		case res == "hang":
			add(&fs, true, "hang:close-does-not-return", "connection %d of %d sharing an error channel (capacity %d, %d free, receiver waiting: %v): %s did not return within %v", i, n, c.ECap, c.EFree, c.EWait, c.How[i], Deadline)
		case res != "":
			add(&fs, false, panicKey(res), "connection %d (%s): %s", i, c.How[i], res)
		}
	}
	// every connection terminates (whoever initiated it)
	end := time.Now().Add(Deadline)
	for i, p := range ps {
		for p.t.IsRunning() && time.Now().Before(end) {
			time.Sleep(100 * time.Microsecond)
		}
		if p.t.IsRunning() {
			add(&fs, true, "running-after-close", "connection %d (%s) is still running %v after every connection was terminated", i, c.How[i], Deadline)
		}
	}
	// graceful closes for whatever is left (idempotent), then the goroutines must be gone
	for _, p := range ps {
		p := p
		done := make(chan struct{})
		go func() { hxlib.Guard(func() { p.t.Close() }); close(done) }()
		select {
		case <-done:
		case <-time.After(Deadline):
			add(&fs, true, "hang:close-does-not-return", "a final Close on a connection sharing the error channel did not return within %v", Deadline)
		}
	}
	close(stop)
	cons.Wait()
	for _, p := range ps {
		p.peer.Close()
		p.local.Close()
	}
	if leak := settle(base, Deadline/2) - base; leak > 0 {
		add(&fs, true, "leak:goroutines", "%d goroutine(s) above the baseline %v after %d connections sharing an error channel (capacity %d, %d free) terminated concurrently: a terminating connection is blocked", leak, Deadline/2, n, c.ECap, c.EFree)
	}
	// the errors
	for more := true; more; {
		select {
		case e := <-errch:
			if e != prefill {
				got++
				kinds = append(kinds, errKind(e))
			}
		default:
			more = false
		}
	}
	switch {
	case got > n:
		add(&fs, false, "errors:more-than-one", "%d terminal errors for %d connections: %v", got, n, kinds)
	case c.EWait && n == 1 && got != 1:
		add(&fs, true, "errors:none", "a receiver was already waiting on the error channel (capacity %d) when the connection terminated (%s), and received %d errors: the terminal error must be offered", c.ECap, c.How[0], got)
	case c.EWait && got == 0:
		add(&fs, true, "errors:none", "a receiver was already waiting on the error channel (capacity %d) when %d connections terminated, and received nothing", c.ECap, n)
	case !c.EWait && got != min(n, c.EFree):
		add(&fs, false, "errors:none", "%d connections terminated with %d free slot(s) in their shared error channel (capacity %d, nobody draining): %d terminal error(s) were delivered, want %d", n, c.EFree, c.ECap, got, min(n, c.EFree))
	}
	if c.IWait {
		for _, b := range inbBad {
			add(&fs, false, "inbound:content", "%s", b)
		}
		for ci, v := range inbGot {
			for k, x := range v {
				if x != k {
					add(&fs, false, "inbound:order", "connection %d: inbound delivery %d is frame %d", ci, k, x)
					break
				}
			}
		}
	}
	return fs, got
}

// GenShared draws a case.
func GenShared(r *hxlib.Rand) SharedCase {
	hows := []string{"close", "force", "fin", "rst", "garbage", "close", "force", "fin"}
	c := SharedCase{Name: "shared", Codec: r.Pick(1, 2), Jitter: r.U64()}
	n := r.Range(2, 4)
	switch r.Intn(4) {
	case 0: // unbuffered error channel, receiver waiting, one connection
		c.Name, c.ECap, c.EFree, c.EWait, n = "unbuffered-waiting", 0, 0, true, 1
	case 1: // one free slot, shared, nobody drains
		c.ECap = r.Pick(1, 2, 4)
		c.EFree = 1
	case 2: // full or unbuffered, nobody drains
		c.ECap = r.Pick(0, 1, 2)
		c.EFree = 0
	default:
		c.ECap = r.Pick(1, 2, 3)
		c.EFree = r.Range(0, c.ECap)
		c.EWait = r.Chance(1, 3)
	}
	for i := 0; i < n; i++ {
		c.How = append(c.How, hows[r.Intn(len(hows))])
	}
	c.ICap = r.Pick(0, 1, 1, 8)
	c.IWait = r.Chance(1, 2)
	c.Frames = r.Pick(0, 0, 1, 2, 3)
	if !c.IWait && c.Frames > 0 {
		// the readers stand blocked on the undrained inbound channel: only the local side can end such a connection
		for i := range c.How {
			c.How[i] = []string{"close", "force"}[r.Intn(2)]
		}
	}
	return c
}

// RunSharedBelievably repeats a run whose only complaints are timing-dependent.
func RunSharedBelievably(c SharedCase) ([]Finding, int) {
	var fs []Finding
	var got int
	for attempt := 1; attempt <= 3; attempt++ {
		fs, got = RunShared(c)
		soft, hard, known := 0, 0, 0
		for _, f := range fs {
			if f.Soft {
				soft++
				if Believed[f.Key] > 0 {
					known++
				}
			} else {
				hard++
			}
		}
		if hard > 0 || soft == 0 || known == soft {
			break
		}
		c.Jitter++
	}
	for _, f := range fs {
		if f.Soft {
			Believed[f.Key]++
		}
	}
	return fs, got
}

func sizesOf(r *hxlib.Rand, n, lo, hi int) []int {
	out := make([]int, n)
	for i := range out {
		out[i] = r.Range(lo, hi)
	}
	return out
}

// GenLatePeer (failing-input search): the reader stands parked on a full, undrained inbound queue of capacity 1..2,
// a backlog of accepted packets sits in the outbound queue, the peer reads slowly or only after Close was called /
// has returned, and the connection is closed gracefully.
func GenLatePeer(r *hxlib.Rand) Scenario {
	icap := r.Pick(1, 1, 2)
	s := Scenario{Name: "late-peer", Codec: r.Pick(1, 2), Cap: r.Pick(16, 64, 1024), ICap: icap, ECap: 2, Inb: "never", Err: "prompt", Jitter: r.U64()}
	s.Peer = Peer{Read: []string{"slow", "cret", "ccall", "slow"}[r.Intn(4)], Frames: sizesOf(r, icap+r.Range(2, 6), 0, 400), WriteWhen: "start"}
	n := r.Range(3, 40)
	if n > s.Cap {
		n = s.Cap
	}
	s.Senders = []Sender{{Sizes: sizesOf(r, n, 0, r.Pick(40, 400, 3000)), When: "start", Retry: 200, Burst: true}}
	// (the close begins when the peer has written all its frames: a frame that arrives after this side has shut down
	// both directions makes the kernel reset the connection — that is GenPeerStillWriting's subject, not this one's)
	s.Closers = []Closer{{Graceful: true, When: "pwrote"}}
	if r.Chance(1, 4) {
		s.Closers = append(s.Closers, Closer{Graceful: true, When: "ccall"})
	}
	return s
}

// GenPeerStillWriting: as GenLatePeer, but the graceful Close begins while the peer is still writing frames.
func GenPeerStillWriting(r *hxlib.Rand) Scenario {
	s := GenLatePeer(r)
	s.Name = "peer-still-writing"
	s.Closers = []Closer{{Graceful: true, When: "rfull"}}
	return s
}

// GenPeerWritesThroughClose: the sharpened form of GenPeerStillWriting. The peer writes a small frame every ~100 µs
// from the start until well after the close and reads nothing until Close has returned; after a pause this side bursts
// 150..300 tiny packets and closes gracefully at once. The last segments of the flushed burst are still in this
// side's send queue when `finally` sends the FIN; a frame of the peer arrives within the next ~100 µs. If the receive
// side was shut down by then (the unrepaired Close did CloseRead first) the Linux kernel resets the connection
// (TcpExt TCPAbortOnData) and destroys the not yet transmitted packets: the peer reads a prefix, then end-of-stream or
// a reset. Nearly deterministic on loopback (≈ 9 runs in 10 on the unrepaired tree).
func GenPeerWritesThroughClose(r *hxlib.Rand) Scenario {
	s := Scenario{Name: "peer-still-writing", Codec: r.Pick(1, 2), Cap: 1024, ICap: 8, ECap: 2, Inb: "prompt", Err: "prompt", Jitter: r.U64()}
	if r.Chance(1, 4) {
		s.Inb, s.ICap = "never", 2 // the reader stands parked on the undrained inbound queue meanwhile
	}
	s.Peer = Peer{Read: "cret", Frames: sizesOf(r, 400, 10, 40), WriteWhen: "start", Pace: r.Range(60, 120)}
	s.Senders = []Sender{{Sizes: sizesOf(r, r.Range(150, 300), 0, 40), When: "start", Retry: 200, Burst: true, Delay: r.Range(1500, 3000)}}
	s.Closers = []Closer{{Graceful: true, When: "senders"}}
	return s
}

// GenStall (failing-input search; the caller sets qnet.TConnReadTimeout to 1 s): the peer stalls in the middle of a
// frame for longer than the read timeout; the rest of the frame is itself a valid encoded message.
func GenStall(r *hxlib.Rand) Scenario {
	s := Scenario{Name: "stall", Codec: r.Pick(1, 2), Cap: 8, ICap: 8, ECap: 2, Inb: "prompt", Err: "prompt", Jitter: r.U64()}
	s.Peer = Peer{Read: "prompt", Frames: sizesOf(r, r.Range(0, 3), 0, 40), Tail: "stall", WriteWhen: "start"}
	return s
}
