package hxconn

// Isolated runs: one scenario per CHILD process (the harness binary re-executed with HX_CONN_CHILD=1, scenario on
// stdin, outcome on stdout). Two reasons: (1) a panic in the reader or writer goroutine of a connection is process
// death — in a child it becomes an observation ("the process died", with the runtime's message) instead of the end
// of the harness; (2) children have goroutine baselines of their own, so scenarios that mostly WAIT (a reader that
// is only woken by the 1 s read timeout, a peer that stalls for 12 s) run several at a time.

import (
	"bytes"
	"encoding/json"
	"fmt"
	"io"
	"log"
	"os"
	"os/exec"
	"strings"
	"sync"
	"time"
)

type isoIn struct {
	Scenario   Scenario `json:"scenario"`
	DeadlineMs int      `json:"deadline_ms"`
}

type isoOut struct {
	Outcome   *Outcome `json:"outcome"`
	Trace     []string `json:"trace"`
	PeerGotAt []int    `json:"peer_got_at"`
	PeerEOFAt int      `json:"peer_eof_at"`
	PeerSizes []int    `json:"peer_sizes"`
}

// IsChild reports whether this process is such a child; the harness mains call ChildMain first thing.
func IsChild() bool { return os.Getenv("HX_CONN_CHILD") != "" }

func ChildMain() {
	log.SetOutput(io.Discard)
	var in isoIn
	if err := json.NewDecoder(os.Stdin).Decode(&in); err != nil {
		fmt.Fprintln(os.Stderr, "child: bad input:", err)
		os.Exit(3)
	}
	Deadline = time.Duration(in.DeadlineMs) * time.Millisecond
	o := Run(in.Scenario)
	out := isoOut{Outcome: o, Trace: o.Trace, PeerGotAt: o.PeerGotAt, PeerEOFAt: o.PeerEOFAt, PeerSizes: o.PeerSizes}
	b, _ := json.Marshal(out)
	os.Stdout.Write(b)
}

// RunIsolated runs the scenario in a child process. crash != "": the child died (o is then an empty outcome).
func RunIsolated(sc Scenario) (o *Outcome, crash string) {
	self, err := os.Executable()
	if err != nil {
		return Run(sc), ""
	}
	in, _ := json.Marshal(isoIn{Scenario: sc, DeadlineMs: int(Deadline / time.Millisecond)})
	cmd := exec.Command(self)
	cmd.Env = append(os.Environ(), "HX_CONN_CHILD=1")
	cmd.Stdin = bytes.NewReader(in)
	var stdout, stderr bytes.Buffer
	cmd.Stdout, cmd.Stderr = &stdout, &stderr
	limit := 8*Deadline + 8*time.Duration(sc.Peer.Hold)*time.Millisecond + 20*time.Second
	done := make(chan error, 1)
	if err := cmd.Start(); err != nil {
		return Run(sc), ""
	}
	go func() { done <- cmd.Wait() }()
	select {
	case err = <-done:
	case <-time.After(limit):
		cmd.Process.Kill()
		<-done
		return &Outcome{PeerEOFAt: -1, Hangs: []string{fmt.Sprintf("the child process running the scenario did not finish within %v", limit)}}, ""
	}
	var out isoOut
	if err == nil {
		if jerr := json.Unmarshal(stdout.Bytes(), &out); jerr == nil && out.Outcome != nil {
			o = out.Outcome
			o.Trace, o.PeerGotAt, o.PeerEOFAt, o.PeerSizes = out.Trace, out.PeerGotAt, out.PeerEOFAt, out.PeerSizes
			return o, ""
		}
	}
	// the child died: keep the runtime's first lines (panic message and the goroutine it happened in)
	msg := stderr.String()
	if i := strings.Index(msg, "panic:"); i >= 0 {
		msg = msg[i:]
	} else if i := strings.Index(msg, "fatal error:"); i >= 0 {
		msg = msg[i:]
	}
	lines := strings.Split(msg, "\n")
	keep := []string{}
	for _, l := range lines {
		l = strings.TrimSpace(l)
		if l == "" || strings.HasPrefix(l, "/") || strings.HasPrefix(l, "[signal") {
			continue
		}
		keep = append(keep, l)
		if len(keep) >= 6 {
			break
		}
	}
	crash = strings.Join(keep, " | ")
	if crash == "" {
		crash = fmt.Sprintf("child exited with %v and no message", err)
	}
	return &Outcome{PeerEOFAt: -1}, crash
}

// IsoResult is the judged result of one isolated scenario.
type IsoResult struct {
	Scenario Scenario
	Outcome  *Outcome
	Findings []Finding
	Attempts int
	Wall     time.Duration
}

// RunIsolatedBelievably: like RunBelievably, in child processes. A dead child is a (hard) finding of its own:
// key "panic:process-death".
func RunIsolatedBelievably(sc Scenario, check func(Scenario, *Outcome) []Finding) (res IsoResult) {
	t0 := time.Now()
	defer func() {
		res.Wall = time.Since(t0)
		if os.Getenv("HX_DEBUG") != "" && res.Wall > 1500*time.Millisecond {
			fmt.Fprintf(os.Stderr, "slow child %.1fs attempts=%d %s\n", res.Wall.Seconds(), res.Attempts, sc.Describe())
		}
	}()
	var o *Outcome
	var fs []Finding
	for attempt := 1; attempt <= 3; attempt++ {
		var crash string
		o, crash = RunIsolated(sc)
		if crash != "" {
			key := "panic:process-death"
			if k := panicKey(crash); k != "panic:other" {
				key = k + ":process-death"
			}
			return IsoResult{Scenario: sc, Outcome: o, Findings: []Finding{{Key: key, What: "the process running the connection died: " + crash}}, Attempts: attempt}
		}
		fs = check(sc, o)
		soft, hard := 0, 0
		for _, f := range fs {
			if f.Soft {
				soft++
			} else {
				hard++
			}
		}
		if hard > 0 || soft == 0 {
			return IsoResult{Scenario: sc, Outcome: o, Findings: fs, Attempts: attempt}
		}
		if os.Getenv("HX_DEBUG") != "" {
			fmt.Fprintf(os.Stderr, "soft findings on attempt %d: %+v | closes=%+v errs=%v peerErr=%q eof=%v leak=%d\n", attempt, fs, o.Closes, o.Errs, o.PeerErr, o.PeerEOF, o.Leak)
		}
		sc.Jitter++
	}
	return IsoResult{Scenario: sc, Outcome: o, Findings: fs, Attempts: 3}
}

// RunIsolatedBatch runs the scenarios in child processes, `par` at a time, and returns the results in input order.
func RunIsolatedBatch(scs []Scenario, par int, check func(Scenario, *Outcome) []Finding) []IsoResult {
	out := make([]IsoResult, len(scs))
	sem := make(chan struct{}, par)
	var wg sync.WaitGroup
	for i := range scs {
		wg.Add(1)
		sem <- struct{}{}
		go func(i int) {
			defer wg.Done()
			defer func() { <-sem }()
			out[i] = RunIsolatedBelievably(scs[i], check)
		}(i)
	}
	wg.Wait()
	return out
}
