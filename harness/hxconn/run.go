package hxconn

import (
	"bufio"
	"bytes"
	"errors"
	"fmt"
	"io"
	"net"
	"runtime"
	"strings"
	"sync"
	"time"

	fatchoy "qchen.fun/fatchoy"
	"qchen.fun/fatchoy/codec"
	"qchen.fun/fatchoy/packet"
	"qchen.fun/fatchoy/qnet"
	"qchen.fun/fatchoy/x/cipher"
	"qchen.fun/fatchoy/x/stats"

	"verifharness/hxlib"
)

// Deadline bounds every wait of a run. It is generous on purpose: exceeding it is a *suspected* hang
// which the callers re-run before believing it (timing is never an oracle).
var Deadline = 10 * time.Second

// Grace is how long a forced schedule waits for a closer that may legitimately be blocked by the
// parked sender (fixed tree: the closer waits for the sender's read lock). Steering only.
var Grace = 120 * time.Millisecond

const peerIDBase = 1000000

var errTest = errors.New("harness forced close")

// StallFor is how long a peer with Tail "stall" keeps still in the middle of a frame.
var StallFor = 1400 * time.Millisecond

type tracer struct {
	mu sync.Mutex
	ev []string
}

// log appends an event and returns its position.
func (t *tracer) log(format string, a ...interface{}) int {
	s := fmt.Sprintf(format, a...)
	t.mu.Lock()
	n := len(t.ev)
	t.ev = append(t.ev, s)
	t.mu.Unlock()
	return n
}

type phases struct {
	mu sync.Mutex
	ch map[string]chan struct{}
	on map[string]bool
}

func newPhases() *phases { return &phases{ch: map[string]chan struct{}{}, on: map[string]bool{}} }
func (p *phases) get(n string) chan struct{} {
	p.mu.Lock()
	defer p.mu.Unlock()
	c, ok := p.ch[n]
	if !ok {
		c = make(chan struct{})
		p.ch[n] = c
	}
	return c
}
func (p *phases) fire(n string) {
	c := p.get(n)
	p.mu.Lock()
	if !p.on[n] {
		p.on[n] = true
		close(c)
	}
	p.mu.Unlock()
}
func (p *phases) wait(n string, abort <-chan struct{}) bool {
	if n == "" || n == "start" {
		return true
	}
	select {
	case <-p.get(n):
		return true
	case <-abort:
		return false
	}
}

// ---- H2 schedule points ------------------------------------------------------------------------

type parkPoint struct {
	label   string
	arrived chan struct{}
	release chan struct{}
}

type ctrl struct {
	tr    *tracer
	mu    sync.Mutex
	armed map[string]*parkPoint
}

var (
	hookOnce sync.Once
	ctrls    sync.Map // *qnet.TcpConn -> *ctrl
)

func installHook() {
	hookOnce.Do(func() {
		qnet.VerifSetSchedHook(func(point string, c *qnet.TcpConn) {
			if v, ok := ctrls.Load(c); ok {
				v.(*ctrl).at(point)
			}
		})
	})
}

func (c *ctrl) arm(point, label string) *parkPoint {
	pp := &parkPoint{label: label, arrived: make(chan struct{}), release: make(chan struct{})}
	c.mu.Lock()
	c.armed[point] = pp
	c.mu.Unlock()
	return pp
}

func (c *ctrl) at(point string) {
	c.mu.Lock()
	pp := c.armed[point]
	delete(c.armed, point) // one shot
	c.mu.Unlock()
	if pp == nil {
		return
	}
	c.tr.log("%s", pp.label) // logged by the parked goroutine itself: it is exactly at this pc
	close(pp.arrived)
	<-pp.release
}

// ---- packets -----------------------------------------------------------------------------------

// Body is the deterministic body of packet id with the given size (size < 0: |size| incompressible bytes).
func Body(id, size int) []byte {
	if size >= 0 {
		b := make([]byte, size)
		for j := range b {
			b[j] = byte(id*31 + j*7 + (j >> 8))
		}
		return b
	}
	r := hxlib.NewRand(uint64(id)*2654435761 + 17)
	return r.Bytes(-size)
}

func mkPacket(id, size int) *packet.Packet {
	return packet.New(int32(id), uint16(id), 0, Body(id, size))
}

// mkPacketRefs: the packet with the given body object and n node references (0x30000+k).
func mkPacketRefs(id int, body []byte, n int) *packet.Packet {
	p := packet.New(int32(id), uint16(id), 0, body)
	if n > 0 {
		refs := make([]fatchoy.NodeID, n)
		for k := range refs {
			refs[k] = fatchoy.NodeID(0x30000 + k)
		}
		p.SetRefers(refs)
	}
	return p
}

func newCodec(v int) codec.Encoder {
	if v == 2 {
		return codec.NewV2Encoder(0)
	}
	return codec.NewV1Encoder(0)
}

var aesKey = []byte("0123456789abcdef")
var aesIV = []byte("fedcba9876543210")

func newCrypt(on bool) cipher.BlockCryptor {
	if !on {
		return nil
	}
	return cipher.NewAESCFB(aesKey, aesIV)
}

// newCryptor: the cipher of the scenario (a fresh object per call: one per direction and side, as an application has).
func newCryptor(sc Scenario) cipher.BlockCryptor {
	if !sc.Cipher {
		return nil
	}
	key32 := append(append([]byte{}, aesKey...), aesIV...)
	switch sc.Cryptor {
	case "salsa20":
		return cipher.NewCrypt("salsa20", key32, aesIV[:8])
	case "twofish":
		return cipher.NewCrypt("twofish", key32, aesIV)
	case "new":
		return &customCrypt{}
	case "pad":
		return &customCrypt{pad: true}
	}
	return cipher.NewAESCFB(aesKey, aesIV)
}

// customCrypt is a BlockCryptor of the application's own: it never writes into its argument and returns a slice of its
// own (pad: three marker bytes longer than the input). Stateless, so that both directions and the peer agree.
type customCrypt struct{ pad bool }

func (c *customCrypt) Key() []byte { return aesKey }
func (c *customCrypt) IV() []byte  { return aesIV }
func (c *customCrypt) Encrypt(src []byte) []byte {
	out := make([]byte, 0, len(src)+3)
	if c.pad {
		out = append(out, 0xA5, 0x5A, byte(len(src)))
	}
	for i, b := range src {
		out = append(out, b^aesKey[i%16]^byte(i>>4))
	}
	return out
}
func (c *customCrypt) Decrypt(src []byte) []byte {
	if c.pad {
		if len(src) < 3 {
			return nil
		}
		src = src[3:]
	}
	out := make([]byte, len(src))
	for i, b := range src {
		out[i] = b ^ aesKey[i%16] ^ byte(i>>4)
	}
	return out
}

// wireSize encodes a copy of the packet the way the connection will: 0 means "cannot be encoded".
func wireSize(enc codec.Encoder, crypt cipher.BlockCryptor, id, size int) (int, []byte) {
	var buf bytes.Buffer
	n, err := enc.WritePacket(&buf, crypt, mkPacket(id, size))
	if err != nil {
		return 0, nil
	}
	return n, buf.Bytes()
}

func bodyOf(p fatchoy.IPacket) []byte {
	if pp, ok := p.(*packet.Packet); ok {
		switch v := pp.Body_.(type) {
		case nil:
			return nil
		case []byte:
			return v
		case string:
			return []byte(v)
		}
	}
	return []byte("?unexpected body type")
}

func sendRes(err error, pan string) string {
	switch {
	case pan != "":
		return "panic"
	case err == nil:
		return "ok"
	case err == qnet.ErrConnIsClosing:
		return "closing"
	case err == qnet.ErrConnOutboundOverflow:
		return "overflow"
	}
	return "other"
}

func errKind(e error) string {
	ne, ok := e.(*qnet.Error)
	if !ok {
		return "foreign"
	}
	switch {
	case ne.Err == qnet.ErrConnForceClose:
		return "closed"
	case ne.Err == errTest:
		return "forced"
	case ne.Err == io.EOF:
		return "eof"
	}
	return "read"
}

func yield(r *hxlib.Rand) {
	switch r.Intn(8) {
	case 0, 1, 2:
	case 3, 4:
		runtime.Gosched()
	case 5:
		for k := r.Intn(4); k >= 0; k-- {
			runtime.Gosched()
		}
	case 6:
		time.Sleep(time.Duration(r.Intn(50)) * time.Microsecond)
	case 7:
		time.Sleep(time.Duration(r.Intn(400)) * time.Microsecond)
	}
}

func settle(target int, d time.Duration) int {
	end := time.Now().Add(d)
	sleep := 20 * time.Microsecond
	for {
		n := runtime.NumGoroutine()
		if n <= target || time.Now().After(end) {
			return n
		}
		time.Sleep(sleep)
		if sleep < 2*time.Millisecond {
			sleep *= 2
		}
	}
}

// Run executes one scenario against the real code.
func Run(sc Scenario) *Outcome {
	installHook()
	t0 := time.Now()
	Deadline := Deadline + time.Duration(sc.Peer.Hold)*time.Millisecond // (shadows the package variable in every closure below)
	o := &Outcome{PeerEOFAt: -1, StatsN: qnet.NumStat, EndLagMs: -1}
	var firstCloseRet, peerEndAt time.Time // (under omu)
	tr := &tracer{}
	var omu sync.Mutex // guards o's slices
	abort := make(chan struct{})
	ph := newPhases()
	jr := hxlib.NewRand(sc.Jitter ^ 0x5DEECE66D)

	base := settle(0, 0)
	en, err := connect(sc)
	if err != nil {
		o.Hangs = append(o.Hangs, "connect: "+err.Error())
		return o
	}
	local, peer := en.local, en.peer
	defer func() { // the library only half-closes a TCP socket; the harness owns the descriptors
		for _, c := range en.raws {
			c.Close()
		}
	}()
	if sc.ReadTimeout > 0 {
		old := qnet.TConnReadTimeout
		qnet.TConnReadTimeout = sc.ReadTimeout
		defer func() { qnet.TConnReadTimeout = old }()
	}

	enc := newCodec(sc.Codec)
	inbound := make(chan fatchoy.IPacket, sc.ICap)
	errch := make(chan error, sc.ECap)
	prefill := errors.New("prefill")
	for k := 0; k < sc.EPrefill && k < sc.ECap; k++ {
		errch <- prefill
	}
	var statsArg *stats.Stats
	if sc.Stats != nil {
		statsArg = stats.New(*sc.Stats)
		o.StatsN = *sc.Stats
	}
	tconn := qnet.NewTcpConn(fatchoy.NodeID(0x10001), local, enc, errch, inbound, sc.Cap, statsArg)
	if sc.Cipher {
		tconn.SetEncryptPair(newCryptor(sc), newCryptor(sc))
	}
	ct := &ctrl{tr: tr, armed: map[string]*parkPoint{}}
	ctrls.Store(tconn, ct)
	defer ctrls.Delete(tconn)
	stats := tconn.Stats()
	outq := tconn.OutboundQueue()

	tr.log("cfg cap=%d icap=%d ecap=%d pre=%d", sc.Cap, sc.ICap, sc.ECap, min(sc.EPrefill, sc.ECap))
	tr.log("go")
	goFlag := fatchoy.EndpointReadWriter
	if sc.Flag == "w" {
		goFlag = fatchoy.EndpointWriter
	}
	if p := hxlib.Guard(func() { tconn.Go(goFlag) }); p != "" {
		o.Panics = append(o.Panics, "Go: "+p)
		return o
	}

	nextID := func(i, k int) int { return (i+1)*10000 + k }
	sizeOf := map[int]int{} // packet id -> body size, fixed before anything runs
	refsOf := map[int]int{} // packet id -> number of node references
	bodyID := map[int]int{} // packet id -> the id its body is derived from (differs for senders that share one body object)
	for i, s := range sc.Senders {
		for k, z := range s.Sizes {
			id := nextID(i, k)
			sizeOf[id], bodyID[id] = z, id
			if k < len(s.Refs) {
				refsOf[id] = s.Refs[k]
			}
			if s.Share {
				sizeOf[id], bodyID[id] = s.Sizes[0], nextID(i, 0)
			}
		}
	}
	for k := 0; k < sc.Late; k++ {
		id := nextID(len(sc.Senders), k)
		sizeOf[id], bodyID[id] = 8, id
	}
	// the body objects handed to SendPacket (one per packet; one per SENDER when it shares) and, separately, what
	// the peer must read (never handed to the library)
	sendBody := map[int][]byte{}
	expBody := func(id int) []byte { return Body(bodyID[id], sizeOf[id]) }
	for id := range sizeOf {
		if b, ok := sendBody[bodyID[id]]; ok && bodyID[id] != id {
			sendBody[id] = b
			continue
		}
		b := Body(bodyID[id], sizeOf[id])
		sendBody[id] = b
		sendBody[bodyID[id]] = b
	}
	if sc.Forced != "" && len(sc.Closers) == 0 {
		sc.Closers = []Closer{{Graceful: true}}
	}

	var actors sync.WaitGroup
	hang := func(what string) {
		omu.Lock()
		o.Hangs = append(o.Hangs, what)
		omu.Unlock()
	}
	// waitDone waits for a channel with the deadline.
	waitDone := func(c <-chan struct{}, what string) bool {
		select {
		case <-c:
			return true
		case <-time.After(2*Deadline + time.Second): // the calls inside have their own (shorter) deadline
			hang(what)
			return false
		}
	}

	// ---- one SendPacket call ---------------------------------------------------------------------
	wireOf := map[int]int{}
	for id := range sizeOf {
		var buf countingWriter
		if n, err := enc.WritePacket(&buf, newCryptor(sc), mkPacketRefs(id, expBody(id), refsOf[id])); err == nil {
			wireOf[id] = n
		}
	}
	doSend := func(i, id, size int) string {
		w := wireOf[id]
		e := 1
		if w == 0 {
			e = 0
		}
		pkt := mkPacketRefs(id, sendBody[id], refsOf[id])
		callAt := tr.log("scall i=%d p=%d z=%d e=%d", i, id, w, e)
		var serr error
		pan := hxlib.Guard(func() { serr = tconn.SendPacket(pkt) })
		res := sendRes(serr, pan)
		retAt := tr.log("sret i=%d r=%s", i, res)
		omu.Lock()
		o.Sends = append(o.Sends, SendRec{i, id, size, w, res, callAt, retAt})
		if pan != "" {
			o.Panics = append(o.Panics, fmt.Sprintf("SendPacket(sender %d, packet %d): %s", i, id, pan))
		}
		omu.Unlock()
		return res
	}
	// ---- one Close / ForceClose call -------------------------------------------------------------
	var firstCret sync.Once
	closersLeft := len(sc.Closers)
	var clmu sync.Mutex
	doClose := func(j int, graceful bool) {
		g := 0
		if graceful {
			g = 1
		}
		backlog := len(outq)
		callAt := tr.log("ccall j=%d g=%d", j, g)
		began := time.Now()
		ph.fire("ccall")
		done := make(chan string, 1)
		go func() {
			done <- hxlib.Guard(func() {
				if graceful {
					tconn.Close()
				} else {
					tconn.ForceClose(errTest)
				}
			})
		}()
		rec := CloseRec{Closer: j, Graceful: graceful, CallAt: callAt, RetAt: -1, Backlog: backlog}
		select {
		case pan := <-done:
			rec.Res = "ok"
			rec.DurMs = int(time.Since(began) / time.Millisecond)
			if pan != "" {
				rec.Res = "panic"
			}
			rec.SentPkts = stats.Get(qnet.StatPacketsSent)
			rec.SentBytes = stats.Get(qnet.StatBytesSent)
			rec.Running = tconn.IsRunning()
			rec.RetAt = tr.log("cret j=%d r=%s", j, rec.Res)
			omu.Lock()
			if firstCloseRet.IsZero() {
				firstCloseRet = time.Now()
			}
			if pan != "" {
				o.Panics = append(o.Panics, fmt.Sprintf("closer %d (graceful=%v): %s", j, graceful, pan))
			}
			omu.Unlock()
		case <-time.After(Deadline):
			rec.Res = "hang"
			hang(fmt.Sprintf("closer %d (graceful=%v) did not return", j, graceful))
		}
		omu.Lock()
		o.Closes = append(o.Closes, rec)
		omu.Unlock()
		firstCret.Do(func() { ph.fire("cret") })
		if j < len(sc.Closers) {
			clmu.Lock()
			closersLeft--
			if closersLeft == 0 {
				ph.fire("allcret")
			}
			clmu.Unlock()
		}
	}

	// ---- peer reader -----------------------------------------------------------------------------
	peerDone := make(chan struct{})
	peerReads := sc.Peer.Read != "never"
	go func() {
		defer close(peerDone)
		defer func() {
			omu.Lock()
			if o.PeerEOF || o.PeerReset {
				peerEndAt = time.Now()
			}
			omu.Unlock()
		}()
		if !peerReads {
			return
		}
		switch sc.Peer.Read {
		case "ccall", "cret":
			if !ph.wait(sc.Peer.Read, abort) {
				return
			}
		}
		if sc.Peer.Hold > 0 {
			select {
			case <-time.After(time.Duration(sc.Peer.Hold) * time.Millisecond):
			case <-abort:
				return
			}
		}
		if en.silent {
			// the TLS peer that never speaks: it only watches its raw socket for the stream end. Whatever bytes arrive
			// (a ClientHello, an alert) are not frames. It gives up 2 s after every scripted closer has returned.
			var buf [512]byte
			var closedAt time.Time
			for {
				peer.SetReadDeadline(time.Now().Add(50 * time.Millisecond))
				n, err := peer.Read(buf[:])
				o.PeerBytes += int64(n)
				if err == nil {
					continue
				}
				if ne, ok := err.(net.Error); ok && ne.Timeout() {
					select {
					case <-ph.get("allcret"):
						if closedAt.IsZero() {
							closedAt = time.Now()
						}
					default:
					}
					if (!closedAt.IsZero() && time.Since(closedAt) > 2*time.Second) || time.Since(t0) > 2*Deadline+2*time.Second {
						omu.Lock()
						o.PeerErr = err.Error()
						omu.Unlock()
						hang("peer saw neither a frame nor end-of-stream (it waited 2 s beyond the return of the last Close/ForceClose call)")
						return
					}
					continue
				}
				omu.Lock()
				if err == io.EOF {
					o.PeerEOF = true
					o.PeerEOFAt = tr.log("weof k=0")
				} else {
					o.PeerErr = err.Error()
					o.PeerReset = resetClass(err)
				}
				omu.Unlock()
				return
			}
		}
		omuSizes := func(id int) (int, bool) {
			z, ok := sizeOf[id]
			return z, ok
		}
		rd := bufio.NewReaderSize(countingReader{peer, &o.PeerBytes}, 64*1024)
		dec := newCryptor(sc)
		k := 0
		for {
			peer.SetReadDeadline(time.Now().Add(2*Deadline + 2*time.Second))
			pkt := packet.Make()
			err := enc.ReadPacket(rd, dec, pkt)
			if err == io.EOF {
				omu.Lock()
				o.PeerEOF = true
				o.PeerEOFAt = tr.log("weof k=%d", k)
				omu.Unlock()
				return
			}
			if err != nil {
				omu.Lock()
				o.PeerErr = err.Error()
				o.PeerReset = resetClass(err)
				omu.Unlock()
				if ne, ok := err.(net.Error); ok && ne.Timeout() {
					hang("peer saw neither a frame nor end-of-stream")
				}
				tr.log("werr k=%d", k)
				return
			}
			id := int(pkt.Command())
			at := tr.log("wgot k=%d p=%d", k, id)
			omu.Lock()
			o.PeerGot = append(o.PeerGot, id)
			o.PeerGotAt = append(o.PeerGotAt, at)
			omu.Unlock()
			if size, ok := omuSizes(id); !ok {
				omu.Lock()
				o.PeerBad = append(o.PeerBad, fmt.Sprintf("frame %d carries unknown packet id %d", k, id))
				omu.Unlock()
			} else if !bytes.Equal(bodyOf(pkt), expBody(id)) && !(len(bodyOf(pkt)) == 0 && size == 0) {
				omu.Lock()
				o.PeerBad = append(o.PeerBad, fmt.Sprintf("frame %d (packet %d): body differs from what was sent", k, id))
				omu.Unlock()
			} else if pkt.Seq() != uint16(id) {
				omu.Lock()
				o.PeerBad = append(o.PeerBad, fmt.Sprintf("frame %d (packet %d): seq %d", k, id, pkt.Seq()))
				omu.Unlock()
			} else if sc.Codec == 2 && len(pkt.Refers()) != refsOf[id] {
				omu.Lock()
				o.PeerBad = append(o.PeerBad, fmt.Sprintf("frame %d (packet %d): %d node references, sent with %d", k, id, len(pkt.Refers()), refsOf[id]))
				omu.Unlock()
			}
			k++
			if sc.Peer.Read == "slow" {
				time.Sleep(time.Duration(200+jr.Intn(800)) * time.Microsecond)
			}
		}
	}()

	// ---- peer writer -----------------------------------------------------------------------------
	peerClosed := false
	actors.Add(1)
	go func() {
		defer actors.Done()
		defer ph.fire("pwrote")
		if len(sc.Peer.Frames) == 0 && sc.Peer.Tail == "" {
			return
		}
		if !ph.wait(sc.Peer.WriteWhen, abort) {
			return
		}
		pr := hxlib.NewRand(sc.Jitter + 77)
		for k, size := range sc.Peer.Frames {
			id := peerIDBase + k
			n, raw := wireSize(enc, newCryptor(sc), id, size)
			if n == 0 {
				continue
			}
			yield(pr)
			if sc.Peer.Pace > 0 {
				time.Sleep(time.Duration(sc.Peer.Pace) * time.Microsecond)
			}
			tr.log("pframe p=%d z=%d", id, n)
			peer.SetWriteDeadline(time.Now().Add(Deadline))
			if sc.Peer.Chunk > 0 {
				failed := false
				for off := 0; off < len(raw) && !failed; off += sc.Peer.Chunk {
					end := off + sc.Peer.Chunk
					if end > len(raw) {
						end = len(raw)
					}
					if _, err := peer.Write(raw[off:end]); err != nil {
						failed = true
					}
					if pr.Intn(4) == 0 {
						time.Sleep(time.Duration(pr.Intn(60)) * time.Microsecond)
					} else {
						runtime.Gosched()
					}
				}
				if failed {
					return
				}
			} else if _, err := peer.Write(raw); err != nil {
				return
			}
			omu.Lock()
			o.PeerSent = append(o.PeerSent, id)
			o.PeerSizes = append(o.PeerSizes, n)
			omu.Unlock()
		}
		yield(pr)
		switch sc.Peer.Tail {
		case "fin":
			tr.log("pfin")
			if en.halfFin != nil {
				en.halfFin()
			}
		case "rst":
			tr.log("prst")
			peerClosed = true
			if en.reset != nil {
				en.reset()
			} else {
				peer.Close()
			}
		case "garbage":
			tr.log("pgarbage")
			peer.Write(bytes.Repeat([]byte{0xFF}, 32))
		case "stall":
			// failing-input search: the peer stalls in the MIDDLE of a frame for longer than the read timeout (the
			// caller has set qnet.TConnReadTimeout to 1 s). The rest of that frame, when it comes, is itself a
			// complete, valid encoded frame (a nested message) followed by padding; then one more ordinary frame.
			// None of this may ever reach the inbound channel: the frame was not received as a whole.
			inner := peerIDBase + 500
			_, innerRaw := wireSize(enc, nil, inner, 9)
			body := append(append(bytes.Repeat([]byte{0x55}, 7), innerRaw...), bytes.Repeat([]byte{0x66}, 5)...)
			var buf bytes.Buffer
			outer := peerIDBase + len(sc.Peer.Frames)
			if _, err := enc.WritePacket(&buf, nil, packet.New(int32(outer), uint16(outer), 0, body)); err != nil {
				return
			}
			raw := buf.Bytes()
			cut := len(raw) - len(body) + 7
			peer.SetWriteDeadline(time.Now().Add(Deadline))
			if _, err := peer.Write(raw[:cut]); err != nil {
				return
			}
			time.Sleep(StallFor)
			peer.SetWriteDeadline(time.Now().Add(Deadline))
			peer.Write(raw[cut:])
			_, more := wireSize(enc, nil, outer+1, 5)
			peer.Write(more)
		case "badcrc":
			_, raw := wireSize(enc, newCryptor(sc), peerIDBase+len(sc.Peer.Frames), 9)
			raw[len(raw)-1] ^= 0x40
			tr.log("pgarbage")
			peer.Write(raw)
		}
	}()

	// ---- "the reader is stuck on a full inbound queue" (steering only: polls the receive counter) ---
	needRfull := false
	for _, c := range sc.Closers {
		if c.When == "rfull" {
			needRfull = true
		}
	}
	if needRfull {
		target := int64(min(len(sc.Peer.Frames), sc.ICap+1))
		go func() {
			end := time.Now().Add(Deadline / 2)
			for stats.Get(qnet.StatPacketsRecv) < target && time.Now().Before(end) {
				time.Sleep(50 * time.Microsecond)
			}
			time.Sleep(300 * time.Microsecond)
			ph.fire("rfull")
		}()
	}

	// ---- consumers -------------------------------------------------------------------------------
	stopCons := make(chan struct{})
	var cons sync.WaitGroup
	var held []fatchoy.IPacket // every packet the inbound consumer received, kept (K8: compared AGAIN at the end of the run)
	if sc.Inb != "never" && sc.Inb != "" {
		cons.Add(1)
		go func() {
			defer cons.Done()
			if sc.Inb == "ccall" || sc.Inb == "cret" {
				select {
				case <-ph.get(sc.Inb):
				case <-stopCons:
					return
				}
			}
			k := 0
			for {
				tr.log("icall")
				select {
				case p := <-inbound:
					id := int(p.Command())
					tr.log("iret p=%d", id)
					omu.Lock()
					held = append(held, p)
					o.InbGot = append(o.InbGot, id)
					if ep, ok := p.(*packet.Packet); !ok || ep.Endpoint() != fatchoy.MessageEndpoint(tconn) {
						o.InbBad = append(o.InbBad, fmt.Sprintf("inbound packet %d is not bound to the connection it arrived on", id))
					}
					if id >= peerIDBase && id-peerIDBase < len(sc.Peer.Frames) {
						size := sc.Peer.Frames[id-peerIDBase]
						if !bytes.Equal(bodyOf(p), Body(id, size)) && !(len(bodyOf(p)) == 0 && size == 0) {
							o.InbBad = append(o.InbBad, fmt.Sprintf("inbound packet %d: body differs from what the peer sent", id))
						}
					}
					k++
					if k == len(sc.Peer.Frames) {
						ph.fire("inball")
					}
					omu.Unlock()
				case <-stopCons:
					return
				}
			}
		}()
	}
	if len(sc.Peer.Frames) == 0 {
		ph.fire("inball")
	}
	if sc.Err == "prompt" {
		cons.Add(1)
		go func() {
			defer cons.Done()
			for {
				tr.log("ecall")
				select {
				case e := <-errch:
					if e == prefill {
						tr.log("eret e=pre")
						continue
					}
					kind := errKind(e)
					tr.log("eret e=%s", kind)
					ph.fire("errgot")
					omu.Lock()
					o.Errs = append(o.Errs, kind)
					if ne, ok := e.(*qnet.Error); !ok || ne.Endpoint != fatchoy.Endpoint(tconn) {
						o.ErrBad = append(o.ErrBad, "error does not name the connection")
					}
					omu.Unlock()
				case <-stopCons:
					return
				}
			}
		}()
	}

	// ---- senders and closers ---------------------------------------------------------------------
	startSenders := 0
	for _, s := range sc.Senders {
		if s.When == "" || s.When == "start" {
			startSenders++
		}
	}
	var ssmu sync.Mutex
	if startSenders == 0 {
		ph.fire("senders")
	}
	runSender := func(i int, s Sender, sizes []int, k0 int) {
		sr := hxlib.NewRand(sc.Jitter*31 + uint64(i) + 1)
		for k, size := range sizes {
			id := nextID(i, k0+k)
			tries := 0
			for {
				if !s.Burst {
					yield(sr)
				}
				res := doSend(i, id, size)
				if res == "overflow" && tries < s.Retry {
					tries++
					time.Sleep(time.Duration(20+sr.Intn(200)) * time.Microsecond)
					continue
				}
				break
			}
			if s.Pace > 0 {
				time.Sleep(time.Duration(s.Pace) * time.Microsecond)
			}
		}
	}

	switch sc.Forced {
	case "park-send", "park-send-race":
		// sender 0 sends all but its last packet, then parks between the running check and the queue send;
		// the closers run while it is parked; then it is released.
		if len(sc.Senders) > 0 && len(sc.Senders[0].Sizes) > 0 {
			s := sc.Senders[0]
			n := len(s.Sizes)
			runSender(0, s, s.Sizes[:n-1], 0)
			pp := ct.arm("send.checked", "spark i=0")
			fin := ct.arm("finally.closed", "fpark")
			sdone := make(chan struct{})
			go func() { defer close(sdone); runSender(0, Sender{}, s.Sizes[n-1:], n-1) }()
			if waitDone(pp.arrived, "sender did not reach the schedule point send.checked") {
				o.Parked = append(o.Parked, "send.checked")
				cdone := make(chan struct{})
				go func() {
					defer close(cdone)
					var w sync.WaitGroup
					for j, c := range sc.Closers {
						w.Add(1)
						go func(j int, c Closer) { defer w.Done(); doClose(j, c.Graceful) }(j, c)
					}
					w.Wait()
				}()
				select {
				case <-fin.arrived:
					// unfixed tree: the queue was closed under the parked sender; keep the closer right
					// there (before it forgets the queue) until the sender has made its move
					o.Parked = append(o.Parked, "finally.closed")
					close(pp.release)
					waitDone(sdone, "parked sender did not return after release")
					close(fin.release)
				case <-raceRelease(sc.Forced, cdone):
					// racy variant: the sender moves while the detached teardown of ForceClose is under way
					close(fin.release)
					close(pp.release)
				case <-time.After(Grace):
					// fixed tree: the closer waits for the sender's read lock
					close(fin.release)
					close(pp.release)
				}
				waitDone(sdone, "parked sender did not return after release")
				waitDone(cdone, "closers did not return")
			} else {
				close(pp.release)
				close(fin.release)
			}
			ph.fire("senders")
		}
	case "park-finally":
		// the (graceful) closer 0 parks right after close(outbound); meanwhile sends and further closes run.
		for i, s := range sc.Senders {
			if s.When == "" || s.When == "start" {
				runSender(i, s, s.Sizes, 0)
			}
		}
		ph.fire("senders")
		pp := ct.arm("finally.closed", "fpark")
		cdone := make(chan struct{})
		go func() { defer close(cdone); doClose(0, sc.Closers[0].Graceful) }()
		if waitDone(pp.arrived, "closer did not reach the schedule point finally.closed") {
			o.Parked = append(o.Parked, "finally.closed")
			for i, s := range sc.Senders {
				if s.When == "ccall" || s.When == "cret" {
					runSender(i, s, s.Sizes, 0)
				}
			}
			var w sync.WaitGroup
			for j := 1; j < len(sc.Closers); j++ {
				w.Add(1)
				go func(j int, c Closer) { defer w.Done(); doClose(j, c.Graceful) }(j, sc.Closers[j])
			}
			wd := make(chan struct{})
			go func() { w.Wait(); close(wd) }()
			waitDone(wd, "concurrent closers did not return while the first closer is parked in finally")
			close(pp.release)
			waitDone(cdone, "parked closer did not return after release")
		} else {
			close(pp.release)
		}
	default:
		for i, s := range sc.Senders {
			actors.Add(1)
			go func(i int, s Sender) {
				defer actors.Done()
				if !ph.wait(s.When, abort) {
					return
				}
				if s.Delay > 0 {
					time.Sleep(time.Duration(s.Delay) * time.Microsecond)
				}
				runSender(i, s, s.Sizes, 0)
				if s.When == "" || s.When == "start" {
					ssmu.Lock()
					startSenders--
					if startSenders == 0 {
						ph.fire("senders")
					}
					ssmu.Unlock()
				}
			}(i, s)
		}
		for j, c := range sc.Closers {
			actors.Add(1)
			go func(j int, c Closer) {
				defer actors.Done()
				if !ph.wait(c.When, abort) {
					return
				}
				yield(hxlib.NewRand(sc.Jitter*131 + uint64(j)))
				doClose(j, c.Graceful)
			}(j, c)
		}
	}

	// ---- wait for the scenario proper ------------------------------------------------------------
	// Without a scripted closer the cleanup closer below is the one that ends the connection (and
	// releases the actors that wait for a close phase).
	scripted := len(sc.Closers) > 0
	adone := make(chan struct{})
	go func() { actors.Wait(); close(adone) }()
	hung := func() bool { omu.Lock(); defer omu.Unlock(); return len(o.Hangs) > 0 }
	if scripted {
		waitDone(adone, "scenario actors did not finish")
	} else {
		waitDone(ph.get("senders"), "senders did not finish")
		waitDone(ph.get("pwrote"), "peer writer did not finish")
	}
	if !hung() {
		doClose(len(sc.Closers), true) // cleanup closer: always graceful, always last
		if !scripted {
			waitDone(adone, "scenario actors did not finish")
		}
	}
	if !hung() {
		// sends after every closer returned must be refused
		for k := 0; k < sc.Late; k++ {
			doSend(len(sc.Senders), nextID(len(sc.Senders), k), 8)
		}
	}
	if !hung() && peerReads {
		waitDone(peerDone, "peer reader did not finish")
	}
	close(stopCons)
	cons.Wait()
	omu.Lock()
	if !firstCloseRet.IsZero() && !peerEndAt.IsZero() {
		o.EndLagMs = int(peerEndAt.Sub(firstCloseRet) / time.Millisecond)
		if o.EndLagMs < 0 {
			o.EndLagMs = 0
		}
	}
	omu.Unlock()
	// held outputs: what was delivered must not change behind the consumer's back while later frames were read
	for k, p := range held {
		if len(o.InbBad) > 0 {
			break // (already wrong when it was delivered)
		}
		id := int(p.Command())
		if id >= peerIDBase && id-peerIDBase < len(sc.Peer.Frames) {
			size := sc.Peer.Frames[id-peerIDBase]
			if !bytes.Equal(bodyOf(p), Body(id, size)) && !(len(bodyOf(p)) == 0 && size == 0) {
				o.InbBad = append(o.InbBad, fmt.Sprintf("inbound packet %d: body CHANGED after it was delivered (it was right then; held while %d further frames were read)", id, len(held)-1-k))
				break
			}
		}
	}
	if hung() {
		close(abort)
		omu.Lock()
		o.Trace = append([]string{}, tr.ev...)
		omu.Unlock()
		return o
	}
	if !peerReads && !peerClosed {
		// a peer that never read goes away with unread data: the kernel answers with a reset, which a
		// detached finally (ForceClose) that is still flushing sees as failing writes
		tr.log("prst")
		peer.Close()
	}
	// ---- quiescent end ---------------------------------------------------------------------------
	n := settle(base, Deadline)
	o.Leak = n - base
	if o.Leak < 0 {
		o.Leak = 0
	}
	o.RunningEnd = tconn.IsRunning()
	for k := 0; k < 4; k++ {
		o.Stats[k] = stats.Get(k)
	}
	// take out what still sits in the error channel (a prompt consumer may have been stopped with an error pending)
	ePending := false // the stopped consumer had announced a receive that never returned
	for _, e := range tr.ev {
		if e == "ecall" {
			ePending = true
		} else if strings.HasPrefix(e, "eret ") {
			ePending = false
		}
	}
	for more := true; more; {
		select {
		case e := <-errch:
			if !ePending {
				tr.log("ecall")
			}
			ePending = false
			if e == prefill {
				tr.log("eret e=pre")
			} else {
				o.Errs = append(o.Errs, errKind(e))
				tr.log("eret e=%s", errKind(e))
			}
		default:
			more = false
		}
	}
	if o.Leak == 0 {
		o.Quiet = true
		tr.log("stats ps=%d bs=%d pr=%d br=%d", o.Stats[qnet.StatPacketsSent], o.Stats[qnet.StatBytesSent], o.Stats[qnet.StatPacketsRecv], o.Stats[qnet.StatBytesRecv])
		tr.log("end")
	}
	o.Trace = append([]string{}, tr.ev...)
	return o
}

func raceRelease(forced string, cdone chan struct{}) chan struct{} {
	if forced == "park-send-race" {
		return cdone
	}
	return nil
}

// countingWriter discards what is written (used to learn whether and how large a packet encodes).
type countingWriter struct{ n int }

func (c *countingWriter) Write(p []byte) (int, error) { c.n += len(p); return len(p), nil }

type countingReader struct {
	r io.Reader
	n *int64
}

func (c countingReader) Read(p []byte) (int, error) {
	n, err := c.r.Read(p)
	*c.n += int64(n)
	return n, err
}

func min(a, b int) int {
	if a < b {
		return a
	}
	return b
}

// Describe is a short canonical description (used as the non-trivial case key and in samples).
func (sc Scenario) Describe() string {
	var sb strings.Builder
	fmt.Fprintf(&sb, "v%d c%v cap%d i%d e%d/%d", sc.Codec, sc.Cipher, sc.Cap, sc.ICap, sc.ECap, sc.EPrefill)
	for _, s := range sc.Senders {
		fmt.Fprintf(&sb, " S%d@%s", len(s.Sizes), s.When)
	}
	for _, c := range sc.Closers {
		fmt.Fprintf(&sb, " C%v@%s", c.Graceful, c.When)
	}
	fmt.Fprintf(&sb, " P%s/%d/%s@%s in=%s er=%s late%d %s", sc.Peer.Read, len(sc.Peer.Frames), sc.Peer.Tail, sc.Peer.WriteWhen, sc.Inb, sc.Err, sc.Late, sc.Forced)
	if sc.Transport != "" {
		fmt.Fprintf(&sb, " over=%s", sc.Transport)
		if sc.Accepted {
			sb.WriteString("(accepted end)")
		}
	}
	if sc.Stats != nil {
		fmt.Fprintf(&sb, " stats=%d", *sc.Stats)
	}
	if sc.ReadTimeout > 0 {
		fmt.Fprintf(&sb, " rt=%ds", sc.ReadTimeout)
	}
	if sc.Flag != "" {
		fmt.Fprintf(&sb, " go=%s", sc.Flag)
	}
	if sc.Peer.Hold > 0 {
		fmt.Fprintf(&sb, " hold=%dms", sc.Peer.Hold)
	}
	for i, s := range sc.Senders {
		if s.Share {
			fmt.Fprintf(&sb, " S%d:one-body", i)
		}
		for k, z := range s.Sizes {
			if (sc.Codec == 1 && z <= -61000) || z <= -(8<<20) || (sc.Codec == 2 && k < len(s.Refs) && s.Refs[k] > 255) {
				fmt.Fprintf(&sb, " S%d[%d/%d]:over-limit", i, k, len(s.Sizes))
			}
		}
	}
	return sb.String()
}
