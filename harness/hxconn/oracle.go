package hxconn

import (
	"fmt"
	"strings"
)

// Finding is one way in which an observed run contradicts the property (independent of the Lean model).
type Finding struct {
	Key  string // stable class of the failing behaviour
	What string // sentence with the concrete values
	Soft bool   // timing-dependent (a deadline passed): believed only when it repeats
}

func add(fs *[]Finding, soft bool, key, format string, a ...interface{}) {
	*fs = append(*fs, Finding{Key: key, What: fmt.Sprintf(format, a...), Soft: soft})
}

func panicKey(p string) string {
	switch {
	case strings.Contains(p, "send on closed channel"):
		return "panic:send-on-closed-channel"
	case strings.Contains(p, "close of closed channel"):
		return "panic:close-of-closed-channel"
	case strings.Contains(p, "close of nil channel"):
		return "panic:close-of-nil-channel"
	case strings.Contains(p, "nil pointer"):
		return "panic:nil-pointer"
	case strings.Contains(p, "negative WaitGroup"):
		return "panic:negative-waitgroup"
	}
	return "panic:other"
}

// soleGraceful reports whether closer record c is a graceful Close that began before any other
// close and with no peer fault that could make the reader close the connection first.
func soleGraceful(sc Scenario, o *Outcome, c CloseRec) bool {
	if !c.Graceful || c.Res != "ok" || sc.Peer.Tail != "" {
		return false
	}
	for _, d := range o.Closes {
		if d.Closer != c.Closer && d.CallAt < c.RetAt {
			return false
		}
	}
	return true
}

// CheckC03 evaluates "every accepted packet reaches the peer exactly once, in order, up to Close;
// frames from the peer reach the inbound queue once, in order, bound to the connection; counters
// equal what crossed the wire" on the observations of one run.
func CheckC03(sc Scenario, o *Outcome) []Finding {
	var fs []Finding
	if strings.HasSuffix(sc.Transport, "-silent") {
		return nil // the TLS handshake never completes: the transport carries no data, nothing to deliver or count
	}
	for _, b := range o.PeerBad {
		add(&fs, false, "peer-stream:integrity", "%s", b)
	}
	for _, b := range o.InbBad {
		key := "inbound:content"
		if strings.Contains(b, "not bound") {
			key = "inbound:endpoint"
		}
		add(&fs, false, key, "%s", b)
	}
	accepted := map[int]SendRec{}
	tried := map[int]bool{}
	for _, s := range o.Sends {
		tried[s.Pkt] = true
		if s.Res == "ok" {
			if _, dup := accepted[s.Pkt]; dup {
				// the harness never re-sends an accepted packet
				add(&fs, false, "harness:resend", "packet %d accepted twice by SendPacket", s.Pkt)
			}
			accepted[s.Pkt] = s
		}
	}
	pos := map[int]int{}
	for k, id := range o.PeerGot {
		if _, dup := pos[id]; dup {
			add(&fs, false, "delivery:duplicate", "packet %d reached the peer twice (frames %d and %d)", id, pos[id], k)
			continue
		}
		pos[id] = k
		if _, ok := accepted[id]; !ok {
			add(&fs, false, "delivery:phantom", "packet %d reached the peer although no SendPacket call for it returned nil", id)
		}
	}
	// order: per sender, and across senders when one call returned before the other began
	acc := o.Accepted()
	for x := 0; x < len(acc); x++ {
		for y := 0; y < len(acc); y++ {
			a, b := acc[x], acc[y]
			pa, oka := pos[a.Pkt]
			pb, okb := pos[b.Pkt]
			if oka && okb && a.RetAt < b.CallAt && pa > pb {
				add(&fs, false, "delivery:order", "packet %d was accepted before packet %d was offered, but reached the peer after it (frames %d, %d)", a.Pkt, b.Pkt, pa, pb)
				x, y = len(acc), len(acc)
			}
		}
	}
	peerComplete := o.PeerEOF && sc.Peer.Tail != "rst"
	if peerComplete {
		// the peer read to end-of-stream: every accepted, encodable packet must be there
		missing := []int{}
		for _, s := range acc {
			if _, ok := pos[s.Pkt]; !ok && s.Wire > 0 {
				missing = append(missing, s.Pkt)
			}
		}
		if len(missing) > 0 {
			key := "delivery:lost-at-close"
			if sc.Forced != "" || concurrentWithClose(o, missing) {
				key = "delivery:lost-in-close-race"
			} else if peerWroteAfterClose(o) {
				key = "delivery:lost-at-close:peer-still-writing"
			}
			add(&fs, false, key, "%d accepted packet(s) never reached the peer, which read to end-of-stream: accepted %d, received %d, first missing %d (outbound capacity %d)",
				len(missing), len(acc), len(o.PeerGot), missing[0], sc.Cap)
		}
	}
	// a connection that was only ever closed gracefully, with a peer that sent nothing wrong and read late or slowly:
	// the peer's stream must not break off before every packet accepted before the close has arrived
	if !o.PeerEOF && o.PeerErr != "" && sc.Peer.Tail == "" && sc.Peer.Read != "never" && len(o.Hangs) == 0 && len(o.Closes) > 0 {
		graceful, firstCall := true, -1
		for _, c := range o.Closes {
			graceful = graceful && c.Graceful && c.Res == "ok"
			if firstCall < 0 || c.CallAt < firstCall {
				firstCall = c.CallAt
			}
		}
		missing := []int{}
		for _, s := range acc {
			if _, ok := pos[s.Pkt]; !ok && s.Wire > 0 && s.RetAt < firstCall {
				missing = append(missing, s.Pkt)
			}
		}
		key := "delivery:lost-at-close"
		if peerWroteAfterClose(o) {
			key = "delivery:lost-at-close:peer-still-writing"
		}
		if graceful && len(missing) > 0 {
			add(&fs, false, key, "%d packet(s) accepted before the (graceful) Close never reached the peer: its stream broke off with %q after %d of %d accepted packets, first missing %d (peer reads %s, %d inbound frames left unread by this side)",
				len(missing), o.PeerErr, len(o.PeerGot), len(acc), missing[0], sc.Peer.Read, len(o.PeerSent)-len(o.InbGot))
		}
	}
	// the graceful close returns only after the accepted packets are on the wire
	for _, c := range o.Closes {
		if !soleGraceful(sc, o, c) {
			continue
		}
		before, bytes := 0, int64(0)
		for _, s := range acc {
			if s.RetAt < c.CallAt && s.Wire > 0 {
				before++
				bytes += int64(s.Wire)
			}
		}
		if o.StatsN > 3 && (c.SentPkts < int64(before) || c.SentBytes < bytes) {
			add(&fs, false, "close:returned-before-flush", "Close returned with %d packets / %d bytes written, but %d packets / %d bytes had been accepted before it was called",
				c.SentPkts, c.SentBytes, before, bytes)
		}
	}
	if o.Quiet && o.StatsN <= 3 {
		// a caller-supplied counter set that is too small for the four counters: the ones it has must still be right
		// (index 0 bytes received, 1 bytes sent, 2 packets received), the missing ones read 0
		if o.StatsN >= 2 && peerComplete && o.PeerErr == "" && o.Stats[1] != o.PeerBytes {
			add(&fs, false, "counters:sent", "a counter set with %d counters: bytes-sent says %d, the peer received %d bytes up to end-of-stream", o.StatsN, o.Stats[1], o.PeerBytes)
		}
		for k := o.StatsN; k < 4; k++ {
			if k >= 0 && o.Stats[k] != 0 {
				add(&fs, false, "counters:phantom", "a counter set with %d counters answers %d for counter %d", o.StatsN, o.Stats[k], k)
			}
		}
	}
	if o.Quiet && o.StatsN > 3 {
		// counters against what actually crossed the wire
		if peerComplete && o.PeerErr == "" {
			if o.Stats[3] != int64(len(o.PeerGot)) || o.Stats[1] != o.PeerBytes {
				add(&fs, false, "counters:sent", "sent counters say %d packets / %d bytes, the peer received %d frames / %d bytes up to end-of-stream",
					o.Stats[3], o.Stats[1], len(o.PeerGot), o.PeerBytes)
			}
		}
		pr := int(o.Stats[2])
		if pr < len(o.InbGot) || pr > len(o.PeerSent)+1 {
			add(&fs, false, "counters:recv", "received-packets counter %d, but %d frames were handed to the inbound queue and the peer wrote %d", pr, len(o.InbGot), len(o.PeerSent))
		} else if pr <= len(o.PeerSizes) {
			want := int64(0)
			for _, z := range o.PeerSizes[:pr] {
				want += int64(z)
			}
			if o.Stats[0] != want {
				add(&fs, false, "counters:recv", "received-bytes counter %d for %d frames whose sizes add up to %d", o.Stats[0], pr, want)
			}
		}
	}
	// inbound: exactly once, in wire order = a prefix of what the peer wrote
	for k, id := range o.InbGot {
		if id != peerIDBase+k {
			add(&fs, false, "inbound:order", "inbound delivery %d is frame %d, expected frame %d (the peer wrote %d frames in order)", k, id-peerIDBase, k, len(sc.Peer.Frames))
			break
		}
	}
	return fs
}

// peerWroteAfterClose: the peer wrote a frame after the first close call had begun. On Linux a frame that arrives
// after this side has shut down both directions resets the connection, and what the kernel had not yet transmitted
// of the flushed backlog is destroyed with it: the loss then has this cause and gets a key of its own.
func peerWroteAfterClose(o *Outcome) bool {
	first := -1
	for _, c := range o.Closes {
		if first < 0 || c.CallAt < first {
			first = c.CallAt
		}
	}
	if first < 0 {
		return false
	}
	for k := first + 1; k < len(o.Trace); k++ {
		if strings.HasPrefix(o.Trace[k], "pframe ") {
			return true
		}
	}
	return false
}

func concurrentWithClose(o *Outcome, missing []int) bool {
	first := -1
	for _, c := range o.Closes {
		if first < 0 || c.CallAt < first {
			first = c.CallAt
		}
	}
	for _, s := range o.Sends {
		for _, m := range missing {
			if s.Pkt == m && s.Res == "ok" && first >= 0 && s.RetAt > first {
				return true
			}
		}
	}
	return false
}

// CheckC04 evaluates "no panic, no call blocks forever, closing is idempotent, sends after shutdown
// are refused, exactly one terminal error is offered, goroutines exit, the peer sees the stream end".
func CheckC04(sc Scenario, o *Outcome) []Finding {
	var fs []Finding
	for _, p := range o.Panics {
		add(&fs, false, panicKey(p), "%s", p)
	}
	for _, h := range o.Hangs {
		key := "hang:other"
		switch {
		case strings.Contains(h, "closer"):
			key = "hang:close-does-not-return"
		case strings.Contains(h, "peer saw neither"), strings.Contains(h, "peer reader"):
			key = "hang:peer-sees-no-end-of-stream"
		case strings.Contains(h, "sender"):
			key = "hang:send-does-not-return"
		}
		add(&fs, true, key, "%s within %v", h, Deadline)
	}
	// sends that began after some close call had returned must be refused
	firstRet := -1
	for _, c := range o.Closes {
		if c.RetAt >= 0 && (firstRet < 0 || c.RetAt < firstRet) {
			firstRet = c.RetAt
		}
		if c.Res == "ok" && c.Running {
			add(&fs, false, "running-after-close", "IsRunning() is true right after closer %d returned", c.Closer)
		}
	}
	for _, s := range o.Sends {
		if firstRet >= 0 && s.CallAt > firstRet && s.Res != "closing" {
			add(&fs, false, "send-after-close:"+s.Res, "SendPacket of packet %d began after a close call had returned and answered %q instead of ErrConnIsClosing", s.Pkt, s.Res)
		}
		if s.Res == "other" {
			add(&fs, false, "send:unknown-error", "SendPacket of packet %d returned an undocumented error", s.Pkt)
		}
	}
	if len(o.Hangs) > 0 {
		return fs // nothing below is meaningful for an abandoned run
	}
	for _, b := range o.ErrBad {
		add(&fs, false, "error:content", "%s", b)
	}
	room := sc.ECap > sc.EPrefill
	n := len(o.Errs)
	switch {
	case n > 1:
		add(&fs, false, "errors:more-than-one", "%d terminal errors were delivered on the error channel: %v", n, o.Errs)
	case room && n == 0:
		add(&fs, false, "errors:none", "no terminal error was offered although the error channel had room (capacity %d, %d used)", sc.ECap, sc.EPrefill)
	case !room && sc.Err != "prompt" && n != 0:
		add(&fs, false, "errors:into-full-channel", "%d errors delivered into a full error channel", n)
	}
	if o.Leak > 0 {
		add(&fs, true, "leak:goroutines", "%d goroutine(s) above the baseline %v after the connection was closed", o.Leak, Deadline)
	}
	if o.RunningEnd {
		add(&fs, false, "running-after-close", "IsRunning() is true at the end")
	}
	// (over a transport that is closed as a whole — not half-closed like TCP — input this side left unread turns the
	// peer's end-of-stream into a reset: still the stream end)
	ended := o.PeerEOF || (o.PeerReset && sc.Transport != "" && sc.Transport != "tcp")
	if sc.Peer.Read != "never" && sc.Peer.Tail != "rst" && !ended {
		add(&fs, true, "peer:no-end-of-stream", "the peer did not see end-of-stream (its read ended with %q)", o.PeerErr)
	}
	return fs
}

// RunBelievably runs the scenario; a run whose only complaints are timing-dependent (a deadline
// passed) is repeated up to two more times and believed only if it fails every time.
func RunBelievably(sc Scenario, check func(Scenario, *Outcome) []Finding) (*Outcome, []Finding, int) {
	var o *Outcome
	var fs []Finding
	for attempt := 1; attempt <= 3; attempt++ {
		o = Run(sc)
		fs = check(sc, o)
		soft, hard, known := 0, 0, 0
		for _, f := range fs {
			if f.Soft {
				soft++
				if Believed[f.Key] > 0 {
					known++
				}
			} else {
				hard++
			}
		}
		if hard > 0 || soft == 0 || (known == soft) {
			for _, f := range fs {
				if f.Soft {
					Believed[f.Key]++
				}
			}
			return o, fs, attempt
		}
		sc.Jitter++
	}
	for _, f := range fs {
		if f.Soft {
			Believed[f.Key]++
		}
	}
	return o, fs, 3
}

// Believed counts, per key, the timing-dependent findings that were confirmed by repetition in
// this process (a class that was confirmed once is not re-run three times again).
var Believed = map[string]int{}

// GiveUp is true when so many hangs were confirmed that running more scenarios only costs deadlines.
func GiveUp() bool {
	n := 0
	for _, v := range Believed {
		n += v
	}
	return n >= 4
}
