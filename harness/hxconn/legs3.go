package hxconn

// Scenario generators of the third-wave legs (shared by hx_c03 and hx_c04; see the headers of their diversity.go).
// They vary what the older families never did: the TYPE of the net.Conn, packets the encoder REJECTS at chosen
// positions of a burst, the counter set handed to NewTcpConn, the smallest legal queue sizes, a writer-only
// connection, one body object shared by many packets, and peers that keep still for seconds.

import (
	"fmt"

	"verifharness/hxlib"
)

// Transports with a completed handshake (data can flow) and without.
var DataTransports = []string{"pipe", "unix", "tls", "tlsc"}
var SilentTransports = []string{"tls-silent", "tlsc-silent"}

func pickStr(r *hxlib.Rand, vs ...string) string { return vs[r.Intn(len(vs))] }

func hasForced(s Scenario) bool {
	for _, c := range s.Closers {
		if !c.Graceful {
			return true
		}
	}
	return false
}

// finishTransport applies what a transport needs: a ForceClose from outside cannot wake the reader of a connection
// that is not a *net.TCPConn (there is no CloseRead to call): the reader leaves when its read deadline passes, so the
// run uses the shortest read timeout (1 s) — and a peer that stays silent for that long ends the connection by itself.
func finishTransport(s *Scenario) {
	if s.Transport != "" && s.Transport != "tcp" && hasForced(*s) {
		s.ReadTimeout = 1
	}
}

// GenTransport draws one scenario of the given family (backlog | inbound | race) over a data-carrying transport.
// forcedOK: ForceClose callers may appear (each costs up to 1 s: the reader is woken by its read timeout only).
func GenTransport(r *hxlib.Rand, transport, family string, forcedOK bool) Scenario {
	s := Scenario{Name: "transport-" + family, Transport: transport, Codec: r.Pick(1, 2), Cipher: r.Chance(1, 4), Cap: r.Pick(1, 2, 8, 64),
		ICap: 4, ECap: 2, Inb: "prompt", Err: "prompt", Jitter: r.U64()}
	if transport == "unix" || transport == "tlsc" {
		s.Accepted = r.Chance(1, 2)
	}
	reads := []string{"prompt", "slow", "ccall", "cret"}
	if transport == "pipe" {
		reads = []string{"prompt", "slow", "ccall"} // a pipe has no buffer: Close can only return while the peer reads
	}
	switch family {
	case "backlog":
		n := r.Range(1, 16)
		hi := 64
		if r.Chance(1, 4) {
			hi = 5000
		}
		z := sizesOf(r, n, 0, hi)
		if r.Chance(1, 6) {
			s.Codec = 2
			z[r.Intn(n)] = -r.Range(70000, 200000)
		}
		s.Senders = []Sender{{Sizes: z, When: "start", Retry: 200, Burst: r.Chance(3, 4)}}
		s.Closers = []Closer{{Graceful: true, When: "senders"}}
		s.Peer.Read = reads[r.Intn(len(reads))]
		total := 0
		for _, v := range z {
			if v < 0 {
				v = -v
			}
			total += v
		}
		if total > 32*1024 && s.Peer.Read == "cret" {
			s.Peer.Read = "ccall"
		}
		s.Late = r.Intn(3)
	case "inbound":
		s.ICap = r.Pick(1, 2, 8)
		s.Peer = Peer{Read: "prompt", Frames: sizesOf(r, r.Range(1, 8), 0, 48), WriteWhen: "start"}
		s.Senders = []Sender{{Sizes: sizesOf(r, r.Range(0, 3), 0, 30), When: "start", Retry: 20}}
		switch r.Intn(4) {
		case 0:
			if transport != "pipe" { // (a pipe cannot be half-closed)
				s.Peer.Tail = "fin"
			}
		case 1:
			s.Peer.Tail = "garbage"
		}
		if s.Peer.Tail == "" {
			// the close begins when every frame of the peer has been consumed: a transport that is closed as a whole
			// must not be closed over unread input (that would be the peer's fault, not the connection's)
			s.Closers = []Closer{{Graceful: !forcedOK || r.Chance(2, 3), When: "inball"}}
		}
		s.Late = 1
	default: // race
		for i, n := 0, r.Range(1, 3); i < n; i++ {
			s.Senders = append(s.Senders, Sender{Sizes: sizesOf(r, r.Range(1, 5), 0, 40), When: "start", Retry: r.Pick(0, 3)})
		}
		for j, n := 0, r.Range(1, 2); j < n; j++ {
			s.Closers = append(s.Closers, Closer{Graceful: !forcedOK || r.Chance(1, 2), When: pickStr(r, "start", "senders", "start")})
		}
		s.Peer.Read = reads[r.Intn(3)]
		s.Late = r.Intn(2)
	}
	finishTransport(&s)
	return s
}

// GenSilent: a *tls.Conn whose peer never speaks. Nothing can be delivered; everything else of C04 must hold.
// how: close (graceful Close with the reader waiting for the hello) | force (ForceClose; the reader leaves with its
// 1 s read timeout) | timeout (nobody closes: the 1 s read timeout ends the connection) | fin (the silent peer ends
// its side) | rst.
func GenSilent(r *hxlib.Rand, transport, how string) Scenario {
	s := Scenario{Name: "transport-silent-" + how, Transport: transport, Codec: r.Pick(1, 2), Cap: r.Pick(1, 4, 8), ICap: 4, ECap: 2,
		Inb: "prompt", Err: "prompt", Jitter: r.U64(), Late: 1}
	s.Peer.Read = "prompt"
	s.Senders = []Sender{{Sizes: sizesOf(r, r.Range(0, 3), 0, 40), When: "start"}}
	switch how {
	case "close":
		s.Closers = []Closer{{Graceful: true, When: pickStr(r, "start", "senders")}}
		if r.Chance(1, 3) {
			s.Closers = append(s.Closers, Closer{Graceful: true, When: "ccall"})
		}
		// (shortest read timeout: see GenLateArm — with the default 200 s about one run in a hundred of this shape would sit
		// in Close until the run's deadline, be re-run and pass)
		s.ReadTimeout = 1
	case "force":
		s.Closers = []Closer{{Graceful: false, When: pickStr(r, "start", "senders")}}
		s.ReadTimeout = 1
	case "timeout":
		s.ReadTimeout = 1
		s.Closers = []Closer{{Graceful: true, When: "errgot"}}
	case "fin", "rst":
		s.Peer.Tail, s.Peer.WriteWhen = how, "senders"
		s.Closers = []Closer{{Graceful: r.Chance(1, 2), When: "errgot"}}
		s.ReadTimeout = 1
	}
	return s
}

// GenRejected: packets SendPacket accepts and the encoder refuses (over V1: more than 60 KiB of incompressible body;
// over V2: more than 255 node references, or — big — more than 8 MiB), at a chosen position of a burst:
// alone | mid | tail | tail2 (two of them at the tail) | tail+more (further good packets after a pause).
// Every other accepted packet must reach the peer once and in order, the graceful Close returns, the peer sees the
// stream end right after the last good packet, the counters equal what crossed the wire. (The rejected packet itself
// never reaches the wire: the property promises delivery for packets the codec can encode.)
func GenRejected(r *hxlib.Rand, pos string, big bool) Scenario {
	s := Scenario{Name: "rejected-" + pos, Codec: r.Pick(1, 2), Cipher: r.Chance(1, 5), Cap: 64, ICap: 4, ECap: 2, Inb: "prompt", Err: "prompt", Jitter: r.U64()}
	if big {
		s.Codec = 2
	}
	bad := func() (size, refs int) {
		switch {
		case big:
			return -(8<<20 + r.Range(0, 4096)), 0
		case s.Codec == 1:
			return -r.Pick(61440-13, 61441, 70000, 65535, 65536, 100000), 0
		}
		return r.Range(0, 40), r.Pick(256, 257, 300, 1000)
	}
	pre, post := r.Range(1, 6), 0
	switch pos {
	case "alone":
		pre = 0
	case "mid":
		post = r.Range(1, 4)
	}
	var z, refs []int
	for k := 0; k < pre; k++ {
		z, refs = append(z, r.Range(0, 48)), append(refs, 0)
		if s.Codec == 2 && r.Chance(1, 4) {
			refs[len(refs)-1] = r.Pick(1, 2, 255) // the most the encoder takes
		}
	}
	nbad := 1
	if pos == "tail2" {
		nbad = 2
	}
	for k := 0; k < nbad; k++ {
		zz, rr := bad()
		z, refs = append(z, zz), append(refs, rr)
	}
	for k := 0; k < post; k++ {
		z, refs = append(z, r.Range(0, 48)), append(refs, 0)
	}
	s.Senders = []Sender{{Sizes: z, Refs: refs, When: "start", Retry: 200, Burst: true}}
	if pos == "tail+more" {
		s.Senders = append(s.Senders, Sender{Sizes: sizesOf(r, r.Range(1, 3), 0, 48), When: "start", Retry: 200, Burst: true, Delay: r.Range(2000, 6000)})
	}
	s.Closers = []Closer{{Graceful: true, When: "senders"}}
	if r.Chance(1, 4) {
		s.Closers = append(s.Closers, Closer{Graceful: r.Chance(1, 2), When: "cret"})
	}
	s.Peer.Read = pickStr(r, "prompt", "prompt", "ccall", "cret")
	s.Late = r.Intn(2)
	return s
}

// GenStats: the counter set handed to NewTcpConn has n counters (n = 0 .. NumStat+1; the connection needs 4); traffic
// in both directions, graceful or forced close.
func GenStats(r *hxlib.Rand, n int) Scenario {
	s := Scenario{Name: fmt.Sprintf("stats-%d", n), Codec: r.Pick(1, 2), Cap: r.Pick(1, 8), ICap: 4, ECap: 2, Inb: "prompt", Err: "prompt", Jitter: r.U64(), Stats: &n}
	s.Senders = []Sender{{Sizes: sizesOf(r, r.Range(1, 6), 0, 48), When: "start", Retry: 100, Burst: r.Bool()}}
	s.Peer = Peer{Read: "prompt", Frames: sizesOf(r, r.Range(1, 5), 0, 48), WriteWhen: "start"}
	s.Closers = []Closer{{Graceful: r.Chance(2, 3), When: "inball"}}
	s.Late = 1
	return s
}

// GenSmallest: the smallest legal sizes: outbound queue 0 (unbuffered: a send is accepted only while the writer
// stands in its select) or 1, inbound channel 0 or 1, error channel 0 or 1.
func GenSmallest(r *hxlib.Rand) Scenario {
	s := Scenario{Name: "smallest-sizes", Codec: r.Pick(1, 2), Cap: r.Pick(0, 0, 1), ICap: r.Pick(0, 1), ECap: r.Pick(0, 1, 1), Inb: "prompt", Err: "prompt", Jitter: r.U64()}
	s.Senders = []Sender{{Sizes: sizesOf(r, r.Range(1, 6), 0, 48), When: "start", Retry: 400}}
	if r.Bool() {
		s.Senders = append(s.Senders, Sender{Sizes: sizesOf(r, r.Range(1, 4), 0, 48), When: "start", Retry: 400})
	}
	s.Peer = Peer{Read: pickStr(r, "prompt", "slow"), Frames: sizesOf(r, r.Range(0, 4), 0, 48), WriteWhen: "start"}
	s.Closers = []Closer{{Graceful: r.Chance(2, 3), When: "inball"}}
	if r.Chance(1, 3) {
		s.Closers = append(s.Closers, Closer{Graceful: r.Bool(), When: "ccall"})
	}
	s.Late = 1
	return s
}

// GenWriterOnly: Go(EndpointWriter): no reader pump; everything about the outbound direction must hold as usual.
func GenWriterOnly(r *hxlib.Rand) Scenario {
	s := Scenario{Name: "writer-only", Flag: "w", Codec: r.Pick(1, 2), Cap: r.Pick(1, 4, 64), ICap: 4, ECap: 2, Inb: "prompt", Err: "prompt", Jitter: r.U64()}
	s.Senders = []Sender{{Sizes: sizesOf(r, r.Range(1, 12), 0, 64), When: "start", Retry: 200, Burst: r.Chance(3, 4)}}
	s.Closers = []Closer{{Graceful: r.Chance(3, 4), When: "senders"}}
	s.Peer.Read = pickStr(r, "prompt", "slow", "ccall", "cret")
	s.Late = 1
	return s
}

// GenSharedBody: every packet of a sender carries the SAME body slice object (bodies above and below the compression
// threshold, cipher on or off): each must arrive with exactly that body.
func GenSharedBody(r *hxlib.Rand) Scenario {
	s := Scenario{Name: "shared-body", Codec: r.Pick(1, 2), Cipher: r.Chance(1, 2), Cap: 64, ICap: 4, ECap: 2, Inb: "prompt", Err: "prompt", Jitter: r.U64()}
	size := r.Pick(1, 16, 48, 600, 4000, 9000)
	n := r.Range(2, 12)
	z := make([]int, n)
	for i := range z {
		z[i] = size
	}
	s.Senders = []Sender{{Sizes: z, Share: true, When: "start", Retry: 200, Burst: r.Chance(3, 4)}}
	s.Closers = []Closer{{Graceful: true, When: "senders"}}
	s.Peer.Read = pickStr(r, "prompt", "ccall", "cret")
	return s
}

// GenLongStall: a backlog of `mib` MiB (incompressible 1 MiB packets over V2: far more than the socket buffers of a
// loopback connection hold) is accepted, the graceful Close begins, and the peer reads NOTHING for holdMs
// milliseconds; then it reads everything. Nothing may be lost, the stream ends cleanly after the last packet, Close
// returns only then.
func GenLongStall(r *hxlib.Rand, holdMs, mib int) Scenario {
	s := Scenario{Name: fmt.Sprintf("long-stall-%ds", holdMs/1000), Codec: 2, Cap: 64, ICap: 4, ECap: 2, Inb: "prompt", Err: "prompt", Jitter: r.U64()}
	z := make([]int, mib)
	for i := range z {
		z[i] = -(1<<20 - r.Range(0, 4096))
	}
	s.Senders = []Sender{{Sizes: z, When: "start", Retry: 400, Burst: true}}
	s.Closers = []Closer{{Graceful: true, When: "senders"}}
	s.Peer = Peer{Read: "ccall", Hold: holdMs}
	return s
}

// GenCryptor: both directions run through a cipher the older scenarios never used: salsa20, twofish, and two
// BlockCryptor implementations of the application's own (K4): "new" returns NEW slices and leaves its argument alone,
// "pad" returns an output three bytes longer than its input (Decrypt strips them). Bodies below and above the
// compression threshold; traffic in both directions; graceful Close with a backlog.
func GenCryptor(r *hxlib.Rand, cryptor string) Scenario {
	s := Scenario{Name: "cryptor-" + cryptor, Codec: r.Pick(1, 2), Cipher: true, Cryptor: cryptor, Cap: r.Pick(2, 8, 64), ICap: 4, ECap: 2, Inb: "prompt", Err: "prompt", Jitter: r.U64()}
	hi := r.Pick(48, 48, 600, 5000)
	s.Senders = []Sender{{Sizes: sizesOf(r, r.Range(1, 12), 0, hi), When: "start", Retry: 200, Burst: r.Chance(3, 4)}}
	if r.Chance(1, 4) {
		s.Senders[0].Sizes[0] = -r.Range(1000, 20000) // incompressible
	}
	s.Peer = Peer{Read: pickStr(r, "prompt", "slow", "ccall", "cret"), Frames: sizesOf(r, r.Range(0, 6), 0, hi), WriteWhen: "start"}
	s.Closers = []Closer{{Graceful: true, When: "inball"}}
	if len(s.Peer.Frames) == 0 {
		s.Closers[0].When = "senders"
	}
	s.Late = r.Intn(2)
	return s
}

// GenHeldInbound (K8): the peer writes many frames (40..120, bodies up to 12000 bytes — compressed ones among them —:
// many times the size of the connection's read buffer), in one piece each or in pieces of 1 / 3 / 7 / 100 / 4096 bytes with pauses; the consumer
// KEEPS every packet it receives and compares all of them again when the run is over: what was delivered must not
// change while later frames are read (a body that aliases a read buffer does).
func GenHeldInbound(r *hxlib.Rand) Scenario {
	s := Scenario{Name: "held-inbound", Codec: r.Pick(1, 2), Cipher: r.Chance(1, 3), Cap: 8, ICap: r.Pick(1, 8, 64), ECap: 2, Inb: "prompt", Err: "prompt", Jitter: r.U64()}
	if s.Cipher {
		s.Cryptor = pickStr(r, "", "new", "salsa20")
	}
	n := r.Range(40, 120)
	z := make([]int, n)
	for i := range z {
		switch r.Intn(5) {
		case 0:
			z[i] = r.Range(0, 16)
		case 1:
			z[i] = r.Range(900, 3000)
		case 2:
			z[i] = r.Range(4097, 12000) // above the compression thresholds (V1 4096, V2 8192): inflated on arrival
		default:
			z[i] = r.Range(20, 400)
		}
	}
	s.Peer = Peer{Read: "prompt", Frames: z, WriteWhen: "start", Chunk: r.Pick(0, 0, 1, 3, 7, 100, 4096), Pace: r.Pick(0, 0, 20)}
	if c := s.Peer.Chunk; c > 0 && c < 100 {
		// (one write per 1 / 3 / 7 bytes: keep the byte count down — about 8000 writes at most)
		s.Peer.Frames = z[:40]
		for i, v := range s.Peer.Frames {
			if v > 200*c {
				s.Peer.Frames[i] = 200*c - i
			}
		}
	}
	s.Senders = []Sender{{Sizes: sizesOf(r, r.Range(0, 3), 0, 30), When: "start", Retry: 20}}
	s.Closers = []Closer{{Graceful: r.Chance(3, 4), When: "inball"}}
	return s
}

// GenLateArm: the forced schedule of transport.go's lateArmConn on a *tls.Conn whose handshake is pending, with 1..3
// packets queued and a graceful Close; read timeout rt seconds. What is OBSERVED is how long Close takes.
func GenLateArm(r *hxlib.Rand, transport string, rt int) Scenario {
	s := Scenario{Name: "late-arm", Transport: transport, Forced: "late-arm", Codec: r.Pick(1, 2), Cap: 8, ICap: 4, ECap: 2, Inb: "prompt", Err: "prompt",
		Jitter: r.U64(), ReadTimeout: rt, Late: 1}
	s.Peer.Read = "prompt"
	s.Senders = []Sender{{Sizes: sizesOf(r, r.Range(1, 3), 0, 40), When: "start", Burst: true}}
	s.Closers = []Closer{{Graceful: true, When: "senders"}}
	return s
}
