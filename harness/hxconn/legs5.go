package hxconn

// Fifth-wave legs (classes, not patches). Everything here runs in a CHILD process of its own kind (HX_L5_CHILD=1, case
// on stdin, result on stdout): a hang leaves blocked goroutines behind and a late pump that touches a torn-down
// connection is process death; neither may disturb the parent's other scenarios. Legs:
//
//	hammer       (C04) k = 2..8 goroutines spin SendPacket on a FRESH connection (net.Pipe / loopback TCP) while, after
//	             0..200 µs / a few Gosched / a short spin, one of Close, ForceClose, the peer disconnecting, garbage from
//	             the peer lands. Oracle: every call returns, sends after the first refusal are refused, a final Close
//	             returns, exactly one terminal error, the pumps exit, the peer sees the stream end.
//	close-stream (C04) the peer streams M small frames with tiny random gaps and then goes QUIET (no FIN); a graceful Close
//	             lands at a random instant or — steered by the receive counter — right behind the delivery of one of
//	             the last frames. Oracle: Close returns, the peer sees end-of-stream, one terminal error.
//	close-gated  (C04) the same, deterministically: a net.Conn wrapper holds the reader at the entry of its n-th deadline
//	             arm / right after it / at the entry of the Read behind it, and the closer at the entry / exit of its
//	             wake-up SetReadDeadline (or lets it run free): every position of the window between a delivery and
//	             the next arm, n = 1..3, pipe and TCP.
//	startup      (C03) Go(flag), N x SendPacket, Close issued back to back by one goroutine, in a child with GOMAXPROCS=1
//	             (no pump has run a statement when Close begins) and in one with the default; flag r / w / rw. Oracle:
//	             Close returns only after the N packets are written (sent counter = N), the peer reads exactly them, in
//	             order, then end-of-stream; nothing crashes afterwards.
//	(descriptor lifetime vs unread inbound data is a Scenario: GenUnreadTail below.)
//
// A call that has not returned after 3 s is observed for 2 more seconds (goroutine dump taken in between and kept in
// the replay case) before the child reports it; the parent then re-runs the case and believes the hang only when it
// shows again. No other timing is judged.

import (
	"bytes"
	"encoding/json"
	"fmt"
	"io"
	"log"
	"net"
	"os"
	"os/exec"
	"runtime"
	"strings"
	"sync"
	"sync/atomic"
	"time"

	fatchoy "qchen.fun/fatchoy"
	"qchen.fun/fatchoy/packet"
	"qchen.fun/fatchoy/qnet"

	"verifharness/hxlib"
)

// L5Case is the replayable description of one child run.
type L5Case struct {
	Leg       string `json:"leg"`                 // hammer | close-stream | close-gated | startup
	Seed      uint64 `json:"seed"`                //
	Trials    int    `json:"trials,omitempty"`    //
	Transport string `json:"transport,omitempty"` // "" (both) | pipe | tcp
	How       string `json:"how,omitempty"`       // hammer: "" (all) | close | force | peer-close | garbage
	K         int    `json:"k,omitempty"`         // hammer: senders (0: 2..8 per trial)
	Gate      string `json:"gate,omitempty"`      // close-gated: "" (the whole grid) | arm-entry | arm-exit | read-entry
	GateN     int    `json:"gate_n,omitempty"`    // the n-th arm of the reader (n-1 packets were delivered before it)
	Closer    string `json:"closer,omitempty"`    // wake-entry | wake-exit | free
	Flag      string `json:"flag,omitempty"`      // startup: r | w | rw
	Procs     int    `json:"procs,omitempty"`     // GOMAXPROCS of the child (0: default)
	Dump      string `json:"dump,omitempty"`      // goroutine dump of the observed hang (information only)
}

type L5Failure struct {
	Key  string `json:"key"`
	What string `json:"what"`
	Soft bool   `json:"soft"`
	Case L5Case `json:"case"`
}

type L5Result struct {
	Trials   int            `json:"trials"`
	Counts   map[string]int `json:"counts"`
	Failures []L5Failure    `json:"failures"`
	Attempts int            `json:"attempts"`
	WallMs   int            `json:"wall_ms"`
	// startup: the distinct observations `w= r= n= cap= k= [p=]` (flags of Go, accepted packets, queue capacity, sent
	// counter right after Close returned, packets the peer read up to end-of-stream) -> number of trials; the
	// harness asks the start-up LTS (Model/ConnStart.lean, op `startup` of Drv/C03.lean) to explain each of them
	Startup map[string]int `json:"startup,omitempty"`
}

func (res *L5Result) startupObs(flag string, n, qcap int, k int64, p int) {
	if res.Startup == nil {
		res.Startup = map[string]int{}
	}
	b := map[bool]int{true: 1}
	key := fmt.Sprintf("w=%d r=%d n=%d cap=%d k=%d", b[flag != "r"], b[flag != "w"], n, qcap, k)
	if p >= 0 {
		key += fmt.Sprintf(" p=%d", p)
	}
	res.Startup[key]++
}

func IsL5Child() bool { return os.Getenv("HX_L5_CHILD") != "" }

func L5ChildMain() {
	log.SetOutput(io.Discard)
	var c L5Case
	if err := json.NewDecoder(os.Stdin).Decode(&c); err != nil {
		fmt.Fprintln(os.Stderr, "l5 child: bad input:", err)
		os.Exit(3)
	}
	res := &L5Result{Counts: map[string]int{}}
	switch c.Leg {
	case "hammer":
		l5Hammer(c, res)
	case "close-stream":
		l5CloseStream(c, res)
	case "close-gated":
		l5Gated(c, res)
	case "startup":
		l5Startup(c, res)
	default:
		fmt.Fprintln(os.Stderr, "l5 child: unknown leg", c.Leg)
		os.Exit(3)
	}
	b, _ := json.Marshal(res)
	os.Stdout.Write(b)
	os.Exit(0) // (blocked goroutines of an observed hang stay behind)
}

// RunL5 runs one case in a child process.
func RunL5(c L5Case) L5Result {
	t0 := time.Now()
	fail := func(key, what string, soft bool) L5Result {
		return L5Result{Counts: map[string]int{}, Failures: []L5Failure{{Key: key, What: what, Soft: soft, Case: c}}, WallMs: int(time.Since(t0) / time.Millisecond)}
	}
	self, err := os.Executable()
	if err != nil {
		return L5Result{Counts: map[string]int{"l5:no-executable": 1}}
	}
	in, _ := json.Marshal(c)
	cmd := exec.Command(self)
	cmd.Env = append(os.Environ(), "HX_L5_CHILD=1")
	if c.Procs > 0 {
		cmd.Env = append(cmd.Env, fmt.Sprintf("GOMAXPROCS=%d", c.Procs))
	}
	cmd.Stdin = bytes.NewReader(in)
	var stdout, stderr bytes.Buffer
	cmd.Stdout, cmd.Stderr = &stdout, &stderr
	if err := cmd.Start(); err != nil {
		return L5Result{Counts: map[string]int{"l5:child-not-started": 1}}
	}
	done := make(chan error, 1)
	go func() { done <- cmd.Wait() }()
	limit := 120 * time.Second
	select {
	case err = <-done:
	case <-time.After(limit):
		cmd.Process.Kill()
		<-done
		return fail("hang:other", fmt.Sprintf("the child process running leg %s did not finish within %v", c.Leg, limit), true)
	}
	var res L5Result
	if err == nil {
		if jerr := json.Unmarshal(stdout.Bytes(), &res); jerr == nil && res.Counts != nil {
			res.WallMs = int(time.Since(t0) / time.Millisecond)
			return res
		}
	}
	msg := stderr.String()
	if i := strings.Index(msg, "panic:"); i >= 0 {
		msg = msg[i:]
	} else if i := strings.Index(msg, "fatal error:"); i >= 0 {
		msg = msg[i:]
	}
	keep := []string{}
	for _, l := range strings.Split(msg, "\n") {
		l = strings.TrimSpace(l)
		if l == "" || strings.HasPrefix(l, "/") || strings.HasPrefix(l, "[signal") {
			continue
		}
		keep = append(keep, l)
		if len(keep) >= 8 {
			break
		}
	}
	crash := strings.Join(keep, " | ")
	if crash == "" {
		crash = fmt.Sprintf("child exited with %v and no message", err)
	}
	key := "panic:process-death"
	if k := panicKey(crash); k != "panic:other" {
		key = k + ":process-death"
	}
	return fail(key, fmt.Sprintf("the process running the connection died (leg %s, flag %q, GOMAXPROCS %d): %s", c.Leg, c.Flag, c.Procs, crash), false)
}

// RunL5Believably re-runs a case whose only complaints are timing-dependent and believes them only when the same key
// shows again.
func RunL5Believably(c L5Case) L5Result {
	res := RunL5(c)
	res.Attempts = 1
	soft, hard := 0, 0
	for _, f := range res.Failures {
		if f.Soft {
			soft++
		} else {
			hard++
		}
	}
	if hard > 0 || soft == 0 {
		return res
	}
	for attempt := 2; attempt <= 3; attempt++ {
		again := RunL5(c)
		for _, f := range again.Failures {
			for _, g := range res.Failures {
				if f.Key == g.Key || !f.Soft {
					again.Attempts = attempt
					return again // seen twice (or something hard now)
				}
			}
		}
	}
	res.Failures = nil
	res.Counts["suspected-hang-not-reproduced"]++
	res.Attempts = 3
	return res
}

// ---- child side ------------------------------------------------------------------------------------------------

func l5stacks() string {
	buf := make([]byte, 1<<20)
	buf = buf[:runtime.Stack(buf, true)]
	// keep the goroutines that stand in the library
	var keep []string
	for _, g := range strings.Split(string(buf), "\n\n") {
		if strings.Contains(g, "fatchoy/qnet.") {
			lines := strings.Split(g, "\n")
			if len(lines) > 13 {
				lines = lines[:13]
			}
			keep = append(keep, strings.Join(lines, "\n"))
		}
		if len(keep) >= 12 {
			break
		}
	}
	out := strings.Join(keep, "\n\n")
	if len(out) > 6000 {
		out = out[:6000] + " ..."
	}
	return out
}

// l5wait: false when done is still open after 3 s + 2 s (dump taken after the first 3 s).
func l5wait(done <-chan struct{}, dump *string) bool {
	select {
	case <-done:
		return true
	case <-time.After(3 * time.Second):
	}
	if dump != nil && *dump == "" {
		*dump = l5stacks()
	}
	select {
	case <-done:
		return true
	case <-time.After(2 * time.Second):
		return false
	}
}

func l5pair(transport string) (local, peer net.Conn, err error) {
	if transport == "pipe" {
		a, b := net.Pipe()
		return a, b, nil
	}
	return sockPair("tcp")
}

func (res *L5Result) fail(c L5Case, soft bool, key, format string, a ...interface{}) {
	res.Failures = append(res.Failures, L5Failure{Key: key, What: fmt.Sprintf(format, a...), Soft: soft, Case: c})
}

func l5goDone(f func()) chan struct{} {
	d := make(chan struct{})
	go func() { defer close(d); f() }()
	return d
}

// l5after: the checks every leg makes once the connection was closed: a further Close returns, a send is refused,
// the connection is not running, exactly one terminal error was offered.
func l5after(c L5Case, res *L5Result, t *qnet.TcpConn, errch chan error, ctx string) bool {
	var dump string
	var pan string
	if !l5wait(l5goDone(func() { pan = hxlib.Guard(func() { t.Close() }) }), &dump) {
		c.Dump = dump
		res.fail(c, true, "hang:close-does-not-return", "%s: a further Close on the closed connection did not return within 5 s", ctx)
		return false
	}
	if pan != "" {
		res.fail(c, false, panicKey(pan), "%s: a further Close panicked: %s", ctx, pan)
		return false
	}
	var serr error
	if pan := hxlib.Guard(func() { serr = t.SendPacket(mkPacket(77, 8)) }); pan != "" {
		res.fail(c, false, panicKey(pan), "%s: SendPacket after the close panicked: %s", ctx, pan)
		return false
	} else if serr != qnet.ErrConnIsClosing {
		res.fail(c, false, "send-after-close:"+sendRes(serr, ""), "%s: SendPacket after the close returned answered %q instead of ErrConnIsClosing", ctx, sendRes(serr, ""))
		return false
	}
	if t.IsRunning() {
		res.fail(c, false, "running-after-close", "%s: IsRunning() is true after the close returned", ctx)
		return false
	}
	n := 0
	for more := true; more; {
		select {
		case <-errch:
			n++
		default:
			more = false
		}
	}
	if n > 1 {
		res.fail(c, false, "errors:more-than-one", "%s: %d terminal errors were delivered on the error channel", ctx, n)
		return false
	}
	if n == 0 {
		res.fail(c, false, "errors:none", "%s: no terminal error was offered although the error channel had room", ctx)
		return false
	}
	return true
}

func l5delay(R *hxlib.Rand) {
	switch R.Intn(6) {
	case 0:
	case 1:
		for k := R.Intn(4); k >= 0; k-- {
			runtime.Gosched()
		}
	case 2:
		for k := R.Intn(3000); k >= 0; k-- {
			_ = k
		}
	case 3:
		time.Sleep(time.Duration(R.Intn(30)) * time.Microsecond)
	default:
		time.Sleep(time.Duration(R.Intn(200)) * time.Microsecond)
	}
}

// ---- hammer ------------------------------------------------------------------------------------------------

func l5Hammer(c L5Case, res *L5Result) {
	R := hxlib.NewRand(c.Seed ^ 0x4A33E5)
	for trial := 0; trial < c.Trials; trial++ {
		res.Trials++
		if !l5HammerTrial(R, c, trial, res) {
			return
		}
	}
}

func l5HammerTrial(R *hxlib.Rand, c L5Case, trial int, res *L5Result) bool {
	tr := c.Transport
	if tr == "" {
		tr = pickStr(R, "pipe", "tcp")
	}
	how := c.How
	if how == "" {
		how = pickStr(R, "close", "force", "close", "force", "peer-close", "garbage")
	}
	k := c.K
	if k == 0 {
		k = R.Range(2, 8)
	}
	flag, fl := fatchoy.EndpointReadWriter, "rw"
	if tr == "pipe" && (how == "force" || (how == "close" && R.Bool())) {
		// (a ForceClose from outside cannot wake the reader of a connection that is not a *net.TCPConn: writer only)
		flag, fl = fatchoy.EndpointWriter, "w"
	}
	base := settle(0, 0)
	local, peer, err := l5pair(tr)
	if err != nil {
		res.Counts["l5:no-socket"]++
		return true
	}
	defer local.Close()
	defer peer.Close()
	enc := newCodec(R.Pick(1, 2))
	errch := make(chan error, 4)
	inbound := make(chan fatchoy.IPacket, 16)
	qcap := R.Pick(1, 4, 64, 1024)
	t := qnet.NewTcpConn(fatchoy.NodeID(0x50001), local, enc, errch, inbound, qcap, nil)
	ctx := fmt.Sprintf("trial %d: %d senders spinning SendPacket on a fresh connection over %s (Go(%s), outbound capacity %d) while %s lands", trial, k, tr, fl, qcap, how)
	peerEnd := l5goDone(func() { io.Copy(io.Discard, peer) })
	if pan := hxlib.Guard(func() { t.Go(flag) }); pan != "" {
		res.fail(c, false, panicKey(pan), "%s: Go: %s", ctx, pan)
		return false
	}
	start := make(chan struct{})
	var stop, lateOK, accepted int32
	var sw sync.WaitGroup
	var pmu sync.Mutex
	var pans []string
	for i := 0; i < k; i++ {
		sw.Add(1)
		go func(i int) {
			defer sw.Done()
			pkt := mkPacket(100+i, 8)
			<-start
			pan := hxlib.Guard(func() {
				for atomic.LoadInt32(&stop) == 0 {
					err := t.SendPacket(pkt)
					if err == qnet.ErrConnIsClosing {
						break
					}
					if err == nil {
						atomic.AddInt32(&accepted, 1)
					}
				}
				if atomic.LoadInt32(&stop) == 0 {
					if err := t.SendPacket(pkt); err != qnet.ErrConnIsClosing {
						atomic.AddInt32(&lateOK, 1)
					}
				}
			})
			if pan != "" {
				pmu.Lock()
				pans = append(pans, pan)
				pmu.Unlock()
			}
		}(i)
	}
	dr := R.Fork()
	var tpan string
	term := l5goDone(func() {
		<-start
		l5delay(dr)
		tpan = hxlib.Guard(func() {
			switch how {
			case "close":
				t.Close()
			case "force":
				t.ForceClose(errTest)
			case "peer-close":
				peer.Close()
			case "garbage":
				peer.SetWriteDeadline(time.Now().Add(3 * time.Second))
				peer.Write(bytes.Repeat([]byte{0xFF}, 32))
			}
		})
	})
	close(start)
	var dump string
	if !l5wait(term, &dump) {
		atomic.StoreInt32(&stop, 1)
		c.Dump = dump
		res.fail(c, true, "hang:close-does-not-return", "%s: the call did not return within 5 s", ctx)
		return false
	}
	if tpan != "" {
		res.fail(c, false, panicKey(tpan), "%s: %s panicked: %s", ctx, how, tpan)
		return false
	}
	if !l5wait(l5goDone(sw.Wait), &dump) {
		atomic.StoreInt32(&stop, 1)
		c.Dump = dump
		res.fail(c, true, "hang:send-does-not-return", "%s: %s happened, but 5 s later a SendPacket call had still not returned / the connection was still accepting", ctx, how)
		return false
	}
	if len(pans) > 0 {
		res.fail(c, false, panicKey(pans[0]), "%s: SendPacket panicked: %s", ctx, pans[0])
		return false
	}
	if lateOK > 0 {
		res.fail(c, false, "send-after-close:ok", "%s: %d sender(s) were refused with ErrConnIsClosing and their NEXT SendPacket was not", ctx, lateOK)
		return false
	}
	if how != "peer-close" && !l5wait(peerEnd, &dump) {
		c.Dump = dump
		res.fail(c, true, "hang:peer-sees-no-end-of-stream", "%s: every call returned, but 5 s later the peer had not seen the stream end", ctx)
		return false
	}
	// the pumps exit (the harness still holds both descriptors)
	if n := settle(base, 0); n > base {
		d := make(chan struct{})
		go func() {
			for settle(base+1, 100*time.Millisecond) > base+1 { // (+1: this goroutine)
			}
			close(d)
		}()
		if !l5wait(d, &dump) {
			c.Dump = dump
			res.fail(c, true, "leak:goroutines", "%s: 5 s after every call returned %d goroutine(s) above the baseline are left: a pump did not exit", ctx, settle(0, 0)-base-1)
			return false
		}
	}
	if !l5after(c, res, t, errch, ctx) {
		return false
	}
	res.Counts["hammer:"+tr+":"+how]++
	res.Counts["hammer:accepted-sends"] += int(accepted)
	return true
}

// ---- close-stream ------------------------------------------------------------------------------------------

func l5CloseStream(c L5Case, res *L5Result) {
	R := hxlib.NewRand(c.Seed ^ 0xC105E57)
	for trial := 0; trial < c.Trials; trial++ {
		res.Trials++
		if !l5CloseStreamTrial(R, c, trial, res) {
			return
		}
	}
}

func l5CloseStreamTrial(R *hxlib.Rand, c L5Case, trial int, res *L5Result) bool {
	tr := c.Transport
	if tr == "" {
		tr = pickStr(R, "pipe", "tcp", "tcp")
	}
	local, peer, err := l5pair(tr)
	if err != nil {
		res.Counts["l5:no-socket"]++
		return true
	}
	defer local.Close()
	defer peer.Close()
	codecV := R.Pick(1, 2)
	enc := newCodec(codecV)
	m := R.Range(1, 40)
	hi := R.Pick(0, 8, 64, 64, 600)
	var raws [][]byte
	for k := 0; k < m; k++ {
		_, raw := wireSize(enc, nil, peerIDBase+k, R.Range(0, hi))
		raws = append(raws, raw)
	}
	errch := make(chan error, 4)
	inbound := make(chan fatchoy.IPacket, m+4)
	t := qnet.NewTcpConn(fatchoy.NodeID(0x50002), local, enc, errch, inbound, 8, nil)
	st := t.Stats()
	mode := pickStr(R, "counter", "counter", "random")
	target := int64(m - R.Pick(0, 0, 0, 1, 2))
	if target < 0 {
		target = 0
	}
	ctx := fmt.Sprintf("trial %d: the peer streams %d frames (bodies 0..%d bytes, codec v%d) over %s and then goes quiet; graceful Close %s", trial, m, hi, codecV, tr,
		map[string]string{"counter": fmt.Sprintf("right behind the delivery of frame %d", target), "random": "at a random instant"}[mode])
	peerEnd := l5goDone(func() { io.Copy(io.Discard, peer) })
	if pan := hxlib.Guard(func() { t.Go(fatchoy.EndpointReadWriter) }); pan != "" {
		res.fail(c, false, panicKey(pan), "%s: Go: %s", ctx, pan)
		return false
	}
	gr := R.Fork()
	gap := R.Intn(4)
	go func() { // the peer's writer: no FIN, it just stops
		for _, raw := range raws {
			peer.SetWriteDeadline(time.Now().Add(10 * time.Second))
			if _, err := peer.Write(raw); err != nil {
				return
			}
			switch gap {
			case 1:
				runtime.Gosched()
			case 2:
				time.Sleep(time.Duration(gr.Intn(30)) * time.Microsecond)
			case 3:
				l5delay(gr)
			}
		}
	}()
	dr := R.Fork()
	var pan string
	cl := l5goDone(func() {
		if mode == "counter" {
			end := time.Now().Add(2 * time.Second)
			for n := 0; st.Get(qnet.StatPacketsRecv) < target; n++ {
				if n&1023 == 1023 && time.Now().After(end) {
					break
				}
			}
			for k := dr.Intn(400); k >= 0; k-- {
				_ = k
			}
		} else {
			l5delay(dr)
		}
		pan = hxlib.Guard(func() { t.Close() })
	})
	var dump string
	if !l5wait(cl, &dump) {
		c.Dump = dump
		res.fail(c, true, "hang:close-does-not-return", "%s: Close did not return within 5 s (%d frames had been received; the read timeout is %d s)", ctx, st.Get(qnet.StatPacketsRecv), qnet.TConnReadTimeout)
		return false
	}
	if pan != "" {
		res.fail(c, false, panicKey(pan), "%s: Close panicked: %s", ctx, pan)
		return false
	}
	if !l5wait(peerEnd, &dump) {
		c.Dump = dump
		res.fail(c, true, "hang:peer-sees-no-end-of-stream", "%s: Close returned, but 5 s later the peer had not seen the stream end", ctx)
		return false
	}
	if !l5after(c, res, t, errch, ctx) {
		return false
	}
	res.Counts["close-stream:"+tr+":"+mode]++
	return true
}

// ---- close-gated -------------------------------------------------------------------------------------------

type gateConn struct {
	net.Conn
	mu        sync.Mutex
	armN      int
	gate      string
	gateN     int
	closer    string
	gated     bool
	readerAt  chan struct{} // the reader stands at its gate
	readerGo  chan struct{}
	inRead    chan struct{} // the reader entered a Read after it had been released
	inReadOne sync.Once
	closerAt  chan struct{} // the closer stands at its hold point
	closerGo  chan struct{}
	closerOne sync.Once
	woke      chan struct{} // the closer's wake-up deadline has been applied
	wokeOne   sync.Once
}

func (g *gateConn) hold() {
	close(g.readerAt)
	<-g.readerGo
}

func (g *gateConn) SetReadDeadline(t time.Time) error {
	if t.After(time.Now().Add(time.Second)) { // the reader arms its own deadline (TConnReadTimeout seconds ahead)
		g.mu.Lock()
		g.armN++
		here := g.armN == g.gateN && !g.gated && (g.gate == "arm-entry" || g.gate == "arm-exit")
		if here {
			g.gated = true
		}
		g.mu.Unlock()
		if here && g.gate == "arm-entry" {
			g.hold()
		}
		err := g.Conn.SetReadDeadline(t)
		if here && g.gate == "arm-exit" {
			g.hold()
		}
		return err
	}
	// the closer's wake-up
	first := false
	g.closerOne.Do(func() { first = true })
	if first && g.closer == "wake-entry" {
		close(g.closerAt)
		<-g.closerGo
	}
	err := g.Conn.SetReadDeadline(t)
	g.wokeOne.Do(func() { close(g.woke) })
	if first && g.closer == "wake-exit" {
		close(g.closerAt)
		<-g.closerGo
	}
	return err
}

func (g *gateConn) Read(p []byte) (int, error) {
	g.mu.Lock()
	here := g.gate == "read-entry" && g.armN == g.gateN && !g.gated
	if here {
		g.gated = true
	}
	after := g.gated && !here
	g.mu.Unlock()
	if here {
		g.hold()
	} else if after {
		select {
		case <-g.readerGo:
			g.inReadOne.Do(func() { close(g.inRead) })
		default:
		}
	}
	return g.Conn.Read(p)
}

func l5Gated(c L5Case, res *L5Result) {
	var cases []L5Case
	if c.Gate != "" {
		cases = []L5Case{c}
	} else {
		for _, tr := range []string{"pipe", "tcp"} {
			for _, gate := range []string{"arm-entry", "arm-exit", "read-entry"} {
				for n := 1; n <= 3; n++ {
					for _, cl := range []string{"wake-entry", "wake-exit", "free"} {
						x := c
						x.Transport, x.Gate, x.GateN, x.Closer = tr, gate, n, cl
						cases = append(cases, x)
					}
				}
			}
		}
	}
	var mu sync.Mutex
	var wg sync.WaitGroup
	for _, x := range cases {
		wg.Add(1)
		go func(x L5Case) {
			defer wg.Done()
			var local L5Result
			local.Counts = map[string]int{}
			l5GatedOne(x, &local)
			mu.Lock()
			res.Trials++
			res.Failures = append(res.Failures, local.Failures...)
			for k, v := range local.Counts {
				res.Counts[k] += v
			}
			mu.Unlock()
		}(x)
	}
	wg.Wait()
}

func l5GatedOne(c L5Case, res *L5Result) {
	inner, peer, err := l5pair(c.Transport)
	if err != nil {
		res.Counts["l5:no-socket"]++
		return
	}
	defer inner.Close()
	defer peer.Close()
	g := &gateConn{Conn: inner, gate: c.Gate, gateN: c.GateN, closer: c.Closer, readerAt: make(chan struct{}), readerGo: make(chan struct{}),
		inRead: make(chan struct{}), closerAt: make(chan struct{}), closerGo: make(chan struct{}), woke: make(chan struct{})}
	enc := newCodec(1 + int(c.Seed+uint64(c.GateN))%2)
	errch := make(chan error, 4)
	inbound := make(chan fatchoy.IPacket, 16)
	t := qnet.NewTcpConn(fatchoy.NodeID(0x50003), g, enc, errch, inbound, 8, nil)
	ctx := fmt.Sprintf("forced schedule over %s: the reader, having delivered %d packet(s), is held at %s of its next read-deadline arm; a graceful Close begins; the closer %s; then both run on and the peer stays quiet",
		c.Transport, c.GateN-1, c.Gate, map[string]string{"wake-entry": "is held before its wake-up SetReadDeadline until the reader is back in Read (or gone)",
			"wake-exit": "is held right after its wake-up SetReadDeadline until the reader is back in Read (or gone)", "free": "runs free; the reader is released once the wake-up was applied"}[c.Closer])
	peerEnd := l5goDone(func() { io.Copy(io.Discard, peer) })
	if pan := hxlib.Guard(func() { t.Go(fatchoy.EndpointReadWriter) }); pan != "" {
		res.fail(c, false, panicKey(pan), "%s: Go: %s", ctx, pan)
		return
	}
	go func() {
		for k := 0; k < c.GateN-1; k++ {
			_, raw := wireSize(enc, nil, peerIDBase+k, 8)
			peer.SetWriteDeadline(time.Now().Add(10 * time.Second))
			if _, err := peer.Write(raw); err != nil {
				return
			}
		}
	}()
	select {
	case <-g.readerAt:
	case <-time.After(5 * time.Second):
		res.Counts["close-gated:gate-not-reached"]++ // (steering failed: not a case)
		close(g.readerGo)
		close(g.closerGo)
		t.ForceClose(errTest)
		return
	}
	var pan string
	cl := l5goDone(func() { pan = hxlib.Guard(func() { t.Close() }) })
	if c.Closer == "free" {
		select {
		case <-g.woke:
			time.Sleep(300 * time.Microsecond)
		case <-cl:
		case <-time.After(2 * time.Second):
		}
		close(g.readerGo)
		close(g.closerGo)
	} else {
		select {
		case <-g.closerAt:
		case <-cl:
		case <-time.After(2 * time.Second):
		}
		close(g.readerGo)
		select { // the reader is back in Read, or it has seen done and is gone (then nothing tells: a short wait)
		case <-g.inRead:
			time.Sleep(200 * time.Microsecond)
		case <-time.After(60 * time.Millisecond):
		}
		close(g.closerGo)
	}
	var dump string
	if !l5wait(cl, &dump) {
		c.Dump = dump
		res.fail(c, true, "hang:close-does-not-return", "%s: Close did not return within 5 s (the read timeout is %d s)", ctx, qnet.TConnReadTimeout)
		return
	}
	if pan != "" {
		res.fail(c, false, panicKey(pan), "%s: Close panicked: %s", ctx, pan)
		return
	}
	if !l5wait(peerEnd, &dump) {
		c.Dump = dump
		res.fail(c, true, "hang:peer-sees-no-end-of-stream", "%s: Close returned, but 5 s later the peer had not seen the stream end", ctx)
		return
	}
	if !l5after(c, res, t, errch, ctx) {
		return
	}
	res.Counts["close-gated:"+c.Gate+":"+c.Closer]++
}

// ---- startup -----------------------------------------------------------------------------------------------

func l5Startup(c L5Case, res *L5Result) {
	R := hxlib.NewRand(c.Seed ^ 0x57A27)
	for trial := 0; trial < c.Trials; trial++ {
		res.Trials++
		if !l5StartupTrial(R, c, trial, res) {
			return
		}
	}
	// a pump that starts late must still find a connection it can leave: give every goroutine a turn before the child exits
	for k := 0; k < 50; k++ {
		runtime.Gosched()
		time.Sleep(100 * time.Microsecond)
	}
}

func l5StartupTrial(R *hxlib.Rand, c L5Case, trial int, res *L5Result) bool {
	tr := c.Transport
	if tr == "" {
		tr = pickStr(R, "pipe", "tcp")
	}
	base := settle(0, 0)
	local, peer, err := l5pair(tr)
	if err != nil {
		res.Counts["l5:no-socket"]++
		return true
	}
	defer local.Close()
	defer peer.Close()
	codecV := R.Pick(1, 2)
	enc := newCodec(codecV)
	qcap := R.Pick(1, 2, 8, 64)
	n := R.Pick(0, 1, 1, 2, 5, qcap)
	if n > qcap {
		n = qcap
	}
	flag := fatchoy.EndpointReadWriter
	switch c.Flag {
	case "r":
		flag, n = fatchoy.EndpointReader, 0 // (nobody writes what a reader-only endpoint accepts: nothing is sent)
	case "w":
		flag = fatchoy.EndpointWriter
	}
	yields := R.Pick(0, 0, 0, 1) // (1: one Gosched between Go and the sends — the pumps may have started)
	ctx := fmt.Sprintf("trial %d (GOMAXPROCS %d): Go(%s), %d x SendPacket, Close back to back on one goroutine, fresh connection over %s, codec v%d, outbound capacity %d", trial, runtime.GOMAXPROCS(0), c.Flag, n, tr, codecV, qcap)
	type peerRes struct {
		ids []int
		eof bool
		err string
	}
	pch := make(chan peerRes, 1)
	go func() {
		var pr peerRes
		for {
			peer.SetReadDeadline(time.Now().Add(20 * time.Second))
			pkt := packet.Make()
			err := enc.ReadPacket(peer, nil, pkt)
			if err == io.EOF {
				pr.eof = true
				break
			}
			if err != nil {
				pr.err = err.Error()
				break
			}
			pr.ids = append(pr.ids, int(pkt.Command()))
		}
		pch <- pr
	}()
	for k := 0; k < 3; k++ { // the peer's reader is parked in its Read before anything begins
		runtime.Gosched()
	}
	time.Sleep(200 * time.Microsecond)
	errch := make(chan error, 4)
	inbound := make(chan fatchoy.IPacket, 16)
	t := qnet.NewTcpConn(fatchoy.NodeID(0x50004), local, enc, errch, inbound, qcap, nil)
	st := t.Stats()
	pkts := make([]*packet.Packet, n)
	for i := range pkts {
		pkts[i] = mkPacket(200+i, 8+i)
	}
	var pan string
	var refused, sentAtRet int64
	seq := l5goDone(func() {
		pan = hxlib.Guard(func() {
			t.Go(flag)
			for k := 0; k < yields; k++ {
				runtime.Gosched()
			}
			for _, p := range pkts {
				if err := t.SendPacket(p); err != nil {
					refused++
				}
			}
			t.Close()
			sentAtRet = st.Get(qnet.StatPacketsSent)
		})
	})
	var dump string
	if !l5wait(seq, &dump) {
		c.Dump = dump
		res.fail(c, true, "hang:close-does-not-return", "%s: the sequence did not return within 5 s", ctx)
		return false
	}
	if pan != "" {
		res.fail(c, false, panicKey(pan), "%s: panicked: %s", ctx, pan)
		return false
	}
	if refused > 0 {
		res.Counts["startup:harness-send-refused"]++ // (cannot happen: n <= capacity and nothing reads the queue faster than it fills)
		return true
	}
	if sentAtRet < int64(n) {
		res.startupObs(c.Flag, n, qcap, sentAtRet, -1)
		res.fail(c, false, "close:returned-before-flush", "%s: Close returned with %d packets written, but %d had been accepted before it was called", ctx, sentAtRet, n)
		return false
	}
	var pr peerRes
	got := make(chan struct{})
	go func() { pr = <-pch; close(got) }()
	if !l5wait(got, &dump) {
		c.Dump = dump
		res.fail(c, true, "hang:peer-sees-no-end-of-stream", "%s: Close returned, but 5 s later the peer had not seen the stream end", ctx)
		return false
	}
	if pr.eof {
		res.startupObs(c.Flag, n, qcap, sentAtRet, len(pr.ids))
	}
	if !pr.eof {
		res.fail(c, false, "delivery:lost-at-close", "%s: the peer's stream broke off with %q after %d of %d accepted packets", ctx, pr.err, len(pr.ids), n)
		return false
	}
	if len(pr.ids) != n {
		res.fail(c, false, "delivery:lost-at-close", "%s: %d accepted packet(s) never reached the peer, which read to end-of-stream: accepted %d, received %d", ctx, n-len(pr.ids), n, len(pr.ids))
		return false
	}
	for i, id := range pr.ids {
		if id != 200+i {
			res.fail(c, false, "delivery:order", "%s: frame %d at the peer is packet %d, accepted in position %d was packet %d", ctx, i, id, i, 200+i)
			return false
		}
	}
	// the pumps are gone (and none of them crashed on the way out)
	if settle(base, 0) > base {
		d := make(chan struct{})
		go func() {
			for settle(base+1, 100*time.Millisecond) > base+1 {
			}
			close(d)
		}()
		if !l5wait(d, &dump) {
			c.Dump = dump
			res.fail(c, true, "leak:goroutines", "%s: 5 s after Close returned %d goroutine(s) above the baseline are left", ctx, settle(0, 0)-base-1)
			return false
		}
	}
	if !l5after(c, res, t, errch, ctx) {
		return false
	}
	res.Counts[fmt.Sprintf("startup:%s:%s:procs=%d", c.Flag, tr, runtime.GOMAXPROCS(0))]++
	if yields == 0 {
		res.Counts["startup:close-before-any-pump-statement(procs=1)"] += map[bool]int{true: 1}[runtime.GOMAXPROCS(0) == 1]
	}
	return true
}

// ---- descriptor lifetime vs unread inbound data (a Scenario; run isolated) ---------------------------------------

// GenUnreadTail: the late-peer leg (shared.go) never reached a torn-down descriptor because its backlog fits into the
// socket buffers (everything has been transmitted when `finally` runs) and the peer has written all its frames before
// the close begins. Here: 300..700 incompressible 32 KiB packets (10..22 MiB, far beyond both socket buffers) are
// accepted while the peer reads nothing; the graceful Close begins; 60..200 ms LATER — the reader pump is gone, the
// writer is blocked in its flush — the peer writes 1..3 frames nobody will read; 150..350 ms after the start it begins to read,
// slowly (0.2..1 ms per frame), to the end. Whatever this side does with its descriptor once the flush returned (the last
// megabytes are then still in the kernel's send queue), the peer must read every accepted packet and then a clean
// end-of-stream; a reset destroys the tail (keys delivery:lost-at-close:peer-still-writing).
func GenUnreadTail(r *hxlib.Rand) Scenario {
	s := Scenario{Name: "unread-tail", Codec: r.Pick(1, 2), Cap: 1024, ICap: 8, ECap: 2, Inb: "prompt", Err: "prompt", Jitter: r.U64(), Iso: true}
	n := r.Range(300, 700)
	z := make([]int, n)
	for i := range z {
		z[i] = -32768
	}
	s.Senders = []Sender{{Sizes: z, When: "start", Retry: 200, Burst: true}}
	s.Closers = []Closer{{Graceful: true, When: "senders"}}
	hold := r.Range(150, 350)
	s.Peer = Peer{Read: "slow", Hold: hold, Frames: sizesOf(r, r.Range(1, 3), 4, 40), WriteWhen: "ccall", Pace: r.Range(60000, hold*1000*2/3)}
	return s
}
