// hx_c04: correspondence harness + oracle for C04 (connection and listener shutdown is safe under
// every interleaving).  Real qnet.TcpConn / qnet.TcpServer over loopback TCP; concurrent senders,
// graceful and forced closers, peer FIN / RST / garbage, full or drained inbound and error channels,
// and forced schedules through the H2 schedule points.  Every connection run is linearised into a
// trace the Lean LTS must explain; the independent oracle (hxconn.CheckC04) evaluates the property.
package main

import (
	"fmt"
	"io"
	"log"
	"sort"
	"os"
	"time"

	"verifharness/hxconn"
	"verifharness/hxlib"

	"qchen.fun/fatchoy/qnet"
)

type sc = hxconn.Scenario

func sizes(r *hxlib.Rand, n, lo, hi int) []int {
	out := make([]int, n)
	for i := range out {
		out[i] = r.Range(lo, hi)
	}
	return out
}

func pickS(r *hxlib.Rand, vs ...string) string { return vs[r.Intn(len(vs))] }

// mix: a random overlap of senders, closers of both kinds and peer faults.
func genMix(r *hxlib.Rand) sc {
	s := sc{Name: "mix", Codec: r.Pick(1, 2), Cipher: r.Chance(1, 6), Cap: r.Pick(1, 2, 4, 16), ICap: r.Pick(1, 2, 8), ECap: r.Pick(0, 1, 1, 2, 4),
		Jitter: r.U64()}
	if r.Chance(1, 4) {
		s.EPrefill = s.ECap // full error channel
	} else if s.ECap > 1 && r.Chance(1, 4) {
		s.EPrefill = s.ECap - 1
	}
	s.Err = pickS(r, "prompt", "never", "never")
	for i, n := 0, r.Range(0, 3); i < n; i++ {
		s.Senders = append(s.Senders, hxconn.Sender{Sizes: sizes(r, r.Range(1, 5), 0, 40), When: pickS(r, "start", "start", "ccall", "cret"), Retry: r.Pick(0, 0, 2)})
	}
	for j, n := 0, r.Range(1, 4); j < n; j++ {
		s.Closers = append(s.Closers, hxconn.Closer{Graceful: r.Chance(1, 2), When: pickS(r, "start", "start", "senders", "pwrote", "ccall", "cret")})
	}
	// somebody must be able to start: a closer that waits for ccall/cret needs another one that does not
	s.Closers[0].When = pickS(r, "start", "senders", "pwrote")
	s.Peer = hxconn.Peer{Read: pickS(r, "prompt", "prompt", "slow", "ccall", "never"), Frames: sizes(r, r.Range(0, 5), 0, 40),
		Tail: pickS(r, "", "", "fin", "rst", "garbage", "badcrc"), WriteWhen: pickS(r, "start", "start", "senders", "ccall")}
	if s.Closers[0].When == "pwrote" && (s.Peer.WriteWhen == "ccall" || s.Peer.WriteWhen == "cret") {
		s.Peer.WriteWhen = "start" // no circular wait between the first closer and the peer's writer
	}
	s.Inb = pickS(r, "prompt", "prompt", "never", "ccall") // undrained and too small: the reader gets stuck on it (on purpose)
	s.Late = r.Intn(3)
	return s
}

// stuck reader: the inbound queue is full and nobody drains it; Close must still return.
func genStuckReader(r *hxlib.Rand) sc {
	icap := r.Pick(1, 2, 4)
	s := sc{Name: "stuck-reader", Codec: r.Pick(1, 2), Cap: 4, ICap: icap, ECap: 2, Inb: pickS(r, "never", "cret"), Err: "never", Jitter: r.U64()}
	s.Peer = hxconn.Peer{Read: "prompt", Frames: sizes(r, icap+r.Range(1, 4), 0, 24), WriteWhen: "start"}
	s.Senders = []hxconn.Sender{{Sizes: sizes(r, r.Range(0, 3), 0, 24), When: "start"}}
	s.Closers = []hxconn.Closer{{Graceful: r.Chance(3, 4), When: "rfull"}}
	if r.Chance(1, 3) {
		s.Closers = append(s.Closers, hxconn.Closer{Graceful: true, When: "ccall"})
	}
	s.Late = 1
	return s
}

// forced schedules through the H2 schedule points.
func genForced(r *hxlib.Rand) sc {
	s := sc{Name: "forced", Codec: r.Pick(1, 2), Cap: r.Pick(1, 2, 4), ICap: 4, ECap: 2, Inb: "prompt", Err: pickS(r, "prompt", "never"), Jitter: r.U64()}
	s.Peer.Read = "prompt"
	if r.Chance(2, 3) {
		s.Forced = "park-send"
		n := r.Range(1, 3)
		if n > s.Cap {
			n = s.Cap
		}
		s.Senders = []hxconn.Sender{{Sizes: sizes(r, n, 0, 32), When: "start"}}
		s.Closers = []hxconn.Closer{{Graceful: r.Chance(1, 2)}}
		if r.Chance(1, 3) {
			s.Closers = append(s.Closers, hxconn.Closer{Graceful: r.Chance(1, 2)})
		}
	} else {
		s.Forced = "park-finally"
		s.Senders = []hxconn.Sender{{Sizes: sizes(r, r.Range(0, 3), 0, 32), When: "start"}, {Sizes: sizes(r, r.Range(1, 3), 0, 32), When: "ccall"}}
		s.Closers = []hxconn.Closer{{Graceful: true}, {Graceful: r.Chance(1, 2)}}
	}
	s.Late = 1
	return s
}

func overlap(s sc, o *hxconn.Outcome) int {
	n := 0
	// senders whose calls overlap a close call in time
	for _, c := range o.Closes {
		for _, x := range o.Sends {
			if c.RetAt >= 0 && x.CallAt < c.RetAt && x.RetAt > c.CallAt {
				n++
				goto next
			}
		}
	next:
	}
	kinds := 0
	if n > 0 {
		kinds++ // sender x closer
	}
	g, f := 0, 0
	for _, c := range o.Closes {
		for _, d := range o.Closes {
			if c.Closer < d.Closer && c.RetAt >= 0 && d.CallAt < c.RetAt && d.RetAt > c.CallAt {
				if c.Graceful && d.Graceful {
					g++
				} else {
					f++
				}
			}
		}
	}
	if g > 0 {
		kinds++
	}
	if f > 0 {
		kinds++
	}
	if s.Peer.Tail != "" {
		kinds++
	}
	if s.Forced != "" {
		kinds += 2
	}
	return kinds
}

func runOne(r *hxlib.Run, s sc, mutants bool) {
	if hxconn.GiveUp() && r.Replay == "" {
		r.Count("skipped-after-confirmed-hangs")
		return
	}
	r.Case()
	t0 := time.Now()
	o, fs, attempts := hxconn.RunBelievably(s, hxconn.CheckC04)
	if d := time.Since(t0); d > 500*time.Millisecond && os.Getenv("HX_DEBUG") != "" {
		fmt.Fprintf(os.Stderr, "slow %v attempts=%d %s hangs=%v\n", d, attempts, s.Describe(), o.Hangs)
	}
	if attempts > 1 {
		r.Count("re-run-after-suspected-hang")
	}
	r.Count("family:" + s.Name + s.Forced)
	r.Count("peer-tail:" + s.Peer.Tail)
	r.Count("inbound-consumer:" + s.Inb)
	if s.ECap == s.EPrefill {
		r.Count("error-channel:full")
	}
	if k := overlap(s, o); k >= 2 {
		r.NonTrivial(s.Describe())
		r.Count("overlap>=2")
	}
	for _, x := range o.Sends {
		r.Count("send:" + x.Res)
	}
	for _, c := range o.Closes {
		if c.Graceful {
			r.Count("close:graceful")
		} else {
			r.Count("close:forced")
		}
	}
	for _, e := range o.Errs {
		r.Count("error-kind:" + e)
	}
	for _, p := range o.Parked {
		r.Count("parked:" + p)
	}
	for _, f := range fs {
		r.Fail(f.Key, f.What, s)
	}
	hxconn.Emit(r, o)
	if mutants {
		// a few negative controls per selected run (a rejected trace costs an exhaustive search)
		ms := hxconn.Mutants(r.R, s, o)
		kinds := make([]string, 0, len(ms))
		for kind := range ms {
			kinds = append(kinds, kind)
		}
		sort.Strings(kinds)
		for n := 0; n < 3 && len(kinds) > 0; n++ {
			k := r.R.Intn(len(kinds))
			hxconn.EmitMutant(r, kinds[k], ms[kinds[k]])
			kinds = append(kinds[:k], kinds[k+1:]...)
		}
	}
	r.Sample(map[string]interface{}{"scenario": s.Describe(), "sends": len(o.Sends), "closes": len(o.Closes), "errors": o.Errs, "overlap_kinds": overlap(s, o)})
}

func main() {
	if hxconn.IsL5Child() {
		hxconn.L5ChildMain()
		return
	}
	if hxconn.IsChild() {
		hxconn.ChildMain()
		return
	}
	r := hxlib.Start("C04", "one run of a real TcpConn (or TcpServer) over loopback TCP; non-trivial when at least two of {sender, graceful closer, forced closer, peer fault, forced schedule} overlapped in time; distinct by scenario shape")
	defer r.Finish()
	log.SetOutput(io.Discard)
	hxconn.Deadline = 5 * time.Second
	if r.Thorough() {
		hxconn.Deadline = 10 * time.Second
	}
	if r.Replay != "" {
		var c replayCase
		r.LoadReplay(&c)
		if c.Legs5 != nil {
			replayLegs5(r, *c.Legs5)
		} else if c.Shared != nil {
			runShared(r, *c.Shared)
		} else if c.Listener != nil {
			runListener(r, *c.Listener)
		} else {
			if c.Scenario.Peer.Tail == "stall" {
				qnet.TConnReadTimeout = 1
			}
			// (a free-running scenario is not a function of its description alone: look again before giving up)
			reps := 5
			if c.Scenario.Peer.Hold >= 5000 {
				reps = 1 // (a stall of many seconds decides by wall-clock time, not by the schedule)
			}
			for k := 0; k < reps && !r.Failed(); k++ {
				if c.Scenario.Iso {
					record(r, hxconn.RunIsolatedBelievably(c.Scenario, hxconn.CheckC04), false)
					continue
				}
				runOne(r, c.Scenario, false)
			}
		}
		return
	}
	if r.Search {
		// failing-input search: schedules the ordinary scenarios do not produce (see hxconn/shared.go): a late or slow
		// peer with the reader parked on an undrained inbound queue and a backlog at the graceful Close; a peer that
		// stalls mid-frame beyond the read timeout; many more shared / unbuffered channel cases, racing closes of
		// both kinds included
		t0 := time.Now()
		for k := 0; k < 120 && !r.Failed(); k++ {
			s := hxconn.GenLatePeer(r.R)
			if k%3 == 0 { // a forced close races the graceful one
				s.Closers = append(s.Closers, hxconn.Closer{Graceful: false, When: pickS(r.R, "ccall", "rfull")})
			}
			runOne(r, s, false)
			r.Count("search:late-peer")
		}
		old := qnet.TConnReadTimeout
		qnet.TConnReadTimeout = 1
		for k := 0; k < 4 && !r.Failed(); k++ {
			runOne(r, hxconn.GenStall(r.R), false)
			r.Count("search:stall")
		}
		qnet.TConnReadTimeout = old
		for k := 0; k < 1500 && !r.Failed(); k++ {
			runShared(r, hxconn.GenShared(r.R))
			r.Count("search:shared")
		}
		r.Note("search legs took %.1f s: late-peer 120 runs (a third with a forced close racing the graceful one), stall 4 runs (peer stalls 1.4 s mid-frame, read timeout 1 s), shared 1500 runs (unbuffered / single-free-slot / full error and inbound channels shared by 1..4 connections terminating concurrently)", time.Since(t0).Seconds())
		if r.Failed() {
			r.Note("the search legs found a failing input; the ordinary generators were not run again")
			return
		}
	}
	// the Lean counter-examples of the unfixed tree first
	fixed := []sc{
		{Name: "forced", Codec: 1, Cap: 2, ICap: 4, ECap: 2, Inb: "prompt", Err: "prompt", Forced: "park-send",
			Senders: []hxconn.Sender{{Sizes: []int{8}}}, Closers: []hxconn.Closer{{Graceful: true}}, Peer: hxconn.Peer{Read: "prompt"}, Late: 1},
		{Name: "stuck-reader", Codec: 1, Cap: 4, ICap: 1, ECap: 2, Inb: "never", Err: "never",
			Peer: hxconn.Peer{Read: "prompt", Frames: []int{8, 8, 8}, WriteWhen: "start"}, Closers: []hxconn.Closer{{Graceful: true, When: "rfull"}}, Late: 1},
	}
	for _, s := range fixed {
		runOne(r, s, true)
	}
	diversityLegs(r)
	legs5(r)
	if os.Getenv("HX_ONLY") == "diversity" { // (development aid: only the third-wave legs)
		return
	}
	for k := 0; k < r.Scale(400, 4000); k++ {
		runOne(r, genMix(r.R), k%4 == 0)
	}
	for k := 0; k < r.Scale(24, 200); k++ {
		runOne(r, genStuckReader(r.R), false)
	}
	// unbuffered / shared / nearly full error and inbound channels, connections terminating concurrently
	for _, c := range []hxconn.SharedCase{
		{Name: "unbuffered-waiting", Codec: 1, ECap: 0, EFree: 0, EWait: true, ICap: 1, How: []string{"close"}},
		{Name: "unbuffered-waiting", Codec: 1, ECap: 0, EFree: 0, EWait: true, ICap: 1, IWait: true, Frames: 2, How: []string{"fin"}},
		{Name: "shared", Codec: 1, ECap: 1, EFree: 1, ICap: 1, How: []string{"close", "close"}},
		{Name: "shared", Codec: 2, ECap: 2, EFree: 1, ICap: 0, How: []string{"force", "fin", "close"}},
	} {
		runShared(r, c)
	}
	for k := 0; k < r.Scale(80, 600); k++ {
		runShared(r, hxconn.GenShared(r.R))
	}
	for k := 0; k < r.Scale(24, 120); k++ {
		runOne(r, genForced(r.R), false)
	}
	// listener: more accepted connections than the hand-off queue holds; connections that outlive the listener
	for _, c := range []ListenerCase{
		{Before: 130, Drain: false, During: 2, ConnClose: "before", Jitter: 1},
		{Before: 3, Drain: true, During: 2, ConnClose: "before", Jitter: 2},
		{Before: 2, Drain: true, During: 0, ConnClose: "after", Jitter: 3},
		{Before: 1, Drain: true, During: 0, ConnClose: "before", Forced: "park-accepted", Jitter: 4},
		{Before: 0, Drain: false, During: 2, ConnClose: "before", Forced: "park-accepted", Jitter: 5},
	} {
		runListener(r, c)
	}
	for k := 0; k < r.Scale(10, 100); k++ {
		runListener(r, genListener(r.R))
	}
	// third-wave leg (K4): listener configurations never used above — 2..3 Listen calls on one server, V2, outbound
	// queue 0/1/8/64, Shutdown() for Close(), one packet each way through every handed-off connection, and Close on a
	// server that never listened. (A stream of its own: the cases above stay what they were.)
	RL := hxlib.NewRand(r.Seed ^ 0xC0411)
	for _, c := range []ListenerCase{
		{Before: 4, Drain: true, During: 2, ConnClose: "before", Listens: 2, Traffic: true, Jitter: 6},
		{Before: 3, Drain: true, During: 3, ConnClose: "after", Listens: 3, V2: true, Shutdown: true, Traffic: true, Jitter: 7},
		{Listens: -1, ConnClose: "before", Jitter: 8},
	} {
		runListener(r, c)
		r.Count("listener:configurations")
	}
	for k := 0; k < r.Scale(12, 120); k++ {
		runListener(r, genListenerCfg(RL))
		r.Count("listener:configurations")
	}
}

// replayCase: hx_c04 replays either a connection scenario or a listener scenario.
type replayCase struct {
	hxconn.Scenario
	Listener *ListenerCase      `json:"listener,omitempty"`
	Shared   *hxconn.SharedCase `json:"shared,omitempty"`
	Legs5    *hxconn.L5Case     `json:"legs5,omitempty"`
}

// runShared: channel capacities the single-connection scenarios do not vary (oracle only, see hxconn/shared.go).
func runShared(r *hxlib.Run, c hxconn.SharedCase) {
	if hxconn.GiveUp() && r.Replay == "" {
		r.Count("skipped-after-confirmed-hangs")
		return
	}
	r.Case()
	fs, got := hxconn.RunSharedBelievably(c)
	r.Count("family:" + c.Name)
	r.CountN("shared:connections", len(c.How))
	r.CountN("shared:terminal-errors-delivered", got)
	if c.ECap == 0 && c.EWait {
		r.Count("shared:unbuffered-error-channel-with-waiting-receiver")
	}
	if c.EFree == 1 && len(c.How) >= 2 && !c.EWait {
		r.Count("shared:one-free-slot-for-2+-connections")
	}
	if c.ICap == 0 {
		r.Count("shared:unbuffered-inbound")
	}
	if len(c.How) >= 2 {
		r.NonTrivial(c.Describe())
	}
	for _, f := range fs {
		r.Fail(f.Key, f.What, replayCase{Shared: &c})
	}
}

func init() { _ = fmt.Sprint }
