package main

// Fifth-wave legs of C04 (NORMAL tiers; implementation and leg descriptions in hxconn/legs5.go). Each leg is one
// child process (a hang leaves blocked goroutines behind; a crash of a pump is process death):
//
//	hammer        tight send/close hammer: 2..8 goroutines spin SendPacket on a fresh connection (net.Pipe, loopback
//	              TCP) while Close / ForceClose / a peer disconnect / garbage from the peer lands after 0..200 µs, a few
//	              Gosched or a short spin. quick 1200 fresh connections, thorough/search 12000 (two children).
//	close-stream  graceful Close racing inbound traffic: the peer streams 1..40 small frames with tiny random gaps and
//	              goes quiet without a FIN; Close at a random instant or (steered by the receive counter) right behind
//	              the delivery of one of the last frames. quick 500 connections, thorough/search 6000.
//	close-gated   the same window, every position, deterministically (net.Conn wrapper gating SetReadDeadline / Read):
//	              reader held at arm-entry / arm-exit / read-entry of its 1st..3rd arm, closer held before / after its
//	              wake-up or running free, pipe and TCP: 54 forced schedules, all tiers.
//
// Oracle (the property): every call returns (not returned after 3 s → goroutine dump, observed 2 s more, and the whole
// case is re-run before it is believed), sends after shutdown are refused, one terminal error, the pumps exit, the
// peer sees the stream end. Wall time: quick ≈ 2 s, thorough ≈ 15 s.

import (
	"sync"
	"time"

	"verifharness/hxconn"
	"verifharness/hxlib"
)

func recordL5(r *hxlib.Run, c hxconn.L5Case, res hxconn.L5Result) {
	r.Case()
	r.Count("family:legs5:" + c.Leg)
	r.CountN("legs5:"+c.Leg+":trials", res.Trials)
	for k, v := range res.Counts {
		r.CountN("legs5:"+k, v)
	}
	if res.Attempts > 1 {
		r.Count("re-run-after-suspected-hang")
	}
	if res.Trials > 1 {
		r.NonTrivial("legs5 " + c.Leg)
	}
	for _, f := range res.Failures {
		fc := f.Case
		r.Fail(f.Key, f.What, replayCase{Legs5: &fc})
	}
}

func legs5(r *hxlib.Run) {
	t0 := time.Now()
	seed := r.Seed ^ 0xC0455
	cases := []hxconn.L5Case{
		{Leg: "close-gated", Seed: seed},
		{Leg: "close-stream", Seed: seed, Trials: r.Scale(500, 3000)},
		{Leg: "hammer", Seed: seed, Trials: r.Scale(1200, 6000)},
	}
	if r.Thorough() {
		cases = append(cases, hxconn.L5Case{Leg: "close-stream", Seed: seed + 1, Trials: 3000}, hxconn.L5Case{Leg: "hammer", Seed: seed + 1, Trials: 6000})
	}
	out := make([]hxconn.L5Result, len(cases))
	var wg sync.WaitGroup
	sem := make(chan struct{}, 2)
	for i := range cases {
		wg.Add(1)
		sem <- struct{}{}
		go func(i int) {
			defer wg.Done()
			defer func() { <-sem }()
			out[i] = hxconn.RunL5Believably(cases[i])
		}(i)
	}
	wg.Wait()
	n := 0
	for i := range cases {
		recordL5(r, cases[i], out[i])
		n += out[i].Trials
	}
	r.Note("fifth-wave legs (legs5.go): %d fresh connections in %d child processes (send/close hammer with 2..8 spinning senders vs Close / ForceClose / peer disconnect / garbage; graceful Close racing a peer that streams frames and goes quiet; 54 gated schedules of that window) took %.1f s",
		n, len(cases), time.Since(t0).Seconds())
}

func replayLegs5(r *hxlib.Run, c hxconn.L5Case) {
	c.Dump = ""
	for k := 0; k < 3 && !r.Failed(); k++ { // (free-running legs: look again before giving up)
		recordL5(r, c, hxconn.RunL5Believably(c))
		c.Seed++
	}
}
