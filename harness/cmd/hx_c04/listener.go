package main

import (
	"bytes"
	"fmt"
	"net"
	"os"
	"runtime"
	"sync"
	"time"

	fatchoy "qchen.fun/fatchoy"
	"qchen.fun/fatchoy/codec"
	"qchen.fun/fatchoy/packet"
	"qchen.fun/fatchoy/qnet"

	"verifharness/hxconn"
	"verifharness/hxlib"
)

// ListenerCase: dials before / during / after TcpServer.Close, with a drained or undrained hand-off queue.
type ListenerCase struct {
	Before    int    `json:"before"`     // dials completed before Close is called
	Drain     bool   `json:"drain"`      // the hand-off (backlog) channel is drained while dialing
	During    int    `json:"during"`     // dialers racing Close
	ConnClose string `json:"conn_close"` // accepted connections are closed before | after the listener's Close
	Forced    string `json:"forced,omitempty"` // park-accepted: a serve loop is held right after Accept returned a connection while Close closes done (H2 point serve.accepted)
	Jitter    uint64 `json:"jitter"`
	// third-wave legs: configurations the cases above never used (zero values = what they used)
	Listens  int  `json:"listens,omitempty"`  // number of Listen calls on the one server (0 = 1; -1 = NONE: Close on a server that never listened); the dials go round the listeners
	V2       bool `json:"v2,omitempty"`       // the server's codec
	Outsize  *int `json:"outsize,omitempty"`  // outbound queue size of the accepted connections (nil = 8)
	Shutdown bool `json:"shutdown,omitempty"` // TcpServer.Shutdown() instead of Close()
	Traffic  bool `json:"traffic,omitempty"`  // (with Drain) every handed-off connection carries one packet in each direction before anything is closed
}

// genListenerCfg: several listeners on one server, either codec, outbound queue 0/1/8/64, Shutdown for Close, traffic
// through the handed-off connections, a server that never listened.
func genListenerCfg(r *hxlib.Rand) ListenerCase {
	c := genListener(r)
	c.Listens = r.Pick(1, 2, 2, 3)
	c.V2 = r.Bool()
	out := r.Pick(0, 1, 8, 64)
	c.Outsize = &out
	c.Shutdown = r.Chance(1, 3)
	c.Traffic = c.Drain && out > 0 && r.Chance(2, 3)
	if r.Chance(1, 10) {
		c = ListenerCase{Listens: -1, Shutdown: r.Bool(), ConnClose: "before", Jitter: r.U64()}
	}
	return c
}

func genListener(r *hxlib.Rand) ListenerCase {
	c := ListenerCase{Before: r.Range(0, 6), Drain: true, During: r.Range(0, 4), ConnClose: pickS(r, "before", "before", "after"), Jitter: r.U64()}
	if r.Chance(1, 6) {
		c.Before = 128 + r.Range(1, 3) // more than the hand-off queue holds
		c.Drain = false
		c.ConnClose = "before"
	} else if r.Chance(1, 5) {
		c.Forced = "park-accepted"
	}
	return c
}

var keepAlive []net.Conn

// H2 schedule point of the listener: park the serve loop of one server right after Accept returned a connection.
type srvPark struct {
	arrived chan struct{}
	release chan struct{}
	once    sync.Once
}

var (
	srvHookOnce sync.Once
	srvParks    sync.Map // *qnet.TcpServer -> *srvPark
)

func installSrvHook() {
	srvHookOnce.Do(func() {
		qnet.VerifSetServerSchedHook(func(point string, s *qnet.TcpServer) {
			if v, ok := srvParks.Load(s); ok && point == "serve.accepted" {
				p := v.(*srvPark)
				first := false
				p.once.Do(func() { first = true })
				if first {
					close(p.arrived)
					<-p.release
				}
			}
		})
	})
}

func freePort() string {
	ln, err := net.Listen("tcp", "127.0.0.1:0")
	if err != nil {
		return "127.0.0.1:0"
	}
	a := ln.Addr().String()
	ln.Close()
	return a
}

func settle(target int, d time.Duration) int {
	end := time.Now().Add(d)
	for {
		n := runtime.NumGoroutine()
		if n <= target || time.Now().After(end) {
			return n
		}
		time.Sleep(200 * time.Microsecond)
	}
}

// listenerOnce runs the case and returns (hard findings, soft findings).
func listenerOnce(c ListenerCase) (hard, soft [][2]string) {
	base := runtime.NumGoroutine()
	inbound := make(chan fatchoy.IPacket, 64)
	enc, outsize := codec.NewV1Encoder(0), 8
	if c.V2 {
		enc = codec.NewV2Encoder(0)
	}
	if c.Outsize != nil {
		outsize = *c.Outsize
	}
	srv := qnet.NewTcpServer(enc, inbound, outsize)
	addr := freePort()
	addrs := []string{addr}
	if c.Listens >= 0 {
		if err := srv.Listen(addr); err != nil {
			return nil, nil // port raced away: not a case
		}
		for k := 1; k < c.Listens; k++ {
			a := freePort()
			if err := srv.Listen(a); err != nil {
				srv.Close()
				return nil, nil
			}
			addrs = append(addrs, a)
		}
	} else {
		c.Before, c.During, c.Forced = 0, 0, ""
	}
	dialNo := 0
	backlog := srv.BacklogChan()
	var park *srvPark
	if c.Forced == "park-accepted" {
		installSrvHook()
		park = &srvPark{arrived: make(chan struct{}), release: make(chan struct{})}
		defer srvParks.Delete(srv)
	}
	var eps []fatchoy.Endpoint
	var raws []net.Conn
	poisoned := false // a connection's Close panicked: touching the other connections could crash the process
	defer func() {
		if poisoned {
			keepAlive = append(keepAlive, raws...) // leave the sockets open (and reachable): a peer disconnect would panic inside the reader goroutine
			return
		}
		for _, c := range raws {
			c.Close()
		}
	}()
	var dialMu sync.Mutex
	dial := func() (net.Conn, error) {
		dialMu.Lock()
		a := addrs[dialNo%len(addrs)]
		dialNo++
		dialMu.Unlock()
		return net.DialTimeout("tcp", a, hxconn.Deadline)
	}
	for k := 0; k < c.Before; k++ {
		conn, err := dial()
		if err != nil {
			hard = append(hard, [2]string{"listener:dial-refused-while-open", fmt.Sprintf("dial %d before Close failed: %v", k, err)})
			break
		}
		raws = append(raws, conn)
		if c.Drain {
			select {
			case ep := <-backlog:
				ep.Go(fatchoy.EndpointReadWriter)
				eps = append(eps, ep)
				if c.Traffic {
					if what := exchange(enc, ep, conn, inbound, k); what != "" {
						hard = append(hard, [2]string{"listener:handed-off-connection-does-not-carry-traffic", what})
					}
				}
			case <-time.After(hxconn.Deadline):
				soft = append(soft, [2]string{"listener:accepted-connection-not-handed-off", fmt.Sprintf("connection %d did not appear on the hand-off channel", k)})
			}
		}
	}
	closeEps := func() {
		for i, ep := range eps {
			if p := hxlib.Guard(func() { ep.Close() }); p != "" {
				hard = append(hard, [2]string{"listener:connection-close-panics-after-listener-close", fmt.Sprintf("Close of accepted connection %d after TcpServer.Close panics: %s", i, p)})
				poisoned = true
				return
			}
		}
	}
	if c.ConnClose == "before" {
		closeEps()
	}
	// dialers racing Close
	var dw sync.WaitGroup
	var dmu sync.Mutex
	for k := 0; k < c.During; k++ {
		dw.Add(1)
		go func() {
			defer dw.Done()
			for t := 0; t < 3; t++ {
				conn, err := dial()
				if err != nil {
					return
				}
				dmu.Lock()
				raws = append(raws, conn)
				dmu.Unlock()
			}
		}()
	}
	if park != nil {
		// one more client: its serve loop is held right after Accept returned the connection
		srvParks.Store(srv, park)
		conn, err := dial()
		if err != nil {
			return nil, nil
		}
		raws = append(raws, conn)
		select {
		case <-park.arrived:
		case <-time.After(hxconn.Deadline):
			close(park.release)
			return nil, [][2]string{{"listener:schedule-point-not-reached", "serve did not reach the schedule point serve.accepted"}}
		}
	}
	done := make(chan string, 1)
	go func() {
		done <- hxlib.Guard(func() {
			if c.Shutdown {
				srv.Shutdown()
			} else {
				srv.Close()
			}
		})
	}()
	if park != nil {
		time.Sleep(20 * time.Millisecond) // steering only: Close has closed done and waits for the held loop
		close(park.release)
	}
	select {
	case p := <-done:
		if p != "" {
			hard = append(hard, [2]string{"listener:close-panics", "TcpServer.Close panics: " + p})
		}
	case <-time.After(hxconn.Deadline):
		soft = append(soft, [2]string{"listener:close-does-not-return", fmt.Sprintf("TcpServer.Close did not return within %v (%d connections dialled, hand-off queue drained: %v)", hxconn.Deadline, c.Before, c.Drain)})
		return
	}
	dw.Wait()
	for i, a := range addrs {
		if c.Listens < 0 {
			break
		}
		if conn, err := net.DialTimeout("tcp", a, time.Second); err == nil {
			conn.Close()
			// soft: some other process on this machine may have been given the same port meanwhile; believed only if it repeats (new port each time)
			soft = append(soft, [2]string{"listener:accepts-after-close", fmt.Sprintf("a dial to listener %d of %d after TcpServer.Close returned was accepted", i+1, len(addrs))})
		}
	}
	// connections that were accepted while Close ran are still in the (now closed) hand-off channel: never started,
	// nothing to join; the harness closes their sockets itself
	for ep := range backlog {
		if ep != nil && ep.RawConn() != nil {
			ep.RawConn().Close()
		}
	}
	if c.ConnClose == "after" {
		closeEps()
	}
	if poisoned {
		return
	}
	// every connection a client established was handed off (and is closed by now: by its owner or by the harness),
	// or closed by the listener because it could not be handed off, or reset by the kernel with the listening socket:
	// none may be left open and forgotten
	dmu.Lock()
	all := append([]net.Conn{}, raws...)
	dmu.Unlock()
	var lw sync.WaitGroup
	var left int32
	var lmu sync.Mutex
	for _, cn := range all {
		lw.Add(1)
		go func(cn net.Conn) {
			defer lw.Done()
			cn.SetReadDeadline(time.Now().Add(hxconn.Deadline))
			var b [1]byte
			_, err := cn.Read(b[:])
			if ne, ok := err.(net.Error); ok && ne.Timeout() {
				lmu.Lock()
				left++
				lmu.Unlock()
			}
		}(cn)
	}
	lw.Wait()
	if left > 0 {
		soft = append(soft, [2]string{"listener:accepted-connection-neither-handed-off-nor-closed", fmt.Sprintf("%d of %d established connection(s) were neither handed off nor closed by the time TcpServer.Close had returned: their clients still see an open, silent connection %v later (a connection accept returned while done was being closed is dropped)", left, len(all), hxconn.Deadline)})
	}
	dmu.Lock()
	for _, cn := range raws {
		cn.Close()
	}
	dmu.Unlock()
	if n := settle(base, hxconn.Deadline); n > base {
		soft = append(soft, [2]string{"listener:goroutines-not-released", fmt.Sprintf("%d goroutine(s) above the baseline after the listener and its connections were closed", n-base)})
	}
	return
}

func runListener(r *hxlib.Run, c ListenerCase) {
	r.Case()
	r.Count("family:listener")
	var hard, soft [][2]string
	for attempt := 1; attempt <= 3; attempt++ {
		hard, soft = listenerOnce(c)
		if len(hard) > 0 || len(soft) == 0 {
			break
		}
		r.Count("re-run-after-suspected-hang")
		if os.Getenv("HX_DEBUG") != "" {
			fmt.Fprintf(os.Stderr, "listener re-run %+v soft=%v\n", c, soft)
		}
	}
	rc := map[string]interface{}{"listener": c}
	for _, f := range append(hard, soft...) {
		r.Fail(f[0], f[1], rc)
	}
	if c.During > 0 {
		r.NonTrivial(fmt.Sprintf("listener %+v", c))
	}
}

// exchange: one packet from the handed-off endpoint to its client and one frame back; the inbound packet must be
// bound to exactly that endpoint. Returns "" or what went wrong.
func exchange(enc codec.Encoder, ep fatchoy.Endpoint, client net.Conn, inbound chan fatchoy.IPacket, k int) string {
	body := hxconn.Body(7000+k, 20+k)
	if err := ep.SendPacket(packet.New(int32(7000+k), uint16(k), 0, body)); err != nil {
		return fmt.Sprintf("SendPacket on handed-off connection %d: %v", k, err)
	}
	client.SetDeadline(time.Now().Add(hxconn.Deadline))
	defer client.SetDeadline(time.Time{})
	got := packet.Make()
	if err := enc.ReadPacket(client, nil, got); err != nil {
		return fmt.Sprintf("the client of handed-off connection %d did not receive the packet sent to it: %v", k, err)
	}
	if got.Command() != int32(7000+k) || !bytes.Equal(got.BodyToBytes(), body) {
		return fmt.Sprintf("the client of handed-off connection %d received command %d, sent 7000+%d", k, got.Command(), k)
	}
	if _, err := enc.WritePacket(client, nil, packet.New(int32(8000+k), uint16(k), 0, hxconn.Body(8000+k, 9))); err != nil {
		return ""
	}
	select {
	case p := <-inbound:
		pp, ok := p.(*packet.Packet)
		if !ok || p.Command() != int32(8000+k) {
			return fmt.Sprintf("frame 8000+%d written by client %d arrived as command %d", k, k, p.Command())
		}
		if pp.Endpoint() != fatchoy.MessageEndpoint(ep) {
			return fmt.Sprintf("the frame client %d wrote arrived bound to another endpoint than the one handed off for it", k)
		}
	case <-time.After(hxconn.Deadline):
		return fmt.Sprintf("the frame client %d wrote did not reach the server's inbound queue within %v", k, hxconn.Deadline)
	}
	return ""
}
