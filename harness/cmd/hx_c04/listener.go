package main

import (
	"fmt"
	"net"
	"runtime"
	"sync"
	"time"

	fatchoy "qchen.fun/fatchoy"
	"qchen.fun/fatchoy/codec"
	"qchen.fun/fatchoy/qnet"

	"verifharness/hxconn"
	"verifharness/hxlib"
)

// ListenerCase: dials before / during / after TcpServer.Close, with a drained or undrained hand-off queue.
type ListenerCase struct {
	Before    int    `json:"before"`     // dials completed before Close is called
	Drain     bool   `json:"drain"`      // the hand-off (backlog) channel is drained while dialing
	During    int    `json:"during"`     // dialers racing Close
	ConnClose string `json:"conn_close"` // accepted connections are closed before | after the listener's Close
	Forced    string `json:"forced,omitempty"` // park-accepted: a serve loop is held right after Accept returned a connection while Close closes done (H2 point serve.accepted)
	Jitter    uint64 `json:"jitter"`
}

func genListener(r *hxlib.Rand) ListenerCase {
	c := ListenerCase{Before: r.Range(0, 6), Drain: true, During: r.Range(0, 4), ConnClose: pickS(r, "before", "before", "after"), Jitter: r.U64()}
	if r.Chance(1, 6) {
		c.Before = 128 + r.Range(1, 3) // more than the hand-off queue holds
		c.Drain = false
		c.ConnClose = "before"
	} else if r.Chance(1, 5) {
		c.Forced = "park-accepted"
	}
	return c
}

var keepAlive []net.Conn

// H2 schedule point of the listener: park the serve loop of one server right after Accept returned a connection.
type srvPark struct {
	arrived chan struct{}
	release chan struct{}
	once    sync.Once
}

var (
	srvHookOnce sync.Once
	srvParks    sync.Map // *qnet.TcpServer -> *srvPark
)

func installSrvHook() {
	srvHookOnce.Do(func() {
		qnet.VerifSetServerSchedHook(func(point string, s *qnet.TcpServer) {
			if v, ok := srvParks.Load(s); ok && point == "serve.accepted" {
				p := v.(*srvPark)
				first := false
				p.once.Do(func() { first = true })
				if first {
					close(p.arrived)
					<-p.release
				}
			}
		})
	})
}

func freePort() string {
	ln, err := net.Listen("tcp", "127.0.0.1:0")
	if err != nil {
		return "127.0.0.1:0"
	}
	a := ln.Addr().String()
	ln.Close()
	return a
}

func settle(target int, d time.Duration) int {
	end := time.Now().Add(d)
	for {
		n := runtime.NumGoroutine()
		if n <= target || time.Now().After(end) {
			return n
		}
		time.Sleep(200 * time.Microsecond)
	}
}

// listenerOnce runs the case and returns (hard findings, soft findings).
func listenerOnce(c ListenerCase) (hard, soft [][2]string) {
	base := runtime.NumGoroutine()
	inbound := make(chan fatchoy.IPacket, 64)
	srv := qnet.NewTcpServer(codec.NewV1Encoder(0), inbound, 8)
	addr := freePort()
	if err := srv.Listen(addr); err != nil {
		return nil, nil // port raced away: not a case
	}
	backlog := srv.BacklogChan()
	var park *srvPark
	if c.Forced == "park-accepted" {
		installSrvHook()
		park = &srvPark{arrived: make(chan struct{}), release: make(chan struct{})}
		defer srvParks.Delete(srv)
	}
	var eps []fatchoy.Endpoint
	var raws []net.Conn
	poisoned := false // a connection's Close panicked: touching the other connections could crash the process
	defer func() {
		if poisoned {
			keepAlive = append(keepAlive, raws...) // leave the sockets open (and reachable): a peer disconnect would panic inside the reader goroutine
			return
		}
		for _, c := range raws {
			c.Close()
		}
	}()
	dial := func() (net.Conn, error) { return net.DialTimeout("tcp", addr, hxconn.Deadline) }
	for k := 0; k < c.Before; k++ {
		conn, err := dial()
		if err != nil {
			hard = append(hard, [2]string{"listener:dial-refused-while-open", fmt.Sprintf("dial %d before Close failed: %v", k, err)})
			break
		}
		raws = append(raws, conn)
		if c.Drain {
			select {
			case ep := <-backlog:
				ep.Go(fatchoy.EndpointReadWriter)
				eps = append(eps, ep)
			case <-time.After(hxconn.Deadline):
				soft = append(soft, [2]string{"listener:accepted-connection-not-handed-off", fmt.Sprintf("connection %d did not appear on the hand-off channel", k)})
			}
		}
	}
	closeEps := func() {
		for i, ep := range eps {
			if p := hxlib.Guard(func() { ep.Close() }); p != "" {
				hard = append(hard, [2]string{"listener:connection-close-panics-after-listener-close", fmt.Sprintf("Close of accepted connection %d after TcpServer.Close panics: %s", i, p)})
				poisoned = true
				return
			}
		}
	}
	if c.ConnClose == "before" {
		closeEps()
	}
	// dialers racing Close
	var dw sync.WaitGroup
	var dmu sync.Mutex
	for k := 0; k < c.During; k++ {
		dw.Add(1)
		go func() {
			defer dw.Done()
			for t := 0; t < 3; t++ {
				conn, err := dial()
				if err != nil {
					return
				}
				dmu.Lock()
				raws = append(raws, conn)
				dmu.Unlock()
			}
		}()
	}
	if park != nil {
		// one more client: its serve loop is held right after Accept returned the connection
		srvParks.Store(srv, park)
		conn, err := dial()
		if err != nil {
			return nil, nil
		}
		raws = append(raws, conn)
		select {
		case <-park.arrived:
		case <-time.After(hxconn.Deadline):
			close(park.release)
			return nil, [][2]string{{"listener:schedule-point-not-reached", "serve did not reach the schedule point serve.accepted"}}
		}
	}
	done := make(chan string, 1)
	go func() { done <- hxlib.Guard(func() { srv.Close() }) }()
	if park != nil {
		time.Sleep(20 * time.Millisecond) // steering only: Close has closed done and waits for the held loop
		close(park.release)
	}
	select {
	case p := <-done:
		if p != "" {
			hard = append(hard, [2]string{"listener:close-panics", "TcpServer.Close panics: " + p})
		}
	case <-time.After(hxconn.Deadline):
		soft = append(soft, [2]string{"listener:close-does-not-return", fmt.Sprintf("TcpServer.Close did not return within %v (%d connections dialled, hand-off queue drained: %v)", hxconn.Deadline, c.Before, c.Drain)})
		return
	}
	dw.Wait()
	if conn, err := net.DialTimeout("tcp", addr, time.Second); err == nil {
		conn.Close()
		// soft: some other process on this machine may have been given the same port meanwhile; believed only if it repeats (new port each time)
		soft = append(soft, [2]string{"listener:accepts-after-close", "a dial after TcpServer.Close returned was accepted"})
	}
	// connections that were accepted while Close ran are still in the (now closed) hand-off channel: never started,
	// nothing to join; the harness closes their sockets itself
	for ep := range backlog {
		if ep != nil && ep.RawConn() != nil {
			ep.RawConn().Close()
		}
	}
	if c.ConnClose == "after" {
		closeEps()
	}
	if poisoned {
		return
	}
	// every connection a client established was handed off (and is closed by now: by its owner or by the harness),
	// or closed by the listener because it could not be handed off, or reset by the kernel with the listening socket:
	// none may be left open and forgotten
	dmu.Lock()
	all := append([]net.Conn{}, raws...)
	dmu.Unlock()
	var lw sync.WaitGroup
	var left int32
	var lmu sync.Mutex
	for _, cn := range all {
		lw.Add(1)
		go func(cn net.Conn) {
			defer lw.Done()
			cn.SetReadDeadline(time.Now().Add(hxconn.Deadline))
			var b [1]byte
			_, err := cn.Read(b[:])
			if ne, ok := err.(net.Error); ok && ne.Timeout() {
				lmu.Lock()
				left++
				lmu.Unlock()
			}
		}(cn)
	}
	lw.Wait()
	if left > 0 {
		soft = append(soft, [2]string{"listener:accepted-connection-neither-handed-off-nor-closed", fmt.Sprintf("%d of %d established connection(s) were neither handed off nor closed by the time TcpServer.Close had returned: their clients still see an open, silent connection %v later (a connection accept returned while done was being closed is dropped)", left, len(all), hxconn.Deadline)})
	}
	dmu.Lock()
	for _, cn := range raws {
		cn.Close()
	}
	dmu.Unlock()
	if n := settle(base, hxconn.Deadline); n > base {
		soft = append(soft, [2]string{"listener:goroutines-not-released", fmt.Sprintf("%d goroutine(s) above the baseline after the listener and its connections were closed", n-base)})
	}
	return
}

func runListener(r *hxlib.Run, c ListenerCase) {
	r.Case()
	r.Count("family:listener")
	var hard, soft [][2]string
	for attempt := 1; attempt <= 3; attempt++ {
		hard, soft = listenerOnce(c)
		if len(hard) > 0 || len(soft) == 0 {
			break
		}
		r.Count("re-run-after-suspected-hang")
	}
	rc := map[string]interface{}{"listener": c}
	for _, f := range append(hard, soft...) {
		r.Fail(f[0], f[1], rc)
	}
	if c.During > 0 {
		r.NonTrivial(fmt.Sprintf("listener %+v", c))
	}
}
