package main

// Third-wave legs of C04 (NORMAL tiers: a change that edits only function bodies never triggers -search). Every
// scenario runs in a CHILD process (hxconn/iso.go): a panic in a pump goroutine is process death — exactly what C04
// forbids — and becomes the finding "panic:…:process-death" with the scenario as its input; children that mostly
// wait run several at a time. The oracle is hxconn.CheckC04, unchanged: no panic, every call returns, sends after
// shutdown are refused, exactly one terminal error, the pumps exit, THE PEER SEES THE STREAM END.
//
//	transports  (K4)  the net.Conn is a net.Pipe end, a *net.UnixConn (abstract socket, dialling or accepted end), a
//	                  *tls.Conn with a completed handshake (server or client side): backlog / inbound (FIN, garbage
//	                  tails) / race families with graceful AND forced closers (a ForceClose from outside cannot wake the
//	                  reader of a non-TCP connection: those runs use the 1 s read timeout and take up to 1 s each).
//	silent TLS  (K4)  a *tls.Conn (server side: port probe / silent client; client side: server that never answers)
//	                  whose handshake NEVER completes: graceful Close, ForceClose, the read timeout ending the connection
//	                  by itself, the silent peer half-closing or resetting — with 0..3 packets queued behind the
//	                  handshake. The peer watches its raw socket and must see the stream end within 2 s after the
//	                  last closer returned (deadline-only: believed after three runs).
//	late-arm    (observation) the same silent TLS connection under ONE forced, legal schedule (hxconn/transport.go,
//	                  lateArmConn: a net.Conn wrapper, no library hook): the reader arms its first read deadline only
//	                  after the graceful Close has set its wake-up deadline in the past, the writer makes its first
//	                  write only after that. The writer's flush must then finish the TLS handshake, which READS — under
//	                  the deadline the reader has just re-armed. Read timeout 2 s for the run. OBSERVED on HEAD: Close
//	                  returns only when that timeout passes (≈ 2 s here; 200 s with the default TConnReadTimeout). Free-
//	                  running, the same happens in 1–2 % of silent-TLS runs whose Close races the start of the pumps.
//	                  Recorded as an observation (Note + counter `observation:close-held-for-read-timeout`), not as a
//	                  violation: the call is bounded by the configured timeout (it does not block forever) and timing is
//	                  never an oracle; flip lateArmIsViolation to judge it.
//	rejected    a packet SendPacket accepts and the ENCODER refuses (V1 > 60 KiB incompressible, V2 > 255 references,
//	                  V2 > 8 MiB) alone / mid / tail / two at the tail / tail followed by more, then graceful Close,
//	                  sometimes a second closer of either kind: Close returns, the writer exits, one error, stream end.
//	                  Traces are validated against the LTS too.
//	stats       (K4)  stats.New(n), n = 0 .. NumStat+1, traffic in both directions, graceful or forced close.
//	cryptors    (K4)  salsa20, twofish, two custom BlockCryptor implementations (new slices; longer output).
//	held-inbound (K8) 40..120 inbound frames, whole or in pieces of 1/3/7/100/4096 bytes, every packet kept and compared
//	                  again at the end.
//	smallest    (K4/K5) outbound queue 0 / 1, inbound channel 0 / 1, error channel 0 / 1.
//	writer-only (K10) Go(EndpointWriter).
//	stall       thorough only: 16 MiB accepted, graceful Close, the peer reads nothing for 11..13 s, then everything:
//	                  Close returns (after the peer read), pumps exit, stream end.
//
// Wall time: quick ≈ 4 s, thorough ≈ 30 s.

import (
	"fmt"
	"os"
	"time"

	"verifharness/hxconn"
	"verifharness/hxlib"

	"qchen.fun/fatchoy/qnet"
)

// lateArmIsViolation: report a graceful Close that is held for the whole read timeout under the late-arm schedule as
// an oracle failure (key hang:close-held-for-read-timeout:tls-handshake-pending) instead of an observation.
const lateArmIsViolation = false

var notedLateArm, notedForce bool

func record(r *hxlib.Run, res hxconn.IsoResult, emit bool) {
	s, o := res.Scenario, res.Outcome
	if s.Transport != "" && s.ReadTimeout > 0 && len(s.Closers) > 0 && !s.Closers[0].Graceful && s.Peer.Tail == "" && o.EndLagMs >= 0 {
		// a ForceClose from OUTSIDE over a transport that is not a *net.TCPConn: there is no CloseRead to wake the reader
		// with, so the teardown (pumps exit, socket closed, the peer sees the stream end) waits for the reader's read
		// deadline — TConnReadTimeout, 1 s in these runs, 200 s by default. Observation, as for late-arm below.
		if o.EndLagMs >= 150 {
			r.Count("observation:forceclose-teardown-waits-for-read-timeout")
			if !notedForce {
				notedForce = true
				r.Note("observation (bounded by the configured timeout, not judged): after ForceClose returned on a connection over %s the peer saw the stream end only %d ms later — when the reader's read deadline (TConnReadTimeout = %d s in this run, 200 s by default) woke it: ForceClose can only wake the reader of a *net.TCPConn (CloseRead)", s.Transport, o.EndLagMs, s.ReadTimeout)
			}
		} else {
			r.Count("forceclose-teardown-prompt(non-TCP)")
		}
	}
	if s.Forced == "late-arm" {
		for _, c := range o.Closes {
			if c.Graceful && c.Res == "ok" && s.ReadTimeout > 0 && c.DurMs >= s.ReadTimeout*1000-300 {
				what := fmt.Sprintf("graceful Close on a *tls.Conn (%s) whose handshake is pending took %d ms = the whole read timeout (%d s; the default is %d s): the reader re-armed the read deadline after Close's wake-up, and the writer's flush, which must finish the handshake, read under it (%d packets queued)",
					s.Transport, c.DurMs, s.ReadTimeout, 200, c.Backlog)
				r.Count("observation:close-held-for-read-timeout")
				if lateArmIsViolation {
					r.Fail("hang:close-held-for-read-timeout:tls-handshake-pending", what, replayCase{Scenario: s})
				} else if !notedLateArm {
					notedLateArm = true
					r.Note("observation (forced schedule late-arm; bounded by the configured timeout, not judged): %s", what)
				}
			} else if c.Graceful && c.Res == "ok" {
				r.Count("late-arm:close-returned-promptly")
			}
		}
	}
	r.Case()
	r.Count("family:" + s.Name)
	if s.Transport != "" {
		r.Count("transport:" + s.Transport)
	}
	if res.Attempts > 1 {
		r.Count("re-run-after-suspected-hang")
		if os.Getenv("HX_DEBUG") != "" {
			fmt.Fprintf(os.Stderr, "re-run (%d attempts) %s\n", res.Attempts, s.Describe())
		}
	}
	if k := overlap(s, o); k >= 2 {
		r.NonTrivial(s.Describe())
		r.Count("overlap>=2")
	}
	for _, x := range o.Sends {
		r.Count("send:" + x.Res)
		if x.Res == "ok" && x.Wire == 0 {
			r.Count("accepted-but-not-encodable")
		}
	}
	for _, c := range o.Closes {
		if c.Graceful {
			r.Count("close:graceful")
		} else {
			r.Count("close:forced")
		}
	}
	for _, e := range o.Errs {
		r.Count("error-kind:" + e)
	}
	if o.PeerEOF {
		r.Count("peer-saw-eof")
	} else if o.PeerReset {
		r.Count("peer-saw-reset")
	}
	for _, f := range res.Findings {
		r.Fail(f.Key, f.What, replayCase{Scenario: s})
	}
	if emit && (s.Transport == "" || s.Transport == "tcp") && s.Stats == nil && s.Flag == "" && s.Cap >= 1 && len(o.Hangs) == 0 {
		hxconn.Emit(r, o)
	}
}

func diversityLegs(r *hxlib.Run) {
	t0 := time.Now()
	R := hxlib.NewRand(r.Seed ^ 0xC04D1)
	rep := r.Scale(1, 8)
	var batch []sc
	emit := map[int]bool{}
	add := func(s sc, e bool) {
		s.Iso = true
		emit[len(batch)] = e
		batch = append(batch, s)
	}
	// silent TLS first (the slowest children: up to 1 s of read timeout + the peer's 2 s on a failing tree)
	for k := 0; k < rep; k++ {
		for _, tr := range hxconn.SilentTransports {
			for _, how := range []string{"close", "close", "force", "timeout", "fin", "rst"} {
				add(hxconn.GenSilent(R, tr, how), false)
			}
		}
	}
	for k := 0; k < r.Scale(1, 3); k++ {
		add(hxconn.GenLateArm(R, hxconn.SilentTransports[k%2], 2), false)
	}
	// transports
	for _, tr := range hxconn.DataTransports {
		for k := 0; k < 2*rep; k++ {
			add(hxconn.GenTransport(R, tr, "backlog", false), false)
		}
		for k := 0; k < 2*rep; k++ {
			add(hxconn.GenTransport(R, tr, "inbound", true), false)
		}
		for k := 0; k < 2*rep; k++ {
			add(hxconn.GenTransport(R, tr, "race", true), false)
		}
	}
	// rejected packets, with closers of both kinds around them
	for k := 0; k < 2*rep; k++ {
		for _, pos := range []string{"alone", "mid", "tail", "tail2", "tail+more"} {
			s := hxconn.GenRejected(R, pos, false)
			switch R.Intn(4) {
			case 0:
				s.Closers = append(s.Closers, hxconn.Closer{Graceful: false, When: "ccall"})
			case 1:
				s.Closers[0].Graceful = false
			}
			add(s, true)
		}
	}
	for k := 0; k < r.Scale(1, 4); k++ {
		add(hxconn.GenRejected(R, []string{"tail", "mid", "tail+more", "alone"}[k%4], true), false)
	}
	for k := 0; k < rep; k++ {
		for n := 0; n <= qnet.NumStat+1; n++ {
			add(hxconn.GenStats(R, n), false)
		}
	}
	for k := 0; k < rep; k++ {
		for _, cr := range []string{"new", "pad", "salsa20", "twofish"} {
			add(hxconn.GenCryptor(R, cr), k%2 == 0)
		}
	}
	for k := 0; k < 3*rep; k++ {
		add(hxconn.GenHeldInbound(R), false)
	}
	for k := 0; k < 4*rep; k++ {
		add(hxconn.GenSmallest(R), false)
	}
	for k := 0; k < 3*rep; k++ {
		s := hxconn.GenWriterOnly(R)
		if R.Chance(1, 3) {
			s.Closers = append(s.Closers, hxconn.Closer{Graceful: R.Bool(), When: "ccall"})
		}
		add(s, false)
	}
	if r.Thorough() {
		for _, ms := range []int{11000, 12000, 13000} {
			add(hxconn.GenLongStall(R, ms+R.Intn(900), 16), false)
		}
	}
	for i, res := range hxconn.RunIsolatedBatch(batch, 6, hxconn.CheckC04) {
		record(r, res, emit[i])
	}
	r.Note("third-wave legs (diversity.go): %d scenarios in child processes (transports pipe/unix/tls/tlsc with graceful and forced closers, TLS with a handshake that never completes, encoder-rejected packets, counter sets of 0..%d counters, smallest queue sizes, writer-only, peer stalls in the thorough tier) took %.1f s",
		len(batch), qnet.NumStat+1, time.Since(t0).Seconds())
}
