// search.go: failing-input search legs of hx_c13 (active only with -search).
//
// The legs that run in the NORMAL tiers (key / value types, re-entrant callbacks, word-size arguments, held listings) are
// in legs3.go, with an oracle stated over the event stream.
// Fourth wave, also NORMAL tiers: keys that are not equal to themselves (NaN and composites holding NaN) are in legs4.go
// (leg "nan", its own list reference).
//
// The normal tiers run short histories over six keys. The legs below reach what those cannot:
//
//	collide  keys whose 32-bit hashes collide or share their low/high 16 bits (brute-forced over decimal strings for a
//	         dozen common string hashes), int keys 2^16 / 2^32 apart                                   (class c)
//	scale    caches of 2^16+1 .. 2^18+1 entries: fill, reorder, evict, Resize far below the size, Purge  (class a)
//	period   an observation, then exactly 2^16, 2^16, 2^17, 3*2^18 and 2^20 identical state-changing units with no
//	         observation in between, then every observation again (cumulative 2^16, 2^17, 2^18, 2^20, 2^21)  (class b)
//	cross    the n-th departure / insertion of one cache (n = 2^16, 2^17, 2^18, 2^20) made to fall INSIDE each kind of
//	         operation that removes entries (evicting Put, Remove, RemoveOldest, Resize and Purge of several
//	         entries), reached through each kind of deleting operation                                  (class b)
//
// Oracle: the same statement as exec's (returned values, callback arguments exactly once, capacity bound, contents and
// oldest-to-newest order against a stamp-based reference), with a reference that finds its oldest entry through a
// touch log instead of a scan so that millions of operations are affordable. A case is (leg, variant, parameters,
// seed): the op stream is regenerated from it on replay.
package main

import (
	"fmt"
	"hash/adler32"
	"hash/crc32"
	"hash/fnv"
	"sort"
	"strconv"
	"time"

	"verifharness/hxlib"

	"qchen.fun/fatchoy/collections/lru"
)

// scase is the replayable description of one search case.
type scase struct {
	Leg     string `json:"leg"`
	Variant string `json:"variant,omitempty"`
	Cap     int    `json:"cap,omitempty"`
	N       int    `json:"n,omitempty"`
	Seed    uint64 `json:"seed,omitempty"`
	FailAt  int    `json:"failed_at_op,omitempty"` // informative only
}

// ---- reference with a touch log ---------------------------------------------------------------------

type fent struct {
	v     int
	stamp int
}

type qent struct {
	k     interface{}
	stamp int
}

type fastRef struct {
	cap   int
	clock int
	m     map[interface{}]*fent
	q     []qent // every use, in order; an element is live when the key's current stamp is its stamp
	head  int
}

func newFastRef(capacity int) *fastRef {
	return &fastRef{cap: capacity, m: map[interface{}]*fent{}}
}

func (r *fastRef) touch(k interface{}) {
	r.clock++
	r.m[k].stamp = r.clock
	r.q = append(r.q, qent{k, r.clock})
	if len(r.q)-r.head > 4*len(r.m)+4096 {
		live := make([]qent, 0, 2*len(r.m)+16)
		for _, e := range r.q[r.head:] {
			if f, ok := r.m[e.k]; ok && f.stamp == e.stamp {
				live = append(live, e)
			}
		}
		r.q, r.head = live, 0
	}
}

func (r *fastRef) oldest() (interface{}, bool) {
	for r.head < len(r.q) {
		e := r.q[r.head]
		if f, ok := r.m[e.k]; ok && f.stamp == e.stamp {
			return e.k, true
		}
		r.head++
	}
	return nil, false
}

func (r *fastRef) order() []interface{} {
	out := make([]interface{}, 0, len(r.m))
	for _, e := range r.q[r.head:] {
		if f, ok := r.m[e.k]; ok && f.stamp == e.stamp {
			out = append(out, e.k)
		}
	}
	return out
}

// ---- engine: the real cache and the reference side by side ----------------------------------------------

type left struct {
	k interface{}
	v int
}

type eng struct {
	c     *lru.Cache
	ref   *fastRef
	evs   []event
	n     int // calls made
	calls int
	ins   int // entries inserted (new keys)
	dels  int // entries that left
	gets  int
	fails []failure
	dead  bool
	gone  []interface{} // ring of keys that left recently (must stay absent until put again)
	asked []interface{} // the keys the last observation asked for, in the order asked
	goneI int
	maxN  int
	fulls int
}

func newEng(capacity int) *eng {
	e := &eng{ref: newFastRef(capacity), gone: make([]interface{}, 32)}
	if p := hxlib.Guard(func() {
		e.c = lru.NewCache(capacity, func(k, v interface{}) { e.evs = append(e.evs, event{k, v}) })
	}); p != "" {
		e.fail("new", "NewCache(%d) panicked: %s", capacity, p)
	}
	return e
}

func (e *eng) fail(key, format string, a ...interface{}) {
	if len(e.fails) < 8 {
		e.fails = append(e.fails, failure{key, fmt.Sprintf("call %d: ", e.n) + fmt.Sprintf(format, a...)})
	}
	e.dead = true
}

func kstr(k interface{}) string {
	switch x := k.(type) {
	case nil:
		return "nil"
	case string:
		return strconv.Quote(x)
	case int:
		return "int(" + strconv.Itoa(x) + ")"
	}
	return fmt.Sprintf("%T(%v)", k, k)
}

func (e *eng) noteGone(k interface{}) {
	e.gone[e.goneI%len(e.gone)] = k
	e.goneI++
}

// callbacks compares the callback log of the last call with the entries that must have left.
func (e *eng) callbacks(name string, want []left, ordered bool) {
	bad := len(e.evs) != len(want)
	if !bad && ordered {
		for i, w := range want {
			if e.evs[i].K != w.k || e.evs[i].V != interface{}(w.v) {
				bad = true
				break
			}
		}
	}
	if !bad && !ordered {
		cnt := make(map[left]int, len(want))
		for _, w := range want {
			cnt[w]++
		}
		for _, ev := range e.evs {
			v, ok := ev.V.(int)
			if !ok {
				bad = true
				break
			}
			cnt[left{ev.K, v}]--
		}
		for _, c := range cnt {
			if c != 0 {
				bad = true
			}
		}
	}
	if !bad {
		return
	}
	// describe the difference compactly
	cnt := map[string]int{}
	for _, w := range want {
		cnt[fmt.Sprintf("%s=%d", kstr(w.k), w.v)]++
	}
	for _, ev := range e.evs {
		cnt[fmt.Sprintf("%s=%v", kstr(ev.K), ev.V)]--
	}
	var missing, extra []string
	for s, c := range cnt {
		if c > 0 {
			missing = append(missing, s)
		} else if c < 0 {
			extra = append(extra, fmt.Sprintf("%s(x%d)", s, -c))
		}
	}
	sort.Strings(missing)
	sort.Strings(extra)
	if len(missing) > 5 {
		missing = append(missing[:5], fmt.Sprintf("...%d more", len(missing)-5))
	}
	if len(extra) > 5 {
		extra = append(extra[:5], fmt.Sprintf("...%d more", len(extra)-5))
	}
	e.fail("callback:"+name, "%s: the callback fired %d time(s), %d entr(ies) left the cache; left but not reported: %v; reported but not (or not that often) left: %v; order judged: %v",
		name, len(e.evs), len(want), missing, extra, ordered)
}

func (e *eng) pre() bool {
	if e.dead {
		return false
	}
	e.evs = e.evs[:0]
	e.n++
	e.calls++
	return true
}

func (e *eng) guard(name string, f func()) bool {
	if p := hxlib.Guard(f); p != "" {
		e.fail("panic:"+name, "%s panicked: %s", name, p)
		return false
	}
	return true
}

func (e *eng) put(k interface{}, v int) {
	if !e.pre() {
		return
	}
	var got bool
	if !e.guard("put", func() { got = e.c.Put(k, v) }) {
		return
	}
	var want bool
	var wl []left
	if f, ok := e.ref.m[k]; ok {
		f.v = v
		e.ref.touch(k)
	} else {
		want = true
		e.ins++
		e.ref.m[k] = &fent{v: v}
		e.ref.touch(k)
		if len(e.ref.m) > e.ref.cap {
			ok2 := false
			var old interface{}
			if old, ok2 = e.ref.oldest(); ok2 {
				wl = append(wl, left{old, e.ref.m[old].v})
				delete(e.ref.m, old)
				e.noteGone(old)
				e.dels++
			}
		}
	}
	if got != want {
		e.fail("result:put", "Put(%s,%d) returned %v, a reference LRU returns %v", kstr(k), v, got, want)
		return
	}
	e.callbacks("put", wl, true)
}

func (e *eng) get(k interface{}) {
	if !e.pre() {
		return
	}
	e.gets++
	var gv interface{}
	var gok bool
	if !e.guard("get", func() { gv, gok = e.c.Get(k) }) {
		return
	}
	f, ok := e.ref.m[k]
	if gok != ok || (ok && gv != interface{}(f.v)) {
		e.fail("result:get", "Get(%s) returned (%v,%v), a reference LRU has (%v,%v)", kstr(k), gv, gok, refVal(f), ok)
		return
	}
	if ok {
		e.ref.touch(k)
	}
	e.callbacks("get", nil, true)
}

func refVal(f *fent) interface{} {
	if f == nil {
		return nil
	}
	return f.v
}

func (e *eng) peek(k interface{}) {
	if !e.pre() {
		return
	}
	var gv interface{}
	var gok, has bool
	if !e.guard("peek", func() { gv, gok = e.c.Peek(k); has = e.c.Contains(k) }) {
		return
	}
	f, ok := e.ref.m[k]
	if gok != ok || has != ok || (ok && gv != interface{}(f.v)) {
		e.fail("contents:value", "Peek(%s)=(%v,%v) Contains=%v, a reference LRU has (%v,%v)", kstr(k), gv, gok, has, refVal(f), ok)
		return
	}
	e.callbacks("peek", nil, true)
}

func (e *eng) remove(k string) {
	if !e.pre() {
		return
	}
	var got bool
	if !e.guard("remove", func() { got = e.c.Remove(k) }) {
		return
	}
	var wl []left
	f, ok := e.ref.m[k]
	if ok {
		wl = append(wl, left{k, f.v})
		delete(e.ref.m, k)
		e.noteGone(k)
		e.dels++
	}
	if got != ok {
		e.fail("result:remove", "Remove(%s) returned %v, a reference LRU returns %v", kstr(k), got, ok)
		return
	}
	e.callbacks("remove", wl, true)
}

func (e *eng) removeOldest() {
	if !e.pre() {
		return
	}
	var gk, gv interface{}
	var gok bool
	if !e.guard("removeoldest", func() { gk, gv, gok = e.c.RemoveOldest() }) {
		return
	}
	var wl []left
	old, ok := e.ref.oldest()
	if ok {
		f := e.ref.m[old]
		wl = append(wl, left{old, f.v})
		if !gok || gk != old || gv != interface{}(f.v) {
			e.fail("result:removeoldest", "RemoveOldest() returned (%s,%v,%v), the least recently used entry is (%s,%d)", kstr(gk), gv, gok, kstr(old), f.v)
			return
		}
		delete(e.ref.m, old)
		e.noteGone(old)
		e.dels++
	} else if gok {
		e.fail("result:removeoldest", "RemoveOldest() on an empty cache returned (%s,%v,true)", kstr(gk), gv)
		return
	}
	e.callbacks("removeoldest", wl, true)
}

func (e *eng) resize(n int) {
	if !e.pre() {
		return
	}
	var got int
	if !e.guard("resize", func() { got = e.c.Resize(n) }) {
		return
	}
	var wl []left
	for len(e.ref.m) > n && len(e.ref.m) > 0 {
		old, _ := e.ref.oldest()
		wl = append(wl, left{old, e.ref.m[old].v})
		delete(e.ref.m, old)
		e.noteGone(old)
		e.dels++
	}
	e.ref.cap = n
	if got != len(wl) {
		e.fail("result:resize", "Resize(%d) returned %d, a reference LRU evicts %d", n, got, len(wl))
		return
	}
	e.callbacks("resize", wl, true)
}

func (e *eng) purge() {
	if !e.pre() {
		return
	}
	if !e.guard("purge", func() { e.c.Purge() }) {
		return
	}
	wl := make([]left, 0, len(e.ref.m))
	for k, f := range e.ref.m {
		wl = append(wl, left{k, f.v})
		e.noteGone(k)
	}
	e.dels += len(wl)
	e.ref.m = map[interface{}]*fent{}
	e.ref.q, e.ref.head = e.ref.q[:0], 0
	e.callbacks("purge", wl, false)
}

// full is the complete observation: size, capacity bound, oldest entry, key order, and Peek/Contains of present keys
// (all of them when deep or when few) and of keys that left recently.
func (e *eng) full(deep bool) { e.fullOrd(deep, false) }

// fullOrd: newestFirst repeats the observations in the reverse order. After a silent gap they are asked newest first,
// so that whatever the code remembers of its most recent answers (one entry, a few, one slot per key hash) is asked
// again before a later question can displace it.
func (e *eng) fullOrd(deep, newestFirst bool) {
	if e.dead {
		return
	}
	e.fulls++
	e.evs = e.evs[:0]
	n := len(e.ref.m)
	if n > e.maxN {
		e.maxN = n
	}
	want := e.ref.order()
	var l []func()
	l = append(l, func() {
		if g := e.c.Len(); g != n {
			e.fail("contents:len", "Len()=%d, the reference holds %d", g, n)
		}
	}, func() {
		if g := e.c.Cap(); g != e.ref.cap {
			e.fail("result:cap", "Cap()=%d, the capacity is %d", g, e.ref.cap)
		} else if e.c.Len() > e.c.Cap() {
			e.fail("bound", "the cache holds %d entries with capacity %d", e.c.Len(), e.c.Cap())
		}
	}, func() {
		gk, gv, gok := e.c.GetOldest()
		if old, ok := e.ref.oldest(); ok {
			if !gok || gk != old || gv != interface{}(e.ref.m[old].v) {
				e.fail("result:oldest", "GetOldest()=(%s,%v,%v), the least recently used entry is (%s,%d)", kstr(gk), gv, gok, kstr(old), e.ref.m[old].v)
			}
		} else if gok {
			e.fail("result:oldest", "GetOldest() on an empty cache = (%s,%v,true)", kstr(gk), gv)
		}
	}, func() {
		keys := e.c.Keys()
		if len(keys) != len(want) {
			e.fail("contents:order", "Keys() lists %d keys, the reference holds %d", len(keys), len(want))
			return
		}
		for i := range want {
			if keys[i] != want[i] {
				e.fail("contents:order", "Keys()[%d]=%s, the reference oldest-to-newest order has %s there (of %d keys)", i, kstr(keys[i]), kstr(want[i]), len(want))
				return
			}
		}
	})
	// keys to ask: those asked by the previous observation (their presence/values have changed since), the present
	// keys (all when deep or few), keys that left recently, and last the newest key
	step := 1
	if !deep && n > 64 {
		step = n / 64
	}
	var cur []interface{}
	for i := 0; i < n; i += step {
		cur = append(cur, want[i])
	}
	for _, k := range e.gone {
		if k != nil {
			cur = append(cur, k)
		}
	}
	if n > 0 {
		cur = append(cur, want[n-1])
	}
	var ask []interface{}
	if newestFirst {
		for i := len(e.asked) - 1; i >= 0; i-- {
			ask = append(ask, e.asked[i])
		}
		for i := len(cur) - 1; i >= 0; i-- {
			ask = append(ask, cur[i])
		}
	} else {
		ask = append(append(ask, e.asked...), cur...)
	}
	peekAll := func() {
		for _, k := range ask {
			if e.dead {
				return
			}
			v, ok := e.c.Peek(k)
			has := e.c.Contains(k)
			f, in := e.ref.m[k]
			if ok != in || has != in || (in && v != interface{}(f.v)) {
				e.fail("contents:value", "Peek(%s)=(%v,%v) Contains=%v, the reference has (%v,%v)", kstr(k), v, ok, has, refVal(f), in)
			}
		}
	}
	if newestFirst {
		l = append([]func(){peekAll}, l...)
	} else {
		l = append(l, peekAll)
	}
	if len(ask) > 160 {
		ask = ask[len(ask)-160:]
	}
	e.asked = append(e.asked[:0], ask...)
	e.guard("observe", func() {
		for i := range l {
			if e.dead {
				return
			}
			l[i]()
		}
	})
	if !e.dead && len(e.evs) != 0 {
		e.fail("callback:observe", "the callback fired %d time(s) during pure observations", len(e.evs))
	}
}

// near reports whether one of the engine's counters is within w of a multiple of 2^16 (where wrapping counters and
// every-n-th-operation maintenance would act).
func (e *eng) near(w int) bool {
	for _, c := range [...]int{e.calls, e.ins, e.dels, e.gets} {
		m := c & 0xFFFF
		if c >= 0x10000-w && (m <= w || m >= 0x10000-w) {
			return true
		}
	}
	return false
}

// burst: a short random history over a few keys with the complete observation after every call.
func (e *eng) burst(rnd *hxlib.Rand, n int, fresh *int) {
	for i := 0; i < n && !e.dead; i++ {
		k := "b" + strconv.Itoa(rnd.Intn(12))
		switch x := rnd.Intn(100); {
		case x < 40:
			*fresh++
			e.put(k, *fresh)
		case x < 60:
			e.get(k)
		case x < 70:
			e.peek(k)
		case x < 82:
			e.remove(k)
		case x < 90:
			e.removeOldest()
		case x < 96:
			e.resize(rnd.Range(1, 10))
		default:
			e.purge()
		}
		e.full(true)
	}
}

// report turns the engine's failures into oracle failures of the run.
func (e *eng) report(r *hxlib.Run, c scase) bool {
	if len(e.fails) == 0 {
		return false
	}
	c.FailAt = e.n
	f := e.fails[0]
	r.Fail(f.key, fmt.Sprintf("search leg %s/%s (cap=%d n=%d seed=%d): %s", c.Leg, c.Variant, c.Cap, c.N, c.Seed, f.what), c)
	return true
}

// ---- leg: colliding keys ---------------------------------------------------------------------------------

type strHash struct {
	name string
	f    func(string) uint32
}

func strHashes() []strHash {
	castagnoli := crc32.MakeTable(crc32.Castagnoli)
	return []strHash{
		{"fnv32a", func(s string) uint32 { h := fnv.New32a(); h.Write([]byte(s)); return h.Sum32() }},
		{"fnv32", func(s string) uint32 { h := fnv.New32(); h.Write([]byte(s)); return h.Sum32() }},
		{"fnv64a-low32", func(s string) uint32 { h := fnv.New64a(); h.Write([]byte(s)); return uint32(h.Sum64()) }},
		{"fnv64a-fold", func(s string) uint32 {
			h := fnv.New64a()
			h.Write([]byte(s))
			x := h.Sum64()
			return uint32(x) ^ uint32(x>>32)
		}},
		{"crc32-ieee", func(s string) uint32 { return crc32.ChecksumIEEE([]byte(s)) }},
		{"crc32c", func(s string) uint32 { return crc32.Checksum([]byte(s), castagnoli) }},
		{"adler32", func(s string) uint32 { return adler32.Checksum([]byte(s)) }},
		{"djb2", func(s string) uint32 {
			h := uint32(5381)
			for i := 0; i < len(s); i++ {
				h = h*33 + uint32(s[i])
			}
			return h
		}},
		{"djb2a", func(s string) uint32 {
			h := uint32(5381)
			for i := 0; i < len(s); i++ {
				h = h*33 ^ uint32(s[i])
			}
			return h
		}},
		{"sdbm", func(s string) uint32 {
			h := uint32(0)
			for i := 0; i < len(s); i++ {
				h = uint32(s[i]) + (h << 6) + (h << 16) - h
			}
			return h
		}},
		{"java31", func(s string) uint32 {
			h := uint32(0)
			for i := 0; i < len(s); i++ {
				h = h*31 + uint32(s[i])
			}
			return h
		}},
		{"bkdr131", func(s string) uint32 {
			h := uint32(0)
			for i := 0; i < len(s); i++ {
				h = h*131 + uint32(s[i])
			}
			return h
		}},
		{"jenkins-oaat", func(s string) uint32 {
			h := uint32(0)
			for i := 0; i < len(s); i++ {
				h += uint32(s[i])
				h += h << 10
				h ^= h >> 6
			}
			h += h << 3
			h ^= h >> 11
			h += h << 15
			return h
		}},
		{"murmur3", func(s string) uint32 { return murmur3([]byte(s), 0) }},
	}
}

func murmur3(b []byte, seed uint32) uint32 {
	const c1, c2 = 0xcc9e2d51, 0x1b873593
	h := seed
	n := len(b)
	for len(b) >= 4 {
		k := uint32(b[0]) | uint32(b[1])<<8 | uint32(b[2])<<16 | uint32(b[3])<<24
		b = b[4:]
		k *= c1
		k = k<<15 | k>>17
		k *= c2
		h ^= k
		h = h<<13 | h>>19
		h = h*5 + 0xe6546b64
	}
	var k uint32
	switch len(b) {
	case 3:
		k ^= uint32(b[2]) << 16
		fallthrough
	case 2:
		k ^= uint32(b[1]) << 8
		fallthrough
	case 1:
		k ^= uint32(b[0])
		k *= c1
		k = k<<15 | k>>17
		k *= c2
		h ^= k
	}
	h ^= uint32(n)
	h ^= h >> 16
	h *= 0x85ebca6b
	h ^= h >> 13
	h *= 0xc2b2ae35
	h ^= h >> 16
	return h
}

// collidingGroups brute-forces decimal strings 0..limit-1: up to `max` groups with equal value of proj(hash).
func collidingGroups(f func(string) uint32, proj func(uint32) uint32, limit, size, max int, start int) [][]int {
	seen := make(map[uint32][]int32, 1<<16)
	var out [][]int
	for i := 0; i < limit && len(out) < max; i++ {
		k := (start + i) % limit
		h := proj(f(strconv.Itoa(k)))
		g := append(seen[h], int32(k))
		seen[h] = g
		if len(g) == size {
			grp := make([]int, size)
			for j, x := range g {
				grp[j] = int(x)
			}
			out = append(out, grp)
			delete(seen, h)
		}
	}
	return out
}

// collisionCases: histories in which the keys of a group are alive together, at and below the capacity.
func collisionCases(g []int, other int) []tcase {
	put := func(k, v int) op { return op{Name: "put", K: k, V: v} }
	get := func(k int) op { return op{Name: "get", K: k} }
	peek := func(k int) op { return op{Name: "peek", K: k} }
	has := func(k int) op { return op{Name: "contains", K: k} }
	rem := func(k int) op { return op{Name: "remove", K: k} }
	keys, ln, oldest, ro, purge := op{Name: "keys"}, op{Name: "len"}, op{Name: "oldest"}, op{Name: "removeoldest"}, op{Name: "purge"}
	a, b := g[0], g[1]
	var out []tcase
	// both alive, read back, overwrite one, remove one, the other must be untouched
	ops := []op{}
	for i, k := range g {
		ops = append(ops, put(k, 11+i))
	}
	ops = append(ops, keys, ln)
	for _, k := range g {
		ops = append(ops, peek(k), has(k))
	}
	ops = append(ops, get(a), get(b), put(a, 21), peek(b), rem(a), peek(b), has(a), keys, put(a, 31), keys, get(b), oldest, ro, keys, purge, ln)
	out = append(out, tcase{Cap: len(g) + 2, Cb: true, Ops: ops})
	// exactly at capacity, then one more key: the least recently used of the group leaves, nothing else
	ops = nil
	for i, k := range g {
		ops = append(ops, put(k, 11+i))
	}
	ops = append(ops, get(a), put(other, 41), keys, peek(a), peek(b), has(other), put(b, 51), keys, rem(other), rem(b), keys, ln)
	out = append(out, tcase{Cap: len(g), Cb: true, Ops: ops})
	// remove / re-add interleaved
	out = append(out, tcase{Cap: 3, Cb: true, Ops: []op{put(a, 1), rem(b), put(b, 2), rem(a), peek(b), has(b), put(a, 3), put(b, 4), keys, get(a), ro, keys, ln}})
	return out
}

func legCollide(r *hxlib.Run) {
	t0 := time.Now()
	limit := 1 << 20
	projs := []struct {
		name string
		f    func(uint32) uint32
		max  int
		size int
	}{
		{"32", func(h uint32) uint32 { return h }, 4, 2},
		{"low16", func(h uint32) uint32 { return h & 0xFFFF }, 2, 3},
		{"high16", func(h uint32) uint32 { return h >> 16 }, 2, 3},
		{"mod4096", func(h uint32) uint32 { return h % 4096 }, 1, 4},
		{"mod-prime-65521", func(h uint32) uint32 { return h % 65521 }, 1, 3},
	}
	groups := 0
	for _, h := range strHashes() {
		for _, p := range projs {
			gs := collidingGroups(h.f, p.f, limit, p.size, p.max, r.R.Intn(1000))
			for _, g := range gs {
				groups++
				r.Count("search:collide:" + p.name)
				for _, c := range collisionCases(g, 7) {
					one(r, c)
				}
			}
			if r.Failed() {
				r.Note("search leg collide: stopped at the first failing group (hash %s, projection %s)", h.name, p.name)
				return
			}
		}
	}
	// int keys (Put/Get/Peek/Contains take any comparable key): equal modulo 2^16 / 2^32, multiples of 2^32
	for _, d64 := range []int64{1 << 16, 1 << 31, 1 << 32, 3 << 32, 1 << 48} {
		d := int(d64)
		if int64(d) != d64 || d > (1<<(strconv.IntSize-1)-1)/4 {
			continue // does not fit the platform's int (GOARCH=386)
		}
		for _, base := range []int{0, 1, 12345} {
			c := scase{Leg: "collide-int", N: d, Cap: base}
			r.Case()
			r.Count("search:collide:int")
			runCollideInt(c).report(r, c)
		}
	}
	r.Note("search leg collide: %d groups of decimal-string keys with colliding/partially equal 32-bit hashes (%d hash functions x full, low16, high16, mod 4096, mod 65521; brute force over 0..%d) and int keys 2^16..2^48 apart alive together, %.1fs",
		groups, len(strHashes()), limit-1, time.Since(t0).Seconds())
}

func runCollideInt(c scase) *eng {
	d, base := c.N, c.Cap
	e := newEng(4)
	ks := []interface{}{base, base + d, base + 2*d, -base - d}
	for i, k := range ks {
		e.put(k, 10+i)
		e.full(true)
	}
	for _, k := range ks {
		e.peek(k)
		e.get(k)
		e.full(true)
	}
	e.put(ks[0], 99)
	e.full(true)
	e.put(base+3*d, 50) // evicts ks[1]
	e.full(true)
	e.removeOldest()
	e.full(true)
	e.put(ks[1], 60)
	e.full(true)
	e.resize(2)
	e.full(true)
	e.purge()
	e.full(true)
	return e
}

// ---- leg: scale ---------------------------------------------------------------------------------------

func runScale(c scase) *eng {
	rnd := hxlib.NewRand(c.Seed)
	n := c.Cap
	e := newEng(n)
	key := func(i int) string { return "s" + strconv.Itoa(i) }
	marks := map[int]bool{}
	for _, p := range []int{1 << 16, 1 << 17, 1 << 18} {
		for d := -1; d <= 1; d++ {
			marks[p+d] = true
		}
	}
	val := 0
	// fill in key order with a few re-uses on the way, observing around the powers of two
	for i := 0; i < n && !e.dead; i++ {
		val++
		e.put(key(i), val)
		if rnd.Chance(1, 16) {
			e.get(key(rnd.Intn(i + 1)))
		}
		if marks[i+1] {
			e.full(false)
		}
	}
	e.full(true)
	// past the capacity: every fresh key evicts exactly the oldest
	for i := n; i < n+n/4 && !e.dead; i++ {
		val++
		e.put(key(i), val)
		switch rnd.Intn(8) {
		case 0:
			e.get(key(rnd.Intn(i + 1)))
		case 1:
			e.remove(key(rnd.Intn(i + 1)))
		case 2:
			val++
			e.put(key(rnd.Intn(i+1)), val)
		case 3:
			e.peek(key(rnd.Intn(i + 1)))
		}
		if i%(n/8+1) == 0 {
			e.full(false)
		}
	}
	e.full(true)
	switch c.Variant {
	case "resize":
		// far below the size, in steps that cross the powers of two, then growth again
		for _, to := range []int{1<<17 + 1, 1 << 17, 1<<16 + 1, 1 << 16, 1<<16 - 1, 1000, 1, 0} {
			if to < e.ref.cap {
				e.resize(to)
				e.full(true)
			}
		}
		e.resize(n)
		for i := 0; i < 70000 && !e.dead; i++ {
			val++
			e.put(key(i), val)
		}
		e.full(true)
	case "purge":
		e.purge()
		e.full(true)
		for i := 0; i < n+10 && !e.dead; i++ {
			val++
			e.put(key(i), val)
		}
		e.full(true)
		e.purge()
		e.full(true)
	case "drain":
		for len(e.ref.m) > 0 && !e.dead {
			if rnd.Bool() {
				e.removeOldest()
			} else if k, ok := e.ref.oldest(); ok {
				e.remove(k.(string))
			}
			if marks[len(e.ref.m)] {
				e.full(false)
			}
		}
		e.full(true)
		e.burst(rnd, 50, &val)
	}
	return e
}

func legScale(r *hxlib.Run) {
	t0 := time.Now()
	top := 0
	variants := []string{"resize", "purge", "drain"}
	for i, n := range []int{1<<16 + 1, 1<<17 + 1, 1<<18 + 1} {
		for j, v := range variants {
			if n > 1<<17+1 && (i+j+int(r.Seed))%3 != 0 && v != "purge" {
				continue // the largest size runs Purge and one other variant per seed
			}
			c := scase{Leg: "scale", Variant: v, Cap: n, Seed: r.R.U64()}
			r.Case()
			r.Count("search:scale")
			e := runScale(c)
			if e.maxN > top {
				top = e.maxN
			}
			if e.report(r, c) {
				return
			}
		}
	}
	r.Note("search leg scale: caches of capacity 2^16+1, 2^17+1, 2^18+1 filled past the capacity, then Resize far below the size / Purge and refill / drain by Remove+RemoveOldest; largest size observed in full %d entries, %.1fs", top, time.Since(t0).Seconds())
}

// ---- leg: period (silent gaps of exactly 2^16*k identical units) ----------------------------------------

// periodVariants: every unit is the same kind of real state change (or the same kind of lookup), so a counter that
// counts calls, insertions, departures or lookups advances by a fixed amount per unit.
var periodVariants = []string{"evict-put", "grow-put", "overwrite", "get-hit", "peek-hit", "get-miss", "remove+put", "removeoldest+put", "resize-toggle", "put2+purge"}

func runPeriod(c scase) *eng {
	rnd := hxlib.NewRand(c.Seed)
	capacity := c.Cap
	e := newEng(capacity)
	fresh, val := 0, 0
	nk := func() string { fresh++; return "p" + strconv.Itoa(fresh) }
	live := []string{} // for the cycling variants
	switch c.Variant {
	case "grow-put":
	default:
		for i := 0; i < capacity; i++ {
			k := nk()
			live = append(live, k)
			val++
			e.put(k, val)
		}
	}
	cyc := 0
	unit := func() {
		switch c.Variant {
		case "evict-put", "grow-put":
			val++
			e.put(nk(), val)
		case "overwrite":
			val++
			e.put(live[cyc%len(live)], val)
			cyc++
		case "get-hit":
			e.get(live[cyc%len(live)])
			cyc++
		case "peek-hit":
			e.peek(live[cyc%len(live)])
			cyc++
		case "get-miss":
			e.get("absent" + strconv.Itoa(cyc&7))
			cyc++
		case "remove+put":
			i := cyc % len(live)
			cyc++
			e.remove(live[i])
			live[i] = nk()
			val++
			e.put(live[i], val)
		case "removeoldest+put":
			e.removeOldest()
			val++
			e.put(nk(), val)
		case "resize-toggle":
			e.resize(capacity - 1)
			e.resize(capacity)
			val++
			e.put(nk(), val)
		case "put2+purge":
			val++
			e.put(nk(), val)
			val++
			e.put(nk(), val)
			e.purge()
		}
	}
	e.full(true)
	done := 0
	for _, at := range []int{1 << 16, 1 << 17, 1 << 18, 1 << 20, 1 << 21} {
		if at > c.N {
			break
		}
		for ; done < at && !e.dead; done++ {
			unit()
		}
		// the state must differ from the one last observed in every observable; the lookup-only variants change nothing
		// themselves, so a real change follows them before the observation
		switch c.Variant {
		case "peek-hit", "get-miss":
			val++
			e.put(nk(), val)
		}
		e.fullOrd(true, true) // newest first: the observation made last before the gap is repeated first
		e.full(true)
		if at == 1<<18 || at == 1<<21 || at == c.N {
			e.burst(rnd, 40, &val)
			// restore a known population for the next gap
			e.purge()
			e.resize(capacity)
			live = live[:0]
			if c.Variant != "grow-put" {
				for i := 0; i < capacity; i++ {
					k := nk()
					live = append(live, k)
					val++
					e.put(k, val)
				}
			}
			e.full(true)
		}
	}
	return e
}

func legPeriod(r *hxlib.Run) {
	t0 := time.Now()
	units := 0
	for i, v := range periodVariants {
		capacity := []int{7, 1, 61, 3}[(i+int(r.Seed))%4] // not divisors of 2^16: a cycle over the keys must not end where it began
		if capacity == 1 && (v == "overwrite" || v == "get-hit" || v == "peek-hit") {
			capacity = 5
		}
		n := 1 << 21
		if v == "grow-put" {
			capacity = 1<<21 + 1<<12
		}
		if v == "resize-toggle" && capacity < 2 {
			capacity = 2
		}
		if v == "put2+purge" && capacity < 2 {
			capacity = 2
		}
		c := scase{Leg: "period", Variant: v, Cap: capacity, N: n, Seed: r.R.U64()}
		r.Case()
		r.Count("search:period")
		e := runPeriod(c)
		units += n
		if e.report(r, c) {
			return
		}
	}
	r.Note("search leg period: %d variants (%v), each: complete observation, then silent gaps of 2^16, 2^16, 2^17, 3*2^18, 2^20 identical units (cumulative 2^16, 2^17, 2^18, 2^20, 2^21) with the complete observation only at those points; %d units, %.1fs",
		len(periodVariants), periodVariants, units, time.Since(t0).Seconds())
}

// ---- leg: cross (the n-th departure / insertion falls inside each removing operation) -------------------------

var crossForward = []string{"evict-put", "remove+put", "removeoldest+put", "put+purge", "fill+resize0"}
var crossInside = []string{"put", "remove", "removeoldest", "resize", "purge"}

func runCross(c scase) *eng {
	// c.Variant = forward "/" inside, c.N = the boundary, c.Cap = capacity (>= 8)
	var fw, inside string
	for i := 0; i < len(c.Variant); i++ {
		if c.Variant[i] == '/' {
			fw, inside = c.Variant[:i], c.Variant[i+1:]
		}
	}
	rnd := hxlib.NewRand(c.Seed)
	capacity := c.Cap
	e := newEng(capacity)
	fresh, val := 0, 0
	nk := func() string { fresh++; return "x" + strconv.Itoa(fresh) }
	put := func() { val++; e.put(nk(), val) }
	fill := func() {
		for len(e.ref.m) < capacity && !e.dead {
			put()
		}
	}
	check := func() {
		if e.near(6) || e.n&1023 == 0 {
			e.full(true)
		}
	}
	// multi-entry operations cross the boundary in their middle: they start `lead` departures before it
	lead := 1
	if inside == "resize" || inside == "purge" {
		lead = capacity / 2
	}
	target := c.N - lead
	fill()
	for e.dels < target && !e.dead {
		switch fw {
		case "evict-put":
			put()
		case "remove+put":
			if k, ok := e.ref.oldest(); ok && rnd.Chance(1, 2) {
				e.remove(k.(string))
			} else {
				// any present key: the newest
				e.remove("x" + strconv.Itoa(fresh))
			}
			put()
		case "removeoldest+put":
			e.removeOldest()
			put()
		case "put+purge":
			// a purge of m entries, m chosen so that the target is not overshot
			if e.dels+len(e.ref.m) > target {
				// shrink the population by single removals first
				for len(e.ref.m) > 0 && e.dels < target && !e.dead {
					e.removeOldest()
				}
				continue
			}
			e.purge()
			for len(e.ref.m) < capacity && e.dels+len(e.ref.m) < target && !e.dead {
				put()
			}
			if len(e.ref.m) == 0 {
				put()
			}
		case "fill+resize0":
			if e.dels+len(e.ref.m) > target {
				for len(e.ref.m) > 0 && e.dels < target && !e.dead {
					e.removeOldest()
				}
				continue
			}
			e.resize(0)
			e.resize(capacity)
			for len(e.ref.m) < capacity && e.dels+len(e.ref.m) < target && !e.dead {
				put()
			}
			if len(e.ref.m) == 0 {
				put()
			}
		}
		check()
	}
	fill()
	if e.dels != target && !e.dead {
		// (cannot happen: every forward unit stops at the target) keep the case honest rather than silently off
		e.fail("harness", "search leg cross: reached %d departures instead of %d", e.dels, target)
		return e
	}
	e.full(true)
	switch inside {
	case "put":
		put()
	case "remove":
		if k, ok := e.ref.oldest(); ok {
			e.remove(k.(string))
		}
	case "removeoldest":
		e.removeOldest()
	case "resize":
		e.resize(1)
		e.full(true)
		e.resize(capacity)
	case "purge":
		e.purge()
	}
	e.full(true)
	// the same keys again, then a random history, all fully observed
	for i := 0; i < capacity+3 && !e.dead; i++ {
		val++
		e.put("x"+strconv.Itoa(fresh-i), val)
		e.full(true)
	}
	e.burst(rnd, 60, &val)
	return e
}

func legCross(r *hxlib.Run) {
	t0 := time.Now()
	n, deps := 0, 0
	for _, b := range []int{1 << 16, 1 << 17, 1 << 18, 1 << 20} {
		for i, fw := range crossForward {
			if b == 1<<20 && i != int(r.Seed)%len(crossForward) && fw != "evict-put" {
				continue // 2^20: the plain forward kind and one other per seed
			}
			for _, in := range crossInside {
				c := scase{Leg: "cross", Variant: fw + "/" + in, Cap: []int{8, 16, 33}[(n+int(r.Seed))%3], N: b, Seed: r.R.U64()}
				r.Case()
				r.Count("search:cross")
				n++
				e := runCross(c)
				deps += e.dels
				if e.report(r, c) {
					return
				}
			}
		}
	}
	r.Note("search leg cross: %d caches; departure number 2^16, 2^17, 2^18 (and 2^20) of a cache made to fall inside an evicting Put / Remove / RemoveOldest / Resize(1) of several entries / Purge of several entries, reached through %v; complete observation near every multiple of 2^16 of calls/insertions/departures/lookups; %d departures, %.1fs",
		n, crossForward, deps, time.Since(t0).Seconds())
}

// ---- entry points ------------------------------------------------------------------------------------------

func runSearchCase(c scase) *eng {
	switch c.Leg {
	case "collide-int":
		return runCollideInt(c)
	case "scale":
		return runScale(c)
	case "period":
		return runPeriod(c)
	case "cross":
		return runCross(c)
	}
	e := newEng(1)
	e.fail("harness", "unknown search leg %q", c.Leg)
	return e
}

func searchLegs(r *hxlib.Run) {
	for _, leg := range []func(*hxlib.Run){legCollide, legScale, legCross, legPeriod} {
		if r.Failed() {
			r.Note("search: remaining legs skipped after the first failing input")
			return
		}
		leg(r)
	}
}
