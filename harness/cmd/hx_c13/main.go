// hx_c13: correspondence harness + oracle for C13 (collections/lru.Cache).
//
// A case is a capacity, whether an eviction callback is installed, and a list of method calls.
// The real cache is run in-process; every call is one protocol line (`put 3 107` ...) answered
// `<result> | <callback log>`; the callback records (key, value, dynamic type of the value).
// The oracle is a deliberately dumb reference LRU that keeps a last-use stamp per key (only Put and
// Get stamp), evicts the smallest stamp, and knows nothing about lists; after every call it compares
// the returned values, the capacity bound, the whole contents (Keys/Peek/Contains/Len probes, which
// do not count as use) and the callback arguments against it.
package main

import (
	"fmt"
	"hash/fnv"
	"io"
	"log"
	"sort"
	"strconv"
	"strings"

	"verifharness/hxlib"

	"qchen.fun/fatchoy/collections/lru"
)

type op struct {
	Name string `json:"op"`
	K    int    `json:"k,omitempty"`
	V    int    `json:"v,omitempty"` // value of put, argument of resize
}

type tcase struct {
	Cap int  `json:"cap"`
	Cb  bool `json:"cb"`
	Ops []op `json:"ops"`
}

func (o op) line() string {
	switch o.Name {
	case "put":
		return fmt.Sprintf("put %d %d", o.K, o.V)
	case "resize":
		return fmt.Sprintf("resize %d", o.V)
	case "get", "peek", "contains", "remove":
		return fmt.Sprintf("%s %d", o.Name, o.K)
	}
	return o.Name
}

func key(k int) string { return strconv.Itoa(k) }

// ---- canonical rendering of what the real code returned -------------------------------------------

func showVal(v interface{}) string {
	switch x := v.(type) {
	case nil:
		return "nil"
	case int:
		return strconv.Itoa(x)
	}
	return fmt.Sprintf("?%T", v)
}

func showKey(k interface{}) string {
	switch x := k.(type) {
	case nil:
		return "nil"
	case string:
		if x == "" {
			return `""`
		}
		return x
	}
	return fmt.Sprintf("?%T", k)
}

type event struct {
	K, V interface{}
}

func (e event) String() string {
	if v, ok := e.V.(int); ok {
		return fmt.Sprintf("%s=%d:int", showKey(e.K), v)
	}
	return fmt.Sprintf("%s=?:%T", showKey(e.K), e.V)
}

func numOf(k interface{}) int {
	s, _ := k.(string)
	n, err := strconv.Atoi(s)
	if err != nil {
		return -1
	}
	return n
}

func showLog(evs []event, sorted bool) string {
	if len(evs) == 0 {
		return "-"
	}
	evs = append([]event{}, evs...)
	if sorted {
		sort.SliceStable(evs, func(i, j int) bool {
			a, b := numOf(evs[i].K), numOf(evs[j].K)
			if a != b {
				return a < b
			}
			x, _ := evs[i].V.(int)
			y, _ := evs[j].V.(int)
			return x < y
		})
	}
	parts := make([]string, len(evs))
	for i, e := range evs {
		parts[i] = e.String()
	}
	return strings.Join(parts, ",")
}

// ---- the reference LRU (oracle) -------------------------------------------------------------------

type refEnt struct {
	v    int
	used int // stamp of the last Put or Get of this key
}

type refLRU struct {
	cap   int
	clock int
	m     map[string]*refEnt
}

func (r *refLRU) touch(k string) { r.clock++; r.m[k].used = r.clock }

// oldest returns the key with the smallest stamp ("" when empty).
func (r *refLRU) oldest() (string, bool) {
	best, found := "", false
	for k, e := range r.m {
		if !found || e.used < r.m[best].used {
			best, found = k, true
		}
	}
	return best, found
}

// keysOldestFirst: keys by ascending stamp.
func (r *refLRU) keysOldestFirst() []string {
	ks := make([]string, 0, len(r.m))
	for k := range r.m {
		ks = append(ks, k)
	}
	sort.Slice(ks, func(i, j int) bool { return r.m[ks[i]].used < r.m[ks[j]].used })
	return ks
}

type kv struct {
	k string
	v int
}

// evictOldest removes the least recently used entry and reports it.
func (r *refLRU) evictOldest() (kv, bool) {
	k, ok := r.oldest()
	if !ok {
		return kv{}, false
	}
	e := kv{k, r.m[k].v}
	delete(r.m, k)
	return e, true
}

// ---- one case -------------------------------------------------------------------------------------

type failure struct {
	key, what string
}

// exec runs the case on the real code; rec != nil records the protocol lines; returns oracle failures
// and whether the case is non-trivial by the property's rule.
func exec(c tcase, rec *hxlib.Run) (fails []failure, nontrivial bool) {
	fail := func(key, format string, a ...interface{}) {
		fails = append(fails, failure{key, fmt.Sprintf(format, a...)})
	}
	var evs []event
	var cb func(k, v interface{})
	if c.Cb {
		cb = func(k, v interface{}) { evs = append(evs, event{k, v}) }
	}
	var cache *lru.Cache
	p := hxlib.Guard(func() { cache = lru.NewCache(c.Cap, cb) })
	if rec != nil {
		ans := "ok"
		if p != "" {
			ans = "panic"
		}
		rec.Op(fmt.Sprintf("new %d %d", c.Cap, b2i(c.Cb)), ans)
	}
	if (p != "") != (c.Cap <= 0) {
		fail("new", "NewCache(%d) panic=%q, the constructor must refuse exactly the capacities <= 0", c.Cap, p)
	}
	if p != "" {
		return
	}
	ref := &refLRU{cap: c.Cap, m: map[string]*refEnt{}}
	for i, o := range c.Ops {
		evs = evs[:0]
		var got, want string
		var wantLeft []kv // entries that must be reported to the callback (as a multiset)
		ordered := true   // the callback order is determined (false for Purge)
		inDomain := true
		ks := key(o.K)
		pn := hxlib.Guard(func() {
			switch o.Name {
			case "len":
				got = strconv.Itoa(cache.Len())
				want = strconv.Itoa(len(ref.m))
			case "cap":
				got = strconv.Itoa(cache.Cap())
				want = strconv.Itoa(ref.cap)
			case "contains":
				got = strconv.FormatBool(cache.Contains(ks))
				_, ok := ref.m[ks]
				want = strconv.FormatBool(ok)
			case "get":
				v, ok := cache.Get(ks)
				got = fmt.Sprintf("%s %v", showVal(v), ok)
				if e, ok := ref.m[ks]; ok {
					want = fmt.Sprintf("%d true", e.v)
					ref.touch(ks)
				} else {
					want = "nil false"
				}
			case "peek":
				v, ok := cache.Peek(ks)
				got = fmt.Sprintf("%s %v", showVal(v), ok)
				if e, ok := ref.m[ks]; ok {
					want = fmt.Sprintf("%d true", e.v)
				} else {
					want = "nil false"
				}
			case "oldest":
				k, v, ok := cache.GetOldest()
				got = fmt.Sprintf("%s %s %v", showKey(k), showVal(v), ok)
				if rk, ok := ref.oldest(); ok {
					want = fmt.Sprintf("%s %d true", rk, ref.m[rk].v)
				} else {
					want = `"" nil false`
				}
			case "keys":
				got = showKeys(cache.Keys())
				want = joinOrDash(ref.keysOldestFirst())
			case "put":
				got = strconv.FormatBool(cache.Put(ks, o.V))
				if e, ok := ref.m[ks]; ok {
					e.v = o.V
					ref.touch(ks)
					want = "false"
				} else {
					ref.m[ks] = &refEnt{v: o.V}
					ref.touch(ks)
					want = "true"
					if len(ref.m) > ref.cap {
						if e, ok := ref.evictOldest(); ok {
							wantLeft = append(wantLeft, e)
							nontrivial = true
						}
					}
				}
			case "resize":
				got = strconv.Itoa(cache.Resize(o.V))
				n := 0
				for len(ref.m) > o.V && len(ref.m) > 0 {
					e, _ := ref.evictOldest()
					wantLeft = append(wantLeft, e)
					n++
				}
				ref.cap = o.V
				want = strconv.Itoa(n)
				if n > 0 {
					nontrivial = true
				}
				if o.V < 0 {
					inDomain = false // capacities below 0 are outside the property; the return value is not judged
				}
			case "remove":
				got = strconv.FormatBool(cache.Remove(ks))
				if e, ok := ref.m[ks]; ok {
					wantLeft = append(wantLeft, kv{ks, e.v})
					delete(ref.m, ks)
					want = "true"
				} else {
					want = "false"
				}
			case "removeoldest":
				k, v, ok := cache.RemoveOldest()
				got = fmt.Sprintf("%s %s %v", showKey(k), showVal(v), ok)
				if e, ok := ref.evictOldest(); ok {
					wantLeft = append(wantLeft, e)
					want = fmt.Sprintf("%s %d true", e.k, e.v)
				} else {
					want = "nil nil false"
				}
			case "purge":
				cache.Purge()
				got = "ok"
				want = "ok"
				ordered = false
				for _, k := range ref.keysOldestFirst() {
					wantLeft = append(wantLeft, kv{k, ref.m[k].v})
				}
				if len(ref.m) > 0 {
					nontrivial = true
				}
				ref.m = map[string]*refEnt{}
			default:
				panic("harness: unknown op " + o.Name)
			}
		})
		if pn != "" {
			got = "panic"
			fail("panic:"+o.Name, "op %d %s panicked: %s", i, o.line(), pn)
		}
		if rec != nil {
			rec.Op(o.line(), got+" | "+showLog(evs, !ordered))
			rec.Count("op:" + o.Name)
		}
		if pn != "" {
			return
		}
		// --- the property, judged on the real code ---
		if got != want && inDomain {
			fail("result:"+o.Name, "op %d %s returned %q, a reference LRU returns %q", i, o.line(), got, want)
		}
		// callbacks: exactly the entries that left, once each, with the stored value
		if c.Cb {
			checkCallbacks(o, i, evs, wantLeft, ordered, fail)
		}
		// capacity bound
		if ref.cap >= 0 && cache.Len() > cache.Cap() {
			fail("bound", "after op %d %s the cache holds %d entries with capacity %d", i, o.line(), cache.Len(), cache.Cap())
		}
		// contents and recency order, by probes that do not count as use
		if cache.Len() != len(ref.m) {
			fail("contents:len", "after op %d %s Len()=%d, reference holds %d", i, o.line(), cache.Len(), len(ref.m))
		}
		if g, w := showKeys(cache.Keys()), joinOrDash(ref.keysOldestFirst()); g != w {
			fail("contents:order", "after op %d %s Keys()=%s, reference oldest-to-newest order is %s", i, o.line(), g, w)
		}
		for k := 0; k <= 9; k++ {
			v, ok := cache.Peek(key(k))
			e, rok := ref.m[key(k)]
			if ok != rok || cache.Contains(key(k)) != rok || (ok && v != interface{}(e.v)) {
				fail("contents:value", "after op %d %s Peek(%d)=(%v,%v), reference has (%v,%v)", i, o.line(), k, v, ok, e, rok)
			}
		}
		if len(evs) > 0 && rec != nil {
			rec.Count("callback-fired:" + o.Name)
		}
	}
	return
}

func checkCallbacks(o op, i int, evs []event, want []kv, ordered bool, fail func(string, string, ...interface{})) {
	for _, e := range evs {
		if _, ok := e.V.(int); !ok {
			fail("callback-value:"+o.Name, "op %d %s: the callback got a value of dynamic type %T for key %v, not the stored value", i, o.line(), e.V, e.K)
			return
		}
	}
	g := make([]string, len(evs))
	for j, e := range evs {
		g[j] = e.String()
	}
	w := make([]string, len(want))
	for j, e := range want {
		w[j] = fmt.Sprintf("%s=%d:int", e.k, e.v)
	}
	if !ordered {
		sort.Strings(g)
		sort.Strings(w)
	}
	if strings.Join(g, ",") != strings.Join(w, ",") {
		fail("callback:"+o.Name, "op %d %s: callback saw [%s], the entries that left the cache are [%s]", i, o.line(), strings.Join(g, ","), strings.Join(w, ","))
	}
}

func showKeys(ks []interface{}) string {
	s := make([]string, len(ks))
	for i, k := range ks {
		s[i] = showKey(k)
	}
	return joinOrDash(s)
}

func joinOrDash(s []string) string {
	if len(s) == 0 {
		return "-"
	}
	return strings.Join(s, ",")
}

func b2i(b bool) int {
	if b {
		return 1
	}
	return 0
}

func caseKey(c tcase) string {
	h := fnv.New64a()
	fmt.Fprintf(h, "%d/%v", c.Cap, c.Cb)
	for _, o := range c.Ops {
		fmt.Fprintf(h, ";%s,%d,%d", o.Name, o.K, o.V)
	}
	return fmt.Sprintf("%016x", h.Sum64())
}

// one runs a case, records it, and reports (shrunk) oracle failures.
func one(r *hxlib.Run, c tcase) {
	r.Case()
	fails, nt := exec(c, r)
	if nt {
		r.NonTrivial(caseKey(c))
	}
	seen := map[string]bool{}
	for _, f := range fails {
		if seen[f.key] {
			continue
		}
		seen[f.key] = true
		// shrink: keep the ops needed for a failure with the same key
		small := c
		keep := hxlib.DDMin(len(c.Ops), func(keep []int) bool {
			cand := tcase{Cap: c.Cap, Cb: c.Cb}
			for _, j := range keep {
				cand.Ops = append(cand.Ops, c.Ops[j])
			}
			fs, _ := exec(cand, nil)
			for _, g := range fs {
				if g.key == f.key {
					return true
				}
			}
			return false
		})
		small.Ops = nil
		for _, j := range keep {
			small.Ops = append(small.Ops, c.Ops[j])
		}
		what := f.what
		if fs, _ := exec(small, nil); len(fs) > 0 {
			for _, g := range fs {
				if g.key == f.key {
					what = g.what
					break
				}
			}
		}
		r.Fail(f.key, fmt.Sprintf("cap=%d, %d op(s): %s", small.Cap, len(small.Ops), what), small)
	}
}

// ---- generators -----------------------------------------------------------------------------------

func randomCase(r *hxlib.Run, nk, maxCap, n int, wide bool) tcase {
	c := tcase{Cap: r.R.Range(1, maxCap), Cb: !r.R.Chance(1, 8)}
	val := 100
	for i := 0; i < n; i++ {
		k := r.R.Range(1, nk)
		var o op
		switch x := r.R.Intn(100); {
		case x < 34:
			val++
			o = op{Name: "put", K: k, V: val}
		case x < 50:
			o = op{Name: "get", K: k}
		case x < 56:
			o = op{Name: "peek", K: k}
		case x < 60:
			o = op{Name: "contains", K: k}
		case x < 68:
			o = op{Name: "remove", K: k}
		case x < 74:
			o = op{Name: "removeoldest"}
		case x < 79:
			o = op{Name: "oldest"}
		case x < 84:
			o = op{Name: "keys"}
		case x < 87:
			o = op{Name: "len"}
		case x < 89:
			o = op{Name: "cap"}
		case x < 96:
			lo := 0
			if wide && r.R.Chance(1, 6) {
				lo = -2
			}
			o = op{Name: "resize", V: r.R.Range(lo, maxCap+1)}
		default:
			o = op{Name: "purge"}
		}
		c.Ops = append(c.Ops, o)
	}
	return c
}

// aimed cases: the places the property's quantifier names.
func aimed() []tcase {
	put := func(k, v int) op { return op{Name: "put", K: k, V: v} }
	get := func(k int) op { return op{Name: "get", K: k} }
	peek := func(k int) op { return op{Name: "peek", K: k} }
	has := func(k int) op { return op{Name: "contains", K: k} }
	rem := func(k int) op { return op{Name: "remove", K: k} }
	rs := func(n int) op { return op{Name: "resize", V: n} }
	keys, oldest, ro, purge, ln := op{Name: "keys"}, op{Name: "oldest"}, op{Name: "removeoldest"}, op{Name: "purge"}, op{Name: "len"}
	var out []tcase
	for _, cb := range []bool{true, false} {
		out = append(out,
			// eviction at capacity, in put order
			tcase{2, cb, []op{put(1, 11), put(2, 12), put(3, 13), keys, put(4, 14), keys, ln}},
			// get protects, peek and contains do not
			tcase{2, cb, []op{put(1, 11), put(2, 12), get(1), put(3, 13), keys}},
			tcase{2, cb, []op{put(1, 11), put(2, 12), peek(1), put(3, 13), keys}},
			tcase{2, cb, []op{put(1, 11), put(2, 12), has(1), put(3, 13), keys}},
			// overwriting moves to the front and fires nothing
			tcase{2, cb, []op{put(1, 11), put(2, 12), put(1, 21), put(3, 13), keys, get(1)}},
			// capacity one
			tcase{1, cb, []op{put(1, 11), put(1, 12), put(2, 13), get(1), get(2), ro, ro, oldest}},
			// resize below the size, to the size, above, to zero, and growth afterwards
			tcase{4, cb, []op{put(1, 11), put(2, 12), put(3, 13), put(4, 14), get(1), rs(2), keys, rs(2), rs(5), put(5, 15), put(6, 16), put(7, 17), keys, put(8, 18), keys}},
			tcase{3, cb, []op{put(1, 11), put(2, 12), rs(0), keys, put(3, 13), keys, ln, rs(1), put(4, 14), keys}},
			// purge on a non-empty and on an empty cache, reuse afterwards
			tcase{3, cb, []op{put(1, 11), put(2, 12), put(3, 13), purge, ln, keys, oldest, purge, put(2, 22), keys}},
			tcase{5, cb, []op{put(5, 15), put(4, 14), put(3, 13), put(2, 12), put(1, 11), get(3), purge}},
			// removal of present / absent keys, of the oldest, of the newest; empty cache
			tcase{3, cb, []op{rem(1), ro, oldest, keys, put(1, 11), put(2, 12), put(3, 13), rem(1), rem(1), rem(3), keys, ro, ro, ln}},
			// out of the property's domain (kept for the model correspondence): negative resize, bad constructor
			tcase{2, cb, []op{put(1, 11), put(2, 12), rs(-1), ln, put(3, 13), ln, rs(2), put(4, 14), keys}},
			tcase{0, cb, nil}, tcase{-3, cb, nil},
		)
	}
	return out
}

// exhaustive sweep (thorough): every sequence of length <= depth over a small alphabet.
func sweep(r *hxlib.Run, capacity, depth int) {
	alpha := []op{
		{Name: "put", K: 1}, {Name: "put", K: 2}, {Name: "put", K: 3},
		{Name: "get", K: 1}, {Name: "get", K: 2}, {Name: "peek", K: 1},
		{Name: "remove", K: 2}, {Name: "removeoldest"}, {Name: "resize", V: 1}, {Name: "resize", V: 2}, {Name: "purge"},
	}
	idx := make([]int, depth)
	n := 1
	for i := 0; i < depth; i++ {
		n *= len(alpha)
	}
	for s := 0; s < n; s++ {
		x := s
		c := tcase{Cap: capacity, Cb: true}
		for i := 0; i < depth; i++ {
			idx[i] = x % len(alpha)
			x /= len(alpha)
			o := alpha[idx[i]]
			if o.Name == "put" {
				o.V = 100 + i
			}
			c.Ops = append(c.Ops, o)
		}
		c.Ops = append(c.Ops, op{Name: "keys"})
		one(r, c)
	}
}

func main() {
	r := hxlib.Start("C13", "an op sequence on one cache; non-trivial when it caused at least one eviction, a Resize below the size, or a Purge of a non-empty cache; distinct by (capacity, callback, op list)")
	defer r.Finish()
	log.SetOutput(io.Discard)
	if r.Replay != "" {
		var sc scase
		r.LoadReplay(&sc)
		if isLeg4(sc.Leg) { // a case of legs4.go (normal tiers)
			r.Case()
			runNaN(sc).report(r, sc)
			r.Sample(sc)
			return
		}
		if isLeg3(sc.Leg) { // a case of legs3.go (normal tiers)
			r.Case()
			runLeg3(sc).report(r, sc)
			r.Sample(sc)
			return
		}
		if sc.Leg != "" { // a case of a search leg (search.go): regenerated from its parameters
			r.Case()
			runSearchCase(sc).report(r, sc)
			r.Sample(sc)
			return
		}
		var c tcase
		r.LoadReplay(&c)
		one(r, c)
		r.Sample(c)
		return
	}
	for _, c := range aimed() {
		one(r, c)
	}
	n := r.Scale(4000, 400000)
	for i := 0; i < n; i++ {
		nk, maxCap := 6, 5
		if i%5 == 4 {
			nk, maxCap = 9, 8
		}
		c := randomCase(r, nk, maxCap, r.R.Range(5, 60), i%3 == 0)
		if i < 3 {
			r.Sample(c)
		}
		one(r, c)
	}
	if r.Thorough() {
		sweep(r, 1, 4)
		sweep(r, 2, 6)
		sweep(r, 3, 5)
		r.Note("bounded sweep: every op sequence of length 4 (capacity 1), 6 (capacity 2) and 5 (capacity 3) over an 11-letter alphabet was run on the real code against the reference")
	}
	// key / value types, re-entrant callbacks, word-size arguments, held listings (legs3.go; oracle-only)
	typeLegs(r)
	// keys that are not equal to themselves (legs4.go; oracle-only)
	nanLegs(r)
	if r.Search {
		if r.Failed() {
			r.Note("search legs not run: the thorough generators already produced a failing input")
		} else {
			searchLegs(r)
		}
	}
	r.Note("keys are decimal strings (Remove takes a string), values are ints; Purge's callback order is Go map order and is compared as a sorted multiset")
}
