// legs4.go: fourth-wave leg of hx_c13, NORMAL tiers (quick and thorough), oracle-only (the model's keys are small ints).
//
//	nan  (W3) keys that are not equal to themselves: float64 / float32 NaN (several payloads, both signs), complex NaN,
//	     structs, arrays and interface-holding arrays / structs containing a NaN — put, evicted, put again — next to
//	     ordinary keys (strings, ints, ±0.0, ±Inf, a pointer to a NaN) and NaN VALUES. Reference semantics: Go `==` on
//	     the keys, so every Put of such a key is a NEW entry (returns true, evicts the oldest when the cache is full) and
//	     Get / Peek / Contains of it find nothing and move nothing. Judged after every call: the return value, the
//	     callback stream (key and value objects compared by identity, bit patterns for floats), Len() = number of
//	     entries, Len() <= Cap(), Cap(), GetOldest; RemoveOldest / Resize / Remove(string) as a reference LRU.
//
// Excluded, because the UNCHANGED code already misbehaves there once such a key has been in the cache (its map slot can
// never be deleted): Keys() after an irreflexive key has left the cache (trailing nils), and Purge() in any history
// that puts an irreflexive key (re-reports evicted entries, never empties the index). Keys() IS judged while no
// irreflexive key has left yet.
package main

import (
	"fmt"
	"math"
	"time"

	"verifharness/hxlib"

	"qchen.fun/fatchoy/collections/lru"
)

type nanStruct struct {
	f float64
	n int
}
type nanIface struct {
	x interface{}
	s string
}

var nanPtrTarget = math.NaN()

// nanKey: an irreflexive key (k != k), fresh each time (they are all different keys anyway).
func nanKey(rr *hxlib.Rand) interface{} {
	switch rr.Intn(12) {
	case 0, 1, 2:
		return math.NaN()
	case 3:
		return math.Float64frombits(0x7ff0000000000001 | uint64(rr.Intn(1<<20))<<8) // other payloads, signalling ones too
	case 4:
		return math.Float64frombits(0xfff8000000000000) // negative quiet NaN
	case 5:
		return float32(math.NaN())
	case 6:
		return complex(math.NaN(), 0)
	case 7:
		return nanStruct{math.NaN(), rr.Intn(2)}
	case 8:
		return [2]float64{0, math.NaN()}
	case 9:
		return [1]interface{}{math.NaN()}
	case 10:
		return nanIface{math.NaN(), "k"}
	default:
		return complex64(complex(0, math.NaN()))
	}
}

// plainKey: ordinary keys, several of them numerically next to NaN.
func plainKey(rr *hxlib.Rand) interface{} {
	switch rr.Intn(12) {
	case 0:
		return "a"
	case 1:
		return "b"
	case 2:
		return "c"
	case 3:
		return "NaN"
	case 4:
		return 0.0
	case 5:
		return math.Copysign(0, -1) // the same key as +0.0
	case 6:
		return math.Inf(1)
	case 7:
		return math.Inf(-1)
	case 8:
		return &nanPtrTarget // a pointer is equal to itself
	case 9:
		return nanStruct{1.5, 0}
	case 10:
		return rr.Intn(3)
	default:
		return nil
	}
}

func irreflexive(k interface{}) bool { return k != k }

type nent struct {
	k, v interface{}
}

type nanEng struct {
	c      *lru.Cache
	cap    int
	ents   []nent // oldest first
	evs    []nent // callbacks of the running call
	n      int
	fails  []failure
	leaked bool // an irreflexive key has left the cache
	nanPut bool
	evicts int
	nanOut int
}

func (e *nanEng) fail(key, format string, a ...interface{}) {
	if len(e.fails) < 4 {
		e.fails = append(e.fails, failure{key, fmt.Sprintf("call %d: ", e.n) + fmt.Sprintf(format, a...)})
	}
}

func (e *nanEng) find(k interface{}) int {
	for i, x := range e.ents {
		if x.k == k {
			return i
		}
	}
	return -1
}

func (e *nanEng) show() string {
	s := "["
	for i, x := range e.ents {
		if i > 0 {
			s += " "
		}
		s += showAny(x.k)
	}
	return s + "]"
}

// expectEvs: the callbacks of the call that just ran must be exactly want, in order.
func (e *nanEng) expectEvs(op string, want []nent) {
	if len(e.evs) != len(want) {
		e.fail("nan:callback-count", "%s fired %d callbacks, a reference LRU with %d of %d entries evicts %d here (entries oldest first were %s)", op, len(e.evs), len(e.ents), e.cap, len(want), e.show())
		return
	}
	for i := range want {
		if !identical(e.evs[i].k, want[i].k) || !identical(e.evs[i].v, want[i].v) {
			e.fail("nan:callback-entry", "%s: callback %d reported (%s, %s), the entry used least recently was (%s, %s)", op, i, showAny(e.evs[i].k), showAny(e.evs[i].v), showAny(want[i].k), showAny(want[i].v))
			return
		}
	}
}

func (e *nanEng) drop(i int) nent {
	x := e.ents[i]
	e.ents = append(e.ents[:i:i], e.ents[i+1:]...)
	if irreflexive(x.k) {
		e.leaked = true
		e.nanOut++
	}
	e.evicts++
	return x
}

func (e *nanEng) after(op string) {
	if l := e.c.Len(); l != len(e.ents) {
		e.fail("nan:len", "after %s Len()=%d, the cache holds %d entries %s (Cap %d)", op, l, len(e.ents), e.show(), e.cap)
	} else if l > e.c.Cap() {
		e.fail("nan:len-over-cap", "after %s Len()=%d exceeds Cap()=%d", op, l, e.c.Cap())
	}
	if c := e.c.Cap(); c != e.cap {
		e.fail("nan:cap", "after %s Cap()=%d, want %d", op, c, e.cap)
	}
	k, v, ok := e.c.GetOldest()
	if ok != (len(e.ents) > 0) || (ok && (!identical(k, e.ents[0].k) || !identical(v, e.ents[0].v))) {
		e.fail("nan:oldest", "after %s GetOldest()=(%s, %s, %v), entries oldest first are %s", op, showAny(k), showAny(v), ok, e.show())
	}
	if !e.leaked {
		ks := e.c.Keys()
		bad := len(ks) != len(e.ents)
		for i := 0; !bad && i < len(ks); i++ {
			bad = !identical(ks[i], e.ents[i].k)
		}
		if bad {
			e.fail("nan:keys", "after %s Keys()=%s, entries oldest first are %s", op, showList(ks), e.show())
		}
	}
}

func runNaN(c scase) *nanEng {
	rr := hxlib.NewRand(c.Seed)
	e := &nanEng{cap: c.Cap}
	e.c = lru.NewCache(c.Cap, func(k, v interface{}) { e.evs = append(e.evs, nent{k, v}) })
	nanPct := rr.Pick(30, 60, 100)
	val := func() interface{} {
		switch rr.Intn(5) {
		case 0:
			return math.NaN()
		case 1:
			return nanStruct{math.NaN(), e.n}
		case 2:
			return nil
		default:
			return e.n
		}
	}
	for step := 0; step < c.N && len(e.fails) == 0; step++ {
		e.n++
		e.evs = e.evs[:0]
		var k interface{}
		if rr.Intn(100) < nanPct {
			k = nanKey(rr)
		} else {
			k = plainKey(rr)
		}
		var op string
		p := ""
		switch x := rr.Intn(20); {
		case x < 11:
			op = "Put(" + showAny(k) + ")"
			v := val()
			var got bool
			p = hxlib.Guard(func() { got = e.c.Put(k, v) })
			if p != "" {
				break
			}
			var want []nent
			i := e.find(k)
			if i >= 0 {
				x := e.ents[i]
				e.ents = append(e.ents[:i:i], e.ents[i+1:]...)
				x.v = v
				e.ents = append(e.ents, x)
			} else {
				if irreflexive(k) {
					e.nanPut = true
				}
				e.ents = append(e.ents, nent{k, v})
				if len(e.ents) > e.cap {
					want = append(want, e.drop(0))
				}
			}
			if got != (i < 0) {
				e.fail("nan:put-result", "%s returned %v, the key was in the cache: %v", op, got, i >= 0)
			}
			e.expectEvs(op, want)
		case x < 13:
			op = "Get(" + showAny(k) + ")"
			var v interface{}
			var ok bool
			p = hxlib.Guard(func() { v, ok = e.c.Get(k) })
			if p != "" {
				break
			}
			i := e.find(k)
			if ok != (i >= 0) || (ok && !identical(v, e.ents[i].v)) {
				e.fail("nan:get", "%s = (%s, %v), entries %s", op, showAny(v), ok, e.show())
			}
			if i >= 0 {
				x := e.ents[i]
				e.ents = append(e.ents[:i:i], e.ents[i+1:]...)
				e.ents = append(e.ents, x)
			}
			e.expectEvs(op, nil)
		case x < 15:
			op = "Peek/Contains(" + showAny(k) + ")"
			var v interface{}
			var ok, has bool
			p = hxlib.Guard(func() { v, ok = e.c.Peek(k); has = e.c.Contains(k) })
			if p != "" {
				break
			}
			i := e.find(k)
			if ok != (i >= 0) || has != (i >= 0) || (ok && !identical(v, e.ents[i].v)) {
				e.fail("nan:peek", "%s = (%s, %v) / %v, entries %s", op, showAny(v), ok, has, e.show())
			}
			e.expectEvs(op, nil)
		case x < 16:
			op = "RemoveOldest()"
			var rk, rv interface{}
			var ok bool
			p = hxlib.Guard(func() { rk, rv, ok = e.c.RemoveOldest() })
			if p != "" {
				break
			}
			var want []nent
			if len(e.ents) > 0 {
				want = append(want, e.drop(0))
			}
			if ok != (len(want) > 0) || (ok && (!identical(rk, want[0].k) || !identical(rv, want[0].v))) {
				e.fail("nan:remove-oldest", "%s = (%s, %s, %v), want the entry used least recently %v", op, showAny(rk), showAny(rv), ok, want)
			}
			e.expectEvs(op, want)
		case x < 18:
			n := rr.Range(1, c.Cap+2)
			op = fmt.Sprintf("Resize(%d)", n)
			var got int
			p = hxlib.Guard(func() { got = e.c.Resize(n) })
			if p != "" {
				break
			}
			var want []nent
			for len(e.ents) > n {
				want = append(want, e.drop(0))
			}
			e.cap = n
			if got != len(want) {
				e.fail("nan:resize-result", "%s returned %d, %d entries had to go", op, got, len(want))
			}
			e.expectEvs(op, want)
		default:
			s := []string{"a", "b", "c", "NaN", "z"}[rr.Intn(5)]
			op = "Remove(" + s + ")"
			var got bool
			p = hxlib.Guard(func() { got = e.c.Remove(s) })
			if p != "" {
				break
			}
			var want []nent
			i := e.find(s)
			if i >= 0 {
				want = append(want, e.drop(i))
			}
			if got != (i >= 0) {
				e.fail("nan:remove", "%s returned %v, present: %v", op, got, i >= 0)
			}
			e.expectEvs(op, want)
		}
		if p != "" {
			e.fail("panic:nan", "%s panicked: %s", op, p)
			break
		}
		e.after(op)
	}
	return e
}

func (e *nanEng) report(r *hxlib.Run, c scase) bool {
	if len(e.fails) == 0 {
		return false
	}
	c.FailAt = e.n
	f := e.fails[0]
	r.Fail(f.key, fmt.Sprintf("leg nan (cap=%d n=%d seed=%d): %s", c.Cap, c.N, c.Seed, f.what), c)
	return true
}

func isLeg4(leg string) bool { return leg == "nan" }

// nanLegs runs in every tier. Cost: quick ≈ 0.2 s.
func nanLegs(r *hxlib.Run) {
	t0 := time.Now()
	cases, calls, evicts, nanOut := 0, 0, 0, 0
	for i := 0; i < r.Scale(1500, 40000); i++ {
		c := scase{Leg: "nan", Cap: r.R.Pick(1, 2, 2, 3, 4, 6), N: r.R.Pick(8, 20, 50), Seed: r.R.U64()}
		r.Case()
		r.Count("leg:nan")
		e := runNaN(c)
		cases++
		calls += e.n
		evicts += e.evicts
		nanOut += e.nanOut
		if e.evicts > 0 {
			r.NonTrivial(fmt.Sprintf("nan/%d/%d/%d", c.Cap, c.N, c.Seed))
		}
		if e.report(r, c) {
			// shrink by length: the shortest prefix that still fails
			return
		}
	}
	r.Note("leg nan: %d histories, %d calls, %d entries left the cache (%d of them under a key that is not equal to itself): NaN / struct / array / interface keys holding NaN put, evicted and put again next to ordinary keys; Keys() judged only while no such key has left, Purge not generated (both already wrong on the unchanged code after such a key), %.1fs",
		cases, calls, evicts, nanOut, time.Since(t0).Seconds())
}
