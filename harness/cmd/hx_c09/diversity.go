package main

// Third-wave legs of C09 (NORMAL tiers: a change that edits only function bodies never triggers -search).
//
//	before-epoch   every letter of the trajectory alphabet (S A J B K X Y W O) in a NEGATIVE-time variant, after 0..3
//	               ordinary letters: a generator created before the epoch (unset clock: 1970, 2000, 2019-12-31) whose
//	               clock stands, advances, jumps (inside the negatives, and across the epoch into the range), steps back
//	               from the range to before the epoch (by 1, by thousands, to −2^37, −2^38, −2^39+1), dips below the
//	               epoch while a call waits for the next unit, and "unset at boot, then corrected": refused readings
//	               that never stepped back must leave nothing behind (the corrected clock gives ids with rollback count 0
//	               and exact fields). Rule: a call that begins or ends with a negative reading must be refused. Outside
//	               the model's domain: oracle only. quick ≈ 700 cases, < 0.1 s.
//	auto-machine   NewSnowflake(0) and uuid.Init(0, …) derive the machine id from the host's private IPv4 address: the
//	               harness re-executes itself inside `unshare -n` with lo up and ONE private address of its choosing on
//	               it (third/fourth octets giving raw values below, at and above the 14-bit field: 192.168.100.7,
//	               10.1.255.254, 172.16.64.1, 192.168.63.255, 10.9.64.0, 172.31.128.1, 10.0.0.1, 192.168.192.192 …; also NO private
//	               address at all and a public one only: the documented fall-back machine id 0) and
//	               judges trajectories of the generator there with the expectation computed from the ADDRESS (machine
//	               field = raw mod 2^14; ids increase; time / rollback fields exact: nothing of the raw value may spill
//	               into the time field). Skipped with a Note when unshare / ip are not permitted. ≈ 0.3 s.

import (
	"bytes"
	"encoding/json"
	"fmt"
	"os"
	"os/exec"
	"strings"
	"sync"
	"time"

	"verifharness/hxlib"

	"qchen.fun/fatchoy/x/uuid"
)

// ---- before the epoch --------------------------------------------------------------------------------------------

// negLetter appends the negative-time variant `v` of letter l for generator 0 (cur = the builder's idea of the clock).
func negLetter(b *builder, l byte, v int) {
	cur := b.cur[0]
	k := int64(b.R.Range(2, 5000))
	// (down to −2^39+1: what a real clock can show at all — the nanosecond clock of the runtime overflows before the
	// reading reaches −2^40, where the shift of the time field would push every bit of it out of the word)
	deep := []int64{-1, -2, -k, -(1 << 31), -(1 << 32), -oMaxT, -oMaxT - 1, -(1 << 38), -(1 << 39) + 1}
	d := deep[(v+int(k))%len(deep)]
	switch l {
	case 'S': // the clock stands still before the epoch
		b.at(0, cur, cur, cur+1)
	case 'A':
		b.at(0, cur+1, cur+1, cur+2)
	case 'J': // a jump: inside the negatives, or across the epoch into the range
		if cur < 0 && v%2 == 1 {
			b.at(0, 1+k, 1+k, 2+k)
		} else {
			b.at(0, cur+k, cur+k, cur+k+1)
		}
	case 'B': // one unit back: from 0 (or wherever the clock is) to before the epoch
		if cur >= 0 {
			b.at(0, 0, 0, 1)
			b.cur[0] = 0
			b.at(0, -1, -1, 0)
		} else {
			b.at(0, cur-1, cur-1, cur)
		}
	case 'K': // far back: from the range to before the epoch
		if cur >= 0 {
			b.at(0, cur-cur-k, cur+1)
		} else {
			b.at(0, cur-k, cur+1)
		}
	case 'O': // far beyond the range on the negative side
		b.at(0, d, 1)
	case 'X': // the sequence is used up in a unit of the range; while the call waits the clock dips below the epoch
		if cur < 0 {
			cur = k
			b.at(0, cur, cur, cur+1)
		}
		b.exhaust(0)
		b.at(0, cur, -1, d, cur, cur+1)
		b.cur[0] = cur + 1
	case 'Y': // ... back and forth around the epoch, then two units on
		if cur < 0 {
			cur = k
			b.at(0, cur, cur, cur+1)
		}
		b.exhaust(0)
		b.at(0, cur, d, 0, -3, cur-1, cur+2)
		b.cur[0] = cur + 2
	case 'W': // ... and after the dip the clock has left the range on the other side
		if cur < 0 {
			cur = k
			b.at(0, cur, cur, cur+1)
		}
		b.exhaust(0)
		b.at(0, cur, d, oMaxT+1+k%3)
	}
}

func beforeEpochLegs(r *hxlib.Run) {
	R := hxlib.NewRand(r.Seed ^ 0xC09BE)
	// creation times: unset clocks (1970-01-01, 2000-01-01, one unit before the epoch), far negatives, and in-range ones
	unset := []int64{-157783680000, -63115200000, -1, -2, -5000, -(1 << 31) - 1, -(1 << 32), -oMaxT - 1, -(1 << 39) + 5002}
	inRange := []int64{0, 1, 3, 1000, 21_000_000_000}
	mids := []uint16{1, 1234, 0x3FFF, 0x4001, 0xFFFF, 0x8001}
	n := 0
	for _, l := range []byte(alphabet) {
		for v := 0; v < r.Scale(6, 24); v++ {
			for _, prefix := range []string{"", "S", "AS", "JSA"} {
				t0s := unset
				if strings.ContainsRune("BKXYW", rune(l)) || v%3 == 2 {
					t0s = inRange // these letters START in the range (or bring the clock there first)
				}
				t0 := t0s[(v+len(prefix))%len(t0s)]
				b := newBuilder(R, "before-epoch-"+string(l), genSpec{mids[(v+n)%len(mids)], t0})
				if t0 >= 0 {
					for i := 0; i < len(prefix); i++ {
						b.letter(0, prefix[i])
					}
				} else {
					for i := 0; i < len(prefix); i++ {
						negLetter(b, "SAJ"[int(prefix[i])%3], v)
					}
				}
				negLetter(b, l, v)
				// and on: the clock is corrected (in range, advancing) — judged when the oracle can still predict it
				t := int64(21_250_000_000) + int64(R.Intn(1000))
				b.at(0, t, t, t+1)
				b.at(0, t, t, t+1)
				b.at(0, t+1, t+1, t+2)
				do(r, b.c)
				n++
				r.Count("before-epoch:letter-" + string(l))
			}
		}
	}
	// unset at boot, only ever forward, then corrected: nothing may be left behind
	for k := 0; k < r.Scale(40, 400); k++ {
		t0 := unset[R.Intn(3)] - int64(R.Intn(1000))
		b := newBuilder(R, "before-epoch-corrected", genSpec{uint16(R.Range(1, 0x3FFF)), t0})
		t := t0
		for i, m := 0, R.Range(1, 5); i < m; i++ {
			t += int64(R.Pick(0, 1, 1, 7, 100))
			if t >= 0 {
				t = -1
			}
			b.at(0, t, t, t+1)
		}
		t = []int64{1, 2, 1000, 21_250_000_000}[R.Intn(4)] + int64(R.Intn(50))
		for i, m := 0, R.Range(2, 6); i < m; i++ {
			b.at(0, t, t, t+1)
			t += int64(R.Pick(0, 0, 1, 3))
		}
		// three rollbacks inside the range must still be accepted (the refused readings burnt none), the fourth not
		for i := 0; i < 4; i++ {
			if t > 2 {
				t--
			}
			b.at(0, t, t, t+1)
		}
		do(r, b.c)
		n++
		r.Count("before-epoch:unset-then-corrected")
	}
	r.Note("before-epoch legs: %d trajectories (every letter of %q in a negative-time variant; unset clock then corrected), oracle only", n, alphabet)
}

// ---- environment-derived machine ids -------------------------------------------------------------------------------

type autoCase struct {
	Kind string `json:"kind"` // auto-mid
	Addr string `json:"addr"`
}

type autoOut struct {
	Mid   int64  `json:"mid"`
	Fails []fail `json:"-"`
	F     []struct {
		Key  string `json:"key"`
		What string `json:"what"`
	} `json:"fails"`
	Cases int `json:"cases"`
}

// rawOf: third and fourth octet of a PRIVATE IPv4 address (10/8, 172.16/12, 192.168/16); anything else (a public
// address, "none": only the loopback address exists) gives 0, the documented fall-back.
func rawOf(addr string) int64 {
	var a, b, c, d int
	if n, _ := fmt.Sscanf(addr, "%d.%d.%d.%d", &a, &b, &c, &d); n != 4 {
		return 0
	}
	if !(a == 10 || a == 172 && b >= 16 && b < 32 || a == 192 && b == 168) {
		return 0
	}
	return int64(c)<<8 + int64(d)
}

// autoChildMain runs inside the private network namespace (HX_C09_AUTOMID = the configured address).
func autoChildMain(addr string) {
	uuid.VerifSetClock(clk.read)
	expectAutoRaw = rawOf(addr)
	R := hxlib.NewRand(uint64(expectAutoRaw)*77 + 5)
	var out autoOut
	addFails := func(fs []fail) {
		for _, f := range fs {
			out.F = append(out.F, struct {
				Key  string `json:"key"`
				What string `json:"what"`
			}{f.key, "private address " + addr + ": " + f.what})
		}
	}
	for _, t0 := range []int64{3, 21_000_000_000, oMaxT - 3} {
		for _, w := range []string{"SSAJ", "SXSA", "BSKSBSBS", "AYAS", "OSAB"} {
			b := newBuilder(R, "auto-mid", genSpec{0, t0})
			for i := 0; i < len(w); i++ {
				b.letter(0, w[i])
			}
			res := runCase(b.c, nil)
			addFails(res.fails)
			out.Cases++
		}
	}
	// next to a generator with an explicit machine id whose field differs: never the same id
	{
		other := uint16((expectAutoRaw + 1) % (1 << oMidBits))
		if other == 0 {
			other = 2
		}
		b := newBuilder(R, "auto-mid", genSpec{0, 5000}, genSpec{other, 5000})
		for _, l := range "SSAASJ" {
			b.letter(0, byte(l))
			b.cur[1] = b.cur[0]
			b.c.Steps = append(b.c.Steps, step{G: 1, R: b.c.Steps[len(b.c.Steps)-1].R})
		}
		res := runCase(b.c, nil)
		addFails(res.fails)
		out.Cases++
	}
	// the package-level path: uuid.Init(0, store) / uuid.NextUUID
	{
		t := int64(21_100_000_000)
		og := &oracleGen{spec: genSpec{0, t}, wantMid: expectAutoRaw % (1 << oMidBits), lastT: t}
		clk.offer([]int64{t})
		if err := uuid.Init(0, &apiStore{}); err != nil {
			addFails([]fail{{"api:init", "uuid.Init(0, store) failed on a working store: " + err.Error()}})
		} else {
			for i := 0; i < 12; i++ {
				t += int64(i % 3)
				fs := og.check(callAPI([]int64{t, t, t + 1}))
				for k := range fs {
					fs[k].key = "api:" + fs[k].key
					fs[k].what = "uuid.Init(0, …)/NextUUID: " + fs[k].what
				}
				addFails(fs)
			}
		}
		out.Cases++
	}
	sf := uuid.NewSnowflake(0)
	out.Mid, _, _, _, _ = sf.VerifState()
	json.NewEncoder(os.Stdout).Encode(out)
}

var autoAddrs = []string{"192.168.100.7", "10.1.255.254", "172.16.64.1", "192.168.63.255", "10.9.64.0", "172.31.128.1", "10.0.0.1", "none", "8.8.4.4", "192.168.192.192",
	"10.77.127.255", "172.20.255.255", "192.168.16.0", "10.3.191.9", "172.32.200.200", "192.169.77.77"}

// runAuto re-executes the harness in a private network namespace whose only private address is addr.
func runAuto(addr string) (out autoOut, skip string, err error) {
	self, e := os.Executable()
	if e != nil {
		return out, "os.Executable: " + e.Error(), nil
	}
	script := `ip link set lo up || exit 97; if [ "$1" != none ]; then ip addr add "$1"/24 dev lo || exit 97; fi; exec "$0"`
	cmd := exec.Command("unshare", "-n", "sh", "-c", script, self, addr)
	cmd.Env = append(os.Environ(), "HX_C09_AUTOMID="+addr)
	var so, se bytes.Buffer
	cmd.Stdout, cmd.Stderr = &so, &se
	done := make(chan error, 1)
	if e := cmd.Start(); e != nil {
		return out, "unshare cannot be started: " + e.Error(), nil
	}
	go func() { done <- cmd.Wait() }()
	select {
	case e = <-done:
	case <-time.After(60 * time.Second):
		cmd.Process.Kill()
		<-done
		return out, "", fmt.Errorf("the child in the private namespace did not finish within 60 s")
	}
	if e != nil {
		msg := strings.TrimSpace(se.String())
		if ee, ok := e.(*exec.ExitError); ok && (ee.ExitCode() == 97 || ee.ExitCode() == 1 && strings.Contains(msg, "unshare")) || strings.Contains(msg, "Operation not permitted") || strings.Contains(msg, "not found") {
			return out, "private network namespace not available here: " + firstLine(msg), nil
		}
		return out, "", fmt.Errorf("the child died: %v: %s", e, firstLine(msg))
	}
	if e := json.Unmarshal(so.Bytes(), &out); e != nil {
		return out, "", fmt.Errorf("unreadable child output: %v", e)
	}
	return out, "", nil
}

func firstLine(s string) string {
	if i := strings.IndexByte(s, '\n'); i >= 0 {
		s = s[:i]
	}
	if len(s) > 200 {
		s = s[:200]
	}
	return s
}

func judgeAuto(r *hxlib.Run, addr string, out autoOut, err error) {
	c := autoCase{Kind: "auto-mid", Addr: addr}
	r.Case()
	r.Count("auto-machine:children")
	raw := rawOf(addr)
	if raw >= 1<<oMidBits {
		r.Count("auto-machine:raw>=2^14")
		r.NonTrivial("auto-" + addr)
	}
	if err != nil {
		r.Fail("auto-machine:child", fmt.Sprintf("private address %s: %v", addr, err), c)
		return
	}
	r.CountN("auto-machine:trajectories", out.Cases)
	seen := map[string]bool{}
	for _, f := range out.F {
		if !seen[f.Key] {
			seen[f.Key] = true
			key := f.Key
			if raw >= 1<<oMidBits && !strings.Contains(key, ">=2^14") {
				key += ":machine>=2^14"
			}
			r.Fail(key, f.What, c)
		}
	}
}

func autoMachineLegs(r *hxlib.Run) {
	t0 := time.Now()
	addrs := autoAddrs
	if !r.Thorough() {
		addrs = addrs[:10]
	}
	// probe once
	out0, skip, err := runAuto(addrs[0])
	if skip != "" {
		r.Count("auto-machine:skipped")
		r.Note("auto-machine leg SKIPPED: %s", skip)
		return
	}
	judgeAuto(r, addrs[0], out0, err)
	type res struct {
		out autoOut
		err error
	}
	rs := make([]res, len(addrs))
	var wg sync.WaitGroup
	for i := 1; i < len(addrs); i++ {
		wg.Add(1)
		go func(i int) {
			defer wg.Done()
			o, _, e := runAuto(addrs[i])
			rs[i] = res{o, e}
		}(i)
	}
	wg.Wait()
	for i := 1; i < len(addrs); i++ {
		judgeAuto(r, addrs[i], rs[i].out, rs[i].err)
	}
	r.Note("auto-machine leg: %d private network namespaces (addresses %s), NewSnowflake(0) and uuid.Init(0, …) judged against the machine field computed from the address; %.1f s", len(addrs), strings.Join(addrs, " "), time.Since(t0).Seconds())
}

func diversityLegs(r *hxlib.Run) {
	t0 := time.Now()
	beforeEpochLegs(r)
	autoMachineLegs(r)
	r.Note("third-wave legs (diversity.go) took %.1f s", time.Since(t0).Seconds())
}
