package main

// tr.go: X for the translator. Gen/C09.lean `Tr.uuid` is the Lean translation of the expression Next assigns to
// sf.lastID, `Tr.machineID` of what NewSnowflake stores in machineID. Here the REAL Next / NewSnowflake are run with
// the generator put into chosen field states (hook VerifSetState) — also states no trajectory reaches: negative and
// huge fields, so that shifts lose bits and the int64 wraps — and the model driver evaluates the generated definitions
// on the same arguments. This checks the translator's semantics against Go, not the property.

import (
	"fmt"

	"verifharness/hxlib"

	"qchen.fun/fatchoy/x/uuid"
)

// trUUID: one real Next on a generator with fields (mid, seq, bc) reading the clock value ts; the call takes the
// `currentTs == lastTimeUnit` branch (seq is incremented first) unless fresh, in which case seq becomes 0.
func trUUID(r *hxlib.Run, sf *uuid.Snowflake, mid, seq, bc, ts int64, fresh bool) {
	const minInt64 = -1 << 63
	last := ts
	if fresh {
		last = ts - 1 // an earlier unit: seq restarts at 0 (ts-1 wraps for the smallest ts: then it is "backwards", bc+1)
	}
	sf.VerifSetState(mid, seq, last, minInt64, bc)
	clk.offer([]int64{ts})
	var id int64
	var err error
	if p := hxlib.Guard(func() { id, err = sf.Next() }); p != "" || err != nil {
		r.Count("tr-uuid-no-id") // the guard `uuid <= lastID` can only fire for uuid = MinInt64
		return
	}
	_, seq2, _, _, bc2 := sf.VerifState()
	r.Op(fmt.Sprintf("tr uuid %d %d %d %d", mid, seq2, bc2, ts), fmt.Sprint(id))
	r.Count("tr-uuid")
}

func trLeg(r *hxlib.Run) {
	R := hxlib.NewRand(r.Seed ^ 0x7A09) // a stream of its own: the cases of the other sections stay what they were
	clk.offer([]int64{1})
	sf := uuid.NewSnowflake(1)
	maxTime := int64(uuid.MaxTimeUnits)
	edge := []int64{0, 1, 2, 3, 4, 7, 8, 1022, 1023, 1024, 16383, 16384, 65535, 1 << 24, 1<<37 - 1, 1 << 37, 1<<40 - 1, 1 << 53, 1 << 54, 1<<62 - 1, 1 << 62, 1<<63 - 1, -1, -2, -1024, -1 << 40, -1 << 62, -1 << 63}
	tss := []int64{0, 1, 2, 1 << 24, 1 << 36, maxTime - 1, maxTime, -1, -2, -1 << 39, -1 << 40, -1<<63 + 1}
	for _, ts := range tss {
		for _, m := range edge {
			for _, b := range []int64{0, 1, 3, 4, 7, 8, -1, 1 << 62} {
				trUUID(r, sf, m, 0, b, ts, true)
				trUUID(r, sf, m, 5, b, ts, false)
			}
		}
		for _, s := range edge {
			if s < int64(uuid.MaxSeqID) { // seq+1 <= MaxSeqID: no wait for the next unit
				trUUID(r, sf, 3, s, 1, ts, false)
			}
		}
	}
	for k := 0; k < r.Scale(3000, 60000); k++ {
		pick := func() int64 {
			switch R.Intn(4) {
			case 0:
				return edge[R.Intn(len(edge))]
			case 1:
				return int64(R.U64() >> uint(R.Intn(64)))
			case 2:
				return -int64(R.U64() >> uint(1+R.Intn(63)))
			}
			return int64(R.U64())
		}
		ts := pick()
		if ts > maxTime {
			ts &= maxTime
		}
		seq := pick()
		if seq >= int64(uuid.MaxSeqID) {
			seq &= int64(uuid.MaxSeqID) - 1
		}
		trUUID(r, sf, pick(), seq, pick(), ts, R.Intn(3) == 0)
	}
	// NewSnowflake's machine-id expression: every non-zero uint16 in the thorough tier (0 takes the host address)
	step := r.Scale(97, 1)
	for m := 1; m < 65536; m += step {
		clk.offer([]int64{1})
		g := uuid.NewSnowflake(uint16(m))
		got, _, _, _, _ := g.VerifState()
		r.Op(fmt.Sprintf("tr machineID %d", m), fmt.Sprint(got))
	}
	for _, m := range []int{1, 16383, 16384, 16385, 32767, 32768, 49152, 65535} {
		clk.offer([]int64{1})
		g := uuid.NewSnowflake(uint16(m))
		got, _, _, _, _ := g.VerifState()
		r.Op(fmt.Sprintf("tr machineID %d", m), fmt.Sprint(got))
	}
	r.Count("translated-function-evaluations")
}
