// hx_c09: correspondence harness + oracle for C09 (snowflake ids).
//
// The real generator is driven through hook H3 (uuid.VerifSetClock): every call of Next is offered a
// script of clock readings (the first one, then what the clock shows while the call waits for the
// next time unit); the readings actually consumed go into the op line for the model.
package main

import (
	"errors"
	"fmt"
	"hash/fnv"
	"io"
	"log"
	"os"
	"sort"
	"strconv"
	"strings"
	"sync"
	"time"

	"verifharness/hxlib"

	"qchen.fun/fatchoy/x/uuid"
)

// The oracle's own statement of the id format (written independently of the library's constants).
const (
	oSeqBits  = 10
	oMidBits  = 14
	oTimeBits = 37
	oMaxT     = int64(1)<<oTimeBits - 1
	oMaxBack  = 3
)

type genSpec struct {
	Mid uint16 `json:"mid"`
	T0  int64  `json:"t0"`
}

// step: one call of Next on generator G, offered the script R (N = 0 or 1);
// N > 1: N calls, each reading R[0] once; N = -1: calls reading R[0] until the sequence of the unit
// is at its maximum (aimed with VerifState; stops at the first call that does not return an id).
type step struct {
	G int     `json:"g"`
	R []int64 `json:"r"`
	N int     `json:"n,omitempty"`
}

type scase struct {
	Kind  string    `json:"kind"`
	Gens  []genSpec `json:"gens,omitempty"`
	Steps []step    `json:"steps,omitempty"`
	// kind "concurrent": real goroutines on one generator under a generated clock
	Mid     uint16 `json:"mid,omitempty"`
	Workers int    `json:"workers,omitempty"`
	Each    int    `json:"each,omitempty"`
	Seed    uint64 `json:"seed,omitempty"`
	// failing-input search legs: kind "api" (package-level API), kind "long" (Each calls, Workers per time unit),
	// kind "concurrent" with Stall > 0 (clock readings stalling up to Stall ms)
	API   []apiStep `json:"api,omitempty"`
	Stall int       `json:"stall_ms,omitempty"`
	Addr  string    `json:"addr,omitempty"` // kind "auto-mid": the private IPv4 address of the namespace the child runs in
}

// ---- the fake clock ---------------------------------------------------------------------------

type starve struct{}

type clock struct {
	mu     sync.Mutex
	script []int64
	pos    int
	// generative mode (concurrent leg)
	genf func() int64
	log  []int64
}

func (c *clock) read() int64 {
	c.mu.Lock()
	defer c.mu.Unlock()
	if c.genf != nil {
		v := c.genf()
		c.log = append(c.log, v)
		return v
	}
	if c.pos >= len(c.script) {
		panic(starve{})
	}
	v := c.script[c.pos]
	c.pos++
	return v
}

func (c *clock) offer(s []int64)   { c.script, c.pos = s, 0 }
func (c *clock) consumed() []int64 { return c.script[:c.pos] }

var clk = &clock{}

// expectAutoRaw >= 0: NewSnowflake(0) must derive this raw machine value (third and fourth octet of the private IPv4).
var expectAutoRaw int64 = -1

// ---- running the real code ----------------------------------------------------------------------

type outcome struct {
	id   int64
	kind string // ok | err:time | err:backwards | err:overflow | err:other | starved | panic
	used []int64
}

func errKind(err error) string {
	switch {
	case errors.Is(err, uuid.ErrTimeUnitOverflow):
		return "err:time"
	case errors.Is(err, uuid.ErrClockGoneBackwards):
		return "err:backwards"
	case errors.Is(err, uuid.ErrUUIDIntOverflow):
		return "err:overflow"
	}
	return "err:other"
}

func stateLine(sf *uuid.Snowflake) string {
	_, seq, lt, lid, bc := sf.VerifState()
	return fmt.Sprintf("st=%d,%d,%d,%d", seq, lt, lid, bc)
}

func callNext(sf *uuid.Snowflake, script []int64) (o outcome) {
	clk.offer(script)
	func() {
		defer func() {
			if v := recover(); v != nil {
				if _, ok := v.(starve); ok {
					o.kind = "starved"
				} else {
					o.kind = "panic"
				}
			}
		}()
		id, err := sf.Next()
		if err != nil {
			o.kind = errKind(err)
		} else {
			o.kind, o.id = "ok", id
		}
	}()
	o.used = append([]int64(nil), clk.consumed()...)
	return o
}

func newGen(g genSpec) (sf *uuid.Snowflake, used int64) {
	clk.offer([]int64{g.T0})
	sf = uuid.NewSnowflake(g.Mid)
	m, _, _, _, _ := sf.VerifState()
	used = int64(g.Mid)
	if g.Mid == 0 {
		used = m // privateIP4(): environment dependent, passed to the model as a column
	}
	return sf, used
}

// ---- the oracle: the property, stated directly -------------------------------------------------

type oracleGen struct {
	spec     genSpec
	wantMid  int64
	lastT    int64 // creation time, then the time of the last id issued
	nback    int64 // backward jumps accepted so far
	lastID   int64
	poisoned bool
	hi       int64 // the highest reading any call began with (or the creation time): a refused reading below it may have burnt a rollback
	hiSet    bool
}

type fail struct{ key, what string }

func cls(g genSpec) string {
	if g.Mid >= 1<<oMidBits {
		return ":machine>=2^14"
	}
	return ""
}

// check judges one completed call against the property; used = readings the call consumed.
func (og *oracleGen) check(o outcome) (fs []fail) {
	add := func(key, format string, a ...interface{}) {
		if !strings.HasPrefix(key, "no-error") && key != "error-kind" {
			key += cls(og.spec) // the class of machine ids wider than the field
		}
		fs = append(fs, fail{key, fmt.Sprintf("machine id %d: ", og.spec.Mid) + fmt.Sprintf(format, a...)})
	}
	if o.kind == "starved" {
		og.poisoned = true // the call would still be waiting: no result to judge, and none after it
		return nil
	}
	if o.kind == "panic" {
		add("panic", "Next panicked (readings %v)", o.used)
		og.poisoned = true
		return
	}
	if o.kind == "ok" {
		// whatever else holds: ids of one generator strictly increase and are positive int64 values
		if o.id <= og.lastID {
			add("increasing", "id %d issued after %d", o.id, og.lastID)
		}
		og.lastID = o.id
	}
	if og.poisoned || len(o.used) == 0 {
		return
	}
	r1, final := o.used[0], o.used[len(o.used)-1]
	// readings before the epoch (negative): a call that BEGINS or ENDS with one must be refused (any error will do);
	// negative readings that only pass by while a call waits for the next unit are skipped by the wait (the call may
	// succeed — then with the fields of its last reading — or be refused)
	neg := r1 < 0 || final < 0
	negMid := false
	for i, r := range o.used {
		if r < 0 && i > 0 && i < len(o.used)-1 {
			negMid = true
		}
	}
	if !og.hiSet {
		og.hi, og.hiSet = og.spec.T0, true
	}
	steppedBack := r1 < og.hi
	if r1 > og.hi {
		og.hi = r1
	}
	var want string
	switch {
	case neg:
		want = "err" // before the epoch: outside the time range, any error will do
	case r1 > oMaxT:
		want = "err:time"
	case r1 < og.lastT && og.nback >= oMaxBack:
		want = "err:backwards"
	case final > oMaxT:
		want = "err:time"
	default:
		want = "ok"
	}
	if neg && (steppedBack || len(o.used) > 1) {
		// a refused reading that stepped back may or may not have been counted as a rollback: the oracle does not predict
		// what follows. (Refused readings that never stepped back — a clock that was unset when the machine booted and
		// only ever moved forward — leave nothing behind: what follows is judged as usual.)
		defer func() { og.poisoned = true }()
	}
	if want != "ok" {
		if o.kind == "ok" {
			what := "beyond-range"
			if want == "err:backwards" {
				what = "4th-rollback"
			} else if neg {
				what = "before-epoch"
			} else if len(o.used) > 1 {
				what = "beyond-range-after-wait"
			}
			add("no-error:"+what, "readings %v (last issued at %d, %d rollbacks so far) must be refused but Next returned id %d", o.used, og.lastT, og.nback, o.id)
			og.poisoned = true
		} else if want != "err" && o.kind != want {
			add("error-kind", "readings %v: want %s, got %s", o.used, want, o.kind)
			og.poisoned = true
		}
		return
	}
	if o.kind == "err:overflow" && final == 0 && og.wantMid == 0 && og.nback == 0 && og.lastID == 0 && og.spec.T0 < 0 {
		// time 0, machine field 0, sequence 0, no rollback is the id 0, which no generator can issue (ids are positive);
		// only a generator created before the epoch can get there
		og.poisoned = true
		return
	}
	if o.kind != "ok" && negMid {
		og.poisoned = true // tolerated (see above)
		return
	}
	if o.kind != "ok" {
		add("spurious:"+o.kind, "readings %v are inside the range (last issued at %d, %d rollbacks so far) but Next failed with %s", o.used, og.lastT, og.nback, o.kind)
		og.poisoned = true
		return
	}
	if r1 < og.lastT {
		og.nback++
	}
	og.lastT = final
	id := o.id
	seq := id & (1<<oSeqBits - 1)
	mid := (id >> oSeqBits) & (1<<oMidBits - 1)
	ts := (id >> (oSeqBits + oMidBits)) & (1<<oTimeBits - 1)
	bc := id >> (oSeqBits + oMidBits + oTimeBits)
	if id < 0 || bc != og.nback || ts != final || mid != og.wantMid {
		add("fields", "id %d splits into rollbacks=%d time=%d machine=%d seq=%d, produced from rollbacks=%d time=%d machine=%d",
			id, bc, ts, mid, seq, og.nback, final, og.wantMid)
		og.poisoned = true
	}
	return
}

// ---- one case --------------------------------------------------------------------------------------

type result struct {
	fails  []fail
	rolled bool
	waited bool
	hash   string
}

// runCase runs the case on the real code; rec != nil records op lines and counters.
func runCase(c scase, rec *hxlib.Run) (res result) {
	clk.genf = nil
	gens := make([]*uuid.Snowflake, len(c.Gens))
	ogs := make([]*oracleGen, len(c.Gens))
	owner := map[int64]int{}
	h := fnv.New64a()
	for i, g := range c.Gens {
		sf, used := newGen(g)
		gens[i] = sf
		m, _, _, _, _ := sf.VerifState()
		og := &oracleGen{spec: g, wantMid: int64(g.Mid) % (1 << oMidBits), lastT: g.T0}
		if g.Mid == 0 {
			og.wantMid = m
			if expectAutoRaw >= 0 {
				// (child in a private network namespace: the harness configured the host's only private IPv4 address itself)
				og.wantMid = expectAutoRaw % (1 << oMidBits)
				if m != og.wantMid {
					res.fails = append(res.fails, fail{"fields:auto-machine", fmt.Sprintf("the host's private IPv4 address ends in %d.%d (raw machine value %d): the generator's machine field must hold %d, it holds %d", expectAutoRaw>>8, expectAutoRaw&255, expectAutoRaw, og.wantMid, m)})
				}
			}
			if m < 0 || m >= 1<<oMidBits {
				res.fails = append(res.fails, fail{"fields:auto-machine", fmt.Sprintf("automatic machine id %d does not fit the machine field", m)})
			}
		}
		ogs[i] = og
		fmt.Fprintf(h, "g%d,%d;", g.Mid, g.T0)
		if rec != nil {
			rec.Op(fmt.Sprintf("new g=%d m=%d t0=%d", i, used, g.T0), fmt.Sprintf("mid=%d %s", m, stateLine(sf)))
		}
	}
	for _, st := range c.Steps {
		if st.G < 0 || st.G >= len(gens) || len(st.R) == 0 {
			continue
		}
		n, fill, script := st.N, st.N == -1, st.R
		if n == 0 {
			n = 1
		}
		if n != 1 {
			script = st.R[:1]
		}
		if fill {
			n = 1 << (oSeqBits + 1)
		}
		sf, og := gens[st.G], ogs[st.G]
		fmt.Fprintf(h, "%d:%v*%d;", st.G, st.R, st.N)
		var nok, nerr, calls int
		var first, last string = "-", "-"
		var sum, wsum uint64
		var lastOut outcome
		for k := 0; k < n; k++ {
			if fill {
				if _, seq, _, _, _ := sf.VerifState(); seq >= 1<<oSeqBits-1 {
					break
				}
			}
			o := callNext(sf, script)
			calls++
			lastOut = o
			res.fails = append(res.fails, og.check(o)...)
			if o.kind == "ok" {
				if len(gens) > 1 {
					if prev, dup := owner[o.id]; dup && ogs[prev].wantMid != og.wantMid {
						res.fails = append(res.fails, fail{"machines:duplicate" + cls(og.spec), fmt.Sprintf("id %d issued by machine %d and by machine %d", o.id, c.Gens[prev].Mid, og.spec.Mid)})
					}
					owner[o.id] = st.G
				}
				nok++
				if first == "-" {
					first = fmt.Sprint(o.id)
				}
				last = fmt.Sprint(o.id)
				sum += uint64(o.id)
				wsum += uint64(nok) * uint64(o.id)
			} else {
				nerr++
			}
			if len(o.used) > 1 {
				res.waited = true
			}
			if rec != nil {
				rec.Count(o.kind)
				if len(o.used) > 1 {
					rec.Count("waited-for-next-unit")
				}
			}
			if fill && o.kind != "ok" {
				break
			}
		}
		if _, _, _, _, bc := sf.VerifState(); bc > 0 {
			res.rolled = true
		}
		if rec != nil && calls > 0 {
			if st.N == 0 || st.N == 1 {
				out := lastOut.kind
				if out == "ok" {
					out = fmt.Sprintf("ok %d", lastOut.id)
				}
				rec.Op(fmt.Sprintf("next g=%d r=%s", st.G, i64s(lastOut.used)), out+" "+stateLine(sf))
			} else {
				rec.Op(fmt.Sprintf("burst g=%d n=%d r=%d", st.G, calls, script[0]),
					fmt.Sprintf("ok=%d err=%d first=%s last=%s sum=%d wsum=%d %s", nok, nerr, first, last, sum, wsum, stateLine(sf)))
			}
		}
	}
	res.hash = fmt.Sprintf("%016x", h.Sum64())
	return res
}

func i64s(v []int64) string {
	if len(v) == 0 {
		return "-"
	}
	p := make([]string, len(v))
	for i, x := range v {
		p[i] = strconv.FormatInt(x, 10)
	}
	return strings.Join(p, ",")
}

// modelable: the model is over non-negative readings
func modelable(c scase) bool {
	for _, g := range c.Gens {
		if g.T0 < 0 {
			return false
		}
	}
	for _, s := range c.Steps {
		for _, r := range s.R {
			if r < 0 {
				return false
			}
		}
	}
	return true
}

func shrink(c scase, key string) scase {
	has := func(cc scase) bool {
		for _, f := range runCase(cc, nil).fails {
			if f.key == key {
				return true
			}
		}
		return false
	}
	if len(c.Steps) > 400 || !has(c) {
		return c
	}
	keep := hxlib.DDMin(len(c.Steps), func(keep []int) bool {
		cc := scase{Kind: c.Kind, Gens: c.Gens}
		for _, i := range keep {
			cc.Steps = append(cc.Steps, c.Steps[i])
		}
		return has(cc)
	})
	out := scase{Kind: c.Kind, Gens: c.Gens}
	for _, i := range keep {
		out.Steps = append(out.Steps, c.Steps[i])
	}
	return out
}

var shrunk = map[string]int{}

func do(r *hxlib.Run, c scase) {
	r.Case()
	var rec *hxlib.Run
	if modelable(c) {
		rec = r
	} else {
		r.Count("oracle-only(negative readings)")
	}
	res := runCase(c, rec)
	r.Count("kind:" + c.Kind)
	if res.rolled || res.waited {
		r.NonTrivial(res.hash)
	}
	seen := map[string]bool{}
	for _, f := range res.fails {
		if seen[f.key] {
			continue
		}
		seen[f.key] = true
		if shrunk[f.key] >= 3 {
			r.Fail(f.key, f.what, nil)
			continue
		}
		shrunk[f.key]++
		small := shrink(c, f.key)
		what := f.what
		for _, g := range runCase(small, nil).fails {
			if g.key == f.key {
				what = g.what
				break
			}
		}
		r.Fail(f.key, what, small)
	}
}

// ---- trajectory builder ------------------------------------------------------------------------

// builder tracks what the case generator believes the clock of each generator to be.
type builder struct {
	c   scase
	cur []int64 // current clock per generator
	R   *hxlib.Rand
}

func newBuilder(R *hxlib.Rand, kind string, gens ...genSpec) *builder {
	b := &builder{R: R}
	b.c.Kind = kind
	b.c.Gens = gens
	for _, g := range gens {
		b.cur = append(b.cur, g.T0)
	}
	return b
}

func clamp(v int64) int64 {
	if v < 0 {
		return 0
	}
	return v
}

func (b *builder) at(g int, t int64, waits ...int64) {
	if t <= oMaxT {
		b.cur[g] = t
	}
	b.c.Steps = append(b.c.Steps, step{G: g, R: append([]int64{t}, waits...)})
}

// exhaust brings the sequence of the current unit to its maximum with one burst.
func (b *builder) exhaust(g int) {
	b.c.Steps = append(b.c.Steps, step{G: g, R: []int64{b.cur[g]}, N: -1})
}

// letter appends one letter of the step alphabet for generator g.
func (b *builder) letter(g int, l byte) {
	cur := b.cur[g]
	k := int64(b.R.Range(2, 5000))
	switch l {
	case 'S': // the clock stands still (if the call has to wait: one more stall, then the next unit)
		b.at(g, cur, cur, cur+1)
	case 'A':
		b.at(g, cur+1, cur+1, cur+2)
	case 'J':
		b.at(g, cur+k, cur+k, cur+k+1)
	case 'B':
		b.at(g, clamp(cur-1), clamp(cur-1), clamp(cur-1)+1)
	case 'K':
		b.at(g, clamp(cur-k), clamp(cur-k), clamp(cur-k)+1)
	case 'X': // long stall: exhaust the sequence, the next call waits for the next unit
		b.exhaust(g)
		if k%4 == 0 {
			b.at(g, cur, cur, cur+1) // the clock still stands when the wait begins
		} else {
			b.at(g, cur, cur+1)
		}
		b.cur[g] = cur + 1
	case 'Y': // ... and the clock steps back and forth while the call waits
		b.exhaust(g)
		if k%4 == 0 {
			b.at(g, cur, clamp(cur-1), cur, clamp(cur-3), cur+2)
		} else {
			b.at(g, cur, clamp(cur-1-k%3), cur+2)
		}
		b.cur[g] = cur + 2
	case 'W': // ... and the clock leaves the range while the call waits
		b.exhaust(g)
		b.at(g, cur, oMaxT+1+k%3)
	case 'O': // a reading beyond the range
		b.at(g, oMaxT+k, oMaxT+k+1)
	}
	if b.cur[g] > oMaxT {
		b.cur[g] = oMaxT
	}
}

const alphabet = "SAJBKXYWO"
const cheap = "SAJBKO" // without the letters that exhaust a sequence (1024 calls and a wait each)

func enumerate(r *hxlib.Run, alphabet string, mid uint16, t0 int64, maxLen int) {
	var rec func(prefix []byte)
	rec = func(prefix []byte) {
		if len(prefix) > 0 {
			b := newBuilder(r.R, "enum", genSpec{mid, t0})
			for _, l := range prefix {
				b.letter(0, l)
			}
			do(r, b.c)
		}
		if len(prefix) == maxLen {
			return
		}
		for i := 0; i < len(alphabet); i++ {
			rec(append(prefix, alphabet[i]))
		}
	}
	rec(nil)
}

func startTimes(R *hxlib.Rand) []int64 {
	return []int64{0, 1, 2, 1000, 21_000_000_000 + int64(R.Intn(1000000)), oMaxT - 2, oMaxT - 1, oMaxT,
		// just below internal power-of-two crossings of the 37-bit time (k*2^15, k*2^16, k*2^31, k*2^32, k*2^33; odd and even k)
		1<<15 - 1, 3<<16 - 2, 1<<31 - 1, 3<<31 - 2, 1<<32 - 1, 2<<32 - 2, 3<<32 - 1, 3<<33 - 2}
}

// crossings: the units k*2^b at which a narrower or differently signed internal representation of the time would wrap
func crossings() []int64 {
	var v []int64
	for _, b := range []uint{15, 16, 31, 32, 33} {
		for k := int64(1); k <= 5; k++ {
			if x := k << b; x < oMaxT {
				v = append(v, x)
			}
		}
	}
	return v
}

// straddle: small steps forward AND backward across the unit x, starting just below it: +1 +1 +1 -3 +5 -1 +2 -2 +4
// (three rollbacks: all accepted), with a stand-still after each step.
func straddle(R *hxlib.Rand, mid uint16, x int64, off int64) scase {
	b := newBuilder(R, "crossing", genSpec{mid, x - off})
	for _, d := range []int64{1, 1, 1, -3, 5, -1, 2, -2, 4} {
		t := clamp(b.cur[0] + d)
		b.at(0, t, t, t+1)
		b.at(0, t, t, t+1)
	}
	return b.c
}

// longStall: the sequence of a unit is used up, the next call waits, and the clock stays at or below that unit for
// `polls` consecutive readings of the wait loop (standing still, stepping back and forth below it) before it shows
// the first unit above. Then: calls in that unit, three rollbacks (all must still be accepted: the stall burnt
// none), the fourth (refused), and the clock passing the last issued unit again.
func longStall(R *hxlib.Rand, mid uint16, t0 int64, polls int) scase {
	b := newBuilder(R, "long-stall", genSpec{mid, t0})
	b.letter(0, 'A')
	cur := b.cur[0]
	b.exhaust(0)
	waits := make([]int64, 0, polls+1)
	for i := 0; i < polls; i++ {
		switch {
		case i%97 == 13:
			waits = append(waits, clamp(cur-1-int64(i%3)))
		default:
			waits = append(waits, cur)
		}
	}
	up := cur + int64(R.Pick(1, 1, 2, 7))
	waits = append(waits, up)
	b.at(0, cur, waits...)
	b.cur[0] = up
	for _, l := range "SSBSBSBSBSJS" {
		b.letter(0, byte(l))
	}
	return b.c
}

func randomCase(r *hxlib.Run, mids []uint16, maxLen int) scase {
	R := r.R
	ts := startTimes(R)
	var gens []genSpec
	t0 := ts[R.Intn(len(ts))]
	if R.Chance(1, 3) {
		t0 = int64(R.U64() % uint64(oMaxT+1))
	}
	if R.Chance(1, 25) {
		t0 = oMaxT + int64(R.Range(1, 1000)) // the constructor read a clock beyond the range
	}
	for _, m := range mids {
		gens = append(gens, genSpec{m, t0})
	}
	b := newBuilder(R, "random", gens...)
	// (a letter that exhausts a sequence costs 1024 calls and a real wait of a few ms: keep them rare)
	weights := "SSSSSSSSSSSSAAAAAAAAAJJJJJJBBBBKKKKOOOOXYW"
	if R.Chance(1, 2) {
		weights = "SSSSSSSSSSSSSSSSAAAAAAAAAAAAJJJJJJJJBBBKKXY" // inside the range
	}
	n := R.Range(1, maxLen)
	for i := 0; i < n; i++ {
		l := weights[R.Intn(len(weights))]
		if len(gens) > 1 && R.Chance(2, 3) {
			// all generators see the same clock: the worst case for collisions between machines
			for g := range gens {
				b.cur[g] = b.cur[0]
			}
			kSave := *R
			for g := range gens {
				*R = kSave
				b.letter(g, l)
			}
		} else {
			b.letter(R.Intn(len(gens)), l)
		}
	}
	return b.c
}

// ---- concurrent callers of one generator ----------------------------------------------------------

func concurrent(r *hxlib.Run, seed uint64, mid uint16, workers, each int) {
	concurrentStall(r, seed, mid, workers, each, 0)
}

// stallMs > 0 (failing-input search): some twenty clock readings of the run — taken under the generator's mutex —
// stall for 10..stallMs ms while the other callers keep calling.
func concurrentStall(r *hxlib.Run, seed uint64, mid uint16, workers, each int, stallMs int) {
	r.Case()
	R := hxlib.NewRand(seed)
	stallEvery := workers*each/20 + 1
	noRollback := stallMs > 0 // (a rollback during a wait makes the waiting call poll for seconds: not this leg's subject)
	t0 := int64(21_000_000_000) + int64(R.Intn(1000000))
	cur := t0
	reads, rollbacks, left := 0, 0, 1
	clk.log = nil
	clk.genf = func() int64 { // called under clk.mu
		reads++
		if stallMs > 0 && reads%stallEvery == stallEvery/2 {
			time.Sleep(time.Duration(10+int(uint(reads)*7919%uint(stallMs-9))) * time.Millisecond)
		}
		if left > 0 {
			left--
			return cur
		}
		switch {
		case !noRollback && rollbacks < oMaxBack && R.Chance(1, 6):
			rollbacks++
			cur -= int64(R.Range(1, 20))
		case R.Chance(1, 5):
			cur += int64(R.Range(2, 50))
		default:
			cur++
		}
		if R.Bool() {
			left = R.Range(1, 900) // a unit that ends before the sequence is used up
		} else {
			left = 1<<oSeqBits + R.Range(0, 4) // a unit in which the sequence runs out and a caller waits
		}
		return cur
	}
	sf := uuid.NewSnowflake(mid)
	m, _, _, _, _ := sf.VerifState()
	clk.mu.Lock()
	clk.log = nil // the constructor's reading is t0'
	first := cur
	clk.mu.Unlock()
	ids := make([][]int64, workers)
	errs := make([]string, workers)
	var wg sync.WaitGroup
	for w := 0; w < workers; w++ {
		wg.Add(1)
		go func(w int) {
			defer wg.Done()
			for k := 0; k < each; k++ {
				id, err := sf.Next()
				if err != nil {
					errs[w] = err.Error()
					return
				}
				ids[w] = append(ids[w], id)
			}
		}(w)
	}
	wg.Wait()
	clk.mu.Lock()
	logCopy := append([]int64(nil), clk.log...)
	clk.genf = nil
	clk.mu.Unlock()
	c := scase{Kind: "concurrent", Mid: mid, Workers: workers, Each: each, Seed: seed, Stall: stallMs}
	var all []int64
	for w := range ids {
		if errs[w] != "" {
			r.Fail("concurrent:spurious-error", fmt.Sprintf("worker %d got %q under a clock inside the range with %d rollbacks", w, errs[w], rollbacks), c)
		}
		for i := 1; i < len(ids[w]); i++ {
			if ids[w][i] <= ids[w][i-1] {
				r.Fail("concurrent:increasing", fmt.Sprintf("worker %d received %d after %d", w, ids[w][i], ids[w][i-1]), c)
			}
		}
		all = append(all, ids[w]...)
	}
	sort.Slice(all, func(i, j int) bool { return all[i] < all[j] })
	for i := 1; i < len(all); i++ {
		if all[i] == all[i-1] {
			r.Fail("concurrent:duplicate", fmt.Sprintf("id %d handed to two callers", all[i]), c)
			break
		}
	}
	inLog := map[int64]bool{}
	for _, v := range logCopy {
		inLog[v] = true
	}
	for _, id := range all {
		ts := (id >> (oSeqBits + oMidBits)) & (1<<oTimeBits - 1)
		if !inLog[ts] || (id>>oSeqBits)&(1<<oMidBits-1) != int64(mid)%(1<<oMidBits) || id>>(oSeqBits+oMidBits+oTimeBits) > int64(rollbacks) {
			r.Fail("concurrent:fields"+cls(genSpec{Mid: mid}), fmt.Sprintf("id %d does not split into a clock reading, machine %d and at most %d rollbacks", id, mid, rollbacks), c)
			break
		}
	}
	r.Count("kind:concurrent")
	r.CountN("concurrent-calls", len(all))
	r.NonTrivial(fmt.Sprintf("conc-%d-%d-%d-%d", mid, workers, each, reads))
	// linearisation: Next runs under the generator's mutex, so the calls were served in id order and
	// consumed the clock log in that order; the model must reproduce the multiset of ids from it.
	if len(all) == workers*each {
		var sum, wsum uint64
		for i, id := range all {
			sum += uint64(id)
			wsum += uint64(i+1) * uint64(id)
		}
		r.Op(fmt.Sprintf("new g=0 m=%d t0=%d", m, first), fmt.Sprintf("mid=%d st=0,%d,0,0", m, first))
		r.Op(fmt.Sprintf("stream g=0 n=%d r=%s", len(all), i64s(logCopy)),
			fmt.Sprintf("ok=%d err=0 first=%d last=%d sum=%d wsum=%d %s", len(all), all[0], all[len(all)-1], sum, wsum, stateLine(sf)))
	}
}

// ---- main ----------------------------------------------------------------------------------------

func main() {
	if addr := os.Getenv("HX_C09_AUTOMID"); addr != "" {
		log.SetOutput(io.Discard)
		autoChildMain(addr)
		return
	}
	r := hxlib.Start("C09", "a clock trajectory for 1..4 generators; non-trivial when it contains a wait for the next unit (sequence exhausted) or a rollback; distinct by machine ids + readings")
	defer r.Finish()
	log.SetOutput(io.Discard)
	uuid.VerifSetClock(clk.read)
	if r.Replay != "" {
		var c scase
		r.LoadReplay(&c)
		switch {
		case c.Kind == "auto-mid":
			out, skip, err := runAuto(c.Addr)
			if skip != "" {
				r.Note("replay impossible here: %s", skip)
			} else {
				judgeAuto(r, c.Addr, out, err)
			}
		case c.Kind == "concurrent":
			concurrentStall(r, c.Seed, c.Mid, c.Workers, c.Each, c.Stall)
		case c.Kind == "api":
			doAPI(r, c)
		case c.Kind == "long":
			r.Case()
			fails, _ := runLong(c)
			for _, f := range fails {
				r.Fail(f.key, f.what, c)
			}
		default:
			do(r, c)
		}
		r.Sample(c)
		return
	}
	if r.Search {
		searchLegs(r)
		if r.Failed() {
			r.Note("the search legs found a failing input; the ordinary generators were not run again")
			return
		}
	}
	diversityLegs(r)
	if os.Getenv("HX_ONLY") == "diversity" { // (development aid: only the third-wave legs)
		return
	}
	boundaryMids := []uint16{1, 2, 1234, 0x3FFE, 0x3FFF, 0x4000, 0x4001, 0x7FFF, 0x8000, 0xC000, 0xFFFF, 0}

	// 1. every boundary machine id x every start time x a fixed word that visits every branch
	for _, m := range boundaryMids {
		for i, t0 := range startTimes(r.R) {
			for j, w := range []string{"SSAJ", "SXSA", "BSKSBSBS", "AYAWSO", "OSAB"} {
				if !r.Thorough() && (j == 1 || j == 3) && i%2 == 1 {
					continue // quick tier: the words that wait, for every other start time only
				}
				b := newBuilder(r.R, "boundary", genSpec{m, t0})
				for i := 0; i < len(w); i++ {
					b.letter(0, w[i])
				}
				do(r, b.c)
			}
		}
	}
	// 1b. small steps forward and backward across every internal power-of-two crossing of the 37-bit time
	// (1b and 1c draw from a stream of their own: the cases of the other sections stay what they were)
	R2 := hxlib.NewRand(r.Seed ^ 0xC09C09)
	for _, x := range crossings() {
		for _, off := range []int64{2, 1} {
			do(r, straddle(R2, boundaryMids[R2.Intn(4)], x, off))
			r.Count("crossing:straddled")
		}
	}
	// 1c. a very long stall inside one call: the clock stays at or below the exhausted unit for 600+ polls of the
	// wait loop (thorough: 1100+ and 2100+ as well)
	stalls := []int{600 + R2.Intn(50)}
	if r.Thorough() {
		stalls = append(stalls, 1100+R2.Intn(100), 2100+R2.Intn(100))
	}
	for _, n := range stalls {
		do(r, longStall(R2, uint16(R2.Range(1, 0x3FFF)), startTimes(R2)[R2.Pick(3, 4, 11)], n))
		r.Count("long-stall:cases")
		r.CountN("long-stall:polls", n)
	}
	// 2. every word over the step alphabet up to a bounded length
	enumerate(r, alphabet, 1234, 21_000_000_000, r.Scale(3, 4))
	enumerate(r, "SABXWO", 0x3FFF, oMaxT-1, r.Scale(3, 5))
	enumerate(r, cheap, 0xFFFF, 3, r.Scale(4, 6))
	if r.Thorough() {
		enumerate(r, alphabet, 1, oMaxT-3, 4)
		enumerate(r, alphabet, 0x2AAA, 0, 3)
		enumerate(r, cheap, 77, oMaxT-2, 6)
		r.Note("every word over the step alphabet %q up to length 4 (two generators), over %q up to length 5 and over %q (no exhaustion) up to length 6 (two generators) was run", alphabet, "SABXWO", cheap)
	} else {
		r.Note("every word over the step alphabet %q up to length 3, over %q up to length 3 and over %q (no exhaustion) up to length 4 was run", alphabet, "SABXWO", cheap)
	}
	// 3. random trajectories, one generator
	n := r.Scale(1200, 12000)
	for k := 0; k < n; k++ {
		m := uint16(r.R.Intn(65536))
		if r.R.Chance(1, 4) {
			m = boundaryMids[r.R.Intn(len(boundaryMids))]
		}
		c := randomCase(r, []uint16{m}, 24)
		if k < 3 {
			r.Sample(c)
		}
		do(r, c)
	}
	// 4. several generators with different machine fields on the same clock
	n = r.Scale(200, 2500)
	for k := 0; k < n; k++ {
		cnt := r.R.Range(2, 4)
		var mids []uint16
		for len(mids) < cnt {
			m := uint16(r.R.Range(1, 65535))
			if r.R.Chance(1, 3) && len(mids) > 0 {
				m = mids[0] ^ uint16(1<<uint(r.R.Intn(16))) // differs from the first in one bit
				if m == 0 {
					continue
				}
			}
			mids = append(mids, m)
		}
		do(r, randomCase(r, mids, 12))
	}
	// 5. all 65536 machine ids (thorough), a short trajectory each
	if r.Thorough() {
		for m := 0; m < 65536; m++ {
			do(r, randomCase(r, []uint16{uint16(m)}, 5))
		}
		r.Note("all 65536 machine ids were run with a random trajectory each")
	}
	// 6. before the epoch (negative readings): outside the model's domain, oracle only
	for k := 0; k < 40; k++ {
		t0 := int64(r.R.Range(-5, 5))
		b := newBuilder(r.R, "before-epoch", genSpec{uint16(r.R.Range(1, 65535)), t0})
		for i := 0; i < 6; i++ {
			b.c.Steps = append(b.c.Steps, step{G: 0, R: []int64{int64(r.R.Range(-1000, 3)), 5}})
		}
		do(r, b.c)
	}
	r.Note("observation: readings before the epoch (negative time units) are outside the model's domain; on the real code every such call was refused (oracle key no-error:before-epoch never fired)")
	// 6b. tr.go: the translated expressions against the real Next / NewSnowflake
	trLeg(r)
	// 7. concurrent callers of one generator
	nConc := r.Scale(3, 12)
	if r.Search {
		nConc = 5 // (a rollback during a wait makes a run take many seconds; the search has its own concurrent leg)
	}
	for k := 0; k < nConc; k++ {
		concurrent(r, r.R.U64(), uint16(r.R.Range(1, 65535)), r.R.Range(2, 8), r.Scale(1500, 6000))
	}
}
