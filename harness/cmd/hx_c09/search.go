package main

// Failing-input search legs of C09 (only with -search). Classes they are aimed at:
//
//	long     (period / scale)      one id observed, then EXACTLY 2^16, 2^17, 2^18 or 2^20 further calls under a clock that
//	                               advances every 1, 3, 700 or 1024+ calls (the last: every unit is used up and waited
//	                               out), a rollback falling exactly on the last call; every call judged by the ordinary
//	                               oracle (fields, increasing, error exactly when due)
//	api      (unusual parameters)  the package-level path uuid.Init / uuid.NextUUID under the scripted clock, across
//	                               failing re-initialisation (the generator in use must go on unchanged) and successful
//	                               re-initialisation with another machine id after the clock moved on
//	stalled  (schedule)            concurrent callers while the clock reading (taken under the generator's mutex)
//	                               stalls for 10..50 ms
import (
	"errors"
	"fmt"
	"time"

	"verifharness/hxlib"

	"qchen.fun/fatchoy/x/uuid"
)

// runLong replays the recipe (kind "long": Mid, Each = calls, Workers = calls per unit, Seed).
func runLong(c scase) (fails []fail, waits int) {
	R := hxlib.NewRand(c.Seed)
	clk.genf = nil
	t0 := startTimes(R)[R.Pick(3, 4, 8, 9, 10, 11, 12, 13, 14, 15)]
	sf, _ := newGen(genSpec{c.Mid, t0})
	og := &oracleGen{spec: genSpec{c.Mid, t0}, wantMid: int64(c.Mid) % (1 << oMidBits), lastT: t0}
	t := t0
	per := c.Workers
	judge := func(o outcome, what string) bool {
		for _, f := range og.check(o) {
			f.what = what + ": " + f.what
			fails = append(fails, f)
		}
		if len(o.used) > 1 {
			waits++
		}
		return len(fails) == 0
	}
	if !judge(callNext(sf, []int64{t, t, t + 1}), "observation before") {
		return
	}
	inUnit := 1
	for k := 1; k <= c.Each; k++ {
		if inUnit >= per && per < 1<<oSeqBits {
			t += int64(R.Pick(1, 1, 1, 2))
			inUnit = 0
		}
		if k == c.Each && R.Bool() { // the call that completes the period reads a clock that stepped back
			t -= int64(R.Range(1, 3))
			inUnit = 0
		}
		inUnit++
		// (with 1024+ calls per unit the clock stands still until the unit is used up: that call waits for the next)
		o := callNext(sf, []int64{t, t, t + 1})
		if !judge(o, fmt.Sprintf("call %d of exactly %d", k, c.Each)) {
			return
		}
		if len(o.used) > 1 {
			t, inUnit = o.used[len(o.used)-1], 1
		}
	}
	for _, l := range "SASBSJSS" {
		b := newBuilder(R, "x", genSpec{c.Mid, t})
		b.letter(0, byte(l))
		st := b.c.Steps[len(b.c.Steps)-1]
		if !judge(callNext(sf, st.R), fmt.Sprintf("observation after exactly %d calls", c.Each)) {
			return
		}
		if st.R[0] <= oMaxT {
			t = st.R[0]
		}
	}
	return
}

// ---- api ----------------------------------------------------------------------------------------------------------

type apiStore struct {
	n    int64
	fail error
}

func (s *apiStore) Incr() (int64, error) {
	if s.fail != nil {
		return 0, s.fail
	}
	s.n++
	return s.n, nil
}
func (s *apiStore) Close() error { return nil }

type apiStep struct {
	Op   string  `json:"op"` // init | init-fail | next
	Mid  uint16  `json:"mid,omitempty"`
	R    []int64 `json:"r,omitempty"`
}

func callAPI(script []int64) (o outcome) {
	clk.offer(script)
	func() {
		defer func() {
			if v := recover(); v != nil {
				if _, ok := v.(starve); ok {
					o.kind = "starved"
				} else if err, ok := v.(error); ok && (errors.Is(err, uuid.ErrTimeUnitOverflow) || errors.Is(err, uuid.ErrClockGoneBackwards) || errors.Is(err, uuid.ErrUUIDIntOverflow)) {
					o.kind = errKind(err) // MustNext reports the generator's error by panicking with it
				} else {
					o.kind = "panic"
				}
			}
		}()
		o.kind, o.id = "ok", uuid.NextUUID()
	}()
	o.used = append([]int64(nil), clk.consumed()...)
	return o
}

func runAPI(steps []apiStep) (fails []fail) {
	clk.genf = nil
	st := &apiStore{}
	var og *oracleGen
	for i, s := range steps {
		switch s.Op {
		case "init", "init-fail":
			st.fail = nil
			if s.Op == "init-fail" {
				st.fail = errors.New("store: injected failure")
			}
			clk.offer(s.R)
			var err error
			p := hxlib.Guard(func() { err = uuid.Init(s.Mid, st) })
			switch {
			case p != "":
				fails = append(fails, fail{"api:panic", fmt.Sprintf("step %d: uuid.Init panicked: %s", i, p)})
				return
			case s.Op == "init-fail" && err == nil:
				fails = append(fails, fail{"api:init-swallowed-error", fmt.Sprintf("step %d: uuid.Init returned nil although the store failed", i)})
				return
			case s.Op == "init" && err != nil:
				fails = append(fails, fail{"api:init", fmt.Sprintf("step %d: uuid.Init failed on a working store: %v", i, err)})
				return
			case s.Op == "init":
				og = &oracleGen{spec: genSpec{s.Mid, s.R[0]}, wantMid: int64(s.Mid) % (1 << oMidBits), lastT: s.R[0]}
			}
		case "next":
			if og == nil {
				continue
			}
			for _, f := range og.check(callAPI(s.R)) {
				f.key = "api:" + f.key
				f.what = fmt.Sprintf("step %d (uuid.NextUUID after %d steps over the package-level API): %s", i, i, f.what)
				fails = append(fails, f)
			}
			if len(fails) > 0 {
				return
			}
		}
	}
	return
}

func apiTrajectory(R *hxlib.Rand) []apiStep {
	t := startTimes(R)[R.Intn(16)]
	if t > oMaxT-100000 {
		t = oMaxT - 100000
	}
	mid := func() uint16 { return uint16(R.Range(1, 0x3FFF)) }
	steps := []apiStep{{Op: "init", Mid: mid(), R: []int64{t}}}
	next := func() {
		switch R.Intn(8) {
		case 0:
			t += int64(R.Range(1, 50))
		case 1:
			if t > 3 {
				t -= int64(R.Range(1, 3)) // rollbacks stay rare enough (three are accepted per generator)
			}
		case 2, 3:
			t++
		}
		steps = append(steps, apiStep{Op: "next", R: []int64{t, t, t + 1}})
	}
	rolls := 0
	for i, n := 0, R.Range(3, 10); i < n; i++ {
		for k := R.Range(1, 12); k > 0; k-- {
			before := t
			next()
			if t < before {
				if rolls++; rolls > 3 {
					t = before + 1
					steps[len(steps)-1].R = []int64{t, t, t + 1}
				}
			}
		}
		switch x := R.Intn(10); {
		case x < 5:
			for k := R.Range(1, 3); k > 0; k-- {
				steps = append(steps, apiStep{Op: "init-fail", Mid: mid(), R: []int64{t}})
			}
		case x < 7: // a new generator for this process: only after the clock has left every unit used so far
			t += int64(R.Range(30, 90))
			steps = append(steps, apiStep{Op: "init", Mid: mid(), R: []int64{t}})
			rolls = 0
		}
	}
	next()
	next()
	return steps
}

func doAPI(r *hxlib.Run, c scase) {
	r.Case()
	r.Count("search:api")
	fails := runAPI(c.API)
	if len(fails) == 0 {
		return
	}
	key := fails[0].key
	has := func(steps []apiStep) (string, bool) {
		for _, f := range runAPI(steps) {
			if f.key == key {
				return f.what, true
			}
		}
		return "", false
	}
	keep := hxlib.DDMin(len(c.API), func(keep []int) bool {
		var v []apiStep
		for _, i := range keep {
			v = append(v, c.API[i])
		}
		_, ok := has(v)
		return ok
	})
	small := scase{Kind: c.Kind}
	for _, i := range keep {
		small.API = append(small.API, c.API[i])
	}
	what, ok := has(small.API)
	if !ok {
		small, what = c, fails[0].what
	}
	r.Fail(key, what, small)
}

func searchLegs(r *hxlib.Run) {
	t0 := time.Now()
	defer func() { r.Note("search legs took %.1f s", time.Since(t0).Seconds()) }()
	R := r.R
	nAPI := 3000
	for k := 0; k < nAPI && !r.Failed(); k++ {
		doAPI(r, scase{Kind: "api", API: apiTrajectory(R)})
	}
	totalWaits := 0
	for _, each := range []int{1 << 16, 1 << 17, 1 << 18, 1 << 20} {
		for _, per := range []int{1, 3, 700, 1 << oSeqBits} {
			if r.Failed() || (per == 1<<oSeqBits && each > 1<<17) || (each == 1<<20 && per != 3) {
				continue
			}
			c := scase{Kind: "long", Mid: uint16(R.Range(1, 65535)), Each: each, Workers: per, Seed: R.U64()}
			r.Case()
			fails, waits := runLong(c)
			totalWaits += waits
			r.Count("search:long")
			r.CountN("search:long:calls", each)
			for _, f := range fails {
				r.Fail(f.key, f.what, c)
			}
		}
	}
	for k := 0; k < 6 && !r.Failed(); k++ {
		concurrentStall(r, R.U64(), uint16(R.Range(1, 65535)), R.Range(3, 8), 1500, R.Range(10, 50))
		r.Count("search:stalled")
	}
	r.Note("search legs: api %d trajectories over uuid.Init/NextUUID with failing and succeeding re-initialisation; long: exactly 2^16/2^17/2^18/2^20 calls with 1, 3, 700 or 1024+ calls per time unit (%d calls waited for the next unit); stalled: 6 concurrent runs with clock readings stalling 10..50 ms under the generator's mutex", nAPI, totalWaits)
}
