// search.go: the legs of hx_c07 that aim at defects invisible to the ordinary generators (DESIGN.md 3.4).
// Cheap legs run in every tier (a change that keeps every regenerated fact intact never triggers the
// failing-input search, so the quick tier itself has to reach these inputs); the longer variants run
// from the thorough tier on; the largest only with -search.
//
// The judges are runCase / oracleBody / runReply (the property, stated with Go's own operators and
// encoding/binary):
//
//	sniff      text and byte bodies, below and above the codec's compression threshold, with and without a cipher,
//	           whose leading bytes look like a container a codec might sniff: zlib headers followed by garbage or by a
//	           deflate stream, complete zlib / gzip streams, complete frames of either format — they travel verbatim
//	alias      a reply / refusal is handed to the endpoint (queued); the REQUEST object is then refilled (SetRefers
//	           with a shorter / equal / longer list, AddRefers, SetBody, SetErrno, SetFlag, SetSeq, SetNode, SetType,
//	           Reset, another frame decoded into it by the real codec, as a read loop does); only then is the queued
//	           packet — and its encoding through the real codec — compared with the request's values at reply time
//	large      text and byte bodies of 513 B .. 1 MiB + 1: read back, text form, wire form, across both codecs
//	unaligned  text and byte bodies handed over as sub-strings / sub-slices starting at addresses 1..15 mod 16
//	           (lengths 1, 2, 4, 8 — the integer and float views of byte bodies — and larger)
//	fanout     requests with 33 .. 70 000 references, replied to and refused
//	reuse      ONE packet object set again and again: every step observed, then an observation, exactly 2^16-1,
//	           2^16, 2^17, 2^18, 2^20 SetBody calls without any accessor in between, and the observation again;
//	           error codes set, cleared and read; Reset in between
//
// Second round (third red-team wave, body-only changes keyed on what the generators did not vary): legs2.go —
// held (received packets kept and judged again after later packets were received, plain and bufio readers), cryptors
// (custom BlockCryptor implementations), shared (one body slice / reference slice for many packets), wordvals
// (machine-word extremes), typednil. All in the normal tiers.
package main

import (
	"bytes"
	"compress/flate"
	"compress/gzip"
	"compress/zlib"
	"fmt"
	"io"
	"strings"
	"time"
	"unsafe"

	"verifharness/hxcodec"
	"verifharness/hxlib"

	"qchen.fun/fatchoy"
	"qchen.fun/fatchoy/codec"
	"qchen.fun/fatchoy/packet"
)

// mutateRequest refills / reuses the request object through its API (never by writing into a slice the
// harness handed over: only what a read loop or a handler that keeps its packet object does).
func mutateRequest(c Case, req *packet.Packet) {
	n := len(c.Refs)
	list := func(k int) []fatchoy.NodeID {
		out := make([]fatchoy.NodeID, k)
		for i := range out {
			out[i] = fatchoy.NodeID(0xa5a50000 + uint32(i))
		}
		return out
	}
	do := func(m string) {
		switch m {
		case "refs-shorter":
			if n >= 2 {
				req.SetRefers(list(n - 1))
			} else {
				req.SetRefers(list(n))
			}
		case "refs-equal":
			req.SetRefers(list(n))
		case "refs-longer":
			req.SetRefers(list(n + 3))
		case "refs-one":
			req.SetRefers(list(1))
		case "refs-nil":
			req.SetRefers(nil)
		case "addrefs":
			req.AddRefers(0xa5a5a5a5, 0x5a5a5a5a)
		case "body":
			req.SetBody("changed afterwards")
		case "errno":
			req.SetErrno(-999)
		case "flag":
			req.SetFlag(^fatchoy.PacketFlag(c.Flag) &^ 3)
		case "seq":
			req.SetSeq(c.Seq + 1)
		case "node":
			req.SetNode(fatchoy.NodeID(^c.Node))
		case "type":
			req.SetType(fatchoy.PacketType(c.Typ + 1))
		case "cmd":
			req.SetCommand(c.Cmd + 1)
		case "reset":
			req.Reset()
		case "redecode", "redecode-shorter", "redecode-longer":
			// the next frame of the connection is decoded into the same object
			k := n
			if m == "redecode-shorter" && n >= 2 {
				k = n - 1
			}
			if m == "redecode-longer" {
				k = n + 2
			}
			if k > 255 {
				k = 255
			}
			next := packet.New(c.Cmd+5, c.Seq+7, 0x40, "the next request")
			next.SetType(fatchoy.PacketType(c.Typ + 1))
			next.SetNode(fatchoy.NodeID(^c.Node))
			next.SetRefers(list(k))
			var buf bytes.Buffer
			e := codec.NewV2Encoder(0)
			hxlib.Guard(func() {
				if _, err := e.WritePacket(&buf, nil, next); err == nil {
					e.ReadPacket(&buf, nil, req)
				}
			})
		}
	}
	if c.Mut == "all" {
		for _, m := range []string{"redecode", "refs-equal", "addrefs", "body", "flag", "seq", "node", "type", "cmd", "refs-shorter", "reset"} {
			do(m)
		}
		return
	}
	do(c.Mut)
}

// aliasWire: the queued reply, encoded by the real codec only now, still carries the request's values.
func aliasWire(c Case, out fatchoy.IPacket, fail func(string, string, ...interface{})) {
	if _, isMsg := out.Body().(interface{ ProtoReflect() }); isMsg || len(c.Refs) > 255 {
		return
	}
	cd := c.Codec
	if cd == "" {
		cd = "V2"
	}
	e := encoder(cd, 0)
	var buf bytes.Buffer
	var werr, rerr error
	q := packet.Make()
	if pn := hxlib.Guard(func() {
		if _, werr = e.WritePacket(&buf, nil, out); werr == nil {
			rerr = e.ReadPacket(&buf, nil, q)
		}
	}); pn != "" || werr != nil || rerr != nil {
		return // whether this packet can cross the wire at all is judged by the wire ops
	}
	var got []uint32
	for _, x := range q.Refers() {
		got = append(got, uint32(x))
	}
	bad := q.Seq() != c.Seq
	if cd == "V2" {
		bad = bad || int8(q.Type()) != c.Typ || uint32(q.Node()) != c.Node || natList(got) != natList(c.Refs)
	}
	if bad {
		fail("reply-header:"+c.Rop, "%s to (seq %d typ %d node %d refs %s), encoded by the %s codec after the request object was reused (%s), arrives as (seq %d typ %d node %d refs %s)",
			c.Rop, c.Seq, c.Typ, c.Node, natList(c.Refs), cd, c.Mut, q.Seq(), int8(q.Type()), uint32(q.Node()), natList(got))
	}
	if c.Rop == "refusewith" || c.Rop == "refuse" {
		if q.Flag()&fatchoy.PFlagError == 0 || q.Errno() != c.Ec {
			fail("errno-wire", "%s(%d), encoded by the %s codec after the request object was reused (%s), arrives with flag %#x and Errno() = %d", c.Rop, c.Ec, cd, c.Mut, q.Flag(), q.Errno())
		}
	}
}

// runClone: Clone() is not part of the property's statement; a clone that changes when the original is
// reused is reported as a broken correspondence (hxlib.Run.Broken), not as a violation.
func runClone(r *hxlib.Run, c Case) {
	r.Case()
	req := packet.New(c.Cmd, c.Seq, fatchoy.PacketFlag(c.Flag), "body of the original")
	req.SetType(fatchoy.PacketType(c.Typ))
	req.SetNode(fatchoy.NodeID(c.Node))
	var refs []fatchoy.NodeID
	for _, x := range c.Refs {
		refs = append(refs, fatchoy.NodeID(x))
	}
	req.SetRefers(refs)
	var cl fatchoy.IPacket
	if pn := hxlib.Guard(func() { cl = req.Clone() }); pn != "" || cl == nil {
		return
	}
	show := func() string {
		var rs []uint32
		for _, x := range cl.Refers() {
			rs = append(rs, uint32(x))
		}
		return fmt.Sprintf("cmd=%d seq=%d typ=%d flag=%d node=%d refs=%s body=%s", cl.Command(), cl.Seq(), int8(cl.Type()), uint8(cl.Flag()), uint32(cl.Node()), natList(rs), showVal(cl.Body()))
	}
	before := show()
	mutateRequest(c, req)
	if after := show(); after != before {
		r.Broken("clone-aliases-original", fmt.Sprintf("a clone read %s; after the original was reused (%s) it reads %s", before, c.Mut, after), c)
	}
}

func deflatedAs(kind string, b []byte) []byte {
	var buf bytes.Buffer
	var w io.WriteCloser
	switch kind {
	case "zlib":
		w = zlib.NewWriter(&buf)
	case "zlib-store":
		w, _ = zlib.NewWriterLevel(&buf, zlib.NoCompression)
	case "gzip":
		w = gzip.NewWriter(&buf)
	default:
		w, _ = flate.NewWriter(&buf, flate.DefaultCompression)
	}
	w.Write(b)
	w.Close()
	return buf.Bytes()
}

// goValueOf is goValue with the case's address offset applied to text and byte values.
func goValueOf(c Case) (interface{}, bool) {
	val, ok := goValue(c.K, c.V)
	if !ok || c.Off == 0 {
		return val, ok
	}
	at := func(b []byte) []byte {
		back := make([]byte, len(b)+32)
		skip := ((c.Off-int(uintptr(unsafe.Pointer(&back[0]))%16))%16 + 16) % 16
		out := back[skip : skip+len(b) : skip+len(b)]
		copy(out, b)
		return out
	}
	switch v := val.(type) {
	case []byte:
		return at(v), true
	case string:
		b := at([]byte(v))
		return *(*string)(unsafe.Pointer(&b)), true // the string shares b's bytes: it starts at the odd address
	}
	return val, ok
}

// runReuse: see Case.Windows. Every observation is oracleBody on the value set last.
func runReuse(r *hxlib.Run, c Case) {
	r.Case()
	R := hxlib.NewRand(c.Seed)
	p := packet.Make()
	p.SetCommand(1)
	sets := 0
	failed := false
	pick := func() (Case, interface{}) {
		for {
			k := kinds[R.Intn(len(kinds))]
			sc := Case{Op: "set", K: k, V: randValue(R, k)}
			if val, ok := goValue(sc.K, sc.V); ok {
				return sc, val
			}
		}
	}
	observe := func(sc Case, val interface{}) {
		seen := map[string]bool{}
		oracleBody(sc, val, p, func(key, format string, a ...interface{}) {
			if !seen[key] {
				seen[key] = true
				failed = true
				r.Fail(key, fmt.Sprintf("after %d SetBody calls on one packet object: ", sets)+fmt.Sprintf(format, a...), c)
			}
		})
	}
	set := func(val interface{}) bool {
		sets++
		if pn := hxlib.Guard(func() { p.SetBody(val) }); pn != "" {
			failed = true
			r.Fail("setbody-panic:reuse", fmt.Sprintf("SetBody call %d on one packet object panics: %s", sets, pn), c)
			return false
		}
		return true
	}
	// every step observed
	for i := 0; i < 3000 && !failed; i++ {
		sc, val := pick()
		if set(val) {
			observe(sc, val)
		}
		if i%7 == 3 && !failed { // an error code on the same object, then cleared
			ec := pickEc(R)
			p.SetErrno(ec)
			if got := p.Errno(); got != ec {
				failed = true
				r.Fail("errno-local", fmt.Sprintf("after %d SetBody calls on one packet object: SetErrno(%d) then Errno() = %d", sets, ec, got), c)
			}
			p.SetFlag(p.Flag() &^ fatchoy.PFlagError)
			if got := p.Errno(); got != 0 && !failed {
				failed = true
				r.Fail("errno-unflagged", fmt.Sprintf("after %d SetBody calls on one packet object: error flag cleared but Errno() = %d", sets, got), c)
			}
		}
		if i%97 == 50 && !failed {
			p.Reset()
			observe(Case{Op: "set", K: "nil"}, nil)
			p.SetCommand(1)
		}
	}
	// an observation, exactly w sets with no accessor in between, the observation again
	for _, w := range c.Windows {
		if failed {
			return
		}
		var sc Case
		var val interface{}
		for i := 0; i < w; i++ {
			sc, val = pick()
			if !set(val) {
				return
			}
		}
		observe(sc, val)
	}
}

func legs(r *hxlib.Run) {
	level := 0 // 0 quick, 1 thorough, 2 -search
	if r.Thorough() {
		level = 1
	}
	if r.Search {
		level = 2
	}
	R := hxlib.NewRand(r.Seed ^ 0x5ea7c07)                // own stream: the tiers' generators draw what they drew before
	stop := func() bool { return r.Search && r.Failed() } // with -search one failing input is what is looked for
	leg := func(name string, f func()) {
		if stop() {
			return
		}
		t0 := time.Now()
		f()
		r.Note("leg %s: %.1fs", name, time.Since(t0).Seconds())
	}
	n := 0
	run := func(c Case) {
		if !stop() {
			quiet = len(c.V) > 40000 || len(c.Refs) > 300
			one(r, c)
			quiet = false
			n++
		}
	}

	leg("sniff", func() {
		n = 0
		text := []byte(strings.Repeat("the quick brown fox jumps over the lazy dog. ", 7))
		noise := hxcodec.Gen(9000, 5)
		cat := func(a, b []byte) []byte { return append(append([]byte{}, a...), b...) }
		bodies := [][]byte{deflatedAs("zlib", text), deflatedAs("zlib", make([]byte, 1000)), deflatedAs("zlib-store", noise), deflatedAs("zlib", noise), deflatedAs("gzip", text), deflatedAs("gzip", noise),
			deflatedAs("deflate", text), cat(deflatedAs("zlib", text), []byte("tail"))}
		for _, hd := range [][]byte{{0x78, 0x9c}, {0x78, 0x01}, {0x78, 0xda}, {0x1f, 0x8b, 0x08}} {
			bodies = append(bodies, hd, cat(hd, R.Bytes(30)), cat(hd, R.Bytes(200)), cat(hd, noise), cat(hd, make([]byte, 9000)), cat(hd, []byte(strings.Repeat("plain text after the header ", 400))),
				cat(hd, deflatedAs("deflate", text)), cat(hd, deflatedAs("deflate", noise)))
		}
		for _, v := range []int{1, 2} {
			bodies = append(bodies, hxcodec.Forge(v, 1, 0, 0, 7, 5, 9, []byte("inner")), hxcodec.Forge(v, 1, 1, 0, 7, 5, 9, deflatedAs("zlib", text)), hxcodec.Forge(v, 1, 0x20, 0, 7, 5, 9, noise))
		}
		for _, b := range bodies {
			v := hxlib.Hex(b)
			for _, k := range []string{"str", "bytes"} {
				for ci, cd := range []string{"V1", "V2"} {
					for ti, thr := range []int{0, 16} { // the codec's default threshold (bodies on both sides of it) and a small one
						run(Case{Op: "wire", K: k, V: v, Cmd: 77, Flag: uint8(R.Pick(0, 0x20)), Codec: cd, Enc: []string{"", "xor", "aes"}[(n+ci+ti)%3], Thr: thr})
					}
				}
			}
		}
		r.CountN("leg:sniff", n)
		r.Note("leg sniff: %d wire ops on text/byte bodies (30 B .. 9 KiB, both sides of the compression thresholds) that start like zlib/gzip streams, are complete streams, or complete frames", n)
	})

	leg("alias", func() {
		n = 0
		muts := []string{"refs-shorter", "refs-equal", "refs-longer", "refs-one", "refs-nil", "addrefs", "body", "errno", "flag", "seq", "node", "type", "cmd", "reset", "redecode", "redecode-shorter", "redecode-longer", "all"}
		for _, k := range []int{0, 1, 2, 3, 8, 40, 255} {
			for _, m := range muts {
				refs := make([]uint32, k)
				for i := range refs {
					refs[i] = uint32(R.U64())
				}
				for _, rop := range []string{"replywith", "reply", "refusewith", "refuse"} {
					c := Case{Op: "reply", Rop: rop, Mut: m, Cmd: pickCmd(R), Seq: uint16(R.U64()), Typ: int8(R.Pick(0, 1, 2, -1)), Flag: uint8(R.Pick(0, 0x20, 0x40)), Node: uint32(R.Pick(1, 0x00ef0bcd, int(uint32(R.U64())))),
						Refs: refs, Ep: R.Range(0, 5), Acmd: pickCmd(R), Ec: pickEc(R), Codec: []string{"V2", "V2", "V1"}[n%3]}
					if rop == "replywith" {
						c.K = []string{"i32", "str", "bytes", "f64", "nil"}[n%5]
						c.V = randValue(R, c.K)
					}
					run(c)
				}
				if !stop() {
					runClone(r, Case{Op: "clone", Mut: m, Cmd: 9, Seq: uint16(k), Typ: 1, Flag: 0x20, Node: 77, Refs: refs})
					n++
				}
			}
		}
		r.CountN("leg:alias", n)
		r.Note("leg alias: %d replies/refusals/clones looked at (and encoded by the real codec) only after the request object was reused in one of %d ways (0..255 references)", n, len(muts))
	})

	leg("unaligned", func() {
		n = 0
		for off := 1; off < 16; off++ {
			for _, l := range []int{1, 2, 3, 4, 8, 9, 16, 100, 513} {
				for _, k := range []string{"str", "bytes"} {
					v := hxlib.Hex(R.Bytes(l))
					if k == "str" && l <= 8 && R.Bool() {
						v = hxlib.Hex([]byte(fmt.Sprintf("%07d", R.Intn(10000000))[:l%7+1])) // a decimal number: BodyToInt parses it
					}
					run(Case{Op: "set", K: k, V: v, Off: off})
					run(Case{Op: "wire", K: k, V: v, Off: off, Cmd: 77, Flag: 0x20, Codec: []string{"V1", "V2"}[off%2], Enc: []string{"", "xor", "aes"}[l%3], Thr: R.Pick(0, 4)})
				}
			}
		}
		r.CountN("leg:unaligned", n)
		r.Note("leg unaligned: %d ops on text/byte bodies starting at addresses 1..15 mod 16 (1..513 bytes)", n)
	})

	leg("large", func() {
		n = 0
		sizes := [][]int{{513, 4097, 8193}, {513, 4097, 8193, 65537}, {513, 4097, 8193, 65537, 1<<20 + 1}}[level]
		for _, l := range sizes {
			for _, k := range []string{"str", "bytes"} {
				for _, fill := range []string{"random", "text"} {
					var b []byte
					if fill == "random" {
						b = R.Bytes(l)
					} else {
						b = []byte(strings.Repeat("0123456789 héllo ✓ ", l/20+1))[:l]
					}
					v := hxlib.Hex(b)
					run(Case{Op: "set", K: k, V: v})
					for _, cd := range []string{"V1", "V2"} {
						if cd == "V1" && l > 60000 && fill == "random" {
							continue // does not fit a V1 frame even after compression
						}
						run(Case{Op: "wire", K: k, V: v, Cmd: 77, Flag: 0x20, Codec: cd, Enc: []string{"", "xor", "aes"}[n%3]})
					}
				}
			}
		}
		r.CountN("leg:large", n)
		r.Note("leg large: %d ops on text/byte bodies of 513 B .. %d B (read back, text and wire form, across both codecs with and without a cipher)", n, sizes[len(sizes)-1])
	})

	leg("fanout", func() {
		n = 0
		for _, k := range [][]int{{33, 65, 255, 256, 257}, {33, 65, 255, 256, 257, 1000, 4097}, {33, 65, 255, 256, 257, 1000, 4097, 70000}}[level] {
			refs := make([]uint32, k)
			for i := range refs {
				refs[i] = uint32(R.U64())
			}
			for _, rop := range []string{"replywith", "reply", "refusewith", "refuse"} {
				c := Case{Op: "reply", Rop: rop, Cmd: 9, Seq: uint16(k), Typ: 2, Flag: 0x20, Node: 0x00ef0bcd, Refs: refs, Ep: 3, Acmd: 10, Ec: pickEc(R)}
				if rop == "replywith" {
					c.K, c.V = "i32", "-7"
				}
				run(c)
			}
		}
		r.CountN("leg:fanout", n)
		r.Note("leg fanout: %d replies/refusals of requests carrying 33 and more references", n)
	})

	leg("reuse", func() {
		n = 0
		wins := [][]int{{1<<16 - 1, 1 << 16}, {1<<16 - 1, 1 << 16, 1 << 17, 1 << 18}, {1<<16 - 1, 1 << 16, 1 << 17, 1 << 18, 1 << 20}}[level]
		for i := 0; i < 1+level && !stop(); i++ {
			runReuse(r, Case{Op: "reuse", Seed: R.U64(), Windows: wins})
			n++
		}
		r.CountN("leg:reuse", n)
		r.Note("leg reuse: %d packet objects: 3000 observed SetBody/SetErrno/Reset steps, then observations after exactly %v unobserved SetBody calls", n, wins)
	})
}
