// hx_c07: correspondence harness + oracle for C07 (packet values: bodies, error codes, replies).
//
// One case = one op on the real code (package packet, the real V1/V2 codecs for the cross-wire
// part, a fake endpoint for replies). The op line goes to the Lean model, the canonical answer of
// the real code is compared with the model's. Independently of the model the oracle states the
// property with plain Go: conversions written out with Go's own operators, encoding/binary as the
// reference decoder, fmt/strconv as the reference printers, direct field comparisons.
package main

import (
	"bytes"
	"encoding/binary"
	"encoding/hex"
	"fmt"
	"io"
	"log"
	"math"
	"os"
	"strconv"
	"strings"

	"verifharness/hxcodec"
	"verifharness/hxlib"

	"google.golang.org/protobuf/types/known/wrapperspb"
	"qchen.fun/fatchoy"
	"qchen.fun/fatchoy/codec"
	"qchen.fun/fatchoy/packet"
	"qchen.fun/fatchoy/x/cipher"
)

// ---------------------------------------------------------------------------------------------
// cases

type Case struct {
	Op    string   `json:"op"` // set raw errno geterrno wire wireerr reply putvarint putuvarint varint uvarint
	K     string   `json:"k,omitempty"`
	V     string   `json:"v,omitempty"`
	Cmd   int32    `json:"cmd,omitempty"`
	Flag  uint8    `json:"flag,omitempty"`
	Ec    int32    `json:"ec,omitempty"`
	Codec string   `json:"codec,omitempty"` // V1 | V2
	Enc   string   `json:"enc,omitempty"`   // "" | xor | aes
	Thr   int      `json:"thr,omitempty"`
	Rop   string   `json:"rop,omitempty"` // replywith reply refusewith refuse
	Seq   uint16   `json:"seq,omitempty"`
	Typ   int8     `json:"typ,omitempty"`
	Node  uint32   `json:"node,omitempty"`
	Refs  []uint32 `json:"refs,omitempty"`
	Ep    int      `json:"ep,omitempty"` // -1: no endpoint bound
	Acmd  int32    `json:"acmd,omitempty"`
	// search.go
	Mut     string `json:"mut,omitempty"`     // op "reply" / "clone": what is done to the REQUEST object after the reply was handed to the endpoint and before the reply is looked at
	Off     int    `json:"off,omitempty"`     // str / bytes values are handed over as a sub-string / sub-slice starting at an address that is Off mod 16
	Seed    uint64 `json:"seed,omitempty"`    // op "reuse": seed of the values
	Windows []int  `json:"windows,omitempty"` // op "reuse": SetBody calls between two observations of ONE packet object
	// legs2.go
	N  int    `json:"n,omitempty"`  // ops "held" / "shared": packets of the stream
	Rd string `json:"rd,omitempty"` // ops "held" / "shared": what the receiver reads from: buffer | bytes | bufio:<size>
}

type unsupportedT struct{ X int }

// goValue builds the Go value named by (k, v). ok=false: not a value of that kind.
func goValue(k, v string) (val interface{}, ok bool) {
	s64 := func(bits int) (int64, bool) { n, err := strconv.ParseInt(v, 10, bits); return n, err == nil }
	u64 := func(bits int) (uint64, bool) { n, err := strconv.ParseUint(v, 10, bits); return n, err == nil }
	switch k {
	case "nil":
		return nil, v == ""
	case "msg":
		return wrapperspb.String("x"), v == ""
	case "unsupported":
		return unsupportedT{1}, v == ""
	case "bool":
		return v == "true", v == "true" || v == "false"
	case "int": // a value of THIS build's int: 32 bits on GOARCH=386; anything wider is not a value of the kind
		n, ok := s64(strconv.IntSize)
		return int(n), ok
	case "i8":
		n, ok := s64(8)
		return int8(n), ok
	case "i16":
		n, ok := s64(16)
		return int16(n), ok
	case "i32":
		n, ok := s64(32)
		return int32(n), ok
	case "i64":
		n, ok := s64(64)
		return n, ok
	case "uint":
		n, ok := u64(strconv.IntSize)
		return uint(n), ok
	case "u8":
		n, ok := u64(8)
		return uint8(n), ok
	case "u16":
		n, ok := u64(16)
		return uint16(n), ok
	case "u32":
		n, ok := u64(32)
		return uint32(n), ok
	case "u64":
		n, ok := u64(64)
		return n, ok
	case "f32":
		n, ok := u64(32)
		return math.Float32frombits(uint32(n)), ok
	case "f64":
		n, ok := u64(64)
		return math.Float64frombits(n), ok
	case "str":
		b, ok := unhex(v)
		return string(b), ok
	case "bytes":
		b, ok := unhex(v)
		return b, ok
	case "nilbytes": // legs2.go: a typed nil ([]byte(nil)) — a byte body like any other, and empty
		return []byte(nil), v == ""
	}
	return nil, false
}

func unhex(s string) ([]byte, bool) {
	if s == "-" {
		return []byte{}, true
	}
	b, err := hex.DecodeString(s)
	return b, err == nil && s == strings.ToLower(s) && len(s) > 0
}

func kvText(k, v string) string {
	switch k {
	case "nil", "msg", "unsupported", "nilbytes":
		return "k=" + k
	}
	return "k=" + k + " v=" + v
}

// showVal is the canonical name of whatever sits in the body interface.
func showVal(b interface{}) string {
	switch v := b.(type) {
	case nil:
		return "nil"
	case bool:
		return fmt.Sprintf("bool:%v", v)
	case int:
		return fmt.Sprintf("int:%d", v)
	case int8:
		return fmt.Sprintf("i8:%d", v)
	case int16:
		return fmt.Sprintf("i16:%d", v)
	case int32:
		return fmt.Sprintf("i32:%d", v)
	case int64:
		return fmt.Sprintf("i64:%d", v)
	case uint:
		return fmt.Sprintf("uint:%d", v)
	case uint8:
		return fmt.Sprintf("u8:%d", v)
	case uint16:
		return fmt.Sprintf("u16:%d", v)
	case uint32:
		return fmt.Sprintf("u32:%d", v)
	case uint64:
		return fmt.Sprintf("u64:%d", v)
	case float32:
		return fmt.Sprintf("f32:%d", math.Float32bits(v))
	case float64:
		return fmt.Sprintf("f64:%d", math.Float64bits(v))
	case string:
		return "str:" + hxlib.Hex([]byte(v))
	case []byte:
		return "bytes:" + hxlib.Hex(v)
	case unsupportedT:
		return "unsupported"
	}
	if _, ok := b.(interface{ ProtoReflect() interface{} }); ok {
		return "msg"
	}
	if strings.HasPrefix(fmt.Sprintf("%T", b), "*wrapperspb.") {
		return "msg"
	}
	return fmt.Sprintf("other:%T", b)
}

// observe is the canonical line of all four typed views. The `n/a` entries are exactly the
// conversions the model declares unmodelled (Model/C07.lean); a float's text is checked here to
// parse back to the same float and travels as fmtfloat:<bits>.
func observe(p *packet.Packet) string {
	body := p.Body()
	_, isI := body.(int64)
	f, isF := body.(float64)
	_, isS := body.(string)
	_, isB := body.([]byte)
	isMsg := strings.HasPrefix(showVal(body), "msg")
	normal := body == nil || isI || isF || isS || isB || isMsg
	var sb strings.Builder
	sb.WriteString("body=" + showVal(body))
	// int
	if isF {
		sb.WriteString(" int=n/a")
	} else {
		var n int64
		if pn := hxlib.Guard(func() { n = p.BodyToInt() }); pn != "" {
			sb.WriteString(" int=panic")
		} else {
			fmt.Fprintf(&sb, " int=%d", n)
		}
	}
	// float
	if isI || isS {
		sb.WriteString(" float=n/a")
	} else {
		var x float64
		if pn := hxlib.Guard(func() { x = p.BodyToFloat() }); pn != "" {
			sb.WriteString(" float=panic")
		} else {
			fmt.Fprintf(&sb, " float=%d", math.Float64bits(x))
		}
	}
	// text
	if isMsg || !normal {
		sb.WriteString(" str=n/a")
	} else {
		var s string
		if pn := hxlib.Guard(func() { s = p.BodyToString() }); pn != "" {
			sb.WriteString(" str=panic")
		} else if isF {
			back, err := strconv.ParseFloat(s, 64)
			if (err == nil && math.Float64bits(back) == math.Float64bits(f)) || (f != f && s == "NaN") {
				fmt.Fprintf(&sb, " str=fmtfloat:%d", math.Float64bits(f))
			} else {
				sb.WriteString(" str=fmtfloat-mismatch:" + hxlib.Hex([]byte(s)))
			}
		} else {
			sb.WriteString(" str=lit:" + hxlib.Hex([]byte(s)))
		}
	}
	// bytes
	if isMsg {
		sb.WriteString(" bytes=n/a")
	} else {
		var bs []byte
		if pn := hxlib.Guard(func() { bs = p.BodyToBytes() }); pn != "" {
			sb.WriteString(" bytes=panic")
		} else {
			sb.WriteString(" bytes=" + hxlib.Hex(bs))
		}
	}
	return sb.String()
}

// ---------------------------------------------------------------------------------------------
// fakes

type fakeEndpoint struct {
	id   int
	sent []fatchoy.IPacket
}

func (e *fakeEndpoint) NodeID() fatchoy.NodeID             { return fatchoy.NodeID(e.id) }
func (e *fakeEndpoint) SetNodeID(fatchoy.NodeID)           {}
func (e *fakeEndpoint) RemoteAddr() string                 { return "fake" }
func (e *fakeEndpoint) SendPacket(p fatchoy.IPacket) error { e.sent = append(e.sent, p); return nil }
func (e *fakeEndpoint) Close() error                       { return nil }
func (e *fakeEndpoint) ForceClose(error)                   {}
func (e *fakeEndpoint) IsRunning() bool                    { return true }
func (e *fakeEndpoint) SetUserData(interface{})            {}
func (e *fakeEndpoint) UserData() interface{}              { return nil }

type xorCrypt struct{}

func (xorCrypt) Key() []byte { return nil }
func (xorCrypt) IV() []byte  { return nil }
func (xorCrypt) Encrypt(src []byte) []byte {
	out := make([]byte, len(src))
	for i, b := range src {
		out[i] = b ^ byte(0x5a+i)
	}
	return out
}
func (x xorCrypt) Decrypt(src []byte) []byte { return x.Encrypt(src) }

func cryptPair(name string) (enc, dec cipher.BlockCryptor) {
	if strings.HasPrefix(name, "x:") { // legs2.go: custom BlockCryptor implementations (hxcodec.XCrypt)
		return hxcodec.NewXCrypt(name), hxcodec.NewXCrypt(name)
	}
	switch name {
	case "xor":
		return xorCrypt{}, xorCrypt{}
	case "aes":
		key := []byte("0123456789abcdef0123456789abcdef")
		iv := []byte("fedcba9876543210")
		return cipher.NewCrypt("aes-128", key, iv), cipher.NewCrypt("aes-128", key, iv)
	}
	return nil, nil
}

func encoder(name string, thr int) codec.Encoder {
	if name == "V1" {
		return codec.NewV1Encoder(thr)
	}
	return codec.NewV2Encoder(thr)
}

// crossWire sends p through the real codec and returns what a receiver decodes.
func crossWire(c Case, p *packet.Packet) (q *packet.Packet, outcome string) {
	enc, dec := cryptPair(c.Enc)
	e := encoder(c.Codec, c.Thr)
	var buf bytes.Buffer
	var werr error
	if pn := hxlib.Guard(func() { _, werr = e.WritePacket(&buf, enc, p) }); pn != "" {
		return nil, "panic"
	}
	if werr != nil {
		return nil, "err:write"
	}
	q = packet.Make()
	var rerr error
	if pn := hxlib.Guard(func() { rerr = e.ReadPacket(&buf, dec, q) }); pn != "" {
		return nil, "panic:read"
	}
	if rerr != nil {
		return nil, "err:read"
	}
	if buf.Len() != 0 {
		return nil, "err:trailing"
	}
	return q, ""
}

func recvLine(q *packet.Packet) string {
	return fmt.Sprintf("flag=%d body=%s errno=%d", uint8(q.Flag()), showVal(q.Body()), q.Errno())
}

func natList(v []uint32) string {
	if len(v) == 0 {
		return "-"
	}
	s := make([]string, len(v))
	for i, x := range v {
		s[i] = fmt.Sprint(x)
	}
	return strings.Join(s, ",")
}

// ---------------------------------------------------------------------------------------------
// one case: protocol line + oracle

type verdict struct{ key, what string }

func kindClass(k string) string {
	switch k {
	case "int", "i8", "i16", "i32", "i64", "uint", "u8", "u16", "u32", "u64", "bool":
		return "integer"
	case "f32", "f64":
		return "float"
	}
	return k
}

// runCase returns the op line, the implementation's answer, and the oracle verdicts.
func runCase(c Case) (op, ans string, fails []verdict) {
	fail := func(key, format string, a ...interface{}) {
		fails = append(fails, verdict{key, fmt.Sprintf(format, a...)})
	}
	switch c.Op {
	case "set", "raw":
		val, ok := goValueOf(c)
		op = c.Op + " " + kvText(c.K, c.V)
		if !ok {
			return op, "bad-op", nil
		}
		var p *packet.Packet
		if c.Op == "raw" {
			p = packet.New(1, 0, 0, val)
			return op, observe(p), nil // bodies SetBody never produces: correspondence only
		}
		p = packet.Make()
		p.SetCommand(1)
		if pn := hxlib.Guard(func() { p.SetBody(val) }); pn != "" {
			if c.K != "unsupported" {
				fail("setbody-panic:"+c.K, "SetBody(%s %s) panics: %s", c.K, c.V, pn)
			}
			return op, "panic", fails
		}
		ans = observe(p)
		oracleBody(c, val, p, fail)
		return op, ans, fails

	case "errno":
		op = fmt.Sprintf("errno cmd=%d flag=%d ec=%d", c.Cmd, c.Flag, c.Ec)
		p := packet.New(c.Cmd, 0, fatchoy.PacketFlag(c.Flag), nil)
		p.SetErrno(c.Ec)
		ans = fmt.Sprintf("flag=%d body=%s errno=%d", uint8(p.Flag()), showVal(p.Body()), p.Errno())
		if p.Flag()&fatchoy.PFlagError == 0 {
			fail("seterrno:flag", "SetErrno(%d) on flag %#x did not set the error flag (flag %#x)", c.Ec, c.Flag, p.Flag())
		}
		if p.Flag()&^fatchoy.PFlagError != fatchoy.PacketFlag(c.Flag)&^fatchoy.PFlagError {
			fail("seterrno:flag", "SetErrno(%d) disturbed other flag bits: %#x -> %#x", c.Ec, c.Flag, p.Flag())
		}
		if got := p.Errno(); got != c.Ec {
			fail("errno-local", "command %d: SetErrno(%d) then Errno() = %d", c.Cmd, c.Ec, got)
		}
		return op, ans, fails

	case "geterrno":
		val, ok := goValueOf(c)
		op = fmt.Sprintf("geterrno cmd=%d flag=%d %s", c.Cmd, c.Flag, kvText(c.K, c.V))
		if !ok {
			return op, "bad-op", nil
		}
		p := packet.New(c.Cmd, 0, fatchoy.PacketFlag(c.Flag), val)
		ans = fmt.Sprintf("errno=%d", p.Errno())
		if c.Flag&uint8(fatchoy.PFlagError) == 0 && p.Errno() != 0 {
			fail("errno-unflagged", "command %d flag %#x body %s: no error is flagged but Errno() = %d", c.Cmd, c.Flag, showVal(val), p.Errno())
		}
		return op, ans, fails

	case "wire", "wireerr":
		var p *packet.Packet
		if c.Op == "wire" {
			val, ok := goValueOf(c)
			op = fmt.Sprintf("wire codec=%s enc=%s thr=%d cmd=%d flag=%d %s", c.Codec, encName(c.Enc), c.Thr, c.Cmd, c.Flag, kvText(c.K, c.V))
			if !ok {
				return op, "bad-op", nil
			}
			p = packet.New(c.Cmd, 7, fatchoy.PacketFlag(c.Flag), nil)
			if pn := hxlib.Guard(func() { p.SetBody(val) }); pn != "" {
				return op, "panic:setbody", nil
			}
		} else {
			op = fmt.Sprintf("wireerr codec=%s enc=%s thr=%d cmd=%d flag=%d ec=%d", c.Codec, encName(c.Enc), c.Thr, c.Cmd, c.Flag, c.Ec)
			p = packet.New(c.Cmd, 7, fatchoy.PacketFlag(c.Flag), nil)
			p.SetErrno(c.Ec)
		}
		if c.Flag&uint8(fatchoy.PFlagCompressed|fatchoy.PFlagEncrypted) != 0 {
			return op, "bad-op", nil
		}
		sentBody := p.Body()
		if b, ok := sentBody.([]byte); ok {
			sentBody = append([]byte{}, b...)
		}
		sentFlag := p.Flag()
		q, outcome := crossWire(c, p)
		if q == nil {
			ans = outcome
			if _, isMsg := sentBody.(interface{ String() string }); !isMsg {
				key := "wire-send:" + c.Op
				if sentBody == nil {
					key = "wire-form-panic:nil"
				}
				fail(key, "%s codec: a packet with body %s (flag %#x) cannot cross the wire: %s", c.Codec, showVal(sentBody), sentFlag, outcome)
			}
			return op, ans, fails
		}
		ans = recvLine(q)
		// the error code is what the receiver reads
		if c.Op == "wireerr" {
			if got := q.Errno(); got != c.Ec {
				fail("errno-wire", "%s codec, command %d: SetErrno(%d) reads as Errno() = %d after the wire (received flag %#x body %s)", c.Codec, c.Cmd, c.Ec, got, q.Flag(), showVal(q.Body()))
			}
		} else if sentFlag&fatchoy.PFlagError == 0 {
			if got := q.Errno(); got != 0 {
				fail("errno-unflagged", "%s codec, command %d: no error flagged but the receiver reads Errno() = %d", c.Codec, c.Cmd, got)
			}
			// numbers travel as varints that decode to exactly the value; text and bytes verbatim
			raw, _ := q.Body().([]byte)
			switch v := sentBody.(type) {
			case int64:
				if x, n := binary.Varint(raw); x != v || n != len(raw) || n <= 0 {
					fail("wire-number", "%s codec: int64 body %d arrived as % x, which decodes to (%d, %d)", c.Codec, v, raw, x, n)
				}
			case float64:
				if x, n := binary.Uvarint(raw); x != math.Float64bits(v) || n != len(raw) || n <= 0 {
					fail("wire-number", "%s codec: float64 body %#x arrived as % x, which decodes to (%#x, %d)", c.Codec, math.Float64bits(v), raw, x, n)
				}
			case string:
				if string(raw) != v {
					fail("wire-verbatim", "%s codec: string body %q arrived as %q", c.Codec, v, raw)
				}
			case []byte:
				if !bytes.Equal(raw, v) {
					fail("wire-verbatim", "%s codec: byte body % x arrived as % x", c.Codec, v, raw)
				}
			case nil:
				if q.Body() != nil && len(raw) != 0 {
					fail("wire-verbatim", "%s codec: absent body arrived as %s", c.Codec, showVal(q.Body()))
				}
			}
		}
		// the sender's own packet object has a wire form the second time too (a broadcast loop encodes one object once
		// per peer; it carries the codec's wire bits from the first call now) and arrives the same. Not judged: a byte
		// body under a cipher — every supported cipher encrypts in place and BodyToBytes hands out the packet's own
		// slice, so the first call has overwritten the sender's bytes (recorded observation of the unchanged library).
		if _, isBytes := sentBody.([]byte); !(isBytes && c.Enc != "") {
			if q3, outcome3 := crossWire(c, p); q3 == nil {
				fail("rebroadcast", "%s codec: the packet object (body %s, flag %#x after its first encoding) cannot cross the wire a second time: %s", c.Codec, showVal(sentBody), p.Flag(), outcome3)
			} else if recvLine(q3) != ans {
				fail("rebroadcast:changed", "%s codec: the same packet object arrives as %s the first time and as %s the second time", c.Codec, ans, recvLine(q3))
			}
		}
		// every packet a decoder can produce can be sent on again (and arrives the same)
		q2, outcome2 := crossWire(c, q)
		if q2 == nil {
			key := "resend"
			if q.Body() == nil {
				key = "resend:empty-body"
			}
			fail(key, "%s codec: the decoded packet (flag %#x, body %s) cannot be sent on: %s", c.Codec, q.Flag(), showVal(q.Body()), outcome2)
		} else if recvLine(q2) != ans {
			fail("resend:changed", "%s codec: decoded packet %s arrives as %s when sent on", c.Codec, ans, recvLine(q2))
		}
		return op, ans, fails

	case "reply":
		return runReply(c)

	case "putvarint":
		n, err := strconv.ParseInt(c.V, 10, 64)
		if err != nil {
			return "putvarint " + c.V, "bad-op", nil
		}
		var tmp [binary.MaxVarintLen64]byte
		k := binary.PutVarint(tmp[:], n)
		if x, m := binary.Varint(tmp[:k]); x != n || m != k {
			fail("stdlib-varint", "encoding/binary: Varint(PutVarint(%d)) = (%d, %d)", n, x, m)
		}
		return "putvarint " + c.V, hxlib.Hex(tmp[:k]), fails
	case "putuvarint":
		n, err := strconv.ParseUint(c.V, 10, 64)
		if err != nil {
			return "putuvarint " + c.V, "bad-op", nil
		}
		var tmp [binary.MaxVarintLen64]byte
		k := binary.PutUvarint(tmp[:], n)
		return "putuvarint " + c.V, hxlib.Hex(tmp[:k]), nil
	case "varint":
		b, ok := unhex(c.V)
		if !ok {
			return "varint " + c.V, "bad-op", nil
		}
		x, n := binary.Varint(b)
		return "varint " + c.V, fmt.Sprintf("%d %d", x, n), nil
	case "uvarint":
		b, ok := unhex(c.V)
		if !ok {
			return "uvarint " + c.V, "bad-op", nil
		}
		x, n := binary.Uvarint(b)
		return "uvarint " + c.V, fmt.Sprintf("%d %d", x, n), nil
	}
	return c.Op, "bad-op", nil
}

func encName(e string) string {
	if e == "" {
		return "none"
	}
	return e
}

// oracleBody: readback through the accessor of the value's own kind, a text form, a wire form.
func oracleBody(c Case, val interface{}, p *packet.Packet, fail func(string, string, ...interface{})) {
	cls := kindClass(c.K)
	// ---- readback
	switch v := val.(type) {
	case nil:
		if p.Body() != nil {
			fail("readback:nil", "SetBody(nil) leaves body %s", showVal(p.Body()))
		}
	case string:
		var s string
		if pn := hxlib.Guard(func() { s = p.BodyToString() }); pn != "" || s != v {
			fail("readback:str", "SetBody(%q) reads back through BodyToString as %q (panic %q)", v, s, pn)
		}
	case []byte:
		var b []byte
		if pn := hxlib.Guard(func() { b = p.BodyToBytes() }); pn != "" || !bytes.Equal(b, v) {
			fail("readback:bytes", "SetBody(% x) reads back through BodyToBytes as % x (panic %q)", v, b, pn)
		}
	case float64:
		var f float64
		pn := hxlib.Guard(func() { f = p.BodyToFloat() })
		if pn != "" || math.Float64bits(f) != math.Float64bits(v) {
			fail("readback:f64", "SetBody(float64 %#x) reads back through BodyToFloat as %#x (panic %q)", math.Float64bits(v), math.Float64bits(f), pn)
		}
	case float32:
		var f float64
		pn := hxlib.Guard(func() { f = p.BodyToFloat() })
		same := f == float64(v) && math.Signbit(f) == math.Signbit(float64(v)) && math.Float32bits(float32(f)) == math.Float32bits(v)
		if v != v {
			same = f != f
		}
		if pn != "" || !same {
			fail("readback:f32", "SetBody(float32 %#x) reads back through BodyToFloat as %#x (panic %q)", math.Float32bits(v), math.Float64bits(f), pn)
		}
	default:
		want, isInt := asInt64(val)
		if isInt {
			var n int64
			if pn := hxlib.Guard(func() { n = p.BodyToInt() }); pn != "" || n != want {
				fail("readback:"+c.K, "SetBody(%s %s) reads back through BodyToInt as %d, want %d (panic %q)", c.K, c.V, n, want, pn)
			}
		}
	}
	if cls == "msg" || cls == "unsupported" {
		return
	}
	// ---- text form: defined for every supported kind; integers print as their decimal value
	var s string
	if pn := hxlib.Guard(func() { s = p.BodyToString() }); pn != "" {
		fail("text-panic:"+cls, "SetBody(%s %s); BodyToString() panics: %s", c.K, c.V, pn)
	} else if want, isInt := asInt64(val); isInt && s != fmt.Sprintf("%d", want) {
		fail("text-form:integer", "SetBody(%s %s); BodyToString() = %q, the decimal form is %q", c.K, c.V, s, fmt.Sprintf("%d", want))
	}
	// ---- wire form: always exists; numbers are varints decoding to exactly the value
	var w []byte
	if pn := hxlib.Guard(func() { w = p.BodyToBytes() }); pn != "" {
		fail("wire-form-panic:"+cls, "SetBody(%s %s); BodyToBytes() panics: %s", c.K, c.V, pn)
		return
	}
	switch v := val.(type) {
	case nil:
		if len(w) != 0 {
			fail("wire-form:nil", "an absent body has the non-empty wire form % x", w)
		}
	case string:
		if string(w) != v {
			fail("wire-form:str", "string body %q has wire form % x", v, w)
		}
	case []byte:
		if !bytes.Equal(w, v) {
			fail("wire-form:bytes", "byte body % x has wire form % x", v, w)
		}
	case float64:
		if x, n := binary.Uvarint(w); x != math.Float64bits(v) || n != len(w) {
			fail("wire-form:float", "float64 %#x has wire form % x, which decodes to (%#x, %d)", math.Float64bits(v), w, x, n)
		}
	case float32:
		if x, n := binary.Uvarint(w); x != math.Float64bits(float64(v)) && v == v || n != len(w) {
			fail("wire-form:float", "float32 %#x has wire form % x, which decodes to (%#x, %d)", math.Float32bits(v), w, x, n)
		}
	default:
		if want, isInt := asInt64(val); isInt {
			if x, n := binary.Varint(w); x != want || n != len(w) {
				fail("wire-form:integer", "%s %s has wire form % x, which decodes to (%d, %d)", c.K, c.V, w, x, n)
			}
		}
	}
}

// asInt64 is Go's own conversion of every integer kind (and bool as 0/1) to int64.
func asInt64(val interface{}) (int64, bool) {
	switch v := val.(type) {
	case bool:
		if v {
			return 1, true
		}
		return 0, true
	case int:
		return int64(v), true
	case int8:
		return int64(v), true
	case int16:
		return int64(v), true
	case int32:
		return int64(v), true
	case int64:
		return v, true
	case uint:
		return int64(v), true
	case uint8:
		return int64(v), true
	case uint16:
		return int64(v), true
	case uint32:
		return int64(v), true
	case uint64:
		return int64(v), true // the same 64 bits
	}
	return 0, false
}

func runReply(c Case) (op, ans string, fails []verdict) {
	fail := func(key, format string, a ...interface{}) {
		fails = append(fails, verdict{key, fmt.Sprintf(format, a...)})
	}
	ep := "none"
	if c.Ep >= 0 {
		ep = fmt.Sprint(c.Ep)
	}
	op = fmt.Sprintf("reply op=%s cmd=%d seq=%d typ=%d flag=%d node=%d refs=%s ep=%s", c.Rop, c.Cmd, c.Seq, c.Typ, c.Flag, c.Node, natList(c.Refs), ep)
	req := packet.New(c.Cmd, c.Seq, fatchoy.PacketFlag(c.Flag), nil)
	req.SetType(fatchoy.PacketType(c.Typ))
	req.SetNode(fatchoy.NodeID(c.Node))
	var refs []fatchoy.NodeID
	for _, r := range c.Refs {
		refs = append(refs, fatchoy.NodeID(r))
	}
	req.SetRefers(refs)
	var fe *fakeEndpoint
	var other = &fakeEndpoint{id: 999999}
	_ = other
	if c.Ep >= 0 {
		fe = &fakeEndpoint{id: c.Ep}
		req.SetEndpoint(fe)
	}
	var val interface{}
	var pn string
	switch c.Rop {
	case "replywith":
		v, ok := goValueOf(c)
		op += fmt.Sprintf(" acmd=%d %s", c.Acmd, kvText(c.K, c.V))
		if !ok {
			return op, "bad-op", nil
		}
		val = v
		pn = hxlib.Guard(func() { req.ReplyWith(c.Acmd, v) })
	case "reply":
		op += " mid=0" // nothing is registered in this process: GetMessageIDOf answers 0
		pn = hxlib.Guard(func() { req.Reply(wrapperspb.String("x")) })
	case "refusewith":
		op += fmt.Sprintf(" acmd=%d ec=%d", c.Acmd, c.Ec)
		pn = hxlib.Guard(func() { req.RefuseWith(c.Acmd, c.Ec) })
	case "refuse":
		op += fmt.Sprintf(" pair=0 ec=%d", c.Ec) // no pairing ack registered
		pn = hxlib.Guard(func() { req.Refuse(c.Ec) })
	default:
		return op, "bad-op", nil
	}
	if pn != "" {
		if fe != nil {
			fail("reply-panic:"+c.Rop, "%s on a request bound to endpoint %d panics: %s", c.Rop, c.Ep, pn)
		}
		return op, "panic", fails
	}
	if fe == nil {
		fail("reply-no-endpoint", "%s without an endpoint neither panicked nor sent", c.Rop)
		return op, "lost", fails
	}
	if len(fe.sent) != 1 {
		fail("reply-endpoint", "%s handed %d packets to the endpoint the request arrived from", c.Rop, len(fe.sent))
		return op, fmt.Sprintf("sent=%d", len(fe.sent)), fails
	}
	if c.Mut != "" {
		mutateRequest(c, req) // the reply is queued; the request object is refilled / reused; only then is the reply looked at
	}
	out := fe.sent[0]
	var outRefs []uint32
	for _, r := range out.Refers() {
		outRefs = append(outRefs, uint32(r))
	}
	ans = fmt.Sprintf("ep=%d cmd=%d seq=%d typ=%d flag=%d node=%d refs=%s body=%s errno=%d", fe.id, out.Command(), out.Seq(), int8(out.Type()),
		uint8(out.Flag()), uint32(out.Node()), natList(outRefs), showVal(out.Body()), out.Errno())
	// the property, field by field
	if out.Seq() != c.Seq || int8(out.Type()) != c.Typ || uint32(out.Node()) != c.Node || natList(outRefs) != natList(c.Refs) {
		fail("reply-header:"+c.Rop, "%s to (seq %d typ %d node %d refs %s) carries (seq %d typ %d node %d refs %s)", c.Rop, c.Seq, c.Typ, c.Node, natList(c.Refs),
			out.Seq(), int8(out.Type()), uint32(out.Node()), natList(outRefs))
	}
	switch c.Rop {
	case "refusewith", "refuse":
		wantCmd := c.Acmd
		if c.Rop == "refuse" {
			wantCmd = c.Cmd
		}
		if out.Command() != wantCmd {
			fail("refuse-command", "%s(%d) of command %d went out as command %d", c.Rop, c.Ec, c.Cmd, out.Command())
		}
		if out.Flag()&fatchoy.PFlagError == 0 {
			fail("refuse-flag", "%s(%d) went out without the error flag (flag %#x)", c.Rop, c.Ec, out.Flag())
		}
		if out.Flag()&^fatchoy.PFlagError != fatchoy.PacketFlag(c.Flag)&^fatchoy.PFlagError {
			fail("refuse-flag", "%s(%d) changed other flag bits: request %#x, refusal %#x", c.Rop, c.Ec, c.Flag, out.Flag())
		}
		if b, ok := out.Body().(int64); !ok || b != int64(c.Ec) {
			fail("refuse-code", "%s(%d) carries body %s", c.Rop, c.Ec, showVal(out.Body()))
		}
		if got := out.Errno(); got != c.Ec {
			fail("errno-local", "command %d: %s(%d) went out as a packet whose Errno() = %d", out.Command(), c.Rop, c.Ec, got)
		}
	case "replywith":
		if out.Command() != c.Acmd {
			fail("reply-command", "ReplyWith(%d, …) went out as command %d", c.Acmd, out.Command())
		}
		if showVal(out.Body()) != showVal(val) {
			fail("reply-body", "ReplyWith(%d, %s) carries body %s", c.Acmd, showVal(val), showVal(out.Body()))
		}
		if out.Flag() != fatchoy.PacketFlag(c.Flag) {
			fail("reply-flag", "ReplyWith changed the flags: request %#x, reply %#x", c.Flag, out.Flag())
		}
	case "reply":
		if out.Command() != c.Cmd {
			fail("reply-command", "Reply(unregistered message) to command %d went out as command %d", c.Cmd, out.Command())
		}
	}
	if c.Mut != "" {
		aliasWire(c, out, fail)
	}
	return op, ans, fails
}

// ---------------------------------------------------------------------------------------------
// generators

var kinds = []string{"nil", "bool", "int", "i8", "i16", "i32", "i64", "uint", "u8", "u16", "u32", "u64", "f32", "f64", "str", "bytes"}

func bitsOf(k string) int {
	switch k {
	case "i8", "u8":
		return 8
	case "i16", "u16":
		return 16
	case "i32", "u32", "f32":
		return 32
	case "int", "uint": // the word of the build under test
		return strconv.IntSize
	}
	return 64
}

//go:noinline
func widenProbe(f float32) float64 { return float64(f) }

// archLine is the first line of every op stream: the word size of THIS build and what its float32 ->
// float64 conversion does with a NaN (Go leaves that to the platform: amd64/arm64 keep sign and payload
// and set the quiet bit, the 386 back end yields the canonical NaN). The model answers every later line
// under these two platform facts (Model/C07.lean: archParams).
func archLine() string {
	nan := "other"
	switch math.Float64bits(widenProbe(math.Float32frombits(0xffc12345))) {
	case 0xfff82468a0000000:
		nan = "quiet"
	case 0x7ff8000000000000:
		nan = "canon"
	}
	return fmt.Sprintf("arch bits=%d nan=%s", strconv.IntSize, nan)
}

func signedKind(k string) bool {
	return k == "int" || k == "i8" || k == "i16" || k == "i32" || k == "i64"
}

// pickBits: extremes, sign boundaries, small magnitudes, varint group boundaries, random.
func pickBits(r *hxlib.Rand, bits int) uint64 {
	m := ^uint64(0)
	if bits < 64 {
		m = (uint64(1) << uint(bits)) - 1
	}
	top := uint64(1) << uint(bits-1)
	switch r.Intn(12) {
	case 0:
		return 0
	case 1:
		return m
	case 2:
		return top
	case 3:
		return top - 1
	case 4:
		return 1
	case 5:
		return (m - uint64(r.Intn(200))) & m
	case 6:
		return uint64(r.Intn(200)) & m
	case 7: // around a 7-bit group boundary of the (zig-zag) varint
		g := uint(7 * r.Range(1, 9))
		if g >= 64 {
			g = 63
		}
		return ((uint64(1) << g) + uint64(r.Intn(5)) - 2) & m
	case 8:
		g := uint(7*r.Range(1, 9) - 1)
		return (m - (uint64(1) << g) + uint64(r.Intn(5)) - 2) & m
	}
	return r.U64() & m
}

var f32Special = []uint32{0, 0x80000000, 0x7f800000, 0xff800000, 0x7fc00000, 0x7fc00001, 0x7f800001, 0xffc12345, 0xff800001, 0x7fbfffff, 1, 2, 3, 0x00000100, 0x007fffff, 0x00400000, 0x00800000, 0x00800001, 0x7f7fffff, 0x3f800000, 0xbf800000, 0x3eaaaaab, 0x4b800000, 0x5f000000, 0xdf000000}
var f64Special = []uint64{0, 0x8000000000000000, 0x7ff0000000000000, 0xfff0000000000000, 0x7ff8000000000000, 0x7ff8000000000001, 0x7ff0000000000001, 0xfff4000000abcdef, 1, 0x000fffffffffffff, 0x0010000000000000, 0x7fefffffffffffff, 0x3ff0000000000000, 0xbff0000000000000, 0x3fd5555555555555, 0x43e0000000000000, 0xc3e0000000000000, 0x4340000000000000, 0x3fb999999999999a}

func randText(r *hxlib.Rand) []byte {
	switch r.Intn(8) {
	case 0:
		return []byte{}
	case 1: // a decimal number, the kind BodyToInt parses
		s := strconv.FormatInt(int64(pickBits(r, 64)), 10)
		if r.Chance(1, 4) {
			s = "+" + strings.TrimPrefix(s, "-")
		}
		if r.Chance(1, 6) {
			s = "00" + s
		}
		return []byte(s)
	case 2: // almost a number
		return []byte([]string{"", "+", "-", "1_0", "12a", " 1", "1 ", "0x10", "9223372036854775808", "-9223372036854775809", "9223372036854775807", "-9223372036854775808", "1e3", "--1", "+-1", "٣"}[r.Intn(16)])
	case 3: // not UTF-8
		return []byte{0xff, 0xfe, 0x80, byte(r.U64())}
	case 4: // fixed sizes BodyToInt/BodyToFloat understand for byte bodies
		return r.Bytes(r.Pick(1, 2, 4, 8))
	case 5:
		return []byte("héllo wörld ✓")
	}
	return r.Bytes(r.Range(1, 24))
}

func randValue(r *hxlib.Rand, k string) string {
	switch k {
	case "nil":
		return ""
	case "bool":
		if r.Bool() {
			return "true"
		}
		return "false"
	case "f32":
		if r.Chance(1, 2) {
			return fmt.Sprint(f32Special[r.Intn(len(f32Special))])
		}
		if r.Chance(1, 4) { // subnormals
			return fmt.Sprint(uint32(r.U64())&0x007fffff | uint32(r.Intn(2))<<31)
		}
		return fmt.Sprint(uint32(r.U64()))
	case "f64":
		if r.Chance(1, 2) {
			return fmt.Sprint(f64Special[r.Intn(len(f64Special))])
		}
		return fmt.Sprint(r.U64())
	case "str", "bytes":
		return hxlib.Hex(randText(r))
	}
	bits := bitsOf(k)
	u := pickBits(r, bits)
	if signedKind(k) {
		sh := uint(64 - bits)
		return fmt.Sprint(int64(u<<sh) >> sh)
	}
	return fmt.Sprint(u)
}

func pickEc(r *hxlib.Rand) int32 {
	switch r.Intn(8) {
	case 0:
		return math.MinInt32
	case 1:
		return -1
	case 2:
		return 0
	case 3:
		return 1
	case 4:
		return 23
	case 5:
		return math.MaxInt32
	case 6:
		return int32(r.Intn(300)) - 100
	}
	return int32(uint32(r.U64()))
}

func pickCmd(r *hxlib.Rand) int32 {
	switch r.Intn(5) {
	case 0:
		return 0
	case 1:
		return 77
	case 2:
		return -5
	case 3:
		return math.MaxInt32
	}
	return int32(uint32(r.U64()))
}

// flags with the compress/encrypt bits clear (those belong to the codec)
func pickFlag(r *hxlib.Rand) uint8 {
	f := []uint8{0, 0x10, 0x20, 0x30, 0x04, 0x08, 0x40, 0x80, 0xfc, 0xec}[r.Intn(10)]
	return f
}

func nonTrivialKey(c Case) (string, bool) {
	nt := false
	switch c.Op {
	case "set", "wire", "raw":
		switch kindClass(c.K) {
		case "integer":
			if c.K != "bool" {
				n, err := strconv.ParseInt(c.V, 10, 64)
				if err != nil { // above MaxInt64: an extreme
					nt = true
				} else {
					b := bitsOf(c.K)
					lo, hi := -(int64(1) << uint(b-1)), (int64(1)<<uint(b-1))-1
					nt = n < 0 || n == hi || n == lo || (b < 64 && !signedKind(c.K) && n == (int64(1)<<uint(b))-1)
				}
			}
		case "float":
			u, _ := strconv.ParseUint(c.V, 10, 64)
			if c.K == "f32" {
				f := math.Float32frombits(uint32(u))
				nt = f != f || math.IsInf(float64(f), 0) || u == 0x80000000 || (u&0x7f800000 == 0 && u&0x7fffff != 0)
			} else {
				f := math.Float64frombits(u)
				nt = f != f || math.IsInf(f, 0) || u == 0x8000000000000000
			}
		case "str", "bytes":
			b, _ := unhex(c.V)
			nt = len(b) == 0 || !validUTF8(b)
		case "nil":
			nt = true
		}
	case "errno", "wireerr":
		nt = c.Ec < 0 || c.Ec == math.MaxInt32 || c.Ec == math.MinInt32
	case "reply":
		nt = len(c.Refs) > 0 || c.Ec < 0 || c.Typ != 0
	case "varint", "uvarint":
		nt = len(c.V) >= 18
	case "putvarint":
		nt = strings.HasPrefix(c.V, "-")
	}
	return fmt.Sprintf("%s|%s|%s|%d|%d|%d|%s|%s|%s|%d", c.Op, c.K, c.V, c.Cmd, c.Flag, c.Ec, c.Codec, c.Enc, c.Rop, c.Seq), nt
}

func validUTF8(b []byte) bool { return strings.ToValidUTF8(string(b), "\x00") == string(b) }

var modelLines = true

// quiet: no model line for the case (search.go: megabyte bodies, tens of thousands of references).
var quiet bool

func one(r *hxlib.Run, c Case) {
	r.Case()
	op, ans, fails := runCase(c)
	if !quiet {
		r.Op(op, ans)
	}
	r.Count("op:" + c.Op)
	if c.Op == "set" || c.Op == "wire" {
		r.Count("kind:" + c.K)
	}
	if c.Op == "reply" {
		r.Count("reply:" + c.Rop)
	}
	if c.Codec != "" {
		r.Count("codec:" + c.Codec + "/" + encName(c.Enc))
	}
	if strings.HasPrefix(ans, "panic") {
		r.Count("outcome:panic")
	}
	if key, nt := nonTrivialKey(c); nt {
		r.NonTrivial(key)
	}
	seen := map[string]bool{}
	for _, f := range fails {
		if !seen[f.key] {
			seen[f.key] = true
			r.Fail(f.key, f.what, c)
		}
	}
}

func main() {
	r := hxlib.Start("C07", "one op on a packet value; non-trivial when the value is an extreme, negative, NaN/Inf/-0/subnormal, empty or not UTF-8, the error code is negative or extreme, or the request has references / a non-zero type; distinct by the op's arguments")
	defer r.Finish()
	log.SetOutput(io.Discard)
	r.Op(archLine(), "ok")
	if r.Replay != "" {
		var c Case
		r.LoadReplay(&c)
		switch c.Op {
		case "reuse":
			runReuse(r, c)
		case "clone":
			runClone(r, c)
		case "held", "shared":
			runHeld(r, c)
		case "sharedrefs":
			runSharedRefs(r, c)
		default:
			one(r, c)
		}
		if len(c.V) < 4096 && len(c.Refs) < 64 {
			r.Sample(c)
		}
		return
	}
	if os.Getenv("HX_LEGS_ONLY") != "" { // development: the legs of search.go alone
		legs(r)
		legs2(r)
		return
	}
	R := r.R
	// ---- every kind at its boundaries
	for _, k := range kinds {
		var vals []string
		switch k {
		case "nil":
			vals = []string{""}
		case "bool":
			vals = []string{"true", "false"}
		case "f32":
			for _, u := range f32Special {
				vals = append(vals, fmt.Sprint(u))
			}
		case "f64":
			for _, u := range f64Special {
				vals = append(vals, fmt.Sprint(u))
			}
		case "str", "bytes":
			for _, s := range []string{"", "0", "-1", "+7", "007", "9223372036854775807", "9223372036854775808", "-9223372036854775808", "-9223372036854775809", "1_0", "abc", "\xff\xfe", "x", "ab", "abcd", "abcdefgh", "abcdefghi", "1.5", "NaN"} {
				vals = append(vals, hxlib.Hex([]byte(s)))
			}
		default:
			b := bitsOf(k)
			if signedKind(k) {
				lo, hi := -(int64(1) << uint(b-1)), (int64(1)<<uint(b-1))-1
				for _, n := range []int64{0, 1, -1, 63, 64, -64, -65, 127, 128, lo, hi, lo + 1, hi - 1} {
					if n >= lo && n <= hi {
						vals = append(vals, fmt.Sprint(n))
					}
				}
			} else {
				m := ^uint64(0)
				if b < 64 {
					m = (uint64(1) << uint(b)) - 1
				}
				for _, n := range []uint64{0, 1, 63, 64, 127, 128, 255, m, m - 1, m/2 + 1, m / 2} {
					if n <= m {
						vals = append(vals, fmt.Sprint(n))
					}
				}
			}
		}
		for _, v := range vals {
			one(r, Case{Op: "set", K: k, V: v})
			one(r, Case{Op: "raw", K: k, V: v})
			for _, cd := range []string{"V1", "V2"} {
				one(r, Case{Op: "wire", K: k, V: v, Cmd: 77, Flag: 0, Codec: cd})
				one(r, Case{Op: "wire", K: k, V: v, Cmd: 77, Flag: 0x20, Codec: cd, Enc: "xor"})
			}
		}
	}
	one(r, Case{Op: "set", K: "unsupported"})
	one(r, Case{Op: "set", K: "msg"})
	one(r, Case{Op: "raw", K: "unsupported"})
	one(r, Case{Op: "raw", K: "msg"})
	// ---- error codes of the design's list, both codecs, locally and across the wire
	for _, ec := range []int32{math.MinInt32, -1, 0, 1, 23, math.MaxInt32, 63, 64, -64, -65, 8191, 8192} {
		for _, cmd := range []int32{77, 0, -5} {
			one(r, Case{Op: "errno", Cmd: cmd, Flag: 0, Ec: ec})
			one(r, Case{Op: "errno", Cmd: cmd, Flag: 0x30, Ec: ec})
			for _, cd := range []string{"V1", "V2"} {
				for _, en := range []string{"", "xor", "aes"} {
					one(r, Case{Op: "wireerr", Cmd: cmd, Flag: 0x20, Ec: ec, Codec: cd, Enc: en})
				}
			}
		}
	}
	// ---- error codes at every power of two (the varint group boundaries among them), ± 1, both signs
	for k := uint(0); k < 32; k++ {
		for _, d := range []int64{-1, 0, 1} {
			for _, sg := range []int64{1, -1} {
				v := sg * ((int64(1) << k) + d)
				if v < math.MinInt32 || v > math.MaxInt32 {
					continue
				}
				one(r, Case{Op: "errno", Cmd: 77, Flag: 0x20, Ec: int32(v)})
				one(r, Case{Op: "wireerr", Cmd: 77, Flag: 0x20, Ec: int32(v), Codec: []string{"V1", "V2"}[k%2], Enc: []string{"", "xor"}[(k/2)%2]})
				one(r, Case{Op: "reply", Rop: "refusewith", Cmd: 9, Seq: uint16(k), Typ: 1, Flag: 0x20, Node: 5, Refs: []uint32{1, 2}, Ep: 1, Acmd: 10, Ec: int32(v)})
			}
		}
	}
	// ---- float32: every (sign, exponent) with mantissas at the edges and single bits
	{
		mants := []uint32{0, 1, 2, 3, 0x400000, 0x3fffff, 0x400001, 0x7fffff, 0x7ffffe, 0x2aaaaa, 0x555555}
		exps := []uint32{0, 1, 2, 126, 127, 128, 253, 254, 255}
		if r.Thorough() {
			exps = exps[:0]
			for e := uint32(0); e < 256; e++ {
				exps = append(exps, e)
			}
			for k := uint(0); k < 23; k++ {
				mants = append(mants, 1<<k, 1<<k|1, (1<<k)-1)
			}
		}
		for _, e := range exps {
			for _, m := range mants {
				for sg := uint32(0); sg < 2; sg++ {
					one(r, Case{Op: "set", K: "f32", V: fmt.Sprint(sg<<31 | e<<23 | m&0x7fffff)})
				}
			}
		}
	}
	if r.Thorough() {
		// the narrow integer kinds exhaustively (the quantifier is finite there)
		for v := -128; v < 128; v++ {
			one(r, Case{Op: "set", K: "i8", V: fmt.Sprint(v)})
			one(r, Case{Op: "set", K: "u8", V: fmt.Sprint(v + 128)})
		}
		for v := -32768; v < 32768; v++ {
			one(r, Case{Op: "set", K: "i16", V: fmt.Sprint(v)})
			one(r, Case{Op: "set", K: "u16", V: fmt.Sprint(v + 32768)})
		}
		r.Note("all values of int8, uint8, int16, uint16 and all 256 float32 exponents (both signs) were run on the real code against the oracle and the model")
	}
	// ---- bulk: values
	for i := 0; i < r.Scale(6000, 150000); i++ {
		k := kinds[R.Intn(len(kinds))]
		c := Case{Op: "set", K: k, V: randValue(R, k)}
		if i < 2 {
			r.Sample(c)
		}
		one(r, c)
		if R.Chance(1, 6) {
			one(r, Case{Op: "raw", K: k, V: c.V})
		}
	}
	// ---- bulk: error codes
	for i := 0; i < r.Scale(2000, 50000); i++ {
		c := Case{Op: "errno", Cmd: pickCmd(R), Flag: []uint8{0, 0x10, 0x20, 0x31, 0xff, 0x03}[R.Intn(6)], Ec: pickEc(R)}
		one(r, c)
		k := kinds[R.Intn(len(kinds))]
		one(r, Case{Op: "geterrno", Cmd: pickCmd(R), Flag: uint8(R.U64()), K: k, V: randValue(R, k)})
	}
	// ---- bulk: across the real codecs
	for i := 0; i < r.Scale(3000, 60000); i++ {
		c := Case{Cmd: pickCmd(R), Flag: pickFlag(R), Codec: []string{"V1", "V2"}[R.Intn(2)], Enc: []string{"", "", "xor", "aes"}[R.Intn(4)], Thr: R.Pick(0, 0, 1, 4, 16)}
		if R.Chance(1, 2) {
			c.Op, c.Ec = "wireerr", pickEc(R)
		} else {
			c.Op = "wire"
			c.K = kinds[R.Intn(len(kinds))]
			c.V = randValue(R, c.K)
			if R.Chance(1, 3) { // an error-flagged frame whose body is not a well-formed varint
				c.K, c.Flag = "bytes", c.Flag|0x10
				c.V = hxlib.Hex(randVarintish(R))
			}
		}
		if i < 2 {
			r.Sample(c)
		}
		one(r, c)
	}
	// ---- bulk: replies
	for i := 0; i < r.Scale(2000, 40000); i++ {
		c := Case{Op: "reply", Rop: []string{"replywith", "reply", "refusewith", "refuse"}[R.Intn(4)], Cmd: pickCmd(R), Seq: uint16(R.Pick(0, 1, 65535, int(uint16(R.U64())))),
			Typ: int8(R.Pick(0, 1, 2, -1, 127, -128)), Flag: uint8(R.Pick(0, 0x10, 0x20, 0x30, 0x03, 0xff, int(uint8(R.U64())))), Node: uint32(R.Pick(0, 1, 0x00ef0bcd, int(uint32(R.U64())))),
			Ep: R.Range(0, 5), Acmd: pickCmd(R), Ec: pickEc(R)}
		for j := R.Pick(0, 0, 1, 3, 8); j > 0; j-- {
			c.Refs = append(c.Refs, uint32(R.U64()))
		}
		if R.Chance(1, 25) {
			c.Ep = -1
		}
		if c.Rop == "replywith" {
			ks := append([]string{"msg"}, kinds...)
			c.K = ks[R.Intn(len(ks))]
			c.V = randValue(R, c.K)
			if c.K == "msg" {
				c.V = ""
			}
		}
		if i < 2 {
			r.Sample(c)
		}
		one(r, c)
	}
	// ---- the varint model against encoding/binary
	for _, n := range []int64{0, 1, -1, 63, 64, -64, -65, 8191, 8192, -8192, -8193, math.MaxInt32, math.MinInt32, math.MaxInt64, math.MinInt64, math.MaxInt64 - 1, math.MinInt64 + 1} {
		one(r, Case{Op: "putvarint", V: fmt.Sprint(n)})
	}
	for g := uint(0); g < 64; g++ {
		for _, d := range []uint64{0, 1, ^uint64(0)} {
			u := (uint64(1) << g) + d
			one(r, Case{Op: "putuvarint", V: fmt.Sprint(u)})
			one(r, Case{Op: "putvarint", V: fmt.Sprint(int64(u))})
		}
	}
	one(r, Case{Op: "putuvarint", V: fmt.Sprint(^uint64(0))})
	for i := 0; i < r.Scale(3000, 100000); i++ {
		u := pickBits(R, 64)
		one(r, Case{Op: "putuvarint", V: fmt.Sprint(u)})
		one(r, Case{Op: "putvarint", V: fmt.Sprint(int64(u))})
		b := randVarintish(R)
		one(r, Case{Op: "uvarint", V: hxlib.Hex(b)})
		one(r, Case{Op: "varint", V: hxlib.Hex(b)})
	}
	for _, h := range []string{"-", "00", "80", "8000", "ff01", "ffffffffffffffffff01", "ffffffffffffffffff02", "ffffffffffffffffff7f", "80808080808080808080", "8080808080808080808001", "808080808080808080808001", "ffffffffffffffffffff01"} {
		one(r, Case{Op: "uvarint", V: h})
		one(r, Case{Op: "varint", V: h})
	}
	legs2(r) // legs2.go: second round (held decoded packets, custom cryptors, shared body / reference slices, word extremes, typed nil)
	legs(r)  // search.go (after the generators, so that the smallest failing case of a kind is recorded first): cheap legs in every tier, the longer ones from thorough on, the rest with -search only
}

// randVarintish: byte strings shaped like varints — valid, truncated, over-long, overflowing.
func randVarintish(r *hxlib.Rand) []byte {
	var tmp [binary.MaxVarintLen64]byte
	switch r.Intn(6) {
	case 0:
		n := binary.PutUvarint(tmp[:], pickBits(r, 64))
		return append(append([]byte{}, tmp[:n]...), r.Bytes(r.Intn(3))...)
	case 1: // truncated
		n := binary.PutUvarint(tmp[:], r.U64()|1<<63)
		return append([]byte{}, tmp[:r.Range(1, n-1)]...)
	case 2: // continuation bytes only
		b := make([]byte, r.Range(1, 13))
		for i := range b {
			b[i] = 0x80 | byte(r.U64())
		}
		return b
	case 3: // ten or eleven bytes with a chosen last byte
		b := make([]byte, r.Range(9, 11))
		for i := range b {
			b[i] = 0x80 | byte(r.U64())
		}
		b[len(b)-1] = byte(r.Pick(0, 1, 2, 0x7f, 0x80))
		return b
	case 4: // non-minimal
		n := binary.PutUvarint(tmp[:], uint64(r.Intn(1000)))
		b := append([]byte{}, tmp[:n]...)
		b[len(b)-1] |= 0x80
		return append(b, 0x80, 0x00)
	}
	return r.Bytes(r.Range(1, 12))
}
