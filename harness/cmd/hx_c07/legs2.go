// legs2.go: second round of legs of hx_c07. They run in the NORMAL tiers (a change that edits only function
// bodies — possibly outside the anchored files — and keys its misbehaviour on something the generators do not vary
// never triggers -search). The judges are the property's clauses as runCase / runReply state them (verbatim text and
// bytes, varints decoding to exactly the value, the error code the receiver reads, the reply's header).
//
//	held       cross-wire part, HELD outputs: 70-100 packets (text and byte bodies on both sides of the compression
//	           threshold, numbers, error codes) travel as ONE stream through the real codec (both formats; no cipher, a
//	           cipher returning new slices, the in-place AES, custom cryptors) and are read from a bytes.Buffer, a
//	           bytes.Reader and *bufio.Reader s of 16 B .. 64 KiB; EVERY received packet is kept (as an application does
//	           with its inbound queue) and judged AGAIN after 1, 2, 8, 64 further packets were received and at the end
//	cryptors   custom BlockCryptor implementations (tag appended to a NEW slice; append(src, tag…); stateful sender
//	           prepending a counter; stream cipher running on from frame to frame) under the wire / wireerr ops
//	           (oracle only: the model's line protocol knows the built-in names)
//	shared     ONE byte slice and ONE string are the body of many packets (broadcast); ONE reference slice (with and
//	           without spare capacity) belongs to many requests that are replied to and refused; everything is looked
//	           at only after all of it was sent. (Not judged, recorded: with a cipher that works in place WritePacket
//	           encrypts the caller's own []byte body, so a second send of the same slice carries the ciphertext of the
//	           first — the unchanged library does that; such combinations are not generated.)
//	wordvals   machine-word extremes as int / int64 / uint / uint64 (and narrower) bodies and as error codes: MaxInt,
//	           MaxInt-1, MinInt, MinInt+1 of both word sizes, -1, 0, 62..65, 2^31±1, 2^32±1 — set, read back, text, wire
//	           form, across both codecs (with model lines)
//	typednil   []byte(nil), an empty slice with spare capacity, "" as bodies: read back, wire form, across the wire, as
//	           a reply body (oracle only)
package main

import (
	"bufio"
	"bytes"
	"encoding/binary"
	"fmt"
	"io"
	"math"
	"strconv"
	"strings"
	"time"

	"verifharness/hxcodec"
	"verifharness/hxlib"

	"qchen.fun/fatchoy"
	"qchen.fun/fatchoy/packet"
)

type sentPkt struct {
	kind  string // str bytes i64 f64 errno nil
	str   string
	raw   []byte
	i     int64
	f     uint64
	ec    int32
	flag  fatchoy.PacketFlag
	cmd   int32
	seq   uint16
	descr string
}

// wireVerdict: what the property says about a packet that crossed the wire ("" = all is well).
func wireVerdict(codecName string, s *sentPkt, q *packet.Packet) (key, what string) {
	if q.Command() != s.cmd || q.Seq() != s.seq {
		return "wire-header", fmt.Sprintf("%s codec: packet (command %d, seq %d) reads as (command %d, seq %d)", codecName, s.cmd, s.seq, q.Command(), q.Seq())
	}
	if s.kind == "errno" {
		if got := q.Errno(); got != s.ec || q.Flag()&fatchoy.PFlagError == 0 {
			return "errno-wire", fmt.Sprintf("%s codec, command %d: SetErrno(%d) reads as Errno() = %d after the wire (received flag %#x body %s)", codecName, s.cmd, s.ec, got, q.Flag(), showShort(q.Body()))
		}
		return "", ""
	}
	if got := q.Errno(); got != 0 {
		return "errno-unflagged", fmt.Sprintf("%s codec, command %d: no error flagged but the receiver reads Errno() = %d", codecName, s.cmd, got)
	}
	raw, _ := q.Body().([]byte)
	switch s.kind {
	case "i64":
		if x, n := binary.Varint(raw); x != s.i || n != len(raw) || n <= 0 {
			return "wire-number", fmt.Sprintf("%s codec: int64 body %d reads as % x, which decodes to (%d, %d)", codecName, s.i, raw, x, n)
		}
	case "f64":
		if x, n := binary.Uvarint(raw); x != s.f || n != len(raw) || n <= 0 {
			return "wire-number", fmt.Sprintf("%s codec: float64 body %#x reads as % x, which decodes to (%#x, %d)", codecName, s.f, raw, x, n)
		}
	case "str":
		if string(raw) != s.str {
			return "wire-verbatim", fmt.Sprintf("%s codec: string body %s reads as %s", codecName, hxcodec.Digest([]byte(s.str)), hxcodec.Digest(raw))
		}
	case "bytes":
		if !bytes.Equal(raw, s.raw) {
			return "wire-verbatim", fmt.Sprintf("%s codec: byte body %s reads as %s", codecName, hxcodec.Digest(s.raw), hxcodec.Digest(raw))
		}
	case "nil":
		if q.Body() != nil && len(raw) != 0 {
			return "wire-verbatim", fmt.Sprintf("%s codec: absent body reads as %s", codecName, showShort(q.Body()))
		}
	}
	return "", ""
}

func showShort(b interface{}) string {
	if v, ok := b.([]byte); ok {
		return "bytes:" + hxcodec.Digest(v)
	}
	if v, ok := b.(string); ok {
		return "str:" + hxcodec.Digest([]byte(v))
	}
	return showVal(b)
}

// patterned: n bytes that say where they come from (packet number and offset), so that bytes delivered from another
// packet or another offset are visibly wrong; text=true keeps them printable.
func patterned(i, n int, text bool) []byte {
	b := make([]byte, n)
	for j := range b {
		if text {
			b[j] = "0123456789abcdefghijklmnopqrstuvwxyzABCDEFGHIJKLMNOPQRSTUVWXYZ-_"[(j*7+i*13+j/64)%64]
		} else {
			b[j] = byte(j*31 + i*17 + j/251)
		}
	}
	return b
}

var heldDistances = []int{1, 2, 8, 64}

// runHeld: ops "held" and "shared" (see the file comment). Everything derives from the case's fields.
func runHeld(r *hxlib.Run, c Case) {
	r.Case()
	R := hxlib.NewRand(c.Seed)
	e := encoder(c.Codec, c.Thr)
	enc, dec := cryptPair(c.Enc)
	thr := c.Thr
	if thr <= 0 {
		thr = 4096
		if c.Codec == "V2" {
			thr = 8192
		}
	}
	inPlace := c.Enc == "aes" || c.Enc == "x:seal" || c.Enc == "x:chain"
	// shared: one slice and one string for every byte / text body of the stream
	sharedLen := R.Pick(24, thr+200, 300)
	if c.Op == "shared" && inPlace {
		sharedLen = thr + 200 + R.Intn(2000) // compressed first: the cipher then works on the compressed copy, not on the caller's slice
	}
	sharedBytes := patterned(1000, sharedLen, false)
	sharedStr := string(patterned(2000, sharedLen, true))
	sharedWant := append([]byte{}, sharedBytes...)
	var stream bytes.Buffer
	var sent []*sentPkt
	for i := 0; i < c.N; i++ {
		s := &sentPkt{cmd: int32(1000 + i), seq: uint16(i), flag: fatchoy.PacketFlag(R.Pick(0, 0x20, 0x40))}
		p := packet.New(s.cmd, s.seq, s.flag, nil)
		size := R.Pick(0, 1, 2, R.Intn(40), R.Intn(300), R.Intn(300), thr-1, thr, thr+1, thr+1+R.Intn(3000), thr+4000+R.Intn(4000))
		pick := R.Intn(8)
		if c.Op == "shared" {
			pick = R.Intn(2)
		}
		switch pick {
		case 0, 2:
			s.kind, s.raw = "bytes", patterned(i, size, false)
			body := append([]byte{}, s.raw...)
			if c.Op == "shared" {
				s.raw, body = sharedWant, sharedBytes
			}
			p.SetBody(body)
		case 1, 3:
			s.kind, s.str = "str", string(patterned(i, size, true))
			if c.Op == "shared" {
				s.str = sharedStr
			}
			p.SetBody(s.str)
		case 4:
			s.kind, s.i = "i64", int64(pickBits(R, 64))
			p.SetBody(s.i)
		case 5:
			s.kind, s.f = "f64", f64Special[R.Intn(len(f64Special))]
			p.SetBody(math.Float64frombits(s.f))
		case 6:
			s.kind, s.ec = "errno", pickEc(R)
			p.SetErrno(s.ec)
		case 7:
			s.kind = "nil"
		}
		var werr error
		if pn := hxlib.Guard(func() { _, werr = e.WritePacket(&stream, enc, p) }); pn != "" || werr != nil {
			r.Fail("wire-send:"+c.Op, fmt.Sprintf("%s codec: packet %d of a stream (%s body of %d bytes) cannot be written: %v %s", c.Codec, i, s.kind, size, werr, pn), c)
			return
		}
		sent = append(sent, s)
	}
	if c.Op == "shared" && !bytes.Equal(sharedBytes, sharedWant) && !inPlace {
		r.Count("shared:caller-slice-changed")
	}
	r.Count("held:codec:" + c.Codec + "/" + encName(c.Enc))
	// ---- the receiver
	data := append([]byte{}, stream.Bytes()...)
	var rd io.Reader
	switch {
	case c.Rd == "buffer" || c.Rd == "":
		rd = bytes.NewBuffer(data)
	case c.Rd == "bytes":
		rd = bytes.NewReader(data)
	case strings.HasPrefix(c.Rd, "bufio:"):
		n, _ := strconv.Atoi(c.Rd[6:])
		rd = bufio.NewReaderSize(&slowReader{data: data, step: 1 + int(c.Seed%4096)}, n)
	default:
		panic("bad reader " + c.Rd)
	}
	var got []*packet.Packet
	look := func(i int, when string) bool {
		if key, what := wireVerdict(c.Codec, sent[i], got[i]); key != "" {
			r.Fail("held:"+key, fmt.Sprintf("packet %d of a stream was received correctly; looked at again %s (cipher %s, reader %s): %s", i, when, encName(c.Enc), c.Rd, what), c)
			return false
		}
		return true
	}
	for i := range sent {
		q := packet.Make()
		var rerr error
		if pn := hxlib.Guard(func() { rerr = e.ReadPacket(rd, dec, q) }); pn != "" || rerr != nil {
			r.Fail("wire-send:"+c.Op, fmt.Sprintf("%s codec: packet %d of a stream (%s body) cannot be read back: %v %s", c.Codec, i, sent[i].kind, rerr, pn), c)
			return
		}
		if key, what := wireVerdict(c.Codec, sent[i], q); key != "" {
			r.Fail(key, fmt.Sprintf("packet %d of a stream (cipher %s, reader %s): %s", i, encName(c.Enc), c.Rd, what), c)
			return
		}
		got = append(got, q)
		for _, k := range heldDistances {
			if i-k >= 0 && !look(i-k, fmt.Sprintf("after %d further packet(s) were received", k)) {
				return
			}
		}
	}
	for i := range got {
		if !look(i, "at the end of the stream") {
			return
		}
	}
}

// slowReader hands the stream out in steps (a socket delivering segments).
type slowReader struct {
	data []byte
	step int
}

func (s *slowReader) Read(p []byte) (int, error) {
	if len(s.data) == 0 {
		return 0, io.EOF
	}
	n := s.step
	if n > len(p) {
		n = len(p)
	}
	if n > len(s.data) {
		n = len(s.data)
	}
	copy(p, s.data[:n])
	s.data = s.data[n:]
	return n, nil
}

// runSharedRefs: N requests own ONE reference slice; each is replied to or refused; the queued packets are looked at
// (and sent through the V2 codec) only after all of them were produced.
func runSharedRefs(r *hxlib.Run, c Case) {
	r.Case()
	R := hxlib.NewRand(c.Seed)
	refs := make([]fatchoy.NodeID, len(c.Refs), len(c.Refs)+R.Pick(0, 0, 1, 5)) // with and without spare capacity
	for i, x := range c.Refs {
		refs[i] = fatchoy.NodeID(x)
	}
	fe := &fakeEndpoint{id: 4}
	type want struct {
		rop       string
		seq       uint16
		typ       int8
		node      uint32
		ec, acmd  int32
		bodyShown string
	}
	var wants []want
	for i := 0; i < c.N; i++ {
		w := want{rop: []string{"replywith", "refusewith", "refuse", "replywith"}[i%4], seq: uint16(R.U64()), typ: int8(R.Pick(0, 1, 2, -1)), node: uint32(R.U64()), ec: pickEc(R), acmd: pickCmd(R)}
		req := packet.New(c.Cmd+int32(i), w.seq, fatchoy.PacketFlag(c.Flag), nil)
		req.SetType(fatchoy.PacketType(w.typ))
		req.SetNode(fatchoy.NodeID(w.node))
		req.SetRefers(refs) // the SAME slice for every request
		req.SetEndpoint(fe)
		before := len(fe.sent)
		var pn string
		switch w.rop {
		case "replywith":
			val := int64(i) * 1000003
			w.bodyShown = showVal(val)
			pn = hxlib.Guard(func() { req.ReplyWith(w.acmd, val) })
		case "refusewith":
			pn = hxlib.Guard(func() { req.RefuseWith(w.acmd, w.ec) })
		case "refuse":
			pn = hxlib.Guard(func() { req.Refuse(w.ec) })
		}
		if pn != "" || len(fe.sent) != before+1 {
			r.Fail("reply-endpoint", fmt.Sprintf("request %d of %d sharing one reference slice: %s handed %d packets to the endpoint (panic %q)", i, c.N, w.rop, len(fe.sent)-before, pn), c)
			return
		}
		wants = append(wants, w)
	}
	e := encoder("V2", 0)
	for i, w := range wants {
		out := fe.sent[i]
		var outRefs []uint32
		for _, x := range out.Refers() {
			outRefs = append(outRefs, uint32(x))
		}
		if out.Seq() != w.seq || int8(out.Type()) != w.typ || uint32(out.Node()) != w.node || natList(outRefs) != natList(c.Refs) {
			r.Fail("reply-header:"+w.rop, fmt.Sprintf("%s to request %d of %d that share one reference slice, looked at after all were answered: (seq %d typ %d node %d refs %s) carries (seq %d typ %d node %d refs %s)",
				w.rop, i, c.N, w.seq, w.typ, w.node, natList(c.Refs), out.Seq(), int8(out.Type()), uint32(out.Node()), natList(outRefs)), c)
			return
		}
		if w.rop != "replywith" {
			if out.Flag()&fatchoy.PFlagError == 0 || out.Errno() != w.ec {
				r.Fail("refuse-code", fmt.Sprintf("%s(%d) to request %d of %d that share one reference slice went out with flag %#x and Errno() = %d", w.rop, w.ec, i, c.N, out.Flag(), out.Errno()), c)
				return
			}
		} else if showVal(out.Body()) != w.bodyShown {
			r.Fail("reply-body", fmt.Sprintf("ReplyWith to request %d of %d that share one reference slice carries body %s, given was %s", i, c.N, showVal(out.Body()), w.bodyShown), c)
			return
		}
		if len(c.Refs) > 255 {
			continue
		}
		var buf bytes.Buffer
		q := packet.Make()
		var werr, rerr error
		if pn := hxlib.Guard(func() {
			if _, werr = e.WritePacket(&buf, nil, out); werr == nil {
				rerr = e.ReadPacket(&buf, nil, q)
			}
		}); pn != "" || werr != nil || rerr != nil {
			continue
		}
		var got []uint32
		for _, x := range q.Refers() {
			got = append(got, uint32(x))
		}
		if q.Seq() != w.seq || int8(q.Type()) != w.typ || uint32(q.Node()) != w.node || natList(got) != natList(c.Refs) {
			r.Fail("reply-header:"+w.rop, fmt.Sprintf("%s to request %d of %d that share one reference slice arrives through the V2 codec as (seq %d typ %d node %d refs %s), the request had (seq %d typ %d node %d refs %s)",
				w.rop, i, c.N, q.Seq(), int8(q.Type()), uint32(q.Node()), natList(got), w.seq, w.typ, w.node, natList(c.Refs)), c)
			return
		}
		if w.rop != "replywith" && q.Errno() != w.ec {
			r.Fail("errno-wire", fmt.Sprintf("%s(%d) to request %d of %d that share one reference slice reads as Errno() = %d after the V2 wire", w.rop, w.ec, i, c.N, q.Errno()), c)
			return
		}
	}
}

func legs2(r *hxlib.Run) {
	level := 0 // 0 quick, 1 thorough, 2 -search
	if r.Thorough() {
		level = 1
	}
	if r.Search {
		level = 2
	}
	R := hxlib.NewRand(r.Seed ^ 0x2ea7c07)
	stop := func() bool { return r.Search && r.Failed() }
	leg := func(name string, f func()) {
		if stop() {
			return
		}
		t0 := time.Now()
		f()
		r.Note("leg %s: %.1fs", name, time.Since(t0).Seconds())
	}
	oracleOnly := func(c Case) { // no model line: the line protocol cannot express the case
		if !stop() {
			quiet = true
			one(r, c)
			quiet = false
		}
	}
	readers := []string{"buffer", "bytes", "bufio:16", "bufio:512", "bufio:4096", "bufio:65536"}
	encs := []string{"", "xor", "aes", "x:tag", "x:seal", "x:nonce", "x:chain"}

	leg("held", func() {
		n := 0
		for round := 0; round < []int{1, 4, 4}[level]; round++ {
			for _, cd := range []string{"V1", "V2"} {
				for ri, rd := range readers {
					for ei, en := range encs {
						if level == 0 && ei >= 3 && (ei+ri)%3 != 0 {
							continue // quick: no cipher / xor / aes with every reader, the custom cryptors with a third of them
						}
						if stop() {
							return
						}
						runHeld(r, Case{Op: "held", Seed: R.U64(), Codec: cd, Enc: en, Thr: []int{0, 16, 300}[n%3], N: 70 + R.Intn(30), Rd: rd})
						n++
					}
				}
			}
		}
		r.CountN("leg:held", n)
		r.Note("leg held: %d streams of 70-100 packets through the real codecs, read from a bytes.Buffer / bytes.Reader / bufio.Reader of 16 B..64 KiB; every received packet judged again after 1, 2, 8, 64 further packets and at the end", n)
	})

	leg("cryptors", func() {
		n := 0
		for _, en := range hxcodec.XKinds {
			for _, cd := range []string{"V1", "V2"} {
				for _, thr := range []int{0, 16} {
					for _, k := range kinds {
						for i := 0; i < []int{2, 12, 12}[level]; i++ {
							v := randValue(R, k)
							if (k == "str" || k == "bytes") && i%2 == 1 {
								v = hxlib.Hex(patterned(i, R.Pick(17, 300, 5000, 9000), k == "str"))
							}
							oracleOnly(Case{Op: "wire", K: k, V: v, Cmd: pickCmd(R), Flag: pickFlag(R), Codec: cd, Enc: en, Thr: thr})
							n++
						}
					}
					for _, ec := range []int32{math.MinInt32, -1, 0, 1, 1000, math.MaxInt32, pickEc(R)} {
						oracleOnly(Case{Op: "wireerr", Cmd: pickCmd(R), Flag: 0x20, Ec: ec, Codec: cd, Enc: en, Thr: thr})
						n++
					}
				}
			}
		}
		r.CountN("leg:cryptors", n)
		r.Note("leg cryptors: %d wire / wireerr ops under custom BlockCryptor implementations (%s)", n, strings.Join(hxcodec.XKinds, ", "))
	})

	leg("shared", func() {
		n := 0
		for _, cd := range []string{"V1", "V2"} {
			for _, en := range encs {
				for k := 0; k < []int{2, 8, 8}[level]; k++ {
					if stop() {
						return
					}
					runHeld(r, Case{Op: "shared", Seed: R.U64(), Codec: cd, Enc: en, Thr: []int{0, 16, 300}[n%3], N: 12 + R.Intn(20), Rd: readers[n%len(readers)]})
					n++
				}
			}
		}
		for _, k := range []int{0, 1, 2, 3, 8, 40, 255} {
			refs := make([]uint32, k)
			for i := range refs {
				refs[i] = uint32(R.U64())
			}
			for j := 0; j < 3 && !stop(); j++ {
				runSharedRefs(r, Case{Op: "sharedrefs", Seed: R.U64(), Cmd: pickCmd(R), Flag: uint8(R.Pick(0, 0x20, 0x40)), Refs: refs, N: 2 + R.Intn(12)})
				n++
			}
		}
		r.CountN("leg:shared", n)
		r.Note("leg shared: %d histories in which one byte slice / one string is the body of many packets of a stream, or one reference slice belongs to many requests that are replied to and refused; everything looked at after all of it was sent", n)
	})

	leg("wordvals", func() {
		n := 0
		words := []int64{math.MaxInt64, math.MaxInt64 - 1, math.MinInt64, math.MinInt64 + 1, math.MaxInt32, math.MaxInt32 - 1, math.MinInt32, math.MinInt32 + 1,
			-1, 0, 62, 63, 64, 65, 1 << 31, 1<<31 + 1, 1<<32 - 1, 1 << 32, 1<<32 + 1, -(1 << 31) - 1, -(1 << 32), -(1 << 32) - 1, -(1 << 32) + 1}
		for _, w := range words {
			for _, k := range []string{"int", "i64", "i32", "i16", "i8", "uint", "u64", "u32", "u16", "u8"} {
				v := strconv.FormatInt(w, 10)
				if !signedKind(k) {
					v = strconv.FormatUint(uint64(w), 10)
				}
				if _, ok := goValue(k, v); !ok {
					continue // not a value of the kind (of this build's word)
				}
				if stop() {
					return
				}
				one(r, Case{Op: "set", K: k, V: v})
				one(r, Case{Op: "wire", K: k, V: v, Cmd: 77, Flag: 0x20, Codec: []string{"V1", "V2"}[n%2], Enc: []string{"", "xor", "aes"}[n%3]})
				n += 2
			}
			if w >= math.MinInt32 && w <= math.MaxInt32 {
				one(r, Case{Op: "errno", Cmd: 77, Flag: 0x20, Ec: int32(w)})
				one(r, Case{Op: "wireerr", Cmd: 77, Flag: 0x20, Ec: int32(w), Codec: []string{"V1", "V2"}[n%2], Enc: []string{"", "xor"}[n%2]})
				one(r, Case{Op: "reply", Rop: "refusewith", Cmd: 9, Seq: uint16(n), Typ: 1, Flag: 0x20, Node: 5, Refs: []uint32{1, 2}, Ep: 1, Acmd: 10, Ec: int32(w)})
				n += 3
			}
		}
		r.CountN("leg:wordvals", n)
		r.Note("leg wordvals: %d ops on integer bodies and error codes at the machine-word extremes (MaxInt/MinInt ±1 of both word sizes, -1, 0, 62..65, 2^31±1, 2^32±1)", n)
	})

	leg("typednil", func() {
		n := 0
		for _, cd := range []string{"V1", "V2"} {
			for _, en := range []string{"", "xor", "aes", "x:tag"} {
				oracleOnly(Case{Op: "wire", K: "nilbytes", Cmd: 77, Flag: 0x20, Codec: cd, Enc: en})
				oracleOnly(Case{Op: "wire", K: "nilbytes", Cmd: 77, Flag: 0, Codec: cd, Enc: en, Thr: 1})
				n += 2
			}
		}
		oracleOnly(Case{Op: "set", K: "nilbytes"})
		oracleOnly(Case{Op: "geterrno", K: "nilbytes", Cmd: 5, Flag: 0x10})
		oracleOnly(Case{Op: "geterrno", K: "nilbytes", Cmd: 5, Flag: 0})
		oracleOnly(Case{Op: "reply", Rop: "replywith", K: "nilbytes", Cmd: 9, Seq: 3, Typ: 1, Flag: 0x20, Node: 5, Refs: []uint32{1}, Ep: 1, Acmd: 10})
		n += 4
		r.CountN("leg:typednil", n)
		r.Note("leg typednil: %d ops with []byte(nil) as the body (set, error-code view, reply body, across both codecs with and without ciphers)", n)
	})
}
