// legs2.go: second round of legs of hx_c16. They run in the NORMAL tiers (a change that edits only function
// bodies and keys its misbehaviour on something the generators do not vary never triggers -search). The judge is
// runSession: stock CFB of crypto/cipher (or the stock Salsa20) under the key and IV the instance was BUILT with,
// round trip on an equally keyed instance, statelessness — plus, since this round, held outputs (every slice Encrypt /
// Decrypt returned is compared again at the end of the session).
//
//	keylife   the life of the caller's key buffer: an instance is built (by the factory and by every public
//	          constructor) from a key slice the caller then wipes / overwrites with the next connection's key /
//	          complements — before the first packet, and after the first packet; sender, receiver and reference
//	          instances built from ONE shared key slice and ONE shared IV slice. The instance must stay keyed with the
//	          key it was constructed with (what crypto/aes, des, twofish, xtea, sm4 and the Salsa20 copy guarantee).
//	          The IV slice is left alone: the block cryptors keep a reference to it by design (IV() hands it out).
//	keytext   keys whose BYTES are text, of every length the factory accepts (the prefix it needs, 16, 22, 24, 32, 40, 43,
//	          44, 48, 64, 88, 96, 128 — the sizes of 16/20/24/32/48/64 bytes printed as hex or base64): lower / upper / mixed hex digits, decimal digits, base64 (standard, URL, padded),
//	          "0x…", one repeated character, printable ASCII, UTF-8, trailing newline. The key is the bytes given.
//	ctors     every public constructor (NewAESCFB with 16/24/32-byte keys, NewSM4, NewTwofish 16/24/32, NewTripleDES,
//	          NewXTEA, NewSalsa20, NewNoneCrypt) instead of the factory: every length 0..300 and the stride
//	          boundaries, sessions in any order
package main

import (
	"encoding/base64"
	"encoding/hex"
	"fmt"
	"strings"
	"time"
	"unicode/utf8"

	"verifharness/hxlib"

	xc "qchen.fun/fatchoy/x/cipher"
)

// life builds the instances of a session and plays the caller's part with the key buffers afterwards.
type life struct {
	c        *Case
	key, iv  []byte
	shKey    []byte // Shared: the one key slice / iv slice all instances are built from
	shIV     []byte
	bufs     [2][]byte // key buffers handed to the sender (0) and the receiver (1)
	usedOnce [2]bool
}

func newLife(c *Case, key, iv []byte) *life {
	l := &life{c: c, key: key, iv: iv}
	if c.Shared {
		l.shKey, l.shIV = clone(key), clone(iv)
	}
	return l
}

// lifeNote: what is special about the session, for failure texts.
func lifeNote(c *Case, key []byte) string {
	var parts []string
	if c.Ctor == "direct" {
		parts = append(parts, "instances built by the public constructor")
	}
	if c.Shared {
		parts = append(parts, "all instances built from one shared key slice and one shared iv slice")
	}
	if c.KeyLife != "" {
		how, when := c.KeyLife[:len(c.KeyLife)-1], c.KeyLife[len(c.KeyLife)-1]
		what := map[string]string{"wipe": "zeroes", "next": "overwrites (next key)", "flip": "complements"}[how]
		at := "as soon as the constructor has returned, before the first packet"
		if when == '1' {
			at = "after the instance has processed its first packet"
		}
		parts = append(parts, fmt.Sprintf("the caller %s the key buffer it handed in %s; the reference is keyed with the key given at construction", what, at))
	}
	text := len(key) > 0
	for _, b := range key {
		if b < 0x20 && b != '\n' || b == 0x7f {
			text = false
		}
	}
	if text && utf8.Valid(key) {
		parts = append(parts, fmt.Sprintf("the %d key bytes are the text %q", len(key), key))
	}
	if len(parts) == 0 {
		return ""
	}
	return " [" + strings.Join(parts, "; ") + "]"
}

func (l *life) ctorName() string {
	if l.c.Ctor == "direct" {
		return "the public constructor"
	}
	return "NewCrypt"
}

// prefixLen: how much of the key the factory hands to the constructor (written down independently of cipher.go).
func prefixLen(name string, keyLen int) int {
	switch name {
	case "aes-128", "sm4", "xtea":
		return 16
	case "aes-192", "3des":
		return 24
	case "twofish", "none":
		return keyLen
	}
	return 32
}

func construct(name, ctor string, kb, iv []byte) xc.BlockCryptor {
	if ctor != "direct" {
		return xc.NewCrypt(name, kb, iv)
	}
	k := kb[:prefixLen(name, len(kb))]
	switch name {
	case "aes-128", "aes-192", "aes-256", "":
		return xc.NewAESCFB(k, iv)
	case "sm4":
		return xc.NewSM4(k, iv)
	case "twofish":
		return xc.NewTwofish(k, iv)
	case "3des":
		return xc.NewTripleDES(k, iv)
	case "xtea":
		return xc.NewXTEA(k, iv)
	case "salsa20":
		return xc.NewSalsa20(k, iv)
	case "none":
		return xc.NewNoneCrypt(k, iv)
	}
	panic("no constructor for " + name)
}

func overwrite(kb []byte, how string) {
	for i := range kb {
		switch how {
		case "wipe":
			kb[i] = 0
		case "next": // the next connection's key lands in the same scratch buffer
			kb[i] = byte(0x3d*i + 0x11)
		case "flip":
			kb[i] = ^kb[i]
		}
	}
}

func (l *life) how() (string, int) {
	kl := l.c.KeyLife
	if kl == "" {
		return "", -1
	}
	return kl[:len(kl)-1], int(kl[len(kl)-1] - '0')
}

// build: who = 0 sender, 1 receiver, 2 a reference instance (`fresh`: built from private copies and used at once).
// The sender is built first, the receiver second, both before any packet is processed.
func (l *life) build(who int) xc.BlockCryptor {
	how, when := l.how()
	if who == 2 || !l.c.Shared {
		kb := clone(l.key)
		inst := construct(l.c.Name, l.c.Ctor, kb, clone(l.iv))
		if who < 2 {
			l.bufs[who] = kb
		}
		if how != "" && (when == 0 || who == 2) {
			overwrite(kb, how) // the caller is done with the key material as soon as the constructor returned
		}
		return inst
	}
	inst := construct(l.c.Name, l.c.Ctor, l.shKey, l.shIV)
	if who == 1 && how != "" && when == 0 {
		overwrite(l.shKey, how) // both instances exist now
	}
	return inst
}

// used: the sender (0) / receiver (1) has just processed a packet. With a shared buffer the sender's first packet
// is the moment (the receiver has not been used yet: the session decrypts after all encryptions).
func (l *life) used(who int) {
	how, when := l.how()
	if how == "" || when != 1 || l.usedOnce[who] {
		return
	}
	l.usedOnce[who] = true
	if l.c.Shared {
		if who == 0 {
			overwrite(l.shKey, how)
		}
		return
	}
	overwrite(l.bufs[who], how)
}

// textKey: n bytes of text of the given class (deterministic in seed).
func textKey(R *hxlib.Rand, class string, n int) []byte {
	from := func(alpha string) []byte {
		b := make([]byte, n)
		for i := range b {
			b[i] = alpha[R.Intn(len(alpha))]
		}
		return b
	}
	fit := func(s string) []byte {
		for len(s) < n {
			s += s
		}
		return []byte(s[:n])
	}
	switch class {
	case "hex":
		return from("0123456789abcdef")
	case "HEX":
		return from("0123456789ABCDEF")
	case "hExmixed":
		return from("0123456789abcdefABCDEF")
	case "hex-of-bytes": // hex.EncodeToString of random bytes: what a printed digest looks like
		return fit(hex.EncodeToString(R.Bytes(n/2 + 1)))
	case "digits":
		return from("0123456789")
	case "base64":
		return fit(base64.StdEncoding.EncodeToString(R.Bytes(n)))
	case "base64-padded": // ends in '='
		s := base64.StdEncoding.EncodeToString(R.Bytes(n))[:n]
		return []byte(s[:n-1] + "=")
	case "base64url":
		return fit(base64.RawURLEncoding.EncodeToString(R.Bytes(n)))
	case "0x":
		return fit("0x" + hex.EncodeToString(R.Bytes(n)))
	case "same0":
		return []byte(strings.Repeat("0", n))
	case "samef":
		return []byte(strings.Repeat("f", n))
	case "printable":
		return from(" !\"#$%&'()*+,-./:;<=>?@[\\]^_`{|}~abcXYZ019")
	case "utf8":
		return fit("ключ-密钥-clé-🔑-")
	case "newline":
		b := from("0123456789abcdef")
		b[n-1] = '\n'
		return b
	case "letters":
		return from("abcdefghijklmnopqrstuvwxyz")
	}
	panic("unknown key class " + class)
}

var keyClasses = []string{"hex", "HEX", "hExmixed", "hex-of-bytes", "digits", "base64", "base64-padded", "base64url", "0x", "same0", "samef", "printable", "utf8", "newline", "letters"}

func legs2(r *hxlib.Run) {
	level := 0 // 0 quick, 1 thorough, 2 -search
	if r.Thorough() {
		level = 1
	}
	if r.Search {
		level = 2
	}
	saved := r.R
	r.R = hxlib.NewRand(r.Seed ^ 0x2ea7c16) // sessionCase draws from r.R; the tiers' stream is left alone
	defer func() { r.R = saved }()
	R := r.R
	stop := func() bool { return r.Search && r.Failed() }
	leg := func(name string, f func()) {
		if stop() {
			return
		}
		t0 := time.Now()
		f()
		r.Note("leg %s: %.1fs", name, time.Since(t0).Seconds())
	}
	session := func(c Case) {
		if !stop() {
			runSession(r, c, false)
		}
	}
	hx := hex.EncodeToString

	leg("keylife", func() {
		n := 0
		for i := range ciphers {
			ci := &ciphers[i]
			for _, kl := range ci.keys {
				if kl == 0 {
					continue
				}
				for _, ctor := range []string{"", "direct"} {
					for _, lifeOf := range []string{"wipe0", "next0", "flip0", "wipe1", "next1", "flip1"} {
						for _, shared := range []bool{false, true} {
							c := sessionCase(r, ci, []int{R.Range(1, 40), 0, 17, 64 + R.Intn(200), 513}, n%2 == 0)
							c.Key = hx(R.Bytes(kl))
							c.Ctor, c.KeyLife, c.Shared = ctor, lifeOf, shared
							session(c)
							n++
						}
					}
				}
			}
			// shared slices alone (nobody overwrites anything)
			for _, ctor := range []string{"", "direct"} {
				c := sessionCase(r, ci, []int{5, 16, 129, 700}, true)
				c.Ctor, c.Shared = ctor, true
				session(c)
				n++
			}
		}
		r.CountN("leg:keylife", n)
		r.Note("leg keylife: %d sessions in which the caller wipes / overwrites / complements the key buffer it handed to the factory or to a public constructor (before the first packet, after the first packet; private and shared buffers)", n)
	})

	leg("keytext", func() {
		n := 0
		for i := range ciphers {
			ci := &ciphers[i]
			var lens []int
			for _, l := range []int{16, 22, 24, 32, 40, 43, 44, 48, 64, 88, 96, 128} {
				switch {
				case ci.name == "twofish" && l != 16 && l != 24 && l != 32:
				case l < prefixLen(ci.name, l):
				default:
					lens = append(lens, l)
				}
			}
			for _, l := range lens {
				for ki, class := range keyClasses {
					if level == 0 && l != 64 && l != 32 && l != 44 && (ki+l)%3 != 0 {
						continue // quick: every class at 32, 44 and 64 bytes, a third of them at the other lengths
					}
					c := sessionCase(r, ci, []int{R.Range(1, 60), 16, 100 + R.Intn(400)}, true)
					c.Key = hx(textKey(R, class, l))
					if n%4 == 3 && l >= prefixLen(ci.name, l) {
						c.Ctor = "direct"
					}
					session(c)
					n++
				}
			}
		}
		r.CountN("leg:keytext", n)
		r.Note("leg keytext: %d sessions keyed with text-shaped keys (%d classes: hex in three cases, printed digests, digits, base64 variants, 0x…, repeated characters, printable, UTF-8, trailing newline) of 16 .. 128 bytes, every cipher name", n, len(keyClasses))
	})

	leg("ctors", func() {
		n := 0
		for i := range ciphers {
			ci := &ciphers[i]
			bs := 16
			if ci.block != nil {
				b, _ := ci.block(make([]byte, 32))
				bs = b.BlockSize()
			}
			for _, kl := range ci.keys {
				if kl == 0 && ci.name != "none" {
					continue
				}
				var lens []int
				for l := 0; l <= []int{300, 1100, 1100}[level]; l++ {
					lens = append(lens, l)
				}
				lens = append(lens, boundaryLens(bs, 2100)...)
				for len(lens) > 0 {
					k := 12
					if k > len(lens) {
						k = len(lens)
					}
					c := sessionCase(r, ci, lens[:k], n%3 == 0)
					if kl > 0 {
						c.Key = hx(R.Bytes(kl))
					}
					c.Ctor = "direct"
					session(c)
					lens = lens[k:]
					n++
				}
			}
		}
		r.CountN("leg:ctors", n)
		r.Note("leg ctors: %d sessions built with the public constructors instead of the factory (every key length, every packet length 0..300 and the stride boundaries)", n)
	})
}
