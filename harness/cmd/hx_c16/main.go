// hx_c16: correspondence harness + oracle for C16 (packet ciphers).
//
// Leg (a), model correspondence: the REAL unrolled loops of x/cipher/block.go are run through the
// hook VerifEncrypt/VerifDecrypt with a toy block function that the Lean model computes too
// (Model/C16.lean toyE), on every packet length, with IVs longer than a block and stale scratch
// buffers; each call is one op line (answer: packet and scratch buffer afterwards, or `panic`).
// Leg (b), the property on the real cryptors: for every cipher name NewCrypt accepts the
// ciphertext must be byte-identical to the standard library's CFB (crypto/cipher.NewCFBEncrypter,
// same key, iv[:blockSize]), decrypt to the original with unchanged length on an equally keyed
// instance, and do so in any order and after losses.  The oracle never calls the model.
package main

import (
	"bytes"
	"crypto/aes"
	stdcipher "crypto/cipher"
	"crypto/des"
	"encoding/hex"
	"fmt"
	"io"
	"log"
	"os"
	"strconv"
	"strings"

	"verifharness/hxlib"

	"github.com/tjfoc/gmsm/sm4"
	"golang.org/x/crypto/salsa20"
	"golang.org/x/crypto/twofish"
	"golang.org/x/crypto/xtea"

	xc "qchen.fun/fatchoy/x/cipher"
)

// ---- the toy block function (identical to Model/C16.lean toyE) --------------------------------

type toyBlock struct {
	key []byte
	n   int
}

func (t *toyBlock) BlockSize() int { return t.n }

func rotl3(x byte) byte { return x<<3 | x>>5 }

func (t *toyBlock) Encrypt(dst, src []byte) {
	n := t.n
	if len(src) < n {
		panic("toy: input not full block")
	}
	if len(dst) < n {
		panic("toy: output not full block")
	}
	x := make([]byte, n)
	copy(x, src[:n])
	y := make([]byte, n)
	for i := 0; i < n; i++ {
		var k byte
		if len(t.key) > 0 {
			k = t.key[i%len(t.key)]
		}
		y[i] = rotl3(x[i]+k) ^ x[(i+1)%n]
	}
	for i := 0; i < n; i++ {
		dst[i] = y[i] + y[(i+n-1)%n]*5 + byte(i*17+n)
	}
}

func (t *toyBlock) Decrypt(dst, src []byte) { panic("toy: Decrypt is never used by CFB") }

// ---- cases --------------------------------------------------------------------------------------

type Case struct {
	Kind  string   `json:"kind"`          // "core": one call of the unrolled core with the toy block; "session": real cryptors
	Dir   string   `json:"dir,omitempty"` // core: enc | dec
	BS    int      `json:"bs,omitempty"`  // core: block size of the toy block
	Name  string   `json:"name,omitempty"`
	Key   string   `json:"key"`
	IV    string   `json:"iv"`
	Buf   string   `json:"buf,omitempty"`   // core: scratch buffer contents before the call
	Msgs  []string `json:"msgs"`            // hex; core: exactly one
	Order []int    `json:"order,omitempty"` // session: indices of the ciphertexts the receiver decrypts, in that order
	// search legs (search.go)
	Off     int    `json:"off,omitempty"`     // every packet buffer handed to the code starts at an address that is Off mod 16
	Windows []int  `json:"windows,omitempty"` // kind "period": Msgs[0] is the probe; Windows[i] filler packets are processed between probe i and probe i+1
	Seed    uint64 `json:"seed,omitempty"`    // kind "period": seed of the filler packets
	// second round (legs2.go), kind "session"
	Ctor    string `json:"ctor,omitempty"`    // "" = the factory NewCrypt | "direct" = the public constructor the name stands for (NewAESCFB, NewSM4, ...) with the key prefix the factory passes
	KeyLife string `json:"keylife,omitempty"` // what the CALLER does to the key buffer it handed in: wipe|next|flip + 0 (before the first packet) | 1 (after the first packet)
	Shared  bool   `json:"shared,omitempty"`  // sender, receiver and every other instance of the session are built from ONE key slice and ONE iv slice
}

func unhex(s string) []byte {
	if len(s) > 2 && s[1] == ':' { // z:<n> = n zero bytes, f:<n> = n 0xff bytes (search legs: megabyte packets)
		n, err := strconv.Atoi(s[2:])
		if err != nil {
			panic(err)
		}
		b := make([]byte, n)
		if s[0] == 'f' {
			for i := range b {
				b[i] = 0xff
			}
		}
		return b
	}
	b, err := hex.DecodeString(s)
	if err != nil {
		panic(err)
	}
	return b
}

func clone(b []byte) []byte {
	c := make([]byte, len(b)) // exact capacity: the cores slice their scratch buffer up to cap
	copy(c, b)
	return c
}

// ---- leg (a): the unrolled cores with the toy block --------------------------------------------

func coreCall(dir string, bs int, key, iv, buf, m []byte, off int) (line string, out, bufAfter []byte) {
	data, scratch := place(m, off), clone(buf)
	blk := &toyBlock{key: key, n: bs}
	p := hxlib.Guard(func() {
		if dir == "enc" {
			xc.VerifEncrypt(blk, iv, data, data, scratch)
		} else {
			xc.VerifDecrypt(blk, iv, data, data, scratch)
		}
	})
	if p != "" {
		return "panic", nil, nil
	}
	return fmt.Sprintf("ok out=%s buf=%s", hxlib.Hex(data), hxlib.Hex(scratch)), data, scratch
}

func lenClass(l, n int) string {
	switch {
	case l == 0:
		return "len=0"
	case l < n:
		return "len<block"
	case l%(8*n) == 0:
		return "len=k*stride"
	case l%n == 0:
		return "len=k*block"
	}
	return "len-partial-block"
}

func runCore(r *hxlib.Run, c Case) (packet, scratch []byte) {
	r.Case()
	key, iv, buf, m := unhex(c.Key), unhex(c.IV), unhex(c.Buf), unhex(c.Msgs[0])
	line, out, bufAfter := coreCall(c.Dir, c.BS, key, iv, buf, m, c.Off)
	r.Op(fmt.Sprintf("%s bs=%d key=%s iv=%s buf=%s m=%s", c.Dir, c.BS, hxlib.Hex(key), hxlib.Hex(iv), hxlib.Hex(buf), hxlib.Hex(m)), line)
	fn := fmt.Sprintf("%s%d", c.Dir, c.BS)
	if out == nil {
		r.Count("core:" + fn + ":panic")
		// the property covers IVs of at least one block, supported block sizes and the cryptors' own scratch arrays
		need := c.BS
		if c.Dir == "dec" {
			need = 2 * c.BS
		}
		if len(iv) >= c.BS && (c.BS == 8 || c.BS == 16) && len(buf) >= need {
			r.Fail("core-panic:"+fn, fmt.Sprintf("%s with a %d-byte IV and a %d-byte packet panics", fn, len(iv), len(m)), c)
		}
		return nil, nil
	}
	r.Count("core:" + fn + ":" + lenClass(len(m), c.BS))
	if len(iv) > c.BS {
		r.Count("core:iv>block")
	}
	if len(m)%(8*c.BS) != 0 || len(m) < c.BS || len(iv) > c.BS {
		r.NonTrivial(fmt.Sprintf("core/%s/%d/%d", fn, len(m), len(iv)))
	}
	// oracle: the standard library's CFB around the same block function
	want := make([]byte, len(m))
	blk := &toyBlock{key: key, n: c.BS}
	if c.Dir == "enc" {
		stdcipher.NewCFBEncrypter(blk, iv[:c.BS]).XORKeyStream(want, m)
	} else {
		stdcipher.NewCFBDecrypter(blk, iv[:c.BS]).XORKeyStream(want, m)
	}
	if len(out) != len(m) {
		r.Fail("core-length:"+fn, fmt.Sprintf("%s returns %d bytes for a %d-byte packet", fn, len(out), len(m)), c)
	} else if !bytes.Equal(out, want) {
		r.Fail("core-interop:"+fn, fmt.Sprintf("%s differs from crypto/cipher CFB at byte %d of a %d-byte packet (iv %d bytes)", fn, firstDiff(out, want), len(m), len(iv)), c)
	}
	return out, bufAfter
}

func firstDiff(a, b []byte) int {
	for i := 0; i < len(a) && i < len(b); i++ {
		if a[i] != b[i] {
			return i
		}
	}
	if len(a) != len(b) {
		if len(a) < len(b) {
			return len(a)
		}
		return len(b)
	}
	return -1
}

// ---- leg (b): the real cryptors -------------------------------------------------------------------

type cipherInfo struct {
	name  string
	block func(key []byte) (stdcipher.Block, error) // nil: stream-like
	keys  []int                                     // key lengths a caller may pass
}

// what the name promises, written down independently of cipher.go
var ciphers = []cipherInfo{
	{"aes-128", func(k []byte) (stdcipher.Block, error) { return aes.NewCipher(k[:16]) }, []int{32, 16}},
	{"aes-192", func(k []byte) (stdcipher.Block, error) { return aes.NewCipher(k[:24]) }, []int{32, 24}},
	{"aes-256", func(k []byte) (stdcipher.Block, error) { return aes.NewCipher(k[:32]) }, []int{32}},
	{"", func(k []byte) (stdcipher.Block, error) { return aes.NewCipher(k[:32]) }, []int{32}},
	{"sm4", func(k []byte) (stdcipher.Block, error) { return sm4.NewCipher(k[:16]) }, []int{32, 16}},
	{"twofish", func(k []byte) (stdcipher.Block, error) { return twofish.NewCipher(k) }, []int{32, 24, 16}},
	{"3des", func(k []byte) (stdcipher.Block, error) { return des.NewTripleDESCipher(k[:24]) }, []int{32, 24}},
	{"xtea", func(k []byte) (stdcipher.Block, error) { return xtea.NewCipher(k[:16]) }, []int{32, 16}},
	{"salsa20", nil, []int{32}},
	{"none", nil, []int{32, 0}},
}

func infoOf(name string) *cipherInfo {
	for i := range ciphers {
		if ciphers[i].name == name {
			return &ciphers[i]
		}
	}
	return nil
}

// reference computes what a stock library produces for m (nil, 0: no such reference).
func reference(ci *cipherInfo, key, iv, m []byte) ([]byte, int) {
	switch {
	case ci.block != nil:
		b, err := ci.block(key)
		if err != nil {
			panic(err)
		}
		n := b.BlockSize()
		out := make([]byte, len(m))
		stdcipher.NewCFBEncrypter(b, iv[:n]).XORKeyStream(out, m)
		return out, n
	case ci.name == "salsa20":
		var k [32]byte
		copy(k[:], key)
		out := make([]byte, len(m))
		salsa20.XORKeyStream(out, m, iv[:8], &k)
		return out, 8
	default:
		return clone(m), 1
	}
}

// keyName: the cipher name as it appears in failure keys ("" is NewCrypt's default clause).
func keyName(name string) string {
	if name == "" {
		return "default"
	}
	return name
}

// runSession: one sending instance encrypts Msgs in order; one equally keyed receiving instance
// decrypts the ciphertexts named by Order, in that order. Every ciphertext must be the stock
// library's, every decryption the original packet.
func runSession(r *hxlib.Run, c Case, model bool) {
	for range c.Msgs {
		r.Case() // one evaluation per packet
	}
	ci := infoOf(c.Name)
	if ci == nil {
		panic("unknown cipher name in case: " + c.Name)
	}
	kn := keyName(c.Name)
	key, iv := unhex(c.Key), unhex(c.IV)
	var enc, dec xc.BlockCryptor
	note := lifeNote(&c, key)  // legs2.go: " [built by …; the caller …; the key is the text …]" or ""
	lc := newLife(&c, key, iv) // legs2.go: constructor choice and the life of the caller's key buffer (plain NewCrypt on private copies when the case says nothing)
	if p := hxlib.Guard(func() {
		enc = lc.build(0)
		dec = lc.build(1)
	}); p != "" {
		r.Fail("factory-panic:"+kn, fmt.Sprintf("%s(%q, %d-byte key, %d-byte iv) panics: %s", lc.ctorName(), c.Name, len(key), len(iv), p), c)
		return
	}
	// what an instance that has never seen another packet does
	fresh := func(decrypt bool, b []byte) (out []byte) {
		hxlib.Guard(func() {
			f := lc.build(2)
			if decrypt {
				out = f.Decrypt(place(b, c.Off))
			} else {
				out = f.Encrypt(place(b, c.Off))
			}
		})
		return out
	}
	salsaKS := func(n int) []byte {
		ks := make([]byte, n)
		var k [32]byte
		copy(k[:], key)
		salsa20.XORKeyStream(ks, ks, iv[:8], &k)
		return ks
	}
	cts := make([][]byte, len(c.Msgs))
	wants := make([][]byte, len(c.Msgs))
	ctOK := make([]bool, len(c.Msgs)) // the ciphertext was the stock library's at the moment Encrypt returned it
	var held [][2][]byte              // legs2: (slice returned by Decrypt, the original packet)
	n := 1
	for i, mh := range c.Msgs {
		m := unhex(mh)
		var ct []byte
		if p := hxlib.Guard(func() { ct = enc.Encrypt(place(m, c.Off)) }); p != "" {
			r.Fail("panic:"+kn, fmt.Sprintf("%s Encrypt of a %d-byte packet (packet %d of the session) panics: %s", kn, len(m), i, p), c)
			return
		}
		cts[i] = ct
		lc.used(0)
		want, bs := reference(ci, key, iv, m)
		wants[i] = want
		n = bs
		r.Count("cipher:" + kn + ":" + lenClass(len(m), bs))
		if len(m)%(8*bs) != 0 || len(m) < bs || len(iv) > bs {
			r.NonTrivial(fmt.Sprintf("cipher/%s/%d/%d", kn, len(m), len(iv)))
		}
		if model && ci.name == "salsa20" {
			r.Op(fmt.Sprintf("salsa ks=%s m=%s", hxlib.Hex(salsaKS(len(m))), hxlib.Hex(m)), "ok out="+hxlib.Hex(ct))
		}
		if model && ci.name == "none" {
			r.Op("none m="+hxlib.Hex(m), "ok out="+hxlib.Hex(ct))
		}
		if len(ct) != len(m) {
			r.Fail("length:"+kn, fmt.Sprintf("%s Encrypt returns %d bytes for a %d-byte packet", kn, len(ct), len(m)), c)
			continue
		}
		if bytes.Equal(ct, want) {
			ctOK[i] = true
			continue
		}
		alone := ct
		if i > 0 {
			alone = fresh(false, m)
			if !bytes.Equal(alone, ct) {
				r.Fail("stateless-enc:"+kn, fmt.Sprintf("%s ciphertext of packet %d (%d bytes) of a session differs at byte %d from what an instance that has seen no other packet produces", kn, i, len(m), firstDiff(ct, alone)), c)
			}
		}
		if !bytes.Equal(alone, want) {
			if ci.block != nil {
				r.Fail("interop:"+kn, fmt.Sprintf("%s ciphertext of a %d-byte packet (iv %d bytes) differs at byte %d from crypto/cipher CFB with the same key and iv[:%d]%s", kn, len(m), len(iv), firstDiff(alone, want), bs, note), c)
			} else {
				r.Fail("stream-reference:"+kn, fmt.Sprintf("%s output for a %d-byte packet differs at byte %d from the reference%s", kn, len(m), firstDiff(alone, want), note), c)
			}
		}
	}
	if len(iv) > n {
		r.Count("cipher:iv>block")
	}
	inOrder := true
	for k, idx := range c.Order {
		if idx != k {
			inOrder = false
		}
	}
	if !inOrder || len(c.Order) != len(c.Msgs) {
		r.Count("cipher:" + kn + ":reordered-or-lossy")
	}
	for k, idx := range c.Order {
		if idx < 0 || idx >= len(cts) || cts[idx] == nil {
			continue
		}
		m := unhex(c.Msgs[idx])
		var pt []byte
		ct := place(cts[idx], c.Off)
		if p := hxlib.Guard(func() { pt = dec.Decrypt(ct) }); p != "" {
			r.Fail("panic:"+kn, fmt.Sprintf("%s Decrypt of a %d-byte packet panics: %s", kn, len(m), p), c)
			return
		}
		lc.used(1)
		if bytes.Equal(pt, m) {
			held = append(held, [2][]byte{pt, m})
		}
		if model && ci.name == "salsa20" {
			r.Op(fmt.Sprintf("salsad ks=%s m=%s", hxlib.Hex(salsaKS(len(m))), hxlib.Hex(cts[idx])), "ok out="+hxlib.Hex(pt))
		}
		if model && ci.name == "none" {
			r.Op("noned m="+hxlib.Hex(cts[idx]), "ok out="+hxlib.Hex(pt))
		}
		if bytes.Equal(pt, m) {
			continue
		}
		alone := pt
		if k > 0 {
			alone = fresh(true, cts[idx])
			if !bytes.Equal(alone, pt) {
				r.Fail("stateless-dec:"+kn, fmt.Sprintf("%s: packet %d of the sender (%d bytes), decrypted as number %d of the receiver, differs at byte %d from what an instance that has seen no other packet returns", kn, idx, len(m), k, firstDiff(pt, alone)), c)
			}
		}
		if !bytes.Equal(alone, m) {
			if len(alone) != len(m) {
				r.Fail("roundtrip:"+kn, fmt.Sprintf("%s Decrypt returns %d bytes for a %d-byte packet", kn, len(alone), len(m)), c)
			} else {
				r.Fail("roundtrip:"+kn, fmt.Sprintf("%s Decrypt(Encrypt(m)) differs from m at byte %d of %d (iv %d bytes)%s", kn, firstDiff(alone, m), len(m), len(iv), note), c)
			}
		}
	}
	// held outputs: the slices Encrypt / Decrypt returned earlier in the session still hold what they held then
	for i, ct := range cts {
		if ctOK[i] && !bytes.Equal(ct, wants[i]) {
			r.Fail("held:"+kn, fmt.Sprintf("%s: the ciphertext returned for packet %d (%d bytes) was the stock library's when it was returned and differs at byte %d at the end of the session (%d packets)", kn, i, len(ct), firstDiff(ct, wants[i]), len(c.Msgs)), c)
		}
	}
	for _, h := range held {
		if !bytes.Equal(h[0], h[1]) {
			r.Fail("held:"+kn, fmt.Sprintf("%s: a %d-byte plaintext returned by Decrypt was the original packet when it was returned and differs at byte %d at the end of the session", kn, len(h[1]), firstDiff(h[0], h[1])), c)
		}
	}
	// a nil packet is an empty packet
	if p := hxlib.Guard(func() {
		if out := enc.Encrypt(nil); len(out) != 0 {
			r.Fail("length:"+kn, fmt.Sprintf("%s Encrypt(nil) returns %d bytes", kn, len(out)), c)
		}
		if out := dec.Decrypt(nil); len(out) != 0 {
			r.Fail("length:"+kn, fmt.Sprintf("%s Decrypt(nil) returns %d bytes", kn, len(out)), c)
		}
	}); p != "" {
		r.Fail("panic:"+kn, fmt.Sprintf("%s on a nil packet panics: %s", kn, p), c)
	}
	// a receiver built from the sender's accessors (what the codec tests do) is equally keyed as well
	if len(c.Msgs) > 0 && cts[0] != nil && c.KeyLife == "" { // (Key() hands out the caller's slice: not after the caller overwrote it)
		m := unhex(c.Msgs[0])
		if bytes.Equal(fresh(true, cts[0]), m) {
			var pt []byte
			if p := hxlib.Guard(func() { pt = xc.NewCrypt(c.Name, enc.Key(), enc.IV()).Decrypt(clone(cts[0])) }); p != "" {
				r.Fail("accessors:"+kn, fmt.Sprintf("NewCrypt(%q, enc.Key(), enc.IV()).Decrypt panics: %s", c.Name, p), c)
			} else if !bytes.Equal(pt, m) {
				r.Fail("accessors:"+kn, fmt.Sprintf("an instance built from %s's Key()/IV() does not decrypt its ciphertext (%d bytes)", kn, len(m)), c)
			}
		}
	}
}

// ---- generators -----------------------------------------------------------------------------------

func ivLen(r *hxlib.Run, n int) int {
	switch r.R.Intn(6) {
	case 0, 1:
		return n
	case 2:
		return n + 1
	case 3:
		return 2 * n
	case 4:
		return 32
	}
	return n + r.R.Intn(41)
}

func coreCase(r *hxlib.Run, dir string, bs, l int) Case {
	need := bs
	if dir == "dec" {
		need = 2 * bs
	}
	bl := need
	if r.R.Chance(1, 5) {
		bl = need + r.R.Intn(9)
	}
	return Case{Kind: "core", Dir: dir, BS: bs, Key: hex.EncodeToString(r.R.Bytes(1 + r.R.Intn(20))),
		IV: hex.EncodeToString(r.R.Bytes(ivLen(r, bs))), Buf: hex.EncodeToString(r.R.Bytes(bl)),
		Msgs: []string{hex.EncodeToString(r.R.Bytes(l))}}
}

func sessionCase(r *hxlib.Run, ci *cipherInfo, lens []int, shuffle bool) Case {
	n := 16
	if ci.block != nil {
		b, _ := ci.block(make([]byte, 32))
		n = b.BlockSize()
	} else if ci.name == "salsa20" {
		n = 8
	}
	kl := ci.keys[r.R.Intn(len(ci.keys))]
	c := Case{Kind: "session", Name: ci.name, Key: hex.EncodeToString(r.R.Bytes(kl)), IV: hex.EncodeToString(r.R.Bytes(ivLen(r, n)))}
	if ci.name == "none" && kl == 0 {
		c.IV = ""
	}
	for _, l := range lens {
		c.Msgs = append(c.Msgs, hex.EncodeToString(r.R.Bytes(l)))
	}
	for i := range lens {
		c.Order = append(c.Order, i)
	}
	if shuffle {
		// losses, then a random order, then a few duplicates
		var kept []int
		for _, i := range c.Order {
			if !r.R.Chance(1, 4) {
				kept = append(kept, i)
			}
		}
		for i := len(kept) - 1; i > 0; i-- {
			j := r.R.Intn(i + 1)
			kept[i], kept[j] = kept[j], kept[i]
		}
		if len(kept) > 0 && r.R.Bool() {
			kept = append(kept, kept[r.R.Intn(len(kept))])
		}
		c.Order = kept
	}
	return c
}

func boundaryLens(n, max int) []int {
	var out []int
	for k := 1; k*8*n <= max+8*n; k++ {
		for _, d := range []int{-n - 1, -n, -n + 1, -1, 0, 1, n - 1, n, n + 1} {
			if l := k*8*n + d; l >= 0 && l <= max {
				out = append(out, l)
			}
		}
	}
	return out
}

func main() {
	r := hxlib.Start("C16", "a packet under one (cipher or core function, key, IV); non-trivial when its length is not a multiple of 8 blocks, or is below one block, or the IV is longer than a block; distinct by (function, length, IV length)")
	defer r.Finish()
	log.SetOutput(io.Discard)
	if r.Replay != "" {
		var c Case
		r.LoadReplay(&c)
		switch c.Kind {
		case "core":
			runCore(r, c)
		case "period":
			runPeriod(r, c)
		default:
			runSession(r, c, true)
		}
		if sz := len(strings.Join(c.Msgs, "")); sz < 4096 {
			r.Sample(c)
		}
		return
	}
	if os.Getenv("HX_LEGS_ONLY") != "" { // development: the legs of search.go alone
		legs(r)
		legs2(r)
		return
	}

	// ---- leg (a) ----
	maxAll := r.Scale(600, 4096)
	for _, bs := range []int{8, 16} {
		for _, dir := range []string{"enc", "dec"} {
			for l := 0; l <= maxAll; l++ {
				c := coreCase(r, dir, bs, l)
				if l == 13 {
					r.Sample(c)
				}
				runCore(r, c)
			}
			if !r.Thorough() {
				for _, l := range boundaryLens(bs, 4096) {
					if l > maxAll {
						runCore(r, coreCase(r, dir, bs, l))
					}
				}
			}
			for k := 0; k < r.Scale(6, 60); k++ {
				runCore(r, coreCase(r, dir, bs, 4097+r.R.Intn(30000)))
			}
			// one instance, scratch buffer carried from packet to packet (what the cryptors do)
			for k := 0; k < r.Scale(20, 200); k++ {
				c := coreCase(r, dir, bs, 0)
				buf := unhex(c.Buf)
				for j := 0; j < 6; j++ {
					c.Msgs = []string{hex.EncodeToString(r.R.Bytes(r.R.Intn(20 * bs)))}
					c.Buf = hex.EncodeToString(buf)
					if _, after := runCore(r, c); after != nil {
						buf = after // the scratch buffer the real code left behind
					}
				}
			}
			// outside the property: short IVs and scratch buffers panic, in the model too
			for _, ivl := range []int{0, 1, bs - 1} {
				c := coreCase(r, dir, bs, r.R.Intn(40))
				c.IV = hex.EncodeToString(r.R.Bytes(ivl))
				runCore(r, c)
			}
			need := bs
			if dir == "dec" {
				need = 2 * bs
			}
			for _, bl := range []int{0, bs - 1, need - 1} {
				c := coreCase(r, dir, bs, r.R.Intn(40))
				c.Buf = hex.EncodeToString(r.R.Bytes(bl))
				runCore(r, c)
			}
		}
	}
	for _, bs := range []int{0, 1, 4, 12, 24, 32} { // unsupported block sizes: panic("unsupported cipher block size")
		for _, dir := range []string{"enc", "dec"} {
			c := coreCase(r, dir, 8, 30)
			c.BS = bs
			c.IV = hex.EncodeToString(r.R.Bytes(40))
			c.Buf = hex.EncodeToString(r.R.Bytes(64))
			runCore(r, c)
		}
	}

	// ---- leg (b) ----
	for i := range ciphers {
		ci := &ciphers[i]
		n := 16
		if ci.block != nil {
			b, _ := ci.block(make([]byte, 32))
			n = b.BlockSize()
		}
		rounds := r.Scale(1, 3)
		maxEvery := r.Scale(400, 4096)
		for round := 0; round < rounds; round++ {
			for l := 0; l <= maxEvery; l++ {
				c := sessionCase(r, ci, []int{l}, false)
				if l == 19 && round == 0 && i < 2 {
					r.Sample(c)
				}
				runSession(r, c, round == 0) // the stream models are asked once per length
			}
		}
		if !r.Thorough() {
			for _, l := range boundaryLens(n, 4096) {
				if l > maxEvery {
					runSession(r, sessionCase(r, ci, []int{l}, false), true)
				}
			}
		}
		for k := 0; k < r.Scale(4, 40); k++ {
			runSession(r, sessionCase(r, ci, []int{4097 + r.R.Intn(60000)}, false), false)
		}
		// sessions: any order, after losses, with duplicates
		for k := 0; k < r.Scale(60, 1500); k++ {
			cnt := 2 + r.R.Intn(9)
			lens := make([]int, cnt)
			for j := range lens {
				switch r.R.Intn(4) {
				case 0:
					lens[j] = r.R.Intn(2 * n)
				case 1:
					bl := boundaryLens(n, 1100)
					lens[j] = bl[r.R.Intn(len(bl))]
				default:
					lens[j] = r.R.Intn(1200)
				}
			}
			runSession(r, sessionCase(r, ci, lens, true), true)
		}
	}
	if r.Thorough() {
		r.Note("every packet length 0..4096 was run for every cipher name (3 random keys/IVs each) and for the four unrolled cores with the toy block")
	}
	legs(r)  // search.go (after the generators, so that the smallest failing case of a kind is recorded first): cheap legs in every tier, the 10-60 s ones from thorough on, the rest with -search only
	legs2(r) // legs2.go: second round (life of the caller's key buffer, text-shaped keys, every public constructor, held outputs)
}
