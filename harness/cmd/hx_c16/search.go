// search.go: the legs of hx_c16 that aim at defects invisible to the ordinary generators (DESIGN.md 3.4).
// Cheap legs run in every tier (a change that keeps every regenerated fact intact never triggers the
// failing-input search, so the quick tier itself has to reach these inputs); the 10-60 s variants run
// from the thorough tier on; the largest sizes only with -search.
//
// The judges are runCore / runSession (stock CFB of crypto/cipher, round trip, statelessness):
//
//	keyshape   structured keys for every block cipher: all-zero, all-ones, repeated halves, and for 3DES the
//	           sub-key patterns a|a|b, a|b|b, a|b|a, a|a|a (also equal up to DES parity bits)
//	unaligned  packets of 513 B .. 1 MiB + 5 whose buffers start at every address 1..15 mod 16 (a sub-slice of a
//	           receive buffer), every cipher name and the four unrolled cores
//	extremes   32 all-zero / all-ones megabyte packets on one instance, then ordinary packets
//	period     one sending and one receiving instance: a probe packet, exactly 2^16-1, 2^16, 2^17, 2^18, 2^20
//	           other packets, the probe again (ciphertext against the stock library, plaintext against the original)
//
// Second round (third red-team wave, body-only changes keyed on what the generators did not vary): legs2.go —
// keylife (the caller wipes / re-uses the key buffer after construction), keytext (hex / base64 / digit / text keys of
// every accepted length), ctors (every public constructor), and held outputs in runSession. All in the normal tiers.
package main

import (
	"bytes"
	"encoding/hex"
	"fmt"
	"time"
	"unsafe"

	"verifharness/hxlib"

	xc "qchen.fun/fatchoy/x/cipher"
)

// place returns a copy of b with exact capacity whose first byte sits at an address that is off modulo 16
// (off = 0: whatever the allocator returns, as the tiers do).
func place(b []byte, off int) []byte {
	if off == 0 {
		return clone(b)
	}
	back := make([]byte, len(b)+32)
	base := int(uintptr(unsafe.Pointer(&back[0])) % 16)
	skip := ((off-base)%16 + 16) % 16
	out := back[skip : skip+len(b) : skip+len(b)]
	copy(out, b)
	return out
}

// runPeriod: see Case.Windows.
func runPeriod(r *hxlib.Run, c Case) {
	r.Case()
	ci := infoOf(c.Name)
	if ci == nil {
		panic("unknown cipher name in case: " + c.Name)
	}
	kn := keyName(c.Name)
	key, iv, probe := unhex(c.Key), unhex(c.IV), unhex(c.Msgs[0])
	var enc, dec xc.BlockCryptor
	if p := hxlib.Guard(func() {
		enc = xc.NewCrypt(c.Name, clone(key), clone(iv))
		dec = xc.NewCrypt(c.Name, clone(key), clone(iv))
	}); p != "" {
		r.Fail("factory-panic:"+kn, fmt.Sprintf("NewCrypt(%q, %d-byte key, %d-byte iv) panics: %s", c.Name, len(key), len(iv), p), c)
		return
	}
	want, _ := reference(ci, key, iv, probe)
	R := hxlib.NewRand(c.Seed)
	fill := R.Bytes(96)
	done := 0
	check := func() bool {
		var ct, pt []byte
		if p := hxlib.Guard(func() { ct = enc.Encrypt(place(probe, c.Off)); pt = dec.Decrypt(place(want, c.Off)) }); p != "" {
			r.Fail("panic:"+kn, fmt.Sprintf("%s on a %d-byte packet after %d other packets panics: %s", kn, len(probe), done, p), c)
			return false
		}
		if !bytes.Equal(ct, want) {
			key := "stateless-enc:" + kn
			if done == 0 {
				key = "interop:" + kn
			}
			r.Fail(key, fmt.Sprintf("%s ciphertext of a %d-byte packet differs at byte %d from the stock library's after %d other packets on the same instance", kn, len(probe), firstDiff(ct, want), done), c)
			return false
		}
		if !bytes.Equal(pt, probe) {
			key := "stateless-dec:" + kn
			if done == 0 {
				key = "roundtrip:" + kn
			}
			r.Fail(key, fmt.Sprintf("%s: a %d-byte packet decrypts wrongly (byte %d) after %d other packets on the same instance", kn, len(probe), firstDiff(pt, probe), done), c)
			return false
		}
		return true
	}
	if !check() {
		return
	}
	for _, w := range c.Windows {
		if p := hxlib.Guard(func() {
			for i := 0; i < w; i++ {
				n := int(R.U64() % 40)
				if i%1024 == 0 {
					n = 40 + int(R.U64()%56)
				}
				enc.Encrypt(fill[:n])
				dec.Decrypt(fill[:n])
			}
		}); p != "" {
			r.Fail("panic:"+kn, fmt.Sprintf("%s panics within %d small packets: %s", kn, w, p), c)
			return
		}
		done += w
		if !check() {
			return
		}
	}
}

func legs(r *hxlib.Run) {
	level := 0 // 0 quick, 1 thorough, 2 -search
	if r.Thorough() {
		level = 1
	}
	if r.Search {
		level = 2
	}
	saved := r.R
	r.R = hxlib.NewRand(r.Seed ^ 0x5ea7c16) // the generators below draw from r.R; the tiers' stream is left alone
	defer func() { r.R = saved }()
	R := r.R
	stop := func() bool { return r.Search && r.Failed() } // with -search one failing input is what is looked for
	leg := func(name string, min int, f func()) {
		if level < min || stop() {
			return
		}
		t0 := time.Now()
		f()
		r.Note("leg %s: %.1fs", name, time.Since(t0).Seconds())
	}
	session := func(c Case) {
		if !stop() {
			runSession(r, c, false)
		}
	}
	hx := hex.EncodeToString

	leg("keyshape", 0, func() {
		n := 0
		for i := range ciphers {
			ci := &ciphers[i]
			if ci.block == nil {
				continue
			}
			var keys [][]byte
			rep := func(parts ...[]byte) []byte {
				var k []byte
				for len(k) < 32 {
					for _, p := range parts {
						k = append(k, p...)
					}
				}
				return k[:32]
			}
			for _, u := range []int{8, 16} { // sub-key patterns over 8-byte (DES) and 16-byte units
				a, b := R.Bytes(u), R.Bytes(u)
				par := clone(a) // a with every low (DES parity) bit flipped: the same DES key
				for j := range par {
					par[j] ^= 1
				}
				keys = append(keys, rep(a, a, b), rep(a, b, b), rep(a, b, a), rep(a, a, a), rep(a, par, b), rep(b, a, par), rep(a, b))
			}
			keys = append(keys, make([]byte, 32), bytes.Repeat([]byte{0xff}, 32), bytes.Repeat([]byte{0x01}, 32), bytes.Repeat([]byte{0xfe}, 32),
				rep([]byte{0x01, 0x01, 0x01, 0x01, 0x01, 0x01, 0x01, 0x01}, []byte{0xfe, 0xfe, 0xfe, 0xfe, 0xfe, 0xfe, 0xfe, 0xfe}), rep([]byte{0, 1, 2, 3, 4, 5, 6, 7, 8, 9, 10, 11, 12, 13, 14, 15}))
			for _, k := range keys {
				for _, kl := range ci.keys {
					c := sessionCase(r, ci, []int{0, 1, 7, 8, 9, 16, 64, 100, 513}, true)
					c.Key = hx(k[:kl])
					session(c)
					n++
				}
			}
		}
		r.CountN("leg:keyshape", n)
		r.Note("leg keyshape: %d sessions with structured keys (3DES sub-key patterns a|a|b, a|b|b, a|b|a, a|a|a, parity twins; repeated halves; all-zero/all-ones/weak keys) for every block cipher and key length", n)
	})

	leg("unaligned", 0, func() {
		n := 0
		for _, bs := range []int{8, 16} {
			for _, dir := range []string{"enc", "dec"} {
				for off := 1; off < 16; off++ {
					for _, l := range []int{1, bs + 1, 8*bs + 3, 513, 520, 1027, 4099} {
						c := coreCase(r, dir, bs, l)
						c.Off = off
						if !stop() {
							runCore(r, c)
						}
						n++
					}
				}
			}
		}
		for i := range ciphers {
			ci := &ciphers[i]
			for off := 1; off < 16; off++ {
				lens := []int{513, 520, 1027, 4097}
				if level >= 1 && (off == 1 || off == 4 || off == 7 || off == 8) {
					lens = append(lens, 65537)
				}
				if level >= 2 && (off == 3 || off == 4) {
					lens = append(lens, 1<<20+5)
				}
				for _, l := range lens {
					c := sessionCase(r, ci, []int{l, 5 + R.Intn(600)}, true)
					c.Off = off
					session(c)
					n++
				}
			}
		}
		r.CountN("leg:unaligned", n)
		r.Note("leg unaligned: %d packets (513 B .. 1 MiB + 5) whose buffers start at addresses 1..15 mod 16, every cipher name and the four unrolled cores", n)
	})

	leg("extremes", 0, func() {
		n := 0
		big := []int{1 << 16, 1 << 20, 1 << 20}[level]
		for i := range ciphers {
			ci := &ciphers[i]
			for _, fillc := range []string{"z", "f"} {
				c := sessionCase(r, ci, []int{700, 64}, false)
				tail := c.Msgs
				c.Msgs = nil
				for k := 0; k < 32; k++ {
					c.Msgs = append(c.Msgs, fmt.Sprintf("%s:%d", fillc, big))
				}
				c.Msgs = append(c.Msgs, tail...)
				c.Order = []int{0, 31, 33, 32} // the receiver saw two of the megabyte packets
				session(c)
				n++
				if level == 0 || ci.name == "3des" || ci.name == "xtea" || ci.name == "twofish" || ci.name == "sm4" {
					break // quick tier, slow ciphers: one fill pattern
				}
			}
		}
		r.CountN("leg:extremes", n)
		r.Note("leg extremes: %d sessions of 32 all-zero / all-ones %d-byte packets followed by ordinary ones on the same instance", n, big)
	})

	leg("period", 0, func() {
		n := 0
		for i := range ciphers {
			ci := &ciphers[i]
			c := sessionCase(r, ci, []int{77}, false)
			c.Kind, c.Order = "period", nil
			c.Windows = [][]int{{1<<16 - 1, 1 << 16}, {1<<16 - 1, 1 << 16, 1 << 17, 1 << 18}, {1<<16 - 1, 1 << 16, 1 << 17, 1 << 18, 1 << 20}}[level]
			c.Seed = R.U64()
			if !stop() {
				runPeriod(r, c)
			}
			n++
		}
		r.CountN("leg:period", n)
		r.Note("leg period: %d cipher names: probe packet re-checked against the stock library after exactly 2^16-1, 2^16 (thorough: 2^17, 2^18; -search: 2^20) other packets on the same sending and receiving instance", n)
	})
}
