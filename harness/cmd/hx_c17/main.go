// hx_c17: correspondence harness + oracle for C17 (consistent hashing).
//
// A case is a history of AddNode/RemoveNode calls plus a set of keys. After every membership change the
// real ring is asked for the owner of every key; the oracle compares the answers before and after the
// change (plain maps, no model). A subset of the lookups goes to the Lean model as `get` lines.
package main

import (
	"encoding/hex"
	"encoding/json"
	"fmt"
	"hash/fnv"
	"io"
	"log"
	"sort"
	"strconv"

	"verifharness/hxlib"

	consistent "qchen.fun/fatchoy/collections/consistent"
)

type op struct {
	Op   string `json:"op"` // add | remove
	Name string `json:"name"`
	// Quiet: no lookup is made after this change — the next change follows immediately (a batch of
	// membership changes; the oracle then judges the whole batch at its end)
	Quiet bool `json:"quiet,omitempty"`
}

type kase struct {
	Ops       []op     `json:"ops"`
	Keys      []string `json:"keys,omitempty"` // explicit keys
	KeyFrom   int      `json:"key_from"`       // plus the keys "k<KeyFrom>" … "k<KeyFrom+KeyCount-1>"
	KeyCount  int      `json:"key_count"`
	ModelKeys int      `json:"model_keys"` // how many of the keys are also put to the model after every change
	Tag       string   `json:"tag,omitempty"`
}

func (c *kase) keys() []string {
	ks := append([]string{}, c.Keys...)
	for i := 0; i < c.KeyCount; i++ {
		ks = append(ks, "k"+strconv.Itoa(c.KeyFrom+i))
	}
	return ks
}

const panicMark = "\x00panic"

// lookupAlternate (set by the search leg "period"): every pass over the keys runs in the opposite direction of the
// pass before it, so that after a batch of unobserved membership changes the keys are asked newest first — whatever
// the ring remembers of its most recent answers is asked again before a later lookup can displace it.
var lookupAlternate, lookupFlip bool

func lookupAll(ring *consistent.Consistent, keys []string, out []string) {
	rev := lookupAlternate && lookupFlip
	lookupFlip = !lookupFlip
	for j := range keys {
		i := j
		if rev {
			i = len(keys) - 1 - j
		}
		k := keys[i]
		var got string
		if p := hxlib.Guard(func() { got = ring.GetNodeBy(k) }); p != "" {
			got = panicMark
		}
		out[i] = got
	}
}

func answer(got string) string {
	if got == panicMark {
		return "panic"
	}
	return "node=" + hxlib.Hex([]byte(got))
}

type failure struct {
	key, what string
	opIdx     int    // index of the membership change at which it showed
	lookupKey string // the key whose lookup violates the property
}

type stats struct {
	moved, movedAdd, movedRemove, movedBatch, quiet, lookups, emptyPanics int
	addExisting, removeAbsent, batchSkipped                               int
}

// runCase runs the history on the real code, applies the oracle, and (if r != nil) records the protocol lines.
func runCase(r *hxlib.Run, c *kase) ([]failure, stats) {
	var fails []failure
	var st stats
	keys := c.keys()
	lookupFlip = false
	ring := consistent.New()
	members := map[string]bool{} // the oracle's own idea of the membership
	before := make([]string, len(keys))
	after := make([]string, len(keys))
	again := make([]string, len(keys))
	if r != nil {
		r.Op("new", "ok")
	}
	lookupAll(ring, keys, before)
	added, removed := map[string]bool{}, map[string]bool{} // members added / removed since the last lookups
	for idx, o := range c.Ops {
		var p string
		switch o.Op {
		case "add":
			if members[o.Name] {
				st.addExisting++
			}
			p = hxlib.Guard(func() { ring.AddNode(o.Name) })
			members[o.Name] = true
			added[o.Name] = true
		case "remove":
			if !members[o.Name] {
				st.removeAbsent++
			}
			p = hxlib.Guard(func() { ring.RemoveNode(o.Name) })
			delete(members, o.Name)
			removed[o.Name] = true
		default:
			panic("bad op " + o.Op)
		}
		out := "ok"
		if p != "" {
			out = "panic"
			fails = append(fails, failure{"panic:" + o.Op, fmt.Sprintf("%s(%q) panics: %s", o.Op, o.Name, p), idx, ""})
		}
		if r != nil {
			r.Op(o.Op+" "+hxlib.Hex([]byte(o.Name)), out)
		}
		if o.Quiet && idx+1 < len(c.Ops) {
			st.quiet++
			continue
		}
		batch := len(added)+len(removed) > 1
		lookupAll(ring, keys, after)
		lookupAll(ring, keys, again)
		st.lookups += 2 * len(keys)
		var movedIdx []int
		for i, k := range keys {
			a, b := after[i], before[i]
			// a lookup on a non-empty ring returns a current member
			if len(members) > 0 {
				if a == panicMark {
					fails = append(fails, failure{"member:panic-on-nonempty-ring", fmt.Sprintf("GetNodeBy(%q) panics with %d members after %s(%q)", k, len(members), o.Op, o.Name), idx, k})
				} else if !members[a] {
					fails = append(fails, failure{"member:not-a-member", fmt.Sprintf("GetNodeBy(%q)=%q is not a current member after %s(%q)", k, a, o.Op, o.Name), idx, k})
				}
			} else if a == panicMark {
				st.emptyPanics++
			}
			// the same key maps to the same member while membership is unchanged
			if again[i] != a {
				fails = append(fails, failure{"stable:repeat-differs", fmt.Sprintf("GetNodeBy(%q) answered %q and then %q with no membership change in between", k, a, again[i]), idx, k})
			}
			if a == b || b == panicMark {
				continue
			}
			st.moved++
			movedIdx = append(movedIdx, i)
			if batch {
				// several changes since the last lookups: each single change moves a key only to the member it
				// adds or away from the member it removes, so over the batch a key that went from b to a needs
				// a to have been added or b to have been removed in the batch
				st.movedBatch++
				// (sound only when no member was both added and removed inside the batch: a member that shares a ring
				// point with b takes the point over when it is added and takes it away with it when it leaves, so the
				// key legitimately goes b -> x -> a with every single step within the property)
				passThrough := false
				for x := range added {
					if removed[x] {
						passThrough = true
					}
				}
				if passThrough {
					st.batchSkipped++
				} else if !added[a] && !removed[b] {
					to := a
					if a == panicMark {
						to = "<panic>"
					}
					fails = append(fails, failure{"batch:key-moved-between-untouched-members", fmt.Sprintf("a batch of %d membership changes ending in %s(%q) moved key %q from %q to %q, neither of which was added or removed in the batch", len(added)+len(removed), o.Op, o.Name, k, b, to), idx, k})
				}
				continue
			}
			switch o.Op {
			case "add": // a key moves only to the new member
				st.movedAdd++
				if a != o.Name {
					fails = append(fails, failure{"add:key-moved-to-other-member", fmt.Sprintf("AddNode(%q) moved key %q from %q to %q", o.Name, k, b, a), idx, k})
				}
			case "remove": // only the keys of the removed member move
				st.movedRemove++
				if b != o.Name {
					to := a
					if a == panicMark {
						to = "<panic>"
					}
					fails = append(fails, failure{"remove:foreign-key-moved", fmt.Sprintf("RemoveNode(%q) moved key %q from %q, which stays a member, to %q", o.Name, k, b, to), idx, k})
				}
			}
		}
		if r != nil {
			// to the model: the first ModelKeys keys, plus a few of those that moved
			n := c.ModelKeys
			if n > len(keys) {
				n = len(keys)
			}
			for i := 0; i < n; i++ {
				r.Op("get "+hxlib.Hex([]byte(keys[i])), answer(after[i]))
			}
			for j, i := range movedIdx {
				if j >= 12 {
					break
				}
				if i >= n {
					r.Op("get "+hxlib.Hex([]byte(keys[i])), answer(after[i]))
				}
			}
		}
		before, after = after, before
		added, removed = map[string]bool{}, map[string]bool{}
	}
	return fails, st
}

// shrink reduces a failing case to few ops and the one key that shows the failure.
func shrink(c *kase, f failure) *kase {
	small := &kase{Ops: append([]op{}, c.Ops[:f.opIdx+1]...), ModelKeys: 1, Tag: c.Tag}
	if f.lookupKey != "" {
		small.Keys = []string{f.lookupKey}
	} else {
		small.Keys, small.KeyFrom, small.KeyCount = c.Keys, c.KeyFrom, c.KeyCount
	}
	still := func(k *kase) bool {
		fs, _ := runCase(nil, k)
		for _, g := range fs {
			if g.key == f.key {
				return true
			}
		}
		return false
	}
	if !still(small) {
		return c
	}
	keep := hxlib.DDMin(len(small.Ops), func(keep []int) bool {
		k := &kase{Keys: small.Keys, KeyFrom: small.KeyFrom, KeyCount: small.KeyCount, ModelKeys: 1}
		for _, i := range keep {
			k.Ops = append(k.Ops, small.Ops[i])
		}
		return still(k)
	})
	out := &kase{Keys: small.Keys, KeyFrom: small.KeyFrom, KeyCount: small.KeyCount, ModelKeys: 1, Tag: c.Tag}
	for _, i := range keep {
		out.Ops = append(out.Ops, small.Ops[i])
	}
	return out
}

func caseKey(c *kase) string {
	b, _ := json.Marshal(c.Ops)
	h := fnv.New64a()
	h.Write(b)
	return hex.EncodeToString(h.Sum(nil))
}

func one(r *hxlib.Run, c *kase) {
	r.Case()
	fails, st := runCase(r, c)
	r.CountN("lookups", st.lookups)
	r.CountN("keys-moved-on-add", st.movedAdd)
	r.CountN("keys-moved-on-remove", st.movedRemove)
	r.CountN("lookup-panics-on-empty-ring", st.emptyPanics)
	r.CountN("keys-moved-over-a-batch", st.movedBatch)
	r.CountN("keys-moved-over-a-batch-not-judged:a-member-was-added-and-removed-in-it", st.batchSkipped)
	r.CountN("changes-without-a-lookup-after", st.quiet)
	r.CountN("add-of-existing-member", st.addExisting)
	r.CountN("remove-of-non-member", st.removeAbsent)
	for _, o := range c.Ops {
		r.Count("op:" + o.Op)
	}
	if c.Tag != "" {
		r.Count("case:" + c.Tag)
	}
	if st.moved > 0 {
		r.NonTrivial(caseKey(c))
	}
	seen := map[string]bool{}
	for _, f := range fails {
		if seen[f.key] {
			r.Count("oracle_fail_more:" + f.key)
			continue
		}
		seen[f.key] = true
		r.Fail(f.key, f.what, shrink(c, f))
	}
}

// ---- generators ---------------------------------------------------------------------------------

func fnv32a(s string) uint32 {
	h := fnv.New32a()
	h.Write([]byte(s))
	return h.Sum32()
}

type collision struct {
	A, B  string
	Point uint32
}

// findCollisions brute-forces member names "<prefix><i>" whose replica strings "<name>-<j>", j < replicas,
// collide under FNV-32a (the generator's own hash, hash/fnv).
func findCollisions(prefix string, names, replicas int) []collision {
	type ent struct {
		h   uint32
		idx int32
	}
	es := make([]ent, 0, names*replicas)
	for i := 0; i < names; i++ {
		n := prefix + strconv.Itoa(i)
		for j := 0; j < replicas; j++ {
			es = append(es, ent{fnv32a(n + "-" + strconv.Itoa(j)), int32(i)})
		}
	}
	sort.Slice(es, func(a, b int) bool {
		if es[a].h != es[b].h {
			return es[a].h < es[b].h
		}
		return es[a].idx < es[b].idx
	})
	var out []collision
	for i := 1; i < len(es); i++ {
		if es[i].h == es[i-1].h && es[i].idx != es[i-1].idx {
			out = append(out, collision{prefix + strconv.Itoa(int(es[i-1].idx)), prefix + strconv.Itoa(int(es[i].idx)), es[i].h})
		}
	}
	return out
}

// keysBelow finds generated keys "k<i>" whose hash lies just below (or on) the point.
func keysBelow(point uint32, want int) []string {
	var out []string
	const window = 1 << 19 // 2^32/8192: far smaller than an arc of a ring with a few hundred points
	for i := 0; i < 3000000 && len(out) < want; i++ {
		k := "k" + strconv.Itoa(i)
		if d := point - fnv32a(k); d < window {
			out = append(out, k)
		}
	}
	return out
}

var oddNames = []string{"", "a", "-", "-0", "a-1", "节点", "nœud", "node with space", "%s", "%d-%s", "0", "a-", "x\ty"}

func randomCase(r *hxlib.Run, rr *hxlib.Rand, cols []collision, nkeys int) *kase {
	// a pool of names: plain, odd, and (half of the cases) a colliding pair
	var pool []string
	np := rr.Range(2, 14)
	for i := 0; i < np; i++ {
		if rr.Chance(1, 6) {
			pool = append(pool, oddNames[rr.Intn(len(oddNames))])
		} else {
			pool = append(pool, "m"+strconv.Itoa(rr.Intn(40)))
		}
	}
	c := &kase{KeyFrom: rr.Intn(1000000), KeyCount: nkeys, ModelKeys: 60, Tag: "random"}
	if len(cols) > 0 && rr.Bool() {
		col := cols[rr.Intn(len(cols))]
		pool = append(pool, col.A, col.B, col.A, col.B)
		c.Keys = keysBelow(col.Point, 6)
		c.Tag = "random+colliding-pair"
	}
	nops := rr.Range(3, 30)
	for i := 0; i < nops; i++ {
		name := pool[rr.Intn(len(pool))]
		if rr.Chance(3, 5) {
			c.Ops = append(c.Ops, op{Op: "add", Name: name})
		} else {
			c.Ops = append(c.Ops, op{Op: "remove", Name: name})
		}
	}
	if rr.Chance(1, 3) { // batches of changes with no lookup in between
		c.Tag += "+batched"
		for i := range c.Ops {
			c.Ops[i].Quiet = rr.Chance(3, 5)
		}
	}
	return c
}

// replaceCases: a member is replaced by another (remove x; add y) — and other net-zero batches — with no lookup in between.
func replaceCases(rr *hxlib.Rand, nkeys int) []*kase {
	n := rr.Range(2, 9)
	var base []op
	for i := 0; i < n; i++ {
		base = append(base, op{Op: "add", Name: "node" + strconv.Itoa(i)})
	}
	x := "node" + strconv.Itoa(rr.Intn(n))
	y := "fresh" + strconv.Itoa(rr.Intn(100))
	z := "fresh" + strconv.Itoa(100+rr.Intn(100))
	mk := func(tag string, tail ...op) *kase {
		return &kase{KeyFrom: rr.Intn(1000000), KeyCount: nkeys, ModelKeys: 40, Tag: tag, Ops: append(append([]op{}, base...), tail...)}
	}
	return []*kase{
		mk("batch:replace-member", op{Op: "remove", Name: x, Quiet: true}, op{Op: "add", Name: y}),
		mk("batch:add-then-remove-other", op{Op: "add", Name: y, Quiet: true}, op{Op: "remove", Name: x}),
		mk("batch:swap-twice", op{Op: "remove", Name: x, Quiet: true}, op{Op: "add", Name: y, Quiet: true}, op{Op: "remove", Name: y, Quiet: true}, op{Op: "add", Name: z}),
		mk("batch:grow-then-shrink-to-one", func() []op {
			var o []op
			for i := 0; i < n-1; i++ {
				o = append(o, op{Op: "remove", Name: "node" + strconv.Itoa(i), Quiet: i%2 == 0})
			}
			return o
		}()...),
	}
}

// collisionCases: the histories in which a shared point matters.
func collisionCases(rr *hxlib.Rand, col collision, nkeys int) []*kase {
	others := func(n int) []op {
		var o []op
		for i := 0; i < n; i++ {
			o = append(o, op{Op: "add", Name: "other" + strconv.Itoa(i)})
		}
		return o
	}
	near := keysBelow(col.Point, 8)
	mk := func(tag string, ops ...[]op) *kase {
		c := &kase{Keys: near, KeyFrom: rr.Intn(1000000), KeyCount: nkeys, ModelKeys: 40, Tag: tag}
		for _, o := range ops {
			c.Ops = append(c.Ops, o...)
		}
		return c
	}
	a, b := col.A, col.B
	if rr.Bool() {
		a, b = b, a
	}
	n := rr.Range(1, 14)
	return []*kase{
		// b takes the shared point over from a; a leaves
		mk("collision:add-a-add-b-remove-a", others(n), []op{{Op: "add", Name: a}, {Op: "add", Name: b}, {Op: "remove", Name: a}}),
		// a was never a member
		mk("collision:add-b-remove-absent-a", others(n), []op{{Op: "add", Name: b}, {Op: "remove", Name: a}}),
		// the owner of the shared point leaves, the other stays
		mk("collision:add-a-add-b-remove-b", others(n), []op{{Op: "add", Name: a}, {Op: "add", Name: b}, {Op: "remove", Name: b}, {Op: "remove", Name: a}}),
		// ownership goes back and forth
		mk("collision:re-add", others(n), []op{{Op: "add", Name: a}, {Op: "add", Name: b}, {Op: "add", Name: a}, {Op: "remove", Name: b}, {Op: "add", Name: b}, {Op: "remove", Name: a}, {Op: "remove", Name: b}}),
		// only the two of them
		mk("collision:pair-alone", []op{{Op: "add", Name: a}, {Op: "add", Name: b}, {Op: "remove", Name: a}, {Op: "remove", Name: b}}),
	}
}

func main() {
	r := hxlib.Start("C17", "a history of AddNode/RemoveNode calls with a key set; non-trivial when at least one key changed owner across a membership change; distinct by history")
	defer r.Finish()
	log.SetOutput(io.Discard)
	if r.Replay != "" {
		var sc scase
		r.LoadReplay(&sc)
		if sc.Leg != "" { // a case of a search leg (search.go): its history is regenerated from the parameters
			runSearch(r, sc)
			r.Sample(sc)
			return
		}
		var c kase
		r.LoadReplay(&c)
		one(r, &c)
		r.Sample(c)
		return
	}
	nkeys := r.Scale(3000, 10000)

	// fixed small cases: empty ring, one member, add/remove of the same member, removal of a non-member
	one(r, &kase{Ops: []op{{Op: "remove", Name: "a"}, {Op: "add", Name: "a"}, {Op: "add", Name: "a"}, {Op: "remove", Name: "b"}, {Op: "remove", Name: "a"}, {Op: "remove", Name: "a"}}, KeyCount: 200, ModelKeys: 200, Tag: "fixed"})
	one(r, &kase{Ops: []op{{Op: "add", Name: ""}, {Op: "add", Name: "a"}, {Op: "remove", Name: ""}, {Op: "add", Name: "-0"}, {Op: "add", Name: "节点"}, {Op: "remove", Name: "a"}}, Keys: []string{"", "世界", "a-0", "-0"}, KeyCount: 200, ModelKeys: 204, Tag: "fixed"})

	// the collision found in the design phase: n151 and n2186 share ring point 1052282076
	{
		c := &kase{Keys: []string{"k1095361"}, KeyCount: 500, ModelKeys: 50, Tag: "design-phase-collision"}
		for i := 0; i < 12; i++ {
			c.Ops = append(c.Ops, op{Op: "add", Name: "other" + strconv.Itoa(i)})
		}
		c.Ops = append(c.Ops, op{Op: "add", Name: "n151"}, op{Op: "add", Name: "n2186"}, op{Op: "remove", Name: "n151"})
		one(r, c)
	}

	// colliding member names, found by brute force (about 10^6 replica strings)
	cols := findCollisions("n", r.Scale(55000, 120000), 20)
	r.CountN("colliding-member-pairs-found", len(cols))
	r.Note("brute force over member names n0…: %d pairs share a ring point under FNV-32a", len(cols))
	if len(cols) == 0 {
		r.Note("no colliding member names found: the collision scenarios were NOT run")
	}
	ncol := r.Scale(6, 40)
	for i := 0; i < ncol && len(cols) > 0; i++ {
		col := cols[r.R.Intn(len(cols))]
		for _, c := range collisionCases(r.R, col, nkeys) {
			if i == 0 {
				r.Sample(c)
			}
			one(r, c)
		}
	}
	// batches of changes with no lookup in between (member replacement and other net-zero batches)
	for i := 0; i < r.Scale(6, 40); i++ {
		for _, c := range replaceCases(r.R, nkeys) {
			if i == 0 {
				r.Sample(c)
			}
			one(r, c)
		}
	}
	// random histories
	n := r.Scale(40, 400)
	for i := 0; i < n; i++ {
		c := randomCase(r, r.R, cols, nkeys)
		if i < 2 {
			r.Sample(c)
		}
		one(r, c)
	}
	// many members
	for i := 0; i < r.Scale(2, 10); i++ {
		c := &kase{KeyFrom: r.R.Intn(1000000), KeyCount: nkeys, ModelKeys: 30, Tag: "many-members"}
		m := r.R.Range(30, 60)
		for j := 0; j < m; j++ {
			c.Ops = append(c.Ops, op{Op: "add", Name: "srv" + strconv.Itoa(j)})
		}
		for j := 0; j < m; j += r.R.Range(1, 5) {
			c.Ops = append(c.Ops, op{Op: "remove", Name: "srv" + strconv.Itoa(j)})
		}
		one(r, c)
	}
	// member names with equal FNV-32a, Unicode / byte-pattern classes of names (legs3.go)
	nameLegs(r)
	// the empty member name, members whose own replicas collide, members colliding with replicas of "" (legs4.go)
	collisionLegs(r)
	// a big ring drained to one member and regrown (legs5.go)
	if !r.Failed() {
		drainLegs(r)
	}
	if r.Search {
		if r.Failed() {
			r.Note("search legs not run: the thorough generators already produced a failing input")
		} else {
			searchLegs(r)
		}
	}
}
