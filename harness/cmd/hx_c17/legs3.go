// legs3.go: legs of hx_c17 that run in the NORMAL tiers (quick and thorough). All cases are ordinary histories (kase),
// model-compared, shrunk and replayed like the others; the oracle is runCase's.
//
//	twins      (K11) member names whose WHOLE name has the same 32-bit FNV-1a value ("costarring" / "liquid",
//	           "declinate" / "macallums", "altarage" / "zinke", and pairs brute-forced over "game-<i>" and
//	           "10.0.<x>.<y>:9000"): FNV-1a is a running hash, so such members share all their ring points. With two
//	           other members on the ring: EVERY sequence of AddNode / RemoveNode of the two twins of length 1..5
//	           (thorough 1..6), lookups after every call; then the same sequences with a change of another member
//	           spliced in and with lookup-free batches; and EVERY such sequence of length 1..4 (thorough 1..5) with
//	           the twins ALONE on the ring: a twin that lost its points to its sibling must get them back when the
//	           sibling leaves — otherwise a member is left without a point and, being the only member, makes
//	           GetNodeBy index an empty slice ("a lookup on a non-empty ring returns a current member").
//	names      (K6) member names and keys of the Unicode / byte-pattern classes: BOM-prefixed, full-width forms, U+3000,
//	           combining sequences next to the precomposed letter, ZWJ / ZWNJ / variation selector / RLM inside, private
//	           use, Turkish and German case pairs, invalid UTF-8 (a surrogate written as three bytes, lone continuation
//	           bytes, 0xFF), NUL, '%' verbs, names that look like another member's replica string — each together with
//	           its plain counterpart as ANOTHER member: added, looked up, removed under the same spelling, in both
//	           orders; random histories over the pool; single names of 65, 257 and 4097 runes.
//
// Not applicable to this API: element types, callbacks, int parameters, constructors beyond New(), held outputs
// (GetNodeBy returns a string).
package main

import (
	"fmt"
	"strconv"
	"strings"
	"time"

	"verifharness/hxlib"
)

type twin struct{ A, B string }

// twinPairs: the text-book pairs (verified here) and pairs found by brute force over two name families.
func twinPairs(perFamily, limit int) []twin {
	var out []twin
	for _, p := range []twin{{"costarring", "liquid"}, {"declinate", "macallums"}, {"altarage", "zinke"}, {"altarages", "zinkes"}} {
		if fnv32a(p.A) == fnv32a(p.B) {
			out = append(out, p)
		}
	}
	families := []func(i int) string{
		func(i int) string { return "game-" + strconv.Itoa(i) },
		func(i int) string {
			return fmt.Sprintf("10.0.%d.%d:9000", i>>8&255, i&255) + strings.Repeat("x", i>>16)
		},
	}
	for _, name := range families {
		seen := make(map[uint32]int32, limit)
		found := 0
		for i := 0; i < limit && found < perFamily; i++ {
			h := fnv32a(name(i))
			if j, ok := seen[h]; ok {
				out = append(out, twin{name(int(j)), name(i)})
				found++
				continue
			}
			seen[h] = int32(i)
		}
	}
	return out
}

// twinCases: every sequence of length n over {+A, +B, -A, -B} after two other members joined (alone: on an empty ring).
func twinCases(rr *hxlib.Rand, p twin, n int, spliced, alone bool) []*kase {
	var out []*kase
	alphabet := []op{{Op: "add", Name: p.A}, {Op: "add", Name: p.B}, {Op: "remove", Name: p.A}, {Op: "remove", Name: p.B}}
	total := 1
	for i := 0; i < n; i++ {
		total *= 4
	}
	for code := 0; code < total; code++ {
		c := &kase{KeyFrom: rr.Intn(1000000), KeyCount: 48, ModelKeys: 4, Tag: "twins"}
		c.Ops = []op{{Op: "add", Name: "gate-1"}, {Op: "add", Name: "gate-2"}}
		if alone {
			c.Ops, c.Tag = nil, "twins-alone"
		}
		x := code
		for i := 0; i < n; i++ {
			c.Ops = append(c.Ops, alphabet[x&3])
			x >>= 2
		}
		if spliced {
			c.Tag = "twins+spliced"
			// another member joins or leaves somewhere in between (gate-1 always stays), and some changes go unobserved
			extra := []op{{Op: "add", Name: "gate-3"}, {Op: "remove", Name: "gate-2"}, {Op: "add", Name: "gate-2"}}[rr.Intn(3)]
			at := rr.Range(2, len(c.Ops))
			c.Ops = append(c.Ops[:at], append([]op{extra}, c.Ops[at:]...)...)
			if rr.Bool() {
				for i := 2; i < len(c.Ops); i++ {
					c.Ops[i].Quiet = rr.Chance(1, 2)
				}
			}
		}
		out = append(out, c)
	}
	return out
}

// ---- names (K6) --------------------------------------------------------------------------------------------------

type namePair struct{ special, plain string }

func specialNames() []namePair {
	ps := []namePair{
		// byte order mark in front / behind / twice
		{"\ufeffgame-1", "game-1"}, {"\ufeff", ""}, {"game-1\ufeff", "game-1"}, {"\ufeff\ufeffgame-1", "\ufeffgame-1"},
		// full-width forms, ideographic space
		{"\uff47\uff41\uff4d\uff45-1", "game-1"}, {"game\uff0d1", "game-1"}, {"game-\uff11", "game-1"}, {"game\u30001", "game 1"},
		// combining sequence / precomposed
		{"cafe\u0301", "caf\u00e9"}, {"A\u030a", "\u00c5"}, {"\u1100\u1161", "\uac00"},
		// ZWJ, ZWNJ, variation selector, RLM, soft hyphen, RLO
		{"no\u200dde", "node"}, {"no\u200cde", "node"}, {"node\ufe0f", "node"}, {"\u200fnode", "node"}, {"no\u00adde", "node"}, {"\u202enode", "node"},
		// private use
		{"\ue000", "\uf8ff"}, {"\U0010fffd", "\U000ffffd"},
		// case pairs without a one-to-one mapping
		{"\u0130stanbul", "istanbul"}, {"\u0131stanbul", "Istanbul"}, {"stra\u00dfe", "strasse"}, {"STRA\u1e9eE", "STRASSE"}, {"Node", "node"}, {"\u212aelvin", "Kelvin"},
		// not UTF-8: a surrogate written as three bytes, a surrogate pair written as six, lone continuation bytes, 0xFF, an overlong '/', a truncated sequence
		{"\xed\xa0\x80", "\ufffd"}, {"\xed\xa0\x80\xed\xb0\x80", "\U00010000"}, {"\x80", "\xbf"}, {"\xff", "\xfe"}, {"a\xc0\xaf", "a/"}, {"\xe4\xb8", "\u4e16"},
		{"a\x00", "a"}, {"\x00", ""}, {"a\n", "a"}, {" a", "a"}, {"a ", "a"},
		// format verbs, names that look like replica strings
		{"%s", "%d"}, {"%!s(MISSING)", "%"}, {"%[1]s-%[2]d", "%v"}, {"a-0", "a"}, {"a-1-0", "a-1"}, {"-", "--"}, {"-19", "-1"},
	}
	return ps
}

// nameCases: the special name and its plain counterpart are two members.
func nameCases(rr *hxlib.Rand) []*kase {
	var out []*kase
	for _, p := range specialNames() {
		for dir := 0; dir < 2; dir++ {
			s, t := p.special, p.plain
			if dir == 1 {
				s, t = t, s
			}
			c := &kase{KeyFrom: rr.Intn(1000000), KeyCount: 60, ModelKeys: 6, Tag: "names", Keys: []string{s, t, s + "-0", t + "-0", "\ufeffk1", "\uff4b1"}}
			c.Ops = []op{{Op: "add", Name: "gate-1"}, {Op: "add", Name: s}, {Op: "add", Name: "gate-2"}, {Op: "remove", Name: s}, {Op: "add", Name: s},
				{Op: "add", Name: t}, {Op: "remove", Name: s}, {Op: "remove", Name: s}, {Op: "add", Name: s, Quiet: true}, {Op: "remove", Name: t},
				{Op: "remove", Name: "gate-1"}, {Op: "remove", Name: "gate-2"}, {Op: "remove", Name: s}, {Op: "add", Name: t}, {Op: "remove", Name: t}}
			out = append(out, c)
		}
	}
	// random histories over the pool of special and plain names
	var pool []string
	for _, p := range specialNames() {
		pool = append(pool, p.special, p.plain)
	}
	for i := 0; i < 24; i++ {
		c := &kase{KeyFrom: rr.Intn(1000000), KeyCount: 60, ModelKeys: 6, Tag: "names:random"}
		var mine []string
		for j := rr.Range(3, 8); j > 0; j-- {
			mine = append(mine, pool[rr.Intn(len(pool))])
		}
		c.Keys = mine
		for j := rr.Range(5, 30); j > 0; j-- {
			name := mine[rr.Intn(len(mine))]
			o := op{Op: "add", Name: name}
			if rr.Chance(2, 5) {
				o.Op = "remove"
			}
			o.Quiet = i%3 == 2 && rr.Chance(1, 2)
			c.Ops = append(c.Ops, o)
		}
		out = append(out, c)
	}
	// single long names
	al := []rune("ab\uff53\u4e16\U0001F600\u00e9-0")
	for _, n := range []int{65, 257, 4097} {
		w := make([]rune, n)
		for i := range w {
			w[i] = al[rr.Intn(len(al))]
		}
		long := string(w)
		w[n-1] = 'Z'
		sibling := string(w) // differs in the last rune only
		c := &kase{KeyFrom: rr.Intn(1000000), KeyCount: 60, ModelKeys: 4, Tag: "names:long", Keys: []string{long, sibling, long + "-0"}}
		c.Ops = []op{{Op: "add", Name: "gate-1"}, {Op: "add", Name: long}, {Op: "add", Name: sibling}, {Op: "remove", Name: long}, {Op: "add", Name: long[:len(long)-1]},
			{Op: "remove", Name: sibling}, {Op: "add", Name: long}, {Op: "remove", Name: "gate-1"}, {Op: "remove", Name: long}}
		out = append(out, c)
	}
	return out
}

// tripleCases: three members lack the same ring points after a removal. "t19837648" shares four replica points with
// the twins "declinate" / "macallums" (t19837648-0 = declinate-18, -1 = -19, -8 = -10, -9 = -11; found by brute force,
// verified here). When it leaves, those points belong to nobody and both twins claim them: RemoveNode must hand them
// out in an order that does not depend on map iteration (the code sorts the names) — otherwise the model, and a
// repeated run, disagree.
func tripleCases(rr *hxlib.Rand) []*kase {
	a, b, x := "declinate", "macallums", "t19837648"
	if fnv32a(a) != fnv32a(b) || fnv32a(x+"-0") != fnv32a(a+"-18") || fnv32a(x+"-9") != fnv32a(a+"-11") {
		return nil
	}
	var near []string
	for _, j := range []int{18, 19, 10, 11} {
		near = append(near, keysBelow(fnv32a(a+"-"+strconv.Itoa(j)), 3)...)
	}
	var out []*kase
	for _, order := range [][]string{{a, b, x}, {b, a, x}, {x, a, b}, {a, x, b}, {b, x, a}, {x, b, a}} {
		for _, gates := range []int{0, 2} {
			for _, leave := range []string{x, a, b} {
				c := &kase{Keys: near, KeyFrom: rr.Intn(1000000), KeyCount: 200, ModelKeys: len(near) + 8, Tag: "triple-claim"}
				for g := 0; g < gates; g++ {
					c.Ops = append(c.Ops, op{Op: "add", Name: "gate-" + strconv.Itoa(g+1)})
				}
				for _, n := range order {
					c.Ops = append(c.Ops, op{Op: "add", Name: n})
				}
				c.Ops = append(c.Ops, op{Op: "remove", Name: leave})
				for _, n := range order { // and everybody leaves, one after the other
					if n != leave {
						c.Ops = append(c.Ops, op{Op: "remove", Name: n})
					}
				}
				out = append(out, c)
			}
		}
	}
	return out
}

// nameLegs runs in every tier. Cost: quick ≈ 1.5 s.
func nameLegs(r *hxlib.Run) {
	t0 := time.Now()
	pairs := twinPairs(r.Scale(2, 4), 400000)
	r.CountN("twin-member-name-pairs", len(pairs))
	n := 0
	rr := r.R.Fork()
	for pi, p := range pairs {
		if rr.Bool() {
			p.A, p.B = p.B, p.A
		}
		maxLen := r.Scale(4, 5)
		if pi == 0 {
			maxLen = r.Scale(5, 6)
		}
		for l := 1; l <= maxLen; l++ {
			for _, c := range twinCases(rr, p, l, false, false) {
				if n == 0 {
					r.Sample(c)
				}
				one(r, c)
				n++
			}
		}
		for l := 1; l < maxLen; l++ {
			for _, c := range twinCases(rr, p, l, false, true) {
				one(r, c)
				n++
			}
		}
		for _, c := range twinCases(rr, p, 4, true, false) {
			one(r, c)
			n++
		}
		if r.Failed() {
			break
		}
	}
	if len(pairs) == 0 {
		r.Note("leg twins: no member names with equal FNV-32a found: NOT run")
	} else {
		r.Note("leg twins: %d pairs of member names with equal 32-bit FNV-1a (first: %q / %q), %d histories: every add/remove sequence of the two twins up to length %d with two other members present and (one shorter) with the twins alone on the ring, plus spliced changes of other members and lookup-free batches, %.1fs",
			len(pairs), pairs[0].A, pairs[0].B, n, r.Scale(5, 6), time.Since(t0).Seconds())
	}
	if tc := tripleCases(r.R.Fork()); len(tc) == 0 {
		r.Note("leg triple-claim: the hard-wired collision does not hold under FNV-32a: NOT run")
	} else {
		for _, c := range tc {
			one(r, c)
		}
		r.Note("leg triple-claim: %d histories in which a leaving member frees ring points that two remaining members (twins) both claim", len(tc))
	}
	t0, n = time.Now(), 0
	for _, c := range nameCases(r.R.Fork()) {
		one(r, c)
		n++
	}
	r.Note("leg names: %d histories over %d (special, plain) member-name pairs (BOM, full-width, combining, joiners, selectors, bidi, private use, case pairs, invalid UTF-8, NUL, format verbs, replica look-alikes), random histories over them, names of 65 / 257 / 4097 runes, %.1fs", n, len(specialNames()), time.Since(t0).Seconds())
}
