// legs5.go: fifth-wave leg of hx_c17, NORMAL tiers.
//
//	drain   a ring grown to N members (N = 120, 420; quick: 420 only) and then DRAINED to a single member and regrown:
//	        the sorted point list shrinks by two orders of magnitude, which is where a re-allocation policy of that
//	        list (capacity vs. use) takes its rare branch. All keys — including keys hashing into the lowest/highest
//	        2^-15 of the ring, which wrap around to the first point — are looked up after every single change while at
//	        most 12 members are left, and after every 32 changes elsewhere.
//
// Found missing by seeded C17-w5v2 (the shrink path of updateSortedHash allocating len instead of cap: leading zero
// points, lookups answering "" right after the one RemoveNode that triggers the re-allocation). Oracle-only (the
// Lean model's insertion sort is not run on 8 400 points); the case is a search case (leg, n, seed) regenerated on
// replay and cut down to the failing change and key by runSearch.
package main

import (
	"strconv"
	"time"

	"verifharness/hxlib"
)

func buildDrain(c scase) *kase {
	rr := hxlib.NewRand(c.Seed)
	k := &kase{KeyFrom: rr.Intn(1000000), KeyCount: c.NKeys, Keys: extremeKeys(), Tag: "drain"}
	name := func(j int) string {
		if j%2 == 1 {
			return "节点-" + strconv.Itoa(j)
		}
		return "srv-" + strconv.Itoa(j)
	}
	members := 0
	for j := 0; j < c.N; j++ {
		members++
		k.Ops = append(k.Ops, op{Op: "add", Name: name(j), Quiet: members%32 != 0 && members > 12})
	}
	// drain in a shuffled order down to one member
	order := make([]int, c.N)
	for j := range order {
		order[j] = j
	}
	for j := c.N - 1; j > 0; j-- {
		i := rr.Intn(j + 1)
		order[j], order[i] = order[i], order[j]
	}
	for _, j := range order[:c.N-1] {
		members--
		k.Ops = append(k.Ops, op{Op: "remove", Name: name(j), Quiet: members%32 != 0 && members > 12})
	}
	// regrow a little, drain completely, and start again
	for j := 0; j < 5; j++ {
		k.Ops = append(k.Ops, op{Op: "add", Name: name(c.N + j)})
	}
	k.Ops = append(k.Ops, op{Op: "remove", Name: name(order[c.N-1])})
	for j := 0; j < 5; j++ {
		k.Ops = append(k.Ops, op{Op: "remove", Name: name(c.N + j)})
	}
	k.Ops = append(k.Ops, op{Op: "add", Name: "again"})
	return k
}

func drainLegs(r *hxlib.Run) {
	t0 := time.Now()
	ns := []int{420}
	if r.Thorough() {
		ns = []int{120, 420, 1300}
	}
	for _, n := range ns {
		c := scase{Leg: "drain", N: n, Seed: r.R.U64(), NKeys: 600}
		r.Count("drain")
		if runSearch(r, c) {
			return
		}
	}
	r.Note("drain leg (legs5.go): rings grown to %v members, drained to one member in shuffled order and regrown; 600 keys + the extreme-hash keys looked up after every change while <= 12 members are left and every 32 changes elsewhere, %.1fs", ns, time.Since(t0).Seconds())
}
