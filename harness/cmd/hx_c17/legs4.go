// legs4.go: fourth-wave legs of hx_c17, NORMAL tiers (quick and thorough). Ordinary histories (kase): model-compared,
// shrunk and replayed like the others; the oracle is runCase's.
//
//	selfcol   (W7) member names whose OWN replica strings collide with each other: FNV-1a(n+"-i") == FNV-1a(n+"-1j").
//	          Constructed, not searched: the hash state s after n+"-" must satisfy s^x == (s^'1')*prime for x = i^j
//	          (solved bit by bit; there are 16 such states, for x = 3, 11, …), and a printable name "cache-<d>.<abc>" with that
//	          state is found by meeting in the middle (forward over 2^20 numbered prefixes, backward over the letters,
//	          FNV-1a inverted with the inverse of the prime). Such a member has fewer than 20 distinct ring points.
//	          Histories: added among 0..3 other members and alone, removed (it must not answer any more), removed again,
//	          removed without ever having been added, re-added, other members and non-members removed around it.
//	emptycol  (W7) the empty name "" as a member, and members whose replica points collide with replica points of ""
//	          (FNV-1a(X+"-i") == FNV-1a("-j"), constructed the same way, i and j over 0..19; also against the members
//	          "a", "-", "-0"): both orders of joining (so that either one owns the shared point), then RemoveNode of an
//	          unrelated member, of a NON-member, of either of the two, re-adds; keys just below the shared point plus
//	          the usual key set.
package main

import (
	"strconv"
	"time"

	"verifharness/hxlib"
)

const fnvPrime32 = 16777619
const fnvOffset32 = 2166136261

// fnvInv32: the inverse of the FNV prime modulo 2^32 (Newton iteration).
var fnvInv32 = func() uint32 {
	x := uint32(fnvPrime32) // correct to 3 bits
	for i := 0; i < 5; i++ {
		x *= 2 - fnvPrime32*x
	}
	return x
}()

func fnvFwd(h uint32, s string) uint32 {
	for i := 0; i < len(s); i++ {
		h = (h ^ uint32(s[i])) * fnvPrime32
	}
	return h
}

// fnvBack: the state before s was hashed, given the state after it.
func fnvBack(h uint32, s string) uint32 {
	for i := len(s) - 1; i >= 0; i-- {
		h = (h * fnvInv32) ^ uint32(s[i])
	}
	return h
}

// nameFinder: printable names with a prescribed FNV-1a value, by meeting in the middle.
type nameFinder struct {
	prefix string
	tab    []int32 // low 22 bits of the state after prefix+<i>+"." -> i+1
}

const finderBits = 22

func newNameFinder(prefix string, n int) *nameFinder {
	f := &nameFinder{prefix: prefix, tab: make([]int32, 1<<finderBits)}
	base := fnvFwd(fnvOffset32, prefix)
	for i := 0; i < n; i++ {
		h := fnvFwd(base, strconv.Itoa(i)+".")
		f.tab[h&(1<<finderBits-1)] = int32(i + 1)
	}
	return f
}

// find returns up to want names prefix+<i>+"."+<letters> whose FNV-1a value is target.
func (f *nameFinder) find(target uint32, want int) []string {
	var out []string
	base := fnvFwd(fnvOffset32, f.prefix)
	var buf [4]byte
	try := func(suffix string) {
		st := fnvBack(target, suffix)
		if i := f.tab[st&(1<<finderBits-1)]; i != 0 {
			head := strconv.Itoa(int(i-1)) + "."
			if fnvFwd(base, head) == st {
				out = append(out, f.prefix+head+suffix)
			}
		}
	}
	for n := 3; n <= 4 && len(out) < want; n++ {
		var rec func(k int)
		rec = func(k int) {
			if len(out) >= want {
				return
			}
			if k == n {
				try(string(buf[:n]))
				return
			}
			for c := byte('a'); c <= 'z'; c++ {
				buf[k] = c
				rec(k + 1)
			}
		}
		rec(0)
	}
	return out
}

// selfCollidingStates: every state s after name+"-" with (s^a)*p == (((s^'1')*p)^b)*p for digits a = '0'+i, b = '0'+j,
// i.e. u*p ^ u == '1'^x with u = s^'1', x = i^j. Bit k of u*p^u depends on the bits below k only: solved from bit 0 up.
func selfCollidingStates() map[uint32]int {
	out := map[uint32]int{} // state -> x
	for x := uint32(1); x < 16; x++ {
		c := uint32('1') ^ x
		cands := []uint32{0}
		for k := uint(0); k < 32 && len(cands) > 0; k++ {
			var next []uint32
			mask := uint32(1)<<(k+1) - 1
			if k == 31 {
				mask = ^uint32(0)
			}
			for _, u := range cands {
				for b := uint32(0); b < 2; b++ {
					v := u | b<<k
					if (v*fnvPrime32^v^c)&mask == 0 {
						next = append(next, v)
					}
				}
			}
			cands = next
		}
		for _, u := range cands {
			out[u^uint32('1')] = int(x)
		}
	}
	return out
}

type selfCol struct {
	Name string
	I, J int // replica I collides with replica J
}

func selfCollidingNames(f *nameFinder, perState int) []selfCol {
	var out []selfCol
	states := selfCollidingStates()
	var keys []uint32
	for s := range states {
		keys = append(keys, s)
	}
	// deterministic order
	for i := 1; i < len(keys); i++ {
		for j := i; j > 0 && keys[j] < keys[j-1]; j-- {
			keys[j], keys[j-1] = keys[j-1], keys[j]
		}
	}
	for _, s := range keys {
		x := states[s]
		for _, name := range f.find(fnvBack(s, "-"), perState) {
			// which replicas: i ^ j == x, i in 0..9, replica 10+j
			for i := 0; i < 10; i++ {
				j := i ^ x
				if j < 10 && fnv32a(name+"-"+strconv.Itoa(i)) == fnv32a(name+"-1"+strconv.Itoa(j)) {
					out = append(out, selfCol{name, i, 10 + j})
					break
				}
			}
		}
	}
	return out
}

// collidingWith: names X with FNV-1a(X+"-i") == FNV-1a(base+"-j").
func collidingWith(f *nameFinder, base string, i, j, want int) []collision {
	point := fnv32a(base + "-" + strconv.Itoa(j))
	var out []collision
	for _, x := range f.find(fnvBack(point, "-"+strconv.Itoa(i)), want) {
		if x != base && fnv32a(x+"-"+strconv.Itoa(i)) == point {
			out = append(out, collision{A: x, B: base, Point: point})
		}
	}
	return out
}

func othersOps(n int) []op {
	var o []op
	for i := 0; i < n; i++ {
		o = append(o, op{Op: "add", Name: "other" + strconv.Itoa(i)})
	}
	return o
}

func selfColCases(rr *hxlib.Rand, s selfCol, nkeys int) []*kase {
	near := keysBelow(fnv32a(s.Name+"-"+strconv.Itoa(s.I)), 6)
	mk := func(tag string, ops ...[]op) *kase {
		c := &kase{Keys: near, KeyFrom: rr.Intn(1000000), KeyCount: nkeys, ModelKeys: 40, Tag: tag}
		for _, o := range ops {
			c.Ops = append(c.Ops, o...)
		}
		return c
	}
	n := s.Name
	k := rr.Range(1, 3)
	return []*kase{
		mk("selfcol:add-remove", othersOps(k), []op{{Op: "add", Name: n}, {Op: "remove", Name: n}, {Op: "remove", Name: n}, {Op: "add", Name: n}, {Op: "remove", Name: "other0"}, {Op: "remove", Name: n}, {Op: "add", Name: "other0"}}),
		mk("selfcol:first-member", []op{{Op: "add", Name: n}}, othersOps(k), []op{{Op: "remove", Name: n}, {Op: "remove", Name: "nobody"}, {Op: "add", Name: n}, {Op: "add", Name: n}, {Op: "remove", Name: n}}),
		mk("selfcol:never-added", othersOps(k), []op{{Op: "remove", Name: n}, {Op: "add", Name: "late"}, {Op: "remove", Name: n}, {Op: "remove", Name: "other0"}}),
		mk("selfcol:alone", []op{{Op: "add", Name: n}, {Op: "remove", Name: n}, {Op: "add", Name: "other0"}, {Op: "add", Name: n}, {Op: "remove", Name: "other0"}, {Op: "remove", Name: n}, {Op: "add", Name: "other1"}}),
		mk("selfcol:batch", othersOps(k), []op{{Op: "add", Name: n, Quiet: true}, {Op: "add", Name: "late"}, {Op: "remove", Name: n, Quiet: true}, {Op: "remove", Name: "late"}, {Op: "add", Name: "", Quiet: true}, {Op: "add", Name: n}, {Op: "remove", Name: n}, {Op: "remove", Name: ""}}),
	}
}

func emptyColCases(rr *hxlib.Rand, col collision, nkeys int) []*kase {
	near := keysBelow(col.Point, 8)
	mk := func(tag string, ops ...[]op) *kase {
		c := &kase{Keys: near, KeyFrom: rr.Intn(1000000), KeyCount: nkeys, ModelKeys: 40, Tag: tag}
		for _, o := range ops {
			c.Ops = append(c.Ops, o...)
		}
		return c
	}
	x, e := col.A, col.B // e: the special member ("" …)
	k := rr.Range(1, 3)
	tail := []op{{Op: "remove", Name: "other0"}, {Op: "remove", Name: "nobody"}, {Op: "add", Name: "late"}, {Op: "remove", Name: "late"}}
	return []*kase{
		// the special name owns the shared point; unrelated members and non-members leave
		mk("emptycol:x-then-special", othersOps(k), []op{{Op: "add", Name: x}, {Op: "add", Name: e}}, tail, []op{{Op: "remove", Name: x}, {Op: "remove", Name: e}}),
		// x owns it
		mk("emptycol:special-then-x", othersOps(k), []op{{Op: "add", Name: e}, {Op: "add", Name: x}}, tail, []op{{Op: "remove", Name: e}, {Op: "remove", Name: x}}),
		// the owner leaves and comes back
		mk("emptycol:owner-leaves", othersOps(k), []op{{Op: "add", Name: x}, {Op: "add", Name: e}, {Op: "remove", Name: e}, {Op: "remove", Name: "nobody"}, {Op: "add", Name: e}, {Op: "remove", Name: x}, {Op: "remove", Name: "nobody"}, {Op: "add", Name: x}, {Op: "remove", Name: "other0"}}),
		// only one of them is a member, the other is removed as a non-member
		mk("emptycol:one-of-them", othersOps(k), []op{{Op: "add", Name: e}, {Op: "remove", Name: x}, {Op: "remove", Name: e}, {Op: "add", Name: x}, {Op: "remove", Name: e}, {Op: "remove", Name: "nobody"}}),
		// the two alone
		mk("emptycol:alone", []op{{Op: "add", Name: x}, {Op: "add", Name: e}, {Op: "remove", Name: "nobody"}, {Op: "remove", Name: x}, {Op: "add", Name: x}, {Op: "remove", Name: "nobody"}, {Op: "remove", Name: e}}),
	}
}

// collisionLegs runs in every tier. Cost: quick ≈ 1 s.
func collisionLegs(r *hxlib.Run) {
	t0 := time.Now()
	nkeys := r.Scale(1500, 6000)
	rr := r.R.Fork()
	f := newNameFinder("cache-", 1<<20)
	selfs := selfCollidingNames(f, r.Scale(1, 3))
	r.CountN("self-colliding-member-names", len(selfs))
	n := 0
	for i, s := range selfs {
		for _, c := range selfColCases(rr, s, nkeys) {
			if i == 0 && n == 0 {
				r.Sample(c)
			}
			one(r, c)
			n++
		}
	}
	if len(selfs) == 0 {
		r.Note("leg selfcol: no self-colliding member name could be constructed: NOT run")
	} else {
		r.Note("leg selfcol: %d member names whose own replica strings collide (constructed from the %d FNV-1a states that allow it; first: %q, replicas %d and %d), %d histories: added, removed, removed again, removed as a non-member, alone and among other members, %.1fs",
			len(selfs), len(selfCollidingStates()), selfs[0].Name, selfs[0].I, selfs[0].J, n, time.Since(t0).Seconds())
	}
	t0, n = time.Now(), 0
	var cols []collision
	bases := []string{"", "", "", "", "", "", "a", "-", "-0"}
	if r.Thorough() {
		bases = append(bases, "", "", "", "", "", "", "", "", "", "a-1", "0", "%s")
	}
	for _, b := range bases {
		cols = append(cols, collidingWith(f, b, rr.Intn(20), rr.Intn(20), 1)...)
	}
	r.CountN("members-colliding-with-a-special-name", len(cols))
	for _, col := range cols {
		for _, c := range emptyColCases(rr, col, nkeys) {
			one(r, c)
			n++
		}
	}
	// the empty name next to ordinary collisions and twins: random add/remove histories over a small pool
	for i := 0; i < r.Scale(6, 40) && len(cols) > 0; i++ {
		col := cols[rr.Intn(len(cols))]
		pool := []string{"", col.A, col.B, "other0", "other1", "-0", "nobody"}
		if len(selfs) > 0 {
			pool = append(pool, selfs[rr.Intn(len(selfs))].Name)
		}
		c := &kase{Keys: keysBelow(col.Point, 4), KeyFrom: rr.Intn(1000000), KeyCount: nkeys, ModelKeys: 40, Tag: "emptycol:random"}
		for j := rr.Range(6, 16); j > 0; j-- {
			o := op{Op: "add", Name: pool[rr.Intn(len(pool))]}
			if rr.Chance(2, 5) {
				o.Op = "remove"
			}
			c.Ops = append(c.Ops, o)
		}
		one(r, c)
		n++
	}
	if len(cols) == 0 {
		r.Note("leg emptycol: no member colliding with the empty name could be constructed: NOT run")
	} else {
		r.Note("leg emptycol: %d constructed members sharing a ring point with a replica of \"\" (and of \"a\", \"-\", \"-0\"; first: %q at point %d), %d histories: both joining orders, RemoveNode of unrelated members, of non-members and of either of the two, re-adds, random histories over the pool, %.1fs",
			len(cols), cols[0].A, cols[0].Point, n, time.Since(t0).Seconds())
	}
}
