// search.go: failing-input search legs of hx_c17 (active only with -search).
//
// The legs that run in the NORMAL tiers (member names with equal FNV-32a, Unicode / byte-pattern classes of names) are in
// legs3.go.
// Fourth wave, also NORMAL tiers: the empty member name, members whose own replicas collide, members colliding with
// replicas of "" (constructed by inverting FNV-1a) are in legs4.go.
//
// The normal tiers keep rings of at most 60 members and look every key up after (almost) every change. The legs:
//
//	scale    a ring grown to 4200 members (84 000 points: past 2^15 and 2^16 points) and shrunk again, every key looked
//	         up before and after each single change around the member counts where the number of points crosses a
//	         power of two, and after batches elsewhere; keys include hashes at the very bottom/top of the 32-bit
//	         space (the wrap-around arc of a dense ring)                                                  (class a, c)
//	period   all keys looked up, then exactly 2^16, 2^16, 2^17, 3*2^18 (and 2^20) membership changes with NO lookup in
//	         between (cumulative 2^16, 2^17, 2^18, 2^20, 2^21) that replace the whole membership, then all keys again;
//	         variants: the ring passes through empty / stays non-empty; few keys / many keys            (class b)
//	reads    all keys looked up, then exactly 2^16*k / 2^18 / 2^20 lookups (one key, or cycling keys), then the
//	         membership is replaced and all keys are looked up again                                      (class b)
//
// Oracle: runCase's (current member, repeatable, a key moves only to an added member / away from a removed member,
// batches judged by the composite rule). A case is (leg, variant, n, seed [, keys, up_to]); its history is
// regenerated from that on replay, a failing case is cut down to the failing change and the failing key.
package main

import (
	"fmt"
	"strconv"
	"time"

	"verifharness/hxlib"

	consistent "qchen.fun/fatchoy/collections/consistent"
)

type scase struct {
	Leg     string   `json:"leg"`
	Variant string   `json:"variant,omitempty"`
	N       int      `json:"n,omitempty"`
	Seed    uint64   `json:"seed,omitempty"`
	Keys    []string `json:"only_keys,omitempty"` // look up only these keys (set on a shrunk failing case)
	UpTo    int      `json:"up_to,omitempty"`     // stop after this many membership changes (0 = all)
	NKeys   int      `json:"nkeys,omitempty"`
}

// extremeKeys: generated keys whose FNV-32a hash lies in the lowest or highest 2^-15 of the hash space.
var extremeCache []string

func extremeKeys() []string {
	if extremeCache != nil {
		return extremeCache
	}
	var lo, hi []string
	for i := 0; i < 6000000 && (len(lo) < 40 || len(hi) < 40); i++ {
		k := "e" + strconv.Itoa(i)
		h := fnv32a(k)
		if h < 1<<17 && len(lo) < 40 {
			lo = append(lo, k)
		} else if h > ^uint32(0)-1<<17 && len(hi) < 40 {
			hi = append(hi, k)
		}
	}
	extremeCache = append(lo, hi...)
	return extremeCache
}

// crossings: member counts m at which 20*m (or m itself) passes a power of two >= 2^10.
func nearCrossing(m int) bool {
	for k := 10; k <= 20; k++ {
		p := 1 << k
		c := (p + 19) / 20 // first member count with 20*m >= p
		if m >= c-3 && m <= c+3 {
			return true
		}
		if m >= p-2 && m <= p+2 {
			return true
		}
	}
	return false
}

func buildScale(c scase) *kase {
	rr := hxlib.NewRand(c.Seed)
	k := &kase{KeyFrom: rr.Intn(1000000), KeyCount: c.NKeys, Keys: extremeKeys(), Tag: "search:scale"}
	// member names of several shapes (plain, multi-byte with the replica separator inside, numeric)
	name := func(j int) string {
		switch j % 3 {
		case 1:
			return "节点-" + strconv.Itoa(j)
		case 2:
			return strconv.Itoa(j)
		}
		return "srv" + strconv.Itoa(j)
	}
	members := 0
	add := func(j int, every int) {
		members++
		k.Ops = append(k.Ops, op{Op: "add", Name: name(j), Quiet: !(nearCrossing(members) || members%every == 0)})
	}
	rem := func(j int, every int) {
		members--
		k.Ops = append(k.Ops, op{Op: "remove", Name: name(j), Quiet: !(nearCrossing(members) || nearCrossing(members+1) || members%every == 0)})
	}
	for j := 0; j < c.N; j++ {
		add(j, 128)
	}
	// shrink back below the 2^16-point mark (or by a fifth), from the middle of the name space
	down := c.N / 5
	if c.N > 3300 {
		down = c.N - 3250
	}
	for j := 0; j < down; j++ {
		rem(c.N/3+j, 64)
	}
	// and grow again with fresh names, past the mark
	for j := 0; j < 60; j++ {
		add(c.N+j, 64)
	}
	k.Ops[len(k.Ops)-1].Quiet = false
	return k
}

// buildPeriod: epochs of two members; between two observations the whole membership is replaced and the rest of
// the gap is filled with add/remove pairs of a filler member, so that exactly `gap` changes happen unobserved.
func buildPeriod(c scase) *kase {
	rr := hxlib.NewRand(c.Seed)
	k := &kase{KeyFrom: rr.Intn(1000000), KeyCount: c.NKeys, Tag: "search:period"}
	if c.NKeys > 64 {
		k.Keys = extremeKeys()
	}
	ep := func(e, i int) string { return "ep" + strconv.Itoa(e) + "m" + strconv.Itoa(i) }
	const epoch = 2 // members per epoch
	for i := 0; i < epoch; i++ {
		k.Ops = append(k.Ops, op{Op: "add", Name: ep(0, i), Quiet: i < epoch-1})
	}
	done, e, fill := 0, 0, 0
	for _, at := range []int{1 << 16, 1 << 17, 1 << 18, 1 << 20, 1 << 21} {
		if at > c.N {
			break
		}
		gap := at - done
		var ops []op
		switch c.Variant {
		case "through-empty": // old members leave first: the ring is empty in between
			for i := 0; i < epoch; i++ {
				ops = append(ops, op{Op: "remove", Name: ep(e, i), Quiet: true})
			}
			for i := 0; i < epoch; i++ {
				ops = append(ops, op{Op: "add", Name: ep(e+1, i), Quiet: true})
			}
		default:
			for i := 0; i < epoch; i++ {
				ops = append(ops, op{Op: "add", Name: ep(e+1, i), Quiet: true})
			}
			for i := 0; i < epoch; i++ {
				ops = append(ops, op{Op: "remove", Name: ep(e, i), Quiet: true})
			}
		}
		for len(ops) < gap {
			f := "filler" + strconv.Itoa(fill%5)
			if c.Variant == "fresh-fillers" {
				f = "filler" + strconv.Itoa(fill)
			}
			fill++
			ops = append(ops, op{Op: "add", Name: f, Quiet: true}, op{Op: "remove", Name: f, Quiet: true})
		}
		ops[len(ops)-1].Quiet = false
		k.Ops = append(k.Ops, ops...)
		done = at
		e++
	}
	return k
}

func buildCase(c scase) *kase {
	var k *kase
	switch c.Leg {
	case "scale":
		k = buildScale(c)
	case "period":
		k = buildPeriod(c)
	case "drain":
		k = buildDrain(c)
	default:
		return nil
	}
	if c.UpTo > 0 && c.UpTo < len(k.Ops) {
		k.Ops = k.Ops[:c.UpTo]
	}
	if len(c.Keys) > 0 {
		k.Keys, k.KeyCount = c.Keys, 0
	}
	return k
}

// runSearch runs a search case and reports the first failure per key class, cut down to the failing change and key.
func runSearch(r *hxlib.Run, c scase) bool {
	r.Case()
	var fails []failure
	var st stats
	lookupAlternate = c.Leg == "period"
	defer func() { lookupAlternate = false }()
	switch c.Leg {
	case "reads":
		fails = runReads(c)
	default:
		k := buildCase(c)
		if k == nil {
			r.Fail("harness", "unknown search leg "+c.Leg, c)
			return true
		}
		fails, st = runCase(nil, k)
		r.CountN("lookups", st.lookups)
		r.CountN("changes-without-a-lookup-after", st.quiet)
		r.CountN("keys-moved-over-a-batch", st.movedBatch)
	}
	seen := map[string]bool{}
	for _, f := range fails {
		if seen[f.key] {
			continue
		}
		seen[f.key] = true
		small := c
		if c.Leg != "reads" {
			small.UpTo = f.opIdx + 1
			if f.lookupKey != "" && len(c.Keys) == 0 {
				cand := small
				cand.Keys = []string{f.lookupKey}
				if fs, _ := runCase(nil, buildCase(cand)); hasKey(fs, f.key) {
					small = cand
				}
			}
		}
		r.Fail(f.key, fmt.Sprintf("search leg %s/%s (n=%d seed=%d), membership change %d: %s", c.Leg, c.Variant, c.N, c.Seed, f.opIdx+1, f.what), small)
	}
	return len(fails) > 0
}

func hasKey(fs []failure, key string) bool {
	for _, f := range fs {
		if f.key == key {
			return true
		}
	}
	return false
}

// runReads: lookups only between two membership states.
func runReads(c scase) []failure {
	var fails []failure
	rr := hxlib.NewRand(c.Seed)
	from := rr.Intn(1000000)
	keys := make([]string, c.NKeys)
	for i := range keys {
		keys[i] = "k" + strconv.Itoa(from+i)
	}
	ring := consistent.New()
	members := map[string]bool{}
	change := func(add bool, name string) {
		if p := hxlib.Guard(func() {
			if add {
				ring.AddNode(name)
			} else {
				ring.RemoveNode(name)
			}
		}); p != "" {
			fails = append(fails, failure{"panic:change", fmt.Sprintf("membership change (%v,%q) panics: %s", add, name, p), 0, ""})
		}
		if add {
			members[name] = true
		} else {
			delete(members, name)
		}
	}
	observe := func(stage string) {
		out := make([]string, len(keys))
		again := make([]string, len(keys))
		lookupAll(ring, keys, out)
		lookupAll(ring, keys, again)
		for i, key := range keys {
			if out[i] == panicMark {
				fails = append(fails, failure{"member:panic-on-nonempty-ring", fmt.Sprintf("%s: GetNodeBy(%q) panics with %d members", stage, key, len(members)), 0, key})
			} else if !members[out[i]] {
				fails = append(fails, failure{"member:not-a-member", fmt.Sprintf("%s: GetNodeBy(%q)=%q is not a current member", stage, key, out[i]), 0, key})
			} else if again[i] != out[i] {
				fails = append(fails, failure{"stable:repeat-differs", fmt.Sprintf("%s: GetNodeBy(%q) answered %q and then %q", stage, key, out[i], again[i]), 0, key})
			}
			if len(fails) > 4 {
				return
			}
		}
	}
	ep := func(e, i int) string { return "ep" + strconv.Itoa(e) + "m" + strconv.Itoa(i) }
	for i := 0; i < 3; i++ {
		change(true, ep(0, i))
	}
	observe("start")
	total := 2 * len(keys) // lookups made so far on this ring
	e := 0
	for _, at := range []int{1 << 16, 1 << 17, 1 << 18, 1 << 20, 1 << 21} {
		if at > c.N || len(fails) > 0 {
			break
		}
		// every lookup is judged (current member; one key: always the same answer); the membership is replaced when
		// the ring has answered exactly `at` lookups
		var first string
		for i := 0; total < at; i, total = i+1, total+1 {
			key := keys[0]
			if c.Variant == "cycling" {
				key = keys[i%len(keys)]
			}
			var got string
			if p := hxlib.Guard(func() { got = ring.GetNodeBy(key) }); p != "" {
				got = panicMark
			}
			if !members[got] {
				fails = append(fails, failure{"member:not-a-member", fmt.Sprintf("lookup number %d of the ring: GetNodeBy(%q)=%q is not a current member", total+1, key, got), 0, key})
				break
			}
			if c.Variant != "cycling" {
				if i == 0 {
					first = got
				} else if got != first {
					fails = append(fails, failure{"stable:repeat-differs", fmt.Sprintf("lookup number %d of the ring: GetNodeBy(%q) answered %q, it answered %q before and the membership did not change", total+1, key, got, first), 0, key})
					break
				}
			}
		}
		if len(fails) > 0 {
			break
		}
		for i := 0; i < 3; i++ {
			change(true, ep(e+1, i))
		}
		for i := 0; i < 3; i++ {
			change(false, ep(e, i))
		}
		e++
		observe(fmt.Sprintf("after %d lookups and a replaced membership", at))
		total += 2 * len(keys)
	}
	return fails
}

func searchLegs(r *hxlib.Run) {
	t0 := time.Now()
	// scale
	{
		c := scase{Leg: "scale", N: 4100, Seed: r.R.U64(), NKeys: 2000}
		r.Count("search:scale")
		if runSearch(r, c) {
			return
		}
	}
	r.Note("search leg scale: ring grown to 4100 members (82 000 points; names of three shapes), shrunk to 3250 and regrown to 3310; 2000 keys + %d keys hashing into the lowest/highest 2^-15 of the ring looked up before/after every single change near the member counts where 20*m or m crosses a power of two (..., 1639, 2048, 3277, 4096) and after every 64-128 changes elsewhere, %.1fs", len(extremeKeys()), time.Since(t0).Seconds())
	t1 := time.Now()
	// period
	for i, v := range []string{"replace", "through-empty", "fresh-fillers"} {
		n := 1 << 18
		if i == 0 {
			n = 1 << 20
			if r.Seed%3 == 0 {
				n = 1 << 21 // one seed in three also runs the gap of exactly 2^20
			}
		}
		nk := []int{3000, 16, 300}[i]
		c := scase{Leg: "period", Variant: v, N: n, Seed: r.R.U64(), NKeys: nk}
		r.Count("search:period")
		if runSearch(r, c) {
			return
		}
	}
	r.Note("search leg period: all keys looked up, then 2^16, 2^16, 2^17 membership changes with no lookup that replace the whole membership, then all keys again (3 variants: replaced directly / through the empty ring / fresh filler names); the first variant goes on to 3*2^18 (cumulative 2^20) and on seeds = 0 mod 3 to a gap of exactly 2^20, %.1fs", time.Since(t1).Seconds())
	t2 := time.Now()
	for _, v := range []string{"one-key", "cycling"} {
		c := scase{Leg: "reads", Variant: v, N: 1 << 21, Seed: r.R.U64(), NKeys: 300}
		r.Count("search:reads")
		if runSearch(r, c) {
			return
		}
	}
	r.Note("search leg reads: exactly 2^16, 2^17, 2^18, 2^20, 2^21 lookups (one key / 300 cycling keys) since a membership change, then the membership replaced and everything looked up again, %.1fs", time.Since(t2).Seconds())
}
