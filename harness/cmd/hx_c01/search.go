// search.go: the legs of hx_c01 that aim at defects invisible to the ordinary generators (DESIGN.md 3.4).
// Cheap legs run in every tier (a change that keeps every regenerated fact intact never triggers the
// failing-input search, so the quick tier itself has to reach these inputs); the 10-60 s variants run
// from the thorough tier on; the largest sizes only with -search. No leg emits model lines beyond what
// runCase emits for an ordinary packet.
//
// Every leg states the SAME property as the ordinary generators (checkEncode / checkDecode are the
// only judges):
//
//	lookalike   bodies, below AND above the compression threshold, that look like something a codec might sniff:
//	            complete zlib / gzip / deflate streams, zlib headers followed by garbage or by a deflate stream,
//	            complete frames of either format; with no cipher, the toy cipher, the real ciphers
//	failwrite   a history of WritePacket calls on writers that fail (closed, short write, timeout,
//	            deadline) after k bytes, followed by ordinary packets on a healthy writer
//	period      one codec instance, sequence numbers running through the 16-bit wrap; a probe, exactly
//	            2^16-1, 2^16, 2^17-1, 2^17, 2^18-1, 2^18, 2^20 further packets, the probe again — every packet judged
//	extremes    long runs of all-zero / incompressible megabyte bodies before ordinary packets
//	inflate     compressible bodies of more than 32 MiB (within the frame limit only after compression)
//	alignment   every real cipher x 0..5 references x bodies of 1 B .. 64 KiB+1 handed over at odd
//	            addresses, decoded from header/payload slices at odd addresses
//	eof         multi-frame streams whose last read returns its data together with io.EOF
//
// A history (Case.Hist) is replayable: it is a seed plus a list of steps.
//
// Second round (third red-team wave, body-only changes keyed on what the generators did not vary): legs2.go —
// held (decoded packets kept and judged again after later reads, plain and bufio readers), shared (sender's scratch
// buffers), forgedcrc (CRC-32 forced to 0 / ffffffff / 1 …, cross-decoding with an independent encoder and decoder),
// cryptors (custom BlockCryptor implementations), wordthr (word-extreme thresholds). All in the normal tiers.
//
// Fourth round: legs4.go — fill (writer kinds and every fill state of an unflushed *bufio.Writer relative to header and
// header+4*refs; quick), bigzero (bodies of 256 MiB + 1 from thorough on, 512 MiB + 1 / 1 GiB + 1 with -search, memory permitting).
package main

import (
	"bytes"
	"compress/flate"
	"compress/gzip"
	"compress/zlib"
	"context"
	"fmt"
	"io"
	"os"
	"runtime"
	"runtime/debug"
	"strconv"
	"strings"
	"time"

	"verifharness/hxcodec"
	"verifharness/hxlib"
)

// HStep is one step of a history.
type HStep struct {
	Op    string        `json:"op"`              // run: N generated packets, judged | pkts: the given packets, judged | fail: Pkts[0] is written to a failing writer (not judged)
	N     int           `json:"n,omitempty"`     // run
	Shape string        `json:"shape,omitempty"` // run: small | zeros:<bytes> | noise:<bytes>
	Pkts  []hxcodec.Pkt `json:"pkts,omitempty"`
	Limit int           `json:"limit,omitempty"` // fail: bytes the writer accepts before it fails
	Err   string        `json:"err,omitempty"`   // fail: closed | short | timeout | deadline
}

// Hist: every step runs on ONE codec instance and one cipher pair, in one process, in order.
// Generated packets take their sequence number from the number of WritePacket calls made so far
// (mod 2^16), as a connection does.
type Hist struct {
	V     int     `json:"v"`
	Thr   int     `json:"thr"`
	Key   string  `json:"key"`
	Seed  uint64  `json:"seed"`
	Steps []HStep `json:"steps"`
}

type timeoutErr struct{}

func (timeoutErr) Error() string   { return "i/o timeout" }
func (timeoutErr) Timeout() bool   { return true }
func (timeoutErr) Temporary() bool { return true }

type failWriter struct {
	limit, n int
	kind     string
}

func (w *failWriter) Write(p []byte) (int, error) {
	room := w.limit - w.n
	if room >= len(p) {
		w.n += len(p)
		return len(p), nil
	}
	if room < 0 {
		room = 0
	}
	w.n += room
	switch w.kind {
	case "short":
		return room, io.ErrShortWrite
	case "timeout":
		return room, timeoutErr{}
	case "deadline":
		if room%2 == 0 {
			return room, context.DeadlineExceeded
		}
		return room, os.ErrDeadlineExceeded
	}
	return room, io.ErrClosedPipe
}

// genPkt: packet number `call` of a run step.
func genPkt(R *hxlib.Rand, h *Hist, shape string, call int) hxcodec.Pkt {
	d := hxcodec.Pkt{V: h.V, Thr: h.Thr, Key: h.Key, Cmd: int32(R.U64()), Seq: uint16(call), Typ: uint8(R.Intn(3)), Flag: uint8(R.Pick(0, 0x20, 0x40, 0xa0)), Node: uint32(R.U64())}
	if h.V == 2 {
		for k := R.Pick(0, 0, 0, 1, 2, 3); k > 0; k-- {
			d.Refs = append(d.Refs, uint32(R.U64()))
		}
	}
	if i := strings.IndexByte(shape, ':'); i > 0 {
		n, _ := strconv.Atoi(shape[i+1:])
		if shape[:i] == "zeros" {
			d.Body = "b:" + hxcodec.SpecRun(n, 0)
		} else {
			d.Body = "b:" + hxcodec.SpecGen(n, uint32(R.U64()>>40))
		}
		return d
	}
	thr := defThreshold(h.V, h.Thr)
	n := R.Pick(0, 1, 2, R.Intn(16), R.Intn(16), R.Intn(64), R.Intn(64), R.Intn(300))
	if R.Chance(1, 1024) {
		n = thr + 1 + R.Intn(200) // over the threshold now and then (each compression costs ~0.1 ms)
	}
	d.Body = bodySpec(R, n, R.Chance(1, 3))
	return d
}

func runHist(r *hxlib.Run, c *Case) {
	r.Case()
	h := c.Hist
	defer func() { failCtx = "" }()
	// one P, no collection in between: what a per-P cache hands out next is what was put back last
	runtime.LockOSThread()
	defer runtime.UnlockOSThread()
	for _, s := range h.Steps {
		if s.Op == "fail" {
			defer debug.SetGCPercent(debug.SetGCPercent(-1))
			break
		}
	}
	enc := hxcodec.Encoder(h.V, h.Thr)
	cr := cryptOf(c, &hxcodec.Pkt{Key: h.Key})
	R := hxlib.NewRand(h.Seed)
	calls := 0
	judge := func(si int, pkts []hxcodec.Pkt) bool {
		var stream []byte
		var ends []int
		var sent []*hxcodec.Pkt
		var idx []int
		for i := range pkts {
			d := &pkts[i]
			failCtx = fmt.Sprintf("history step %d, packet %d of the step (WritePacket call %d of the history): ", si, i, calls)
			var o hxcodec.EncObs
			p := d.Build()
			w := &hxcodec.RecWriter{}
			o.Panic = hxlib.Guard(func() { o.N, o.Err = enc.WritePacket(w, cr.enc, p) })
			o.Writes, o.After = w.Writes, p
			calls++
			frame, ok := checkEncode(r, c, d, &o, cr)
			if !ok {
				continue
			}
			stream = append(stream, frame...)
			ends = append(ends, len(stream))
			sent = append(sent, d)
			idx = append(idx, i)
		}
		if len(sent) == 0 {
			return true
		}
		rd := hxcodec.NewReader(stream, c.Ck)
		for i, d := range sent {
			failCtx = fmt.Sprintf("history step %d, packet %d of the step: ", si, idx[i])
			o := hxcodec.DecodeWith(enc, cr.dec, rd, c.Split, c.UOff)
			checkDecode(r, c, d, &o, ends[i])
			if o.Err != nil || o.Panic != "" {
				return false
			}
		}
		failCtx = fmt.Sprintf("history step %d: ", si)
		o := hxcodec.DecodeWith(enc, cr.dec, rd, c.Split, c.UOff)
		if o.Err != io.EOF || o.Pos != len(stream) {
			fail(r, "stream:end:"+fmt.Sprintf("v%d", h.V), fmt.Sprintf("after the last frame the reader answers %v at %d (stream has %d bytes)", o.Err, o.Pos, len(stream)), c)
		}
		return true
	}
	for si, s := range h.Steps {
		switch s.Op {
		case "pkts":
			r.CountN("hist:judged-packets", len(s.Pkts))
			if !judge(si, s.Pkts) || r.Failed() {
				return
			}
		case "run":
			block := 1024
			if strings.Contains(s.Shape, ":") {
				block = 4
			}
			for done := 0; done < s.N; {
				k := s.N - done
				if k > block {
					k = block
				}
				pkts := make([]hxcodec.Pkt, k)
				for i := range pkts {
					pkts[i] = genPkt(R, h, s.Shape, calls+i)
				}
				r.CountN("hist:judged-packets", k)
				if !judge(si, pkts) || r.Failed() {
					return
				}
				done += k
			}
		case "fail":
			p := s.Pkts[0].Build()
			w := &failWriter{limit: s.Limit, kind: s.Err}
			hxlib.Guard(func() { enc.WritePacket(w, cr.enc, p) }) // outside the statement: not judged
			calls++
			r.Count("hist:failed-write:" + s.Err)
		}
	}
}

func hexBody(b []byte) string { return "b:" + hxcodec.SpecHex(b) }

func deflated(kind string, b []byte) []byte {
	var buf bytes.Buffer
	var w io.WriteCloser
	switch kind {
	case "zlib":
		w = zlib.NewWriter(&buf)
	case "zlib-best":
		w, _ = zlib.NewWriterLevel(&buf, zlib.BestCompression)
	case "zlib-store":
		w, _ = zlib.NewWriterLevel(&buf, zlib.NoCompression)
	case "gzip":
		w = gzip.NewWriter(&buf)
	default:
		w, _ = flate.NewWriter(&buf, flate.DefaultCompression)
	}
	w.Write(b)
	w.Close()
	return buf.Bytes()
}

func legs(r *hxlib.Run) {
	level := 0 // 0 quick, 1 thorough, 2 -search
	if r.Thorough() {
		level = 1
	}
	if r.Search {
		level = 2
	}
	R := hxlib.NewRand(r.Seed ^ 0x5ea7c4) // own stream: the tiers' generators draw what they drew before
	leg := func(name string, min int, f func()) {
		if level < min || (r.Search && r.Failed()) { // with -search one failing input is what is looked for
			return
		}
		t0 := time.Now()
		f()
		r.Note("leg %s: %.1fs", name, time.Since(t0).Seconds())
	}
	one := func(c *Case) {
		if c.Hist != nil {
			runHist(r, c)
		} else {
			runCase(r, c)
		}
	}
	realCiphers := []string{"aes-128", "aes-192", "aes-256", "sm4", "twofish", "3des", "xtea", "salsa20", "none"}

	leg("lookalike", 0, func() {
		text := []byte(strings.Repeat("the quick brown fox jumps over the lazy dog. ", 7))
		var bodies [][]byte
		add := func(b ...[]byte) { bodies = append(bodies, b...) }
		cat := func(a, b []byte) []byte { return append(append([]byte{}, a...), b...) }
		for _, k := range []string{"zlib", "zlib-best", "zlib-store", "gzip", "deflate"} {
			for _, src := range [][]byte{text, {}, make([]byte, 1000), R.Bytes(5), R.Bytes(700), hxcodec.Gen(3000, 9), hxcodec.Gen(9000, 10)} {
				z := deflated(k, src)
				add(z, cat(z, R.Bytes(1+R.Intn(9))), z[:len(z)-1])
			}
		}
		for _, hd := range [][]byte{{0x78, 0x9c}, {0x78, 0x01}, {0x78, 0xda}, {0x78, 0x5e}, {0x1f, 0x8b, 0x08}, {0x1f, 0x8b}, {0x78}} {
			// the header alone, followed by garbage (short, above the small and above the default thresholds), by zeros, by a valid deflate stream
			add(hd, cat(hd, R.Bytes(1+R.Intn(40))), cat(hd, R.Bytes(100+R.Intn(100))), cat(hd, hxcodec.Gen(4200, 3)), cat(hd, hxcodec.Gen(8300, 4)), cat(hd, make([]byte, 30)),
				cat(hd, make([]byte, 9000)), cat(hd, deflated("deflate", text)), cat(hd, deflated("deflate", hxcodec.Gen(9000, 5))))
		}
		// a body that is itself a complete frame (of this or the other format), and a zlib stream of a frame
		for _, v := range []int{1, 2} {
			f := hxcodec.Forge(v, 1, 0, 0, 7, 5, 9, []byte("inner"))
			g := hxcodec.Forge(v, 1, 1, 0, 7, 5, 9, deflated("zlib", text))
			add(f, g, deflated("zlib", f), hxcodec.Forge(v, 1, 0x20, 0, 7, 5, 9, hxcodec.Gen(9000, 6)))
		}
		n := 0
		for _, v := range []int{1, 2} {
			for _, b := range bodies {
				if len(b) == 0 {
					continue
				}
				for ki, key := range []string{"", toyKey} {
					thrs := []int{0, R.Pick(1, 64), huge} // default threshold (bodies on both sides of it), a small one, never
					if level == 0 {
						thrs = thrs[(n+ki)%3 : (n+ki)%3+1] // quick: one of them per (body, cipher), in rotation
					}
					for _, thr := range thrs {
						d := hxcodec.Pkt{V: v, Thr: thr, Key: key, Cmd: 31, Seq: uint16(n), Typ: 1, Node: 3, Flag: uint8(R.Pick(0, 0x20)), Body: hexBody(b)}
						if v == 2 && n%3 == 0 {
							d.Refs = []uint32{7}
						}
						one(&Case{Pkts: []hxcodec.Pkt{d}, Ck: pickS(R, "all", "n:7", "n:1000"), Split: R.Bool()})
						n++
					}
				}
				name := realCiphers[n%len(realCiphers)]
				d := hxcodec.Pkt{V: v, Thr: R.Pick(0, 1, 64), Cmd: 32, Seq: uint16(n), Typ: 1, Node: 3, Body: hexBody(b)}
				one(&Case{Cipher: name, Pkts: []hxcodec.Pkt{d}, Ck: "all"})
				n++
			}
		}
		r.CountN("leg:lookalike", n)
		r.Note("leg lookalike: %d packets whose body (below and above the compression threshold) is a zlib/gzip/deflate stream (whole, with trailing bytes, cut by one byte), a stream header followed by garbage or by a deflate stream, or a complete frame", n)
	})

	leg("failwrite", 0, func() {
		n := 0
		for _, v := range []int{1, 2} {
			hs := headerSize(v)
			for _, key := range []string{"", toyKey} {
				for _, size := range []int{0, 20, 100, 1000, 4000, 5000, 40000} {
					total := hs + size
					for _, lim := range []int{0, 1, hs - 1, hs, hs + 1, hs + size/2, total - 1} {
						if lim < 0 || lim >= total {
							continue
						}
						ek := []string{"closed", "short", "timeout", "deadline"}[n%4]
						h := &Hist{V: v, Thr: huge, Key: key, Seed: R.U64()}
						bad := hxcodec.Pkt{V: v, Thr: huge, Key: key, Cmd: 66, Seq: 1, Node: 4, Body: bodySpec(R, size, false)}
						for k := R.Pick(1, 1, 2, 3); k > 0; k-- {
							h.Steps = append(h.Steps, HStep{Op: "fail", Pkts: []hxcodec.Pkt{bad}, Limit: lim, Err: ek})
						}
						var after []hxcodec.Pkt
						for _, m := range []int{R.Intn(30), 0, 200, R.Intn(3000), size} {
							after = append(after, hxcodec.Pkt{V: v, Thr: huge, Key: key, Cmd: 67, Seq: uint16(2 + len(after)), Node: 4, Flag: 0x20, Body: bodySpec(R, m, false)})
						}
						h.Steps = append(h.Steps, HStep{Op: "pkts", Pkts: after})
						one(&Case{Ck: "all", Split: n%2 == 0, Hist: h})
						n++
					}
				}
			}
		}
		r.CountN("leg:failwrite", n)
		r.Note("leg failwrite: %d histories (1-3 WritePacket calls on a writer failing after 0..frame-1 bytes with a closed-pipe/short-write/timeout/deadline error, then 5 packets on a healthy writer, all judged)", n)
	})

	leg("alignment", 0, func() {
		n := 0
		sizes := []int{1, 17, 513, 1025, 4097}
		if level >= 1 {
			sizes = append(sizes, 520, 9000, 65537)
		}
		for _, name := range realCiphers {
			for _, v := range []int{1, 2} {
				for nref := 0; nref <= 5; nref++ {
					if v == 1 && nref > 0 {
						continue
					}
					for _, size := range sizes {
						if v == 1 && size > 60000 {
							size = 60000
						}
						d := hxcodec.Pkt{V: v, Thr: R.Pick(huge, huge, 0), Cmd: 70, Seq: uint16(n), Typ: 1, Node: 6, Flag: 0x20, Body: bodySpec(R, size, false), Off: R.Intn(16)}
						for k := 0; k < nref; k++ {
							d.Refs = append(d.Refs, uint32(R.U64()))
						}
						one(&Case{Cipher: name, Pkts: []hxcodec.Pkt{d}, Ck: pickS(R, "all", "n:4096", "n:1000"), Split: n%2 == 0, UOff: R.Pick(0, 1, 3, 4, 7, 9)})
						n++
					}
				}
			}
		}
		r.CountN("leg:alignment", n)
		r.Note("leg alignment: %d packets: 9 ciphers x 0..5 references x bodies 1 B..%d B starting at addresses 0..15 mod 16, header/payload decoded at odd addresses", n, sizes[len(sizes)-1])
	})

	leg("eof", 0, func() {
		n := 0
		for k := []int{100, 400, 400}[level]; k > 0; k-- {
			v := 1 + R.Intn(2)
			key := pickS(R, "", toyKey)
			c := &Case{Split: R.Bool(), Ck: fmt.Sprintf("e:%d", R.Pick(1, 2, 7, 13, 14, 20, 64, 4096, 1<<20))}
			for m := R.Pick(1, 2, 3, 5); m > 0; m-- {
				c.Pkts = append(c.Pkts, randPkt(R, v, key))
			}
			one(c)
			n++
		}
		r.CountN("leg:eof", n)
		r.Note("leg eof: %d multi-frame streams whose final read returns its bytes together with io.EOF", n)
	})

	leg("period", 0, func() {
		total := 0
		cfgs := []struct {
			v   int
			key string
		}{{2, toyKey}, {1, ""}}
		wins := []int{1<<16 - 2, 1 << 16}
		if level >= 1 {
			wins = []int{1<<16 - 2, 1<<16 - 1, 1 << 16, 1<<17 - 2, 1 << 17, 1<<18 - 2, 1 << 18}
		} else {
			cfgs = cfgs[:1]
		}
		if level >= 2 {
			wins = append(wins, 1<<20)
		}
		for _, cfg := range cfgs {
			h := &Hist{V: cfg.v, Thr: 0, Key: cfg.key, Seed: R.U64()}
			probe := func(i int) HStep {
				// two probe packets (one of them compressed); body of the same length as last time, then of another
				n := 40
				if i%2 == 1 {
					n = 40 + i
				}
				return HStep{Op: "pkts", Pkts: []hxcodec.Pkt{{V: cfg.v, Thr: 0, Key: cfg.key, Cmd: 71, Seq: 7, Typ: 1, Node: 8, Body: bodySpec(R, n, false)},
					{V: cfg.v, Thr: 0, Key: cfg.key, Cmd: 71, Seq: 7, Typ: 1, Node: 8, Body: bodySpec(R, defThreshold(cfg.v, 0)+100+n, true)}}}
			}
			h.Steps = append(h.Steps, probe(0))
			for i, w := range wins {
				h.Steps = append(h.Steps, HStep{Op: "run", N: w, Shape: "small"}, probe(i+1))
				total += w
			}
			one(&Case{Ck: "n:512", Hist: h})
		}
		r.CountN("leg:period", total)
		r.Note("leg period: %d packets on one codec instance per configuration, sequence numbers running through the 16-bit wrap; two probe packets re-sent after exactly %v other packets; every packet judged", total, wins)
	})

	leg("extremes", 1, func() {
		n := 0
		for _, cfg := range []struct {
			v     int
			key   string
			shape string
			k     int
		}{{2, "", "zeros:1048576", 64}, {1, toyKey, "zeros:1048576", 48}, {2, toyKey, "zeros:4194304", 20}, {2, "", "noise:1048576", 24}, {1, "", "noise:50000", 48}} {
			h := &Hist{V: cfg.v, Thr: 0, Key: cfg.key, Seed: R.U64()}
			h.Steps = append(h.Steps, HStep{Op: "run", N: cfg.k, Shape: cfg.shape}, HStep{Op: "run", N: 300, Shape: "small"})
			var after []hxcodec.Pkt
			for _, m := range []int{9000, 10, 20000, 0} {
				after = append(after, hxcodec.Pkt{V: cfg.v, Thr: 0, Key: cfg.key, Cmd: 68, Seq: uint16(len(after)), Node: 4, Body: "b:" + hxcodec.Join(hxcodec.SpecGen(m/3, 5), hxcodec.SpecRun(m-m/3, 0x41))})
			}
			h.Steps = append(h.Steps, HStep{Op: "pkts", Pkts: after})
			one(&Case{Ck: "n:4096", Hist: h})
			n += cfg.k
		}
		r.CountN("leg:extremes", n)
		r.Note("leg extremes: runs of 20-64 all-zero 1 MiB / 4 MiB bodies and of incompressible bodies above the threshold on one codec instance, then 300 small and 4 ordinary compressed packets, all judged")
	})

	leg("inflate", 1, func() {
		n := 0
		cfgs := []struct {
			v    int
			key  string
			size int
		}{{2, "", 32<<20 + 1}, {1, toyKey, 33 << 20}, {2, toyKey, 40<<20 + 7}, {2, "", 64<<20 + 1}, {2, "", 32 << 20}, {1, "", 48 << 20}}
		if level < 2 {
			cfgs = cfgs[:2]
		}
		for _, cfg := range cfgs {
			body := "b:" + hxcodec.Join(hxcodec.SpecGen(1000, 5), hxcodec.SpecRun(cfg.size-2000, byte(n)), hxcodec.SpecGen(1000, 6))
			h := &Hist{V: cfg.v, Thr: 0, Key: cfg.key, Seed: 1, Steps: []HStep{{Op: "pkts", Pkts: []hxcodec.Pkt{{V: cfg.v, Thr: 0, Key: cfg.key, Cmd: 69, Seq: uint16(n), Node: 4, Body: body}}}}}
			one(&Case{Ck: "all", Hist: h})
			debug.FreeOSMemory()
			n++
		}
		r.CountN("leg:inflate", n)
		r.Note("leg inflate: %d compressible bodies of 32 MiB + 1 .. %d bytes (a frame only after compression)", n, cfgs[len(cfgs)-1].size)
	})
}
