// legs4.go: fourth round of legs of hx_c01 (normal tiers; oracle only, no model lines).
//
//	fill      "the emitted frame has the documented layout" whatever the io.Writer is and whatever state it is in: WritePacket
//	          into a *bufio.Writer of 16 B .. 8 KiB that is NOT flushed between packets, with 0..255 references, the writer's
//	          Available() set to every value 0..64, to 14 / 20 +-2, to 20+4*refs +-2 and to the full size right before the
//	          packet (earlier unflushed frames / raw bytes of the caller fill it up), followed by a second unflushed packet;
//	          long unflushed batches of random packets; also bytes.Buffer, a recording writer, io.MultiWriter (of one and of
//	          two writers), a *bufio.Writer hidden behind a wrapper type, a bufio.Writer over a bufio.Writer, a conforming
//	          writer that forwards one byte at a time. The byte stream after the final Flush is cut by the counts WritePacket
//	          returned; every cut is judged by checkEncode (layout oracle), read by the independently written decoder
//	          (hxcodec.RefDecode) and by the real decoder (checkDecode); the bytes of the caller in between must be untouched.
//	bigzero   bodies of 256 MiB + 1 (thorough) and 512 MiB + 1 / 1 GiB + 1 (-search) bytes, mostly zeros with random islands, that
//	          are a frame of a few hundred KiB after compression: exact length and SHA-256 of the body after the round trip
//	          (skipped with a note when MemAvailable / GOMEMLIMIT leave less than 6x the body size).
package main

import (
	"bufio"
	"bytes"
	"crypto/sha256"
	"fmt"
	"io"
	"os"
	"runtime/debug"
	"strconv"
	"strings"
	"time"

	"verifharness/hxcodec"
	"verifharness/hxlib"

	fatchoy "qchen.fun/fatchoy"
	"qchen.fun/fatchoy/packet"
)

// Fill: see Case.Fill.
type Fill struct {
	Wr    string `json:"wr"`              // bufio:<size> | buffer | rec | multi1 | multi2:<size> | hidden:<size> | bufio2:<size> | dribble
	Avail []int  `json:"avail,omitempty"` // per packet: Available() of the bufio.Writer right before its WritePacket (-1 / absent: as the history left it)
}

type hiddenWriter struct{ w io.Writer } // a *bufio.Writer behind another dynamic type

func (h hiddenWriter) Write(p []byte) (int, error) { return h.w.Write(p) }

type dribbleWriter struct{ w io.Writer } // conforming: takes everything, forwards byte by byte

func (d dribbleWriter) Write(p []byte) (int, error) {
	for i := range p {
		if _, err := d.w.Write(p[i : i+1]); err != nil {
			return i, err
		}
	}
	return len(p), nil
}

const fillPad = 0xEE

// runFill: all packets of the case go through ONE writer, flushed only at the end.
func runFill(r *hxlib.Run, c *Case) {
	r.Case()
	newX(c)
	f := c.Fill
	rec := &bytes.Buffer{}
	var w io.Writer
	var bw *bufio.Writer      // the writer whose fill state is steered
	var flush []*bufio.Writer // flushed at the end, in order
	var second *bytes.Buffer  // multi2: the other sink
	size := 0
	if i := strings.IndexByte(f.Wr, ':'); i >= 0 {
		size, _ = strconv.Atoi(f.Wr[i+1:])
	}
	switch kind := strings.SplitN(f.Wr, ":", 2)[0]; kind {
	case "bufio":
		bw = bufio.NewWriterSize(rec, size)
		w, flush = bw, []*bufio.Writer{bw}
	case "hidden":
		bw = bufio.NewWriterSize(rec, size)
		w, flush = hiddenWriter{bw}, []*bufio.Writer{bw}
	case "bufio2":
		inner := bufio.NewWriterSize(rec, 64)
		bw = bufio.NewWriterSize(hiddenWriter{inner}, size) // (bufio.NewWriterSize returns its argument when that is a big enough *bufio.Writer)
		w, flush = bw, []*bufio.Writer{bw, inner}
	case "multi1":
		w = io.MultiWriter(rec)
	case "multi2":
		bw = bufio.NewWriterSize(rec, size)
		second = &bytes.Buffer{}
		w, flush = io.MultiWriter(bw, second), []*bufio.Writer{bw}
	case "dribble":
		w = dribbleWriter{rec}
	case "buffer":
		w = rec
	default:
		w = struct{ io.Writer }{rec}
	}
	type seg struct {
		pad int // raw bytes of the caller (pad > 0) or packet index
		pkt int
		n   int
		o   hxcodec.EncObs
	}
	var segs []seg
	cl := "v" + strconv.Itoa(c.Pkts[0].V)
	for i := range c.Pkts {
		d := &c.Pkts[i]
		if bw != nil && i < len(f.Avail) && f.Avail[i] >= 0 && f.Avail[i] <= size {
			if bw.Available() < f.Avail[i] {
				bw.Flush()
			}
			if pad := bw.Available() - f.Avail[i]; pad > 0 {
				bw.Write(bytes.Repeat([]byte{fillPad}, pad))
				if second != nil {
					second.Write(bytes.Repeat([]byte{fillPad}, pad))
				}
				segs = append(segs, seg{pad: pad})
			}
			if bw.Available() != f.Avail[i] {
				r.Note("fill: could not set Available() to %d (is %d)", f.Avail[i], bw.Available())
			}
		}
		if bw != nil {
			a, nref := bw.Available(), 0
			if d.V == 2 {
				nref = len(d.Refs)
			}
			hs := headerSize(d.V)
			rel := func(x, y int) string {
				switch {
				case x < y:
					return "<"
				case x == y:
					return "="
				}
				return ">"
			}
			r.Count(fmt.Sprintf("fill:available%sheader,%sheader+refs", rel(a, hs), rel(a, hs+4*nref)))
		}
		cr := cryptOf(c, d)
		var o hxcodec.EncObs
		p := d.Build()
		enc := hxcodec.Encoder(d.V, d.Thr)
		o.Panic = hxlib.Guard(func() { o.N, o.Err = enc.WritePacket(w, cr.enc, p) })
		o.After = p
		segs = append(segs, seg{pkt: i, o: o})
	}
	for _, b := range flush {
		if err := b.Flush(); err != nil {
			fail(r, "fill:flush-error:"+cl, fmt.Sprintf("Flush of the %s after %d packets: %v", f.Wr, len(c.Pkts), err), c)
			return
		}
	}
	stream := rec.Bytes()
	if second != nil && !bytes.Equal(second.Bytes(), stream) {
		fail(r, "fill:multiwriter-sinks-differ:"+cl, fmt.Sprintf("the two sinks of the io.MultiWriter received different bytes (%s / %s)", hxcodec.Digest(stream), hxcodec.Digest(second.Bytes())), c)
	}
	pos := 0
	ctx := fmt.Sprintf("writer %s, flushed only after the last of %d packets: ", f.Wr, len(c.Pkts))
	defer func() { failCtx = "" }()
	for _, s := range segs {
		if s.pad > 0 {
			if pos+s.pad > len(stream) || !bytes.Equal(stream[pos:pos+s.pad], bytes.Repeat([]byte{fillPad}, s.pad)) {
				failCtx = ctx
				fail(r, "fill:callers-bytes-changed:"+cl, fmt.Sprintf("%d bytes the caller had written to the writer before the packet (offset %d) did not reach the stream unchanged", s.pad, pos), c)
				return
			}
			pos += s.pad
			continue
		}
		d := &c.Pkts[s.pkt]
		avail := ""
		if s.pkt < len(f.Avail) && f.Avail[s.pkt] >= 0 {
			avail = fmt.Sprintf(" (Available() = %d before the call)", f.Avail[s.pkt])
		}
		failCtx = ctx + fmt.Sprintf("packet %d with %d reference(s)%s: ", s.pkt, len(d.Refs), avail)
		o := s.o
		before := nFails
		if o.Panic == "" && o.Err == nil {
			if o.N < 0 || pos+o.N > len(stream) {
				fail(r, "fill:count-beyond-stream:"+cl, fmt.Sprintf("WritePacket returned %d, nil; only %d bytes follow offset %d of the flushed stream", o.N, len(stream)-pos, pos), c)
				return
			}
			o.Writes = [][]byte{stream[pos : pos+o.N]}
		}
		cr := cryptOf(c, d)
		frame, ok := checkEncode(r, c, d, &o, cr)
		if nFails > before {
			return
		}
		if !ok {
			continue // refused within the rules (limits): nothing was to be emitted
		}
		pos += len(frame)
		// the independently written decoder of the documented layout
		if d.Flag&3 == 0 {
			nref := 0
			if d.V == 2 {
				nref = len(d.Refs)
			}
			x, err := hxcodec.RefDecode(d.V, frame)
			switch {
			case err != nil:
				fail(r, "cross:emitted-frame-refused:"+cl, fmt.Sprintf("a decoder written from the protocol description refuses the bytes (%s): %v", hxcodec.Digest(frame), err), c)
			case x.Typ != d.Typ || x.Seq != d.Seq || x.Cmd != uint32(d.Cmd) || (d.V == 2 && (x.Node != d.Node || int(x.Cnt) != nref)):
				fail(r, "cross:emitted-frame-fields:"+cl, fmt.Sprintf("a decoder written from the protocol description reads other header fields from the bytes (%s)", hxcodec.Digest(frame)), c)
			default:
				for i := 0; i < nref; i++ {
					if x.Refs[i] != d.Refs[i] {
						fail(r, "cross:emitted-frame-refs:"+cl, fmt.Sprintf("a decoder written from the protocol description reads reference %d as %d, sent %d", i, x.Refs[i], d.Refs[i]), c)
						break
					}
				}
			}
			if nFails > before {
				return
			}
		}
		// the real decoder
		rd := hxcodec.NewReader(frame, c.Ck)
		do := hxcodec.DecodeWith(hxcodec.Encoder(d.V, 0), cryptOf(c, d).dec, rd, c.Split, 0)
		checkDecode(r, c, d, &do, len(frame))
		if nFails > before {
			return
		}
		if wf := frame[map[int]int{1: 3, 2: 4}[d.V]]; len(d.Refs) > 0 || wf&3 != 0 {
			r.NonTrivial(fmt.Sprintf("fill/%s/%d/%d/%d", f.Wr, s.pkt, len(d.Refs), len(frame)))
		}
	}
	failCtx = ctx
	if pos != len(stream) {
		fail(r, "fill:extra-bytes:"+cl, fmt.Sprintf("the flushed stream has %d bytes, the packets and the caller's own bytes account for %d", len(stream), pos), c)
	}
}

func fillPkt(R *hxlib.Rand, v int, key string, nref, bodyLen int, seq uint16) hxcodec.Pkt {
	d := hxcodec.Pkt{V: v, Key: key, Thr: R.Pick(0, 0, 64, huge), Cmd: int32(pick32(R)), Seq: seq, Typ: uint8(R.Pick(0, 1, 2, 255)), Flag: uint8(R.Intn(64)) << 2 &^ 0x10, Node: pick32(R)}
	for k := 0; k < nref; k++ {
		d.Refs = append(d.Refs, pick32(R))
	}
	d.Body = bodySpec(R, bodyLen, R.Bool())
	return d
}

func legs4(r *hxlib.Run) {
	level := 0 // 0 quick, 1 thorough, 2 -search
	if r.Thorough() {
		level = 1
	}
	if r.Search {
		level = 2
	}
	R := hxlib.NewRand(r.Seed ^ 0x4f111c01)
	stop := func() bool { return nFails > 0 }
	leg := func(name string, min int, f func()) {
		if level < min || stop() {
			return
		}
		t0 := time.Now()
		f()
		r.Note("leg %s: %.1fs", name, time.Since(t0).Seconds())
	}

	leg("fill", 0, func() {
		n := 0
		sizes := []int{16, 20, 21, 24, 32, 48, 64, 100, 128, 256, 512, 1024, 1100, 4096, 8192}
		nrefs := []int{0, 1, 2, 3, 4, 5, 8, 11, 16, 63, 64, 128, 254, 255}
		for _, v := range []int{2, 1} {
			for si, size := range sizes {
				for ni, nref := range nrefs {
					if v == 1 && ni > 1 { // V1 frames carry no references: the header relation only (with and without a list the codec ignores)
						break
					}
					hs := headerSize(v)
					targets := map[int]bool{size: true, size - 1: true}
					lim := 64
					if level == 0 && (si+ni)%3 != 0 {
						lim = -1 // quick: the dense sweep 0..64 for a third of the (size, refs) pairs, the boundary values for all
					}
					for a := 0; a <= lim; a++ {
						targets[a] = true
					}
					for _, b := range []int{0, 1, hs, hs + 4*nref, hs + 4*nref + 40} {
						for dl := -2; dl <= 2; dl++ {
							targets[b+dl] = true
						}
					}
					for a := 0; a <= size; a++ {
						if !targets[a] || stop() {
							continue
						}
						key := []string{"", toyKey}[(n/3)%2]
						p0 := fillPkt(R, v, key, nref, R.Pick(0, 1, 7, R.Intn(40), R.Intn(300)), uint16(n))
						p1 := fillPkt(R, v, key, R.Pick(0, 1, 2, nref), R.Pick(0, 3, R.Intn(40), R.Intn(200)), uint16(n+1))
						c := &Case{Pkts: []hxcodec.Pkt{p0, p1}, Ck: "all", Split: n%2 == 0, Fill: &Fill{Wr: fmt.Sprintf("bufio:%d", size), Avail: []int{a, -1}}}
						if n%7 == 0 {
							c.Fill.Avail = []int{a, R.Intn(size + 1)}
						}
						runFill(r, c)
						n++
					}
				}
			}
		}
		r.CountN("leg:fill-sweep", n)
		// unflushed batches through every writer kind
		m := 0
		kinds := []string{"buffer", "rec", "multi1", "dribble"}
		for _, s := range sizes {
			kinds = append(kinds, fmt.Sprintf("bufio:%d", s))
		}
		for _, s := range []int{16, 64, 256, 4096} {
			kinds = append(kinds, fmt.Sprintf("hidden:%d", s), fmt.Sprintf("multi2:%d", s), fmt.Sprintf("bufio2:%d", s))
		}
		rounds := []int{1, 4, 8}[level]
		ciphers := []string{"", "", "aes-128", "salsa20", "3des"}
		for round := 0; round < rounds; round++ {
			for _, v := range []int{1, 2} {
				for ki, kind := range kinds {
					if stop() {
						return
					}
					ci := ciphers[(ki+round)%len(ciphers)]
					key := []string{"", toyKey}[(ki+round/2)%2]
					if ci != "" {
						key = ""
					}
					pk := streamPkts(R, v, key, []int{huge, 0, 64, 300}[(ki+round)%4], 40+R.Intn(40))
					for i := range pk {
						pk[i].Flag &^= 0x10 // byte bodies
						if strings.HasPrefix(pk[i].Body, "i:") {
							pk[i].Body = bodySpec(R, R.Intn(60), false)
						}
						if v == 2 && i%5 == 0 {
							pk[i].Refs = nil
							for k := R.Pick(1, 2, 3, 9, 30, 100, 255); k > 0; k-- {
								pk[i].Refs = append(pk[i].Refs, pick32(R))
							}
						}
					}
					c := &Case{Pkts: pk, Ck: pickS(R, "all", "n:7", "n:1000"), Split: m%2 == 0, Cipher: ci, Fill: &Fill{Wr: kind}}
					runFill(r, c)
					m++
				}
			}
		}
		r.CountN("leg:fill-batches", m)
		r.Note("leg fill: %d two-packet cases with the bufio.Writer's Available() steered to 0..64 / header +-2 / header+4*refs +-2 / size before the first packet (sizes 16 B..8 KiB, 0..255 references), %d unflushed batches of 40-80 packets through bufio.Writer / bytes.Buffer / io.MultiWriter / wrapped and stacked bufio writers / a byte-by-byte forwarder", n, m)
	})

	leg("bigzero", 1, func() {
		sizes := []int64{256<<20 + 1}
		if level == 2 {
			sizes = append(sizes, 512<<20+1, 1<<30+1)
		}
		for i, sz := range sizes {
			if stop() {
				return
			}
			if strconv.IntSize == 32 || !memoryFor(6*sz) {
				r.Note("leg bigzero: body of %d bytes skipped (needs about %d MiB of memory: MemAvailable / GOMEMLIMIT / address space say no)", sz, 6*sz>>20)
				r.Count("bigzero:skipped-for-memory")
				continue
			}
			runBig(r, &Case{Big: &Big{Size: sz, Seed: uint32(r.Seed) + uint32(i), V: 2, Key: []string{"", toyKey}[i%2]}})
			debug.FreeOSMemory()
		}
	})
}

// Big: see Case.Big.
type Big struct {
	Size int64  `json:"size"`
	Seed uint32 `json:"seed"`
	V    int    `json:"v"`
	Key  string `json:"key,omitempty"`
}

// memoryFor: are `need` bytes there (MemAvailable of the machine, GOMEMLIMIT of the process)?
func memoryFor(need int64) bool {
	if lim := debug.SetMemoryLimit(-1); lim > 0 && lim < need {
		return false
	}
	b, err := os.ReadFile("/proc/meminfo")
	if err != nil {
		return true
	}
	for _, line := range strings.Split(string(b), "\n") {
		if f := strings.Fields(line); len(f) >= 2 && f[0] == "MemAvailable:" {
			kb, _ := strconv.ParseInt(f[1], 10, 64)
			return kb*1024 > need+(1<<30)
		}
	}
	return true
}

// bigBody: zeros with random islands every 4 MiB, a random head and tail (different for every seed).
func bigBody(size int64, seed uint32) []byte {
	b := make([]byte, size)
	copy(b, hxcodec.Gen(1000, seed))
	copy(b[size-1000:], hxcodec.Gen(1000, seed+1))
	for off, k := int64(1<<20), uint32(2); off+64 < size; off, k = off+4<<20+int64(k)*13, k+1 {
		copy(b[off:], hxcodec.Gen(48, seed+k))
	}
	b[size-1] |= 1 // the very last byte is not zero
	return b
}

func runBig(r *hxlib.Run, c *Case) {
	r.Case()
	g := c.Big
	cl := "v" + strconv.Itoa(g.V)
	tag := fmt.Sprintf("body of %d bytes (zeros with random islands, seed %d): ", g.Size, g.Seed)
	defer func() { failCtx = "" }()
	failCtx = tag
	body := bigBody(g.Size, g.Seed)
	want := sha256.Sum256(body)
	p := packet.Make()
	p.SetCommand(77)
	p.SetSeq(9)
	p.SetType(fatchoy.PacketType(1))
	p.SetNode(fatchoy.NodeID(5))
	p.SetBody(body)
	body = nil
	var frame bytes.Buffer
	var n int
	var err error
	if pn := hxlib.Guard(func() { n, err = hxcodec.Encoder(g.V, 0).WritePacket(&frame, hxcodec.Cryptor(g.Key), p) }); pn != "" {
		fail(r, "encode:panic:"+cl, "WritePacket panics: "+pn, c)
		return
	}
	if frame.Len() > maxFrame(g.V) || err != nil {
		// the compressed body does not fit this format: refusing is right
		if err == nil {
			fail(r, "limit:no-error:"+cl, fmt.Sprintf("a frame of %d bytes was emitted, the limit is %d", frame.Len(), maxFrame(g.V)), c)
		} else {
			r.Count("bigzero:refused-over-limit")
		}
		return
	}
	if n != frame.Len() {
		fail(r, "encode:return-count:"+cl, fmt.Sprintf("WritePacket returned %d after writing %d bytes", n, frame.Len()), c)
	}
	p = nil
	debug.FreeOSMemory()
	x, rerr := hxcodec.RefDecode(g.V, frame.Bytes())
	if rerr != nil {
		fail(r, "cross:emitted-frame-refused:"+cl, fmt.Sprintf("a decoder written from the protocol description refuses the frame of %d bytes: %v", frame.Len(), rerr), c)
		return
	}
	if x.Flag&1 == 0 {
		fail(r, "layout:flag-byte:"+cl, "the body is far above the threshold and the frame does not carry the compression bit", c)
		return
	}
	r.Count("bigzero:frames")
	r.CountN("bigzero:frame-bytes", frame.Len())
	q := packet.Make()
	var derr error
	if pn := hxlib.Guard(func() {
		derr = hxcodec.Encoder(g.V, 0).ReadPacket(bytes.NewReader(frame.Bytes()), hxcodec.Cryptor(g.Key), q)
	}); pn != "" {
		fail(r, "roundtrip:panic:"+cl, "decoding an encoder-produced frame panics: "+pn, c)
		return
	}
	if derr != nil {
		fail(r, "roundtrip:decode-error:"+cl, fmt.Sprintf("frame of %d bytes produced by WritePacket is refused: %v", frame.Len(), derr), c)
		return
	}
	got, isBytes := q.Body().([]byte)
	if !isBytes {
		fail(r, "roundtrip:body:"+cl, fmt.Sprintf("body came back as %T", q.Body()), c)
		return
	}
	if int64(len(got)) != g.Size {
		fail(r, "roundtrip:body:"+cl, fmt.Sprintf("the body came back with %d bytes (frame of %d bytes, no error)", len(got), frame.Len()), c)
		return
	}
	if sha256.Sum256(got) != want {
		fail(r, "roundtrip:body:"+cl, fmt.Sprintf("the body came back with the right length and other content (SHA-256 %x, sent %x)", sha256.Sum256(got), want), c)
		return
	}
	if q.Command() != 77 || q.Seq() != 9 {
		fail(r, "roundtrip:fields:"+cl, fmt.Sprintf("cmd/seq 77/9 came back as %d/%d", q.Command(), q.Seq()), c)
	}
	r.NonTrivial(fmt.Sprintf("bigzero/%d/%d", g.Size, g.Seed))
	r.Note("leg bigzero: body of %d bytes travelled as a frame of %d bytes and came back with the same length and SHA-256", g.Size, frame.Len())
}
