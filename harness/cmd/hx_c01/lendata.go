// The length-prefixed pair WriteLenData / ReadLenData (codec/codec.go) and the model's two CRC-32
// implementations, as cases of hx_c01.
//
// A length-prefixed case is a list of payloads: each goes through the REAL WriteLenData (op `wld`),
// the accepted records are concatenated and re-read through a chunking reader by the REAL
// ReadLenData (ops `stream`, `ld`).  Oracle (from the comment "2-byte length in front of the data",
// independent of the model): a payload whose record fits the 16-bit prefix (payload <= 65532 bytes:
// the writer keeps the prefix below 65535) is written as big-endian(len+2) followed by the payload
// and read back identically with the reader exactly behind it; a larger one is refused without a
// byte.  The writer's return value is compared with the model only (the source returns n+4 after
// writing n+2 bytes; the property's "reports the bytes written" is about the two wire formats).
package main

import (
	"bytes"
	"encoding/binary"
	"fmt"
	"hash/crc32"
	"io"

	"verifharness/hxcodec"
	"verifharness/hxlib"
)

func runLd(r *hxlib.Run, c *Case) {
	r.Case()
	var stream []byte
	var specs []string
	var sent [][]byte
	var ends []int
	for _, spec := range c.Ld {
		data := hxcodec.Expand(spec)
		o := hxcodec.WriteLen(data)
		r.Op(hxcodec.WldLine(spec, &o))
		written := []byte{}
		for _, w := range o.Writes {
			written = append(written, w...)
		}
		if o.Panic != "" {
			fail(r, "lendata:panic", fmt.Sprintf("WriteLenData panics on %d bytes: %s", len(data), o.Panic), c)
			continue
		}
		if len(data)+2 >= 65535 { // the record would not fit below the field maximum
			r.Count("lendata:refused")
			if o.Err == nil {
				fail(r, "lendata:limit:no-error", fmt.Sprintf("a payload of %d bytes does not fit a 16-bit length but WriteLenData returned %d, nil", len(data), o.N), c)
			}
			if len(written) > 0 {
				fail(r, "lendata:limit:bytes-emitted", fmt.Sprintf("WriteLenData refused %d bytes (%v) after writing %d bytes", len(data), o.Err, len(written)), c)
			}
			continue
		}
		if o.Err != nil {
			fail(r, "lendata:error-within-limits", fmt.Sprintf("a payload of %d bytes fits but WriteLenData returned %v", len(data), o.Err), c)
			continue
		}
		want := make([]byte, 2, 2+len(data))
		binary.BigEndian.PutUint16(want, uint16(len(data)+2))
		want = append(want, data...)
		if !bytes.Equal(written, want) {
			fail(r, "lendata:layout", fmt.Sprintf("WriteLenData wrote %s for a payload of %d bytes, expected the big-endian length %d and the payload", hxcodec.Digest(written), len(data), len(data)+2), c)
			continue
		}
		r.Count(fmt.Sprintf("lendata:ret=n%+d", o.N-len(data)))
		if len(data) > 0 {
			r.NonTrivial("ld/" + hxcodec.Key(data))
		}
		stream = append(stream, written...)
		specs = append(specs, hxcodec.Join(hxcodec.SpecHex(written[:2]), spec))
		sent = append(sent, data)
		ends = append(ends, len(stream))
	}
	if len(sent) == 0 {
		return
	}
	rd := hxcodec.NewReader(stream, c.Ck)
	r.Op(hxcodec.StreamLine(hxcodec.Join(specs...), c.Ck, len(stream)))
	for i, data := range sent {
		o := hxcodec.ReadLen(rd)
		r.Op(hxcodec.LdLine(rd, &o))
		switch {
		case o.Panic != "":
			fail(r, "lendata:panic", "ReadLenData panics on a record WriteLenData produced: "+o.Panic, c)
			return
		case o.Err != nil:
			fail(r, "lendata:roundtrip:error", fmt.Sprintf("record %d (%d payload bytes) produced by WriteLenData is refused: %v", i, len(data), o.Err), c)
			return
		case !bytes.Equal(o.Data, data):
			fail(r, "lendata:roundtrip:data", fmt.Sprintf("payload %s came back as %s", hxcodec.Digest(data), hxcodec.Digest(o.Data)), c)
		}
		if o.Pos != ends[i] {
			fail(r, "lendata:position", fmt.Sprintf("reader at %d after record %d, the writer produced bytes up to %d", o.Pos, i, ends[i]), c)
		}
	}
	o := hxcodec.ReadLen(rd)
	r.Op(hxcodec.LdLine(rd, &o))
	if o.Err != io.EOF || o.Pos != len(stream) {
		fail(r, "lendata:end", fmt.Sprintf("after the last record the reader answers %v at %d (stream has %d bytes)", o.Err, o.Pos, len(stream)), c)
	}
}

// runCrc compares both CRC-32 implementations of the model (table-driven, bitwise) with hash/crc32.
func runCrc(r *hxlib.Run, c *Case) {
	r.Case()
	sum := fmt.Sprintf("%08x", crc32.ChecksumIEEE(hxcodec.Expand(c.Crc)))
	r.Op("crc data="+c.Crc, sum)
	r.Op("crcbit data="+c.Crc, sum)
	r.Count("crc-direct")
}

func ldSpec(R *hxlib.Rand, n int) string {
	switch {
	case n == 0:
		return "-"
	case n <= 48:
		return hxcodec.SpecHex(R.Bytes(n))
	case R.Bool():
		return hxcodec.SpecRun(n, byte(R.Intn(256)))
	}
	return hxcodec.SpecGen(n, uint32(R.U64()>>40))
}

func generateLd(r *hxlib.Run, R *hxlib.Rand) {
	cks := []string{"all", "n:1", "n:2", "n:3", "n:4096", "l:0,1,1,0,2"}
	// every boundary of the 16-bit prefix, alone and followed by another record
	for _, n := range []int{0, 1, 2, 3, 253, 254, 255, 256, 257, 65530, 65531, 65532, 65533, 65534, 65535, 65536, 70000} {
		ck := cks[R.Intn(len(cks))]
		if n > 6000 && ck == "n:1" {
			ck = "n:7"
		}
		runLd(r, &Case{Ld: []string{ldSpec(R, n)}, Ck: ck})
		runLd(r, &Case{Ld: []string{ldSpec(R, n), ldSpec(R, R.Intn(40))}, Ck: "n:1000"})
	}
	if r.Thorough() { // every payload length the prefix can express, and the first ones it cannot
		for n := 0; n <= 65540; n++ {
			runLd(r, &Case{Ld: []string{hxcodec.SpecGen(n, uint32(n))}, Ck: "all"})
		}
	}
	for k := r.Scale(60, 3000); k > 0; k-- {
		c := &Case{Ck: cks[R.Intn(len(cks))]}
		for m := R.Pick(1, 2, 3, 5); m > 0; m-- {
			c.Ld = append(c.Ld, ldSpec(R, R.Pick(0, 1, 2, R.Intn(20), R.Intn(300), R.Intn(3000))))
		}
		runLd(r, c)
	}
	// the model's CRC-32, both forms, against hash/crc32 directly (beyond the frames' checksums)
	for _, n := range []int{0, 1, 2, 3, 4, 7, 8, 9, 255, 256, 257, 1000, 65536} {
		runCrc(r, &Case{Crc: ldSpec(R, n)})
	}
	for k := r.Scale(60, 2000); k > 0; k-- {
		runCrc(r, &Case{Crc: ldSpec(R, R.Pick(R.Intn(10), R.Intn(300), R.Intn(5000)))})
	}
}
