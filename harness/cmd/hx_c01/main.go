// hx_c01: correspondence harness + oracle for C01 (wire codecs round-trip and emit the documented layout).
//
// A case is a list of packets with one decoder configuration: every packet is encoded by the REAL
// WritePacket (op `enc`), the frames are concatenated into one stream that is re-read through a
// chunking reader by the REAL ReadPacket (ops `stream`, `rd`), and the oracle — a direct Go
// statement of the property written from the protocol comment, independent of the Lean model —
// judges bytes, return values, the packet afterwards, the decoded fields and the reader position.
package main

import (
	"bytes"
	"compress/zlib"
	"encoding/binary"
	"fmt"
	"hash/crc32"
	"io"
	"log"
	"os"
	"strings"

	"verifharness/hxcodec"
	"verifharness/hxlib"

	fatchoy "qchen.fun/fatchoy"
	"qchen.fun/fatchoy/x/cipher"
)

type Case struct {
	Pkts   []hxcodec.Pkt `json:"pkts"`
	Ck     string        `json:"ck"`               // chunking of the re-read stream
	Split  bool          `json:"split"`            // decode with ReadHeadBody+UnmarshalPacket instead of ReadPacket
	Cipher string        `json:"cipher,omitempty"` // a real cipher of x/cipher: Go-side only (no model lines)
	UOff   int           `json:"uoff,omitempty"`   // search legs (split decoding): header and payload reach UnmarshalPacket at addresses UOff mod 16
	Hist   *Hist         `json:"hist,omitempty"`   // search legs: a history on one codec instance (search.go); Pkts is unused then
	Ld     []string      `json:"ld,omitempty"`     // payload SPECs of a WriteLenData/ReadLenData stream (lendata.go); Pkts is unused then
	Crc    string        `json:"crc,omitempty"`    // a byte string for the direct CRC-32 comparison (lendata.go)
	Stream *Stream       `json:"stream,omitempty"` // legs2.go: the packets travel as ONE stream on one codec instance, read through the named reader, every decoded packet HELD and looked at again later
	Forged *Forged       `json:"forged,omitempty"` // legs2.go: the last four body bytes of Pkts[0] are solved for so that the frame's CRC-32 is the given value
	Fill   *Fill         `json:"fill,omitempty"`   // legs4.go: the packets are written to ONE writer of the named kind (fill state steered), flushed only at the end
	Big    *Big          `json:"big,omitempty"`    // legs4.go: a generated body of more than 256 MiB; Pkts is unused then
}

// failCtx is put in front of every failure text (the search legs name the step and packet of a history there);
// failKey in front of every failure key (legs2.go: "held:" when a packet is looked at again later).
var failCtx, failKey string
var nFails int // failures recorded so far

func fail(r *hxlib.Run, key, what string, c interface{}) {
	nFails++
	r.Fail(failKey+key, failCtx+what, c)
}

// the protocol description (v1_header.go, v2_header.go comments), restated for the oracle
func headerSize(v int) int {
	if v == 1 {
		return 14
	}
	return 20
}
func maxFrame(v int) int {
	if v == 1 {
		return 60 * 1024
	}
	return 8 * 1024 * 1024
}
func defThreshold(v, thr int) int {
	if thr > 0 {
		return thr
	}
	if v == 1 {
		return 4096
	}
	return 8192
}

func zlibLen(b []byte) int {
	var buf bytes.Buffer
	w := zlib.NewWriter(&buf)
	w.Write(b)
	w.Close()
	return buf.Len()
}

func unzlib(b []byte) ([]byte, error) {
	zr, err := zlib.NewReader(bytes.NewReader(b))
	if err != nil {
		return nil, err
	}
	return io.ReadAll(zr)
}

type crypt struct {
	enc, dec cipher.BlockCryptor
	ora      cipher.BlockCryptor // the oracle's own instance for undoing the encryption of an emitted frame (nil: dec; stateful custom cryptors need a third one)
	over     int                 // bytes Encrypt adds to a body (custom cryptors with a tag / nonce)
}

func (cr crypt) oracle() cipher.BlockCryptor {
	if cr.ora != nil {
		return cr.ora
	}
	return cr.dec
}

// curX: the custom cryptor instances (legs2.go, Cipher "x:…") of the case being run: made once per case,
// because some of them are stateful.
var curX *crypt

func cryptOf(c *Case, d *hxcodec.Pkt) crypt {
	if strings.HasPrefix(c.Cipher, "x:") {
		return *curX
	}
	if c.Cipher != "" {
		key := hxcodec.Gen(32, 77)
		iv := hxcodec.Gen(32, 78)
		return crypt{enc: cipher.NewCrypt(c.Cipher, append([]byte{}, key...), append([]byte{}, iv...)),
			dec: cipher.NewCrypt(c.Cipher, append([]byte{}, key...), append([]byte{}, iv...))}
	}
	if d.Key == "" {
		return crypt{}
	}
	return crypt{enc: hxcodec.Cryptor(d.Key), dec: hxcodec.Cryptor(d.Key)}
}

func class(d *hxcodec.Pkt) string { return fmt.Sprintf("v%d", d.V) }

// checkEncode judges one WritePacket call. It returns the frame if the packet was within the limits and encoded.
func checkEncode(r *hxlib.Run, c *Case, d *hxcodec.Pkt, o *hxcodec.EncObs, cr crypt) ([]byte, bool) {
	body, has := d.BodyBytes()
	if !has {
		if strings.Contains(o.Panic, "cannot convert") {
			// a body-less packet cannot be encoded at all: defect D8 of BodyToBytes, judged under C07
			r.Count("nil-body:BodyToBytes-panics(C07)")
			return nil, false
		}
		body = []byte{}
	}
	cl := class(d)
	if o.Panic != "" {
		fail(r, "encode:panic:"+cl, fmt.Sprintf("WritePacket panics: %s", o.Panic), c)
		return nil, false
	}
	written := []byte{}
	for _, w := range o.Writes {
		written = append(written, w...)
	}
	a := o.After
	sameRefs := len(a.Refers()) == len(d.Refs)
	for i := 0; sameRefs && i < len(d.Refs); i++ {
		sameRefs = uint32(a.Refers()[i]) == d.Refs[i]
	}
	if a.Command() != d.Cmd || a.Seq() != d.Seq || uint8(a.Type()) != d.Typ || uint32(a.Node()) != d.Node || !sameRefs {
		fail(r, "encode:packet-modified:"+cl, fmt.Sprintf("WritePacket changed the caller's packet: cmd %d->%d seq %d->%d typ %d->%d node %d->%d refs same=%v",
			d.Cmd, a.Command(), d.Seq, a.Seq(), d.Typ, uint8(a.Type()), d.Node, uint32(a.Node()), sameRefs), c)
	}
	if extra := (uint8(a.Flag()) ^ d.Flag) &^ 0x03; extra != 0 || uint8(a.Flag())&d.Flag != d.Flag {
		fail(r, "encode:flag-bits:"+cl, fmt.Sprintf("flag %#x became %#x: more than the compression/encryption bits changed", d.Flag, uint8(a.Flag())), c)
	}
	// what the limits say, computed without the codec
	thr := defThreshold(d.V, d.Thr)
	wireLen, wantBits := len(body), uint8(0)
	if len(body) > thr {
		wireLen, wantBits = zlibLen(body), 1
	}
	if wireLen > 0 && cr.enc != nil {
		wantBits |= 2
		wireLen += cr.over
	}
	nref := 0
	if d.V == 2 {
		nref = len(d.Refs)
	}
	hs := headerSize(d.V)
	n := hs + 4*nref + wireLen
	if (d.V == 2 && len(d.Refs) > 255) || n > maxFrame(d.V) {
		r.Count("limit-exceeded:" + cl)
		if o.Err == nil {
			fail(r, "limit:no-error:"+cl, fmt.Sprintf("frame of %d bytes / %d references exceeds the limit but WritePacket returned n=%d, nil", n, len(d.Refs), o.N), c)
		}
		if len(written) > 0 {
			fail(r, "limit:bytes-emitted:"+cl, fmt.Sprintf("WritePacket refused the packet (%v) after writing %d bytes", o.Err, len(written)), c)
		}
		return nil, false
	}
	if o.Err != nil {
		fail(r, "encode:error-within-limits:"+cl, fmt.Sprintf("frame of %d bytes is within the limits but WritePacket returned %v", n, o.Err), c)
		return nil, false
	}
	if o.N != len(written) {
		fail(r, "encode:return-count:"+cl, fmt.Sprintf("WritePacket returned %d after writing %d bytes", o.N, len(written)), c)
	}
	// the documented layout, field by field
	bad := func(kind, what string) {
		fail(r, "layout:"+kind+":"+cl, fmt.Sprintf("frame %s: %s", hxcodec.Digest(written), what), c)
	}
	if len(written) != n {
		bad("frame-length", fmt.Sprintf("length %d, expected %d", len(written), n))
		return nil, false
	}
	var lenField int
	var typ, flag, cnt uint8
	var seq uint16
	var cmd, node, crc uint32
	if d.V == 1 {
		lenField = int(binary.BigEndian.Uint16(written))
		typ, flag = written[2], written[3]
		seq = binary.BigEndian.Uint16(written[4:])
		cmd = binary.BigEndian.Uint32(written[6:])
		crc = binary.BigEndian.Uint32(written[10:])
	} else {
		lenField = int(written[0])<<16 | int(written[1])<<8 | int(written[2])
		typ, flag, cnt = written[3], written[4], written[5]
		seq = binary.BigEndian.Uint16(written[6:])
		node = binary.BigEndian.Uint32(written[8:])
		cmd = binary.BigEndian.Uint32(written[12:])
		crc = binary.BigEndian.Uint32(written[16:])
	}
	if lenField != n {
		bad("length-field", fmt.Sprintf("length field %d, frame has %d bytes", lenField, n))
	}
	if typ != d.Typ || seq != d.Seq || cmd != uint32(d.Cmd) || (d.V == 2 && (node != d.Node || int(cnt) != nref)) {
		bad("header-fields", "type/seq/cmd/node/#ref field differs from the packet")
	}
	if flag != d.Flag|wantBits {
		bad("flag-byte", fmt.Sprintf("flag byte %#x, expected %#x (caller bits %#x, codec bits %#x)", flag, d.Flag|wantBits, d.Flag, wantBits))
	}
	sum := crc32.NewIEEE()
	sum.Write(written[:hs-4])
	sum.Write(written[hs:])
	if crc != sum.Sum32() {
		bad("checksum", fmt.Sprintf("checksum field %08x, CRC-32 of header+references+body is %08x", crc, sum.Sum32()))
	}
	for i := 0; i < nref; i++ {
		if binary.BigEndian.Uint32(written[hs+4*i:]) != d.Refs[i] {
			bad("references", fmt.Sprintf("reference %d differs", i))
			break
		}
	}
	wire := append([]byte{}, written[hs+4*nref:]...)
	if flag&2 != 0 && cr.oracle() != nil {
		wire = cr.oracle().Decrypt(wire)
	}
	if flag&1 != 0 && d.Flag&1 == 0 {
		if u, err := unzlib(wire); err != nil {
			bad("body-inflate", "body marked compressed does not inflate: "+err.Error())
		} else {
			wire = u
		}
	}
	if d.Flag&3 == 0 && !bytes.Equal(wire, body) {
		bad("body-bytes", "body bytes (after undoing encryption/compression) differ from the packet's body")
	}
	return written, true
}

// checkDecode judges one decoded frame against the packet it was encoded from.
func checkDecode(r *hxlib.Run, c *Case, d *hxcodec.Pkt, o *hxcodec.DecObs, wantPos int) {
	cl := class(d)
	if o.Panic != "" {
		fail(r, "roundtrip:panic:"+cl, "decoding an encoder-produced frame panics: "+o.Panic, c)
		return
	}
	if d.Flag&3 != 0 {
		return // the caller pre-set a codec bit: outside the property's packets
	}
	if o.Err != nil {
		fail(r, "roundtrip:decode-error:"+cl, fmt.Sprintf("frame produced by WritePacket is refused: %v", o.Err), c)
		return
	}
	if o.Pos != wantPos {
		fail(r, "roundtrip:position:"+cl, fmt.Sprintf("reader at %d after the frame, the encoder produced bytes up to %d", o.Pos, wantPos), c)
	}
	p := o.Pkt
	if p.Command() != d.Cmd || p.Seq() != d.Seq || uint8(p.Flag()) != d.Flag {
		fail(r, "roundtrip:fields:"+cl, fmt.Sprintf("cmd/seq/flag %d/%d/%#x came back as %d/%d/%#x", d.Cmd, d.Seq, d.Flag, p.Command(), p.Seq(), uint8(p.Flag())), c)
	}
	if d.V == 2 {
		same := uint8(p.Type()) == d.Typ && uint32(p.Node()) == d.Node && len(p.Refers()) == len(d.Refs)
		for i := 0; same && i < len(d.Refs); i++ {
			same = uint32(p.Refers()[i]) == d.Refs[i]
		}
		if !same {
			fail(r, "roundtrip:v2-fields:"+cl, fmt.Sprintf("type/node/references %d/%d/%v came back as %d/%d/%v", d.Typ, d.Node, d.Refs, uint8(p.Type()), uint32(p.Node()), p.Refers()), c)
		}
	}
	body, _ := d.BodyBytes()
	switch got := p.Body().(type) {
	case nil:
		if len(body) != 0 {
			fail(r, "roundtrip:body:"+cl, fmt.Sprintf("body of %d bytes came back absent", len(body)), c)
		}
	case []byte:
		if !bytes.Equal(got, body) || d.Flag&uint8(fatchoy.PFlagError) != 0 {
			fail(r, "roundtrip:body:"+cl, fmt.Sprintf("body %s came back as %s", hxcodec.Digest(body), hxcodec.Digest(got)), c)
		}
	case int64:
		want, _ := binary.Varint(body)
		if d.Flag&uint8(fatchoy.PFlagError) == 0 || got != want {
			fail(r, "roundtrip:body:"+cl, fmt.Sprintf("error-code body %s came back as %d (flag %#x)", hxcodec.Digest(body), got, d.Flag), c)
		}
	default:
		fail(r, "roundtrip:body:"+cl, fmt.Sprintf("body came back as %T", got), c)
	}
}

func nontrivialKey(d *hxcodec.Pkt, wireFlag uint8, n int) (string, bool) {
	body, _ := d.BodyBytes()
	if len(body) == 0 {
		return "", false
	}
	near := func(lim int) bool { return n >= lim-2 && n <= lim+2 }
	if wireFlag&3 != 0 || (d.V == 2 && len(d.Refs) > 0) || near(maxFrame(d.V)) {
		return fmt.Sprintf("%d/%d/%s/%d/%d/%d/%d/%d/%d/%s", d.V, d.Thr, d.Key, d.Cmd, d.Seq, d.Typ, d.Flag, d.Node, len(d.Refs), hxcodec.Key(body)), true
	}
	return "", false
}

// frameSpec writes a frame compactly when its body is a generated byte string sent as is.
func frameSpec(d *hxcodec.Pkt, frame []byte) string {
	if len(frame) > 4096 && d.Key == "" && strings.HasPrefix(d.Body, "b:") {
		hs := headerSize(d.V)
		if d.V == 2 {
			hs += 4 * len(d.Refs)
		}
		if body, _ := d.BodyBytes(); len(frame) == hs+len(body) && bytes.Equal(frame[hs:], body) {
			return hxcodec.Join(hxcodec.SpecHex(frame[:hs]), d.Body[2:])
		}
	}
	return hxcodec.SpecHex(frame)
}

func runCase(r *hxlib.Run, c *Case) {
	r.Case()
	newX(c)
	emit := c.Cipher == "" && c.UOff == 0 && !strings.HasPrefix(c.Ck, "e:") // what the model's line protocol can express
	for i := range c.Pkts {
		emit = emit && c.Pkts[i].Off == 0
	}
	var stream []byte
	var specs []string
	var ends []int
	var sent []*hxcodec.Pkt
	for i := range c.Pkts {
		d := &c.Pkts[i]
		cr := cryptOf(c, d)
		var o hxcodec.EncObs
		if emit {
			o = hxcodec.Encode(d)
			op, impl := hxcodec.EncLine(d, &o)
			r.Op(op, impl)
		} else {
			p := d.Build()
			w := &hxcodec.RecWriter{}
			o.Panic = hxlib.Guard(func() { o.N, o.Err = hxcodec.Encoder(d.V, d.Thr).WritePacket(w, cr.enc, p) })
			o.Writes, o.After = w.Writes, p
			r.Count("cipher:" + c.Cipher)
		}
		r.Count(fmt.Sprintf("enc:v%d", d.V))
		frame, ok := checkEncode(r, c, d, &o, cr)
		if o.Err != nil {
			r.Count("enc:" + hxcodec.ErrKind(o.Err))
		}
		if !ok {
			continue
		}
		wireFlag := frame[3]
		if d.V == 2 {
			wireFlag = frame[4]
		}
		if wireFlag&1 != 0 {
			r.Count("enc:compressed")
		}
		if wireFlag&2 != 0 {
			r.Count("enc:encrypted")
		}
		if k, nt := nontrivialKey(d, wireFlag, len(frame)); nt {
			r.NonTrivial(k)
		}
		rewrite(r, c, d, &o, cr, frame, emit)
		stream = append(stream, frame...)
		specs = append(specs, frameSpec(d, frame))
		ends = append(ends, len(stream))
		sent = append(sent, d)
	}
	if len(sent) == 0 {
		return
	}
	// re-read the concatenation through a chunking reader
	v, key := sent[0].V, sent[0].Key
	rd := hxcodec.NewReader(stream, c.Ck)
	if emit {
		r.Op(hxcodec.StreamLine(hxcodec.Join(specs...), c.Ck, len(stream)))
	}
	r.Count("stream:ck=" + strings.SplitN(c.Ck, ":", 2)[0])
	for i, d := range sent {
		before := rd.Pos
		var o hxcodec.DecObs
		if emit {
			o = hxcodec.Decode(rd, v, key, c.Split)
			r.Op(hxcodec.RdLine(rd, before, v, key, &o))
		} else {
			o = hxcodec.DecodeWith(hxcodec.Encoder(v, 0), cryptOf(c, d).dec, rd, c.Split, c.UOff)
		}
		checkDecode(r, c, d, &o, ends[i])
		if o.Err != nil || o.Panic != "" {
			return // the stream is desynchronised; already reported
		}
	}
	// nothing is left: the next read reports end of stream without consuming anything
	before := rd.Pos
	o := hxcodec.Decode(rd, v, key, c.Split)
	if emit {
		r.Op(hxcodec.RdLine(rd, before, v, key, &o))
	}
	if o.Err != io.EOF || o.Pos != len(stream) {
		fail(r, "stream:end:"+class(sent[0]), fmt.Sprintf("after the last frame the reader answers %v at %d (stream has %d bytes)", o.Err, o.Pos, len(stream)), c)
	}
}

// rewrite hands the packet object the encoder has just written to the encoder AGAIN (a broadcast loop encodes one
// object once per peer; a resend does the same): it carries the codec's wire bits now. The second frame must be the
// first one, byte for byte (theorem C01_rewrite_same about the model) — hence it decodes to the same packet. With an
// encryptor the check is limited to what the unchanged library supports: every supported cipher encrypts IN PLACE and
// BodyToBytes hands out the packet's own byte slice, so a byte body that went through a cipher uncompressed has been
// overwritten on the sender's side by the first call (recorded observation, not judged here).
func rewrite(r *hxlib.Run, c *Case, d *hxcodec.Pkt, o *hxcodec.EncObs, cr crypt, frame []byte, emit bool) {
	if o.After == nil || strings.HasPrefix(c.Cipher, "x:") {
		return
	}
	if len(frame) > 256<<10 && len(frame)%4 != 0 && !r.Thorough() {
		r.Count("rewrite:skipped-large")
		return // quick tier: one large frame in four
	}
	wireFlag := frame[3]
	if d.V == 2 {
		wireFlag = frame[4]
	}
	if cr.enc != nil && wireFlag&1 == 0 {
		r.Count("rewrite:skipped-in-place-cipher")
		return
	}
	if emit {
		// the model answers the same question: an encode whose flag argument already carries the codec bits
		d2 := *d
		d2.Flag = uint8(o.After.Flag())
		o2 := hxcodec.Encode(&d2)
		op, impl := hxcodec.EncLine(&d2, &o2)
		r.Op(op, impl)
	}
	cr2 := cryptOf(c, d) // a fresh cryptor pair, as the first call had
	w := &hxcodec.RecWriter{}
	var n int
	var err error
	pan := hxlib.Guard(func() { n, err = hxcodec.Encoder(d.V, d.Thr).WritePacket(w, cr2.enc, o.After) })
	var frame2 []byte
	for _, b := range w.Writes {
		frame2 = append(frame2, b...)
	}
	r.Count("rewrite:checked")
	switch {
	case pan != "":
		fail(r, "rewrite:panic:"+class(d), "encoding the same packet object a second time panics: "+pan, c)
	case err != nil:
		fail(r, "rewrite:error:"+class(d), fmt.Sprintf("encoding the same packet object a second time fails: %v", err), c)
	case n != len(frame) || !bytes.Equal(frame2, frame):
		k := 0
		for k < len(frame) && k < len(frame2) && frame[k] == frame2[k] {
			k++
		}
		fail(r, "rewrite:differs:"+class(d), fmt.Sprintf("the same packet object (wire flag %#x after the first call) encoded a second time gives a different frame: %d bytes then %d bytes, first difference at byte %d — the second frame does not carry the body the first one did", wireFlag, len(frame), len(frame2), k), c)
	}
}

// ---- generators --------------------------------------------------------------------------------

const toyKey = "a1b2c3d4e5"
const huge = 1 << 30

func bodySpec(r *hxlib.Rand, n int, compressible bool) string {
	if n == 0 {
		return "b:-"
	}
	if compressible {
		return "b:" + hxcodec.SpecRun(n, byte(r.Intn(256)))
	}
	if n <= 64 {
		return "b:" + hxcodec.SpecHex(r.Bytes(n))
	}
	return "b:" + hxcodec.SpecGen(n, uint32(r.U64()>>40))
}

func pickS(r *hxlib.Rand, vs ...string) string { return vs[r.Intn(len(vs))] }

func pick32(r *hxlib.Rand) uint32 {
	switch r.Intn(6) {
	case 0:
		return 0
	case 1:
		return 0xffffffff
	case 2:
		return 0x80000000
	case 3:
		return uint32(r.Intn(300))
	}
	return uint32(r.U64())
}

func randPkt(r *hxlib.Rand, v int, key string) hxcodec.Pkt {
	d := hxcodec.Pkt{V: v, Key: key}
	d.Thr = r.Pick(0, 0, 1, 2, 64, 300, huge, -5)
	d.Cmd = int32(pick32(r))
	d.Seq = uint16(pick32(r))
	d.Typ = uint8(r.Pick(0, 1, 2, 127, 128, 255, r.Intn(256)))
	d.Flag = uint8(r.Intn(64)) << 2 // the six caller bits
	d.Node = pick32(r)
	if v == 2 || r.Chance(1, 10) {
		for k := r.Pick(0, 0, 1, 2, 3, r.Intn(20)); k > 0; k-- {
			d.Refs = append(d.Refs, pick32(r))
		}
	}
	n := r.Pick(0, 1, 2, 3, r.Intn(40), r.Intn(40), r.Intn(300), r.Intn(300), r.Intn(2000), 4095, 4096, 4097, 8191, 8192, 8193, r.Intn(12000))
	if d.Flag&0x10 != 0 && r.Chance(2, 3) {
		d.Body = fmt.Sprintf("i:%d", int64(r.Pick(0, 1, -1, 63, 64, -64, -65, 300, 1<<31-1, -(1<<31), int(r.U64()), int(r.U64()>>uint(r.Intn(64))))))
		if r.Chance(1, 8) {
			d.Body = "i:-9223372036854775808"
		}
	} else {
		d.Body = bodySpec(r, n, r.Bool())
	}
	return d
}

func randCk(r *hxlib.Rand, total int) string {
	switch r.Intn(5) {
	case 0:
		return "all"
	case 1:
		if total <= 6000 {
			return "n:1"
		}
		return fmt.Sprintf("n:%d", 1+r.Intn(64))
	case 2:
		return fmt.Sprintf("n:%d", 1+r.Intn(40))
	}
	var sizes []string
	for left := total; left > 0 && len(sizes) < 400; {
		n := r.Pick(0, 1, 1, 2, 3, 13, 14, 15, 19, 20, 21, r.Intn(100), r.Intn(5000))
		sizes = append(sizes, fmt.Sprint(n))
		left -= n
	}
	return "l:" + strings.Join(sizes, ",")
}

func generate(r *hxlib.Run) {
	R := r.R.Fork() // seeds of hxlib.NewRand are shifted copies of one stream; Fork lands far away on it
	r.R = R
	one := func(d hxcodec.Pkt, ck string) {
		c := &Case{Pkts: []hxcodec.Pkt{d}, Ck: ck, Split: R.Bool()}
		runCase(r, c)
	}
	// A. thresholds x body lengths around them x compressibility x cipher x format
	for _, v := range []int{1, 2} {
		for _, key := range []string{"", toyKey} {
			for _, thr := range []int{1, 2, 64, 0, huge} {
				t := defThreshold(v, thr)
				lens := []int{0, 1, 2, t - 1, t, t + 1, t + 2, 3 * t}
				if thr == huge {
					lens = []int{0, 1, 5000, 20000}
				}
				for _, n := range lens {
					for _, comp := range []bool{false, true} {
						if n < 0 {
							continue
						}
						d := hxcodec.Pkt{V: v, Thr: thr, Key: key, Cmd: int32(1000 + n), Seq: uint16(n), Typ: uint8(v), Node: 0xdeadbeef, Body: bodySpec(R, n, comp)}
						if v == 2 && n%2 == 1 {
							d.Refs = []uint32{1, 0xffffffff}
						}
						one(d, pickS(R, "all", "n:7"))
					}
				}
			}
		}
	}
	// B. the V1 frame limit (60 KiB), without and with compression, without and with the cipher
	for _, key := range []string{"", toyKey} {
		lim := maxFrame(1) - headerSize(1)
		for _, n := range []int{lim - 1, lim, lim + 1, lim + 2, 65535, 65536 + 14, 70000} {
			one(hxcodec.Pkt{V: 1, Thr: huge, Key: key, Cmd: -1, Seq: 65535, Flag: 0x20, Body: bodySpec(R, n, false)}, "n:4096")
		}
		// fits only after compression / does not fit even after compression
		one(hxcodec.Pkt{V: 1, Thr: 0, Key: key, Cmd: 7, Seq: 1, Body: "b:" + hxcodec.SpecRun(300000, 7)}, "all")
		one(hxcodec.Pkt{V: 1, Thr: 0, Key: key, Cmd: 7, Seq: 2, Body: bodySpec(R, 70000, false)}, "all")
		one(hxcodec.Pkt{V: 1, Thr: 0, Key: key, Cmd: 7, Seq: 3, Body: "b:" + hxcodec.Join(hxcodec.SpecGen(50000, 9), hxcodec.SpecRun(100000, 0))}, "n:999")
	}
	// C. reference counts around the limit (V2), ignored by V1
	for _, k := range []int{0, 1, 2, 254, 255, 256, 300} {
		refs := make([]uint32, k)
		for i := range refs {
			refs[i] = pick32(R)
		}
		for _, n := range []int{0, 1, 100} {
			one(hxcodec.Pkt{V: 2, Thr: 0, Key: pickS(R, "", toyKey), Cmd: 5, Seq: 9, Typ: 2, Node: 1, Refs: refs, Body: bodySpec(R, n, false)}, "n:5")
		}
		one(hxcodec.Pkt{V: 1, Thr: 0, Cmd: 5, Seq: 9, Refs: refs, Body: bodySpec(R, 10, false)}, "all")
	}
	// D. every subset of the six caller flag bits; the error flag with integer and byte bodies; pre-set codec bits
	for _, v := range []int{1, 2} {
		for f := 0; f < 64; f++ {
			d := hxcodec.Pkt{V: v, Thr: 64, Key: pickS(R, "", toyKey), Cmd: int32(f), Seq: uint16(f), Flag: uint8(f << 2), Body: bodySpec(R, R.Pick(0, 5, 100), true)}
			if d.Flag&0x10 != 0 && f%2 == 0 {
				d.Body = fmt.Sprintf("i:%d", (f-40)*1000003)
			}
			one(d, "all")
		}
		for _, iv := range []string{"0", "1", "-1", "63", "64", "-64", "-65", "9223372036854775807", "-9223372036854775808", "2147483647", "-2147483648"} {
			one(hxcodec.Pkt{V: v, Thr: 0, Key: pickS(R, "", toyKey), Cmd: 77, Seq: 3, Flag: 0x10, Body: "i:" + iv}, "all")
			one(hxcodec.Pkt{V: v, Thr: 0, Cmd: 77, Seq: 3, Flag: 0, Body: "i:" + iv}, "all") // an integer body without the error flag travels as its varint bytes
		}
		for _, f := range []uint8{1, 2, 3, 0x13} {
			one(hxcodec.Pkt{V: v, Thr: 0, Key: pickS(R, "", toyKey), Cmd: 1, Seq: 1, Flag: f, Body: bodySpec(R, 20, false)}, "all")
		}
		one(hxcodec.Pkt{V: v, Thr: 0, Key: toyKey, Cmd: 1, Seq: 1, Body: "nil"}, "all")
	}
	// E. extreme header values
	for _, v := range []int{1, 2} {
		for _, cmd := range []int32{0, 1, -1, -2147483648, 2147483647, 0x01020304} {
			for _, seq := range []uint16{0, 1, 0x0102, 65535} {
				one(hxcodec.Pkt{V: v, Thr: 0, Cmd: cmd, Seq: seq, Typ: uint8(R.Pick(0, 127, 128, 255)), Node: pick32(R), Body: bodySpec(R, 3, false)}, "all")
			}
		}
	}
	// F. random bulk, as multi-frame streams under random chunkings
	for k := r.Scale(700, 30000); k > 0; k-- {
		v := 1 + R.Intn(2)
		key := pickS(R, "", toyKey)
		if R.Chance(1, 10) {
			key = fmt.Sprintf("%02x", R.Bytes(1+R.Intn(20)))
		}
		c := &Case{Split: R.Bool()}
		total := 0
		for n := R.Pick(1, 1, 2, 3, 4, 5, 8); n > 0; n-- {
			d := randPkt(R, v, key)
			b, _ := d.BodyBytes()
			total += len(b) + 40
			c.Pkts = append(c.Pkts, d)
		}
		c.Ck = randCk(R, total)
		if k%200 == 0 {
			r.Sample(c)
		}
		runCase(r, c)
	}
	// G. the V2 frame limit (8 MiB)
	lim2 := maxFrame(2) - headerSize(2)
	one(hxcodec.Pkt{V: 2, Thr: huge, Cmd: 8, Seq: 8, Typ: 1, Node: 8, Body: "b:" + hxcodec.SpecGen(lim2, 5)}, "all")
	one(hxcodec.Pkt{V: 2, Thr: huge, Cmd: 8, Seq: 9, Typ: 1, Node: 8, Body: "b:" + hxcodec.SpecGen(lim2+1, 6)}, "all")
	// over the limit only because of the references (header + body alone would fit): must be refused without a byte
	one(hxcodec.Pkt{V: 2, Thr: huge, Cmd: 8, Seq: 12, Typ: 1, Node: 8, Refs: []uint32{1, 2}, Body: "b:" + hxcodec.SpecGen(lim2-7, 8)}, "all")
	one(hxcodec.Pkt{V: 2, Thr: huge, Cmd: 8, Seq: 13, Typ: 1, Node: 8, Refs: []uint32{7}, Body: "b:" + hxcodec.SpecGen(lim2, 9)}, "all")
	{
		refs := make([]uint32, 255)
		for i := range refs {
			refs[i] = uint32(i)
		}
		one(hxcodec.Pkt{V: 2, Thr: huge, Cmd: 8, Seq: 14, Typ: 1, Node: 8, Refs: refs, Body: "b:" + hxcodec.SpecGen(lim2-4*255+1, 10)}, "all")
		// and the exact fit with the maximum number of references: body = limit - header - 4*255
		one(hxcodec.Pkt{V: 2, Thr: huge, Cmd: 8, Seq: 15, Typ: 1, Node: 8, Refs: refs, Body: "b:" + hxcodec.SpecGen(lim2-4*255, 11)}, "n:65536")
	}
	if r.Thorough() {
		for _, key := range []string{"", toyKey} {
			for _, n := range []int{lim2 - 1, lim2 - 8, lim2 + 2} {
				one(hxcodec.Pkt{V: 2, Thr: huge, Key: key, Cmd: 8, Seq: 10, Node: 8, Refs: []uint32{1, 2}, Body: "b:" + hxcodec.SpecGen(n, 7)}, "n:65536")
			}
			// fits only after compression: 20 MiB of a run; and an exact fit after compression is looked for below
			one(hxcodec.Pkt{V: 2, Thr: 0, Key: key, Cmd: 8, Seq: 11, Node: 8, Body: "b:" + hxcodec.SpecRun(20<<20, 1)}, "all")
		}
		exactAfterCompression(r, 1)
		exactAfterCompression(r, 2)
	}
	// H. the supported ciphers themselves (Go side only: the model runs the toy cipher)
	for _, name := range []string{"aes-128", "aes-192", "aes-256", "sm4", "twofish", "3des", "xtea", "salsa20", "none"} {
		for _, v := range []int{1, 2} {
			for _, n := range []int{0, 1, 7, 8, 9, 15, 16, 17, 63, 64, 65, 127, 128, 129, 1000, 5000, 9000, 30000} {
				c := &Case{Cipher: name, Ck: randCk(R, n+40)}
				for _, comp := range []bool{false, true} {
					d := hxcodec.Pkt{V: v, Thr: 0, Cmd: int32(n), Seq: uint16(n), Typ: 1, Node: 5, Flag: 0x20, Body: bodySpec(R, n, comp)}
					if v == 2 {
						d.Refs = []uint32{9, 8}
					}
					c.Pkts = append(c.Pkts, d)
				}
				runCase(r, c)
			}
		}
	}
}

// exactAfterCompression looks for a body that is larger than the frame limit and whose zlib form
// hits the limit exactly (and the limit + 1): a generated prefix followed by a run.
func exactAfterCompression(r *hxlib.Run, v int) {
	lim := maxFrame(v) - headerSize(v)
	total := 2*lim + 1000
	lo, hi := 0, lim
	size := func(k int) int { return zlibLen(append(hxcodec.Gen(k, 11), make([]byte, total-k)...)) }
	for hi-lo > 1 {
		mid := (lo + hi) / 2
		if size(mid) <= lim {
			lo = mid
		} else {
			hi = mid
		}
	}
	found := 0
	for k := lo - 40; k <= lo+40 && k >= 0; k++ {
		if s := size(k); s == lim || s == lim+1 || s == lim-1 {
			c := &Case{Ck: "n:50000", Pkts: []hxcodec.Pkt{{V: v, Thr: 0, Key: toyKey, Cmd: 3, Seq: uint16(k), Node: 1,
				Body: "b:" + hxcodec.Join(hxcodec.SpecGen(k, 11), hxcodec.SpecRun(total-k, 0))}}}
			runCase(r, c)
			found++
			r.Count(fmt.Sprintf("exact-after-compression:v%d:%+d", v, s-lim))
		}
	}
	if found == 0 {
		r.Note("no body whose compressed form hits the v%d limit exactly was found", v)
	}
}

func main() {
	r := hxlib.Start("C01", "a packet; non-trivial when its body is non-empty and it was compressed or encrypted or carries references or its frame is within 2 bytes of the format's limit; distinct by configuration, header fields and body")
	defer r.Finish()
	log.SetOutput(io.Discard)
	if r.Replay != "" {
		var c Case
		r.LoadReplay(&c)
		if c.Fill != nil {
			runFill(r, &c)
		} else if c.Big != nil {
			runBig(r, &c)
		} else if c.Stream != nil {
			runStream(r, &c)
		} else if c.Forged != nil {
			runForged(r, &c)
		} else if c.Hist != nil {
			runHist(r, &c)
		} else if c.Ld != nil {
			runLd(r, &c)
		} else if c.Crc != "" {
			runCrc(r, &c)
		} else {
			runCase(r, &c)
		}
		r.Sample(c)
		return
	}
	if os.Getenv("HX_LEGS_ONLY") != "" { // development: the legs of search.go alone
		legs(r)
		legs2(r)
		legs4(r)
		return
	}
	generate(r)
	generateLd(r, r.R) // lendata.go: the length-prefixed pair and the direct CRC-32 comparison
	legs2(r)           // legs2.go: second round (held outputs, forged checksums and cross-decoding, custom cryptors, shared scratch buffers, word-extreme thresholds)
	legs4(r)           // legs4.go: fourth round (writer kinds and fill states of an unflushed bufio.Writer; from thorough on: bodies above 256 MiB)
	legs(r)            // search.go (after the generators, so that the smallest failing case of a kind is recorded first): cheap legs in every tier, the 10-60 s ones from thorough on, the rest with -search only
}
