// legs2.go: second round of legs of hx_c01. They run in the NORMAL tiers (a change that edits only function
// bodies and keys its misbehaviour on something the generators do not vary never triggers -search). The judges are
// checkEncode / checkDecode, i.e. the property as main.go states it.
//
//	held      "back-to-back frames on one stream decode independently": multi-frame streams (plain, compressed,
//	          toy / real in-place / custom ciphers, error codes) are read by ONE codec instance through a plain chunking
//	          reader, a bytes.Reader, a bytes.Buffer and *bufio.Reader s of 16 B .. 64 KiB (what TcpConn reads from), with
//	          ReadPacket and with ReadHeadBody+UnmarshalPacket; EVERY decoded packet is kept and judged AGAIN after 1, 2, 8
//	          and 64 further frames were read and at the end of the stream, with unrelated traffic (WritePacket of
//	          compressed packets, frames read from a second stream) on the same instance in between. Same for the
//	          slices ReadLenData returns.
//	shared    the sender hands every body over in ONE scratch array (and every reference list in one scratch slice)
//	          that it overwrites as soon as WritePacket has returned and refills for the next packet
//	forgedcrc frames whose CRC-32 is exactly 0, 0xFFFFFFFF, 1, 0x80000000, … (the last four body bytes are solved for;
//	          no cipher, toy cipher, real ciphers, with references): layout oracle on the emitted frame, an
//	          independently written decoder of the documented layout reads the emitted frame, and the REAL decoder reads
//	          the frame an independently written encoder lays out (a conforming peer's frame)
//	cryptors  custom BlockCryptor implementations next to the built-in ones: a tag appended to a NEW slice, the AEAD
//	          idiom append(src, tag…), a stateful sender prepending a message counter, a stream cipher whose state runs
//	          on from frame to frame on both sides
//	wordthr   machine-word extremes as the compression threshold of both constructors (MaxInt, MaxInt-1, MinInt,
//	          MinInt+1, -1, 0, 62..65, 2^31±1, 2^32±1) with bodies on both sides of 62..65 and of the defaults
//
// Compressed bodies cannot carry a forged checksum (their last four bytes are the Adler-32 of the content).
package main

import (
	"bufio"
	"bytes"
	"compress/zlib"
	"fmt"
	"io"
	"strconv"
	"strings"
	"time"

	"verifharness/hxcodec"
	"verifharness/hxlib"

	fatchoy "qchen.fun/fatchoy"
	"qchen.fun/fatchoy/codec"
)

// newX makes the custom cryptor instances of a case (sender, receiver, the oracle's own).
func newX(c *Case) {
	curX = nil
	if strings.HasPrefix(c.Cipher, "x:") {
		e := hxcodec.NewXCrypt(c.Cipher)
		curX = &crypt{enc: e, dec: hxcodec.NewXCrypt(c.Cipher), ora: hxcodec.NewXCrypt(c.Cipher), over: e.Overhead()}
	}
}

func zlibBytes(b []byte) []byte {
	var buf bytes.Buffer
	w := zlib.NewWriter(&buf)
	w.Write(b)
	w.Close()
	return buf.Bytes()
}

// Stream: see Case.Stream.
type Stream struct {
	Rd     string `json:"rd"`               // chunk (the chunking reader itself) | bytes (bytes.Reader) | buffer (bytes.Buffer) | bufio:<size> (over the chunking reader)
	Gap    int    `json:"gap,omitempty"`    // unrelated operations on the same codec instance between two reads (WritePacket of a compressed packet, a compressed frame read from a second stream)
	Shared bool   `json:"shared,omitempty"` // bodies / reference lists are handed over in one scratch array each, overwritten after every WritePacket
	Ld     bool   `json:"ld,omitempty"`     // the stream is WriteLenData records of the bodies instead of frames
}

// streamReader builds the reader named by kind over data; pos() is the number of stream bytes the consumer took.
func streamReader(kind string, data []byte, ck string) (rd io.Reader, pos func() int) {
	switch {
	case kind == "bytes":
		br := bytes.NewReader(data)
		return br, func() int { return len(data) - br.Len() }
	case kind == "buffer":
		bb := bytes.NewBuffer(append([]byte{}, data...))
		return bb, func() int { return len(data) - bb.Len() }
	case strings.HasPrefix(kind, "bufio:"):
		n, err := strconv.Atoi(kind[6:])
		if err != nil {
			panic("bad reader " + kind)
		}
		base := hxcodec.NewReader(data, ck)
		bf := bufio.NewReaderSize(base, n)
		return bf, func() int { return base.Pos - bf.Buffered() }
	case kind == "chunk" || kind == "":
		base := hxcodec.NewReader(data, ck)
		return base, func() int { return base.Pos }
	}
	panic("bad reader " + kind)
}

type heldPkt struct {
	d   *hxcodec.Pkt
	o   hxcodec.DecObs
	end int
}

var heldDistances = []int{1, 2, 8, 64}

func runStream(r *hxlib.Run, c *Case) {
	r.Case()
	newX(c)
	st := c.Stream
	defer func() { failCtx, failKey = "", "" }()
	if len(c.Pkts) == 0 {
		return
	}
	if st.Ld {
		runLdStream(r, c)
		return
	}
	v, thr := c.Pkts[0].V, c.Pkts[0].Thr
	enc := hxcodec.Encoder(v, thr) // ONE instance writes and reads everything
	cr := cryptOf(c, &c.Pkts[0])
	// ---- the sender
	var stream []byte
	var ends []int
	var sent []*hxcodec.Pkt
	scratch := make([]byte, 0, 1<<16)
	scratchRefs := make([]fatchoy.NodeID, 0, 300)
	for i := range c.Pkts {
		d := &c.Pkts[i]
		failCtx = fmt.Sprintf("packet %d of the stream: ", i)
		p := d.Build()
		if st.Shared {
			if b, ok := p.Body().([]byte); ok {
				if len(b) > cap(scratch) {
					scratch = make([]byte, 0, 2*len(b))
				}
				scratch = scratch[:len(b)]
				copy(scratch, b)
				p.SetBody(scratch)
			}
			if rs := p.Refers(); len(rs) > 0 && len(rs) <= cap(scratchRefs) {
				scratchRefs = scratchRefs[:len(rs)]
				copy(scratchRefs, rs)
				p.SetRefers(scratchRefs)
			}
		}
		var o hxcodec.EncObs
		w := &hxcodec.RecWriter{}
		o.Panic = hxlib.Guard(func() { o.N, o.Err = enc.WritePacket(w, cr.enc, p) })
		o.Writes, o.After = w.Writes, p
		if st.Shared { // the packet is on the wire; the sender re-uses its buffers
			if len(d.Refs) > 0 && len(d.Refs) <= cap(scratchRefs) {
				rs := make([]fatchoy.NodeID, len(d.Refs))
				copy(rs, p.Refers())
				p.SetRefers(rs) // (checkEncode compares the packet's list afterwards with the one handed over: keep what it holds NOW)
			}
			full := scratch[:cap(scratch)]
			for j := range full {
				full[j] = 0xee
			}
			fr := scratchRefs[:cap(scratchRefs)]
			for j := range fr {
				fr[j] = 0xeeeeeeee
			}
		}
		frame, ok := checkEncode(r, c, d, &o, cr)
		if !ok {
			continue
		}
		stream = append(stream, frame...)
		ends = append(ends, len(stream))
		sent = append(sent, d)
	}
	kind := strings.SplitN(st.Rd, ":", 2)[0]
	r.CountN("stream:rd="+kind, len(sent))
	if len(sent) == 0 {
		return
	}
	// ---- unrelated traffic for the gaps
	other := hxcodec.Forge(v, 1, 1, 0, 9, 9, 9, zlibBytes(bytes.Repeat([]byte("unrelated traffic on the same codec instance. "), 300)))
	otherLen := 5000 // above the threshold (compressed by the instance) unless the instance never compresses
	if t := defThreshold(v, thr); t < 1<<20 {
		otherLen = t + 3000
	}
	otherPkt := hxcodec.Pkt{V: v, Thr: thr, Cmd: 99, Seq: 9, Body: "b:" + hxcodec.SpecRun(otherLen, 0x55)}
	gap := func() {
		for k := 0; k < st.Gap; k++ {
			hxlib.Guard(func() {
				enc.WritePacket(io.Discard, nil, otherPkt.Build())
				hxcodec.DecodeReader(enc, nil, bytes.NewReader(other), k%2 == 0)
			})
		}
	}
	// ---- the receiver: every decoded packet is kept
	rd, pos := streamReader(st.Rd, stream, c.Ck)
	var held []heldPkt
	again := func(i, k int, when string) {
		failKey = "held:"
		failCtx = fmt.Sprintf("packet %d of the stream was decoded correctly; looked at again %s (reader: %s): ", i, when, st.Rd)
		h := &held[i]
		checkDecode(r, c, h.d, &h.o, h.end)
		failKey = ""
	}
	for i, d := range sent {
		failCtx = fmt.Sprintf("packet %d of the stream (reader: %s): ", i, st.Rd)
		nf := nFails
		o := hxcodec.DecodeReader(enc, cr.dec, rd, c.Split)
		o.Pos = pos()
		checkDecode(r, c, d, &o, ends[i])
		if o.Err != nil || o.Panic != "" || nFails != nf {
			return // desynchronised or already wrong when it was decoded: reported
		}
		held = append(held, heldPkt{d, o, ends[i]})
		if i%3 == 0 {
			gap()
		}
		for _, k := range heldDistances {
			if i-k >= 0 {
				again(i-k, k, fmt.Sprintf("after %d further frame(s) were read from the same reader", k))
				if nFails != nf {
					return
				}
			}
		}
	}
	for i := range held {
		again(i, len(held)-1-i, "at the end of the stream")
	}
	failCtx = "after the last frame of the stream: "
	o := hxcodec.DecodeReader(enc, cr.dec, rd, c.Split)
	if o.Err != io.EOF || pos() != len(stream) {
		fail(r, "stream:end:"+class(sent[0]), fmt.Sprintf("the reader (%s) answers %v after %d of %d stream bytes were consumed", st.Rd, o.Err, pos(), len(stream)), c)
	}
}

// runLdStream: the bodies travel as WriteLenData records; the slices ReadLenData returns are held.
func runLdStream(r *hxlib.Run, c *Case) {
	st := c.Stream
	var stream bytes.Buffer
	var want [][]byte
	for i := range c.Pkts {
		b, ok := c.Pkts[i].BodyBytes()
		if !ok || len(b) > 65000 {
			continue
		}
		if _, err := codec.WriteLenData(&stream, b); err != nil {
			fail(r, "lendata:write", fmt.Sprintf("WriteLenData refuses a %d-byte payload: %v", len(b), err), c)
			return
		}
		want = append(want, b)
	}
	data := stream.Bytes()
	rd, pos := streamReader(st.Rd, data, c.Ck)
	r.CountN("stream:ld:rd="+strings.SplitN(st.Rd, ":", 2)[0], len(want))
	var got [][]byte
	look := func(i int, when string) bool {
		if !bytes.Equal(got[i], want[i]) {
			fail(r, "held:lendata", fmt.Sprintf("record %d (%s) was returned correctly by ReadLenData; looked at again %s (reader: %s) it reads %s", i, hxcodec.Digest(want[i]), when, st.Rd, hxcodec.Digest(got[i])), c)
			return false
		}
		return true
	}
	for i := range want {
		var b []byte
		var err error
		if p := hxlib.Guard(func() { b, err = codec.ReadLenData(rd) }); p != "" || err != nil {
			fail(r, "lendata:read", fmt.Sprintf("record %d of a WriteLenData stream (reader: %s): ReadLenData answers %v %s", i, st.Rd, err, p), c)
			return
		}
		if !bytes.Equal(b, want[i]) {
			fail(r, "lendata:roundtrip", fmt.Sprintf("record %d (%s) of a WriteLenData stream (reader: %s) is read as %s", i, hxcodec.Digest(want[i]), st.Rd, hxcodec.Digest(b)), c)
			return
		}
		got = append(got, b)
		for _, k := range heldDistances {
			if i-k >= 0 && !look(i-k, fmt.Sprintf("after %d further record(s) were read from the same reader", k)) {
				return
			}
		}
	}
	for i := range got {
		if !look(i, "at the end of the stream") {
			return
		}
	}
	if pos() != len(data) {
		fail(r, "lendata:position", fmt.Sprintf("%d of %d stream bytes consumed after the last record (reader: %s)", pos(), len(data), st.Rd), c)
	}
}

// Forged: see Case.Forged.
type Forged struct {
	Target uint32 `json:"target"`
}

// runForged: Pkts[0] must carry a byte body of at least four bytes that is not compressed.
func runForged(r *hxlib.Run, c *Case) {
	defer func() { failCtx, failKey = "", "" }()
	newX(c)
	d := c.Pkts[0]
	cr := cryptOf(c, &d)
	body, _ := d.BodyBytes()
	if len(body) < 4 || len(body) > defThreshold(d.V, d.Thr) || !strings.HasPrefix(d.Body, "b:") || cr.over != 0 {
		r.Note("forged-checksum case skipped: it needs an uncompressed byte body of four bytes or more and a length-preserving cipher")
		return
	}
	// the frame, laid out by hxcodec.Forge (written from the protocol description, not the codec)
	wire, flagByte := append([]byte{}, body...), d.Flag
	if cr.enc != nil {
		wire, flagByte = cr.enc.Encrypt(wire), flagByte|2
	}
	nref := 0
	var payload []byte
	if d.V == 2 {
		nref = len(d.Refs)
		for _, x := range d.Refs {
			payload = append(payload, byte(x>>24), byte(x>>16), byte(x>>8), byte(x))
		}
	}
	payload = append(payload, wire...)
	f := hxcodec.Forge(d.V, d.Typ, flagByte, uint8(nref), d.Seq, d.Node, uint32(d.Cmd), payload)
	if !hxcodec.ForgeFrameCrc(d.V, f, c.Forged.Target) {
		r.Note("forging CRC-32 %08x failed", c.Forged.Target)
		return
	}
	hs := headerSize(d.V)
	wire2 := append([]byte{}, f[hs+4*nref:]...)
	body2 := wire2
	if cr.dec != nil {
		body2 = cr.dec.Decrypt(append([]byte{}, wire2...))
		if !bytes.Equal(cryptOf(c, &d).enc.Encrypt(append([]byte{}, body2...)), wire2) {
			r.Note("forged-checksum case skipped: the cipher is not a bijection on this body")
			return
		}
	}
	d.Body = "b:" + hxcodec.SpecHex(body2)
	r.Count(fmt.Sprintf("forged-crc:%08x", c.Forged.Target))
	tag := fmt.Sprintf("frame whose CRC-32 over header, references and body is exactly %08x: ", c.Forged.Target)
	// A. the ordinary judges on the packet with that body (layout incl. the checksum field, round trip): a plain, replayable case
	plain := &Case{Pkts: []hxcodec.Pkt{d}, Ck: c.Ck, Split: c.Split, Cipher: c.Cipher}
	failCtx = tag
	runCase(r, plain)
	failCtx = tag
	// B. the frame the REAL encoder emits, read by the independently written decoder
	p := d.Build()
	w := &hxcodec.RecWriter{}
	var werr error
	if pn := hxlib.Guard(func() { _, werr = hxcodec.Encoder(d.V, d.Thr).WritePacket(w, cryptOf(c, &d).enc, p) }); pn == "" && werr == nil {
		emitted := w.Bytes()
		if x, err := hxcodec.RefDecode(d.V, emitted); err != nil {
			fail(r, "cross:emitted-frame-refused:"+class(&d), fmt.Sprintf("a decoder written from the protocol description refuses the frame WritePacket emitted (%s): %v", hxcodec.Digest(emitted), err), c)
		} else if x.Typ != d.Typ || x.Seq != d.Seq || x.Cmd != uint32(d.Cmd) || (d.V == 2 && (x.Node != d.Node || int(x.Cnt) != nref)) || !bytes.Equal(x.Wire, wire2) {
			fail(r, "cross:emitted-frame-fields:"+class(&d), fmt.Sprintf("a decoder written from the protocol description reads other fields / body bytes from the frame WritePacket emitted (%s)", hxcodec.Digest(emitted)), c)
		}
	}
	// C. the frame laid out by the independently written encoder (what a conforming peer sends), read by the REAL decoder
	failKey = "cross:"
	for _, split := range []bool{false, true} {
		failCtx = tag + fmt.Sprintf("laid out by an encoder written from the protocol description (%s) and read by the real decoder (split=%v): ", hxcodec.Digest(f), split)
		rd := hxcodec.NewReader(f, "all")
		o := hxcodec.DecodeWith(hxcodec.Encoder(d.V, 0), cryptOf(c, &d).dec, rd, split, 0)
		checkDecode(r, c, &d, &o, len(f))
	}
}

// streamPkts: n packets for ONE stream (one format, one threshold, one cipher key).
func streamPkts(R *hxlib.Rand, v int, key string, thr, n int) []hxcodec.Pkt {
	out := make([]hxcodec.Pkt, n)
	for i := range out {
		d := randPkt(R, v, key)
		if b, _ := d.BodyBytes(); len(b) > 1500 && i%6 != 0 && strings.HasPrefix(d.Body, "b:") {
			d.Body = bodySpec(R, R.Pick(R.Intn(40), R.Intn(300), R.Intn(1500)), R.Bool()) // most frames small: several fit one bufio buffer, and the run stays cheap
		}
		d.Thr = thr
		d.Seq = uint16(i)
		if len(d.Refs) > 8 {
			d.Refs = d.Refs[:8]
		}
		out[i] = d
	}
	return out
}

func legs2(r *hxlib.Run) {
	level := 0 // 0 quick, 1 thorough, 2 -search
	if r.Thorough() {
		level = 1
	}
	if r.Search {
		level = 2
	}
	R := hxlib.NewRand(r.Seed ^ 0x2ea7c01)
	stop := func() bool { return r.Search && r.Failed() }
	leg := func(name string, f func()) {
		if stop() {
			return
		}
		t0 := time.Now()
		f()
		r.Note("leg %s: %.1fs", name, time.Since(t0).Seconds())
	}
	readers := []string{"chunk", "bytes", "buffer", "bufio:16", "bufio:64", "bufio:512", "bufio:4096", "bufio:65536"}
	cks := []string{"all", "n:7", "n:1000", "n:4096", "n:1"}
	type cfg struct{ key, cipher string }
	ciphers := []cfg{{"", ""}, {toyKey, ""}, {"", "aes-128"}, {"", "x:seal"}, {"", "salsa20"}, {"", "x:tag"}, {"", "3des"}, {"", "x:nonce"}, {"", "x:chain"}}

	leg("held", func() {
		n, pk := 0, 0
		rounds := []int{1, 4, 4}[level]
		for round := 0; round < rounds; round++ {
			for _, v := range []int{1, 2} {
				for ri, rdk := range readers {
					for ci, cf := range ciphers {
						if level == 0 && ci >= 4 && (ci+ri)%3 != 0 {
							continue // quick: the first four ciphers with every reader, the others with a third of them
						}
						if stop() {
							return
						}
						thr := []int{0, 64, 300, huge}[(n+ci)%4]
						c := &Case{Pkts: streamPkts(R, v, cf.key, thr, 70+R.Intn(30)), Ck: cks[(n+ri)%len(cks)], Split: n%2 == 0, Cipher: cf.cipher,
							Stream: &Stream{Rd: rdk, Gap: []int{0, 1, 2}[n%3]}}
						if c.Ck == "n:1" && rdk != "bufio:16" && rdk != "bufio:4096" {
							c.Ck = "n:13"
						}
						runStream(r, c)
						n++
						pk += len(c.Pkts)
					}
				}
				// the length-prefixed pair
				for _, rdk := range readers {
					c := &Case{Pkts: streamPkts(R, v, "", huge, 80), Ck: cks[n%len(cks)], Stream: &Stream{Rd: rdk, Ld: true}}
					runStream(r, c)
					n++
				}
			}
		}
		r.CountN("leg:held", n)
		r.Note("leg held: %d streams (%d frames) read by one codec instance through a chunking reader / bytes.Reader / bytes.Buffer / bufio.Reader of 16 B..64 KiB; every decoded packet judged again after 1, 2, 8, 64 further frames and at the end of its stream", n, pk)
	})

	leg("shared", func() {
		n := 0
		for _, v := range []int{1, 2} {
			for ci, cf := range ciphers {
				for k := 0; k < []int{2, 8, 8}[level]; k++ {
					if stop() {
						return
					}
					thr := []int{0, 64, huge}[(n+ci)%3]
					c := &Case{Pkts: streamPkts(R, v, cf.key, thr, 30), Ck: cks[n%len(cks)], Split: n%2 == 0, Cipher: cf.cipher,
						Stream: &Stream{Rd: readers[n%len(readers)], Shared: true}}
					runStream(r, c)
					n++
				}
			}
		}
		r.CountN("leg:shared", n)
		r.Note("leg shared: %d streams whose sender hands every body / reference list over in one scratch array that it overwrites after each WritePacket", n)
	})

	leg("forgedcrc", func() {
		n := 0
		targets := []uint32{0, 0xffffffff, 1, 0x80000000, 0xfffffffe, 0x7fffffff, 0x00000100, 0xffff0000, 0x0000ffff, 0xdebb20e3, 0x2144df1c}
		for _, v := range []int{1, 2} {
			for _, t := range targets {
				for ci, cf := range []cfg{{"", ""}, {toyKey, ""}, {"", "aes-128"}, {"", "salsa20"}, {"", "xtea"}} {
					for _, bl := range []int{4, 5, 24, 300} {
						if level == 0 && ci >= 2 && bl != 24 {
							continue
						}
						if stop() {
							return
						}
						d := hxcodec.Pkt{V: v, Thr: huge, Key: cf.key, Cmd: int32(20301 + n), Seq: uint16(77 + n), Typ: uint8(n % 3), Flag: uint8(R.Pick(0, 0x20, 0x40)), Node: 0x020003, Body: bodySpec(R, bl, false)}
						if v == 2 {
							for k := n % 4; k > 0; k-- {
								d.Refs = append(d.Refs, 0x80000005+uint32(k))
							}
						}
						runForged(r, &Case{Pkts: []hxcodec.Pkt{d}, Ck: "all", Split: n%2 == 0, Cipher: cf.cipher, Forged: &Forged{Target: t}})
						n++
					}
				}
			}
		}
		r.CountN("leg:forgedcrc", n)
		r.Note("leg forgedcrc: %d frames whose CRC-32 was forced to one of %d special values (0, ffffffff, 1, …): layout and round trip, emitted frame read by an independent decoder, independently laid out frame read by the real decoder", n, len(targets))
	})

	leg("cryptors", func() {
		n := 0
		for _, kind := range hxcodec.XKinds {
			for _, v := range []int{1, 2} {
				for k := 0; k < []int{40, 400, 400}[level]; k++ {
					if stop() {
						return
					}
					c := &Case{Cipher: kind, Split: R.Bool()}
					total := 0
					for m := R.Pick(1, 2, 3, 5, 8); m > 0; m-- {
						d := randPkt(R, v, "")
						b, _ := d.BodyBytes()
						total += len(b) + 60
						c.Pkts = append(c.Pkts, d)
					}
					c.Ck = randCk(R, total)
					runCase(r, c)
					n++
				}
				// around the V1 frame limit: the bytes the cryptor adds count
				if v == 1 && kind != "x:chain" {
					lim := maxFrame(1) - headerSize(1)
					for _, bl := range []int{lim - 17, lim - 16, lim - 15, lim - 9, lim - 8, lim - 7, lim - 1, lim, lim + 1} {
						runCase(r, &Case{Cipher: kind, Ck: "n:4096", Pkts: []hxcodec.Pkt{{V: 1, Thr: huge, Cmd: 5, Seq: uint16(bl), Body: bodySpec(R, bl, false)}}})
						n++
					}
				}
			}
		}
		r.CountN("leg:cryptors", n)
		r.Note("leg cryptors: %d multi-frame streams under custom BlockCryptor implementations (%s)", n, strings.Join(hxcodec.XKinds, ", "))
	})

	leg("wordthr", func() {
		n := 0
		var thrs []int
		for _, t := range []int64{9223372036854775807, 9223372036854775806, -9223372036854775808, -9223372036854775807, 2147483647, 2147483646, -2147483648, -2147483647,
			-1, 0, 62, 63, 64, 65, 2147483648, 2147483649, 4294967295, 4294967296, 4294967297} {
			if int64(int(t)) == t { // fits this build's int
				thrs = append(thrs, int(t))
			}
		}
		for _, v := range []int{1, 2} {
			def := defThreshold(v, 0)
			for _, thr := range thrs {
				for _, bl := range []int{0, 1, 61, 62, 63, 64, 65, 66, def - 1, def, def + 1, def + 2, 20000} {
					for _, key := range []string{"", toyKey} {
						if key != "" && bl%2 == 0 {
							continue
						}
						if stop() {
							return
						}
						d := hxcodec.Pkt{V: v, Thr: thr, Key: key, Cmd: int32(bl), Seq: uint16(n), Typ: 1, Node: 7, Flag: 0x20, Body: bodySpec(R, bl, true)}
						runCase(r, &Case{Pkts: []hxcodec.Pkt{d}, Ck: "all", Split: n%2 == 0})
						n++
					}
				}
			}
		}
		r.CountN("leg:wordthr", n)
		r.Note("leg wordthr: %d packets under %d compression thresholds at the machine-word extremes (both constructors), bodies on both sides of 62..65 and of the defaults", n, len(thrs))
	})
}
