// hx_c11: correspondence harness + oracle for C11 (collections/zset: SortedSet over ZSkipList).
//
// Two kinds of cases, both run on the real code in-process:
//
//	kind "z": a call sequence on a SortedSet (every exported method), one protocol line per call;
//	kind "l": a call sequence on a bare ZSkipList (every exported primitive, within its calling
//	          contract), which ties the content-level model L to the pointer/span implementation.
//
// Oracle (independent of the model): a plain map member->score; for every query the members are sorted
// by (score, member) into a slice and the answer is computed by a direct loop (both range ends
// included, negative rank indices count from the end).  After every call the invariant probe of hook
// H6 (spans sum to ranks at every level, backward links, tail, length, dict in step) is evaluated and
// the whole content is read back through the public API.
//
// The model that answers the protocol lines is the STRUCTURAL skip list: `zadd`/`linsert` lines carry the
// tower height of the node the real code inserted (read back from the real list through the probe's
// shape dump; 0 = no node inserted), and after every mutating call the answer carries ` # <shape>`
// (VerifShape: level, length, header spans, per node score/height: spans), so the structure itself —
// every tower and every span — is compared with the model after every mutation.
//
// Scores are int64 in the code; members are a small int type implementing collections.Comparable.
// Tower heights come from math/rand's global source: it is re-seeded per case from the case, so a
// replay rebuilds the same towers.
package main

import (
	"fmt"
	"hash/fnv"
	"io"
	"log"
	"math"
	"math/rand"
	"sort"
	"strconv"
	"strings"

	"verifharness/hxlib"

	"qchen.fun/fatchoy/collections"
	"qchen.fun/fatchoy/collections/zset"
)

type mem int

func (m mem) CompareTo(o collections.Comparable) int {
	x := o.(mem)
	switch {
	case m < x:
		return -1
	case m > x:
		return 1
	}
	return 0
}

type op struct {
	Op  string `json:"op"`
	E   int    `json:"e,omitempty"`
	A   int64  `json:"a,omitempty"` // score / min / start
	B   int64  `json:"b,omitempty"` // max / stop
	Rev bool   `json:"rev,omitempty"`
}

type tcase struct {
	Kind string `json:"kind"`           // "z" or "l"
	Seed int64  `json:"seed"`           // seed of math/rand for the tower heights
	Burn int    `json:"burn,omitempty"` // rand.Uint32 draws thrown away after seeding (legs3.go: aims the next towers at heights 11/12)
	Ops  []op   `json:"ops"`
}

// seedTowers re-seeds math/rand's global source for a case and burns c.Burn draws.
func seedTowers(c tcase) {
	rand.Seed(c.Seed)
	for i := 0; i < c.Burn; i++ {
		rand.Uint32()
	}
}

// tallest tower read back from the real list during the last exec (legs3.go checks that its aim was reached)
var maxHeightSeen int

func b2i(b bool) int {
	if b {
		return 1
	}
	return 0
}

func (o op) line() string {
	switch o.Op {
	case "zlen", "zdump", "llen", "lhead", "ltail", "ldump":
		return o.Op
	case "zadd":
		return fmt.Sprintf("zadd %d %d", o.E, o.A)
	case "zrem", "zscore":
		return fmt.Sprintf("%s %d", o.Op, o.E)
	case "zrank":
		return fmt.Sprintf("zrank %d %d", o.E, b2i(o.Rev))
	case "zrrs", "zrrr", "zcount", "linrange", "lfirst", "llast", "ldrs", "ldrr":
		return fmt.Sprintf("%s %d %d", o.Op, o.A, o.B)
	case "zrange", "zrbs":
		return fmt.Sprintf("%s %d %d %d", o.Op, o.A, o.B, b2i(o.Rev))
	case "linsert", "ldelete", "lrank":
		return fmt.Sprintf("%s %d %d", o.Op, o.A, o.E)
	case "lbyrank":
		return fmt.Sprintf("lbyrank %d", o.A)
	}
	return "?" + o.Op
}

func showEles(es []collections.Comparable) string {
	if len(es) == 0 {
		return "-"
	}
	s := make([]string, len(es))
	for i, e := range es {
		if m, ok := e.(mem); ok {
			s[i] = strconv.Itoa(int(m))
		} else {
			s[i] = fmt.Sprintf("?%T", e)
		}
	}
	return strings.Join(s, ",")
}

func showInts(es []int) string {
	if len(es) == 0 {
		return "-"
	}
	s := make([]string, len(es))
	for i, e := range es {
		s[i] = strconv.Itoa(e)
	}
	return strings.Join(s, ",")
}

func showNode(n *zset.ZSkipListNode) string {
	if n == nil {
		return "nil"
	}
	if n.Ele == nil {
		return "head"
	}
	return fmt.Sprintf("%d:%d", n.Score, int(n.Ele.(mem)))
}

// ---- the reference (oracle): a map and a sort ------------------------------------------------------

type pair struct {
	e int
	s int64
}

func ranking(ref map[int]int64) []pair {
	ps := make([]pair, 0, len(ref))
	for e, s := range ref {
		ps = append(ps, pair{e, s})
	}
	sort.Slice(ps, func(i, j int) bool {
		if ps[i].s != ps[j].s {
			return ps[i].s < ps[j].s
		}
		return ps[i].e < ps[j].e
	})
	return ps
}

func reversed(ps []pair) []pair {
	out := make([]pair, len(ps))
	for i, p := range ps {
		out[len(ps)-1-i] = p
	}
	return out
}

// inSlice: index i of a list of n is selected by the rank range [start, stop] (negative = from the end).
func inSlice(i, n int, start, stop int64) bool {
	if start < 0 {
		start += int64(n)
	}
	if stop < 0 {
		stop += int64(n)
	}
	return start <= int64(i) && int64(i) <= stop
}

func elesOf(ps []pair) []int {
	out := make([]int, len(ps))
	for i, p := range ps {
		out[i] = p.e
	}
	return out
}

type failure struct{ key, what string }

// heightAt reads the tower height of the node at 0-based position pos back from the probe's shape dump
// ("level=L len=N | header spans | score/h: spans | ..."); 0 if there is no such node.
func heightAt(shape string, pos int) int {
	segs := strings.Split(shape, " | ")
	if pos < 0 || pos+2 >= len(segs) {
		return 0
	}
	seg := segs[pos+2]
	a, b := strings.IndexByte(seg, '/'), strings.IndexByte(seg, ':')
	if a < 0 || b < a {
		return 0
	}
	h, _ := strconv.Atoi(seg[a+1 : b])
	return h
}

func mutating(opName string) bool {
	switch opName {
	case "zadd", "zrem", "zrrs", "zrrr", "linsert", "ldelete", "ldrs", "ldrr":
		return true
	}
	return false
}

// probeLog collects invariant-probe violations (hook H6) of the case being executed; probeFatal makes them
// ordinary failures (only used to shrink a case down to its first probe violation).
var (
	probeLog   []failure
	probeFatal bool
)

func isProbeKey(k string) bool {
	return strings.HasPrefix(k, "probe:") || strings.HasPrefix(k, "L:probe:")
}

// ---- kind "z" ------------------------------------------------------------------------------------

func execZ(c tcase, rec *hxlib.Run) (fails []failure, nontrivial bool) {
	fail := func(key, format string, a ...interface{}) {
		if isProbeKey(key) && !probeFatal {
			// a violated internal invariant is not a property violation: note it and let the case go on —
			// the content/rank/range checks that follow decide whether the PROPERTY fails
			probeLog = append(probeLog, failure{key, fmt.Sprintf(format, a...)})
			return
		}
		fails = append(fails, failure{key, fmt.Sprintf(format, a...)})
	}
	seedTowers(c)
	maxHeightSeen = 0
	zs := zset.NewSortedSet()
	ref := map[int]int64{}
	if rec != nil {
		rec.Op(fmt.Sprintf("znew %d", zset.ZSKIPLIST_MAXLEVEL), "ok")
	}
	for i, o := range c.Ops {
		var got, want string
		height := 0 // tower height of the node this call inserted (read back from the real list), 0 = none
		rk := ranking(ref)
		hasTie := false
		for j := 1; j < len(rk); j++ {
			if rk[j].s == rk[j-1].s {
				hasTie = true
			}
		}
		takesRange := false
		pn := hxlib.Guard(func() {
			switch o.Op {
			case "zlen":
				got, want = strconv.Itoa(zs.Len()), strconv.Itoa(len(ref))
			case "zadd":
				old, had := ref[o.E]
				got, want = strconv.FormatBool(zs.Add(mem(o.E), o.A)), "true"
				ref[o.E] = o.A
				if !had || old != o.A {
					height = heightAt(zs.VerifList().VerifShape(), zs.GetRank(mem(o.E), false))
				}
			case "zrem":
				got = strconv.FormatBool(zs.Remove(mem(o.E)))
				_, ok := ref[o.E]
				want = strconv.FormatBool(ok)
				delete(ref, o.E)
			case "zrrs":
				takesRange = true
				got = strconv.Itoa(zs.RemoveRangeByScore(o.A, o.B))
				n := 0
				for _, p := range rk {
					if o.A <= p.s && p.s <= o.B {
						delete(ref, p.e)
						n++
					}
				}
				want = strconv.Itoa(n)
			case "zrrr":
				takesRange = true
				got = strconv.Itoa(zs.RemoveRangeByRank(int(o.A), int(o.B)))
				n := 0
				for j, p := range rk {
					if inSlice(j, len(rk), o.A, o.B) {
						delete(ref, p.e)
						n++
					}
				}
				want = strconv.Itoa(n)
			case "zcount":
				takesRange = true
				got = strconv.Itoa(zs.Count(o.A, o.B))
				n := 0
				for _, p := range rk {
					if o.A <= p.s && p.s <= o.B {
						n++
					}
				}
				want = strconv.Itoa(n)
			case "zrank":
				takesRange = true
				got = strconv.Itoa(zs.GetRank(mem(o.E), o.Rev))
				w := -1
				lst := rk
				if o.Rev {
					lst = reversed(rk)
				}
				for j, p := range lst {
					if p.e == o.E {
						w = j
					}
				}
				want = strconv.Itoa(w)
			case "zscore":
				got = strconv.FormatInt(zs.GetScore(mem(o.E)), 10)
				want = strconv.FormatInt(ref[o.E], 10)
			case "zrange":
				takesRange = true
				got = showEles(zs.GetRange(int(o.A), int(o.B), o.Rev))
				lst := rk
				if o.Rev {
					lst = reversed(rk)
				}
				var w []int
				for j, p := range lst {
					if inSlice(j, len(lst), o.A, o.B) {
						w = append(w, p.e)
					}
				}
				want = showInts(w)
			case "zrbs":
				takesRange = true
				got = showEles(zs.GetRangeByScore(o.A, o.B, o.Rev))
				lst := rk
				if o.Rev {
					lst = reversed(rk)
				}
				var w []int
				for _, p := range lst {
					if o.A <= p.s && p.s <= o.B {
						w = append(w, p.e)
					}
				}
				want = showInts(w)
			case "zdump":
				es := zs.GetRange(0, -1, false)
				parts := make([]string, len(es))
				for j, e := range es {
					parts[j] = fmt.Sprintf("%d:%d", zs.GetScore(e), int(e.(mem)))
				}
				got = "-"
				if len(parts) > 0 {
					got = strings.Join(parts, ",")
				}
				wp := make([]string, len(rk))
				for j, p := range rk {
					wp[j] = fmt.Sprintf("%d:%d", p.s, p.e)
				}
				want = "-"
				if len(wp) > 0 {
					want = strings.Join(wp, ",")
				}
			default:
				panic("harness: unknown op " + o.Op)
			}
		})
		if height > maxHeightSeen {
			maxHeightSeen = height
		}
		if pn != "" {
			got = "panic"
			fail("panic:"+o.Op, "op %d %s panicked: %s", i, o.line(), pn)
		}
		if rec != nil {
			line, ans := o.line(), got
			if o.Op == "zadd" {
				line = fmt.Sprintf("%s %d", line, height)
				if height >= 9 {
					rec.Count(fmt.Sprintf("tower-height:%d", height))
				}
			}
			if mutating(o.Op) && pn == "" {
				ans += " # " + zs.VerifList().VerifShape()
			}
			rec.Op(line, ans)
			rec.Count("op:" + o.Op)
		}
		if pn != "" {
			return
		}
		if hasTie && takesRange {
			nontrivial = true
		}
		if got != want {
			fail("result:"+o.Op, "op %d %s returned %s, the sorted reference says %s (members by (score,member): %s)", i, o.line(), got, want, showPairs(rk))
		}
		// structure and content after the call
		if p := zs.VerifCheck(); p != "" {
			fail("probe:"+o.Op, "after op %d %s the invariant probe reports: %s", i, o.line(), p)
		}
		after := ranking(ref)
		if len(fails) > 0 {
			return // the call itself already disagreed with the reference
		}
		if g, w := showEles(zs.GetRange(0, -1, false)), showInts(elesOf(after)); g != w {
			fail("content:"+o.Op, "after op %d %s the set lists %s, the reference %s", i, o.line(), g, w)
		} else {
			for _, p := range after {
				if s := zs.GetScore(mem(p.e)); s != p.s {
					fail("content:"+o.Op, "after op %d %s member %d has score %d, the reference %d", i, o.line(), p.e, s, p.s)
				}
			}
		}
		if zs.Len() != len(ref) {
			fail("content:"+o.Op, "after op %d %s Len()=%d, the reference holds %d", i, o.line(), zs.Len(), len(ref))
		}
		if len(fails) > 0 {
			return // the reference and the set have diverged: later calls would only repeat this
		}
	}
	return
}

func showPairs(ps []pair) string {
	s := make([]string, len(ps))
	for i, p := range ps {
		s[i] = fmt.Sprintf("%d:%d", p.s, p.e)
	}
	return "[" + strings.Join(s, " ") + "]"
}

// ---- kind "l": the exported ZSkipList primitives ----------------------------------------------------

func execL(c tcase, rec *hxlib.Run) (fails []failure, nontrivial bool) {
	fail := func(key, format string, a ...interface{}) {
		if isProbeKey(key) && !probeFatal {
			// a violated internal invariant is not a property violation: note it and let the case go on —
			// the content/rank/range checks that follow decide whether the PROPERTY fails
			probeLog = append(probeLog, failure{key, fmt.Sprintf(format, a...)})
			return
		}
		fails = append(fails, failure{key, fmt.Sprintf(format, a...)})
	}
	seedTowers(c)
	maxHeightSeen = 0
	zsl := zset.NewZSkipList()
	var content []pair // reference content, kept sorted by (score, member)
	resort := func() {
		sort.Slice(content, func(i, j int) bool {
			if content[i].s != content[j].s {
				return content[i].s < content[j].s
			}
			return content[i].e < content[j].e
		})
	}
	if rec != nil {
		rec.Op(fmt.Sprintf("lnew %d", zset.ZSKIPLIST_MAXLEVEL), "ok")
	}
	node := func(p pair) string { return fmt.Sprintf("%d:%d", p.s, p.e) }
	for i, o := range c.Ops {
		var got, want string
		height := 0 // tower height of the node this call inserted (read back from the real list)
		// calling contracts, judged on the reference content (a shrunk or hand-written case that breaks
		// them is not a case: stop without a verdict)
		for _, p := range content {
			if p.e == o.E && (o.Op == "linsert" || (o.Op == "lrank" && o.A > p.s)) {
				if rec != nil {
					rec.Count("contract-violating-case-cut")
				}
				return
			}
		}
		pn := hxlib.Guard(func() {
			switch o.Op {
			case "llen":
				got, want = strconv.Itoa(zsl.Len()), strconv.Itoa(len(content))
			case "lhead":
				got = showNode(zsl.HeadNode())
				want = "nil"
				if len(content) > 0 {
					want = node(content[0])
				}
			case "ltail":
				got = showNode(zsl.TailNode())
				want = "nil"
				if len(content) > 0 {
					want = node(content[len(content)-1])
				}
			case "ldump":
				var f, b []string
				for x := zsl.HeadNode(); x != nil; x = x.Next() {
					f = append(f, showNode(x))
					if len(f) > len(content)+2 {
						break
					}
				}
				for x := zsl.TailNode(); x != nil; x = x.Before() {
					b = append(b, showNode(x))
					if len(b) > len(content)+2 {
						break
					}
				}
				got = dash(f) + " | " + dash(b)
				var wf, wb []string
				for _, p := range content {
					wf = append(wf, node(p))
				}
				for j := len(content) - 1; j >= 0; j-- {
					wb = append(wb, node(content[j]))
				}
				want = dash(wf) + " | " + dash(wb)
			case "linsert":
				nn := zsl.Insert(o.A, mem(o.E))
				got = showNode(nn)
				pos := 0
				for x := zsl.HeadNode(); x != nil && x != nn && pos <= len(content)+1; x = x.Next() {
					pos++
				}
				height = heightAt(zsl.VerifShape(), pos)
				want = node(pair{o.E, o.A})
				content = append(content, pair{o.E, o.A})
				resort()
			case "ldelete":
				got = showNode(zsl.Delete(o.A, mem(o.E)))
				want = "nil"
				for j, p := range content {
					if p.e == o.E && p.s == o.A {
						want = node(p)
						content = append(content[:j:j], content[j+1:]...)
						break
					}
				}
			case "lrank":
				got = strconv.Itoa(zsl.GetRank(o.A, mem(o.E)))
				want = "0"
				for j, p := range content {
					if p.e == o.E && p.s == o.A {
						want = strconv.Itoa(j + 1)
					}
				}
			case "lbyrank":
				got = showNode(zsl.GetElementByRank(int(o.A)))
				switch {
				case o.A == 0:
					want = "head"
				case o.A >= 1 && int(o.A) <= len(content):
					want = node(content[o.A-1])
				default:
					want = "nil"
				}
			case "linrange":
				got = strconv.FormatBool(zsl.IsInRange(o.A, o.B))
				// "some part of the list may be in range": min <= max, last >= min, first <= max
				want = strconv.FormatBool(o.A <= o.B && len(content) > 0 && content[len(content)-1].s >= o.A && content[0].s <= o.B)
			case "lfirst":
				got = showNode(zsl.FirstInRange(o.A, o.B))
				want = "nil"
				for _, p := range content {
					if o.A <= p.s && p.s <= o.B {
						want = node(p)
						break
					}
				}
			case "llast":
				got = showNode(zsl.LastInRange(o.A, o.B))
				want = "nil"
				for _, p := range content {
					if o.A <= p.s && p.s <= o.B {
						want = node(p)
					}
				}
			case "ldrs", "ldrr":
				dict := map[collections.Comparable]int64{}
				for _, p := range content {
					dict[mem(p.e)] = p.s
				}
				var n int
				if o.Op == "ldrs" {
					n = zsl.DeleteRangeByScore(o.A, o.B, dict)
				} else {
					n = zsl.DeleteRangeByRank(int(o.A), int(o.B), dict)
				}
				var gone, wgone []int
				var keep []pair
				for j, p := range content {
					if _, ok := dict[mem(p.e)]; !ok {
						gone = append(gone, p.e)
					}
					var sel bool
					if o.Op == "ldrs" {
						sel = o.A <= p.s && p.s <= o.B
					} else {
						sel = o.A <= int64(j+1) && int64(j+1) <= o.B // 1-based ranks
					}
					if sel {
						wgone = append(wgone, p.e)
					} else {
						keep = append(keep, p)
					}
				}
				sort.Ints(gone)
				sort.Ints(wgone)
				got = fmt.Sprintf("%d del=%s", n, showInts(gone))
				want = fmt.Sprintf("%d del=%s", len(wgone), showInts(wgone))
				content = keep
			default:
				panic("harness: unknown op " + o.Op)
			}
		})
		if height > maxHeightSeen {
			maxHeightSeen = height
		}
		if pn != "" {
			got = "panic"
			fail("L:panic:"+o.Op, "op %d %s panicked: %s", i, o.line(), pn)
		}
		if rec != nil {
			line, ans := o.line(), got
			if o.Op == "linsert" {
				line = fmt.Sprintf("%s %d", line, height)
			}
			if mutating(o.Op) && pn == "" {
				ans += " # " + zsl.VerifShape()
			}
			rec.Op(line, ans)
			rec.Count("op:" + o.Op)
		}
		if pn != "" {
			return
		}
		if got != want {
			fail("L:result:"+o.Op, "op %d %s returned %s, a sorted slice says %s", i, o.line(), got, want)
		}
		if p := zsl.VerifCheck(); p != "" {
			fail("L:probe:"+o.Op, "after op %d %s the invariant probe reports: %s", i, o.line(), p)
		}
		if zsl.Height() < 1 || zsl.Height() > zset.ZSKIPLIST_MAXLEVEL {
			fail("L:height", "after op %d %s Height()=%d", i, o.line(), zsl.Height())
		}
		if zsl.Height() > 1 {
			nontrivial = true
		}
		if len(fails) > 0 {
			return
		}
	}
	return
}

func dash(s []string) string {
	if len(s) == 0 {
		return "-"
	}
	return strings.Join(s, ",")
}

func exec(c tcase, rec *hxlib.Run) ([]failure, bool) {
	if c.Kind == "l" {
		return execL(c, rec)
	}
	return execZ(c, rec)
}

func caseKey(c tcase) string {
	h := fnv.New64a()
	fmt.Fprintf(h, "%s", c.Kind)
	for _, o := range c.Ops {
		fmt.Fprintf(h, ";%s,%d,%d,%d,%v", o.Op, o.E, o.A, o.B, o.Rev)
	}
	return fmt.Sprintf("%016x", h.Sum64())
}

func one(r *hxlib.Run, c tcase) {
	r.Case()
	r.Count("case:" + c.Kind)
	probeLog = nil
	fails, nt := exec(c, r)
	if nt {
		r.NonTrivial(caseKey(c))
	}
	if len(fails) == 0 && len(probeLog) > 0 {
		// the skip list left its structural envelope although every answer still agreed with the reference:
		// a broken correspondence, not (yet) a property violation
		pb := probeLog[0]
		probeFatal = true
		keep := hxlib.DDMin(len(c.Ops), func(keep []int) bool {
			cand := tcase{Kind: c.Kind, Seed: c.Seed, Burn: c.Burn}
			for _, j := range keep {
				cand.Ops = append(cand.Ops, c.Ops[j])
			}
			fs, _ := exec(cand, nil)
			for _, g := range fs {
				if g.key == pb.key {
					return true
				}
			}
			return false
		})
		probeFatal = false
		small := tcase{Kind: c.Kind, Seed: c.Seed, Burn: c.Burn}
		for _, j := range keep {
			small.Ops = append(small.Ops, c.Ops[j])
		}
		r.Broken(pb.key, fmt.Sprintf("%d call(s): %s — every answer still agreed with the sorted reference", len(small.Ops), pb.what), small)
	}
	seen := map[string]bool{}
	for _, f := range fails {
		if seen[f.key] {
			continue
		}
		seen[f.key] = true
		keep := hxlib.DDMin(len(c.Ops), func(keep []int) bool {
			cand := tcase{Kind: c.Kind, Seed: c.Seed, Burn: c.Burn}
			for _, j := range keep {
				cand.Ops = append(cand.Ops, c.Ops[j])
			}
			fs, _ := exec(cand, nil)
			for _, g := range fs {
				if g.key == f.key {
					return true
				}
			}
			return false
		})
		small := tcase{Kind: c.Kind, Seed: c.Seed, Burn: c.Burn}
		for _, j := range keep {
			small.Ops = append(small.Ops, c.Ops[j])
		}
		what := f.what
		fs, _ := exec(small, nil)
		for _, g := range fs {
			if g.key == f.key {
				what = g.what
				break
			}
		}
		r.Fail(f.key, fmt.Sprintf("%d call(s): %s", len(small.Ops), what), small)
	}
}

// ---- generators -----------------------------------------------------------------------------------

var extremes = []int64{math.MinInt64, math.MinInt64 + 1, -1 << 40, -7, -1, 0, 1, 7, 1 << 40, math.MaxInt64 - 1, math.MaxInt64}

// score picks a score: mostly from a tiny set (many ties), sometimes wide or extreme.
func score(r *hxlib.Rand, mode int) int64 {
	switch {
	case mode == 0 || r.Chance(3, 4):
		return int64(r.Range(0, 5))
	case mode == 1:
		return int64(r.Range(-3, 8))
	case r.Chance(1, 3):
		return extremes[r.Intn(len(extremes))]
	default:
		return int64(r.U64()>>1) - (1 << 62)
	}
}

// bounds picks a score range aimed at the current content: empty, everything, first only, last only,
// an existing score as either end, min > max, or random.
func bounds(r *hxlib.Rand, scores []int64, mode int) (int64, int64) {
	sort.Slice(scores, func(i, j int) bool { return scores[i] < scores[j] })
	if len(scores) > 0 {
		lo, hi := scores[0], scores[len(scores)-1]
		x := scores[r.Intn(len(scores))]
		y := scores[r.Intn(len(scores))]
		switch r.Intn(12) {
		case 0:
			return lo, hi
		case 1:
			return lo, lo
		case 2:
			return hi, hi
		case 3:
			return x, x
		case 4:
			if x > y {
				x, y = y, x
			}
			return x, y
		case 5:
			if x < y {
				x, y = y, x
			}
			return x, y // usually min > max
		case 6:
			if hi < math.MaxInt64 {
				return hi + 1, math.MaxInt64
			}
		case 7:
			if lo > math.MinInt64 {
				return math.MinInt64, lo - 1
			}
		case 8:
			return math.MinInt64, math.MaxInt64
		case 9:
			if x < math.MaxInt64 && x > math.MinInt64 {
				return x - 1, x + 1
			}
		}
	}
	a, b := score(r, mode), score(r, mode)
	if a > b && r.Chance(3, 4) {
		a, b = b, a
	}
	return a, b
}

func randomZ(r *hxlib.Run, n int) tcase { return randomZFrom(r, n, nil) }

// randomZFrom: a random history that continues the given prefix.
func randomZFrom(r *hxlib.Run, n int, prefix []op) tcase {
	c := tcase{Kind: "z", Seed: int64(r.R.U64() >> 1)}
	nm := r.R.Pick(4, 8, 8, 16, 40)
	mode := r.R.Pick(0, 0, 1, 2)
	c.Ops = append(c.Ops, prefix...)
	cur := replayRef(prefix)
	for i := 0; i < n; i++ {
		e := r.R.Range(1, nm)
		var scores []int64
		for _, s := range cur {
			scores = append(scores, s)
		}
		ln := len(cur)
		idx := func() int64 { return int64(r.R.Range(-ln-2, ln+2)) }
		var o op
		switch x := r.R.Intn(100); {
		case x < 30:
			o = op{Op: "zadd", E: e, A: score(r.R, mode)}
			cur[e] = o.A
		case x < 36:
			o = op{Op: "zrem", E: e}
			delete(cur, e)
		case x < 42:
			a, b := bounds(r.R, scores, mode)
			o = op{Op: "zrrs", A: a, B: b}
			for m, s := range cur {
				if a <= s && s <= b {
					delete(cur, m)
				}
			}
		case x < 47:
			o = op{Op: "zrrr", A: idx(), B: idx()}
			cur = nil // unknown now; rebuilt lazily below
		case x < 57:
			a, b := bounds(r.R, scores, mode)
			o = op{Op: "zcount", A: a, B: b}
		case x < 67:
			o = op{Op: "zrank", E: e, Rev: r.R.Bool()}
		case x < 71:
			o = op{Op: "zscore", E: e}
		case x < 82:
			o = op{Op: "zrange", A: idx(), B: idx(), Rev: r.R.Bool()}
		case x < 93:
			a, b := bounds(r.R, scores, mode)
			o = op{Op: "zrbs", A: a, B: b, Rev: r.R.Bool()}
		case x < 96:
			o = op{Op: "zlen"}
		default:
			o = op{Op: "zdump"}
		}
		c.Ops = append(c.Ops, o)
		if cur == nil {
			cur = replayRef(c.Ops)
		}
	}
	c.Ops = append(c.Ops, op{Op: "zdump"})
	return c
}

// replayRef recomputes the reference content of a z-case prefix (used by the generator only).
func replayRef(ops []op) map[int]int64 {
	ref := map[int]int64{}
	for _, o := range ops {
		rk := ranking(ref)
		switch o.Op {
		case "zadd":
			ref[o.E] = o.A
		case "zrem":
			delete(ref, o.E)
		case "zrrs":
			for _, p := range rk {
				if o.A <= p.s && p.s <= o.B {
					delete(ref, p.e)
				}
			}
		case "zrrr":
			for j, p := range rk {
				if inSlice(j, len(rk), o.A, o.B) {
					delete(ref, p.e)
				}
			}
		}
	}
	return ref
}

func randomL(r *hxlib.Run, n int) tcase { return randomLFrom(r, n, nil) }

// randomLFrom: a random history that continues the given prefix of linsert ops (distinct members).
func randomLFrom(r *hxlib.Run, n int, prefix []op) tcase {
	c := tcase{Kind: "l", Seed: int64(r.R.U64() >> 1)}
	nm := r.R.Pick(6, 12, 40)
	mode := r.R.Pick(0, 0, 1, 2)
	cur := map[int]int64{} // member -> score (members are kept unique: the calling contract of Insert)
	for _, o := range prefix {
		c.Ops = append(c.Ops, o)
		cur[o.E] = o.A
	}
	for i := 0; i < n; i++ {
		e := r.R.Range(1, nm)
		var scores []int64
		for _, s := range cur {
			scores = append(scores, s)
		}
		ln := len(cur)
		var o op
		switch x := r.R.Intn(100); {
		case x < 30:
			if _, ok := cur[e]; ok {
				// contract: never insert a member twice; delete it instead
				o = op{Op: "ldelete", E: e, A: cur[e]}
				delete(cur, e)
			} else {
				o = op{Op: "linsert", E: e, A: score(r.R, mode)}
				cur[e] = o.A
			}
		case x < 38:
			s, ok := cur[e]
			if !ok || r.R.Chance(1, 4) {
				// absent member, or a present member under another score (must not be found)
				o = op{Op: "ldelete", E: e, A: score(r.R, mode)}
				if ok && o.A == s {
					delete(cur, e)
				}
			} else {
				o = op{Op: "ldelete", E: e, A: s}
				delete(cur, e)
			}
		case x < 50:
			s, ok := cur[e]
			if !ok {
				o = op{Op: "lrank", E: e, A: score(r.R, mode)}
			} else if r.R.Chance(1, 5) && s > math.MinInt64 {
				// contract of GetRank: never ask for a present member with a score above its own
				o = op{Op: "lrank", E: e, A: s - int64(r.R.Range(1, 2))}
				if o.A > s {
					o.A = s
				}
			} else {
				o = op{Op: "lrank", E: e, A: s}
			}
		case x < 60:
			o = op{Op: "lbyrank", A: int64(r.R.Range(-2, ln+2))}
		case x < 66:
			a, b := bounds(r.R, scores, mode)
			o = op{Op: "linrange", A: a, B: b}
		case x < 74:
			a, b := bounds(r.R, scores, mode)
			o = op{Op: "lfirst", A: a, B: b}
		case x < 82:
			a, b := bounds(r.R, scores, mode)
			o = op{Op: "llast", A: a, B: b}
		case x < 86:
			a, b := bounds(r.R, scores, mode)
			o = op{Op: "ldrs", A: a, B: b}
			for m, s := range cur {
				if a <= s && s <= b {
					delete(cur, m)
				}
			}
		case x < 90:
			o = op{Op: "ldrr", A: int64(r.R.Range(-2, ln+2)), B: int64(r.R.Range(-2, ln+2))}
			rk := ranking(cur)
			for j, p := range rk {
				if o.A <= int64(j+1) && int64(j+1) <= o.B {
					delete(cur, p.e)
				}
			}
		case x < 93:
			o = op{Op: "llen"}
		case x < 95:
			o = op{Op: "lhead"}
		case x < 97:
			o = op{Op: "ltail"}
		default:
			o = op{Op: "ldump"}
		}
		c.Ops = append(c.Ops, o)
	}
	c.Ops = append(c.Ops, op{Op: "ldump"})
	return c
}

// aimed cases: the places the property's quantifier names.
func aimed() []tcase {
	add := func(e int, s int64) op { return op{Op: "zadd", E: e, A: s} }
	var out []tcase
	// five members 10..50: every range operation with both ends on existing scores
	base := []op{add(1, 10), add(2, 20), add(3, 30), add(4, 40), add(5, 50)}
	for _, rev := range []bool{false, true} {
		out = append(out, tcase{Kind: "z", Seed: 1, Ops: append(append([]op{}, base...),
			op{Op: "zcount", A: 20, B: 40}, op{Op: "zrbs", A: 20, B: 40, Rev: rev}, op{Op: "zrrs", A: 20, B: 40}, op{Op: "zdump"})})
	}
	// ties: six members on two scores; ranks, reverse ranks, ranges, removal of one tie group
	ties := []op{add(3, 1), add(1, 1), add(2, 1), add(6, 2), add(4, 2), add(5, 2)}
	var q []op
	for e := 1; e <= 7; e++ {
		q = append(q, op{Op: "zrank", E: e}, op{Op: "zrank", E: e, Rev: true})
	}
	for _, ab := range [][2]int64{{1, 1}, {2, 2}, {1, 2}, {0, 0}, {3, 9}, {2, 1}, {0, 1}, {2, 3}} {
		q = append(q, op{Op: "zcount", A: ab[0], B: ab[1]}, op{Op: "zrbs", A: ab[0], B: ab[1]}, op{Op: "zrbs", A: ab[0], B: ab[1], Rev: true})
	}
	for a := int64(-8); a <= 8; a++ {
		for _, b := range []int64{-8, -7, -6, -3, -1, 0, 1, 2, 5, 6, 7} {
			q = append(q, op{Op: "zrange", A: a, B: b}, op{Op: "zrange", A: a, B: b, Rev: true})
		}
	}
	out = append(out, tcase{Kind: "z", Seed: 2, Ops: append(append([]op{}, ties...), q...)})
	for _, ab := range [][2]int64{{1, 1}, {2, 2}, {1, 2}, {0, 0}, {2, 1}} {
		out = append(out, tcase{Kind: "z", Seed: 3, Ops: append(append([]op{}, ties...), op{Op: "zrrs", A: ab[0], B: ab[1]}, op{Op: "zdump"}, op{Op: "zlen"})})
	}
	for a := int64(-8); a <= 8; a += 1 {
		for _, b := range []int64{-8, -6, -2, -1, 0, 1, 4, 5, 7} {
			out = append(out, tcase{Kind: "z", Seed: 4, Ops: append(append([]op{}, ties...), op{Op: "zrrr", A: a, B: b}, op{Op: "zdump"})})
		}
	}
	// extreme rank indices and score bounds (no arithmetic of the code may wrap on them)
	mn, mx := int64(math.MinInt64), int64(math.MaxInt64)
	for _, ab := range [][2]int64{{mn, mx}, {mx, mn}, {mn, mn}, {mx, mx}, {mn, 0}, {0, mx}, {mn + 1, -1}, {-1, mx}, {1, mx - 1}} {
		out = append(out, tcase{Kind: "z", Seed: 10, Ops: append(append([]op{}, ties...),
			op{Op: "zrange", A: ab[0], B: ab[1]}, op{Op: "zrange", A: ab[0], B: ab[1], Rev: true},
			op{Op: "zcount", A: ab[0], B: ab[1]}, op{Op: "zrbs", A: ab[0], B: ab[1], Rev: true},
			op{Op: "zrrr", A: ab[0], B: ab[1]}, op{Op: "zdump"}, op{Op: "zrrs", A: ab[0], B: ab[1]}, op{Op: "zdump"})})
	}
	// score updates: up, down, to a tie, to the same score; remove absent; empty set queries
	out = append(out, tcase{Kind: "z", Seed: 5, Ops: []op{
		{Op: "zrank", E: 1}, {Op: "zrange", A: 0, B: -1}, {Op: "zcount", A: 0, B: 9}, {Op: "zrbs", A: 0, B: 9, Rev: true}, {Op: "zrrs", A: 0, B: 9}, {Op: "zrrr", A: 0, B: -1}, {Op: "zrem", E: 1}, {Op: "zscore", E: 1},
		add(1, 5), add(2, 5), add(3, 5), add(2, 9), {Op: "zdump"}, add(2, 1), {Op: "zdump"}, add(2, 5), {Op: "zdump"}, add(2, 5), {Op: "zrank", E: 2}, {Op: "zrank", E: 2, Rev: true},
		{Op: "zrem", E: 9}, {Op: "zrem", E: 2}, {Op: "zrem", E: 2}, {Op: "zdump"},
		add(7, math.MinInt64), add(8, math.MaxInt64), {Op: "zcount", A: math.MinInt64, B: math.MaxInt64}, {Op: "zrbs", A: math.MinInt64, B: math.MinInt64}, {Op: "zrrs", A: math.MaxInt64, B: math.MaxInt64}, {Op: "zdump"}}})
	// the primitives on a small list with ties
	ins := func(e int, s int64) op { return op{Op: "linsert", E: e, A: s} }
	lb := []op{ins(3, 1), ins(1, 1), ins(2, 1), ins(6, 2), ins(4, 2), ins(5, 2), {Op: "ldump"}}
	var lq []op
	for e := 1; e <= 7; e++ {
		lq = append(lq, op{Op: "lrank", E: e, A: 1}, op{Op: "lrank", E: e, A: 2}, op{Op: "lrank", E: e, A: 0})
	}
	for rnk := int64(-1); rnk <= 8; rnk++ {
		lq = append(lq, op{Op: "lbyrank", A: rnk})
	}
	for _, ab := range [][2]int64{{1, 1}, {2, 2}, {1, 2}, {0, 0}, {3, 9}, {2, 1}, {0, 1}, {2, 3}, {-5, 0}} {
		lq = append(lq, op{Op: "linrange", A: ab[0], B: ab[1]}, op{Op: "lfirst", A: ab[0], B: ab[1]}, op{Op: "llast", A: ab[0], B: ab[1]})
	}
	out = append(out, tcase{Kind: "l", Seed: 6, Ops: append(append([]op{}, lb...), lq...)})
	for _, ab := range [][2]int64{{1, 1}, {2, 2}, {1, 2}, {0, 0}, {2, 1}, {3, 3}} {
		out = append(out, tcase{Kind: "l", Seed: 7, Ops: append(append([]op{}, lb...), op{Op: "ldrs", A: ab[0], B: ab[1]}, op{Op: "ldump"}, op{Op: "llen"})})
	}
	for a := int64(-1); a <= 8; a++ {
		for b := int64(-1); b <= 8; b++ {
			out = append(out, tcase{Kind: "l", Seed: 8, Ops: append(append([]op{}, lb...), op{Op: "ldrr", A: a, B: b}, op{Op: "ldump"})})
		}
	}
	for _, ab := range [][2]int64{{mn, mx}, {mx, mn}, {mn, 2}, {5, mx}, {mx, mx}, {mn, mn}} {
		out = append(out, tcase{Kind: "l", Seed: 11, Ops: append(append([]op{}, lb...),
			op{Op: "lbyrank", A: ab[0]}, op{Op: "lbyrank", A: ab[1]}, op{Op: "linrange", A: ab[0], B: ab[1]},
			op{Op: "lfirst", A: ab[0], B: ab[1]}, op{Op: "llast", A: ab[0], B: ab[1]},
			op{Op: "ldrr", A: ab[0], B: ab[1]}, op{Op: "ldump"}, op{Op: "ldrs", A: ab[0], B: ab[1]}, op{Op: "ldump"})})
	}
	out = append(out, tcase{Kind: "l", Seed: 9, Ops: []op{{Op: "lhead"}, {Op: "ltail"}, {Op: "llen"}, {Op: "ldump"}, {Op: "lbyrank", A: 0}, {Op: "lbyrank", A: 1}, {Op: "lrank", E: 1, A: 1},
		{Op: "ldelete", E: 1, A: 1}, {Op: "linrange", A: 0, B: 1}, {Op: "lfirst", A: 0, B: 1}, {Op: "llast", A: 0, B: 1}, {Op: "ldrs", A: 0, B: 1}, {Op: "ldrr", A: 1, B: 1},
		ins(1, 5), {Op: "ldelete", E: 1, A: 4}, {Op: "ldelete", E: 2, A: 5}, {Op: "ldelete", E: 1, A: 5}, {Op: "ldump"}}})
	return out
}

func main() {
	r := hxlib.Start("C11", "an op sequence on one sorted set (kind z) or one bare skip list (kind l); a z case is non-trivial when some call took a score range or a rank while two members had equal scores, an l case when the list grew above one level; distinct by op list")
	defer r.Finish()
	log.SetOutput(io.Discard)
	if r.Replay != "" {
		var sc scase
		r.LoadReplay(&sc)
		if sc.Leg != "" { // a case of a search leg (search.go): regenerated from its parameters
			r.Case()
			runSearchCase(sc).report(r, sc)
			r.Sample(sc)
			return
		}
		var c tcase
		r.LoadReplay(&c)
		one(r, c)
		r.Sample(c)
		return
	}
	for _, c := range aimed() {
		one(r, c)
	}
	nz := r.Scale(1500, 150000)
	for i := 0; i < nz; i++ {
		c := randomZ(r, r.R.Range(5, 70))
		if i < 2 {
			r.Sample(c)
		}
		one(r, c)
	}
	nl := r.Scale(700, 80000)
	for i := 0; i < nl; i++ {
		c := randomL(r, r.R.Range(5, 70))
		if i < 1 {
			r.Sample(c)
		}
		one(r, c)
	}
	// a few long histories (tall towers, many cascaded span updates)
	for i := 0; i < r.Scale(6, 500); i++ {
		one(r, randomZ(r, r.R.Range(300, 800)))
		one(r, randomL(r, r.R.Range(300, 800)))
	}
	// legs3.go: machine-word extremes for every int parameter, towers of height 10..12, member types, held listings
	for _, c := range wordCases() {
		r.Count("leg:words")
		one(r, c)
	}
	towerLegs(r)
	memberLegs(r)
	if r.Search {
		if r.Failed() {
			r.Note("search legs not run: the thorough generators already produced a failing input")
		} else {
			searchLegs(r)
		}
	}
	r.Note("scores are int64 (model: Int, only compared); members are ints implementing Comparable; tower heights come from math/rand re-seeded per case")
	r.Note("kind l respects the calling contracts of the primitives: Insert only of absent members, GetRank never with a score above the member's own")
}
