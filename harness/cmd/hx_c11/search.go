// search.go: failing-input search legs of hx_c11 (active only with -search).
//
// The legs that run in the NORMAL tiers (towers of height 10..12, machine-word arguments, member types, held listings) are
// in legs3.go; the oracle-only ones share this file's engine (zeng).
//
// The normal tiers keep at most 40 members and observe after every call. The legs:
//
//	scale      sets of 200 000 (one variant per seed: 2^18+10) members inserted in ascending / descending / random score
//	           order, with all scores equal, and with five scores; observed in full around 2^16, 2^17 (2^18) members and
//	           at the end: whole-range listings in both directions, rank windows of 2^16-1 .. 2^17+1 positions at
//	           and across position 2^16, score ranges holding > 2^16 members, counts, ranks beyond 2^16; then score
//	           updates, RemoveRangeByRank / ByScore of > 2^16 members at once, random removals, emptying, reuse  (class a)
//	period     every observation, then exactly 2^16, 2^16, 2^17, 3*2^18 (2^20) identical modifying units with NO
//	           observation in between, then every observation again WITH THE SAME ARGUMENTS (and new ones); units: score
//	           update / add+remove / range-removal of one+add / growth / growth then removals              (class b)
//	reads      the same with exactly that many Count / GetRank / GetRange / GetScore calls between two changes  (class b)
//	magnitude  members whose CompareTo returns the difference of two int64 (or +-2^40, or MinInt/MaxInt) instead of
//	           -1/0/+1, equal scores, members 2^31, 2^32, 2^33, 2^40 apart; observed after every call       (class c)
//
// Oracle: the property's reference — members sorted by (score, member) in a plain slice; every answer is computed
// from that slice by direct loops/slicing (both range ends included, negative rank indices from the end).
// A case is (leg, variant, n, seed); the call sequence is regenerated from it on replay (tower heights come from
// math/rand, re-seeded from the case).
package main

import (
	"fmt"
	"math"
	"math/rand"
	"sort"
	"time"

	"verifharness/hxlib"

	"qchen.fun/fatchoy/collections"
	"qchen.fun/fatchoy/collections/zset"
)

type scase struct {
	Leg     string `json:"leg"`
	Variant string `json:"variant,omitempty"`
	N       int    `json:"n,omitempty"`
	Seed    uint64 `json:"seed,omitempty"`
	FailAt  int    `json:"failed_at_call,omitempty"` // informative
}

// members of the magnitude leg: CompareTo returns magnitudes, not -1/0/+1
type dmem int64 // the difference

func (m dmem) CompareTo(o collections.Comparable) int { return int(int64(m) - int64(o.(dmem))) }

type bmem int64 // +-2^40

func (m bmem) CompareTo(o collections.Comparable) int {
	x := o.(bmem)
	switch {
	case m < x:
		return -(1 << 40)
	case m > x:
		return 1 << 40
	}
	return 0
}

type xmem int64 // the extreme ints

func (m xmem) CompareTo(o collections.Comparable) int {
	x := o.(xmem)
	switch {
	case m < x:
		return math.MinInt64
	case m > x:
		return math.MaxInt64
	}
	return 0
}

type p64 struct {
	e int64
	s int64
}

type zeng struct {
	zs     *zset.SortedSet
	mk     func(int64) collections.Comparable
	un     func(collections.Comparable) (int64, bool)
	ref    map[int64]int64
	sorted []p64
	dirty  bool
	n      int
	fails  []failure
	dead   bool
	maxLen int
	obs    int
	// legs3.go: listings kept for the held-output recheck
	hold bool
	held []heldList
	muts int
}

func newZeng(kind string, seed uint64) *zeng {
	rand.Seed(int64(seed >> 1))
	e := &zeng{zs: zset.NewSortedSet(), ref: map[int64]int64{}, dirty: true}
	switch kind {
	case "diff":
		e.mk = func(x int64) collections.Comparable { return dmem(x) }
		e.un = func(c collections.Comparable) (int64, bool) { m, ok := c.(dmem); return int64(m), ok }
	case "big":
		e.mk = func(x int64) collections.Comparable { return bmem(x) }
		e.un = func(c collections.Comparable) (int64, bool) { m, ok := c.(bmem); return int64(m), ok }
	case "extreme":
		e.mk = func(x int64) collections.Comparable { return xmem(x) }
		e.un = func(c collections.Comparable) (int64, bool) { m, ok := c.(xmem); return int64(m), ok }
	default:
		if !memberKind(e, kind) { // legs3.go
			e.mk = func(x int64) collections.Comparable { return mem(int(x)) }
			e.un = func(c collections.Comparable) (int64, bool) { m, ok := c.(mem); return int64(m), ok }
		}
	}
	return e
}

func (e *zeng) fail(key, format string, a ...interface{}) {
	if len(e.fails) < 6 {
		e.fails = append(e.fails, failure{key, fmt.Sprintf("call %d: ", e.n) + fmt.Sprintf(format, a...)})
	}
	e.dead = true
}

func (e *zeng) rk() []p64 {
	if e.dirty {
		e.sorted = e.sorted[:0]
		for m, s := range e.ref {
			e.sorted = append(e.sorted, p64{m, s})
		}
		sort.Slice(e.sorted, func(i, j int) bool {
			if e.sorted[i].s != e.sorted[j].s {
				return e.sorted[i].s < e.sorted[j].s
			}
			return e.sorted[i].e < e.sorted[j].e
		})
		e.dirty = false
		if len(e.sorted) > e.maxLen {
			e.maxLen = len(e.sorted)
		}
	}
	return e.sorted
}

func (e *zeng) call(name string, f func()) bool {
	if e.dead {
		return false
	}
	e.n++
	if p := hxlib.Guard(f); p != "" {
		e.fail("panic:"+name, "%s panicked: %s", name, p)
		return false
	}
	return true
}

func (e *zeng) add(m, s int64) {
	var got bool
	if !e.call("zadd", func() { got = e.zs.Add(e.mk(m), s) }) {
		return
	}
	if old, ok := e.ref[m]; !ok || old != s {
		e.ref[m] = s
		e.dirty = true
	}
	e.mutated()
	if !got {
		e.fail("result:zadd", "Add(%d,%d) returned false", m, s)
	}
}

func (e *zeng) rem(m int64) {
	var got bool
	if !e.call("zrem", func() { got = e.zs.Remove(e.mk(m)) }) {
		return
	}
	_, ok := e.ref[m]
	if ok {
		delete(e.ref, m)
		e.dirty = true
	}
	e.mutated()
	if got != ok {
		e.fail("result:zrem", "Remove(%d) returned %v, the reference says %v", m, got, ok)
	}
}

func (e *zeng) rrs(a, b int64) {
	var got int
	if !e.call("zrrs", func() { got = e.zs.RemoveRangeByScore(a, b) }) {
		return
	}
	n := 0
	for _, p := range e.rk() {
		if a <= p.s && p.s <= b {
			delete(e.ref, p.e)
			n++
		}
	}
	if n > 0 {
		e.dirty = true
	}
	e.mutated()
	if got != n {
		e.fail("result:zrrs", "RemoveRangeByScore(%d,%d) returned %d, the sorted reference holds %d members in that range", a, b, got, n)
	}
}

// slice bounds of a rank range [start, stop] over n items (negative = from the end); lo > hi = empty
func rankBounds(n int, start, stop int64) (int, int) {
	if start < 0 {
		start += int64(n)
	}
	if stop < 0 {
		stop += int64(n)
	}
	if start < 0 {
		start = 0
	}
	if stop >= int64(n) {
		stop = int64(n) - 1
	}
	if start > stop {
		return 1, 0
	}
	return int(start), int(stop)
}

func (e *zeng) rrr(a, b int) {
	var got int
	if !e.call("zrrr", func() { got = e.zs.RemoveRangeByRank(a, b) }) {
		return
	}
	rk := e.rk()
	lo, hi := rankBounds(len(rk), int64(a), int64(b))
	n := 0
	for i := lo; i <= hi; i++ {
		delete(e.ref, rk[i].e)
		n++
	}
	if n > 0 {
		e.dirty = true
	}
	e.mutated()
	if got != n {
		e.fail("result:zrrr", "RemoveRangeByRank(%d,%d) on %d members returned %d, the reference removes %d", a, b, len(rk), got, n)
	}
}

// ---- observations ---------------------------------------------------------------------------------------

func (e *zeng) sameList(name string, got []collections.Comparable, want []p64, rev bool, descr string) {
	if len(got) != len(want) {
		e.fail("result:"+name, "%s returned %d members, the sorted reference selects %d (of %d)", descr, len(got), len(want), len(e.ref))
		return
	}
	for i := range want {
		w := want[i]
		if rev {
			w = want[len(want)-1-i]
		}
		g, ok := e.un(got[i])
		if !ok || g != w.e {
			e.fail("result:"+name, "%s: element %d of %d is %v, the sorted reference has member %d (score %d) there", descr, i, len(want), got[i], w.e, w.s)
			return
		}
	}
	e.keep(descr, got)
}

func (e *zeng) qRange(a, b int, rev bool) {
	var got []collections.Comparable
	if !e.call("zrange", func() { got = e.zs.GetRange(a, b, rev) }) {
		return
	}
	rk := e.rk()
	n := len(rk)
	lo, hi := rankBounds(n, int64(a), int64(b))
	var want []p64
	if lo <= hi {
		if rev { // positions lo..hi of the reversed list = n-1-hi .. n-1-lo of the ascending one
			want = rk[n-1-hi : n-lo]
		} else {
			want = rk[lo : hi+1]
		}
	}
	e.sameList("zrange", got, want, rev, fmt.Sprintf("GetRange(%d,%d,%v)", a, b, rev))
}

func (e *zeng) scoreSpan(a, b int64) []p64 {
	rk := e.rk()
	lo := sort.Search(len(rk), func(i int) bool { return rk[i].s >= a })
	hi := sort.Search(len(rk), func(i int) bool { return rk[i].s > b })
	if a > b || lo >= hi {
		return nil
	}
	return rk[lo:hi]
}

func (e *zeng) qByScore(a, b int64, rev bool) {
	var got []collections.Comparable
	if !e.call("zrbs", func() { got = e.zs.GetRangeByScore(a, b, rev) }) {
		return
	}
	e.sameList("zrbs", got, e.scoreSpan(a, b), rev, fmt.Sprintf("GetRangeByScore(%d,%d,%v)", a, b, rev))
}

func (e *zeng) qCount(a, b int64) {
	var got int
	if !e.call("zcount", func() { got = e.zs.Count(a, b) }) {
		return
	}
	if w := len(e.scoreSpan(a, b)); got != w {
		e.fail("result:zcount", "Count(%d,%d) returned %d, the sorted reference holds %d members in that range (of %d)", a, b, got, w, len(e.ref))
	}
}

func (e *zeng) qMember(m int64) {
	var r0, r1 int
	var sc int64
	if !e.call("zrank", func() {
		r0 = e.zs.GetRank(e.mk(m), false)
		r1 = e.zs.GetRank(e.mk(m), true)
		sc = e.zs.GetScore(e.mk(m))
	}) {
		return
	}
	rk := e.rk()
	s, ok := e.ref[m]
	w0, w1 := -1, -1
	if ok {
		i := sort.Search(len(rk), func(i int) bool { return rk[i].s > s || (rk[i].s == s && rk[i].e >= m) })
		w0, w1 = i, len(rk)-1-i
	}
	if r0 != w0 || r1 != w1 {
		e.fail("result:zrank", "GetRank(%d) = %d ascending / %d descending, the sorted reference says %d / %d (of %d members)", m, r0, r1, w0, w1, len(rk))
		return
	}
	if sc != s {
		e.fail("result:zscore", "GetScore(%d) = %d, the reference %d", m, sc, s)
	}
}

func (e *zeng) qLen() {
	var got int
	if !e.call("zlen", func() { got = e.zs.Len() }) {
		return
	}
	if got != len(e.ref) {
		e.fail("result:zlen", "Len()=%d, the reference holds %d", got, len(e.ref))
	}
}

// observeAll: everything over the full range, plus windows aimed at positions/lengths around 2^16 and 2^17.
func (e *zeng) observeAll(rnd *hxlib.Rand) {
	if e.dead {
		return
	}
	e.obs++
	rk := e.rk()
	n := len(rk)
	e.qLen()
	for _, rev := range []bool{false, true} {
		e.qRange(0, -1, rev)
		e.qByScore(math.MinInt64, math.MaxInt64, rev)
	}
	e.qCount(math.MinInt64, math.MaxInt64)
	if n == 0 {
		e.qRange(0, 0, false)
		e.qCount(0, 0)
		return
	}
	lens := []int{1, 2, 1<<16 - 1, 1 << 16, 1<<16 + 1, 1<<16 + 1000, 1<<17 - 1, 1 << 17, 1<<17 + 1, 1 << 18, 1<<18 + 1}
	starts := []int{0, 1, 1<<16 - 1, 1 << 16, 1<<16 + 1, 1 << 17, n / 3, n - 1}
	for _, st := range starts {
		if st >= n {
			continue
		}
		for _, l := range lens {
			if l > 2 && st+l > n+1 && (l > 1<<16+1 || st > 1) {
				continue // one clamped window per start is enough
			}
			rev := rnd.Bool()
			e.qRange(st, st+l-1, rev)
			if l > 2 { // the same window by negative indices, in the other direction
				e.qRange(st-n, st+l-1-n, !rev)
			}
			hi := st + l - 1
			if hi >= n {
				hi = n - 1
			}
			a, b := rk[st].s, rk[hi].s
			e.qCount(a, b)
			if l >= 1<<16-1 || l <= 2 {
				e.qByScore(a, b, rev)
			}
			if e.dead {
				return
			}
		}
	}
	// members at and beyond rank 2^16, at both ends, and absent ones
	for _, i := range []int{0, 1, 1<<16 - 1, 1 << 16, 1<<16 + 1, 1 << 17, 1<<17 + 1, n / 2, n - 2, n - 1} {
		if i >= 0 && i < n {
			e.qMember(rk[i].e)
		}
	}
	for i := 0; i < 20; i++ {
		e.qMember(rk[rnd.Intn(n)].e)
	}
	e.qMember(-12345)
}

// observeSmall: every observation of a small set with explicit argument lists (kept by the caller so that the same
// arguments are asked again after the silent gap).
type qargs struct {
	ranks  [][2]int
	scores [][2]int64
	mems   []int64
}

// observeArgs asks everything; `newestFirst` asks in the reverse order. After a silent gap the observations are
// repeated newest first: whatever the code remembers of its most recent answers (one entry, a few, a slot per
// argument hash) is asked again before a later question can displace it.
func (e *zeng) observeArgs(q *qargs, newestFirst bool) {
	if e.dead {
		return
	}
	e.obs++
	var l []func()
	l = append(l, e.qLen)
	for _, rev := range []bool{false, true} {
		rev := rev
		l = append(l, func() { e.qRange(0, -1, rev) })
		for _, r := range q.ranks {
			r := r
			l = append(l, func() { e.qRange(r[0], r[1], rev) })
		}
		for _, s := range q.scores {
			s := s
			l = append(l, func() { e.qByScore(s[0], s[1], rev) })
		}
	}
	for _, m := range q.mems {
		m := m
		l = append(l, func() { e.qMember(m) })
	}
	for _, s := range q.scores {
		s := s
		l = append(l, func() { e.qCount(s[0], s[1]) })
	}
	if newestFirst {
		for i := len(l) - 1; i >= 0; i-- {
			l[i]()
		}
		return
	}
	for _, f := range l {
		f()
	}
}

// current extends the argument lists by ranges/members taken from the present content.
func (e *zeng) current(q *qargs, rnd *hxlib.Rand) {
	rk := e.rk()
	n := len(rk)
	if n == 0 {
		return
	}
	lo, hi := rk[0].s, rk[n-1].s
	mid := rk[n/2].s
	q.scores = append(q.scores, [2]int64{lo, hi}, [2]int64{lo, mid}, [2]int64{mid, hi}, [2]int64{mid, mid})
	q.ranks = append(q.ranks, [2]int{1, n / 2}, [2]int{-3, -1})
	for i := 0; i < 4; i++ {
		q.mems = append(q.mems, rk[rnd.Intn(n)].e)
	}
	q.mems = append(q.mems, rk[0].e, rk[n-1].e)
	trim := func(k int) int {
		if k > 40 {
			return k - 40
		}
		return 0
	}
	q.scores = q.scores[trim(len(q.scores)):]
	q.ranks = q.ranks[trim(len(q.ranks)):]
	q.mems = q.mems[trim(len(q.mems)):]
}

func (e *zeng) report(r *hxlib.Run, c scase) bool {
	if len(e.fails) == 0 {
		return false
	}
	c.FailAt = e.n
	f := e.fails[0]
	r.Fail(f.key, fmt.Sprintf("leg %s/%s (n=%d seed=%d): %s", c.Leg, c.Variant, c.N, c.Seed, f.what), c)
	return true
}

// ---- leg: scale -----------------------------------------------------------------------------------------------

var scaleVariants = []string{"ascending", "descending", "random", "all-equal", "five-scores"}

func runScale(c scase) *zeng {
	rnd := hxlib.NewRand(c.Seed)
	e := newZeng("", c.Seed)
	n := c.N
	marks := map[int]bool{}
	for _, p := range []int{1 << 16, 1 << 17, 1 << 18} {
		for d := -1; d <= 1; d++ {
			marks[p+d] = true
		}
	}
	scoreOf := func(i int) int64 {
		switch c.Variant {
		case "ascending":
			return int64(i) * 3
		case "descending":
			return int64(n-i) * 3
		case "all-equal":
			return 7
		case "five-scores":
			return int64(i % 5)
		}
		return int64(rnd.U64()>>2) - (1 << 61)
	}
	member := func(i int) int64 {
		if c.Variant == "all-equal" || c.Variant == "five-scores" {
			// ties are ordered by member: insert them in a scrambled member order
			return int64((i*7919)%n) + 1
		}
		return int64(i) + 1
	}
	for i := 0; i < n && !e.dead; i++ {
		e.add(member(i), scoreOf(i))
		if marks[i+1] {
			e.observeAll(rnd)
		}
	}
	e.observeAll(rnd)
	// score updates (delete + re-insert at scale)
	for i := 0; i < 5000 && !e.dead; i++ {
		m := int64(rnd.Intn(n)) + 1
		e.add(m, e.ref[m]+int64(rnd.Range(-100000, 100000)))
	}
	e.observeAll(rnd)
	// more than 2^16 members removed by one call, by rank and by score
	e.rrr(1000, 1000+1<<16+5)
	e.observeAll(rnd)
	if rk := e.rk(); len(rk) > 1<<16+3000 {
		a, b := rk[2000].s, rk[2000+1<<16+1].s
		e.rrs(a, b)
		e.observeAll(rnd)
	}
	for i := 0; i < 10000 && !e.dead; i++ {
		e.rem(int64(rnd.Intn(n)) + 1)
	}
	e.observeAll(rnd)
	e.rrr(0, -1)
	e.observeAll(rnd)
	for i := 0; i < 100 && !e.dead; i++ {
		e.add(int64(i), int64(i%7))
	}
	e.observeAll(rnd)
	return e
}

// ---- leg: period ------------------------------------------------------------------------------------------------

var periodVariants = []string{"update", "add+remove", "rrs-one+add", "rrr-one+add", "grow", "grow-then-shrink", "reads"}

func runPeriod(c scase) *zeng {
	rnd := hxlib.NewRand(c.Seed)
	e := newZeng("", c.Seed)
	var q qargs
	pop := 24
	next := int64(1000) // fresh scores / members: ever increasing
	var live []int64    // members in insertion order (oldest first)
	for i := 0; i < pop; i++ {
		next++
		e.add(next, next*2)
		live = append(live, next)
	}
	q.scores = append(q.scores, [2]int64{0, math.MaxInt64}, [2]int64{2000, 2060})
	q.ranks = append(q.ranks, [2]int{0, 3}, [2]int{2, 100})
	e.current(&q, rnd)
	e.observeArgs(&q, false)
	cyc := 0
	unit := func() {
		switch c.Variant {
		case "update": // one member gets a new (highest) score
			next++
			e.add(live[cyc%len(live)], next*2)
			cyc++
		case "add+remove":
			next++
			e.add(next, next*2)
			live = append(live, next)
			e.rem(live[0])
			live = live[1:]
		case "rrs-one+add": // the lowest member leaves through RemoveRangeByScore
			next++
			e.add(next, next*2)
			live = append(live, next)
			s := e.ref[live[0]]
			e.rrs(s, s)
			live = live[1:]
		case "rrr-one+add":
			next++
			e.add(next, next*2)
			live = append(live, next)
			e.rrr(0, 0)
			live = live[1:]
		case "grow", "grow-then-shrink":
			next++
			e.add(next, next*2)
			live = append(live, next)
		case "reads":
			m := live[cyc%len(live)]
			cyc++
			e.call("read", func() {
				switch cyc % 4 {
				case 0:
					e.zs.Count(0, math.MaxInt64)
				case 1:
					e.zs.GetRank(e.mk(m), false)
				case 2:
					e.zs.GetRange(0, 2, false)
				default:
					e.zs.GetScore(e.mk(m))
				}
			})
		}
	}
	done := 0
	for _, at := range []int{1 << 16, 1 << 17, 1 << 18, 1 << 20, 1 << 21} {
		if at > c.N || e.dead {
			break
		}
		for ; done < at && !e.dead; done++ {
			unit()
		}
		if c.Variant == "reads" { // a change after the lookups, then everything again
			next++
			e.add(live[0], next*2)
			e.rem(live[1])
			live = append(live[2:], live[0])
		}
		e.observeArgs(&q, true) // the same arguments as before the gap, newest first
		e.current(&q, rnd)
		e.observeArgs(&q, false)
		if c.Variant == "grow-then-shrink" {
			// exactly as many removals as there were additions since the last observation, oldest first, unobserved
			for len(live) > pop && !e.dead {
				e.rem(live[0])
				live = live[1:]
			}
			e.observeArgs(&q, true)
			e.current(&q, rnd)
			e.observeArgs(&q, false)
		}
	}
	return e
}

// ---- leg: magnitude comparators -------------------------------------------------------------------------------

var magnitudeKinds = []string{"diff", "big", "extreme"}

func runMagnitude(c scase) *zeng {
	rnd := hxlib.NewRand(c.Seed)
	e := newZeng(c.Variant, c.Seed)
	base := []int64{0, 1, 2, 1 << 31, 1<<31 + 1, 1<<31 - 1, 1 << 32, 1<<32 + 1, 2 << 32, 3 << 32, 1 << 33, 1 << 40, 1<<40 + 1<<32,
		-1, -(1 << 31), -(1 << 32), -(1 << 32) - 1, -(1 << 40), 5 << 32, 1<<32 + 1<<31}
	var q qargs
	q.scores = [][2]int64{{0, 0}, {0, 1}, {1, 1}, {-5, 5}, {1, 0}}
	q.ranks = [][2]int{{0, 0}, {1, 3}, {-4, -2}, {2, 100}}
	q.mems = append([]int64{}, base...)
	steps := c.N
	for i := 0; i < steps && !e.dead; i++ {
		m := base[rnd.Intn(len(base))]
		if rnd.Chance(1, 6) {
			m += int64(rnd.Range(-2, 2)) << 32
		}
		switch x := rnd.Intn(100); {
		case x < 55:
			e.add(m, int64(rnd.Intn(2))) // two scores: long tie groups ordered by the comparator alone
		case x < 75:
			e.rem(m)
		case x < 83:
			e.rrr(rnd.Range(-3, 3), rnd.Range(-3, 6))
		case x < 88:
			s := int64(rnd.Intn(2))
			e.rrs(s, s)
		default:
			e.add(m, int64(rnd.Intn(2)))
		}
		e.observeArgs(&q, i%2 == 1)
	}
	return e
}

// ---- entry points -----------------------------------------------------------------------------------------------

func runSearchCase(c scase) *zeng {
	switch c.Leg {
	case "scale":
		return runScale(c)
	case "period":
		return runPeriod(c)
	case "magnitude":
		return runMagnitude(c)
	case "members": // legs3.go (normal tiers)
		return runMembers(c)
	case "wordranks": // legs3.go (normal tiers)
		return runWordRanks(c)
	}
	e := newZeng("", 0)
	e.fail("harness", "unknown search leg %q", c.Leg)
	return e
}

func searchLegs(r *hxlib.Run) {
	t0 := time.Now()
	for _, k := range magnitudeKinds {
		for i := 0; i < 40; i++ {
			c := scase{Leg: "magnitude", Variant: k, N: 150, Seed: r.R.U64()}
			r.Case()
			r.Count("search:magnitude")
			if runMagnitude(c).report(r, c) {
				return
			}
		}
	}
	r.Note("search leg magnitude: 120 histories of 150 calls with members whose CompareTo returns the int64 difference / +-2^40 / MinInt,MaxInt; two scores only, members 1, 2^31, 2^32, 2^33, 2^40 apart and multiples of 2^32 apart; everything observed after every call, %.1fs", time.Since(t0).Seconds())
	t0 = time.Now()
	largest := 0
	for i, v := range scaleVariants {
		n := 200000
		if i == int(r.Seed)%len(scaleVariants) {
			n = 1<<18 + 10
		}
		c := scase{Leg: "scale", Variant: v, N: n, Seed: r.R.U64()}
		r.Case()
		r.Count("search:scale")
		e := runScale(c)
		if e.maxLen > largest {
			largest = e.maxLen
		}
		if e.report(r, c) {
			return
		}
	}
	r.Note("search leg scale: %v insertion of 200 000 members (one variant: 2^18+10; largest set observed %d), observed in full around 2^16/2^17/2^18 members and after 5000 score updates, RemoveRangeByRank and ByScore of 2^16+ members at once, 10 000 removals, emptying, reuse; rank windows of 2^16-1..2^18+1 positions at 0, 2^16+-1, 2^17, n/3 in both directions and by negative indices, %.1fs", scaleVariants, largest, time.Since(t0).Seconds())
	t0 = time.Now()
	for i, v := range periodVariants {
		n := 1 << 20
		if (i+int(r.Seed))%3 == 0 {
			n = 1 << 21
		}
		if v == "grow" || v == "grow-then-shrink" {
			n = 1 << 18
		}
		c := scase{Leg: "period", Variant: v, N: n, Seed: r.R.U64()}
		r.Case()
		r.Count("search:period")
		if runPeriod(c).report(r, c) {
			return
		}
	}
	r.Note("search leg period: %d variants %v on a set of 24 members: every observation, then 2^16, 2^16, 2^17, 3*2^18 (a third of the variants per seed: and 2^20) identical units with no observation, then every observation again with the same and with new arguments (growth variants stop at 2^18 units), %.1fs", len(periodVariants), periodVariants, time.Since(t0).Seconds())
}
