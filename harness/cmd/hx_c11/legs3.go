// legs3.go: legs of hx_c11 that run in the NORMAL tiers (quick and thorough).
//
//	towers     (K13) the real skip list is made to draw towers of height 12 (= ZSKIPLIST_MAXLEVEL), 11 and 10 within its
//	           first one to four inserts: math/rand's stream for a seed is scanned (a private rand.New(rand.NewSource(seed))
//	           replays what the global source will deliver after rand.Seed(seed)) for a run of 11 / exactly 10 / exactly 9
//	           promotions of randLevel, and the case burns exactly the draws in front of it (tcase.Burn). The history
//	           then continues as an ordinary random one (score updates and removal of the tall member included); kinds z
//	           and l; model-compared like every other case (the `zadd`/`linsert` lines carry the height read back from
//	           the real list, so the aim is verified, not assumed: histogram `tower-height:12`).
//	words      (K5) every int / int64 parameter of the API at the machine-word extremes, ALL PAIRS of
//	           MinInt, MinInt+1, -2^32-1..-2^31+1, -65..-62, -7..7, 62..65, 2^31-1..2^32+1, MaxInt-1, MaxInt for
//	           GetRange / RemoveRangeByRank / Count / GetRangeByScore / RemoveRangeByScore on the six-member tie set
//	           (model-compared), the same for the list primitives GetElementByRank / IsInRange / FirstInRange /
//	           LastInRange / DeleteRangeByRank / DeleteRangeByScore; and oracle-only on sets of 66 and 130 members (so
//	           that 62..65 are real ranks), scores at the extremes included.
//	members    (K1) member types other than a small int: strings, comparable structs, pointers (one object per member),
//	           arrays — every observation after every call (oracle-only).
//	held       (K8) every GetRange / GetRangeByScore result of the oracle-only legs is kept and compared again with what
//	           it held when it was returned after 1, 2, 8 and 64 further changes of the set.
//
// Not applicable to this API: re-entrancy (no callbacks), constructor diversity (one constructor each), uncomparable
// member types (the set keys a Go map by the member: they are refused by the language, not by the set).
package main

import (
	"fmt"
	"math"
	"math/rand"
	"strconv"
	"strings"
	"time"

	"verifharness/hxlib"

	"qchen.fun/fatchoy/collections"
	"qchen.fun/fatchoy/collections/zset"
)

// ---- towers (K13) -------------------------------------------------------------------------------------------------

// promotes: randLevel's test on one draw, written with the package's own constants.
func promotes(u uint32) bool { return float32(u&0xFFFF) < zset.ZSKIPLIST_P*0xFFFF }

// findTower scans the stream of `seed` for the first randLevel call that would return `height` (at least `height`
// when it is the maximum) and returns the number of draws to burn so that exactly `before` complete randLevel calls
// come first. ok=false: not within maxDraws.
func findTower(seed int64, height, before, maxDraws int) (burn int, ok bool) {
	src := rand.New(rand.NewSource(seed))
	need := height - 1 // promotions in a row
	var stops []int    // positions of the draws that ended a randLevel call (non-promotions), most recent last
	run, start := 0, 0
	for i := 0; i < maxDraws; i++ {
		if promotes(src.Uint32()) {
			if run == 0 {
				start = i
			}
			run++
			if run == need && height >= zset.ZSKIPLIST_MAXLEVEL {
				return burnFor(stops, start, before)
			}
			continue
		}
		if run == need && height < zset.ZSKIPLIST_MAXLEVEL {
			return burnFor(stops, start, before)
		}
		run = 0
		stops = append(stops, i)
		if len(stops) > 64 {
			stops = append(stops[:0], stops[len(stops)-16:]...)
		}
	}
	return 0, false
}

func burnFor(stops []int, start, before int) (int, bool) {
	if before == 0 {
		return start, true
	}
	// the call in front of `start` ended at stops[len-1] (= start-1); `before` calls back starts after stops[len-1-before]
	j := len(stops) - 1 - before
	if j < 0 {
		return 0, false
	}
	return stops[j] + 1, true
}

func towerLegs(r *hxlib.Run) {
	t0 := time.Now()
	type aim struct{ height, before int }
	aims := []aim{{12, 0}, {12, 2}, {11, 0}, {10, 1}}
	if r.Thorough() {
		aims = nil
		for rep := 0; rep < 3; rep++ {
			for _, h := range []int{12, 12, 11, 10} {
				for before := 0; before <= 3; before++ {
					aims = append(aims, aim{h, before})
				}
			}
		}
	}
	reached, missed := map[int]int{}, 0
	for i, a := range aims {
		seed := int64(r.R.U64() >> 1)
		burn, ok := findTower(seed, a.height, a.before, 60000000)
		if !ok {
			missed++
			continue
		}
		// prefix: `before` inserts of fresh members, then the member that gets the tall tower
		for _, kind := range []string{"z", "l"} {
			if kind == "l" && i%2 == 1 && !r.Thorough() {
				continue
			}
			var prefix []op
			name := "zadd"
			if kind == "l" {
				name = "linsert"
			}
			for j := 0; j <= a.before; j++ {
				prefix = append(prefix, op{Op: name, E: j + 1, A: int64(r.R.Range(0, 5))})
			}
			var c tcase
			if kind == "z" {
				c = randomZFrom(r, r.R.Range(30, 90), prefix)
			} else {
				c = randomLFrom(r, r.R.Range(30, 90), prefix)
			}
			c.Seed, c.Burn = seed, burn
			r.Count("leg:towers")
			one(r, c)
			if maxHeightSeen >= a.height {
				reached[a.height]++
			} else if !r.Failed() {
				missed++
			}
		}
	}
	r.Note("leg towers: %d aims at tower heights 12/11/10 within the first 1..4 inserts (stream scan + burnt draws), kinds z and l, continued by ordinary random histories; cases whose tallest tower read back from the real list reached the aim: %v, missed: %d, %.1fs",
		len(aims), reached, missed, time.Since(t0).Seconds())
	if missed > 0 && !r.Failed() {
		r.Note("leg towers: %d aim(s) missed — randLevel no longer consumes math/rand's global stream the way the scan assumes", missed)
	}
}

// ---- words (K5), model-compared part --------------------------------------------------------------------------------

var wordVals = []int64{math.MinInt64, math.MinInt64 + 1, -(1 << 32) - 1, -(1 << 32), -(1 << 32) + 1, -(1 << 31) - 1, -(1 << 31), -(1 << 31) + 1,
	-65, -64, -63, -62, -7, -6, -5, -1, 0, 1, 5, 6, 7, 62, 63, 64, 65, 1<<31 - 1, 1 << 31, 1<<31 + 1, 1<<32 - 1, 1 << 32, 1<<32 + 1, math.MaxInt64 - 1, math.MaxInt64}

func wordCases() []tcase {
	add := func(e int, s int64) op { return op{Op: "zadd", E: e, A: s} }
	ins := func(e int, s int64) op { return op{Op: "linsert", E: e, A: s} }
	ties := []op{add(3, 1), add(1, 1), add(2, 1), add(6, 2), add(4, 2), add(5, 2)}
	lb := []op{ins(3, 1), ins(1, 1), ins(2, 1), ins(6, 2), ins(4, 2), ins(5, 2)}
	// scores at the extremes too: members 7, 8 sit on MinInt64 / MaxInt64
	wide := append(append([]op{}, ties...), add(7, math.MinInt64), add(8, math.MaxInt64), add(9, math.MaxInt64-1), add(10, math.MinInt64+1))
	lwide := append(append([]op{}, lb...), ins(7, math.MinInt64), ins(8, math.MaxInt64), ins(9, math.MaxInt64-1), ins(10, math.MinInt64+1))
	var out []tcase
	// all queries of all pairs: two cases (tie set, wide set) per kind
	for wi, base := range [][]op{ties, wide} {
		q := append([]op{}, base...)
		for _, a := range wordVals {
			for _, b := range wordVals {
				q = append(q, op{Op: "zrange", A: a, B: b}, op{Op: "zrange", A: a, B: b, Rev: true},
					op{Op: "zcount", A: a, B: b}, op{Op: "zrbs", A: a, B: b}, op{Op: "zrbs", A: a, B: b, Rev: true})
			}
		}
		out = append(out, tcase{Kind: "z", Seed: int64(20 + wi), Ops: q})
	}
	for wi, base := range [][]op{lb, lwide} {
		q := append([]op{}, base...)
		for _, a := range wordVals {
			q = append(q, op{Op: "lbyrank", A: a})
			for _, b := range wordVals {
				q = append(q, op{Op: "linrange", A: a, B: b}, op{Op: "lfirst", A: a, B: b}, op{Op: "llast", A: a, B: b})
			}
		}
		out = append(out, tcase{Kind: "l", Seed: int64(22 + wi), Ops: q})
	}
	// the removals: one fresh set per pair
	for _, a := range wordVals {
		for _, b := range wordVals {
			out = append(out,
				tcase{Kind: "z", Seed: 24, Ops: append(append([]op{}, ties...), op{Op: "zrrr", A: a, B: b}, op{Op: "zdump"}, op{Op: "zlen"})},
				tcase{Kind: "z", Seed: 25, Ops: append(append([]op{}, wide...), op{Op: "zrrs", A: a, B: b}, op{Op: "zdump"})},
				tcase{Kind: "l", Seed: 26, Ops: append(append([]op{}, lb...), op{Op: "ldrr", A: a, B: b}, op{Op: "ldump"})},
				tcase{Kind: "l", Seed: 27, Ops: append(append([]op{}, lwide...), op{Op: "ldrs", A: a, B: b}, op{Op: "ldump"})})
		}
	}
	return out
}

// ---- members (K1) ------------------------------------------------------------------------------------------------------

type strMem string

func (m strMem) CompareTo(o collections.Comparable) int {
	return strings.Compare(string(m), string(o.(strMem)))
}

type recMem struct {
	id   int64
	name string
	tag  [2]byte
}

func (m recMem) CompareTo(o collections.Comparable) int { return cmpI64(m.id, o.(recMem).id) }

type ptrMem struct {
	id    int64
	extra []int // a pointer may lead to anything
}

func (m *ptrMem) CompareTo(o collections.Comparable) int { return cmpI64(m.id, o.(*ptrMem).id) }

type arrMem [2]int64

func (m arrMem) CompareTo(o collections.Comparable) int {
	x := o.(arrMem)
	if c := cmpI64(m[0], x[0]); c != 0 {
		return c
	}
	return cmpI64(m[1], x[1])
}

func cmpI64(a, b int64) int {
	switch {
	case a < b:
		return -1
	case a > b:
		return 1
	}
	return 0
}

var memberKinds = []string{"str", "rec", "ptr", "arr"}

// memberKind installs mk/un of a member family whose Go == coincides with CompareTo == 0 (the set's documented
// contract: it keys a map by the member).
func memberKind(e *zeng, kind string) bool {
	switch kind {
	case "str":
		e.mk = func(x int64) collections.Comparable { return strMem(fmt.Sprintf("%020d", uint64(x)^(1<<63))) }
		e.un = func(c collections.Comparable) (int64, bool) {
			m, ok := c.(strMem)
			if !ok {
				return 0, false
			}
			u, err := strconv.ParseUint(string(m), 10, 64)
			if err != nil {
				return 0, false
			}
			return int64(u ^ (1 << 63)), true
		}
	case "rec":
		e.mk = func(x int64) collections.Comparable {
			return recMem{id: x, name: fmt.Sprint("m", x), tag: [2]byte{byte(x), byte(x >> 8)}}
		}
		e.un = func(c collections.Comparable) (int64, bool) { m, ok := c.(recMem); return m.id, ok }
	case "ptr":
		objs := map[int64]*ptrMem{}
		e.mk = func(x int64) collections.Comparable {
			if p, ok := objs[x]; ok {
				return p
			}
			p := &ptrMem{id: x, extra: []int{int(x)}}
			objs[x] = p
			return p
		}
		e.un = func(c collections.Comparable) (int64, bool) {
			m, ok := c.(*ptrMem)
			if !ok || m == nil {
				return 0, false
			}
			return m.id, true
		}
	case "arr":
		e.mk = func(x int64) collections.Comparable { return arrMem{x >> 32, x & 0xffffffff} }
		e.un = func(c collections.Comparable) (int64, bool) { m, ok := c.(arrMem); return m[0]<<32 | m[1], ok }
	default:
		return false
	}
	e.hold = true
	return true
}

// ---- held outputs (K8) -------------------------------------------------------------------------------------------------

type heldList struct {
	descr string
	got   []collections.Comparable
	want  []int64
	at    int
}

func (e *zeng) keep(descr string, got []collections.Comparable) {
	if !e.hold || e.dead || len(got) == 0 || len(e.held) > 400 {
		return
	}
	h := heldList{descr: descr, got: got, at: e.muts}
	for _, g := range got {
		x, _ := e.un(g)
		h.want = append(h.want, x)
	}
	e.held = append(e.held, h)
}

func (e *zeng) mutated() {
	e.muts++
	if !e.hold || e.dead || len(e.held) == 0 {
		return
	}
	live := e.held[:0]
	for _, h := range e.held {
		age := e.muts - h.at
		if age == 1 || age == 2 || age == 8 || age == 64 {
			for i, w := range h.want {
				if i >= len(h.got) {
					break
				}
				if g, ok := e.un(h.got[i]); !ok || g != w {
					e.fail("held-output", "element %d of the result of %s was member %d when it was returned and reads %v %d changes of the set later", i, h.descr, w, h.got[i], age)
					return
				}
			}
		}
		if age < 64 {
			live = append(live, h)
		}
	}
	e.held = live
}

func runMembers(c scase) *zeng {
	rnd := hxlib.NewRand(c.Seed)
	e := newZeng(c.Variant, c.Seed)
	base := []int64{0, 1, 2, 3, 4, 5, 6, 7, 8, 9, 10, 11, -1, -2, 1 << 32, 1<<32 + 1, -(1 << 32), 1 << 40}
	var q qargs
	q.scores = [][2]int64{{0, 0}, {0, 1}, {1, 1}, {-5, 5}, {1, 0}, {math.MinInt64, math.MaxInt64}, {2, math.MaxInt64}}
	q.ranks = [][2]int{{0, 0}, {1, 3}, {-4, -2}, {2, 100}, {0, math.MaxInt}, {math.MinInt, -1}}
	q.mems = append([]int64{}, base...)
	for i := 0; i < c.N && !e.dead; i++ {
		m := base[rnd.Intn(len(base))]
		switch x := rnd.Intn(100); {
		case x < 60:
			e.add(m, int64(rnd.Intn(3)))
		case x < 78:
			e.rem(m)
		case x < 86:
			e.rrr(rnd.Range(-3, 3), rnd.Range(-3, 6))
		case x < 92:
			s := int64(rnd.Intn(3))
			e.rrs(s, s)
		default:
			e.add(m, wordVals[rnd.Intn(len(wordVals))])
		}
		e.observeArgs(&q, i%2 == 1)
	}
	return e
}

// runWordRanks: sets of c.N members (scores: ties, or word extremes); every pair of word values as a rank window and as
// a score window for the queries; removals by rank and by score for the pairs whose first value is a real rank.
func runWordRanks(c scase) *zeng {
	rnd := hxlib.NewRand(c.Seed)
	fill := func() *zeng {
		e := newZeng("", c.Seed)
		e.hold = c.Variant == "held"
		for m := 1; m <= c.N; m++ {
			s := int64(m % 5)
			if c.Variant == "wide" {
				s = wordVals[m%len(wordVals)]
			}
			e.add(int64(m), s)
		}
		return e
	}
	e := fill()
	for _, a := range wordVals {
		for _, b := range wordVals {
			rev := rnd.Bool()
			e.qRange(int(a), int(b), rev)
			e.qCount(a, b)
			e.qByScore(a, b, !rev)
			if e.dead {
				return e
			}
		}
	}
	e.qLen()
	total := e.n
	for _, a := range wordVals {
		if a < -int64(c.N)-2 || a > int64(c.N)+2 {
			if a != math.MinInt64 && a != math.MaxInt64 && a != math.MinInt64+1 {
				continue
			}
		}
		for _, b := range wordVals {
			f := fill()
			if rnd.Bool() {
				f.rrr(int(a), int(b))
			} else {
				f.rrs(a, b)
			}
			f.qLen()
			f.qRange(0, -1, false)
			total += f.n
			if f.dead {
				f.n = total
				return f
			}
		}
	}
	e.n = total
	return e
}

func memberLegs(r *hxlib.Run) {
	t0 := time.Now()
	cases, calls := 0, 0
	run := func(c scase) bool {
		r.Case()
		r.Count("leg:" + c.Leg)
		e := runSearchCase(c)
		cases++
		calls += e.n
		if e.maxLen >= 3 {
			r.NonTrivial(fmt.Sprintf("%s/%s/%d/%d", c.Leg, c.Variant, c.N, c.Seed))
		}
		return e.report(r, c)
	}
	for rep := 0; rep < r.Scale(4, 60); rep++ {
		for _, k := range memberKinds {
			if run(scase{Leg: "members", Variant: k, N: r.R.Pick(20, 60, 120), Seed: r.R.U64()}) {
				return
			}
		}
	}
	for _, v := range []string{"ties", "wide", "held"} {
		for _, n := range []int{66, 130} {
			if run(scase{Leg: "wordranks", Variant: v, N: n, Seed: r.R.U64()}) {
				return
			}
		}
	}
	r.Note("legs members/wordranks/held: %d oracle-only histories (%d calls): member families %v observed after every call; sets of 66 and 130 members (scores tied / at the word extremes) asked every pair of %d machine-word values as rank window and score window, removals by rank and by score from fresh sets; listings re-read 1, 2, 8, 64 changes later, %.1fs",
		cases, calls, memberKinds, len(wordVals), time.Since(t0).Seconds())
}
