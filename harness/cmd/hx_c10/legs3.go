// legs3.go: legs of hx_c10 that run in the NORMAL tiers (quick and thorough), oracle-only (the Lean model has Nat keys and
// Int values, so none of this is expressible as op lines; the oracle is the property's sorted map, see search.go).
//
// They vary what the op-sequence generators of main.go keep fixed: not WHICH keys are present or what shape the tree has,
// but what a key or a value IS.
//
//	keyrep     (K1) key types whose CompareTo-equality is coarser than (or undefined next to) Go's ==, every call made
//	           with a FRESH key object that is equal by comparator but not identical to the stored one:
//	             ptr      *struct ordered by a rank field (probe = new object)
//	             fold     case-insensitive strings (stored "bob", probed "BoB")
//	             payload  comparable struct ordered by id with a payload field that differs per call
//	             bytes    []byte ordered by bytes.Compare (uncomparable dynamic type)
//	             tagged   struct holding a slice (uncomparable dynamic type)
//	             float    float64 with -0.0 / +0.0 alternating for rank 0
//	             k64      (K5) int64 keys MinInt64, MinInt64+1, -2^32-1 .. 2^32+1, 62..65, MaxInt64-1, MaxInt64 with
//	                      the -1/0/+1 comparator
//	           every query (Get, Contains, GetOrDefault, First/Last, Floor/Ceiling/Higher entry and key, Keys, Values,
//	           all traversals, Foreach) for every present key, its successor rank and fixed probes after EVERY call;
//	           all five iterator kinds with selective removal.
//	valrep     (K1) values of every dynamic type next to int stamps: untyped nil, typed nil pointer, nil slice, 0, "",
//	           false, []byte, map, func, struct holding a slice, -0.0, +0.0, NaN, [2]float64{0,-0}, MaxInt64/MinInt64;
//	           compared by IDENTITY (type, bits, slice/map/func pointer), never by ==. GetOrDefault gets a unique
//	           pointer as its default.
//	held       (K8) every Keys()/Values() result is kept and compared again with what it held when it was returned
//	           after 1, 2, 8 and 64 further changes of the map.
//	reentrant  (K3) Foreach / in-order / pre-order / post-order actions that query the map they are walking (Get,
//	           Contains, HigherKey, FloorKey, Keys, Size) and must get the sorted map's answers.
//	zero       (K4) the zero value `new(treemap.Map)` next to treemap.New().
//
// A case is (leg "keyrep", variant = key family, n calls, seed): regenerated on replay.
package main

import (
	"bytes"
	"fmt"
	"math"
	"reflect"
	"sort"
	"strings"
	"sync/atomic"
	"time"

	"verifharness/hxlib"

	"qchen.fun/fatchoy/collections"
	"qchen.fun/fatchoy/collections/treemap"
)

// ---- identity of dynamic values ------------------------------------------------------------------------------------

// identical: same dynamic type and the same value bit for bit (floats by bit pattern; slices, maps, funcs, pointers,
// channels by address (+ length); structs and arrays field by field). Never uses == on an interface.
func identical(a, b interface{}) bool {
	if a == nil || b == nil {
		return a == nil && b == nil
	}
	return identicalV(reflect.ValueOf(a), reflect.ValueOf(b))
}

func identicalV(a, b reflect.Value) bool {
	if a.Type() != b.Type() {
		return false
	}
	switch a.Kind() {
	case reflect.Bool:
		return a.Bool() == b.Bool()
	case reflect.Int, reflect.Int8, reflect.Int16, reflect.Int32, reflect.Int64:
		return a.Int() == b.Int()
	case reflect.Uint, reflect.Uint8, reflect.Uint16, reflect.Uint32, reflect.Uint64, reflect.Uintptr:
		return a.Uint() == b.Uint()
	case reflect.Float32, reflect.Float64:
		return math.Float64bits(a.Float()) == math.Float64bits(b.Float())
	case reflect.Complex64, reflect.Complex128:
		x, y := a.Complex(), b.Complex()
		return math.Float64bits(real(x)) == math.Float64bits(real(y)) && math.Float64bits(imag(x)) == math.Float64bits(imag(y))
	case reflect.String:
		return a.String() == b.String()
	case reflect.Slice:
		return a.IsNil() == b.IsNil() && a.Len() == b.Len() && a.Pointer() == b.Pointer()
	case reflect.Map, reflect.Func, reflect.Ptr, reflect.Chan, reflect.UnsafePointer:
		return a.Pointer() == b.Pointer()
	case reflect.Interface:
		if a.IsNil() || b.IsNil() {
			return a.IsNil() && b.IsNil()
		}
		return identicalV(a.Elem(), b.Elem())
	case reflect.Array:
		for i := 0; i < a.Len(); i++ {
			if !identicalV(a.Index(i), b.Index(i)) {
				return false
			}
		}
		return true
	case reflect.Struct:
		for i := 0; i < a.NumField(); i++ {
			if !identicalV(a.Field(i), b.Field(i)) {
				return false
			}
		}
		return true
	}
	return false
}

func showVal(v interface{}) string {
	if v == nil {
		return "nil"
	}
	rv := reflect.ValueOf(v)
	switch rv.Kind() {
	case reflect.Float64, reflect.Float32:
		return fmt.Sprintf("%T(%v bits %#x)", v, v, math.Float64bits(rv.Float()))
	case reflect.Func:
		return fmt.Sprintf("%T@%#x", v, rv.Pointer())
	case reflect.Ptr, reflect.Map:
		return fmt.Sprintf("%T@%#x", v, rv.Pointer())
	case reflect.Slice:
		return fmt.Sprintf("%T(len %d nil %v)@%#x", v, rv.Len(), rv.IsNil(), rv.Pointer())
	}
	s := fmt.Sprintf("%T(%+v)", v, v)
	if len(s) > 80 {
		s = s[:80] + "…"
	}
	return s
}

// ---- the value pool ---------------------------------------------------------------------------------------------------

type valBox struct {
	id   int
	tags []int
}

var (
	negZero  = math.Copysign(0, -1)
	nilIntP  *int
	nilBytes []byte
	someFunc = func() {}
	someMap  = map[string]int{"a": 1}
	someBox  = &valBox{id: 7}
)

// poolValue: the dynamic value of stamp v. Even stamps are the stamp itself (an int, so that a replaced value is told
// from its predecessor); odd stamps walk the pool of awkward values; every third odd stamp is a FRESH uncomparable value
// holding the stamp.
func poolValue(v int) interface{} {
	if v&1 == 0 {
		return v
	}
	h := uint64(v) * 0x9E3779B97F4A7C15
	h ^= h >> 29
	switch x := int(h % 24); x {
	case 0, 1, 2:
		return nil // the untyped nil: a sorted SET keeps nil values
	case 3:
		return nilIntP
	case 4:
		return nilBytes
	case 5:
		return 0
	case 6:
		return ""
	case 7:
		return false
	case 8:
		return []byte{1, 2}
	case 9:
		return someMap
	case 10:
		return someFunc
	case 11:
		return valBox{id: v, tags: []int{v}}
	case 12, 13:
		return negZero
	case 14, 15:
		return 0.0
	case 16:
		return math.NaN()
	case 17:
		return [2]float64{0, negZero}
	case 18:
		return int64(math.MaxInt64)
	case 19:
		return int64(math.MinInt64)
	case 20:
		return someBox
	case 21:
		return []int{v}
	case 22:
		return complex(0, negZero)
	default:
		return error(nil)
	}
}

func (e *meng) valOf(v int) interface{} {
	if e.vals == nil {
		return v
	}
	if x, ok := e.made[v]; ok {
		return x
	}
	x := e.vals(v)
	e.made[v] = x
	return x
}

func (e *meng) valIs(got interface{}, v int) bool {
	if e.vals == nil {
		return got == interface{}(v)
	}
	return identical(got, e.valOf(v))
}

func (e *meng) showStamp(v int) string {
	if e.vals == nil {
		return fmt.Sprint(v)
	}
	return showVal(e.valOf(v))
}

func (e *meng) defOf() interface{} {
	if e.defv == nil {
		return -7
	}
	return e.defv
}

// ---- held outputs (K8) --------------------------------------------------------------------------------------------------

type heldOut struct {
	ks    []treemap.KeyType
	vs    []interface{}
	wantK []int64
	wantV []int
	at    int // e.muts when it was returned
}

func (e *meng) keep(ks []treemap.KeyType, vs []interface{}) {
	if !e.hold || e.dead {
		return
	}
	want := e.keys()
	h := heldOut{ks: ks, vs: vs, wantK: append([]int64{}, want...), at: e.muts}
	for _, k := range want {
		h.wantV = append(h.wantV, e.ref[k])
	}
	e.held = append(e.held, h)
}

// mutated: one more change of the map went through; re-read every held listing of age 1, 2, 8, 64.
func (e *meng) mutated() {
	e.muts++
	if !e.hold || e.dead || len(e.held) == 0 {
		return
	}
	live := e.held[:0]
	for _, h := range e.held {
		age := e.muts - h.at
		if age == 1 || age == 2 || age == 8 || age == 64 {
			if len(h.ks) != len(h.wantK) || len(h.vs) != len(h.wantV) {
				e.fail("held-output", "a Keys()/Values() result of %d entries changed its length to %d/%d behind the caller's back, %d changes of the map later", len(h.wantK), len(h.ks), len(h.vs), age)
				return
			}
			for i := range h.wantK {
				if g, ok := e.un(h.ks[i]); !ok || g != h.wantK[i] {
					e.fail("held-output", "element %d of a Keys() result was %d when it was returned and reads %v %d changes of the map later", i, h.wantK[i], h.ks[i], age)
					return
				}
				if !e.valIs(h.vs[i], h.wantV[i]) {
					e.fail("held-output", "element %d of a Values() result was %s when it was returned and reads %s %d changes of the map later", i, e.showStamp(h.wantV[i]), showVal(h.vs[i]), age)
					return
				}
			}
		}
		if age < 64 {
			live = append(live, h)
		}
	}
	e.held = live
}

// ---- key families ---------------------------------------------------------------------------------------------------

// ptr: ordered by rank, identity is the address
type PtrK struct {
	rank int64
	note string
}

func (a *PtrK) CompareTo(o collections.Comparable) int { return cmp64(a.rank, o.(*PtrK).rank) }

// fold: case-insensitive text
type FoldK string

func (a FoldK) CompareTo(o collections.Comparable) int {
	return strings.Compare(strings.ToLower(string(a)), strings.ToLower(string(o.(FoldK))))
}

// payload: comparable struct, the order ignores the payload
type PayK struct {
	id      int64
	payload int
	label   string
}

func (a PayK) CompareTo(o collections.Comparable) int { return cmp64(a.id, o.(PayK).id) }

// bytes: slice-backed key
type BytesK []byte

func (a BytesK) CompareTo(o collections.Comparable) int { return bytes.Compare(a, o.(BytesK)) }

// tagged: struct holding a slice
type TagK struct {
	id   int64
	tags []string
}

func (a TagK) CompareTo(o collections.Comparable) int { return cmp64(a.id, o.(TagK).id) }

// float: -0.0 and +0.0 are one key
type FloatK float64

func (a FloatK) CompareTo(o collections.Comparable) int {
	b := o.(FloatK)
	switch {
	case a < b:
		return -1
	case a > b:
		return 1
	}
	return 0
}

// k64: int64 with the three-way comparator (the int keys of the other legs are 32 bits wide on 386)
type K64 int64

func (a K64) CompareTo(o collections.Comparable) int { return cmp64(int64(a), int64(o.(K64))) }

func cmp64(a, b int64) int {
	switch {
	case a < b:
		return -1
	case a > b:
		return 1
	}
	return 0
}

const foldDigits = 14 // 26^14 > 2^64

func foldText(rank int64, fresh uint64) string {
	u := uint64(rank) ^ (1 << 63) // order preserving
	var b [foldDigits]byte
	for i := foldDigits - 1; i >= 0; i-- {
		c := byte('a' + u%26)
		if fresh>>uint(i)&1 == 1 {
			c -= 'a' - 'A'
		}
		b[i] = c
		u /= 26
	}
	return string(b[:])
}

func unfold(s string) (int64, bool) {
	if len(s) != foldDigits {
		return 0, false
	}
	var u uint64
	for i := 0; i < len(s); i++ {
		c := s[i] | 0x20
		if c < 'a' || c > 'z' {
			return 0, false
		}
		u = u*26 + uint64(c-'a')
	}
	return int64(u ^ (1 << 63)), true
}

var keyFamilies = []string{"ptr", "fold", "payload", "bytes", "tagged", "float", "k64"}

// newKeyrepMeng: an engine whose mk returns a FRESH, differently represented key object on every call.
func newKeyrepMeng(family string, zero bool) *meng {
	e := &meng{m: treemap.New(), ref: map[int64]int{}}
	if zero {
		e.m = new(treemap.Map)
	}
	var fresh uint64
	switch family {
	case "ptr":
		e.mk = func(x int64) treemap.KeyType { fresh++; return &PtrK{rank: x, note: fmt.Sprint("probe", fresh)} }
		e.un = func(k treemap.KeyType) (int64, bool) {
			v, ok := k.(*PtrK)
			if !ok || v == nil {
				return 0, false
			}
			return v.rank, true
		}
	case "fold":
		e.mk = func(x int64) treemap.KeyType {
			fresh = fresh*6364136223846793005 + 1442695040888963407
			return FoldK(foldText(x, fresh>>40))
		}
		e.un = func(k treemap.KeyType) (int64, bool) {
			v, ok := k.(FoldK)
			if !ok {
				return 0, false
			}
			return unfold(string(v))
		}
	case "payload":
		e.mk = func(x int64) treemap.KeyType {
			fresh++
			return PayK{id: x, payload: int(fresh), label: fmt.Sprint("p", fresh%5)}
		}
		e.un = func(k treemap.KeyType) (int64, bool) { v, ok := k.(PayK); return v.id, ok }
	case "bytes":
		e.mk = func(x int64) treemap.KeyType {
			u := uint64(x) ^ (1 << 63)
			b := make(BytesK, 8)
			for i := 7; i >= 0; i-- {
				b[i] = byte(u)
				u >>= 8
			}
			return b
		}
		e.un = func(k treemap.KeyType) (int64, bool) {
			v, ok := k.(BytesK)
			if !ok || len(v) != 8 {
				return 0, false
			}
			var u uint64
			for _, c := range v {
				u = u<<8 | uint64(c)
			}
			return int64(u ^ (1 << 63)), true
		}
	case "tagged":
		e.mk = func(x int64) treemap.KeyType { fresh++; return TagK{id: x, tags: []string{fmt.Sprint("t", fresh)}} }
		e.un = func(k treemap.KeyType) (int64, bool) { v, ok := k.(TagK); return v.id, ok }
	case "float":
		e.mk = func(x int64) treemap.KeyType {
			fresh++
			if x == 0 && fresh&1 == 1 {
				return FloatK(negZero)
			}
			return FloatK(float64(x))
		}
		e.un = func(k treemap.KeyType) (int64, bool) { v, ok := k.(FloatK); return int64(v), ok }
	case "k64":
		e.mk = func(x int64) treemap.KeyType { return K64(x) }
		e.un = func(k treemap.KeyType) (int64, bool) { v, ok := k.(K64); return int64(v), ok }
	default:
		e.fail("harness", "unknown key family %q", family)
	}
	e.vals = poolValue
	e.made = map[int]interface{}{}
	e.defv = &valBox{id: -7}
	e.hold = true
	return e
}

var wordExtremes = []int64{math.MinInt64, math.MinInt64 + 1, -(1 << 32) - 1, -(1 << 32), -(1 << 32) + 1, -(1 << 31) - 1, -(1 << 31), -(1 << 31) + 1,
	-65, -64, -63, -62, -1, 0, 1, 62, 63, 64, 65, 1<<31 - 1, 1 << 31, 1<<31 + 1, 1<<32 - 1, 1 << 32, 1<<32 + 1, math.MaxInt64 - 1, math.MaxInt64}

// qReentrant (K3): actions that query the map they are being called from.
func (e *meng) qReentrant() {
	if e.dead {
		return
	}
	ks := e.keys()
	n := len(ks)
	for _, t := range []struct {
		name string
		walk func(treemap.EntryAction)
	}{{"foreach", e.m.Foreach}, {"in", e.m.InOrderTraversal}, {"pre", e.m.PreOrderTraversal}, {"post", e.m.PostOrderTraversal}} {
		visited := 0
		name := t.name
		e.call("reentrant-"+name, func() {
			t.walk(func(k treemap.KeyType, v interface{}) {
				visited++
				if e.dead {
					return
				}
				kk, ok := e.un(k)
				rv, in := e.ref[kk]
				if !ok || !in {
					e.fail("reentrant", "%s hands its action key %v, which the sorted map does not hold", name, k)
					return
				}
				got, found := e.m.Get(e.mk(kk))
				has := e.m.Contains(e.mk(kk))
				hk := e.m.HigherKey(e.mk(kk))
				fk := e.m.FloorKey(e.mk(kk))
				sz := e.m.Size()
				j := sort.Search(n, func(i int) bool { return ks[i] > kk })
				hi, hok := e.un(hk)
				fl, fok := e.un(fk)
				switch {
				case !found || !has || !e.valIs(got, rv):
					e.fail("reentrant", "Get(%d) from inside a %s action = (%s,%v), Contains = %v; the sorted map holds %s", kk, name, showVal(got), found, has, e.showStamp(rv))
				case (j < n) != (hk != nil) || (j < n && (!hok || hi != ks[j])):
					e.fail("reentrant", "HigherKey(%d) from inside a %s action = %v, the sorted map says found=%v", kk, name, hk, j < n)
				case !fok || fl != kk:
					e.fail("reentrant", "FloorKey(%d) from inside a %s action = %v", kk, name, fk)
				case sz != n:
					e.fail("reentrant", "Size() from inside a %s action = %d, the sorted map holds %d", name, sz, n)
				}
				if visited == 1 && n <= 16 {
					if l := e.m.Keys(); len(l) != n {
						e.fail("reentrant", "Keys() from inside a %s action lists %d keys, the sorted map holds %d", name, len(l), n)
					}
				}
			})
		})
		if !e.dead && visited != n {
			e.fail("reentrant", "%s with a querying action visited %d entries, the sorted map holds %d", name, visited, n)
		}
		if e.dead {
			return
		}
	}
}

// runKeyrep: a random history over a small rank universe (or the machine-word extremes for k64); after every call every
// query for every present rank, its neighbours and the fixed probes, each with a fresh key object.
func runKeyrep(c scase) *meng {
	rnd := hxlib.NewRand(c.Seed)
	e := newKeyrepMeng(c.Variant, c.Seed&1 == 1)
	base := []int64{-3, -1, 0, 1, 2, 3, 5, 8, 9, 10, 11, 12, 40, 41}
	switch c.Variant {
	case "k64", "bytes", "fold":
		if c.Seed&2 == 2 || c.Variant == "k64" {
			base = wordExtremes
		}
	}
	pick := func() int64 { return base[rnd.Intn(len(base))] }
	for i := 0; i < c.N && !e.dead; i++ {
		switch x := rnd.Intn(100); {
		case x < 55:
			e.put(pick())
		case x < 82:
			e.rm(pick())
		case x < 84:
			e.clear()
		case x < 92:
			kind := kinds[rnd.Intn(len(kinds))]
			mod := int64(rnd.Range(1, 3))
			e.walk(kind, 1000, func(k int64) bool { return (k&0xff)%mod == 0 })
		default:
			e.walk(kinds[rnd.Intn(len(kinds))], 1000, nil)
		}
		e.observeSmall(base, i%2 == 1)
		if i%4 == 3 {
			e.qReentrant()
		}
	}
	return e
}

// typeLegs runs in every tier. Cost: quick ≈ 0.5 s.
func typeLegs(r *hxlib.Run) {
	t0 := time.Now()
	cases, calls := 0, 0
	for rep := 0; rep < r.Scale(6, 60); rep++ {
		for _, fam := range keyFamilies {
			c := scase{Leg: "keyrep", Variant: fam, N: r.R.Pick(12, 30, 60), Seed: r.R.U64()}
			r.Case()
			r.Count("leg:keyrep:" + fam)
			e := runSearchCase(c)
			cases++
			calls += e.n
			if e.maxN >= 3 {
				r.NonTrivial(fmt.Sprintf("keyrep/%s/%d/%d", fam, c.N, c.Seed))
			}
			atomic.AddInt64(&progress, 1)
			if e.report(r, c) {
				break
			}
		}
	}
	r.Note("legs keyrep/valrep/held/reentrant/zero: %d histories over key families %v (fresh, differently represented key object per call; k64 and half of bytes/fold on the machine-word extremes), values of 20 dynamic types compared by identity, every query after every call (%d calls), Keys()/Values() results re-read 1, 2, 8, 64 changes later, querying traversal actions, %.1fs",
		cases, keyFamilies, calls, time.Since(t0).Seconds())
}
