// search.go: failing-input search legs of hx_c10 (active only with -search).
//
// The legs that run in the NORMAL tiers (key / value representation, held listings, re-entrant actions, zero value) are in
// legs3.go; they share this file's engine (meng) and oracle.
// Fourth wave, also NORMAL tiers: comparators whose RESULT is a word extreme (MinInt / MinInt+1 / MaxInt …, saturating
// differences, time keys > 292 years apart) are in legs4.go (leg "cmpres", same engine).
//
// The normal tiers reach 100 000 random insertions once and otherwise stay below 10 000 entries, with the -1/0/+1
// comparator. The legs:
//
//	magnitude  keys whose CompareTo returns the int64 difference (or +-2^40, or MinInt/MaxInt) instead of -1/0/+1, key
//	           values 1, 2^31-1, 2^31, 2^32, 2^33, 2^40, 2^60 apart and multiples of 2^32 apart; every query for every
//	           probe key after every call, iterator loops with removal                                  (class c)
//	scale      2^18+100 sorted / reverse-sorted / zig-zag / random insertions (trees 33+ levels deep from 196 606 sorted
//	           insertions on), every traversal, listing, iterator kind and neighbour query over the whole map at
//	           2^16+-1, 2^17+-1, 196 605..196 607, 2^18+-1 entries and at the end; then value replacement, removal
//	           through ascending and descending iterators over the whole map, bulk removals, Clear, reuse    (class a)
//	period     every observation on a small map, then exactly 2^16, 2^16, 2^17, 3*2^18 (2^20) identical changes with no
//	           observation, then every observation again, newest first, for the keys asked before and the present ones;
//	           and for each iterator kind: iterator created and advanced, exactly that many foreign changes that
//	           remove everything it knew, then Next/HasNext/Remove (refused, or the right entry)            (class b)
//
// Oracle: the property's sorted map (a Go map plus its sorted key slice): every query answered from it by direct
// lookup / binary search; in-order = the sorted listing; pre/post-order visit exactly the entries; the height of the shape
// rebuilt from pre-order + in-order <= 2*log2(n+1); an iterator returns the entries present at its creation, once, in
// its direction, and removes what it is told to; a disturbed iterator either refuses or answers what the sorted map says.
// A case is (leg, variant, n, seed): regenerated on replay.
package main

import (
	"fmt"
	"math"
	"sort"
	"sync/atomic"
	"time"

	"verifharness/hxlib"

	"qchen.fun/fatchoy/collections"
	"qchen.fun/fatchoy/collections/treemap"
)

type scase struct {
	Leg     string `json:"leg"`
	Variant string `json:"variant,omitempty"`
	N       int    `json:"n,omitempty"`
	Seed    uint64 `json:"seed,omitempty"`
	FailAt  int    `json:"failed_at_call,omitempty"`
}

var curSearch atomic.Value // the scase being run (for the hang report)

// key types with comparators that return magnitudes
type DK int64

func (a DK) CompareTo(o collections.Comparable) int { return satInt(int64(a) - int64(o.(DK))) }

// satInt: the int64 as an int, saturated where int is 32 bits wide (GOARCH=386), so that the sign survives.
func satInt(x int64) int {
	if int64(int(x)) == x {
		return int(x)
	}
	if x < 0 {
		return -int(^uint(0)>>1) - 1
	}
	return int(^uint(0) >> 1)
}

type BK int64

func (a BK) CompareTo(o collections.Comparable) int {
	b := o.(BK)
	switch {
	case a < b:
		return satInt(-(1 << 40))
	case a > b:
		return satInt(1 << 40)
	}
	return 0
}

type XK int64

func (a XK) CompareTo(o collections.Comparable) int {
	b := o.(XK)
	switch {
	case a < b:
		return satInt(math.MinInt64)
	case a > b:
		return satInt(math.MaxInt64)
	}
	return 0
}

type meng struct {
	m      *treemap.Map
	mk     func(int64) treemap.KeyType
	un     func(treemap.KeyType) (int64, bool)
	ref    map[int64]int
	sorted []int64
	dirty  bool
	n      int
	val    int
	fails  []failure
	dead   bool
	maxN   int
	maxH   int
	asked  []int64
	// value diversity (legs3.go): vals maps a value stamp to the dynamic value stored (nil = the stamp itself)
	vals func(int) interface{}
	made map[int]interface{}
	defv interface{} // the default handed to GetOrDefault (nil = -7)
	held []heldOut   // Keys()/Values() results kept for the held-output recheck (legs3.go)
	hold bool
	muts int
}

func newMeng(kind string) *meng {
	e := &meng{m: treemap.New(), ref: map[int64]int{}}
	switch kind {
	case "diff":
		e.mk = func(x int64) treemap.KeyType { return DK(x) }
		e.un = func(k treemap.KeyType) (int64, bool) { v, ok := k.(DK); return int64(v), ok }
	case "big":
		e.mk = func(x int64) treemap.KeyType { return BK(x) }
		e.un = func(k treemap.KeyType) (int64, bool) { v, ok := k.(BK); return int64(v), ok }
	case "extreme":
		e.mk = func(x int64) treemap.KeyType { return XK(x) }
		e.un = func(k treemap.KeyType) (int64, bool) { v, ok := k.(XK); return int64(v), ok }
	default:
		e.mk = func(x int64) treemap.KeyType { return K(int(x)) }
		e.un = func(k treemap.KeyType) (int64, bool) { v, ok := k.(K); return int64(v), ok }
	}
	return e
}

func (e *meng) fail(key, format string, a ...interface{}) {
	if len(e.fails) < 4 {
		e.fails = append(e.fails, failure{key, fmt.Sprintf("call %d: ", e.n) + fmt.Sprintf(format, a...)})
	}
	e.dead = true
}

func (e *meng) keys() []int64 {
	if e.dirty {
		e.sorted = e.sorted[:0]
		for k := range e.ref {
			e.sorted = append(e.sorted, k)
		}
		sort.Slice(e.sorted, func(i, j int) bool { return e.sorted[i] < e.sorted[j] })
		e.dirty = false
		if len(e.sorted) > e.maxN {
			e.maxN = len(e.sorted)
		}
	}
	return e.sorted
}

func (e *meng) call(name string, f func()) bool {
	if e.dead {
		return false
	}
	e.n++
	atomic.AddInt64(&progress, 1)
	if p := hxlib.Guard(f); p != "" {
		e.fail("panic:"+name, "%s panics with %d entries in the map: %s", name, len(e.ref), p)
		return false
	}
	return true
}

func (e *meng) sizeOK(after string) {
	if e.dead {
		return
	}
	if sz := e.m.Size(); sz != len(e.ref) {
		e.fail("size", "Size() = %d after %s, the sorted map holds %d entries", sz, after, len(e.ref))
	}
}

func (e *meng) put(k int64) {
	e.val++
	v := e.val
	var old interface{}
	if !e.call("put", func() { old = e.m.Put(e.mk(k), e.valOf(v)) }) {
		return
	}
	ro, had := e.ref[k]
	e.ref[k] = v
	if !had {
		e.dirty = true
	}
	e.mutated()
	if (!had && old != nil) || (had && !e.valIs(old, ro)) {
		e.fail("put-result", "Put(%d,%d) returned %v, the sorted map says present=%v old=%d", k, v, old, had, ro)
		return
	}
	e.sizeOK("put")
}

func (e *meng) rm(k int64) {
	var got bool
	if !e.call("rm", func() { got = e.m.Remove(e.mk(k)) }) {
		return
	}
	_, had := e.ref[k]
	if had {
		delete(e.ref, k)
		e.dirty = true
	}
	e.mutated()
	if got != had {
		e.fail("remove-result", "Remove(%d) returned %v, the sorted map says %v", k, got, had)
		return
	}
	e.sizeOK("rm")
}

func (e *meng) clear() {
	if !e.call("clear", func() { e.m.Clear() }) {
		return
	}
	e.ref = map[int64]int{}
	e.dirty = true
	e.mutated()
	e.sizeOK("clear")
}

// ---- queries ---------------------------------------------------------------------------------------------------

func (e *meng) showEntry(en *treemap.Entry) string {
	if en == nil {
		return "none"
	}
	k, _ := e.un(en.GetKey())
	if e.vals != nil {
		return fmt.Sprintf("%d:%s", k, showVal(en.GetValue()))
	}
	return fmt.Sprintf("%d:%v", k, en.GetValue())
}

func (e *meng) entryIs(en *treemap.Entry, kk treemap.KeyType, want int64, wok bool) bool {
	if !wok {
		return en == nil && kk == nil
	}
	if en == nil || kk == nil {
		return false
	}
	a, ok1 := e.un(en.GetKey())
	b, ok2 := e.un(kk)
	return ok1 && ok2 && a == want && b == want && e.valIs(en.GetValue(), e.ref[want])
}

func (e *meng) qGet(k int64) {
	var v, d interface{}
	var ok, has bool
	if !e.call("get", func() {
		v, ok = e.m.Get(e.mk(k))
		has = e.m.Contains(e.mk(k))
		d = e.m.GetOrDefault(e.mk(k), e.defOf())
	}) {
		return
	}
	rv, rok := e.ref[k]
	switch {
	case ok != rok || (ok && !e.valIs(v, rv)):
		e.fail("get", "Get(%d) = (%v,%v), the sorted map says (%d,%v)", k, v, ok, rv, rok)
	case has != rok:
		e.fail("contains", "Contains(%d) = %v, the sorted map says %v", k, has, rok)
	case (rok && !e.valIs(d, rv)) || (!rok && !identical(d, e.defOf())):
		e.fail("get-or-default", "GetOrDefault(%d,default) = %s, the sorted map says present=%v value=%s", k, showVal(d), rok, e.showStamp(rv))
	}
}

func (e *meng) qEnds() {
	var f, l *treemap.Entry
	var fk, lk treemap.KeyType
	var empty bool
	if !e.call("first", func() {
		f, fk, l, lk = e.m.FirstEntry(), e.m.FirstKey(), e.m.LastEntry(), e.m.LastKey()
		empty = e.m.IsEmpty()
	}) {
		return
	}
	ks := e.keys()
	n := len(ks)
	var lo, hi int64
	if n > 0 {
		lo, hi = ks[0], ks[n-1]
	}
	switch {
	case !e.entryIs(f, fk, lo, n > 0):
		e.fail("first", "FirstEntry() = %s, the sorted map's first key is %d (entries: %d)", e.showEntry(f), lo, n)
	case !e.entryIs(l, lk, hi, n > 0):
		e.fail("last", "LastEntry() = %s, the sorted map's last key is %d (entries: %d)", e.showEntry(l), hi, n)
	case empty != (n == 0):
		e.fail("is-empty", "IsEmpty() = %v with %d entries in the sorted map", empty, n)
	}
	e.sizeOK("observation")
}

func (e *meng) qNeighbours(k int64) {
	var fl, ce, hi *treemap.Entry
	var flk, cek, hik treemap.KeyType
	if !e.call("floor", func() {
		fl, flk = e.m.FloorEntry(e.mk(k)), e.m.FloorKey(e.mk(k))
		ce, cek = e.m.CeilingEntry(e.mk(k)), e.m.CeilingKey(e.mk(k))
		hi, hik = e.m.HigherEntry(e.mk(k)), e.m.HigherKey(e.mk(k))
	}) {
		return
	}
	ks := e.keys()
	n := len(ks)
	i := sort.Search(n, func(i int) bool { return ks[i] >= k }) // first >= k
	j := sort.Search(n, func(i int) bool { return ks[i] > k })  // first > k
	var wf, wc, wh int64
	if j > 0 {
		wf = ks[j-1]
	}
	if i < n {
		wc = ks[i]
	}
	if j < n {
		wh = ks[j]
	}
	switch {
	case !e.entryIs(fl, flk, wf, j > 0):
		e.fail("floor", "floor(%d) = %s, the sorted map says %d (found %v)", k, e.showEntry(fl), wf, j > 0)
	case !e.entryIs(ce, cek, wc, i < n):
		e.fail("ceil", "ceil(%d) = %s, the sorted map says %d (found %v)", k, e.showEntry(ce), wc, i < n)
	case !e.entryIs(hi, hik, wh, j < n):
		e.fail("higher", "higher(%d) = %s, the sorted map says %d (found %v)", k, e.showEntry(hi), wh, j < n)
	}
}

func (e *meng) qKeys() {
	var ks []treemap.KeyType
	var vs []interface{}
	if !e.call("keys", func() { ks, vs = e.m.Keys(), e.m.Values() }) {
		return
	}
	want := e.keys()
	if len(ks) != len(want) {
		e.fail("keys", "Keys() lists %d keys, the sorted map holds %d", len(ks), len(want))
		return
	}
	if len(vs) != len(want) {
		e.fail("values", "Values() lists %d values, the sorted map holds %d", len(vs), len(want))
		return
	}
	for i, w := range want {
		if g, ok := e.un(ks[i]); !ok || g != w {
			e.fail("keys", "Keys()[%d] = %v, the sorted map has %d there (of %d)", i, ks[i], w, len(want))
			return
		}
		if !e.valIs(vs[i], e.ref[w]) {
			e.fail("values", "Values()[%d] = %s, the sorted map has %s (key %d) there", i, showVal(vs[i]), e.showStamp(e.ref[w]), w)
			return
		}
	}
	e.keep(ks, vs)
}

// qTraversals: in-order and Foreach = the sorted listing; pre/post-order visit exactly the entries; height bound.
func (e *meng) qTraversals() {
	want := e.keys()
	n := len(want)
	list := func(name string, walk func(treemap.EntryAction)) ([]int64, bool) {
		out := make([]int64, 0, n)
		bad := false
		ok := e.call(name, func() {
			walk(func(k treemap.KeyType, v interface{}) {
				kk, isK := e.un(k)
				if rv, in := e.ref[kk]; !isK || !in || !e.valIs(v, rv) {
					if !bad {
						bad = true
						e.fail(name, "%s traversal visits %v:%v, the sorted map holds (%d, present %v) for that key", name, k, v, rv, in)
					}
				}
				if len(out) <= n+8 {
					out = append(out, kk)
				}
			})
		})
		return out, ok && !bad && !e.dead
	}
	for _, t := range []struct {
		name string
		walk func(treemap.EntryAction)
	}{{"in", e.m.InOrderTraversal}, {"foreach", e.m.Foreach}} {
		got, ok := list(t.name, t.walk)
		if !ok {
			return
		}
		if len(got) != n {
			e.fail(t.name, "%s listing has %d entries, the sorted map holds %d", t.name, len(got), n)
			return
		}
		for i := range want {
			if got[i] != want[i] {
				e.fail(t.name, "%s listing has key %d at position %d, the sorted map %d (of %d)", t.name, got[i], i, want[i], n)
				return
			}
		}
	}
	var pre []int64
	for _, t := range []struct {
		name string
		walk func(treemap.EntryAction)
	}{{"pre", e.m.PreOrderTraversal}, {"post", e.m.PostOrderTraversal}} {
		got, ok := list(t.name, t.walk)
		if !ok {
			return
		}
		if len(got) != n {
			e.fail(t.name, "%s-order traversal visits %d entries, the sorted map holds %d", t.name, len(got), n)
			return
		}
		seen := make(map[int64]struct{}, n)
		for _, k := range got {
			if _, dup := seen[k]; dup {
				e.fail(t.name, "%s-order traversal visits key %d twice", t.name, k)
				return
			}
			seen[k] = struct{}{}
		}
		if t.name == "pre" {
			pre = got
		}
	}
	// shape from pre-order + in-order (in-order = want, just checked)
	h, ok := heightFromPreIn(pre, want)
	if !ok {
		e.fail("shape", "pre-order and in-order listings of %d entries are not traversals of one tree", n)
		return
	}
	if h > e.maxH {
		e.maxH = h
	}
	if !heightOK(h, n) {
		e.fail("height", "height %d with %d entries exceeds 2*log2(n+1)", h, n)
	}
}

// heightFromPreIn: `in` is sorted ascending, so the position of a key is found by binary search.
func heightFromPreIn(pre, in []int64) (int, bool) {
	if len(pre) != len(in) {
		return 0, false
	}
	pos, ok := 0, true
	var build func(lo, hi, depth int) int
	build = func(lo, hi, depth int) int {
		if lo > hi || !ok {
			return 0
		}
		if pos >= len(pre) || depth > 200 {
			ok = false
			return 0
		}
		k := pre[pos]
		i := lo + sort.Search(hi-lo+1, func(j int) bool { return in[lo+j] >= k })
		if i > hi || in[i] != k {
			ok = false
			return 0
		}
		pos++
		a := build(lo, i-1, depth+1)
		b := build(i+1, hi, depth+1)
		if b > a {
			a = b
		}
		return a + 1
	}
	h := build(0, len(in)-1, 0)
	return h, ok && pos == len(pre)
}

// walk runs an iterator of the given kind over the map, removing the entries sel selects; at most limit steps.
func (e *meng) walk(kind string, limit int, sel func(k int64) bool) {
	if e.dead {
		return
	}
	st := newIter(e.m, kind)
	want := append([]int64{}, e.keys()...)
	if st.desc {
		for i, j := 0, len(want)-1; i < j; i, j = i+1, j-1 {
			want[i], want[j] = want[j], want[i]
		}
	}
	var it interface {
		HasNext() bool
		Remove()
	} = st.impl
	var nextKV func() (int64, interface{}, bool) // key known?, value
	switch kind {
	case "entry":
		x := it.(*treemap.EntryIterator)
		nextKV = func() (int64, interface{}, bool) {
			en := x.Next()
			k, _ := e.un(en.GetKey())
			return k, en.GetValue(), true
		}
	case "dentry":
		x := it.(*treemap.DescendingEntryIterator)
		nextKV = func() (int64, interface{}, bool) {
			en := x.Next()
			k, _ := e.un(en.GetKey())
			return k, en.GetValue(), true
		}
	case "key":
		x := it.(*treemap.KeyIterator)
		nextKV = func() (int64, interface{}, bool) { k, _ := e.un(x.Next()); return k, nil, true }
	case "dkey":
		x := it.(*treemap.DescendingKeyIterator)
		nextKV = func() (int64, interface{}, bool) { k, _ := e.un(x.Next()); return k, nil, true }
	default:
		x := it.(*treemap.ValueIterator)
		nextKV = func() (int64, interface{}, bool) { return 0, x.Next(), false }
	}
	i := 0
	removed := 0
	e.call("iterate:"+kind, func() {
		for ; i < limit; i++ {
			has := it.HasNext()
			if has != (i < len(want)) {
				e.fail("iter-hasnext:"+kind, "HasNext() of an undisturbed %s iterator = %v after %d of %d entries", kind, has, i, len(want))
				return
			}
			if !has {
				break
			}
			k, v, keyed := nextKV()
			w := want[i]
			if keyed && k != w {
				cls := "wrong"
				for _, p := range want[:i] {
					if p == k {
						cls = "revisit"
					}
				}
				e.fail("iter-next:"+kind+":"+cls, "Next() number %d of the %s iterator returned key %d, the sorted map says the next entry in that direction is %d (%d entries at creation, %d removed through it so far)", i+1, kind, k, w, len(want), removed)
				return
			}
			if kind != "key" && kind != "dkey" && !e.valIs(v, e.ref[w]) {
				e.fail("iter-next:"+kind+":wrong", "Next() number %d of the %s iterator returned value %v, the sorted map has %d:%d there", i+1, kind, v, w, e.ref[w])
				return
			}
			if sel != nil && sel(w) {
				it.Remove()
				delete(e.ref, w)
				e.dirty = true
				removed++
				e.mutated()
			}
			if i&1023 == 0 {
				atomic.AddInt64(&progress, 1)
			}
		}
		if i >= len(want) {
			// exhausted: one more Next must be refused
			if p := hxlib.Guard(func() { nextKV() }); p == "" {
				e.fail("iter-next:"+kind+":past-the-end", "Next() of the exhausted %s iterator answered instead of refusing", kind)
			}
		}
	})
	e.sizeOK("iteration")
}

// observeBig: the whole map through every listing; sampled point queries.
func (e *meng) observeBig(rnd *hxlib.Rand, iters bool) {
	if e.dead {
		return
	}
	e.qEnds()
	e.qKeys()
	e.qTraversals()
	ks := e.keys()
	n := len(ks)
	if n > 0 {
		probe := []int64{ks[0], ks[0] - 1, ks[n-1], ks[n-1] + 1, ks[n/2], ks[n/2] + 1}
		for i := 0; i < 60; i++ {
			k := ks[rnd.Intn(n)]
			probe = append(probe, k, k+1, k-1)
		}
		for _, k := range probe {
			e.qGet(k)
			e.qNeighbours(k)
		}
	} else {
		e.qGet(0)
		e.qNeighbours(0)
	}
	if iters {
		for _, kind := range kinds {
			e.walk(kind, n+5, nil)
		}
	}
}

// observeSmall: every query for every probe key; newestFirst reverses the order (see the period leg).
func (e *meng) observeSmall(extra []int64, newestFirst bool) {
	if e.dead {
		return
	}
	ks := e.keys()
	cur := append([]int64{}, ks...)
	for _, k := range ks {
		cur = append(cur, k+1)
	}
	cur = append(cur, extra...)
	if len(ks) > 0 {
		cur = append(cur, ks[0]-1, ks[len(ks)-1]) // asked last: the largest key (it changes in most histories)
	}
	var ask []int64
	if newestFirst {
		for i := len(e.asked) - 1; i >= 0; i-- {
			ask = append(ask, e.asked[i])
		}
		for i := len(cur) - 1; i >= 0; i-- {
			ask = append(ask, cur[i])
		}
	} else {
		ask = append(append(ask, e.asked...), cur...)
	}
	scalars := []func(){e.qEnds, e.qKeys, e.qTraversals}
	points := func() {
		for _, k := range ask {
			e.qGet(k)
			e.qNeighbours(k)
		}
	}
	if newestFirst {
		points()
		for i := len(scalars) - 1; i >= 0; i-- {
			scalars[i]()
		}
	} else {
		for _, f := range scalars {
			f()
		}
		points()
	}
	if len(ask) > 120 {
		ask = ask[len(ask)-120:]
	}
	e.asked = append(e.asked[:0], ask...)
}

func (e *meng) report(r *hxlib.Run, c scase) bool {
	if len(e.fails) == 0 {
		return false
	}
	c.FailAt = e.n
	f := e.fails[0]
	r.Fail(f.key, fmt.Sprintf("leg %s/%s (n=%d seed=%d): %s", c.Leg, c.Variant, c.N, c.Seed, f.what), c)
	return true
}

// ---- leg: magnitude ------------------------------------------------------------------------------------------

var magnitudeKinds = []string{"diff", "big", "extreme"}

func runMagnitude(c scase) *meng {
	rnd := hxlib.NewRand(c.Seed)
	e := newMeng(c.Variant)
	base := []int64{0, 1, 2, 1<<31 - 1, 1 << 31, 1<<31 + 1, 1<<32 - 1, 1 << 32, 1<<32 + 1, 2 << 32, 3 << 32, 1 << 33, 1 << 40, 1<<40 + 1<<32,
		-1, -(1 << 31), -(1 << 32), -(1 << 32) - 1, -(1 << 40), 5 << 32, 1<<32 + 1<<31, 1 << 60, -(1 << 60), 7 << 32, 1<<33 + 1}
	pick := func() int64 {
		k := base[rnd.Intn(len(base))]
		if rnd.Chance(1, 5) {
			k += int64(rnd.Range(-2, 2)) << 32
		}
		return k
	}
	for i := 0; i < c.N && !e.dead; i++ {
		switch x := rnd.Intn(100); {
		case x < 55:
			e.put(pick())
		case x < 85:
			e.rm(pick())
		case x < 88:
			e.clear()
		case x < 94:
			kind := kinds[rnd.Intn(len(kinds))]
			mod := int64(rnd.Range(1, 3))
			e.walk(kind, 1000, func(k int64) bool { return (k>>31)%mod == 0 })
		default:
			e.walk(kinds[rnd.Intn(len(kinds))], 1000, nil)
		}
		e.observeSmall(base, i%2 == 1)
	}
	return e
}

// ---- leg: scale --------------------------------------------------------------------------------------------------

var scaleVariants = []string{"sorted", "reverse", "zigzag", "random"}

func runScale(c scase) *meng {
	rnd := hxlib.NewRand(c.Seed)
	e := newMeng("")
	n := c.N
	var order []int
	switch c.Variant {
	case "sorted":
		for i := 0; i < n; i++ {
			order = append(order, i)
		}
	case "reverse":
		for i := n - 1; i >= 0; i-- {
			order = append(order, i)
		}
	case "zigzag":
		for lo, hi := 0, n-1; lo <= hi; lo, hi = lo+1, hi-1 {
			order = append(order, lo)
			if hi != lo {
				order = append(order, hi)
			}
		}
	default:
		for i := 0; i < n; i++ {
			order = append(order, i)
		}
		for i := n - 1; i > 0; i-- {
			j := rnd.Intn(i + 1)
			order[i], order[j] = order[j], order[i]
		}
	}
	marks := map[int]bool{}
	for _, p := range []int{1 << 16, 1 << 17, 196606, 1 << 18} {
		for d := -1; d <= 1; d++ {
			marks[p+d] = true
		}
	}
	withIters := map[int]bool{1<<16 + 1: true, 196607: true}
	for i, x := range order {
		e.put(int64(x) * 2) // even keys: every odd number is an absent key between two present ones
		if marks[i+1] {
			e.observeBig(rnd, withIters[i+1])
		}
		if e.dead {
			return e
		}
	}
	e.observeBig(rnd, true)
	// replacements (no structural change)
	for i := 0; i < 2000 && !e.dead; i++ {
		e.put(int64(rnd.Intn(n)) * 2)
	}
	e.observeBig(rnd, false)
	// removal through iterators over the whole map
	e.walk("entry", n+5, func(k int64) bool { return (k/2)%3 == 0 })
	e.observeBig(rnd, false)
	e.walk("dkey", n+5, func(k int64) bool { return (k/2)%4 == 1 })
	e.observeBig(rnd, false)
	// bulk removals: every other remaining key in ascending order, then from the top, then at random
	ks := append([]int64{}, e.keys()...)
	for i := 0; i < len(ks) && !e.dead; i += 2 {
		e.rm(ks[i])
	}
	e.observeBig(rnd, false)
	ks = append([]int64{}, e.keys()...)
	for i := len(ks) - 1; i >= len(ks)/2 && !e.dead; i-- {
		e.rm(ks[i])
	}
	e.observeBig(rnd, true)
	ks = append([]int64{}, e.keys()...)
	for i := len(ks) - 1; i > 0; i-- {
		j := rnd.Intn(i + 1)
		ks[i], ks[j] = ks[j], ks[i]
	}
	for i := 0; i+500 < len(ks) && !e.dead; i++ {
		e.rm(ks[i])
	}
	e.observeBig(rnd, true)
	e.clear()
	e.observeBig(rnd, true)
	for i := 0; i < 200 && !e.dead; i++ {
		e.put(int64(rnd.Intn(1000)))
	}
	e.observeBig(rnd, true)
	return e
}

// ---- leg: period ------------------------------------------------------------------------------------------------

var periodVariants = []string{"slide", "replace", "remove+put-same", "iter-remove+put", "clear+refill",
	"stale-entry", "stale-dentry", "stale-key", "stale-dkey", "stale-value", "reads"}

func runPeriod(c scase) *meng {
	e := newMeng("")
	pop := 9
	next := int64(100)
	var live []int64 // ascending = oldest first
	for i := 0; i < pop; i++ {
		next += 2
		e.put(next)
		live = append(live, next)
	}
	stale := len(c.Variant) > 6 && c.Variant[:6] == "stale-"
	cyc := 0
	// one change per unit where possible, so that exactly `gap` structural changes happen
	unit := func(i int) {
		switch c.Variant {
		case "replace":
			e.put(live[cyc%len(live)])
			cyc++
		case "remove+put-same":
			k := live[cyc%len(live)]
			cyc++
			e.rm(k)
			e.put(k)
		case "iter-remove+put":
			first := e.keys()[0]
			e.walk("entry", 1, func(k int64) bool { return k == first })
			live = live[1:]
			next += 2
			e.put(next)
			live = append(live, next)
		case "clear+refill":
			e.clear()
			live = live[:0]
			for j := 0; j < 3; j++ {
				next += 2
				e.put(next)
				live = append(live, next)
			}
		case "reads":
			k := live[cyc%len(live)]
			cyc++
			e.call("read", func() {
				switch cyc % 4 {
				case 0:
					e.m.Get(e.mk(k))
				case 1:
					e.m.FloorKey(e.mk(k + 1))
				case 2:
					e.m.FirstKey()
				default:
					e.m.Contains(e.mk(k))
				}
			})
		default: // slide, stale-*: alternately a new largest key and the removal of the smallest
			if i%2 == 0 {
				next += 2
				e.put(next)
				live = append(live, next)
			} else {
				e.rm(live[0])
				live = live[1:]
			}
		}
	}
	e.observeSmall(nil, false)
	done := 0
	for _, at := range []int{1 << 16, 1 << 17, 1 << 18, 1 << 20, 1 << 21} {
		if at > c.N || e.dead {
			break
		}
		var st *iterState
		var seenKeys []int64
		gap := at - done
		if stale {
			// an iterator that has returned two entries and still knows its next one
			st = newIter(e.m, c.Variant[6:])
			ks := e.keys()
			e.call("iter-next", func() {
				st.next()
				st.next()
			})
			seenKeys = append(seenKeys, ks...)
		}
		for ; done < at && !e.dead; done++ {
			unit(done)
		}
		if c.Variant == "reads" {
			next += 2
			e.put(next)
			e.rm(live[0])
			live = append(live[1:], next)
		}
		if stale && !e.dead {
			e.staleIterator(st, c.Variant[6:], seenKeys, gap)
		}
		e.observeSmall(nil, true)
		e.observeSmall(nil, false)
	}
	return e
}

// staleIterator: an iterator created before `changes` foreign structural changes that removed every entry it knew.
// HasNext may say anything; Next and Remove must refuse (any panic of the iterator) or answer what the sorted map says.
func (e *meng) staleIterator(st *iterState, kind string, known []int64, changes int) {
	if e.dead {
		return
	}
	e.n++
	// the second key returned, in the iterator's direction
	last := known[1]
	if st.desc {
		last = known[len(known)-2]
	}
	ks := e.keys()
	var want int64
	wok := false
	if st.desc {
		if i := sort.Search(len(ks), func(i int) bool { return ks[i] >= last }); i > 0 {
			want, wok = ks[i-1], true
		}
	} else {
		if i := sort.Search(len(ks), func(i int) bool { return ks[i] > last }); i < len(ks) {
			want, wok = ks[i], true
		}
	}
	var got string
	p := hxlib.Guard(func() { got = st.next() })
	if p != "" {
		if panicKind(p) == "panic:other" {
			e.fail("iter-next:panic", "Next() of the %s iterator panics: %s", kind, p)
		}
		return // refused
	}
	var show string
	if wok {
		show = st.show(kv{int(want), e.ref[want]})
	}
	if !wok || got != show {
		e.fail("iter-next:after-foreign-change", "Next() of the %s iterator returned %s after key %d although every entry it knew was removed by other calls since (exactly %d structural changes after its last Next); the sorted map says the next entry in that direction is %s (found %v)",
			kind, got, last, changes, show, wok)
	}
}

// ---- entry points ---------------------------------------------------------------------------------------------------

func runSearchCase(c scase) *meng {
	curSearch.Store(c)
	defer curSearch.Store(scase{})
	switch c.Leg {
	case "magnitude":
		return runMagnitude(c)
	case "scale":
		return runScale(c)
	case "period":
		return runPeriod(c)
	case "keyrep": // legs3.go (normal tiers)
		return runKeyrep(c)
	case "cmpres": // legs4.go (normal tiers)
		return runCmpRes(c)
	}
	e := newMeng("")
	e.fail("harness", "unknown search leg %q", c.Leg)
	return e
}

func searchLegs(r *hxlib.Run) {
	t0 := time.Now()
	for _, k := range magnitudeKinds {
		for i := 0; i < 30; i++ {
			c := scase{Leg: "magnitude", Variant: k, N: 120, Seed: r.R.U64()}
			r.Case()
			r.Count("search:magnitude")
			if runSearchCase(c).report(r, c) {
				return
			}
		}
	}
	r.Note("search leg magnitude: 90 histories of 120 calls with keys whose CompareTo returns the int64 difference / +-2^40 / MinInt,MaxInt; keys 1, 2^31-1, 2^31, 2^32, 2^33, 2^40, 2^60 apart; every query for every probe key after every call, iterator loops with removal, %.1fs", time.Since(t0).Seconds())
	t0 = time.Now()
	most, deepest := 0, 0
	for i, v := range scaleVariants {
		n := 1<<18 + 100
		if v == "random" || (v == "zigzag" && i != int(r.Seed)%4) {
			n = 200000
		}
		c := scase{Leg: "scale", Variant: v, N: n, Seed: r.R.U64()}
		r.Case()
		r.Count("search:scale")
		e := runSearchCase(c)
		if e.maxN > most {
			most = e.maxN
		}
		if e.maxH > deepest {
			deepest = e.maxH
		}
		if e.report(r, c) {
			return
		}
	}
	r.Note("search leg scale: %v insertion of up to %d entries (deepest tree seen: %d levels); all traversals, listings, neighbour queries at 2^16+-1, 2^17+-1, 196605..7, 2^18+-1 and the end, all five iterator kinds over the whole map; removal through ascending/descending iterators over the whole map, bulk removals, Clear, reuse, %.1fs", scaleVariants, most, deepest, time.Since(t0).Seconds())
	t0 = time.Now()
	for i, v := range periodVariants {
		n := 1 << 20
		if (i+int(r.Seed))%3 == 0 {
			n = 1 << 21
		}
		c := scase{Leg: "period", Variant: v, N: n, Seed: r.R.U64()}
		r.Case()
		r.Count("search:period")
		if runSearchCase(c).report(r, c) {
			return
		}
	}
	r.Note("search leg period: %d variants %v on a map of 9 entries: every observation, then 2^16, 2^16, 2^17, 3*2^18 (a third of the variants per seed: and 2^20) identical changes with no observation, then every observation newest first; stale-*: an iterator of that kind advanced twice, exactly that many foreign changes that remove all it knew, then Next, %.1fs", len(periodVariants), periodVariants, time.Since(t0).Seconds())
}
