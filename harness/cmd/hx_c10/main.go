// hx_c10: correspondence harness + oracle for C10 (collections/treemap).
//
// A case is a list of op lines run against one fresh treemap.Map.  Every line is executed on the REAL
// code (panics recovered), its answer is written next to the line for the Lean model to reproduce, and
// the ORACLE - a plain sorted slice plus a reference iterator that knows nothing about trees - decides
// whether the property holds: every query agrees with the sorted slice, an iterator that nobody
// disturbed returns exactly the entries present, once each, in its direction, and removes what it was
// told to; the height reconstructed from the pre-order and in-order traversals stays <= 2*log2(n+1).
package main

import (
	"fmt"
	"hash/fnv"
	"io"
	"log"
	"os"
	"runtime"
	"sort"
	"strconv"
	"strings"
	"sync/atomic"
	"time"

	"verifharness/hxlib"

	"qchen.fun/fatchoy/collections"
	"qchen.fun/fatchoy/collections/treemap"
)

// K is the key type handed to the map: an int with the obvious order.
type K int

func (a K) CompareTo(o collections.Comparable) int {
	b := o.(K)
	if a < b {
		return -1
	} else if a > b {
		return 1
	}
	return 0
}

type kv struct{ k, v int }

// ---------------------------------------------------------------------------------------------
// the reference: a sorted slice

type ref struct {
	a   []kv
	mod int // structural changes so far (entry added or removed)
}

func (s *ref) pos(k int) (int, bool) {
	i := sort.Search(len(s.a), func(i int) bool { return s.a[i].k >= k })
	return i, i < len(s.a) && s.a[i].k == k
}
func (s *ref) put(k, v int) (old int, had bool) {
	i, ok := s.pos(k)
	if ok {
		old = s.a[i].v
		s.a[i].v = v
		return old, true
	}
	s.a = append(s.a, kv{})
	copy(s.a[i+1:], s.a[i:])
	s.a[i] = kv{k, v}
	s.mod++
	return 0, false
}
func (s *ref) del(k int) bool {
	i, ok := s.pos(k)
	if !ok {
		return false
	}
	s.a = append(s.a[:i], s.a[i+1:]...)
	s.mod++
	return true
}
func (s *ref) clear() {
	if len(s.a) > 0 {
		s.mod++
	}
	s.a = s.a[:0]
}
func (s *ref) get(k int) (int, bool) {
	i, ok := s.pos(k)
	if ok {
		return s.a[i].v, true
	}
	return 0, false
}

// neighbours by a linear scan (deliberately dumb)
func (s *ref) floor(k int) (kv, bool) {
	var best kv
	ok := false
	for _, e := range s.a {
		if e.k <= k {
			best, ok = e, true
		}
	}
	return best, ok
}
func (s *ref) ceil(k int) (kv, bool) {
	for _, e := range s.a {
		if e.k >= k {
			return e, true
		}
	}
	return kv{}, false
}
func (s *ref) higher(k int) (kv, bool) {
	for _, e := range s.a {
		if e.k > k {
			return e, true
		}
	}
	return kv{}, false
}
func (s *ref) lower(k int) (kv, bool) {
	var best kv
	ok := false
	for _, e := range s.a {
		if e.k < k {
			best, ok = e, true
		}
	}
	return best, ok
}

// ---------------------------------------------------------------------------------------------
// iterators: the five kinds behind one face, and the reference iterator

type implIter interface {
	HasNext() bool
	Remove()
}

type iterState struct {
	kind string
	desc bool
	impl implIter
	next func() string // calls Next on the real iterator, formats per kind
	// reference side
	refMod    int  // ref.mod when the iterator last was in step with the map
	hasLast   bool // a Next has returned
	last      int  // key returned by the last successful Next
	canRemove bool
	visited   map[int]bool
}

func fmtEntry(e *treemap.Entry) string {
	if e == nil {
		return "none"
	}
	return fmt.Sprintf("%d:%d", int(e.GetKey().(K)), e.GetValue().(int))
}
func fmtKey(k treemap.KeyType) string {
	if k == nil {
		return "none"
	}
	return strconv.Itoa(int(k.(K)))
}
func fmtKV(e kv, ok bool) string {
	if !ok {
		return "none"
	}
	return fmt.Sprintf("%d:%d", e.k, e.v)
}

func newIter(m *treemap.Map, kind string) *iterState {
	st := &iterState{kind: kind, visited: map[int]bool{}}
	switch kind {
	case "entry":
		it := m.Iterator()
		st.impl, st.next = it, func() string { return fmtEntry(it.Next()) }
	case "dentry":
		it := m.DescendingIterator()
		st.impl, st.next, st.desc = it, func() string { return fmtEntry(it.Next()) }, true
	case "key":
		it := m.KeyIterator()
		st.impl, st.next = it, func() string { return fmtKey(it.Next()) }
	case "dkey":
		it := m.DescendingKeyIterator()
		st.impl, st.next, st.desc = it, func() string { return fmtKey(it.Next()) }, true
	case "value":
		it := m.ValueIterator()
		st.impl, st.next = it, func() string { return fmt.Sprint(it.Next().(int)) }
	default:
		return nil
	}
	return st
}

// what the reference says the next entry of this iterator is
func (st *iterState) refNext(s *ref) (kv, bool) {
	if !st.hasLast {
		if len(s.a) == 0 {
			return kv{}, false
		}
		if st.desc {
			return s.a[len(s.a)-1], true
		}
		return s.a[0], true
	}
	if st.desc {
		return s.lower(st.last)
	}
	return s.higher(st.last)
}

func (st *iterState) show(e kv) string {
	switch st.kind {
	case "entry", "dentry":
		return fmt.Sprintf("%d:%d", e.k, e.v)
	case "key", "dkey":
		return strconv.Itoa(e.k)
	}
	return strconv.Itoa(e.v)
}

func panicKind(p string) string {
	switch {
	case strings.Contains(p, "no such element"):
		return "panic:nosuch"
	case strings.Contains(p, "concurrent modification"):
		return "panic:comod"
	case strings.Contains(p, "illegal state"):
		return "panic:illegal"
	}
	return "panic:other"
}

// ---------------------------------------------------------------------------------------------
// shape: the probe's pre-order walk, and the hook-free reconstruction from two traversals

type node struct {
	red  bool
	k, v int
	l, r *node
	p    *node
}

func probeTree(m *treemap.Map) *node {
	var root *node
	type slot struct {
		n    *node
		left bool // the left link has been filled
	}
	var stack []*slot
	attach := func(n *node) {
		if len(stack) == 0 {
			root = n
			return
		}
		top := stack[len(stack)-1]
		if !top.left {
			top.n.l, top.left = n, true
		} else {
			top.n.r = n
		}
		if n != nil {
			n.p = top.n
		}
	}
	m.VerifWalk(func(red bool, key treemap.KeyType, value interface{}) {
		n := &node{red: red, k: int(key.(K)), v: value.(int)}
		attach(n)
		stack = append(stack, &slot{n: n})
	}, func() { attach(nil) }, func() { stack = stack[:len(stack)-1] })
	return root
}

func dump(n *node, sb *strings.Builder) {
	if n == nil {
		sb.WriteByte('.')
		return
	}
	sb.WriteByte('(')
	if n.red {
		sb.WriteByte('R')
	} else {
		sb.WriteByte('B')
	}
	sb.WriteString(strconv.Itoa(n.k))
	sb.WriteByte(':')
	sb.WriteString(strconv.Itoa(n.v))
	dump(n.l, sb)
	dump(n.r, sb)
	sb.WriteByte(')')
}

const hashMod = 4398046511093

func hstep(h, tok uint64) uint64 { return (h*1000003 + tok) % hashMod }

func shapeHash(n *node, h uint64) uint64 {
	if n == nil {
		return hstep(h, 0)
	}
	c := uint64(2)
	if n.red {
		c = 1
	}
	h = hstep(h, c)
	h = hstep(h, uint64(n.k)+3)
	h = hstep(h, uint64(((n.v%1000003)+1000003)%1000003))
	return shapeHash(n.r, shapeHash(n.l, h))
}

func heightOf(n *node) int {
	if n == nil {
		return 0
	}
	a, b := heightOf(n.l), heightOf(n.r)
	if b > a {
		a = b
	}
	return a + 1
}

func countOf(n *node) int {
	if n == nil {
		return 0
	}
	return countOf(n.l) + 1 + countOf(n.r)
}

// heightFromTraversals rebuilds the shape from pre-order + in-order key sequences (keys are distinct)
// and returns its height; ok=false when the two sequences are not traversals of one tree.
func heightFromTraversals(pre, in []int) (h int, ok bool) {
	if len(pre) != len(in) {
		return 0, false
	}
	idx := make(map[int]int, len(in))
	for i, k := range in {
		if _, dup := idx[k]; dup {
			return 0, false
		}
		idx[k] = i
	}
	pos := 0
	ok = true
	var build func(lo, hi int) int
	build = func(lo, hi int) int {
		if lo > hi || !ok {
			return 0
		}
		if pos >= len(pre) {
			ok = false
			return 0
		}
		i, found := idx[pre[pos]]
		if !found || i < lo || i > hi {
			ok = false
			return 0
		}
		pos++
		a := build(lo, i-1)
		b := build(i+1, hi)
		if b > a {
			a = b
		}
		return a + 1
	}
	h = build(0, len(in)-1)
	if pos != len(pre) {
		ok = false
	}
	return h, ok
}

// heightOK: h <= 2*log2(n+1)  <=>  2^h <= (n+1)^2
func heightOK(h, n int) bool {
	if h > 60 {
		return false
	}
	return uint64(1)<<uint(h) <= uint64(n+1)*uint64(n+1)
}

// classifyDelete names the fixAfterDeletion case the removal of key k will start in (coverage only).
func classifyDelete(root *node, k int) string {
	z := root
	for z != nil && z.k != k {
		if k < z.k {
			z = z.l
		} else {
			z = z.r
		}
	}
	if z == nil {
		return "absent"
	}
	two := ""
	y := z
	if z.l != nil && z.r != nil {
		two = "2ch:"
		y = z.r
		for y.l != nil {
			y = y.l
		}
	}
	x := y.l
	if x == nil {
		x = y.r
	}
	if y.red {
		return two + "red-node"
	}
	if x != nil && x.red {
		return two + "red-replacement"
	}
	if y.p == nil {
		return two + "root"
	}
	side, sib, far, near := "L", y.p.r, (*node)(nil), (*node)(nil)
	if y.p.r == y {
		side, sib = "R", y.p.l
	}
	isRed := func(n *node) bool { return n != nil && n.red }
	c := two + "fix" + side + ":"
	pRed := y.p.red
	if isRed(sib) {
		c += "1+"
		pRed = true
		if side == "L" {
			sib = sib.l
		} else {
			sib = sib.r
		}
	}
	if sib == nil {
		return c + "nil-sibling"
	}
	if side == "L" {
		far, near = sib.r, sib.l
	} else {
		far, near = sib.l, sib.r
	}
	switch {
	case !isRed(far) && !isRed(near):
		if pRed {
			return c + "2-stop"
		}
		return c + "2-up"
	case !isRed(far):
		return c + "3+4"
	}
	return c + "4"
}

// ---------------------------------------------------------------------------------------------
// running one case

type failure struct {
	key, what string
}

type caseJSON struct {
	Ops []string `json:"ops"`
}

func ints(ws []string) ([]int, bool) {
	out := make([]int, len(ws))
	for i, w := range ws {
		v, err := strconv.Atoi(w)
		if err != nil {
			return nil, false
		}
		out[i] = v
	}
	return out, true
}

func joinKV(a []kv, f func(kv) string) string {
	if len(a) == 0 {
		return "-"
	}
	parts := make([]string, len(a))
	for i, e := range a {
		parts[i] = f(e)
	}
	return strings.Join(parts, ",")
}

func kvString(e kv) string { return fmt.Sprintf("%d:%d", e.k, e.v) }

func sameMultiset(a, b []kv) bool {
	if len(a) != len(b) {
		return false
	}
	m := map[kv]int{}
	for _, e := range a {
		m[e]++
	}
	for _, e := range b {
		m[e]--
		if m[e] < 0 {
			return false
		}
	}
	return true
}

func sameSeq(a, b []kv) bool {
	if len(a) != len(b) {
		return false
	}
	for i := range a {
		if a[i] != b[i] {
			return false
		}
	}
	return true
}

func keysOf(a []kv) []int {
	out := make([]int, len(a))
	for i, e := range a {
		out[i] = e.k
	}
	return out
}

// runCase executes the op lines on a fresh real map.  With emit, every executed line and the real
// code's answer go to the model's streams.  It stops at the first oracle failure and returns it.
// cov receives coverage counters (may be nil).  flags: "fixup" / "iter-remove" when reached.
// watchdog state: a corrupted tree (a cycle through parent links, say) can make the real code loop forever,
// which no recover() ends; main watches `progress` and reports the op that never answered.
var (
	progress int64        // ops started so far, over all runCase calls
	curIdx   int64        // index of the op being executed in curOps
	curOps   atomic.Value // []string
)

// probeFatal: treat a violated internal invariant (red-black colour rule, black height, parent links) like an
// oracle failure — used only to shrink a case to the first probe violation. Otherwise the first violation of
// a case is kept in probeSeen and the case goes on: the PROPERTY speaks about answers and height only.
var (
	probeFatal bool
	probeSeen  *failure
)

func runCase(r *hxlib.Run, ops []string, emit bool, cov func(string)) (fl *failure, flags map[string]bool) {
	probeSeen = nil
	curOps.Store(ops)
	atomic.StoreInt64(&curIdx, 0)
	m := treemap.New()
	s := &ref{}
	iters := map[int]*iterState{}
	flags = map[string]bool{}
	count := func(k string) {
		if cov != nil {
			cov(k)
		}
	}
	fail := func(key, format string, a ...interface{}) {
		if strings.HasPrefix(key, "probe:") && key != "probe:panic" && !probeFatal {
			// an internal-invariant violation is not a property violation: remember the first one and go on
			if probeSeen == nil {
				probeSeen = &failure{key, fmt.Sprintf(format, a...)}
			}
			return
		}
		if fl == nil {
			fl = &failure{key, fmt.Sprintf(format, a...)}
		}
	}
	// cheap consistency after every mutation: the size field, and now and then the whole structure
	mutations := 0
	afterMutation := func(verb string) {
		mutations++
		var sz int
		if p := hxlib.Guard(func() { sz = m.Size() }); p != "" {
			fail("panic:size", "Size() panics after %s: %s", verb, p)
			return
		}
		if sz != len(s.a) {
			fail("size", "Size() = %d after %s, the sorted map holds %d entries", sz, verb, len(s.a))
			return
		}
		if len(s.a) <= 64 || mutations%97 == 0 {
			var why string
			if p := hxlib.Guard(func() { why = m.VerifCheck() }); p != "" {
				fail("probe:panic", "structure walk panics after %s: %s", verb, p)
			} else if why != "" {
				fail("probe:"+strings.SplitN(why, ":", 2)[0], "after %s the tree violates a red-black invariant - %s", verb, why)
			}
		}
	}
	classify := func(k int) {
		if cov == nil || (len(s.a) > 512 && mutations%50 != 0) {
			return
		}
		var c string
		if p := hxlib.Guard(func() { c = classifyDelete(probeTree(m), k) }); p == "" {
			count("delete:" + c)
			if strings.Contains(c, "fix") {
				flags["fixup"] = true
			}
		}
	}
	listing := func(walk func(treemap.EntryAction)) (out []kv, p string) {
		p = hxlib.Guard(func() {
			walk(func(k treemap.KeyType, v interface{}) { out = append(out, kv{int(k.(K)), v.(int)}) })
		})
		return
	}

	for i, line := range ops {
		if fl != nil {
			break
		}
		atomic.StoreInt64(&curIdx, int64(i))
		atomic.AddInt64(&progress, 1)
		ws := strings.Fields(line)
		if len(ws) == 0 {
			continue
		}
		verb := ws[0]
		args, okArgs := ints(ws[1:])
		if verb == "iter" && len(ws) == 3 {
			a0, err := strconv.Atoi(ws[1])
			args, okArgs = []int{a0}, err == nil
		}
		if verb == "loop" && len(ws) == 5 {
			args, okArgs = ints(ws[2:])
		}
		if !okArgs {
			continue
		}
		var ans string
		executed := true
		pn := hxlib.Guard(func() {
			switch {
			case verb == "put" && len(args) == 2:
				old := m.Put(K(args[0]), args[1])
				ro, had := s.put(args[0], args[1])
				if old == nil {
					ans = "nil"
				} else {
					ans = fmt.Sprintf("old=%d", old.(int))
				}
				want := "nil"
				if had {
					want = fmt.Sprintf("old=%d", ro)
				}
				if ans != want {
					fail("put-result", "Put(%d,%d) returned %s, the sorted map says %s", args[0], args[1], ans, want)
				}
				if had {
					count("put-replace")
				} else {
					count("put-new")
				}
				afterMutation(line)
			case verb == "rm" && len(args) == 1:
				classify(args[0])
				got := m.Remove(K(args[0]))
				want := s.del(args[0])
				ans = strconv.FormatBool(got)
				if got != want {
					fail("remove-result", "Remove(%d) returned %v, the sorted map says %v", args[0], got, want)
				}
				count("remove-" + ans)
				afterMutation(line)
			case verb == "clear" && len(args) == 0:
				m.Clear()
				s.clear()
				ans = "ok"
				count("clear")
				afterMutation(line)
			case verb == "get" && len(args) == 1:
				v, ok := m.Get(K(args[0]))
				rv, rok := s.get(args[0])
				ans = "none"
				if ok {
					ans = strconv.Itoa(v.(int))
				}
				if ok != rok || (ok && v.(int) != rv) {
					fail("get", "Get(%d) = %s, the sorted map says %s", args[0], ans, fmtKV(kv{args[0], rv}, rok))
				}
				count("get-" + strconv.FormatBool(ok))
			case verb == "getd" && len(args) == 2:
				v := m.GetOrDefault(K(args[0]), args[1]).(int)
				rv, rok := s.get(args[0])
				if !rok {
					rv = args[1]
				}
				ans = strconv.Itoa(v)
				if v != rv {
					fail("get-or-default", "GetOrDefault(%d,%d) = %d, the sorted map says %d", args[0], args[1], v, rv)
				}
			case verb == "has" && len(args) == 1:
				got := m.Contains(K(args[0]))
				_, want := s.get(args[0])
				ans = strconv.FormatBool(got)
				if got != want {
					fail("contains", "Contains(%d) = %v, the sorted map says %v", args[0], got, want)
				}
			case verb == "size" && len(args) == 0:
				ans = strconv.Itoa(m.Size())
				if m.Size() != len(s.a) {
					fail("size", "Size() = %d, the sorted map holds %d entries", m.Size(), len(s.a))
				}
			case verb == "empty" && len(args) == 0:
				ans = strconv.FormatBool(m.IsEmpty())
				if m.IsEmpty() != (len(s.a) == 0) {
					fail("is-empty", "IsEmpty() = %v with %d entries in the sorted map", m.IsEmpty(), len(s.a))
				}
			case (verb == "first" || verb == "last") && len(args) == 0:
				var e *treemap.Entry
				var kk treemap.KeyType
				var want kv
				if verb == "first" {
					e, kk = m.FirstEntry(), m.FirstKey()
					if len(s.a) > 0 {
						want = s.a[0]
					}
				} else {
					e, kk = m.LastEntry(), m.LastKey()
					if len(s.a) > 0 {
						want = s.a[len(s.a)-1]
					}
				}
				ans = fmtEntry(e)
				w := fmtKV(want, len(s.a) > 0)
				if ans != w {
					fail(verb, "%sEntry() = %s, the sorted map says %s", verb, ans, w)
				}
				if (e == nil) != (kk == nil) || (e != nil && fmtKey(kk) != strconv.Itoa(want.k)) {
					fail(verb, "%sKey() = %s but the sorted map says %s", verb, fmtKey(kk), w)
				}
			case (verb == "floor" || verb == "ceil" || verb == "higher") && len(args) == 1:
				var e *treemap.Entry
				var kk treemap.KeyType
				var want kv
				var wok bool
				switch verb {
				case "floor":
					e, kk = m.FloorEntry(K(args[0])), m.FloorKey(K(args[0]))
					want, wok = s.floor(args[0])
				case "ceil":
					e, kk = m.CeilingEntry(K(args[0])), m.CeilingKey(K(args[0]))
					want, wok = s.ceil(args[0])
				default:
					e, kk = m.HigherEntry(K(args[0])), m.HigherKey(K(args[0]))
					want, wok = s.higher(args[0])
				}
				ans = fmtEntry(e)
				w := fmtKV(want, wok)
				if ans != w {
					fail(verb, "%s(%d) = %s, the sorted map says %s", verb, args[0], ans, w)
				}
				if (e == nil) != (kk == nil) || (e != nil && fmtKey(kk) != strconv.Itoa(int(e.GetKey().(K)))) {
					fail(verb, "%sKey(%d) = %s disagrees with %sEntry = %s", verb, args[0], fmtKey(kk), verb, ans)
				}
				_, present := s.get(args[0])
				count(fmt.Sprintf("%s-present=%v-found=%v", verb, present, wok))
			case verb == "keys" && len(args) == 0:
				ks := m.Keys()
				parts := make([]string, len(ks))
				same := len(ks) == len(s.a)
				for i, k := range ks {
					parts[i] = fmtKey(k)
					if same && int(k.(K)) != s.a[i].k {
						same = false
					}
				}
				ans = "-"
				if len(parts) > 0 {
					ans = strings.Join(parts, ",")
				}
				if !same {
					fail("keys", "Keys() = [%s], the sorted map holds [%s]", clip(ans), clip(joinKV(s.a, func(e kv) string { return strconv.Itoa(e.k) })))
				}
			case verb == "values" && len(args) == 0:
				vs := m.Values()
				parts := make([]string, len(vs))
				same := len(vs) == len(s.a)
				for i, v := range vs {
					parts[i] = strconv.Itoa(v.(int))
					if same && v.(int) != s.a[i].v {
						same = false
					}
				}
				ans = "-"
				if len(parts) > 0 {
					ans = strings.Join(parts, ",")
				}
				if !same {
					fail("values", "Values() = [%s], the sorted map holds [%s]", clip(ans), clip(joinKV(s.a, func(e kv) string { return strconv.Itoa(e.v) })))
				}
			case (verb == "in" || verb == "foreach") && len(args) == 0:
				var got []kv
				var p string
				if verb == "in" {
					got, p = listing(m.InOrderTraversal)
				} else {
					got, p = listing(m.Foreach)
				}
				if p != "" {
					panic(p)
				}
				ans = joinKV(got, kvString)
				if !sameSeq(got, s.a) {
					fail(verb, "%s listing = [%s], the sorted map holds [%s]", verb, clip(ans), clip(joinKV(s.a, kvString)))
				}
			case (verb == "pre" || verb == "post") && len(args) == 0:
				walk := m.PreOrderTraversal
				if verb == "post" {
					walk = m.PostOrderTraversal
				}
				got, p := listing(walk)
				if p != "" {
					panic(p)
				}
				ans = joinKV(got, kvString)
				if !sameMultiset(got, s.a) {
					fail(verb, "%s-order traversal [%s] does not visit exactly the entries [%s]", verb, clip(ans), clip(joinKV(s.a, kvString)))
				} else if verb == "pre" {
					// the shape, without any hook: pre-order + in-order
					in, p2 := listing(m.InOrderTraversal)
					if p2 != "" {
						panic(p2)
					}
					h, ok := heightFromTraversals(keysOf(got), keysOf(in))
					if !ok {
						fail("shape", "pre-order [%s] and in-order [%s] are not traversals of one tree", clip(ans), clip(joinKV(in, kvString)))
					} else if !heightOK(h, len(s.a)) {
						fail("height", "height %d with %d entries exceeds 2*log2(n+1)", h, len(s.a))
					}
					count("height-checked")
				}
			case (verb == "shape" || verb == "shapeh") && len(args) == 0:
				root := probeTree(m)
				n, h := countOf(root), heightOf(root)
				if verb == "shape" {
					var sb strings.Builder
					dump(root, &sb)
					ans = sb.String()
				} else {
					ans = fmt.Sprintf("n=%d h=%d hash=%d", n, h, shapeHash(root, 7))
				}
				if n != len(s.a) {
					fail("size", "the tree has %d nodes, the sorted map holds %d entries", n, len(s.a))
				} else if !heightOK(h, n) {
					fail("height", "height %d with %d entries exceeds 2*log2(n+1)", h, n)
				}
				if why := m.VerifCheck(); why != "" {
					fail("probe:"+strings.SplitN(why, ":", 2)[0], "the tree violates a red-black invariant - %s", why)
				}
				count("height-checked")
			case verb == "loop" && len(ws) == 5 && args[0] >= 0 && args[1] >= 0 && args[2] >= 0:
				// for i := 0; i < limit && it.HasNext(); i++ { e := it.Next(); if sel(key) { it.Remove() } }
				// sel(k) = mod != 0 && k % mod == rem; the value iterator does not show keys, so for it the
				// generator only selects nothing (mod 0) or everything (mod 1)
				st := newIter(m, ws[1])
				limit, mod, rem := args[0], args[1], args[2]
				if st == nil || (ws[1] == "value" && mod > 1) {
					executed = false
					return
				}
				var got []string
				var removed []int
				pk := ""
				order := append([]kv(nil), s.a...)
				if st.desc {
					for i, j := 0, len(order)-1; i < j; i, j = i+1, j-1 {
						order[i], order[j] = order[j], order[i]
					}
				}
				for i := 0; i < limit && st.impl.HasNext(); i++ {
					var e string
					if p := hxlib.Guard(func() { e = st.next() }); p != "" {
						pk = panicKind(p)
						break
					}
					got = append(got, e)
					sel := mod == 1
					if mod > 1 {
						if k, err := leadingInt(e); err == nil && k%mod == rem {
							sel = true
						}
					}
					if sel {
						if p := hxlib.Guard(func() { st.impl.Remove() }); p != "" {
							pk = panicKind(p)
							break
						}
						if i < len(order) {
							removed = append(removed, order[i].k)
						}
					}
				}
				ans = "-"
				if len(got) > 0 {
					ans = strings.Join(got, ",")
				}
				if pk != "" {
					ans += " " + pk
					fail("loop:"+st.kind+":"+pk, "the %s iterator loop (%s) stopped with %s after returning [%s]", st.kind, line, pk, clip(strings.Join(got, ",")))
				}
				n := limit
				if n > len(order) {
					n = len(order)
				}
				want := make([]string, n)
				for i := range want {
					want[i] = st.show(order[i])
				}
				if pk == "" && strings.Join(got, ",") != strings.Join(want, ",") {
					fail("loop:"+st.kind+":visits", "the %s iterator loop (%s) returned [%s]; the entries present in that direction are [%s]", st.kind, line, clip(strings.Join(got, ",")), clip(strings.Join(want, ",")))
				}
				for _, k := range removed {
					if s.del(k) {
						flags["iter-remove"] = true
					}
				}
				count("loop:" + st.kind)
				afterMutation(line)
			case verb == "iter" && len(ws) == 3:
				st := newIter(m, ws[2])
				if st == nil {
					executed = false
					return
				}
				st.refMod = s.mod
				iters[args[0]] = st
				ans = "ok"
				count("iter-new:" + ws[2])
			case verb == "hasnext" && len(args) == 1:
				st := iters[args[0]]
				if st == nil {
					executed = false
					return
				}
				got := st.impl.HasNext()
				ans = strconv.FormatBool(got)
				if st.refMod == s.mod {
					if _, want := st.refNext(s); got != want {
						fail("iter-hasnext:"+st.kind, "HasNext() of an undisturbed %s iterator = %v, the sorted map says %v", st.kind, got, want)
					}
				}
			case verb == "next" && len(args) == 1:
				st := iters[args[0]]
				if st == nil {
					executed = false
					return
				}
				stale := st.refMod != s.mod
				want, wok := st.refNext(s)
				var got string
				if p := hxlib.Guard(func() { got = st.next() }); p != "" {
					ans = panicKind(p)
					if ans == "panic:other" {
						fail("iter-next:panic", "Next() of the %s iterator panics: %s", st.kind, p)
					}
				} else {
					ans = got
				}
				if strings.HasPrefix(ans, "panic:") {
					count("iter-next:" + ans)
				} else {
					count("iter-next:ok")
				}
				switch {
				case strings.HasPrefix(ans, "panic:") && stale:
					count("iter-stale-detected")
				case strings.HasPrefix(ans, "panic:"):
					if wok || ans != "panic:nosuch" {
						fail("iter-next:"+st.kind+":"+ans, "Next() of an undisturbed %s iterator answered %s, the sorted map says the next entry is %s", st.kind, ans, fmtKV(want, wok))
					}
				case !wok || got != st.show(want):
					cls := st.kind + ":wrong"
					if stale {
						cls = "after-foreign-change"
					} else if k, e := leadingInt(got); e == nil && st.kind != "value" && st.visited[k] {
						cls = st.kind + ":revisit"
					}
					fail("iter-next:"+cls, "Next() of the %s iterator returned %s after %s; the sorted map says the next entry in that direction is %s (disturbed by a foreign change: %v)",
						st.kind, got, lastText(st), fmtKV(want, wok), stale)
				default:
					st.hasLast, st.last, st.canRemove = true, want.k, true
					st.visited[want.k] = true
				}
			case verb == "irm" && len(args) == 1:
				st := iters[args[0]]
				if st == nil {
					executed = false
					return
				}
				stale := st.refMod != s.mod
				if st.canRemove && !stale {
					classify(st.last)
				}
				if p := hxlib.Guard(func() { st.impl.Remove() }); p != "" {
					ans = panicKind(p)
					if ans == "panic:other" {
						fail("iter-remove:panic", "Remove() of the %s iterator panics: %s", st.kind, p)
					}
				} else {
					ans = "ok"
				}
				count("iter-remove:" + ans)
				switch {
				case ans != "ok" && stale:
					count("iter-stale-detected")
				case ans != "ok":
					if st.canRemove || ans != "panic:illegal" {
						fail("iter-remove:"+st.kind+":"+ans, "Remove() of an undisturbed %s iterator answered %s after %s", st.kind, ans, lastText(st))
					}
				case !st.canRemove:
					fail("iter-remove:"+st.kind+":no-element", "Remove() of the %s iterator succeeded although no element was returned since the last removal", st.kind)
				default:
					// the entry last returned leaves the map (if a foreign change already took it, nothing does)
					if s.del(st.last) {
						flags["iter-remove"] = true
					}
					st.canRemove = false
					if !stale {
						st.refMod = s.mod
					}
					afterMutation(line)
				}
			default:
				executed = false
			}
		})
		if pn != "" {
			ans = "panic"
			fail("panic:"+verb, "%q panics: %s", line, pn)
		}
		if executed && emit {
			r.Op(line, ans)
		}
		if executed {
			count("op:" + verb)
		}
	}
	if fl == nil {
		// final sweep: the whole content and the hook-free shape
		atomic.AddInt64(&progress, 1)
		pn := hxlib.Guard(func() {
			in, p := listing(m.InOrderTraversal)
			if p != "" {
				panic(p)
			}
			if !sameSeq(in, s.a) {
				fail("in", "at the end the in-order listing is [%s], the sorted map holds [%s]", clip(joinKV(in, kvString)), clip(joinKV(s.a, kvString)))
				return
			}
			pre, p := listing(m.PreOrderTraversal)
			if p != "" {
				panic(p)
			}
			h, ok := heightFromTraversals(keysOf(pre), keysOf(in))
			if !ok {
				fail("shape", "at the end pre-order and in-order are not traversals of one tree")
			} else if !heightOK(h, len(s.a)) {
				fail("height", "height %d with %d entries exceeds 2*log2(n+1)", h, len(s.a))
			}
			if m.Size() != len(s.a) {
				fail("size", "Size() = %d at the end, the sorted map holds %d entries", m.Size(), len(s.a))
			}
		})
		if pn != "" {
			fail("panic:final-sweep", "the final listing panics: %s", pn)
		}
	}
	return fl, flags
}

func leadingInt(s string) (int, error) {
	if i := strings.IndexByte(s, ':'); i >= 0 {
		s = s[:i]
	}
	return strconv.Atoi(s)
}

func lastText(st *iterState) string {
	if !st.hasLast {
		return "its creation"
	}
	return fmt.Sprintf("returning key %d", st.last)
}

func clip(s string) string {
	if len(s) > 300 {
		return s[:300] + "..."
	}
	return s
}

// ---------------------------------------------------------------------------------------------
// generators

type gen struct {
	r   *hxlib.Run
	ops []string
}

func (g *gen) add(format string, a ...interface{}) { g.ops = append(g.ops, fmt.Sprintf(format, a...)) }
func (g *gen) val() int                            { return g.r.R.Range(-999, 999) }

var kinds = []string{"entry", "dentry", "key", "dkey", "value"}

// order returns n distinct keys (multiples of `step`, so that absent neighbours exist) in the named order.
func (g *gen) order(name string, n, step int) []int {
	ks := make([]int, n)
	for i := range ks {
		ks[i] = (i + 1) * step
	}
	switch name {
	case "sorted":
	case "reverse":
		for i, j := 0, n-1; i < j; i, j = i+1, j-1 {
			ks[i], ks[j] = ks[j], ks[i]
		}
	case "zigzag": // lowest, highest, second lowest, ...
		out := make([]int, 0, n)
		for i, j := 0, n-1; i <= j; i, j = i+1, j-1 {
			out = append(out, ks[i])
			if i != j {
				out = append(out, ks[j])
			}
		}
		ks = out
	case "middle-out":
		out := make([]int, 0, n)
		for d := 0; len(out) < n; d++ {
			if i := n/2 + d; i < n {
				out = append(out, ks[i])
			}
			if i := n/2 - 1 - d; i >= 0 {
				out = append(out, ks[i])
			}
		}
		ks = out
	default: // random
		for i := n - 1; i > 0; i-- {
			j := g.r.R.Intn(i + 1)
			ks[i], ks[j] = ks[j], ks[i]
		}
	}
	return ks
}

var orders = []string{"sorted", "reverse", "zigzag", "middle-out", "random"}

func (g *gen) query(u int) {
	k := g.r.R.Intn(u + 2)
	switch g.r.R.Intn(17) {
	case 0:
		g.add("get %d", k)
	case 1:
		g.add("has %d", k)
	case 2:
		g.add("getd %d %d", k, g.val())
	case 3:
		g.add("size")
	case 4:
		g.add("empty")
	case 5:
		g.add("first")
	case 6:
		g.add("last")
	case 7, 8:
		g.add("floor %d", k)
	case 9, 10:
		g.add("ceil %d", k)
	case 11, 12:
		g.add("higher %d", k)
	case 13:
		g.add("keys")
	case 14:
		g.add("values")
	case 15:
		g.add([]string{"in", "foreach", "post"}[g.r.R.Intn(3)])
	default:
		g.add("pre")
	}
}

// loop: one whole iterator loop of a random kind with a bound on the rounds and a selection of removals
func (g *gen) loop(u int) {
	R := g.r.R
	kind := kinds[R.Intn(len(kinds))]
	limit := R.Pick(0, 1, 2, 3, R.Intn(u+2), u+1, u+1)
	mod, rem := R.Pick(0, 1, 2, 2, 3, 3, 5), 0
	if kind == "value" && mod > 1 {
		mod = R.Intn(2)
	}
	if mod > 1 {
		rem = R.Intn(mod)
	}
	g.add("loop %s %d %d %d", kind, limit, mod, rem)
}

// random mixes every op over a key universe of size u, with up to three live iterators.
func (g *gen) random(u, n int) {
	R := g.r.R
	live := map[int]bool{}
	for i := 0; i < n; i++ {
		switch x := R.Intn(100); {
		case x < 34:
			g.add("put %d %d", R.Intn(u), g.val())
		case x < 52:
			g.add("rm %d", R.Intn(u))
		case x < 53:
			g.add("clear")
		case x < 72:
			g.query(u)
		case x < 75:
			g.add("shape")
		case x < 78:
			g.loop(u)
		default:
			s := R.Intn(3)
			if !live[s] || R.Chance(1, 12) {
				g.add("iter %d %s", s, kinds[R.Intn(len(kinds))])
				live[s] = true
				continue
			}
			switch y := R.Intn(10); {
			case y < 2:
				g.add("hasnext %d", s)
			case y < 7:
				g.add("next %d", s)
				if R.Chance(2, 5) {
					g.add("irm %d", s)
				}
			default:
				g.add("irm %d", s)
			}
		}
	}
	g.add("shape")
}

// iterFocus: build n keys, then run one iterator to the end removing a random selection; optionally one
// foreign change in the middle (a value replacement keeps the iterator valid, anything structural must
// be detected).
func (g *gen) iterFocus(n int, order, kind string, removeNum, removeDen int, disturb string) {
	R := g.r.R
	ks := g.order(order, n, 2)
	for _, k := range ks {
		g.add("put %d %d", k, g.val())
	}
	if R.Chance(1, 2) { // some deletions first, so that the shape is not an insertion-only shape
		for i := 0; i < n/3; i++ {
			g.add("rm %d", ks[R.Intn(n)])
		}
	}
	g.add("shape")
	g.add("iter 0 %s", kind)
	at := -1
	if disturb != "" {
		at = R.Intn(n + 1)
	}
	for i := 0; i <= n+1; i++ {
		if i == at {
			switch disturb {
			case "replace":
				g.add("put %d %d", ks[R.Intn(n)], g.val())
			case "put-new":
				g.add("put %d %d", 2*R.Intn(n+1)+1, g.val())
			case "remove":
				g.add("rm %d", ks[R.Intn(n)])
			case "clear":
				g.add("clear")
			case "other-iterator":
				g.add("iter 1 %s", kinds[R.Intn(len(kinds))])
				g.add("next 1")
				g.add("irm 1")
			}
		}
		g.add("hasnext 0")
		g.add("next 0")
		if R.Chance(removeNum, removeDen) {
			g.add("irm 0")
			if R.Chance(1, 10) {
				g.add("irm 0") // twice: illegal state
			}
		}
	}
	g.add("size")
	g.add("keys")
	g.add("shape")
}

// multiIter: the histories of the C10_multi_* theorems (Model/C10Multi.lean, answered by `mstep`): 2-4 iterators of
// mixed kinds alive at once over n keys, advanced in a random interleaving; removals through one of them while the
// others are mid-way (they must fail fast from then on, the remover must go on); in between value-only Puts on
// present keys (no structural change: everybody goes on), queries, now and then a structural map change or a
// re-created slot.
func (g *gen) multiIter(n int) {
	R := g.r.R
	ks := g.order(orders[R.Intn(len(orders))], n, 2)
	for _, k := range ks {
		g.add("put %d %d", k, g.val())
	}
	for i := 0; i < n/4; i++ {
		g.add("rm %d", ks[R.Intn(n)])
	}
	g.add("shape")
	slots := R.Range(2, 4)
	for s := 0; s < slots; s++ {
		g.add("iter %d %s", s, kinds[R.Intn(len(kinds))])
	}
	remover := R.Intn(slots) // the slot that removes most
	quiet := R.Chance(1, 3)  // read-only: every iterator must complete
	for i := 0; i < 3*n+6; i++ {
		s := R.Intn(slots)
		switch x := R.Intn(100); {
		case x < 50:
			if R.Chance(1, 3) {
				g.add("hasnext %d", s)
			}
			g.add("next %d", s)
			if !quiet && (s == remover && R.Chance(1, 3) || R.Chance(1, 25)) {
				g.add("irm %d", s)
			}
		case x < 58:
			g.add("hasnext %d", s)
		case x < 64 && !quiet:
			g.add("irm %d", s)
		case x < 76:
			g.add("put %d %d", ks[R.Intn(n)], g.val()) // mostly a present key: value-only
		case x < 84:
			g.query(2*n + 2)
		case x < 87 && !quiet:
			switch R.Intn(3) {
			case 0:
				g.add("put %d %d", 2*R.Intn(n+1)+1, g.val())
			case 1:
				g.add("rm %d", ks[R.Intn(n)])
			default:
				if R.Chance(1, 4) {
					g.add("clear")
				}
			}
		case x < 92 && !quiet:
			g.add("iter %d %s", s, kinds[R.Intn(len(kinds))])
		default:
			g.add("keys")
		}
	}
	for s := 0; s < slots; s++ {
		g.add("hasnext %d", s)
		g.add("next %d", s)
		g.add("irm %d", s)
	}
	g.add("size")
	g.add("in")
	g.add("shape")
}

// bulk: n keys inserted in one order, neighbour queries around every boundary, then removed in another order.
func (g *gen) bulk(n int, insOrder, delOrder string, big bool) {
	R := g.r.R
	ks := g.order(insOrder, n, 2)
	probe := "shape"
	if big {
		probe = "shapeh"
	}
	every := n/8 + 1
	for i, k := range ks {
		g.add("put %d %d", k, g.val())
		if i%every == every-1 {
			g.add(probe)
		}
	}
	g.add(probe)
	g.add("pre")
	for _, k := range []int{0, 1, 2, 3, 2*n - 1, 2 * n, 2*n + 1, 2*n + 2, n, n + 1} {
		g.add("floor %d", k)
		g.add("ceil %d", k)
		g.add("higher %d", k)
		g.add("get %d", k)
	}
	for i := 0; i < 24; i++ {
		g.query(2 * n)
	}
	if big {
		g.add("keys")
	}
	ds := g.order(delOrder, n, 2)
	stop := n
	if R.Chance(1, 3) {
		stop = n * 2 / 3 // leave a remainder, then re-insert
	}
	for i, k := range ds[:stop] {
		g.add("rm %d", k)
		if i%every == every-1 {
			g.add(probe)
			g.query(2 * n)
		}
	}
	g.add(probe)
	if stop < n {
		for i := 0; i < n/4; i++ {
			g.add("put %d %d", R.Intn(2*n+2), g.val())
		}
		g.add(probe)
	}
	g.add("in")
}

// permutations of 1..n (Heap's algorithm), visiting each
func permute(n int, visit func([]int)) {
	a := make([]int, n)
	for i := range a {
		a[i] = i + 1
	}
	c := make([]int, n)
	visit(a)
	for i := 0; i < n; {
		if c[i] < i {
			if i%2 == 0 {
				a[0], a[i] = a[i], a[0]
			} else {
				a[c[i]], a[i] = a[i], a[c[i]]
			}
			visit(a)
			c[i]++
			i = 0
		} else {
			c[i] = 0
			i++
		}
	}
}

// ---------------------------------------------------------------------------------------------

func caseKey(ops []string) string {
	h := fnv.New64a()
	for _, o := range ops {
		h.Write([]byte(o))
		h.Write([]byte{'\n'})
	}
	return strconv.FormatUint(h.Sum64(), 36)
}

// one runs a generated case: real code + oracle, lines for the model; on failure it shrinks the op list.
func one(r *hxlib.Run, ops []string, label string) {
	r.Case()
	r.Count("case:" + label)
	r.Op("new", "ok")
	fl, flags := runCase(r, ops, true, r.Count)
	if flags["fixup"] || flags["iter-remove"] {
		r.NonTrivial(caseKey(ops))
	}
	if flags["fixup"] {
		r.Count("case-reaches-deletion-fixup")
	}
	if flags["iter-remove"] {
		r.Count("case-removes-through-iterator")
	}
	if fl == nil && probeSeen != nil {
		// The tree left the red-black envelope but every answer and the height bound were still right.
		// Try to turn it into a property failure: the same history followed by a long churn over a small universe
		// with the height measured all the time (a lost invariant tends to degrade further).
		pb := *probeSeen
		found := false
		for try := 0; try < 6 && !found; try++ {
			rr := r.R.Fork()
			ext := append([]string{}, ops...)
			u := []int{24, 48, 96, 200, 400, 1000}[try]
			for i := 0; i < 6000; i++ {
				switch {
				case i%8 == 7:
					ext = append(ext, "pre")
				case rr.Chance(1, 2):
					ext = append(ext, fmt.Sprintf("put %d %d", rr.Intn(u), rr.Intn(1000)))
				default:
					ext = append(ext, fmt.Sprintf("rm %d", rr.Intn(u)))
				}
			}
			if f2, _ := runCase(r, ext, false, nil); f2 != nil {
				ops, fl, found = ext, f2, true
				r.Count("probe-violation-amplified-into-a-property-failure")
			}
		}
		if !found {
			// shrink to the first probe violation and report it as a broken correspondence
			probeFatal = true
			keep := hxlib.DDMin(len(ops), func(keep []int) bool {
				cand := make([]string, len(keep))
				for i, j := range keep {
					cand[i] = ops[j]
				}
				f2, _ := runCase(r, cand, false, nil)
				return f2 != nil && f2.key == pb.key
			})
			probeFatal = false
			small := make([]string, len(keep))
			for i, j := range keep {
				small[i] = ops[j]
			}
			r.Broken(pb.key, pb.what+fmt.Sprintf(" — every answer and the height bound were still right on this case and on 6 churn extensions of it [case %s, %d ops after shrinking]", label, len(small)), caseJSON{small})
			return
		}
	}
	if fl == nil {
		return
	}
	// shrink: keep the same failure class
	small := ops
	if len(ops) <= 4000 {
		keep := hxlib.DDMin(len(ops), func(keep []int) bool {
			cand := make([]string, len(keep))
			for i, j := range keep {
				cand[i] = ops[j]
			}
			f2, _ := runCase(r, cand, false, nil)
			return f2 != nil && f2.key == fl.key
		})
		small = make([]string, len(keep))
		for i, j := range keep {
			small[i] = ops[j]
		}
		if f2, _ := runCase(r, small, false, nil); f2 != nil {
			fl = f2
		}
	}
	r.Fail(fl.key, fl.what+fmt.Sprintf(" [case %s, %d ops after shrinking]", label, len(small)), caseJSON{small})
}

const (
	hangSeconds  = 15
	runawayBytes = 1 << 30 // the harness itself needs a few MB; a listing that never ends allocates without bound
)

func main() {
	r := hxlib.Start("C10", "an op sequence on one map; non-trivial when it reaches a deletion fix-up case (black node with no red replacement unlinked) or removes through an iterator; distinct by op list")
	log.SetOutput(io.Discard)
	done := make(chan struct{})
	go func() {
		defer close(done)
		work(r)
	}()
	last, idle := int64(-1), 0
	var ms runtime.MemStats
	for {
		select {
		case <-done:
			r.Finish()
			return
		case <-time.After(100 * time.Millisecond):
		}
		if p := atomic.LoadInt64(&progress); p != last {
			last, idle = p, 0
			continue
		}
		idle++
		runtime.ReadMemStats(&ms)
		if idle < hangSeconds*10 && (idle < 5 || ms.HeapAlloc < runawayBytes) {
			continue
		}
		// the worker is stuck inside the real code (it does not touch r any more)
		if cs, ok := curSearch.Load().(scase); ok && cs.Leg != "" {
			r.Fail("hang", fmt.Sprintf("search leg %s/%s (n=%d seed=%d): a call did not return (%.1f s without an answer, heap %d MB): the real code loops", cs.Leg, cs.Variant, cs.N, cs.Seed, float64(idle)/10, ms.HeapAlloc>>20), cs)
			r.Finish()
			os.Exit(0)
		}
		ops, _ := curOps.Load().([]string)
		i := int(atomic.LoadInt64(&curIdx))
		if i >= len(ops) {
			i = len(ops) - 1
		}
		op := "?"
		if i >= 0 {
			op = ops[i]
			ops = ops[:i+1]
		}
		r.Fail("hang", fmt.Sprintf("%q (op %d of the case) did not return (%.1f s without an answer, heap %d MB): the real code loops", op, i+1, float64(idle)/10, ms.HeapAlloc>>20), caseJSON{ops})
		r.Finish()
		os.Exit(0)
	}
}

func work(r *hxlib.Run) {
	if r.Replay != "" {
		var sc scase
		r.LoadReplay(&sc)
		if sc.Leg != "" { // a case of a search leg (search.go): regenerated from its parameters
			r.Case()
			runSearchCase(sc).report(r, sc)
			r.Sample(sc)
			return
		}
		var c caseJSON
		r.LoadReplay(&c)
		r.Case()
		r.Op("new", "ok")
		if fl, _ := runCase(r, c.Ops, true, r.Count); fl != nil {
			r.Fail(fl.key, fl.what, c)
		}
		r.Sample(c)
		return
	}
	mk := func() *gen { return &gen{r: r} }
	samples := 0
	run := func(g *gen, label string) {
		if samples < 4 && len(g.ops) < 40 {
			r.Sample(caseJSON{g.ops})
			samples++
		}
		one(r, g.ops, label)
	}

	// 0. corpus: the minimised past failures (D11: descending entry iterator revisits after removing a
	// two-child node; Clear without a version bump: a surviving iterator walks and corrupts the cleared map)
	for _, c := range [][]string{
		{"put 2 -392", "put 4 -845", "put 6 -590", "iter 0 dentry", "next 0", "next 0", "irm 0", "next 0", "next 0", "hasnext 0", "keys"},
		{"put 1 10", "put 2 20", "put 3 30", "put 4 40", "put 5 50", "put 6 60", "put 7 70", "shape", "iter 0 dentry",
			"next 0", "next 0", "irm 0", "next 0", "next 0", "irm 0", "next 0", "next 0", "irm 0", "next 0", "hasnext 0", "next 0", "keys", "shape"},
		{"put 16 219", "iter 0 entry", "clear", "hasnext 0", "next 0"},
		{"put 1 10", "put 2 20", "put 3 30", "put 4 40", "put 5 50", "put 6 60", "put 7 70", "iter 0 entry", "next 0", "clear",
			"next 0", "irm 0", "size", "keys", "shape", "put 9 90", "keys"},
		{"put 1 10", "put 2 20", "put 3 30", "iter 0 dkey", "iter 1 value", "next 0", "next 1", "clear", "irm 0", "irm 1", "size", "in"},
	} {
		g := mk()
		g.ops = c
		run(g, "corpus")
	}

	// 1. every insertion order of 1..n, shape after each step, then removal of everything in a random order
	nperm := r.Scale(5, 8)
	for n := 1; n <= nperm; n++ {
		permute(n, func(p []int) {
			g := mk()
			for _, k := range p {
				g.add("put %d %d", k, k*10)
			}
			g.add("shape")
			for _, k := range g.order("random", n, 1) {
				g.add("rm %d", k)
				g.add("shape")
			}
			run(g, fmt.Sprintf("perm%d", n))
		})
	}
	// every insertion order of 1..n followed by every single removal (n <= 5 / 6)
	for n := 2; n <= r.Scale(5, 7); n++ {
		permute(n, func(p []int) {
			for del := 1; del <= n; del++ {
				g := mk()
				for _, k := range p {
					g.add("put %d %d", k, k*10)
				}
				g.add("rm %d", del)
				g.add("shape")
				g.add("keys")
				run(g, fmt.Sprintf("perm%d-del1", n))
			}
		})
	}

	// 2. iterators: every kind, every order, selective removal, with and without a foreign change
	for rep := 0; rep < r.Scale(6, 100); rep++ {
		for _, kind := range kinds {
			for _, order := range orders {
				for _, n := range []int{1, 2, 3, 7, 15, r.R.Range(4, 40)} {
					g := mk()
					g.iterFocus(n, order, kind, r.R.Pick(0, 1, 1, 2, 3), 3, "")
					run(g, "iter-"+kind)
				}
			}
			for _, disturb := range []string{"replace", "put-new", "remove", "clear", "other-iterator"} {
				g := mk()
				g.iterFocus(r.R.Range(1, 24), "random", kind, 1, 3, disturb)
				run(g, "iter-disturbed-"+disturb)
			}
		}
	}

	// 2b. whole loops (the `iterate` op of the extended machine): every kind x selection x bound
	for rep := 0; rep < r.Scale(2, 20); rep++ {
		for _, kind := range kinds {
			for _, order := range orders {
				g := mk()
				n := r.R.Range(1, 40)
				for _, k := range g.order(order, n, 1) {
					g.add("put %d %d", k, g.val())
				}
				for i := 0; i < n/4; i++ {
					g.add("rm %d", r.R.Range(1, n))
				}
				g.add("shape")
				for j := 0; j < 3; j++ {
					mod, rem := r.R.Pick(0, 1, 2, 3, 4), 0
					if kind == "value" && mod > 1 {
						mod = 1
					}
					if mod > 1 {
						rem = r.R.Intn(mod)
					}
					g.add("loop %s %d %d %d", kind, r.R.Pick(n+1, n+1, r.R.Intn(n+1)), mod, rem)
					g.add("shape")
					g.add("keys")
					g.add("put %d %d", r.R.Range(1, n), g.val())
				}
				run(g, "loop-"+kind)
			}
		}
	}

	// 2c. several live iterators at once (the machine of the C10_multi_* theorems)
	for rep := 0; rep < r.Scale(60, 1500); rep++ {
		g := mk()
		g.multiIter(r.R.Pick(1, 2, 3, 5, 7, r.R.Range(4, 30)))
		run(g, "multi-iter")
	}

	// 3. random mixes over small, medium and large universes
	for i := 0; i < r.Scale(600, 15000); i++ {
		g := mk()
		g.random(8, 200)
		run(g, "random-u8")
	}
	for i := 0; i < r.Scale(200, 5000); i++ {
		g := mk()
		g.random(64, 400)
		run(g, "random-u64")
	}
	for i := 0; i < r.Scale(6, 150); i++ {
		g := mk()
		for _, k := range g.order("random", 600, 7) {
			g.add("put %d %d", k%10000, g.val())
		}
		g.random(10000, 1500)
		run(g, "random-u10000")
	}

	// 4. bulk: all insertion orders x all removal orders
	for _, io := range orders {
		for _, do := range orders {
			g := mk()
			g.bulk(r.R.Range(20, 64), io, do, false)
			run(g, "bulk-small")
			g = mk()
			g.bulk(r.Scale(1000, 4000)+r.R.Intn(100), io, do, true)
			run(g, "bulk-large")
		}
	}
	if r.Thorough() {
		for _, io := range orders {
			for _, do := range orders {
				g := mk()
				g.bulk(10000, io, do, true)
				run(g, "bulk-10000")
			}
		}
		g := mk()
		g.bulk(100000, "random", "random", true)
		run(g, "bulk-100000")
	}
	// 5. key / value representation, held outputs, re-entrant actions (legs3.go; oracle-only)
	typeLegs(r)
	// comparators whose results are word extremes (legs4.go; oracle-only)
	cmpResLegs(r)
	if r.Search {
		if r.Failed() {
			r.Note("search legs not run: the thorough generators already produced a failing input")
		} else {
			searchLegs(r)
		}
	}
}
