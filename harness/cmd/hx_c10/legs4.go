// legs4.go: fourth-wave leg of hx_c10, NORMAL tiers (quick and thorough), oracle-only (the Lean model abstracts a
// comparator result to its sign; the oracle is the property's sorted map, see search.go).
//
//	cmpres  (W2) lawful comparators whose RESULT is a machine-word extreme. Variants:
//	          min/max, min+1/max, min/1, -1/max, min/max-1, min+1/max-1   CompareTo answers "less" / "greater" with
//	                    exactly math.MinInt, math.MinInt+1, -1 / math.MaxInt, math.MaxInt-1, 1 (every pairing above)
//	          satdiff   int64 keys ordered by the SATURATING difference a-b (never wraps, so the order is lawful): keys
//	                    MinInt64, MinInt64+1, ±2^32±1, ±2^31±1, 62..65, MaxInt64-1, MaxInt64; MinInt64 against 0 or a
//	                    positive key answers exactly MinInt, a positive key against a very negative one MaxInt
//	          timesub   time.Time keys ordered by int(a.Sub(b)) (time.Time.Sub saturates): the zero time.Time, the day
//	                    after it, 2024-01-01..07, instants 292.27 years (the Duration range) ± a day after 2024-01-01 and
//	                    after the zero time, year 9999 — instants more than 292 years apart compare as MinInt64 / MaxInt64
//	        A random history of Put / Remove / Clear / iterator walks with removal; after EVERY call every query (Get,
//	        Contains, GetOrDefault, First/Last, Floor/Ceiling/Higher entry and key — the API has no public Lower; the
//	        descending iterators walk through getLowerEntry's sibling code —, Keys, Values, all traversals) for every
//	        present key, its successor and predecessor rank and every key of the universe (present and absent), each
//	        with a fresh key object. Values are the 20 dynamic kinds of legs3.go (NaN, ±0.0, nils …) compared by identity.
//
// A case is (leg "cmpres", variant, n calls, seed): regenerated on replay.
package main

import (
	"fmt"
	"math"
	"sync/atomic"
	"time"

	"verifharness/hxlib"

	"qchen.fun/fatchoy/collections"
	"qchen.fun/fatchoy/collections/treemap"
)

const (
	minInt = -int(^uint(0)>>1) - 1
	maxInt = int(^uint(0) >> 1)
)

// EK: three-way order on x; the comparator's results are the extremes chosen by mode.
type EK struct {
	x    int64
	mode uint8
}

var ekModes = []struct {
	name   string
	lo, hi int
}{
	{"min/max", minInt, maxInt}, {"min+1/max", minInt + 1, maxInt}, {"min/1", minInt, 1},
	{"-1/max", -1, maxInt}, {"min/max-1", minInt, maxInt - 1}, {"min+1/max-1", minInt + 1, maxInt - 1},
}

func (a EK) CompareTo(o collections.Comparable) int {
	b := o.(EK)
	switch {
	case a.x < b.x:
		return ekModes[a.mode].lo
	case a.x > b.x:
		return ekModes[a.mode].hi
	}
	return 0
}

// SK: int64 ordered by the saturating difference.
type SK int64

func (a SK) CompareTo(o collections.Comparable) int {
	x, y := int64(a), int64(o.(SK))
	d := x - y
	if y > 0 && x < math.MinInt64+y {
		d = math.MinInt64
	} else if y < 0 && x > math.MaxInt64+y {
		d = math.MaxInt64
	}
	return satInt(d)
}

// TK: instants ordered by int(a.Sub(b)); Sub saturates at the ends of the Duration range.
type TK struct{ t time.Time }

func (a TK) CompareTo(o collections.Comparable) int { return satInt(int64(a.t.Sub(o.(TK).t))) }

const zeroUnix = -62135596800 // time.Time{}.Unix()

// rank = whole days since the zero time.Time
func dayTime(x int64) time.Time {
	if x == 0 {
		return time.Time{}
	}
	return time.Unix(zeroUnix+x*86400, 0).UTC()
}

const (
	day2024   = 738885 // 2024-01-01
	durDays   = 106751 // 2^63 ns = 106751.99 days
	day9999   = 3652058
	dayBefore = -400
)

var timeRanks = []int64{0, 1, 2, durDays, durDays + 1, durDays + 2, day2024 - durDays - 1, day2024 - durDays, day2024 - durDays + 1,
	day2024, day2024 + 1, day2024 + 2, day2024 + 3, day2024 + 4, day2024 + 5, day2024 + 6,
	day2024 + durDays - 1, day2024 + durDays, day2024 + durDays + 1, day2024 + durDays + 2, day9999, dayBefore}

var cmpresVariants = func() []string {
	var vs []string
	for _, m := range ekModes {
		vs = append(vs, m.name)
	}
	return append(vs, "satdiff", "timesub")
}()

func newCmpMeng(variant string, zero bool) (*meng, []int64) {
	e := &meng{m: treemap.New(), ref: map[int64]int{}}
	if zero {
		e.m = new(treemap.Map)
	}
	e.vals = poolValue
	e.made = map[int]interface{}{}
	e.defv = &valBox{id: -7}
	e.hold = true
	small := []int64{-3, -1, 0, 1, 2, 3, 5, 8, 9, 10, 11, 12, 40, 41}
	switch variant {
	case "satdiff":
		e.mk = func(x int64) treemap.KeyType { return SK(x) }
		e.un = func(k treemap.KeyType) (int64, bool) { v, ok := k.(SK); return int64(v), ok }
		return e, wordExtremes
	case "timesub":
		e.mk = func(x int64) treemap.KeyType { return TK{dayTime(x)} }
		e.un = func(k treemap.KeyType) (int64, bool) {
			v, ok := k.(TK)
			if !ok {
				return 0, false
			}
			s := v.t.Unix() - zeroUnix
			if s%86400 != 0 {
				return 0, false
			}
			return s / 86400, true
		}
		return e, timeRanks
	}
	for i, m := range ekModes {
		if m.name == variant {
			mode := uint8(i)
			e.mk = func(x int64) treemap.KeyType { return EK{x, mode} }
			e.un = func(k treemap.KeyType) (int64, bool) { v, ok := k.(EK); return v.x, ok && v.mode == mode }
			return e, small
		}
	}
	e.fail("harness", "unknown comparator variant %q", variant)
	return e, small
}

func runCmpRes(c scase) *meng {
	rnd := hxlib.NewRand(c.Seed)
	e, base := newCmpMeng(c.Variant, c.Seed&1 == 1)
	if e.dead {
		return e
	}
	if c.Seed&2 == 2 && c.Variant != "timesub" {
		base = wordExtremes
	}
	pick := func() int64 { return base[rnd.Intn(len(base))] }
	for i := 0; i < c.N && !e.dead; i++ {
		switch x := rnd.Intn(100); {
		case x < 55:
			e.put(pick())
		case x < 82:
			e.rm(pick())
		case x < 84:
			e.clear()
		case x < 92:
			kind := kinds[rnd.Intn(len(kinds))]
			mod := int64(rnd.Range(1, 3))
			e.walk(kind, 1000, func(k int64) bool { return (k&0xff)%mod == 0 })
		default:
			e.walk(kinds[rnd.Intn(len(kinds))], 1000, nil)
		}
		e.observeSmall(base, i%2 == 1)
		if i%4 == 3 {
			e.qReentrant()
		}
	}
	return e
}

// cmpResLegs runs in every tier. Cost: quick ≈ 0.5 s.
func cmpResLegs(r *hxlib.Run) {
	t0 := time.Now()
	cases, calls := 0, 0
	for rep := 0; rep < r.Scale(6, 60); rep++ {
		for _, v := range cmpresVariants {
			c := scase{Leg: "cmpres", Variant: v, N: r.R.Pick(12, 30, 60), Seed: r.R.U64()}
			r.Case()
			r.Count("leg:cmpres:" + v)
			e := runSearchCase(c)
			cases++
			calls += e.n
			if e.maxN >= 3 {
				r.NonTrivial(fmt.Sprintf("cmpres/%s/%d/%d", v, c.N, c.Seed))
			}
			atomic.AddInt64(&progress, 1)
			if e.report(r, c) {
				return
			}
		}
	}
	r.Note("leg cmpres: %d histories over comparators whose results are word extremes %v (less/greater = exactly MinInt, MinInt+1, -1 / MaxInt, MaxInt-1, 1; saturating int64 difference on the word-extreme keys; time.Time keys by saturating Sub incl. the zero time and instants > 292 years apart), every query for present and absent keys after every call (%d calls), %.1fs",
		cases, cmpresVariants, calls, time.Since(t0).Seconds())
}
