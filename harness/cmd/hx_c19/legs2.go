// legs2.go: second round of legs of hx_c19. They run in the NORMAL tiers (a change that edits only function
// bodies — or adds a file next to buffer.go — and keys its misbehaviour on something the generators do not vary
// never triggers -search). The judge is the property itself, exactly as in runCase / runBig.
//
//	wordvals  machine-word extremes as VALUES of every integer type (MaxInt, MaxInt-1, MinInt, MinInt+1 of both word
//	          sizes, -1, 0, 62..65, 2^31±1, 2^32±1, 2^63±1): written alone, in pairs with every other type, peeked, read
//	          (with model lines)
//	ctors     every way to come by an empty Buffer: zero value, new, a struct literal over bytes.NewBuffer(nil / an empty
//	          slice with 0, 7, 64, 4096 spare bytes) / bytes.NewBufferString(""), a Buffer that was used and then Reset /
//	          read empty / Truncate(0) / Next(all) / Grow(n); the ordinary sequences on each (with model lines)
//	fleet     process-lifetime history. The property speaks about ANY buffer at ANY time of the process, so state shared
//	          between Buffer instances (pools, quotas, counters) is inside it. Many Buffer instances receive typed
//	          writes and are abandoned with their bytes unread (the strictest reading: typed writes only), or are
//	          drained by Truncate / Next / WriteTo / one-byte reads and re-used; whenever the number of bytes that went
//	          through crosses a power of two (2^20 .. 2^30 quick, .. 2^32 thorough and -search) and whenever the
//	          number of instances crosses 2^10 .. 2^20, a FRESH buffer must still round-trip a typed sequence.
//	          Last leg of the run: it is the one that ages the process.
//
// Not legs (decided, see the report of the third wave): a by-value copy of a Buffer (`ahead := buf`) and
// bytes.Buffer.UnreadByte are outside the property's quantifier — its sequences are typed writes, typed reads and
// peeks on ONE buffer; a copy is a second Buffer object sharing memory (already not independent on the unchanged
// code: a write through either clobbers the other), UnreadByte is an untyped operation of the embedded type, and a
// held Bytes() slice is by bytes.Buffer's contract only valid until the next read.
package main

import (
	"bytes"
	"fmt"
	"io"
	"time"

	"verifharness/hxlib"

	"qchen.fun/fatchoy/qnet"
)

// newBuffer makes the empty buffer a case starts with.
func newBuffer(ctor string) *qnet.Buffer {
	used := func() *qnet.Buffer {
		b := new(qnet.Buffer)
		for i := 0; i < 40; i++ {
			b.WriteUint64(0xa5a5a5a5a5a5a5a5)
			b.WriteUInt8(0x5a)
			b.WriteInt16(-2)
		}
		return b
	}
	switch ctor {
	case "", "new":
		return new(qnet.Buffer)
	case "literal":
		return &qnet.Buffer{}
	case "nil":
		return &qnet.Buffer{Buffer: *bytes.NewBuffer(nil)}
	case "cap0":
		return &qnet.Buffer{Buffer: *bytes.NewBuffer(make([]byte, 0))}
	case "cap7":
		return &qnet.Buffer{Buffer: *bytes.NewBuffer(make([]byte, 0, 7))}
	case "cap64":
		return &qnet.Buffer{Buffer: *bytes.NewBuffer(make([]byte, 0, 64))}
	case "cap4096":
		return &qnet.Buffer{Buffer: *bytes.NewBuffer(make([]byte, 0, 4096))}
	case "dirtycap": // spare capacity that holds somebody else's bytes
		back := bytes.Repeat([]byte{0xee}, 512)
		return &qnet.Buffer{Buffer: *bytes.NewBuffer(back[:0])}
	case "string":
		return &qnet.Buffer{Buffer: *bytes.NewBufferString("")}
	case "reset":
		b := used()
		b.Reset()
		return b
	case "drained":
		b := used()
		for b.Len() > 0 {
			b.ReadUint64()
			b.ReadUint8()
			b.ReadInt16()
		}
		return b
	case "truncated":
		b := used()
		b.Truncate(0)
		return b
	case "next":
		b := used()
		b.Next(b.Len())
		return b
	case "writeto":
		b := used()
		b.WriteTo(io.Discard)
		return b
	case "grown":
		b := new(qnet.Buffer)
		b.Grow(1 << 16)
		return b
	case "halfread-reset": // read position in the middle, then Reset
		b := used()
		b.ReadUint64()
		b.ReadUint8()
		b.Reset()
		return b
	}
	panic("unknown buffer constructor " + ctor)
}

var ctors = []string{"new", "literal", "nil", "cap0", "cap7", "cap64", "cap4096", "dirtycap", "string", "reset", "drained", "truncated", "next", "writeto", "grown", "halfread-reset"}

// Fleet: see the file comment. Everything is derived from the fields, so a replay in a fresh process repeats it.
type Fleet struct {
	Seed  uint64 `json:"seed"`
	How   string `json:"how"`             // drop: a new Buffer per round, abandoned unread | reuse: ONE Buffer, emptied per round by Truncate / Next / WriteTo / one-byte reads / typed reads in rotation | count: many tiny buffers
	Per   int    `json:"per"`             // bytes written per round
	Bytes int64  `json:"bytes,omitempty"` // drop / reuse: stop after this many bytes
	Count int    `json:"count,omitempty"` // count: number of instances
}

// probe: a fresh buffer round-trips a typed sequence (the property's headline statement, judged by runCase).
func fleetProbe(R *hxlib.Rand, ctor string) []failure {
	c := genSequence(R, 24, true)
	c.Ctor = ctor
	return runCase(c, nil)
}

func runFleet(r *hxlib.Run, c Case) {
	r.Case()
	f := c.Fleet
	R := hxlib.NewRand(f.Seed)
	var total int64
	instances, probes := 0, 0
	check := func(why string) bool {
		probes++
		fails := fleetProbe(R, []string{"new", "literal", "cap64"}[probes%3])
		seen := map[string]bool{}
		for _, g := range fails {
			if !seen[g.key] {
				seen[g.key] = true
				r.Fail(g.key, fmt.Sprintf("%s (%d bytes written to %d other Buffer(s) of this process so far, history %q): on a FRESH buffer, %s", why, total, instances, f.How, g.what), c)
			}
		}
		return len(fails) == 0
	}
	// one round: Per bytes of typed writes; the first values are read back (typed), Len() is what the widths say
	round := func(b *qnet.Buffer, i int) bool {
		start := b.Len()
		n := 0
		v0 := R.U64()
		b.WriteUint32(uint32(v0))
		b.WriteUint16(uint16(v0 >> 32))
		b.WriteUInt8(uint8(v0 >> 48))
		b.WriteBool(v0>>63 == 1)
		n += 8
		for ; n+8 <= f.Per; n += 8 {
			b.WriteUint64(v0 + uint64(n))
		}
		total += int64(n)
		if b.Len() != start+n {
			r.Fail("write-width:Uint64", fmt.Sprintf("round %d of a process-lifetime history (%q, %d bytes written so far): %d bytes of typed writes grew Len() from %d to %d", i, f.How, total, n, start, b.Len()), c)
			return false
		}
		if start == 0 {
			if a, bb, cc, d := b.ReadUint32(), b.ReadUint16(), b.ReadUint8(), b.ReadBool(); a != uint32(v0) || bb != uint16(v0>>32) || cc != uint8(v0>>48) || d != (v0>>63 == 1) {
				r.Fail("readback:Uint32", fmt.Sprintf("round %d of a process-lifetime history (%q, %d bytes written so far): the first four values written to an empty buffer read back as %#x %#x %#x %v, written were %#x %#x %#x %v",
					i, f.How, total, a, bb, cc, d, uint32(v0), uint16(v0>>32), uint8(v0>>48), v0>>63 == 1), c)
				return false
			}
			if f.Per >= 16 {
				if got := b.PeekUint64(); got != v0+8 {
					r.Fail("peek-value:Uint64", fmt.Sprintf("round %d of a process-lifetime history (%q, %d bytes written so far): PeekUint64 returned %#x, the next value written is %#x", i, f.How, total, got, v0+8), c)
					return false
				}
			}
		}
		return true
	}
	crossed := func(before, after int64, lo uint) (int, bool) { // did the count pass a power of two >= 2^lo ?
		for k := uint(62); k >= lo; k-- {
			p := int64(1) << k
			if before < p && after >= p {
				return int(k), true
			}
		}
		return 0, false
	}
	if !check("at the start of the history") {
		return
	}
	switch f.How {
	case "count":
		for i := 0; i < f.Count; i++ {
			b := new(qnet.Buffer)
			instances++
			if p := hxlib.Guard(func() { round(b, i) }); p != "" {
				r.Fail("write-panic:Uint64", fmt.Sprintf("buffer %d of the process panics: %s", i, p), c)
				return
			}
			if r.Failed() {
				return
			}
			if k, ok := crossed(int64(i), int64(i+1), 10); ok && !check(fmt.Sprintf("after 2^%d Buffer instances", k)) {
				return
			}
		}
	case "drop", "reuse":
		var b *qnet.Buffer
		for i := 0; total < f.Bytes; i++ {
			if f.How == "drop" || b == nil {
				b = new(qnet.Buffer) // the previous one is abandoned with its bytes unread
				instances++
			}
			before := total
			ok := true
			if p := hxlib.Guard(func() { ok = round(b, i) }); p != "" {
				r.Fail("write-panic:Uint64", fmt.Sprintf("round %d of a process-lifetime history (%q, %d bytes written so far) panics: %s", i, f.How, total, p), c)
				return
			}
			if !ok {
				return
			}
			if f.How == "reuse" {
				switch i % 6 {
				case 0:
					b.Truncate(0)
				case 1:
					b.Next(b.Len())
				case 2:
					b.WriteTo(io.Discard)
				case 3:
					for b.Len() > 0 { // typed one-byte reads
						b.ReadUint8()
					}
				case 4:
					for b.Len() >= 8 { // the matching typed reads
						b.ReadUint64()
					}
					b.Truncate(0)
				case 5:
					b = nil // abandoned
				}
				if b != nil && b.Len() != 0 {
					r.Fail("leftover", fmt.Sprintf("round %d: the buffer was emptied but Len() = %d", i, b.Len()), c)
					return
				}
			}
			if k, ok := crossed(before, total, 20); ok && !check(fmt.Sprintf("after 2^%d bytes of typed writes", k)) {
				return
			}
		}
	}
	check("at the end of the history")
	r.CountN("fleet:"+f.How+":probes", probes)
	r.CountN("fleet:"+f.How+":instances", instances)
	if total > fleetBytes {
		fleetBytes = total
	}
}

var fleetBytes int64

func legs2(r *hxlib.Run) {
	level := 0 // 0 quick, 1 thorough, 2 -search
	if r.Thorough() {
		level = 1
	}
	if r.Search {
		level = 2
	}
	R := hxlib.NewRand(r.Seed ^ 0x2ea7c19)
	stop := func() bool { return r.Search && r.Failed() }
	leg := func(name string, f func()) {
		if stop() {
			return
		}
		t0 := time.Now()
		f()
		r.Note("leg %s: %.1fs", name, time.Since(t0).Seconds())
	}

	leg("wordvals", func() {
		n := 0
		words := []uint64{
			0x7fffffffffffffff, 0x7ffffffffffffffe, 0x8000000000000000, 0x8000000000000001, // Max/MinInt of a 64-bit word, ∓1
			0x7fffffff, 0x7ffffffe, 0xffffffff80000000, 0xffffffff80000001, // ... of a 32-bit word (sign-extended)
			0xffffffffffffffff, 0, 62, 63, 64, 65,
			0x80000000, 0x80000001, 0x100000000, 0xffffffff, 0x100000001, // 2^31, 2^31+1, 2^32, 2^32-1, 2^32+1
			0x7fff, 0x8000, 0xffff, 0x10000, 0x7f, 0x80, 0xff, 0x100,
		}
		for i := range types {
			t := &types[i]
			if t.float {
				continue
			}
			for _, w := range words {
				one(r, Case{Ops: []op{{"w", t.name, w}, {"p", t.name, 0}, {"r", t.name, 0}}})
				u := &types[(i+1+n)%len(types)]
				one(r, Case{Ops: []op{{"w", u.name, pickValue(R, u)}, {"w", t.name, w}, {"w", u.name, w}, {"r", u.name, 0}, {"p", t.name, 0}, {"r", t.name, 0}, {"p", u.name, 0}, {"r", u.name, 0}}})
				n += 2
			}
		}
		r.CountN("leg:wordvals", n)
		r.Note("leg wordvals: %d cases: MaxInt/MinInt (±1) of both word sizes, -1, 0, 62..65, 2^31±1, 2^32±1 and the byte/short boundaries as values of every integer type", n)
	})

	leg("ctors", func() {
		n := 0
		for _, ct := range ctors {
			for k := 0; k < []int{12, 60, 60}[level]; k++ {
				var c Case
				switch k % 3 {
				case 0:
					c = genSequence(R, R.Range(1, 40), k%2 == 0)
				case 1:
					c = genInterleaved(R, R.Range(2, 60))
				default:
					c = genFree(R, R.Range(1, 30))
				}
				c.Ctor = ct
				one(r, c)
				n++
			}
			// a sequence that outgrows every spare capacity above
			c := genSequence(R, 700, true)
			c.Ctor = ct
			one(r, c)
			n++
		}
		r.CountN("leg:ctors", n)
		r.Note("leg ctors: %d cases on buffers made in %d ways (zero value, literals over bytes.NewBuffer with 0..4096 spare bytes, used and then Reset / read empty / Truncate / Next / WriteTo / Grow)", n, len(ctors))
	})

	leg("fleet", func() {
		n := 0
		run := func(f Fleet) {
			if stop() || r.Failed() { // an aged process fails everything that follows: one report is enough
				return
			}
			f.Seed = R.U64()
			runFleet(r, Case{Fleet: &f})
			n++
		}
		run(Fleet{How: "count", Per: 8, Count: []int{1<<20 + 1, 1<<22 + 1, 1<<24 + 1}[level]})
		// the byte counts are cumulative over the process: each history starts where the previous one stopped
		run(Fleet{How: "reuse", Per: 1 << 16, Bytes: []int64{1 << 27, 1<<31 + 1<<20, 1<<31 + 1<<20}[level]})
		run(Fleet{How: "drop", Per: 1 << 20, Bytes: []int64{1<<30 + 1<<21, 1<<32 + 1<<21, 1<<32 + 1<<21}[level]})
		r.CountN("leg:fleet", n)
		r.Note("leg fleet: %d process-lifetime histories (up to %d bytes of typed writes through abandoned / re-used buffers, a fresh buffer probed at every power of two)", n, fleetBytes)
	})
}
