// search.go: the legs of hx_c19 that aim at defects invisible to the ordinary generators (DESIGN.md 3.4).
// Cheap legs run in every tier (a change that keeps every regenerated fact intact never triggers the
// failing-input search, so the quick tier itself has to reach these inputs); the longer variants run
// from the thorough tier on; the largest only with -search. They emit no model lines.
//
// A Big case is a seed plus a short list of steps, each standing for up to millions of typed
// operations on ONE buffer. The judge is the property itself, against a plain FIFO of the values
// written (as in runCase, without the per-operation copies that keep runCase to small buffers):
// a write grows Len() by the width and appends the little-endian bytes; a peek of the head's type
// returns the head and changes neither Len() nor the first unread bytes; a read returns the head
// and shrinks Len() by the width; all read back => empty.
//
//	scale      2.3 - 8 MiB written before the first read, read back completely; refills after partial drains
//	period     a peek, then exactly 2^16-1, 2^16, 2^17, 2^18, 2^20 reads (or peeks, or write+read pairs)
//	           without a peek in between, then the peek again; state carried across Reset
//	unaligned  buffers built over spare capacity that starts at an odd address
//
// Second round (third red-team wave, body-only changes keyed on what the generators did not vary): legs2.go —
// wordvals (machine-word extremes as values), ctors (every way to come by an empty Buffer), fleet (process-lifetime
// history: 2^30 .. 2^32 bytes through abandoned / re-used buffers, 2^20 .. 2^24 instances, a fresh buffer probed at every
// power of two). All in the normal tiers. By-value Buffer copies and UnreadByte were judged OUTSIDE the quantifier.
package main

import (
	"bytes"
	"fmt"
	"time"
	"unsafe"

	"verifharness/hxlib"

	"qchen.fun/fatchoy/qnet"
)

type bigStep struct {
	K string `json:"k"`           // w: N writes | r: N reads | p: one peek | pr: N (peek, read) pairs | pp: N peeks | wr: N (write, read) pairs | reset
	N int    `json:"n,omitempty"` // how many
	T string `json:"t,omitempty"` // w / wr: type of the values ("" = a random type each)
}

type Big struct {
	Seed  uint64    `json:"seed"`
	Off   int       `json:"off,omitempty"` // != 0: the buffer starts as an empty slice with Cap spare bytes at an address that is Off mod 16
	Cap   int       `json:"cap,omitempty"`
	Steps []bigStep `json:"steps"`
}

func runBig(r *hxlib.Run, c Case) {
	r.Case()
	g := c.Big
	R := hxlib.NewRand(g.Seed)
	var b qnet.Buffer
	if g.Off != 0 {
		back := make([]byte, g.Cap+32)
		skip := ((g.Off-int(uintptr(unsafe.Pointer(&back[0]))%16))%16 + 16) % 16
		b = qnet.Buffer{Buffer: *bytes.NewBuffer(back[skip : skip : skip+g.Cap])}
	}
	var ft []uint8 // the FIFO: type index and value of everything written and not yet read
	var fv []uint64
	head, nops, maxLen := 0, 0, 0
	failed := false
	fail := func(key, format string, a ...interface{}) {
		failed = true
		r.Fail(key, fmt.Sprintf("operation %d of the history: ", nops)+fmt.Sprintf(format, a...), c)
	}
	idx := map[*ty]uint8{}
	for i := range types {
		idx[&types[i]] = uint8(i)
	}
	write := func(tn string) {
		t := byName[tn]
		if t == nil {
			t = randType(R)
		}
		v := pickValue(R, t) & mask(t.bits)
		if R.Chance(3, 4) {
			v = R.U64() & mask(t.bits) // mostly random bits: a value delivered from the wrong place is then visibly wrong
		}
		before := b.Len()
		if p := hxlib.Guard(func() { t.write(&b, v) }); p != "" {
			fail("write-panic:"+t.name, "Write%s(%#x) panics with %d bytes buffered: %s", t.name, v, before, p)
			return
		}
		if b.Len() != before+t.width {
			fail("write-width:"+t.name, "Write%s(%#x) grew Len() from %d to %d, the width of the type is %d", t.name, v, before, b.Len(), t.width)
			return
		}
		if all := b.Bytes(); !bytes.Equal(all[before:], littleEndian(v, t.width)) {
			fail("write-bytes:"+t.name, "Write%s(%#x) appended % x at offset %d, little-endian is % x", t.name, v, all[before:], before, littleEndian(v, t.width))
			return
		}
		ft = append(ft, idx[t])
		fv = append(fv, v)
		if b.Len() > maxLen {
			maxLen = b.Len()
		}
	}
	peek := func() {
		if head >= len(ft) {
			return
		}
		t := &types[ft[head]]
		before := b.Len()
		var first [16]byte
		nf := copy(first[:], b.Bytes())
		var v uint64
		if p := hxlib.Guard(func() { v = t.peek(&b) }); p != "" {
			fail("peek-value:"+t.name, "Peek%s panics (%s) although a %s (%#x) is next (%d bytes unread)", t.name, p, t.name, fv[head], before)
			return
		}
		if b.Len() != before || !bytes.Equal(first[:nf], b.Bytes()[:nf]) {
			fail("peek-consumes:"+t.name, "Peek%s changed the unread bytes (Len %d -> %d)", t.name, before, b.Len())
			return
		}
		if v != fv[head] {
			fail("peek-value:"+t.name, "Peek%s returned %#x, the next value written is %#x (%d values read so far, %d bytes unread)", t.name, v, fv[head], head, before)
		}
	}
	read := func() {
		if head >= len(ft) {
			return
		}
		t := &types[ft[head]]
		before := b.Len()
		var v uint64
		if p := hxlib.Guard(func() { v = t.read(&b) }); p != "" {
			fail("readback:"+t.name, "Read%s panics (%s) although a %s (%#x) is next (%d bytes unread)", t.name, p, t.name, fv[head], before)
			return
		}
		if v != fv[head] {
			fail("readback:"+t.name, "Read%s returned %#x, written was %#x (value %d of the history, %d bytes unread before the read)", t.name, v, fv[head], head, before)
			return
		}
		if b.Len() != before-t.width {
			fail("read-width:"+t.name, "Read%s took Len() from %d to %d, the width of the type is %d", t.name, before, b.Len(), t.width)
			return
		}
		head++
		if head == len(ft) {
			ft, fv, head = ft[:0], fv[:0], 0
		}
	}
	for _, s := range g.Steps {
		n := s.N
		if s.K == "p" || s.K == "reset" {
			n = 1
		}
		for i := 0; i < n && !failed; i++ {
			nops++
			switch s.K {
			case "w":
				write(s.T)
			case "r":
				read()
			case "p", "pp":
				peek()
			case "pr":
				peek()
				if !failed {
					read()
				}
			case "wr":
				write(s.T)
				if !failed {
					read()
				}
			case "reset":
				b.Reset()
				ft, fv, head = ft[:0], fv[:0], 0
				if b.Len() != 0 {
					fail("leftover", "Reset left %d unread bytes", b.Len())
				}
			}
		}
		r.CountN("big:"+s.K, n)
		if failed {
			return
		}
	}
	if head >= len(ft) && b.Len() != 0 {
		fail("leftover", "every written value was read back but %d byte(s) are still unread", b.Len())
	}
	if maxLen > bigMax {
		bigMax = maxLen
	}
}

var bigMax int

func legs(r *hxlib.Run) {
	level := 0 // 0 quick, 1 thorough, 2 -search
	if r.Thorough() {
		level = 1
	}
	if r.Search {
		level = 2
	}
	R := hxlib.NewRand(r.Seed ^ 0x5ea7c19)                // own stream: the tiers' generators draw what they drew before
	stop := func() bool { return r.Search && r.Failed() } // with -search one failing input is what is looked for
	leg := func(name string, f func()) {
		if stop() {
			return
		}
		t0 := time.Now()
		f()
		r.Note("leg %s: %.1fs", name, time.Since(t0).Seconds())
	}
	n := 0
	big := func(g Big) {
		if stop() {
			return
		}
		g.Seed = R.U64()
		runBig(r, Case{Big: &g})
		n++
	}
	S := func(k string, n int) bigStep { return bigStep{K: k, N: n} }
	W := func(t string, n int) bigStep { return bigStep{K: "w", N: n, T: t} }

	leg("unaligned", func() {
		n = 0
		for off := 1; off < 16; off++ {
			for _, cp := range []int{0, 64, 4096, 1 << 20} {
				big(Big{Off: off, Cap: cp, Steps: []bigStep{S("w", 3000), S("pr", 1000), S("w", 500), S("pr", 2500)}})
			}
		}
		r.CountN("leg:unaligned", n)
		r.Note("leg unaligned: %d buffers built over spare capacity (0 B .. 1 MiB) starting at addresses 1..15 mod 16, 3500 typed values each", n)
	})

	leg("scale", func() {
		n = 0
		big(Big{Steps: []bigStep{S("w", 500000), S("pr", 500000)}})                                                // ~2.3 MiB buffered
		big(Big{Steps: []bigStep{W("Uint8", 3<<20+1), S("r", 1<<20), S("p", 1), S("r", 1<<20), S("pr", 1<<20+1)}}) // 3 MiB of bytes
		big(Big{Steps: []bigStep{W("Uint8", 1), W("Uint32", 1<<19+7), S("r", 1<<19+8)}})                           // 2 MiB, every multi-byte read at an odd offset
		if level >= 1 {
			big(Big{Steps: []bigStep{S("w", 1000000), S("pr", 1000000)}})      // ~4.6 MiB
			big(Big{Steps: []bigStep{S("w", 1000000), S("r", 1000000)}})       // reads only
			big(Big{Steps: []bigStep{W("Uint64", 1<<20+3), S("pr", 1<<20+3)}}) // 8 MiB + 24, one width
			big(Big{Steps: []bigStep{S("w", 700000), S("r", 350000), S("w", 700000), S("pr", 500000), S("w", 300000), S("r", 850000)}})
			for _, t := range []string{"Uint16", "Int32", "Int", "Float64", "Float32"} {
				big(Big{Steps: []bigStep{W(t, 600000), S("pr", 600000)}})
			}
		}
		if level >= 2 {
			big(Big{Steps: []bigStep{S("w", 7000000), S("pr", 7000000)}}) // ~32 MiB
			big(Big{Steps: []bigStep{W("Uint64", 1<<23+1), S("r", 1<<23+1)}})
		}
		r.CountN("leg:scale", n)
		r.Note("leg scale: %d histories with 2 MiB and more written before the first read, read back completely (largest buffer %d bytes)", n, bigMax)
	})

	leg("period", func() {
		n = 0
		wins := [][]int{{1<<16 - 1, 1 << 16}, {1<<16 - 1, 1 << 16, 1 << 17, 1 << 18}, {1<<16 - 1, 1 << 16, 1 << 17, 1 << 18, 1 << 20}}[level]
		tys := [][]string{{"", "Uint8"}, {"", "Uint8", "Uint64", "Int16"}, {"", "Uint8", "Uint64", "Int16"}}[level]
		sum := 0
		for _, w := range wins {
			sum += w
		}
		for _, t := range tys {
			for _, k := range []string{"r", "pp", "wr"} {
				st := []bigStep{W(t, 8)}
				if k == "r" {
					st = []bigStep{W(t, sum+8)}
				}
				st = append(st, S("p", 1))
				for _, w := range wins {
					st = append(st, bigStep{K: k, N: w, T: t}, S("p", 1))
					if k == "pp" {
						st = append(st, S("pr", 1)) // the head moves on; the next window of peeks sees another value
					}
				}
				st = append(st, S("pr", 8))
				big(Big{Steps: st})
			}
		}
		// state carried across Reset
		for _, w := range []int{1, 1<<16 - 1, 1 << 16} {
			big(Big{Steps: []bigStep{S("w", 5), S("p", 1), S("pr", 2), S("reset", 1), S("w", w+4), S("p", 1), S("r", w), S("p", 1), S("reset", 1), S("w", 3), S("p", 1), S("pr", 3)}})
			big(Big{Steps: []bigStep{W("Uint64", 3), S("p", 1), S("reset", 1), W("Uint64", w+2), S("p", 1), S("r", w), S("p", 1), S("pr", 2)}})
		}
		r.CountN("leg:period", n)
		r.Note("leg period: %d histories: a peek, exactly %v reads (or peeks, or write+read pairs) with no peek in between, the peek again; mixed and single types; state across Reset", n, wins)
	})
}
