// hx_c19: correspondence harness + oracle for C19 (qnet.Buffer, the typed little-endian byte buffer).
//
// A case is a list of ops on one fresh buffer: w <T> <bits> | r <T> | p <T>. Values travel as the
// unsigned bit pattern of their type (floats as IEEE-754 bits, bool as 0/1).
// The oracle does not know the model: it keeps a plain FIFO of the (type, value) pairs written and
// states the property directly — a write grows Len() by the width of its type and appends the
// value's bytes least-significant first; a peek of the type at the head returns that value and
// changes nothing; a read of the type at the head returns that value bit for bit and shrinks Len()
// by the width; when everything written was read the buffer is empty.
package main

import (
	"bytes"
	"fmt"
	"hash/fnv"
	"io"
	"log"
	"math"
	"os"
	"strconv"
	"strings"

	"verifharness/hxlib"

	"qchen.fun/fatchoy/qnet"
)

type op struct {
	K string `json:"k"` // w | r | p
	T string `json:"t"`
	V uint64 `json:"v,omitempty"`
}

type Case struct {
	Ops   []op   `json:"ops"`
	Big   *Big   `json:"big,omitempty"`   // search legs: a long generated history (search.go); Ops is unused then
	Ctor  string `json:"ctor,omitempty"`  // legs2.go: how the (empty) buffer of the case is made ("" = the zero value)
	Fleet *Fleet `json:"fleet,omitempty"` // legs2.go: a process-lifetime history over many buffers; Ops is unused then
}

type ty struct {
	name  string
	width int // bytes the property assigns to the type
	bits  int // bits of the value domain (1 for bool)
	float bool
	write func(b *qnet.Buffer, v uint64)
	read  func(b *qnet.Buffer) uint64
	peek  func(b *qnet.Buffer) uint64
}

func b2u(v bool) uint64 {
	if v {
		return 1
	}
	return 0
}

var word = strconv.IntSize / 8

var types = []ty{
	{"Bool", 1, 1, false, func(b *qnet.Buffer, v uint64) { b.WriteBool(v != 0) }, func(b *qnet.Buffer) uint64 { return b2u(b.ReadBool()) }, func(b *qnet.Buffer) uint64 { return b2u(b.PeekBool()) }},
	{"Uint8", 1, 8, false, func(b *qnet.Buffer, v uint64) { b.WriteUInt8(uint8(v)) }, func(b *qnet.Buffer) uint64 { return uint64(b.ReadUint8()) }, func(b *qnet.Buffer) uint64 { return uint64(b.PeekUint8()) }},
	{"Int8", 1, 8, false, func(b *qnet.Buffer, v uint64) { b.WriteInt8(int8(uint8(v))) }, func(b *qnet.Buffer) uint64 { return uint64(uint8(b.ReadInt8())) }, func(b *qnet.Buffer) uint64 { return uint64(uint8(b.PeekInt8())) }},
	{"Uint16", 2, 16, false, func(b *qnet.Buffer, v uint64) { b.WriteUint16(uint16(v)) }, func(b *qnet.Buffer) uint64 { return uint64(b.ReadUint16()) }, func(b *qnet.Buffer) uint64 { return uint64(b.PeekUint16()) }},
	{"Int16", 2, 16, false, func(b *qnet.Buffer, v uint64) { b.WriteInt16(int16(uint16(v))) }, func(b *qnet.Buffer) uint64 { return uint64(uint16(b.ReadInt16())) }, func(b *qnet.Buffer) uint64 { return uint64(uint16(b.PeekInt16())) }},
	{"Uint32", 4, 32, false, func(b *qnet.Buffer, v uint64) { b.WriteUint32(uint32(v)) }, func(b *qnet.Buffer) uint64 { return uint64(b.ReadUint32()) }, func(b *qnet.Buffer) uint64 { return uint64(b.PeekUint32()) }},
	{"Int32", 4, 32, false, func(b *qnet.Buffer, v uint64) { b.WriteInt32(int32(uint32(v))) }, func(b *qnet.Buffer) uint64 { return uint64(uint32(b.ReadInt32())) }, func(b *qnet.Buffer) uint64 { return uint64(uint32(b.PeekInt32())) }},
	{"Uint64", 8, 64, false, func(b *qnet.Buffer, v uint64) { b.WriteUint64(v) }, func(b *qnet.Buffer) uint64 { return b.ReadUint64() }, func(b *qnet.Buffer) uint64 { return b.PeekUint64() }},
	{"Int64", 8, 64, false, func(b *qnet.Buffer, v uint64) { b.WriteInt64(int64(v)) }, func(b *qnet.Buffer) uint64 { return uint64(b.ReadInt64()) }, func(b *qnet.Buffer) uint64 { return uint64(b.PeekInt64()) }},
	{"Uint", word, 8 * word, false, func(b *qnet.Buffer, v uint64) { b.WriteUint(uint(v)) }, func(b *qnet.Buffer) uint64 { return uint64(b.ReadUint()) }, func(b *qnet.Buffer) uint64 { return uint64(b.PeekUint()) }},
	{"Int", word, 8 * word, false, func(b *qnet.Buffer, v uint64) { b.WriteInt(int(uint(v))) }, func(b *qnet.Buffer) uint64 { return uint64(uint(b.ReadInt())) }, func(b *qnet.Buffer) uint64 { return uint64(uint(b.PeekInt())) }},
	{"Float32", 4, 32, true, func(b *qnet.Buffer, v uint64) { b.WriteFloat32(math.Float32frombits(uint32(v))) }, func(b *qnet.Buffer) uint64 { return uint64(math.Float32bits(b.ReadFloat32())) }, func(b *qnet.Buffer) uint64 { return uint64(math.Float32bits(b.PeekFloat32())) }},
	{"Float64", 8, 64, true, func(b *qnet.Buffer, v uint64) { b.WriteFloat64(math.Float64frombits(v)) }, func(b *qnet.Buffer) uint64 { return math.Float64bits(b.ReadFloat64()) }, func(b *qnet.Buffer) uint64 { return math.Float64bits(b.PeekFloat64()) }},
}

var byName = map[string]*ty{}

func init() {
	for i := range types {
		byName[types[i].name] = &types[i]
	}
}

func mask(bits int) uint64 {
	if bits >= 64 {
		return ^uint64(0)
	}
	return (uint64(1) << uint(bits)) - 1
}

// littleEndian spells the property's byte order out: byte i is bits 8i..8i+7.
func littleEndian(v uint64, width int) []byte {
	out := make([]byte, width)
	for i := 0; i < width; i++ {
		out[i] = byte(v >> (8 * uint(i)))
	}
	return out
}

func canonPanic(p string) string {
	switch p {
	case io.EOF.Error():
		return "panic:eof"
	case qnet.ErrBufferOutOfRange.Error():
		return "panic:range"
	}
	return "panic:" + strings.ReplaceAll(p, " ", "_")
}

type failure struct{ key, what string }

type fifoEnt struct {
	t string
	v uint64
}

// runCase runs the ops on the real buffer. emit (may be nil) receives the protocol lines; the
// returned failures are the oracle's verdicts.
func runCase(c Case, emit func(op, ans string)) (fails []failure) {
	say := func(o, a string) {
		if emit != nil {
			emit(o, a)
		}
	}
	fail := func(key, format string, a ...interface{}) {
		fails = append(fails, failure{key, fmt.Sprintf(format, a...)})
	}
	b := newBuffer(c.Ctor) // legs2.go ("" = new(qnet.Buffer): the zero value, as before)
	say("new", "ok")
	var fifo []fifoEnt
	sync := true // the FIFO still describes the unread bytes
	for i, o := range c.Ops {
		t := byName[o.T]
		if t == nil {
			say(fmt.Sprintf("%s %s", o.K, o.T), "bad-op")
			continue
		}
		before := append([]byte{}, b.Bytes()...)
		switch o.K {
		case "w":
			v := o.V & mask(t.bits)
			p := hxlib.Guard(func() { t.write(b, v) })
			after := b.Bytes()
			if p != "" {
				say(fmt.Sprintf("w %s %d", t.name, v), canonPanic(p))
				fail("write-panic:"+t.name, "op %d: Write%s(%#x) panics: %s", i, t.name, v, p)
				sync = false
				continue
			}
			say(fmt.Sprintf("w %s %d", t.name, v), fmt.Sprintf("len=%d", b.Len()))
			want := append(append([]byte{}, before...), littleEndian(v, t.width)...)
			if len(after) != len(before)+t.width {
				fail("write-width:"+t.name, "op %d: Write%s(%#x) grew Len() from %d to %d, the width of the type is %d (appended % x)",
					i, t.name, v, len(before), len(after), t.width, after[min(len(before), len(after)):])
				sync = false
			} else if !bytes.Equal(after, want) {
				fail("write-bytes:"+t.name, "op %d: Write%s(%#x) appended % x, little-endian is % x", i, t.name, v, after[len(before):], want[len(before):])
			}
			fifo = append(fifo, fifoEnt{t.name, v})
		case "p":
			var v uint64
			p := hxlib.Guard(func() { v = t.peek(b) })
			after := b.Bytes()
			if p != "" {
				say("p "+t.name, canonPanic(p))
			} else {
				say("p "+t.name, fmt.Sprintf("v=%d len=%d", v, b.Len()))
			}
			if !bytes.Equal(before, after) {
				fail("peek-consumes:"+t.name, "op %d: Peek%s changed the unread bytes from % x to % x", i, t.name, before, after)
				sync = false
			}
			if sync && len(fifo) > 0 && fifo[0].t == t.name {
				if p != "" {
					fail("peek-value:"+t.name, "op %d: Peek%s panics (%s) although a %s (%#x) is next", i, t.name, p, t.name, fifo[0].v)
				} else if v != fifo[0].v {
					fail("peek-value:"+t.name, "op %d: Peek%s returned %#x, the next value written is %#x", i, t.name, v, fifo[0].v)
				}
			}
		case "r":
			var v uint64
			p := hxlib.Guard(func() { v = t.read(b) })
			if p != "" {
				say("r "+t.name, canonPanic(p))
			} else {
				say("r "+t.name, fmt.Sprintf("v=%d len=%d", v, b.Len()))
			}
			if sync && len(fifo) > 0 && fifo[0].t == t.name {
				if p != "" {
					fail("readback:"+t.name, "op %d: Read%s panics (%s) although a %s (%#x) is next", i, t.name, p, t.name, fifo[0].v)
					sync = false
				} else {
					if v != fifo[0].v {
						fail("readback:"+t.name, "op %d: Read%s returned %#x, written was %#x", i, t.name, v, fifo[0].v)
					}
					if b.Len() != len(before)-t.width {
						fail("read-width:"+t.name, "op %d: Read%s took Len() from %d to %d, the width of the type is %d", i, t.name, len(before), b.Len(), t.width)
						sync = false
					}
				}
				fifo = fifo[1:]
			} else {
				sync = false // a read the property says nothing about (wrong type or nothing written)
			}
		default:
			say(o.K+" "+o.T, "bad-op")
		}
	}
	if sync && len(fifo) == 0 && b.Len() != 0 {
		fail("leftover", "every written value was read back but %d byte(s) are still unread: % x", b.Len(), b.Bytes())
	}
	say("bytes", hxlib.Hex(b.Bytes()))
	return fails
}

func min(a, b int) int {
	if a < b {
		return a
	}
	return b
}

func hasKey(fs []failure, key string) bool {
	for _, f := range fs {
		if f.key == key {
			return true
		}
	}
	return false
}

func caseKey(c Case) string {
	h := fnv.New64a()
	for _, o := range c.Ops {
		fmt.Fprintf(h, "%s %s %d;", o.K, o.T, o.V)
	}
	return fmt.Sprintf("%016x", h.Sum64())
}

var nCases int

func one(r *hxlib.Run, c Case) {
	r.Case()
	nCases++
	fails := runCase(c, r.Op)
	widths := map[int]bool{}
	for _, o := range c.Ops {
		if t := byName[o.T]; t != nil {
			r.Count(o.K + ":" + t.name)
			if o.K == "w" {
				widths[t.width] = true
				v := o.V & mask(t.bits)
				switch {
				case t.float && isNaN(t, v):
					r.Count("value:nan")
				case !t.float && t.bits > 1 && v>>(uint(t.bits)-1) == 1:
					r.Count("value:negative-or-top-bit")
				case v == mask(t.bits) || v == 0:
					r.Count("value:extreme")
				}
			}
		}
	}
	if len(widths) >= 2 {
		r.NonTrivial(caseKey(c))
	}
	seen := map[string]bool{}
	for _, f := range fails {
		if seen[f.key] {
			continue
		}
		seen[f.key] = true
		// shrink: drop ops while the same failure class remains
		keep := hxlib.DDMin(len(c.Ops), func(keep []int) bool {
			cand := Case{}
			for _, k := range keep {
				cand.Ops = append(cand.Ops, c.Ops[k])
			}
			return hasKey(runCase(cand, nil), f.key)
		})
		small := Case{}
		for _, k := range keep {
			small.Ops = append(small.Ops, c.Ops[k])
		}
		what := f.what
		for _, g := range runCase(small, nil) {
			if g.key == f.key {
				what = g.what
				break
			}
		}
		r.Fail(f.key, what, small)
	}
}

func isNaN(t *ty, v uint64) bool {
	if t.bits == 32 {
		f := math.Float32frombits(uint32(v))
		return f != f
	}
	f := math.Float64frombits(v)
	return f != f
}

// pickValue aims at the places the quantifier names: extremes, negatives, NaN payloads, ±0, ±Inf,
// byte patterns that expose the byte order, plus random bits.
func pickValue(r *hxlib.Rand, t *ty) uint64 {
	m := mask(t.bits)
	if t.bits == 1 {
		return r.U64() & 1
	}
	top := uint64(1) << (uint(t.bits) - 1)
	if t.float {
		var specials []uint64
		if t.bits == 32 {
			specials = []uint64{0, 0x80000000, 0x7f800000, 0xff800000, 0x7fc00000, 0x7fc00001, 0x7f800001, 0xffc12345, 0xff800001, 1, 0x007fffff, 0x00800000, 0x7f7fffff, 0x3f800000, 0xbf800000}
		} else {
			specials = []uint64{0, 0x8000000000000000, 0x7ff0000000000000, 0xfff0000000000000, 0x7ff8000000000000, 0x7ff8000000000001, 0x7ff0000000000001, 0xfff4000000abcdef, 1, 0x000fffffffffffff, 0x0010000000000000, 0x7fefffffffffffff, 0x3ff0000000000000, 0xbff0000000000000}
		}
		if r.Chance(1, 2) {
			return specials[r.Intn(len(specials))]
		}
		return r.U64() & m
	}
	switch r.Intn(10) {
	case 0:
		return 0
	case 1:
		return m // -1 / max unsigned
	case 2:
		return top // min signed
	case 3:
		return top - 1 // max signed
	case 4:
		return 0x0807060504030201 & m // byte order
	case 5:
		return 1
	case 6:
		return (m - r.U64()%256) & m // small negatives
	case 7:
		return r.U64() % 256
	}
	return r.U64() & m
}

func randType(r *hxlib.Rand) *ty {
	// word-sized types a little more often: they are the ones whose width depends on the platform
	if r.Chance(1, 6) {
		return &types[9+r.Intn(2)]
	}
	return &types[r.Intn(len(types))]
}

// writeThenRead: the property's headline shape.
func genSequence(r *hxlib.Rand, n int, withPeek bool) Case {
	var c Case
	ts := make([]*ty, n)
	for i := range ts {
		ts[i] = randType(r)
		c.Ops = append(c.Ops, op{"w", ts[i].name, pickValue(r, ts[i])})
	}
	for _, t := range ts {
		if withPeek {
			c.Ops = append(c.Ops, op{"p", t.name, 0})
		}
		c.Ops = append(c.Ops, op{"r", t.name, 0})
	}
	return c
}

// genInterleaved: writes, peeks and reads mixed, every read/peek of the type at the head.
func genInterleaved(r *hxlib.Rand, n int) Case {
	var c Case
	var q []*ty
	for i := 0; i < n; i++ {
		switch {
		case len(q) == 0 || r.Chance(1, 2):
			t := randType(r)
			q = append(q, t)
			c.Ops = append(c.Ops, op{"w", t.name, pickValue(r, t)})
		case r.Chance(1, 3):
			c.Ops = append(c.Ops, op{"p", q[0].name, 0})
		default:
			c.Ops = append(c.Ops, op{"r", q[0].name, 0})
			q = q[1:]
		}
	}
	for _, t := range q {
		c.Ops = append(c.Ops, op{"r", t.name, 0})
	}
	return c
}

// genFree: any op with any type: reads of another type, reads and peeks on short and empty buffers.
// The oracle abstains after the first read the property does not cover; the model does not.
func genFree(r *hxlib.Rand, n int) Case {
	var c Case
	for i := 0; i < n; i++ {
		t := randType(r)
		switch r.Intn(5) {
		case 0, 1:
			c.Ops = append(c.Ops, op{"w", t.name, pickValue(r, t)})
		case 2:
			c.Ops = append(c.Ops, op{"p", t.name, 0})
		default:
			c.Ops = append(c.Ops, op{"r", t.name, 0})
		}
	}
	return c
}

func main() {
	r := hxlib.Start("C19", "an op sequence on one buffer; non-trivial when it writes values of at least two different widths; distinct by the exact op list")
	defer r.Finish()
	log.SetOutput(io.Discard)
	// first line of every op stream: the word size of THIS build, so that the model answers with the
	// tables extracted for the same value of is64Bit (a GOARCH=386 build is compared with the 32-bit tables)
	r.Op(fmt.Sprintf("arch bits=%d", strconv.IntSize), "ok")
	if r.Replay != "" {
		var c Case
		r.LoadReplay(&c)
		if c.Fleet != nil {
			runFleet(r, c)
		} else if c.Big != nil {
			runBig(r, c)
		} else {
			one(r, c)
		}
		r.Sample(c)
		return
	}
	if os.Getenv("HX_LEGS_ONLY") != "" { // development: the legs of search.go alone
		legs(r)
		legs2(r)
		return
	}
	r.Op("info", fmt.Sprintf("word=%d types=%s", word, func() string {
		var ns []string
		for _, t := range types {
			ns = append(ns, t.name)
		}
		return strings.Join(ns, ",")
	}()))
	// every type with each of its boundary values, alone: write, peek, read
	for i := range types {
		t := &types[i]
		m := mask(t.bits)
		vals := []uint64{0, 1, m, m - 1, 0x0807060504030201 & m, 0x8070605040302010 & m}
		if t.bits > 1 {
			top := uint64(1) << (uint(t.bits) - 1)
			vals = append(vals, top, top-1, top+1)
		}
		if t.float && t.bits == 32 {
			vals = append(vals, 0x7f800000, 0xff800000, 0x7fc00000, 0x7f800001, 0xffc12345, 0x80000000)
		}
		if t.float && t.bits == 64 {
			vals = append(vals, 0x7ff0000000000000, 0xfff0000000000000, 0x7ff8000000000000, 0x7ff0000000000001, 0xfff4000000abcdef, 0x8000000000000000)
		}
		for _, v := range vals {
			one(r, Case{Ops: []op{{"w", t.name, v}, {"p", t.name, 0}, {"r", t.name, 0}}})
		}
		// every pair of types: the second value must not be disturbed by the first
		for j := range types {
			u := &types[j]
			one(r, Case{Ops: []op{{"w", t.name, pickValue(r.R, t)}, {"w", u.name, pickValue(r.R, u)}, {"p", t.name, 0}, {"r", t.name, 0}, {"p", u.name, 0}, {"r", u.name, 0}}})
		}
		// underflow: empty buffer, and one byte short of the width
		one(r, Case{Ops: []op{{"r", t.name, 0}, {"p", t.name, 0}}})
		if t.width > 1 {
			one(r, Case{Ops: []op{{"w", "Uint8", 0x7f}, {"p", t.name, 0}, {"r", t.name, 0}, {"r", t.name, 0}}})
		}
	}
	// all 256 values of the one-byte types
	for _, n := range []string{"Uint8", "Int8"} {
		var c Case
		for v := 0; v < 256; v++ {
			c.Ops = append(c.Ops, op{"w", n, uint64(v)})
		}
		for v := 0; v < 256; v++ {
			c.Ops = append(c.Ops, op{"p", n, 0}, op{"r", n, 0})
		}
		one(r, c)
	}
	maxLen := r.Scale(24, 120)
	for k := 0; k < r.Scale(1500, 40000); k++ {
		c := genSequence(r.R, r.R.Range(1, maxLen), k%2 == 0)
		if k < 2 {
			r.Sample(c)
		}
		one(r, c)
	}
	for k := 0; k < r.Scale(1000, 30000); k++ {
		c := genInterleaved(r.R, r.R.Range(2, 2*maxLen))
		if k < 2 {
			r.Sample(c)
		}
		one(r, c)
	}
	for k := 0; k < r.Scale(1000, 30000); k++ {
		c := genFree(r.R, r.R.Range(1, maxLen))
		if k < 1 {
			r.Sample(c)
		}
		one(r, c)
	}
	if r.Thorough() {
		// the 16-bit types exhaustively (the quantifier is finite there)
		for _, n := range []string{"Uint16", "Int16"} {
			for base := 0; base < 65536; base += 512 {
				var c Case
				for v := base; v < base+512; v++ {
					c.Ops = append(c.Ops, op{"w", n, uint64(v)})
				}
				for v := base; v < base+512; v++ {
					c.Ops = append(c.Ops, op{"p", n, 0}, op{"r", n, 0})
				}
				one(r, c)
			}
		}
		r.Note("all 2^16 values of Uint16 and Int16 and all 2^8 values of Uint8 and Int8 were written, peeked and read back on the real code")
	}
	r.Note("platform word: %d bytes; %d cases", word, nCases)
	legs(r)  // search.go (after the generators, so that the smallest failing case of a kind is recorded first): cheap legs in every tier, the longer ones from thorough on, the rest with -search only
	legs2(r) // legs2.go: second round (word extremes, constructors, process-lifetime history); the fleet leg is last on purpose
}
