// hx_c20: correspondence harness + oracle for C20 (node ids).
package main

import (
	"fmt"
	"io"
	"log"
	"os"
	"strings"

	"verifharness/hxlib"

	fatchoy "qchen.fun/fatchoy"
)

type pair struct {
	S   int  `json:"service"`
	I   int  `json:"instance"`
	Pre *pre `json:"pre,omitempty"` // search legs: calls made in this process before the pair is judged (search.go)
}

func isLowerHex(s string) bool {
	for _, c := range s {
		if !(c >= '0' && c <= '9' || c >= 'a' && c <= 'f') {
			return false
		}
	}
	return true
}

// observe runs the real code on one pair and returns the canonical line.
func observe(s, i int) (line string, id uint32, str string, parsed int64) {
	n := fatchoy.MakeNodeID(uint8(s), uint16(i))
	str = n.String()
	parsed = -1
	if p := hxlib.Guard(func() { parsed = int64(fatchoy.MustParseNodeID(str)) }); p != "" {
		parsed = -1
	}
	ps := "err"
	if parsed >= 0 {
		ps = fmt.Sprint(parsed)
	}
	line = fmt.Sprintf("id=%d svc=%d inst=%d backend=%v str=%s parse=%s", uint32(n), n.Service(), n.Instance(), n.IsTypeBackend(), str, ps)
	return line, uint32(n), str, parsed
}

// history: what the search legs did in this process before the pair being judged (nil in the tiers).
var history *pre

// oracle: the property, evaluated directly on the real code.
func oracle(r *hxlib.Run, s, i int) {
	n := fatchoy.MakeNodeID(uint8(s), uint16(i))
	cls := "service<128"
	if s >= 128 {
		cls = "service>=128"
	}
	c := pair{S: s, I: i, Pre: history}
	if int(n.Service()) != s || int(n.Instance()) != i {
		r.Fail("unpack:"+cls, fmt.Sprintf("MakeNodeID(%d,%d) unpacks to (%d,%d)", s, i, n.Service(), n.Instance()), c)
	}
	if !n.IsTypeBackend() {
		r.Fail("backend:"+cls, fmt.Sprintf("MakeNodeID(%d,%d) is not classified as a backend id", s, i), c)
	}
	if uint32(n) != uint32(s)*65536+uint32(i) {
		r.Fail("distinct:"+cls, fmt.Sprintf("MakeNodeID(%d,%d)=%d is not the injective packing", s, i, uint32(n)), c)
	}
	str := n.String()
	if len(str) != 6 || !isLowerHex(str) {
		r.Fail("print-form:"+cls, fmt.Sprintf("MakeNodeID(%d,%d).String()=%q is not six lower-case hex digits", s, i, str), c)
	}
	var back fatchoy.NodeID
	if p := hxlib.Guard(func() { back = fatchoy.MustParseNodeID(str) }); p != "" {
		r.Fail("print-parse:"+cls, fmt.Sprintf("MustParseNodeID(%q) panics for MakeNodeID(%d,%d)", str, s, i), c)
	} else if back != n {
		r.Fail("print-parse:"+cls, fmt.Sprintf("MustParseNodeID(%q)=%d, want %d", str, back, n), c)
	}
}

func one(r *hxlib.Run, s, i int, model bool) {
	r.Case()
	oracle(r, s, i)
	if model {
		line, _, _, _ := observe(s, i)
		r.Op(fmt.Sprintf("node %d %d", s, i), line)
	}
	if s >= 128 || i < 0x1000 {
		r.NonTrivial(fmt.Sprintf("%d/%d", s, i))
	}
	if s >= 128 {
		r.Count("service>=128")
	}
	if i < 0x1000 {
		r.Count("instance-leading-zero")
	}
}

func parseLine(r *hxlib.Run, text string) {
	var v int64 = -1
	p := hxlib.Guard(func() { v = int64(fatchoy.MustParseNodeID(text)) })
	out := "err"
	if p == "" {
		out = fmt.Sprintf("ok %d", v)
	}
	r.Count("parse-op")
	if text == "" {
		r.Op("parse", out)
	} else {
		r.Op("parse "+text, out)
	}
}

func main() {
	r := hxlib.Start("C20", "a (service, instance) pair; non-trivial when service >= 128 or the instance has leading zero hex digits; distinct by pair")
	defer r.Finish()
	log.SetOutput(io.Discard)
	if r.Replay != "" {
		var ac aliasCase
		r.LoadReplay(&ac)
		if ac.Alias != [2]pair{} {
			aliasOne(r, ac.Alias[0], ac.Alias[1])
			r.Sample(ac)
			return
		}
		var c pair
		r.LoadReplay(&c)
		if c.Pre != nil {
			c.Pre.run(c.Pre.N)
		}
		one(r, c.S, c.I, true)
		r.Sample(c)
		return
	}
	// search.go: cheap legs in every tier, the full passes from thorough on, the longest windows with -search only.
	// They run first: what they look for depends on the calls made before in this process, and a replay starts from none.
	legs(r)
	legs4(r)
	if os.Getenv("HX_LEGS_ONLY") != "" { // development: the legs alone
		return
	}
	bs := []int{0, 1, 2, 9, 10, 15, 16, 17, 127, 128, 129, 200, 254, 255}
	bi := []int{0, 1, 9, 10, 15, 16, 255, 256, 4095, 4096, 32767, 32768, 65534, 65535}
	for _, s := range bs {
		for _, i := range bi {
			one(r, s, i, true)
		}
	}
	n := r.Scale(20000, 300000)
	for k := 0; k < n; k++ {
		s, i := r.R.Intn(256), r.R.Intn(65536)
		if k < 5 {
			r.Sample(pair{S: s, I: i})
		}
		one(r, s, i, true)
	}
	// the parser on text the printer never produces
	alphabet := "0123456789abcdefABCDEFg-+_x "
	for k := 0; k < r.Scale(2000, 20000); k++ {
		l := r.R.Intn(11)
		var sb strings.Builder
		for j := 0; j < l; j++ {
			c := alphabet[r.R.Intn(len(alphabet))]
			if c == ' ' {
				c = '0'
			}
			sb.WriteByte(c)
		}
		parseLine(r, sb.String())
	}
	trLeg(r) // tr.go: the translated functions against the real ones
	for _, t := range []string{"", "0", "ffffffff", "100000000", "0x10", "-1", "+1", "1_0", "ABCDEF", "abcdef"} {
		parseLine(r, t)
	}
	if r.Thorough() {
		// the quantifier is finite: every pair, on the real code, against the oracle
		seen := make([]uint64, (1<<24)/64)
		for s := 0; s < 256; s++ {
			for i := 0; i < 65536; i++ {
				r.Case()
				oracle(r, s, i)
				id := uint32(fatchoy.MakeNodeID(uint8(s), uint16(i)))
				if id < 1<<24 {
					if seen[id/64]&(1<<(id%64)) != 0 {
						r.Fail("distinct:collision", fmt.Sprintf("id %d produced twice", id), pair{S: s, I: i})
					}
					seen[id/64] |= 1 << (id % 64)
				}
				if s >= 128 || i < 0x1000 {
					r.NonTrivial(fmt.Sprintf("%d/%d", s, i))
				}
			}
		}
		r.Count("exhaustive-2^24-pairs")
		r.Note("all 2^24 (service, instance) pairs were run on the real code against the oracle")
	}
}
