package main

// legs4.go: two more classes the ordinary generators never produce (third red-team wave).
//
//	alias       the text handed to MustParseNodeID shares its bytes with a caller buffer (a zero-copy
//	            bytes-as-string view) that is refilled before the next parse: the parser must depend on the
//	            CONTENTS of its argument at call time only, never on its identity or on an earlier call
//	concurrent  many goroutines pack, print and parse ids at once — ids chosen to agree in their low 9, 12 and
//	            16 bits (cache-slot neighbours); every answer is judged by the same oracle as a sequential call,
//	            and a final sequential pass looks for damage that persists
//
// Both are oracle-only, cheap and run in every tier. Replays: {"alias": [first, second]} / the plain pair.

import (
	"fmt"
	"sync"
	"unsafe"

	"verifharness/hxlib"

	fatchoy "qchen.fun/fatchoy"
)

type aliasCase struct {
	Alias [2]pair `json:"alias"`
}

func bytesAsString(b []byte) string { return *(*string)(unsafe.Pointer(&b)) } // zero-copy view (go1.16 compatible)

// aliasOne parses the printed form of `first` through a view of buf, refills buf with the printed form of
// `second` and parses the (same) view again.
func aliasOne(r *hxlib.Run, first, second pair) {
	r.Case()
	a := fatchoy.MakeNodeID(uint8(first.S), uint16(first.I))
	b := fatchoy.MakeNodeID(uint8(second.S), uint16(second.I))
	sa, sb := a.String(), b.String()
	if len(sa) != len(sb) || len(sa) == 0 {
		return // the print clause is judged elsewhere
	}
	buf := []byte(sa)
	view := bytesAsString(buf)
	var got1, got2 fatchoy.NodeID
	if p := hxlib.Guard(func() { got1 = fatchoy.MustParseNodeID(view) }); p != "" {
		return
	}
	copy(buf, sb)
	if p := hxlib.Guard(func() { got2 = fatchoy.MustParseNodeID(view) }); p != "" {
		r.Fail("print-parse:aliased-argument", fmt.Sprintf("MustParseNodeID(%q) panics when its argument shares bytes with a refilled buffer: %s", sb, p), aliasCase{[2]pair{first, second}})
		return
	}
	if got1 == a && got2 != b {
		r.Fail("print-parse:aliased-argument", fmt.Sprintf("the text %q (printed form of service %d, instance %d) parsed to %d, want %d: its bytes were read into a buffer that held %q at the previous parse", sb, second.S, second.I, got2, b, sa), aliasCase{[2]pair{first, second}})
	}
}

func legs4(r *hxlib.Run) {
	R := hxlib.NewRand(r.Seed ^ 0xa11a5)
	// alias
	n := r.Scale(400, 20000)
	for k := 0; k < n && !r.Failed(); k++ {
		f := pair{S: R.Intn(256), I: R.Intn(65536)}
		s := pair{S: R.Intn(256), I: R.Intn(65536)}
		if k%4 == 0 { // neighbours in some low bits
			s = pair{S: (f.S + 1 + R.Intn(3)) % 256, I: f.I}
		}
		aliasOne(r, f, s)
	}
	r.Count("leg:alias")
	// concurrent
	workers := 8
	rounds := r.Scale(6000, 200000)
	var mu sync.Mutex
	var fails []struct {
		p    pair
		what string
	}
	groups := make([][]pair, 0, 16)
	for g := 0; g < 16; g++ {
		base := pair{S: R.Intn(256), I: R.Intn(65536)}
		var ps []pair
		for _, d := range []int{0, 512, 4096, 1 << 16, 3 << 16, 1<<16 + 512} { // same low 9 / 12 / 16 bits
			id := (base.S<<16 | base.I) + d
			ps = append(ps, pair{S: (id >> 16) & 255, I: id & 65535})
		}
		groups = append(groups, ps)
	}
	var wg sync.WaitGroup
	for w := 0; w < workers; w++ {
		wg.Add(1)
		go func(w int) {
			defer wg.Done()
			for k := 0; k < rounds; k++ {
				ps := groups[(k/64)%len(groups)]
				p := ps[(k+w)%len(ps)]
				n := fatchoy.MakeNodeID(uint8(p.S), uint16(p.I))
				str := n.String()
				want := fmt.Sprintf("%02x%04x", p.S, p.I)
				var back fatchoy.NodeID
				pn := hxlib.Guard(func() { back = fatchoy.MustParseNodeID(str) })
				if str != want || pn != "" || back != n || int(n.Service()) != p.S || int(n.Instance()) != p.I {
					mu.Lock()
					if len(fails) < 3 {
						fails = append(fails, struct {
							p    pair
							what string
						}{p, fmt.Sprintf("with %d goroutines printing and parsing ids at once: MakeNodeID(%d,%d).String()=%q (want %q), parsed back to %d (panic %q)", workers, p.S, p.I, str, want, back, pn)})
					}
					mu.Unlock()
					return
				}
			}
		}(w)
	}
	wg.Wait()
	r.Count("leg:concurrent")
	r.CountN("concurrent-calls", workers*rounds)
	for _, f := range fails {
		r.Case()
		r.Fail("print-parse:concurrent-callers", f.what, f.p)
	}
	// damage that persists after the concurrent phase
	for _, ps := range groups {
		for _, p := range ps {
			r.Case()
			oracle(r, p.S, p.I)
		}
	}
}
