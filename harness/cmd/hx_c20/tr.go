package main

// tr.go: X for the translator. The functions of nodeid.go that extract/translate.go turns into Lean definitions
// (Gen/C20.lean, namespace Tr) are called here on boundary and random arguments — over their whole parameter types,
// also ids MakeNodeID never returns — and the model driver evaluates the generated definition on the same arguments.
// This checks the translator's semantics (widths, extension, shifts), not the property; the oracle is not involved.

import (
	"fmt"

	"verifharness/hxlib"

	fatchoy "qchen.fun/fatchoy"
)

func trNode(r *hxlib.Run, n uint32) {
	id := fatchoy.NodeID(n)
	r.Op(fmt.Sprintf("tr Service %d", n), fmt.Sprint(id.Service()))
	r.Op(fmt.Sprintf("tr Instance %d", n), fmt.Sprint(id.Instance()))
	r.Op(fmt.Sprintf("tr IsTypeBackend %d", n), fmt.Sprint(id.IsTypeBackend()))
}

func trLeg(r *hxlib.Run) {
	bs := []int{0, 1, 127, 128, 254, 255}
	bi := []int{0, 1, 255, 256, 32767, 32768, 65534, 65535}
	for _, s := range bs {
		for _, i := range bi {
			r.Op(fmt.Sprintf("tr MakeNodeID %d %d", s, i), fmt.Sprint(uint32(fatchoy.MakeNodeID(uint8(s), uint16(i)))))
		}
	}
	var bn []uint32
	for sh := 0; sh < 32; sh++ {
		bn = append(bn, 1<<sh, 1<<sh-1, ^uint32(1<<sh))
	}
	bn = append(bn, 0xffffffff, 0x80000000, 0x7fffffff, 0x00ff0000, 0x0000ffff, 0xff000000)
	for _, n := range bn {
		trNode(r, n)
	}
	for k := 0; k < r.Scale(1500, 20000); k++ {
		s, i := r.R.Intn(256), r.R.Intn(65536)
		r.Op(fmt.Sprintf("tr MakeNodeID %d %d", s, i), fmt.Sprint(uint32(fatchoy.MakeNodeID(uint8(s), uint16(i)))))
		trNode(r, uint32(r.R.U64()))
	}
	r.Count("translated-function-evaluations")
}
