// search.go: the legs of hx_c20 that aim at defects invisible to the ordinary generators (DESIGN.md 3.4).
//
// The quantifier is finite and the thorough tier enumerates it in ascending order, each pair once.
// What that order cannot show is behaviour that depends on what was asked before (a memo of printed
// forms, a cache indexed by some bits of the id). The legs run the same oracle over the pairs in
// other orders (quick: 2^18 pairs per order; thorough: all 2^24), and re-ask a fixed probe set after
// exactly 2^16-1, 2^16 (thorough: 2^17, 2^18; -search: 2^20) other ids. A failure is reported with the
// calls that preceded it (pair.Pre), so the replay repeats them. No model lines.
package main

import (
	"time"

	"verifharness/hxlib"

	fatchoy "qchen.fun/fatchoy"
)

// pre: ids First, First+Step, ... (mod 2^24; kind "lin") or instance-major order (kind "inst":
// call k is service k mod 256, instance k / 256) — N of them were built, printed, parsed and taken apart.
type pre struct {
	Kind  string `json:"kind"`
	First uint32 `json:"first,omitempty"`
	Step  uint32 `json:"step,omitempty"`
	N     int    `json:"n"`
}

func (p *pre) at(k int) (s, i int) {
	if p.Kind == "inst" {
		return k % 256, (k / 256) % 65536
	}
	id := (p.First + uint32(k)*p.Step) & 0xffffff
	return int(id >> 16), int(id & 0xffff)
}

var sink int

// run makes calls 0..n-1 of the history without judging them.
func (p *pre) run(n int) {
	for k := 0; k < n; k++ {
		s, i := p.at(k)
		id := fatchoy.MakeNodeID(uint8(s), uint16(i))
		str := id.String()
		hxlib.Guard(func() { sink += int(fatchoy.MustParseNodeID(str)) })
		sink += int(id.Service()) + int(id.Instance())
		if id.IsTypeBackend() {
			sink++
		}
	}
}

func legs(r *hxlib.Run) {
	level := 0 // 0 quick, 1 thorough, 2 -search
	if r.Thorough() {
		level = 1
	}
	if r.Search {
		level = 2
	}
	R := hxlib.NewRand(r.Seed ^ 0x5ea7c20) // own stream: the tiers' generators draw what they drew before
	defer func() { history = nil }()
	stop := func() bool { return r.Search && r.Failed() } // with -search one failing input is what is looked for
	leg := func(name string, f func()) {
		if stop() {
			return
		}
		t0 := time.Now()
		f()
		r.Note("leg %s: %.1fs", name, time.Since(t0).Seconds())
	}
	// a pass: every call of the history is judged (the judged calls are the history of the later ones)
	pass := func(p pre) {
		h := p
		history = &h
		for k := 0; k < p.N && !stop(); k++ {
			h.N = k
			s, i := p.at(k)
			r.Case()
			oracle(r, s, i)
		}
		history = nil
	}

	leg("period", func() {
		probes := []pair{{S: 0, I: 0}, {S: 255, I: 65535}, {S: 1, I: 16}, {S: 127, I: 0x1000}, {S: 128, I: 255}, {S: 200, I: 4096}, {S: R.Intn(256), I: R.Intn(65536)}, {S: R.Intn(256), I: R.Intn(65536)}}
		n := 0
		wins := [][]int{{1<<16 - 1, 1 << 16}, {1<<16 - 1, 1 << 16, 1 << 17, 1 << 18}, {1<<16 - 1, 1 << 16, 1 << 17, 1 << 18, 1 << 20}}[level]
		steps := []uint32{1, 0x10001, 0x010000 + 0x100, uint32(R.U64())&0xffffff | 1}
		if level == 0 {
			steps = steps[:2]
		}
		for _, w := range wins {
			for _, step := range steps {
				for _, pb := range probes {
					if stop() {
						return
					}
					// the probe, exactly w other ids, the probe again — the first probe is call 0 of the history
					first := (uint32(pb.S)<<16 | uint32(pb.I))
					h := &pre{Kind: "lin", First: first, Step: step, N: w + 1}
					r.Case()
					oracle(r, pb.S, pb.I)
					h.run(w + 1)
					history = h
					r.Case()
					oracle(r, pb.S, pb.I)
					history = nil
					n++
				}
			}
		}
		r.CountN("leg:period", n)
		r.Note("leg period: %d probes re-judged after exactly %v other ids were built, printed and parsed (steps %#x)", n, wins, steps)
	})

	leg("orders", func() {
		np := []int{1 << 18, 1 << 24, 1 << 24}[level]
		pass(pre{Kind: "inst", N: np})                                                   // neighbours share the instance
		pass(pre{Kind: "lin", First: 0xffffff, Step: 0xffffff, N: np})                   // descending
		pass(pre{Kind: "lin", First: uint32(R.U64()) & 0xffffff, Step: 0x9e3779, N: np}) // scattered (odd step: a permutation)
		r.CountN("leg:orders", 3*np)
		r.Note("leg orders: %d pairs judged in each of three more orders: instance-major, descending, scattered (step 0x9e3779)", np)
	})
}
