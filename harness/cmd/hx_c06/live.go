package main

import (
	"fmt"
	"time"

	"qchen.fun/fatchoy/sched"
)

type liveProbe struct{ name string }

func (p *liveProbe) Run() error { return nil }

// liveOnce runs the REAL worker goroutine with its ticker and select loop for a fraction of a second:
// a one-shot timer, a periodic timer and a timer cancelled at once. Only loose bounds are judged
// (timing is never an oracle): the one-shot arrives exactly once, the periodic at least 3 times,
// the cancelled one never, Cancel answers are right, Shutdown returns.
func liveOnce(kind string) string {
	var t sched.Timer
	if kind == "wheel" {
		t = sched.NewHHWheelTimer(time.Millisecond, time.Millisecond)
	} else {
		t = sched.NewTimerQueue(time.Millisecond, time.Millisecond)
	}
	t.Start()
	p1, p2, p3 := &liveProbe{"one"}, &liveProbe{"per"}, &liveProbe{"cancelled"}
	one := t.RunAfter(30, p1)
	per := t.RunEvery(10, p2)
	can := t.RunAfter(40, p3)
	if one == per || per == can || one == can {
		return fmt.Sprintf("ids not distinct: %d %d %d", one, per, can)
	}
	if !t.Cancel(can) {
		return "Cancel of a pending timer returned false"
	}
	if t.Cancel(can) {
		return "second Cancel of the same timer returned true"
	}
	n := map[string]int{}
	deadline := time.After(5 * time.Second)
loop:
	for n["one"] < 1 || n["per"] < 3 {
		select {
		case r := <-t.Chan():
			if p, ok := r.(*liveProbe); ok {
				n[p.name]++
			}
		case <-deadline:
			break loop
		}
	}
	if n["one"] < 1 || n["per"] < 3 {
		return fmt.Sprintf("after 5 s: one-shot delivered %d time(s), periodic %d time(s)", n["one"], n["per"])
	}
	if !t.Cancel(per) {
		return "Cancel of the periodic timer returned false"
	}
	if t.IsScheduled(one) || t.IsScheduled(per) || t.IsScheduled(can) {
		return "IsScheduled true for a delivered or cancelled timer"
	}
	// first window: whatever was already in the channel when Cancel returned (plus the one documented
	// in-flight delivery) is drained; second window: nothing of the periodic timer may arrive any more
	after := 0
	for w := 0; w < 2; w++ {
		quiet := time.After(80 * time.Millisecond)
	drain:
		for {
			select {
			case r := <-t.Chan():
				if p, ok := r.(*liveProbe); ok {
					n[p.name]++
					if p.name == "per" && w == 1 {
						after++
					}
				}
			case <-quiet:
				break drain
			}
		}
	}
	if n["one"] != 1 {
		return fmt.Sprintf("one-shot delivered %d times", n["one"])
	}
	if n["cancelled"] != 0 {
		return fmt.Sprintf("cancelled timer delivered %d time(s)", n["cancelled"])
	}
	if after > 0 {
		return fmt.Sprintf("periodic timer still delivered (%d times) more than 80 ms after its Cancel returned true", after)
	}
	if sz := t.Size(); sz != 0 {
		return fmt.Sprintf("Size()=%d with nothing scheduled", sz)
	}
	done := make(chan struct{})
	go func() { t.Shutdown(); close(done) }()
	select {
	case <-done:
	case <-time.After(5 * time.Second):
		return "Shutdown did not return within 5 s"
	}
	return ""
}

// live believes a failure only if it shows three times in a row.
func live(kind string) string {
	var what string
	for k := 0; k < 3; k++ {
		if what = liveOnce(kind); what == "" {
			return ""
		}
	}
	return what
}
