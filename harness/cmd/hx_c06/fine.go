package main

import (
	. "verifharness/hxtimers"
)

// A fine-grained scenario: a prefix that makes several timers due on the SAME tick, that tick run with
// client ops placed at the schedule points inside its expiry passes (hook verifYield: before the worker
// takes the guard to decide about a node, and between that decision and the send), and an epilogue that
// lets stale requests be handled and the surviving timers run on.
type fineScenario struct {
	name     string
	prefix   []Op
	slots    int    // schedule points of the tick when nothing interferes (upper bound for placements)
	clients  [][]Op // sets of client ops to place
	big      [][]Op // more sets, thorough tier only
	epilogue []Op
}

func adv(n int) []Op {
	var out []Op
	for i := 0; i < n; i++ {
		out = append(out, Op{K: "advance", A: 1})
	}
	return out
}

func cat(parts ...[]Op) []Op {
	var out []Op
	for _, p := range parts {
		out = append(out, p...)
	}
	return out
}

func fineScenarios() []fineScenario {
	tail := func(n int) []Op {
		ep := ops("add", 0, "add", 0, "del", 0, "del", 0, "del", 0)
		ep = append(ep, Op{K: "links"})
		ep = append(ep, adv(3)...)
		ep = append(ep, Op{K: "size"})
		for id := 1; id <= n; id++ {
			ep = append(ep, Op{K: "sched", A: int64(id)})
		}
		for id := 1; id <= n; id++ {
			ep = append(ep, Op{K: "cancel", A: int64(id)})
		}
		ep = append(ep, ops("del", 0, "del", 0, "del", 0, "del", 0, "del", 0)...)
		ep = append(ep, adv(2)...)
		ep = append(ep, Op{K: "size"}, Op{K: "links"})
		return ep
	}
	return []fineScenario{
		{
			// two one-shot timers and a periodic one due on the same tick
			name:   "three-due",
			prefix: cat(ops("after", 2, "after", 2, "every", 2, "add", 0, "add", 0, "add", 0), adv(1)),
			slots:  6,
			clients: [][]Op{
				ops("cancel", 1), ops("cancel", 2), ops("cancel", 3),
				ops("cancel", 1, "cancel", 2), ops("cancel", 3, "cancel", 3), ops("cancel", 2, "after", 0),
				ops("size", 0, "cancel", 1), ops("every", 1, "cancel", 3), ops("cancel", 3, "sched", 3),
			},
			big: [][]Op{
				ops("sched", 2, "cancel", 2, "sched", 2), ops("cancel", 1, "cancel", 3, "cancel", 2),
				ops("cancel", 3, "after", 0, "size", 0), ops("cancel", 1, "cancel", 1, "size", 0),
			},
			epilogue: tail(5),
		},
		{
			// a timer cancelled at its expiry shares its near slot with two periodic timers of different
			// periods and a one-shot started later; the stale delete request is handled after the tick and
			// the periodic neighbours must go on firing (the unlink of a dropped node must be complete)
			name: "cancelled-among-periodic",
			prefix: cat(ops("every", 2, "every", 3, "after", 6, "add", 0, "add", 0, "add", 0), adv(4),
				ops("after", 2, "add", 0), adv(1)),
			slots: 8,
			clients: [][]Op{
				ops("cancel", 3), ops("cancel", 3, "cancel", 1), ops("cancel", 3, "cancel", 4), ops("cancel", 3, "after", 0),
				ops("cancel", 2, "cancel", 3), ops("cancel", 3, "every", 1), ops("cancel", 4, "cancel", 3),
			},
			big: [][]Op{
				ops("cancel", 3, "cancel", 1, "cancel", 2), ops("cancel", 3, "size", 0, "cancel", 4), ops("cancel", 3, "after", 0, "cancel", 2),
			},
			epilogue: cat(ops("del", 0, "del", 0, "add", 0, "links", 0), adv(13), ops("links", 0, "size", 0, "sched", 1, "sched", 2, "sched", 3, "sched", 4),
				ops("cancel", 1, "cancel", 2, "del", 0, "del", 0, "del", 0), adv(4), ops("size", 0, "links", 0)),
		},
		{
			// the same neighbourhood with the cancel already issued (and not yet handled) when the tick starts
			name: "cancelled-before-among-periodic",
			prefix: cat(ops("every", 2, "every", 3, "after", 6, "add", 0, "add", 0, "add", 0), adv(4),
				ops("after", 2, "add", 0), adv(1), ops("cancel", 3)),
			slots: 6,
			clients: [][]Op{
				{}, ops("cancel", 1), ops("cancel", 4), ops("cancel", 3), ops("after", 0, "cancel", 2),
			},
			epilogue: cat(ops("del", 0, "del", 0, "add", 0, "links", 0), adv(13), ops("links", 0, "size", 0, "sched", 1, "sched", 2, "sched", 3, "sched", 4),
				ops("cancel", 1, "cancel", 2, "del", 0, "del", 0, "del", 0), adv(4), ops("size", 0, "links", 0)),
		},
		{
			// period 1: the wheel commits such a timer in both passes of one tick
			name:     "period-one",
			prefix:   ops("every", 1, "every", 1, "after", 1, "add", 0, "add", 0, "add", 0),
			slots:    10,
			clients:  [][]Op{ops("cancel", 1), ops("cancel", 2), ops("cancel", 1, "cancel", 2), ops("cancel", 3, "cancel", 1)},
			big:      [][]Op{ops("cancel", 1, "every", 1, "cancel", 2)},
			epilogue: tail(4),
		},
	}
}

// placements calls visit with every assignment of the client ops to the schedule points 0..slots-1
// (ops placed at the same point keep their order).
func placements(client []Op, slots int, visit func(sub [][]Op)) {
	at := make([]int, len(client))
	var rec func(i int)
	rec = func(i int) {
		if i == len(client) {
			sub := make([][]Op, slots)
			for j, o := range client {
				sub[at[j]] = append(sub[at[j]], o)
			}
			visit(sub)
			return
		}
		for s := 0; s < slots; s++ {
			at[i] = s
			rec(i + 1)
		}
	}
	rec(0)
}
