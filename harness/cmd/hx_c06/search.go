package main

// Failing-input search legs of C06 (only with -search; see hxtimers/search.go for what each leg is aimed at).

import (
	"time"

	. "verifharness/hxtimers"
)

func searchEmitPlain(c Case, leg string, reps int) {
	// a live case is not a function of its op list alone (timing places the consumer's reads and the client's
	// calls): a failure that does not show at once is looked for a few times more
	for i := 0; i < reps; i++ {
		before := r.Failed()
		e := Emit(r, c, false, false)
		r.Count("search:" + leg)
		if e.Skipped {
			r.Count("search:" + leg + ":skipped(no id counter field)")
			return
		}
		r.CountN("search:"+leg+":client-ops-while-the-worker-is-blocked", e.Ref.ClientInPass)
		r.CountN("search:"+leg+":cancel-true-while-the-worker-is-blocked", e.Ref.CancelInPass)
		if !before && r.Failed() {
			return
		}
	}
}

func searchLegs() {
	t0 := time.Now()
	defer func() { r.Note("search legs took %.1f s", time.Since(t0).Seconds()) }()
	R := r.R.Fork()
	scheds := []string{"wheel", "heap"}
	positions := []uint32{0, 250, 1<<14 - 3, 1<<20 - 2, 1<<32 - 3}
	spec := func(sched string, sp Spec) {
		c := Case{Sched: sched, Time: int64(R.Intn(1 << 16)), Pos: positions[R.Intn(len(positions))] + uint32(R.Intn(4))}
		sp.Seed = R.U64()
		c.Search = &sp
		EmitSearch(r, c, false)
	}
	// (a) scale: 32..128 requests outstanding before the worker handles any
	for rep := 0; rep < 6; rep++ {
		for _, k := range []int{32, 63, 64, 65, 66, 96, 127, 128} {
			for _, sched := range scheds {
				spec(sched, Spec{Leg: "queue-depth", K: k, Flavor: "cancels"})
				spec(sched, Spec{Leg: "queue-depth", K: k, Flavor: "starts"})
			}
		}
	}
	// (a) scale: 2^16+1 timers pending, an eighth cancelled
	for _, sched := range scheds {
		spec(sched, Spec{Leg: "many-pending", N: 1<<16 + 1})
	}
	// (d) client calls while the worker stands blocked in its channel send (Chan() of capacity 1..2)
	nLive := 1500
	for k := 0; k < nLive && !r.Failed(); k++ {
		searchEmitPlain(LiveClientCase(R, scheds[k%2]), "live-client", 1)
	}
	// (b) exactly 2^16 / 2^17 start+cancel cycles between two observations
	for _, p := range []int{1 << 16, 1 << 17} {
		for _, sched := range scheds {
			spec(sched, Spec{Leg: "period-exact", N: p, Flavor: "cancel-cycles"})
		}
	}
	// (b) the id counter just below a power-of-two boundary
	for _, b := range []int64{1 << 15, 1 << 16, 1 << 31, 1 << 32} {
		for _, sched := range scheds {
			if r.Failed() {
				break
			}
			searchEmitPlain(IDWrapCase(R, sched, b), "id-wrap", 1)
		}
	}
	r.Note("search legs: queue-depth 32..128 outstanding cancel / start requests (6 histories per depth, flavour and scheduler); many-pending 2^16+1; live-client %d histories (client calls while the worker is blocked in its send on Chan() of capacity 1..2, consumer stalls of 15..50 ms); period-exact 2^16 and 2^17 start+cancel cycles; id counter pre-positioned below 2^15, 2^16, 2^31, 2^32", nLive)
}
