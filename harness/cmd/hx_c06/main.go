// hx_c06: correspondence harness + oracle for C06 (timer cancellation and bookkeeping are atomic and
// never crash the scheduler). Through the synchronous driver H1 the harness is the scheduler of the
// worker goroutine: it decides, between any two client calls, which pending request (start or
// cancel) the worker handles next and when it ticks. Small client scripts are run under ALL such
// orders (enumerated), longer histories under random ones.
package main

import (
	"io"
	"log"
	"strings"

	"verifharness/hxlib"
	. "verifharness/hxtimers"
)

var r *hxlib.Run

func emit(c Case) *Exec { return emitM(c, modelable(c)) }

// modelable: the answer lines of the case can be compared with the Lean model (deliveries of a shared object carry
// no timer identity, so such a case is judged by the oracle only).
func modelable(c Case) bool { return !strings.HasPrefix(c.Obj, "shared") }

func emitM(c Case, model bool) *Exec {
	e := Emit(r, c, model, false)
	if e.Ref.CancelBeforeAdd > 0 || e.Ref.CancelAtExpiry > 0 || e.Ref.CancelInPass > 0 {
		r.NonTrivial(c.Key())
	}
	r.CountN(c.Sched+":cancel-inside-an-expiry-pass", e.Ref.CancelInPass)
	r.CountN(c.Sched+":cancel-between-commit-and-send-of-a-periodic-timer", e.Ref.CancelInFlight)
	r.CountN(c.Sched+":client-op-inside-an-expiry-pass", e.Ref.ClientInPass)
	r.CountN(c.Sched+":cancel-before-start-was-handled", e.Ref.CancelBeforeAdd)
	r.CountN(c.Sched+":cancel-meeting-expiry-tick", e.Ref.CancelAtExpiry)
	r.CountN(c.Sched+":deliveries", e.Ref.Deliveries)
	return e
}

func isStart(o Op) bool { return o.K == "after" || o.K == "every" }

// enumerate every way the worker's steps (handle one start, handle one cancel, tick) can fall
// between the client ops, with at most maxW worker steps, then a fixed epilogue that lets
// everything outstanding happen.
func enumerate(sched string, pos uint32, client []Op, maxW int, epilogue []Op, visit func(Case)) {
	var cur []Op
	var rec func(i, w, adds, dels int)
	rec = func(i, w, adds, dels int) {
		if i == len(client) {
			c := Case{Sched: sched, Pos: pos, Time: 50}
			c.Ops = append(append([]Op{}, cur...), epilogue...)
			visit(c)
		}
		if i < len(client) {
			o := client[i]
			a, d := adds, dels
			if isStart(o) {
				a++
			}
			if o.K == "cancel" {
				d++
			}
			cur = append(cur, o)
			rec(i+1, w, a, d)
			cur = cur[:len(cur)-1]
		}
		if w < maxW {
			if adds > 0 {
				cur = append(cur, Op{K: "add"})
				rec(i, w+1, adds-1, dels)
				cur = cur[:len(cur)-1]
			}
			if dels > 0 {
				cur = append(cur, Op{K: "del"})
				rec(i, w+1, adds, dels-1)
				cur = cur[:len(cur)-1]
			}
			if i < len(client) { // ticks after the last client op are the epilogue's
				cur = append(cur, Op{K: "advance", A: 1})
				rec(i, w+1, adds, dels)
				cur = cur[:len(cur)-1]
			}
		}
	}
	rec(0, 0, 0, 0)
}

func epilogueFor(client []Op) []Op {
	var ep []Op
	n := 0
	for _, o := range client {
		if isStart(o) {
			n++
		}
	}
	ep = append(ep, Op{K: "size"})
	for k := 0; k < len(client); k++ {
		ep = append(ep, Op{K: "add"})
	}
	ep = append(ep, Op{K: "advance", A: 1})
	for k := 0; k < len(client); k++ {
		ep = append(ep, Op{K: "del"})
	}
	ep = append(ep, Op{K: "links"}, Op{K: "advance", A: 1}, Op{K: "advance", A: 3}, Op{K: "size"})
	for id := 1; id <= n; id++ {
		ep = append(ep, Op{K: "sched", A: int64(id)})
	}
	for id := 1; id <= n; id++ {
		ep = append(ep, Op{K: "cancel", A: int64(id)})
	}
	ep = append(ep, Op{K: "del"}, Op{K: "del"}, Op{K: "del"}, Op{K: "advance", A: 2}, Op{K: "size"}, Op{K: "links"})
	return ep
}

func ops(spec ...interface{}) []Op {
	var out []Op
	for i := 0; i < len(spec); i += 2 {
		out = append(out, Op{K: spec[i].(string), A: int64(spec[i+1].(int))})
	}
	return out
}

func main() {
	r = hxlib.Start("C06", "a client history together with one order in which the worker handles its inputs; non-trivial when a cancel is issued before the worker has handled that timer's start request, or within one tick of the timer's expiry; distinct by history+order")
	defer r.Finish()
	log.SetOutput(io.Discard)
	if r.Replay != "" {
		var c Case
		r.LoadReplay(&c)
		if strings.HasPrefix(c.Sched, "live-re-") {
			r.Case()
			if what := LiveReentrant(c.Sched[len("live-re-"):]); what != "" {
				r.Fail("live-reentrant:"+c.Sched[len("live-re-"):], what, c)
			}
			return
		}
		if len(c.Sched) > 5 && c.Sched[:5] == "live-" {
			if what := live(c.Sched[5:]); what != "" {
				r.Fail("live:"+c.Sched[5:], c.Sched[5:]+" (real goroutine): "+what, c)
			}
			return
		}
		switch {
		case c.Search != nil:
			EmitSearch(r, c, false)
		case c.Live:
			searchEmitPlain(c, "live-replay", 20)
		case c.NextID > 0:
			searchEmitPlain(c, "id-wrap-replay", 1)
		default:
			emit(c)
		}
		r.Sample(c)
		return
	}
	if r.Search {
		searchLegs()
		if r.Failed() {
			r.Note("the search legs found a failing input; the ordinary generators were not run again")
			return
		}
	}
	// the real worker goroutine, ticker and select loop, for a fraction of a second (loose bounds only)
	for _, kind := range []string{"wheel", "heap"} {
		r.Case()
		r.Count("live-run:" + kind)
		if what := live(kind); what != "" {
			r.Fail("live:"+kind, kind+" (real goroutine): "+what, Case{Sched: "live-" + kind})
		}
	}
	R := r.R
	scripts := [][]Op{
		ops("after", 1, "cancel", 1, "cancel", 1),
		ops("after", 5, "after", 1, "cancel", 2, "sched", 2),
		ops("after", 0, "cancel", 1, "after", 1, "cancel", 2),
		ops("after", 1, "after", 1, "cancel", 1, "after", 2, "cancel", 3),
		ops("every", 1, "cancel", 1, "size", 0, "cancel", 1),
		ops("every", 2, "after", 2, "cancel", 1, "cancel", 2),
		ops("after", 2, "every", 1, "after", 0, "cancel", 2, "cancel", 1, "cancel", 3),
		ops("after", 1, "after", 1, "after", 1, "cancel", 2, "cancel", 3, "cancel", 1, "cancel", 2),
	}
	maxW := r.Scale(4, 6)
	n := 0
	for si, s := range scripts {
		ep := epilogueFor(s)
		for _, sched := range []string{"wheel", "heap"} {
			pos := uint32(R.Pick(0, 254, 255, 1<<14-2, 1<<32-2))
			enumerate(sched, pos, s, maxW, ep, func(c Case) {
				if n < 3 && len(c.Ops) > len(ep)+len(s)+2 {
					r.Sample(c)
				}
				n++
				emit(c)
			})
		}
		r.Count("scripts-enumerated")
		_ = si
	}
	r.CountN("enumerated-orders", n)
	// client calls INSIDE an expiry pass: every placement of small sets of client ops at the schedule points
	// of a tick on which several timers are due
	nf := 0
	for _, sc := range fineScenarios() {
		sets := sc.clients
		if r.Thorough() {
			sets = append(append([][]Op{}, sets...), sc.big...)
		}
		for _, sched := range []string{"wheel", "heap"} {
			for _, pos := range []uint32{0, 250, 1<<32 - 3} {
				if sched == "heap" && pos != 0 {
					continue
				}
				for _, cl := range sets {
					placements(cl, sc.slots, func(sub [][]Op) {
						c := Case{Sched: sched, Pos: pos, Time: 50}
						c.Ops = append(append([]Op{}, sc.prefix...), Op{K: "ftick", A: 1, Sub: sub})
						if sched == "heap" { // the heap array right after the pass with client calls inside it ...
							c.Ops = append(c.Ops, Op{K: "harr"})
						}
						c.Ops = append(c.Ops, sc.epilogue...)
						if sched == "heap" { // ... and at the end
							c.Ops = append(c.Ops, Op{K: "harr"})
						}
						if nf%997 == 0 {
							r.Sample(c)
						}
						nf++
						e := emit(c)
						if e.Ref.CancelInPass > 0 {
							r.Count("fine:" + sc.name + ":case-with-cancel-inside-pass")
						}
					})
				}
			}
		}
		r.Count("fine-scenarios")
	}
	r.CountN("fine-placements", nf)
	// random longer histories under random worker schedules
	for k := 0; k < r.Scale(1500, 40000); k++ {
		sched := "wheel"
		if k%2 == 1 {
			sched = "heap"
		}
		c := randomHistory(R, sched)
		if k < 2 {
			r.Sample(c)
		}
		emit(c)
	}
	// what the generators above do not vary: Runnable objects, constructors, extreme arguments, id counter, re-entrancy
	diversityLegs(scripts)
}

// randomHistory: a random client history under a random worker schedule (requests handled late, ticks in between,
// client calls inside expiry passes), with an epilogue that lets everything outstanding happen.
func randomHistory(R *hxlib.Rand, sched string) Case {
	c := Case{Sched: sched, Time: int64(R.Intn(1000)), Pos: uint32(R.Pick(0, 250, 1<<14-5, 1<<20-3, 1<<32-4) + R.Intn(8))}
	started, adds, dels := 0, 0, 0
	L := R.Range(5, 60)
	for i := 0; i < L; i++ {
		switch x := R.Intn(20); {
		case x < 4 && started < 12:
			c.Ops = append(c.Ops, Op{K: "after", A: int64(R.Pick(0, 0, 1, 1, 2, 3, 5, 255, 256, 257))})
			started++
			adds++
		case x < 6 && started < 12:
			c.Ops = append(c.Ops, Op{K: "every", A: int64(R.Pick(0, 1, 1, 2, 3, 256))})
			started++
			adds++
		case x < 10 && started > 0:
			c.Ops = append(c.Ops, Op{K: "cancel", A: int64(R.Range(1, started+1))})
			dels++
		case x < 13:
			c.Ops = append(c.Ops, Op{K: "add"})
		case x < 15:
			c.Ops = append(c.Ops, Op{K: "del"})
		case x < 16:
			c.Ops = append(c.Ops, Op{K: "advance", A: int64(R.Pick(0, 1, 1, 1, 2, 3, 254, 256))})
		case x < 18:
			ft := Op{K: "ftick", A: 1, Sub: make([][]Op, 6)}
			for j := R.Range(1, 3); j > 0 && started > 0; j-- {
				k := R.Intn(6)
				switch R.Intn(5) {
				case 0:
					if started < 12 {
						ft.Sub[k] = append(ft.Sub[k], Op{K: "after", A: int64(R.Pick(0, 1, 2))})
						started++
						adds++
					}
				case 1:
					ft.Sub[k] = append(ft.Sub[k], Op{K: "size"})
				default:
					ft.Sub[k] = append(ft.Sub[k], Op{K: "cancel", A: int64(R.Range(1, started))})
					dels++
				}
			}
			c.Ops = append(c.Ops, ft)
		case x < 19:
			c.Ops = append(c.Ops, Op{K: "size"})
		default:
			c.Ops = append(c.Ops, Op{K: "sched", A: int64(R.Range(1, started+1))})
		}
	}
	for i := 0; i < started; i++ {
		c.Ops = append(c.Ops, Op{K: "add"})
	}
	c.Ops = append(c.Ops, Op{K: "advance", A: 1})
	for i := 0; i < dels; i++ {
		c.Ops = append(c.Ops, Op{K: "del"})
	}
	c.Ops = append(c.Ops, Op{K: "advance", A: 300}, Op{K: "size"}, Op{K: "links"})
	return c
}
