package main

// Legs over the dimensions the ordinary generators do not vary (hxtimers/diversity.go lists the classes). They run
// in every tier: a change that edits only function bodies never triggers -search.
//
//	objects       quick+thorough  the enumerated worker orders of four scripts, the fine-grained placements of one
//	                              scenario and random histories, with ONE *sched.Task shared by all timers (or 2, 3
//	                              shared objects, a *sched.Task each, uncomparable value / func types), the consumer
//	                              calling Run() or not; oracle only where deliveries cannot name their timer
//	constructors  quick+thorough  the same random histories (and two enumerated scripts) on schedulers built by
//	                              NewDefaultHHWheelTimer / NewDefaultTimerQueue / the public constructors with
//	                              tickInterval/timeUnit in {0, 1, 2, 5, 7, 10, 1000}; compared with the model too
//	extremes      quick+thorough  Cancel / IsScheduled / RunAfter / RunEvery with MaxInt, MaxInt-1, MinInt, MinInt+1, -1,
//	                              0, 62..65, 2^31+-1, 2^32+-1 inside random histories and in ExtremeArgsCase
//	id-wrap       quick+thorough  the id counter pre-positioned just below 2^15, 2^16, 2^31, 2^32 (was -search only)
//	re-entrant    quick+thorough  real goroutines: Runnables that start / re-arm / cancel timers from the consumer's Run()

import (
	"math"
	"strings"

	"verifharness/hxlib"
	. "verifharness/hxtimers"
)

var extremeIDs = []int64{math.MaxInt64, math.MaxInt64 - 1, math.MinInt64, math.MinInt64 + 1, -1, 0, 62, 63, 64, 65, 1<<31 - 1, 1 << 31, 1<<31 + 1, 1<<32 - 1, 1 << 32, 1<<32 + 1}

// withExtremeIDs: some Cancel / IsScheduled calls of the history name an extreme id instead (no such timer: false,
// and nothing is disturbed).
func withExtremeIDs(R *hxlib.Rand, c Case) Case {
	out := c
	out.Ops = nil
	for _, o := range c.Ops {
		out.Ops = append(out.Ops, o)
		if (o.K == "cancel" || o.K == "sched" || o.K == "add") && R.Chance(1, 3) {
			out.Ops = append(out.Ops, Op{K: []string{"cancel", "sched"}[R.Intn(2)], A: extremeIDs[R.Intn(len(extremeIDs))]})
		}
	}
	return out
}

func countObj(c Case, e *Exec) {
	r.Count("objects:" + strings.SplitN(c.Obj, ":", 2)[0])
	if e.Ref.SharedPending > 0 {
		r.Count("objects:case-with-one-object-shared-by-pending-timers")
	}
	if e.Ref.ObjectReused > 0 {
		r.Count("objects:case-with-an-object-reused-after-delivery-or-cancel")
	}
}

func diversityLegs(scripts [][]Op) {
	R := r.R.Fork()
	scheds := []string{"wheel", "heap"}
	// ---- objects: enumerated worker orders ---------------------------------------------------------------------------
	maxW := r.Scale(3, 5)
	n := 0
	for _, si := range []int{1, 3, 5, 6} {
		s := scripts[si]
		ep := epilogueFor(s)
		for _, sched := range scheds {
			obj := "shared:1"
			if r.Thorough() && si%2 == 1 {
				obj = "shared:2"
			}
			enumerate(sched, uint32(R.Pick(0, 254, 1<<32-2)), s, maxW, ep, func(c Case) {
				c.Obj = obj
				c.Consume = n%2 == 1
				if n == 40 {
					r.Sample(c)
				}
				n++
				countObj(c, emit(c))
			})
		}
	}
	r.CountN("objects:enumerated-orders", n)
	// ---- objects: client calls inside an expiry pass -------------------------------------------------------------------
	nf := 0
	for _, sc := range fineScenarios()[:2] {
		for _, sched := range scheds {
			for _, cl := range sc.clients[:4] {
				placements(cl, sc.slots, func(sub [][]Op) {
					c := Case{Sched: sched, Pos: 250, Time: 50, Obj: "shared:1", Consume: nf%2 == 1}
					c.Ops = append(append([]Op{}, sc.prefix...), Op{K: "ftick", A: 1, Sub: sub})
					c.Ops = append(c.Ops, sc.epilogue...)
					nf++
					countObj(c, emit(c))
				})
			}
		}
	}
	r.CountN("objects:fine-placements", nf)
	// ---- objects: random histories -------------------------------------------------------------------------------------
	for k := 0; k < r.Scale(500, 12000); k++ {
		c := randomHistory(R, scheds[k%2])
		c.Obj = ObjKinds[R.Intn(len(ObjKinds))]
		c.Consume = R.Bool()
		if k%5 == 4 {
			c = withExtremeIDs(R, c)
		}
		countObj(c, emit(c))
	}
	// ---- constructors ---------------------------------------------------------------------------------------------------
	for _, sched := range scheds {
		cfgs := Configs(sched)
		for k := 0; k < r.Scale(40, 900)*len(cfgs); k++ {
			c := randomHistory(R, sched)
			cfgs[k%len(cfgs)].Apply(&c)
			if k%4 == 3 {
				c = withExtremeIDs(R, c)
				r.Count("extremes:history-with-extreme-ids")
			}
			emit(c)
			r.Count("constructors:random-history")
		}
		for _, si := range []int{0, 4} {
			s := scripts[si]
			ep := epilogueFor(s)
			enumerate(sched, 255, s, maxW, ep, func(c Case) {
				cfgs[0].Apply(&c) // the Default constructor
				emit(c)
				r.Count("constructors:enumerated-orders-default-constructor")
			})
		}
		r.CountN("constructors:configurations:"+sched, len(cfgs))
	}
	// ---- machine-word extremes as arguments -------------------------------------------------------------------------------
	for k := 0; k < r.Scale(4, 40); k++ {
		c := ExtremeArgsCase(R, scheds[k%2])
		if k >= 2 {
			Configs(c.Sched)[0].Apply(&c)
		}
		emit(c)
		r.Count("extremes:cases")
	}
	// ---- the id counter just below a power-of-two boundary ------------------------------------------------------------------
	for _, b := range []int64{1 << 15, 1 << 16, 1 << 31, 1 << 32} {
		for _, sched := range scheds {
			if r.Failed() {
				break // a tick that never returns leaves a spinning goroutine behind: stop at the first
			}
			searchEmitPlain(IDWrapCase(R, sched, b), "id-wrap", 1)
		}
	}
	// ---- re-entrancy on the real goroutines -----------------------------------------------------------------------------------
	for _, name := range LiveReentrantNames {
		r.Case()
		r.Count("live-reentrant:" + name)
		if what := LiveReentrant(name); what != "" {
			r.Fail("live-reentrant:"+name, name+" (real goroutines, Runnables calling back into the scheduler from the consumer's Run()): "+what, Case{Sched: "live-re-" + name})
		}
	}
}
