// hx_c14: correspondence harness + oracle for C14 (word-filter dictionary, collections/trie).
//
// A case is a history of AddWord/Remove/Reset calls plus a set of texts. After every call the oracle
// (a plain Go map as the dictionary, strings.Contains, a freshly built trie) checks the clauses of the
// property on the real trie; the same calls and a subset of the observations go to the Lean model.
package main

import (
	"encoding/hex"
	"encoding/json"
	"fmt"
	"hash/fnv"
	"io"
	"log"
	"sort"
	"strconv"
	"strings"

	"verifharness/hxlib"

	"qchen.fun/fatchoy/collections/trie"
)

type op struct {
	Op string `json:"op"` // add | remove | reset
	W  string `json:"w,omitempty"`
}

type kase struct {
	Ops      []op     `json:"ops"`
	Texts    []string `json:"texts,omitempty"`    // observed after every call
	Alphabet string   `json:"alphabet,omitempty"` // plus every text over Alphabet of at most EnumLen runes
	EnumLen  int      `json:"enum_len,omitempty"`
	ModelPer int      `json:"model_per"` // how many observations go to the model after each call (all after the last)
	Tag      string   `json:"tag,omitempty"`
	NoModel  bool     `json:"no_model,omitempty"` // oracle only: the Lean model's cost grows with the cube of a word's length (legs3.go: words > 128 runes)
}

func (c *kase) texts() []string {
	ts := append([]string{}, c.Texts...)
	al := []rune(c.Alphabet)
	if len(al) > 0 && c.EnumLen > 0 {
		level := []string{""}
		ts = append(ts, "")
		for l := 1; l <= c.EnumLen; l++ {
			var next []string
			for _, p := range level {
				for _, r := range al {
					next = append(next, p+string(r))
				}
			}
			ts = append(ts, next...)
			level = next
		}
	}
	return ts
}

func runes(s string) string {
	rs := []rune(s)
	if len(rs) == 0 {
		return "-"
	}
	parts := make([]string, len(rs))
	for i, r := range rs {
		parts[i] = strconv.Itoa(int(r))
	}
	return strings.Join(parts, ",")
}

type obs struct {
	exact, contains bool
	filter          string
	panicked        string
}

func observe(t *trie.HashTrie, text string) (o obs) {
	o.panicked = hxlib.Guard(func() {
		o.exact = t.ExactMatch(text)
		o.contains = t.Contains(text)
		o.filter = t.Filter(text)
	})
	return
}

func (o obs) line() string {
	if o.panicked != "" {
		return "panic"
	}
	return fmt.Sprintf("exact=%v contains=%v filter=%s", o.exact, o.contains, runes(o.filter))
}

type failure struct {
	key, what string
	opIdx     int
	text      string
	hasText   bool
}

// ---- the oracle's own notions (deliberately dumb) ---------------------------------------------------

func literal(dict map[string]bool) bool {
	for w := range dict {
		if strings.ContainsRune(w, '*') {
			return false
		}
	}
	return true
}

// competing: some position in the dictionary can be continued both by '*' and by a literal rune.
func competing(dict map[string]bool) bool {
	prefixes := map[string]bool{}
	for w := range dict {
		rs := []rune(w)
		for i := 1; i <= len(rs); i++ {
			prefixes[string(rs[:i])] = true
		}
	}
	for p := range prefixes {
		rs := []rune(p)
		if rs[len(rs)-1] != '*' {
			continue
		}
		parent := string(rs[:len(rs)-1])
		for q := range prefixes {
			qs := []rune(q)
			if len(qs) == len(rs) && string(qs[:len(qs)-1]) == parent && qs[len(qs)-1] != '*' {
				return true
			}
		}
	}
	return false
}

// matchAt: pattern w ('*' = any single rune) matches text at offset i
func matchAt(w, text []rune, i int) bool {
	if i+len(w) > len(text) {
		return false
	}
	for j, c := range w {
		if c != '*' && c != text[i+j] {
			return false
		}
	}
	return true
}

func occursWild(dict map[string]bool, text string) bool {
	ts := []rune(text)
	for w := range dict {
		ws := []rune(w)
		for i := 0; i+len(ws) <= len(ts); i++ {
			if matchAt(ws, ts, i) {
				return true
			}
		}
	}
	return false
}

func sortedWords(dict map[string]bool) []string {
	ws := make([]string, 0, len(dict))
	for w := range dict {
		ws = append(ws, w)
	}
	sort.Strings(ws)
	return ws
}

// checkText applies the per-text clauses. fresh = a trie built from the dictionary alone.
func checkText(t, fresh *trie.HashTrie, dict map[string]bool, words []string, lit, compet bool, text string, o obs, lastOp op) (fs []failure) {
	add := func(key, what string) {
		fs = append(fs, failure{key: key, what: what, text: text, hasText: true})
	}
	if o.panicked != "" {
		add("panic:match", fmt.Sprintf("matching %q panics: %s", text, o.panicked))
		return
	}
	// how a text matches depends on the dictionary only, not on the history that produced it
	fo := observe(fresh, text)
	if fo.exact != o.exact || fo.contains != o.contains || fo.filter != o.filter {
		key := "history:matches-differ-from-fresh-dictionary"
		if lastOp.Op == "remove" {
			key = "remove:changes-how-other-words-match"
		}
		add(key, fmt.Sprintf("after %s(%q) with dictionary %q: text %q gives ExactMatch=%v Contains=%v Filter=%q, a trie built from that dictionary gives %v %v %q",
			lastOp.Op, lastOp.W, words, text, o.exact, o.contains, o.filter, fo.exact, fo.contains, fo.filter))
	}
	tr, fr := []rune(text), []rune(o.filter)
	if len(tr) != len(fr) {
		add("filter:length-changed", fmt.Sprintf("dictionary %q: Filter(%q)=%q has %d runes, the text %d", words, text, o.filter, len(fr), len(tr)))
		return
	}
	if lit {
		occurs := false
		covered := make([]bool, len(tr))
		for w := range dict {
			ws := []rune(w)
			for i := 0; i+len(ws) <= len(tr); i++ {
				if tr[i] == ws[0] && string(tr[i:i+len(ws)]) == w {
					occurs = true
					for j := range ws {
						covered[i+j] = true
					}
				}
			}
		}
		if o.contains != occurs {
			add("contains:literal-dictionary", fmt.Sprintf("dictionary %q: Contains(%q)=%v but a dictionary word occurs in it: %v", words, text, o.contains, occurs))
		}
		for i := range tr {
			if fr[i] != tr[i] && (fr[i] != '*' || !covered[i]) {
				add("filter:changed-outside-a-match", fmt.Sprintf("dictionary %q: Filter(%q)=%q changes rune %d, which is not inside an occurrence of a dictionary word", words, text, o.filter, i))
				break
			}
		}
		for w := range dict {
			if strings.Contains(o.filter, w) {
				add("filter:dictionary-word-left", fmt.Sprintf("dictionary %q: Filter(%q)=%q still contains %q", words, text, o.filter, w))
				break
			}
		}
	} else if !compet {
		if occ := occursWild(dict, text); o.contains != occ {
			add("contains:wildcard-dictionary", fmt.Sprintf("dictionary %q (no competing branches): Contains(%q)=%v but a word matches with '*' as any single rune: %v", words, text, o.contains, occ))
		}
	}
	return
}

type stats struct {
	sharedPrefixRemovals, removesPresent, removesAbsent, observations, literalStates, wildStates, competingStates int
}

func sharesPrefix(w string, dict map[string]bool) bool {
	wr := []rune(w)
	for v := range dict {
		if v == w {
			continue
		}
		vr := []rune(v)
		if len(vr) > 0 && len(wr) > 0 && vr[0] == wr[0] {
			return true
		}
	}
	return false
}

// runCase runs the history on the real trie, applies the oracle, and (if r != nil) records the protocol lines.
func runCase(r *hxlib.Run, c *kase) ([]failure, stats) {
	var fails []failure
	var st stats
	texts := c.texts()
	t := trie.NewHashTrie()
	dict := map[string]bool{}
	if r != nil {
		r.Op("new", "ok")
	}
	for idx, o := range c.Ops {
		var line string
		switch o.Op {
		case "add":
			p := hxlib.Guard(func() { t.AddWord(o.W) })
			if o.W != "" {
				dict[o.W] = true
			}
			line = fmt.Sprintf("size=%d", t.WordsCount())
			if p != "" {
				line = "panic"
				fails = append(fails, failure{key: "panic:add", what: fmt.Sprintf("AddWord(%q) panics: %s", o.W, p), opIdx: idx})
			}
			if r != nil {
				r.Op("add "+runes(o.W), line)
			}
		case "remove":
			was := dict[o.W]
			if was {
				st.removesPresent++
				if sharesPrefix(o.W, dict) {
					st.sharedPrefixRemovals++
				}
			} else {
				st.removesAbsent++
			}
			var got bool
			p := hxlib.Guard(func() { got = t.Remove(o.W) })
			delete(dict, o.W)
			line = fmt.Sprintf("%v size=%d", got, t.WordsCount())
			if p != "" {
				line = "panic"
				fails = append(fails, failure{key: "panic:remove", what: fmt.Sprintf("Remove(%q) panics: %s", o.W, p), opIdx: idx})
			} else if got != was {
				key := "remove:false-for-a-word-that-was-added"
				if got {
					key = "remove:true-for-a-word-that-was-not-added"
				}
				fails = append(fails, failure{key: key, what: fmt.Sprintf("Remove(%q) returned %v but the word was in the dictionary: %v (dictionary now %q)", o.W, got, was, sortedWords(dict)), opIdx: idx})
			}
			if r != nil {
				r.Op("remove "+runes(o.W), line)
			}
		case "reset":
			t.Reset()
			dict = map[string]bool{}
			if r != nil {
				r.Op("reset", "ok")
			}
		default:
			panic("bad op " + o.Op)
		}
		if t.WordsCount() != len(dict) {
			fails = append(fails, failure{key: "count:differs-from-dictionary", what: fmt.Sprintf("after %s(%q) WordsCount()=%d but %d words were added and not removed: %q", o.Op, o.W, t.WordsCount(), len(dict), sortedWords(dict)), opIdx: idx})
		}
		fresh := trie.NewHashTrie()
		words := sortedWords(dict)
		for _, w := range words {
			fresh.AddWord(w)
		}
		lit := literal(dict)
		compet := !lit && competing(dict)
		switch {
		case lit:
			st.literalStates++
		case compet:
			st.competingStates++
		default:
			st.wildStates++
		}
		last := idx == len(c.Ops)-1
		for i, text := range texts {
			ob := observe(t, text)
			st.observations++
			fs := checkText(t, fresh, dict, words, lit, compet, text, ob, o)
			for k := range fs {
				fs[k].opIdx = idx
			}
			fails = append(fails, fs...)
			if r != nil && (last || i < c.ModelPer || len(fs) > 0) {
				r.Op("obs "+runes(text), ob.line())
			}
		}
	}
	return fails, st
}

func shrink(c *kase, f failure) *kase {
	base := &kase{Ops: append([]op{}, c.Ops[:f.opIdx+1]...), ModelPer: 1000, Tag: c.Tag, NoModel: c.NoModel}
	if f.hasText {
		base.Texts = []string{f.text}
	}
	still := func(k *kase) bool {
		fs, _ := runCase(nil, k)
		for _, g := range fs {
			if g.key == f.key {
				return true
			}
		}
		return false
	}
	if !still(base) {
		return c
	}
	keep := hxlib.DDMin(len(base.Ops), func(keep []int) bool {
		k := &kase{Texts: base.Texts, ModelPer: 1000}
		for _, i := range keep {
			k.Ops = append(k.Ops, base.Ops[i])
		}
		return still(k)
	})
	out := &kase{Texts: base.Texts, ModelPer: 1000, Tag: c.Tag, NoModel: c.NoModel}
	for _, i := range keep {
		out.Ops = append(out.Ops, base.Ops[i])
	}
	return out
}

func caseKey(c *kase) string {
	b, _ := json.Marshal(c.Ops)
	h := fnv.New64a()
	h.Write(b)
	return hex.EncodeToString(h.Sum(nil))
}

func one(r *hxlib.Run, c *kase) {
	r.Case()
	rec := r
	if c.NoModel {
		rec = nil
	}
	fails, st := runCase(rec, c)
	r.CountN("observations", st.observations)
	r.CountN("remove-of-present-word", st.removesPresent)
	r.CountN("remove-of-absent-word", st.removesAbsent)
	r.CountN("remove-sharing-a-prefix-with-a-remaining-word", st.sharedPrefixRemovals)
	r.CountN("state:literal-dictionary", st.literalStates)
	r.CountN("state:wildcard-non-competing", st.wildStates)
	r.CountN("state:wildcard-competing", st.competingStates)
	for _, o := range c.Ops {
		r.Count("op:" + o.Op)
	}
	if c.Tag != "" {
		r.Count("case:" + c.Tag)
	}
	if st.sharedPrefixRemovals > 0 {
		r.NonTrivial(caseKey(c))
	}
	seen := map[string]bool{}
	for _, f := range fails {
		if seen[f.key] {
			r.Count("oracle_fail_more:" + f.key)
			continue
		}
		seen[f.key] = true
		r.Fail(f.key, f.what, shrink(c, f))
	}
}

// ---- generators ---------------------------------------------------------------------------------

var letters = []rune{'a', 'b', 'c', '世'}

func genWord(rr *hxlib.Rand, pool []string, wild bool) string {
	al := letters
	if wild {
		al = append(append([]rune{}, letters...), '*', '*')
	}
	pick := func() rune { return al[rr.Intn(len(al))] }
	switch k := rr.Intn(10); {
	case k < 3 && len(pool) > 0: // extend an existing word
		w := []rune(pool[rr.Intn(len(pool))])
		for i := rr.Range(1, 2); i > 0; i-- {
			w = append(w, pick())
		}
		return string(w)
	case k < 5 && len(pool) > 0: // a prefix of an existing word
		w := []rune(pool[rr.Intn(len(pool))])
		return string(w[:rr.Range(1, len(w))])
	case k < 6 && len(pool) > 0: // an existing word with one rune replaced (a sibling branch)
		w := []rune(pool[rr.Intn(len(pool))])
		w[rr.Intn(len(w))] = pick()
		return string(w)
	case k < 7: // repeated letter
		c := pick()
		return strings.Repeat(string(c), rr.Range(1, 4))
	default:
		n := rr.Range(1, 4)
		w := make([]rune, n)
		for i := range w {
			w[i] = pick()
		}
		return string(w)
	}
}

func genText(rr *hxlib.Rand, pool []string, withStar bool) string {
	al := append(append([]rune{}, letters...), 'x')
	if withStar {
		al = append(al, '*')
	}
	var sb strings.Builder
	for parts := rr.Range(1, 4); parts > 0; parts-- {
		switch k := rr.Intn(6); {
		case k < 3 && len(pool) > 0:
			w := []rune(pool[rr.Intn(len(pool))])
			if rr.Chance(1, 3) { // a near miss / something for a wildcard
				w[rr.Intn(len(w))] = al[rr.Intn(len(al))]
			}
			if rr.Chance(1, 4) {
				w = w[:rr.Range(1, len(w))]
			}
			sb.WriteString(string(w))
		default:
			for n := rr.Range(0, 3); n > 0; n-- {
				sb.WriteRune(al[rr.Intn(len(al))])
			}
		}
	}
	return sb.String()
}

func randomCase(rr *hxlib.Rand, wild bool, enumLen int) *kase {
	c := &kase{ModelPer: 25, Tag: "random-literal"}
	if wild {
		c.Tag = "random-wildcard"
	}
	var pool []string
	for n := rr.Range(2, 9); n > 0; n-- {
		pool = append(pool, genWord(rr, pool, wild && rr.Chance(2, 3)))
	}
	present := map[string]bool{}
	nops := rr.Range(4, 24)
	for i := 0; i < nops; i++ {
		w := pool[rr.Intn(len(pool))]
		switch k := rr.Intn(20); {
		case k == 0:
			c.Ops = append(c.Ops, op{Op: "reset"})
			present = map[string]bool{}
		case k == 1:
			c.Ops = append(c.Ops, op{Op: "add", W: ""})
		case k < 11 || len(present) == 0:
			c.Ops = append(c.Ops, op{Op: "add", W: w})
			present[w] = true
		case k < 17: // remove something that is there
			ws := sortedWords(present)
			v := ws[rr.Intn(len(ws))]
			c.Ops = append(c.Ops, op{Op: "remove", W: v})
			delete(present, v)
		default: // remove something that may not be there: a pool word, a prefix, an extension, a text a wildcard matches
			v := genWord(rr, pool, false)
			if rr.Bool() {
				v = w
			}
			c.Ops = append(c.Ops, op{Op: "remove", W: v})
			delete(present, v)
		}
	}
	seen := map[string]bool{}
	for _, w := range pool {
		if !seen[w] {
			seen[w] = true
			c.Texts = append(c.Texts, w)
		}
	}
	for n := 30; n > 0; n-- {
		t := genText(rr, pool, rr.Chance(1, 4))
		if !seen[t] {
			seen[t] = true
			c.Texts = append(c.Texts, t)
		}
	}
	c.Alphabet, c.EnumLen = "abc世*", enumLen
	return c
}

func fixedCases() []*kase {
	ops := func(s ...string) []op {
		var o []op
		for _, x := range s {
			switch {
			case x == "!":
				o = append(o, op{Op: "reset"})
			case strings.HasPrefix(x, "+"):
				o = append(o, op{Op: "add", W: x[1:]})
			case strings.HasPrefix(x, "-"):
				o = append(o, op{Op: "remove", W: x[1:]})
			}
		}
		return o
	}
	al := "abc世*"
	return []*kase{
		{Ops: ops("-a", "+", "+a", "+a", "-a", "-a", "+ab", "+a", "-ab", "-a"), Alphabet: al, EnumLen: 3, ModelPer: 20, Tag: "fixed"},
		// a word that is a prefix of another, removed in both orders
		{Ops: ops("+aa", "+aab", "+aaa", "-aa", "-aab", "+aab", "+aa", "-aab", "-aa", "-aaa"), Texts: []string{"aab", "xaabx", "aaaa"}, Alphabet: al, EnumLen: 4, ModelPer: 20, Tag: "fixed"},
		// the suite's own dictionary
		{Ops: ops("+fuck", "+fuckyou", "+shit", "+pussy", "+dick", "+eatdick", "-fuck", "-fuckyou", "-eatdick", "-dick"), Texts: []string{"fuck", "fuckyou", "go_fuck_u", "eatdick", "dick", "shit", "pussycat", "eatdic"}, ModelPer: 20, Tag: "fixed"},
		// wildcards: Remove of a text that only matches through '*'
		{Ops: ops("+a*", "-ab", "-a*", "+*b", "+a*", "-ab", "-*b", "-a*"), Texts: []string{"ab", "a*", "xab", "b"}, Alphabet: al, EnumLen: 3, ModelPer: 20, Tag: "fixed"},
		// literal and wildcard branches that compete
		{Ops: ops("+ax", "+*b", "-ax", "+ab", "+a*c", "-ab"), Texts: []string{"ab", "abc", "axc", "xb"}, Alphabet: al, EnumLen: 3, ModelPer: 20, Tag: "fixed"},
		{Ops: ops("+世界", "+世", "-世", "+世*", "-世界", "!", "+界"), Texts: []string{"世界", "你好世界", "世", "界"}, Alphabet: al, EnumLen: 3, ModelPer: 20, Tag: "fixed"},
	}
}

func main() {
	r := hxlib.Start("C14", "a history of AddWord/Remove/Reset calls with a text set; non-trivial when a removed word shares a prefix with a word that remains; distinct by history")
	defer r.Finish()
	log.SetOutput(io.Discard)
	if r.Replay != "" {
		var sc scase
		r.LoadReplay(&sc)
		if sc.Leg != "" { // a case of a large search leg (search.go): regenerated from its parameters
			r.Case()
			runSearchCase(sc).reportParam(r, sc)
			r.Sample(sc)
			return
		}
		var c kase
		r.LoadReplay(&c)
		one(r, &c)
		r.Sample(c)
		return
	}
	for _, c := range fixedCases() {
		one(r, c)
	}
	n := r.Scale(300, 3000)
	for i := 0; i < n; i++ {
		enum := 3
		if i%10 == 0 {
			enum = r.Scale(4, 5)
		}
		c := randomCase(r.R, i%2 == 1, enum)
		if i < 2 {
			r.Sample(kase{Ops: c.Ops, Texts: c.Texts[:3], Alphabet: c.Alphabet, EnumLen: c.EnumLen, Tag: c.Tag})
		}
		one(r, c)
	}
	if r.Thorough() {
		// small dictionaries against every text of up to 7 runes
		for i := 0; i < 6; i++ {
			c := randomCase(r.R, i%2 == 1, 7)
			if len(c.Ops) > 8 {
				c.Ops = c.Ops[:8]
			}
			c.ModelPer = 0
			c.Tag = "enumerate-7"
			one(r, c)
		}
	}
	// Unicode look-alikes and classes, single matches longer than 64 / 256 / 4096 runes (legs3.go)
	unicodeLegs(r)
	// ASCII control code points in every role (legs4.go)
	controlLegs(r)
	if r.Search {
		if r.Failed() {
			r.Note("search legs not run: the thorough generators already produced a failing input")
		} else {
			searchLegs(r)
		}
	}
}
