// legs4.go: fourth-wave legs of hx_c14, NORMAL tiers (quick and thorough). Ordinary histories (kase), so they are
// model-compared, shrunk and replayed like the random ones.
//
//	control    (W4) ASCII control code points in every role. For every c in U+0000..U+001F and U+007F (incl. \n \r \t \0
//	           ESC DEL), plus U+0085, U+00A0, U+2028, U+2029 (what "trim"/"line" helpers also treat as space / line end):
//	           - literal: dictionary words with c at the START, in the MIDDLE and at the END ("\nab", "a\nb", "ab\n"), c alone,
//	             cc; Remove of the trimmed word "ab" while only the padded one is there (must be false, count
//	             unchanged), AddWord of the trimmed word next to the padded one (count 2), Remove of the exact word
//	             (true); texts with the word embedded, with the trimmed word only, with another control in its place;
//	           - wildcard (one wildcard word at a time, so no competing branch): "a*c", "*b", "a*", "*" whose wildcard
//	             falls on c in the text (start, middle, end of the text, c next to c), and dictionary words with c
//	             next to the wildcard ("\n*b", "a*\n", "*\n*").
//	control-random  the random generators of main.go over alphabets made of control code points and letters.
package main

import (
	"time"

	"verifharness/hxlib"
)

func controlRunes() []rune {
	var cs []rune
	// the six named ones first
	cs = append(cs, '\n', '\r', '\t', 0, 0x1b, 0x7f)
	for c := rune(1); c < 0x20; c++ {
		if c != '\n' && c != '\r' && c != '\t' && c != 0x1b {
			cs = append(cs, c)
		}
	}
	cs = append(cs, 0x85, 0xa0, 0x2028, 0x2029)
	return cs
}

func controlCases() []*kase {
	var out []*kase
	cs := controlRunes()
	for i, cr := range cs {
		c := string(cr)
		d := string(cs[(i+1)%len(cs)]) // another control in its place
		// literal dictionaries
		for _, pos := range []string{"start", "middle", "end"} {
			var w string
			switch pos {
			case "start":
				w = c + "ab"
			case "middle":
				w = "a" + c + "b"
			default:
				w = "ab" + c
			}
			k := &kase{ModelPer: 1000, Tag: "control-literal-" + pos}
			k.Ops = []op{{Op: "add", W: w}, {Op: "remove", W: "ab"}, {Op: "add", W: "ab"}, {Op: "remove", W: w}, {Op: "remove", W: w},
				{Op: "remove", W: "ab"}, {Op: "add", W: w}, {Op: "add", W: "cd"}, {Op: "remove", W: "ab"}, {Op: "add", W: c}, {Op: "remove", W: ""},
				{Op: "add", W: c + c}, {Op: "remove", W: c}, {Op: "remove", W: w}, {Op: "remove", W: c + c}}
			k.Texts = []string{w, "ab", "x" + w + "y", "xaby", "abcde", "xx" + w, w + "yy", c, c + c, c + c + c, "", d + "ab", "a" + d + "b", "ab" + d,
				"ab" + c + "cd", "cd" + c + "ab", w + w, "a" + c, c + "b", "line1" + c + "ab" + c + "line2", "ab " + c, " " + w + " "}
			out = append(out, k)
		}
		// wildcard dictionaries: one wildcard word at a time (no competing branches); the wildcard falls on c
		k := &kase{ModelPer: 1000, Tag: "control-wildcard"}
		k.Ops = []op{{Op: "add", W: "a*c"}, {Op: "remove", W: "a" + c + "c"}, {Op: "remove", W: "a*c"}, {Op: "add", W: "*b"}, {Op: "remove", W: "*b"},
			{Op: "add", W: "a*"}, {Op: "remove", W: "a*"}, {Op: "add", W: "*"}, {Op: "remove", W: c}, {Op: "remove", W: "*"},
			{Op: "add", W: c + "*b"}, {Op: "remove", W: c + "*b"}, {Op: "add", W: "a*" + c}, {Op: "remove", W: "a*" + c}, {Op: "add", W: "*" + c + "*"}, {Op: "remove", W: "*" + c + "*"},
			{Op: "add", W: "a**c"}, {Op: "remove", W: "a**c"}}
		k.Texts = []string{"a" + c + "c", "xxa" + c + "cyy", "a" + d + "c", "axc", "ac", c + "b", "line1" + c + "b", "xb", "b", "a" + c, "xa" + c, "a", c, c + c, "",
			c + "xb", c + c + "b", c + "b", "ax" + c, "a" + c + c, "x" + c + "y", c + c + c, "a" + c + c + "c", "a" + c + "xc", "ax" + c + "c", "a" + c + "c" + c + "b" + c, "yy" + c}
		out = append(out, k)
	}
	return out
}

var controlAlphabets = []string{
	"a\nb\r",
	"\t\x00ab",
	"\x1b\x7fab",
	"\n\r\t\x00",
	"a\n \x0b",
	"\r\n a",
	"\x01\x1f\x7f\u0085",
}

func controlRandomCases(rr *hxlib.Rand, perAlphabet int) []*kase {
	var out []*kase
	saved := letters
	defer func() { letters = saved }()
	for _, al := range controlAlphabets {
		letters = []rune(al)
		for i := 0; i < perAlphabet; i++ {
			c := randomCase(rr, i%2 == 1, 0)
			c.Tag = "control-random"
			c.Alphabet, c.EnumLen = al, 3
			if i%2 == 1 {
				c.Alphabet = al + "*"
			}
			out = append(out, c)
		}
	}
	return out
}

// controlLegs runs in every tier.
func controlLegs(r *hxlib.Run) {
	t0 := time.Now()
	n := 0
	for _, c := range controlCases() {
		one(r, c)
		n++
	}
	r.Note("leg control: %d histories over %d control code points (U+0000..U+001F, U+007F, U+0085, U+00A0, U+2028, U+2029) at the start / middle / end of dictionary words, under a wildcard of the word, next to a wildcard, and in texts; Remove of the trimmed word must be false, of the exact word true, %.1fs", n, len(controlRunes()), time.Since(t0).Seconds())
	t0, n = time.Now(), 0
	for _, c := range controlRandomCases(r.R.Fork(), r.Scale(6, 60)) {
		one(r, c)
		n++
	}
	r.Note("leg control-random: %d random histories over %d alphabets of control code points and letters, every text of up to 3 runes of the alphabet, %.1fs", n, len(controlAlphabets), time.Since(t0).Seconds())
}
