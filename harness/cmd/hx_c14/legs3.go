// legs3.go: legs of hx_c14 that run in the NORMAL tiers (quick and thorough). All cases are ordinary histories
// (kase: ops + texts), so they are model-compared, shrunk and replayed like the random ones.
//
//	lookalike  (K6) for every pair (plain, look-alike): the dictionary holds a word spelt with one, the texts spell it
//	           with the other (bare, embedded, doubled, mixed), in both directions, with Remove of the other spelling
//	           in between. Pairs: every ASCII 0x21..0x7E and its full-width form U+FF01..U+FF5E, space / U+3000,
//	           i İ ı I, ss ß ẞ, s ſ, k K and the Kelvin sign, Å and the Angstrom sign, Ω and the Ohm sign, µ μ,
//	           precomposed letters and letter + combining mark, Latin / Cyrillic / Greek homoglyphs, '*' and '＊';
//	           words with ZWJ / ZWNJ / variation selector / RLM / RLO / BOM / soft hyphen / combining mark inserted
//	           or prefixed. The trie matches rune by rune: none of these may match the other.
//	classes    (K6) random histories (the generators of main.go) over alphabets made of those classes: full-width
//	           forms next to their ASCII letters, BOM, combining marks, ZWJ/ZWNJ, variation selectors, bidi marks,
//	           private-use runes of planes 0 and 16, Turkish / German case pairs, U+FFFD, U+0000, the last code point.
//	long       (K6) ONE match longer than 64, 256 and 4096 runes: dictionary words of 63..66, 127..129, 255..257 and
//	           4095..4097 runes (literal; and with wildcards that cannot compete) embedded in texts (alone, with a
//	           head and a tail, twice in a row, cut short by one rune, preceded by its own prefix), filtered and
//	           matched; plus a short second word, removal of the long one and matching again. Words of more than 128
//	           runes are oracle-only (kase.NoModel): the Lean model answers a 257-rune history in 5 s, a 4097-rune
//	           one in hours.
//
// Not generated: strings that are not valid UTF-8 (surrogate code points written as three bytes, truncated sequences):
// "character" and "length" of the property have no agreed meaning for them (conf: valid UTF-8 only).
// Not applicable to this API: element / key types, callbacks, int parameters, constructors beyond NewHashTrie().
package main

import (
	"fmt"
	"strings"
	"time"

	"verifharness/hxlib"
)

type pairL struct{ plain, alike string }

func lookalikePairs() []pairL {
	var ps []pairL
	for c := rune(0x21); c <= 0x7E; c++ {
		ps = append(ps, pairL{string(c), string(c + 0xFEE0)})
	}
	ps = append(ps,
		pairL{" ", "\u3000"}, pairL{"i", "\u0130"}, pairL{"i", "\u0131"}, pairL{"I", "\u0131"}, pairL{"I", "\u0130"}, pairL{"i", "I"},
		pairL{"ss", "\u00df"}, pairL{"SS", "\u1e9e"}, pairL{"\u00df", "\u1e9e"}, pairL{"s", "\u017f"}, pairL{"S", "\u017f"},
		pairL{"k", "\u212a"}, pairL{"K", "\u212a"}, pairL{"\u00c5", "\u212b"}, pairL{"\u00e5", "\u00c5"}, pairL{"\u03a9", "\u2126"}, pairL{"\u00b5", "\u03bc"},
		// precomposed letter / letter + combining mark; Hangul syllable / conjoining jamo
		pairL{"\u00e9", "e\u0301"}, pairL{"\u00f6", "o\u0308"}, pairL{"\u00e9", "e"}, pairL{"\u00f1", "n\u0303"}, pairL{"\uac00", "\u1100\u1161"},
		// homoglyphs: Latin / Cyrillic / Greek
		pairL{"a", "\u0430"}, pairL{"A", "\u0391"}, pairL{"o", "\u03bf"}, pairL{"e", "\u0435"}, pairL{"c", "\u0441"},
		// an invisible rune inserted: ZWJ, ZWNJ, VS16, VS1, RLM, RLO, BOM, soft hyphen, combining acute, word joiner
		pairL{"ab", "a\u200db"}, pairL{"ab", "a\u200cb"}, pairL{"ab", "a\ufe0fb"}, pairL{"ab", "a\ufe00b"}, pairL{"ab", "a\u200fb"},
		pairL{"ab", "a\u202eb"}, pairL{"ab", "a\ufeffb"}, pairL{"ab", "a\u00adb"}, pairL{"ab", "a\u0301b"}, pairL{"ab", "a\u2060b"},
		// ... prefixed / appended; a tag character of plane 14
		pairL{"ab", "\ufeffab"}, pairL{"ab", "ab\ufe0f"}, pairL{"ab", "\u200eab"}, pairL{"ab", "a\U000e0020b"},
		// private use (planes 0, 15, 16), the replacement character, NUL, the last code points
		pairL{"\ue000", "\uf8ff"}, pairL{"\U0010fffd", "\U000ffffd"}, pairL{"\ufffd", "?"}, pairL{"\u0000", "\u2400"}, pairL{"\U0010ffff", "\uffff"},
		pairL{"\u4e16", "\u4e17"}, pairL{"1", "\u0661"}, pairL{".", "\u3002"}, pairL{"-", "\u2010"}, pairL{"'", "\u2019"},
	)
	return ps
}

// lookalikeCases: two histories per pair (dictionary spelt plain / spelt with the look-alike).
func lookalikeCases() []*kase {
	var out []*kase
	for _, p := range lookalikePairs() {
		for dir := 0; dir < 2; dir++ {
			a, b := p.plain, p.alike
			if dir == 1 {
				a, b = b, a
			}
			// '*' in a dictionary word is the wildcard: such a dictionary is judged by the wildcard clauses only
			w1, w2 := "s"+a+"m", a+a
			v1, v2 := "s"+b+"m", b+b
			c := &kase{ModelPer: 1000, Tag: "lookalike"}
			c.Ops = []op{{Op: "add", W: w1}, {Op: "remove", W: v1}, {Op: "add", W: w2}, {Op: "remove", W: v2}, {Op: "add", W: a},
				{Op: "remove", W: b}, {Op: "remove", W: w1}, {Op: "remove", W: a}, {Op: "add", W: v1}, {Op: "remove", W: w2}, {Op: "remove", W: v1}}
			c.Texts = []string{w1, v1, w2, v2, a, b, "x" + v1 + "y", "x" + w1 + "y", v1 + w1, "s" + b, b + "m", a + b, b + a, "ss" + b + "mm" + a + "m",
				strings.ToUpper(w1), strings.ToLower(w1), "s" + a + b + "m", ""}
			out = append(out, c)
		}
	}
	return out
}

var classAlphabets = []string{
	"s\uff53m\uff4d",          // letters and their full-width forms
	"a\uff41*\uff0a",          // ... and the full-width asterisk next to the wildcard
	"a\u0301\u00e9e",          // combining acute, precomposed e acute
	"i\u0130\u0131I",          // Turkish dotted / dotless i
	"s\u00df\u1e9e\u017f",     // sharp s, capital sharp s, long s
	"a\u200d\u200cb",          // ZWJ, ZWNJ
	"\ufeffab\ufe0f",          // BOM, variation selector 16
	"\u200f\u202ea\u05d0",     // RLM, RLO, a Hebrew letter
	"\ue000\uf8ff\U0010fffda", // private use, planes 0 and 16
	" \u3000a\uff21",          // space, ideographic space, full-width A
	"k\u212aK\u212b",          // Kelvin and Angstrom signs
	"\ufffd\u0000a\U0010ffff", // U+FFFD, NUL, the last code point
	"!\uff01~\uff5e",          // both ends of the full-width block
	"0\uff109\uff19",          // digits
	"\u4e16\u754c\uff53s",     // CJK next to full-width
	"e\u0323\u0301\u0308",     // a stack of combining marks
}

// classCases: the random generator of main.go over an alphabet of the classes.
func classCases(rr *hxlib.Rand, perAlphabet int) []*kase {
	var out []*kase
	saved := letters
	defer func() { letters = saved }()
	for _, al := range classAlphabets {
		rs := []rune(al)
		var lits []rune
		for _, x := range rs {
			if x != '*' {
				lits = append(lits, x)
			}
		}
		letters = lits
		for i := 0; i < perAlphabet; i++ {
			c := randomCase(rr, i%3 == 2, 0)
			c.Tag = "classes"
			c.Alphabet, c.EnumLen = al, 3
			if i%3 == 2 {
				c.Alphabet = al + "*"
			}
			out = append(out, c)
		}
	}
	return out
}

// longCases: one match of n runes.
func longCases(rr *hxlib.Rand, lens []int) []*kase {
	var out []*kase
	al := []rune("ab\uff53\u4e16\U0001F600\u00e9")
	for _, n := range lens {
		for variant := 0; variant < 2; variant++ {
			w := make([]rune, n)
			for i := range w {
				w[i] = al[rr.Intn(len(al))]
			}
			// no period shorter than the word at its start: a head that does not come back
			w[0], w[1] = 'Q', 'R'
			tag := "long-literal"
			if variant == 1 {
				// wildcards that no literal branch competes with (this is the only long word; the short one starts elsewhere)
				for k := 0; k < 3; k++ {
					w[rr.Range(2, n-1)] = '*'
				}
				tag = "long-wildcard"
			}
			word := string(w)
			inst := make([]rune, n) // a text instance of the word
			for i, x := range w {
				if x == '*' {
					x = al[rr.Intn(len(al))]
				}
				inst[i] = x
			}
			is := string(inst)
			c := &kase{ModelPer: 1000, Tag: tag, NoModel: n > 128}
			c.Ops = []op{{Op: "add", W: word}, {Op: "add", W: "zz"}, {Op: "remove", W: word}, {Op: "add", W: word}, {Op: "remove", W: "zz"}}
			c.Texts = []string{is, "hi " + is + " bye", is + is, "x" + is, is + "zz", string(inst[:n-1]), string(inst[1:]), string(inst[:n/2]) + is + "tail",
				"zz" + string(inst[:n-1]) + "zz" + is, "\u4e16" + is + "\u754c" + is + "zz"}
			out = append(out, c)
		}
	}
	return out
}

// unicodeLegs runs in every tier. Cost: quick ≈ 1.5 s.
func unicodeLegs(r *hxlib.Run) {
	t0 := time.Now()
	n := 0
	for _, c := range lookalikeCases() {
		one(r, c)
		n++
	}
	r.Note("leg lookalike: %d histories over %d (plain, look-alike) pairs in both directions: full-width forms, case pairs without a one-to-one mapping, compatibility signs, combining sequences, homoglyphs, invisible runes inserted or prefixed, %.1fs", n, len(lookalikePairs()), time.Since(t0).Seconds())
	t0, n = time.Now(), 0
	for _, c := range classCases(r.R.Fork(), r.Scale(4, 60)) {
		one(r, c)
		n++
	}
	r.Note("leg classes: %d random histories over %d alphabets of full-width / BOM / combining / joiner / selector / bidi / private-use / case-pair runes, every text of up to 3 runes of the alphabet, %.1fs", n, len(classAlphabets), time.Since(t0).Seconds())
	t0, n = time.Now(), 0
	lens := []int{63, 64, 65, 66, 128, 129, 256, 257, 4097}
	if r.Thorough() {
		lens = []int{63, 64, 65, 66, 127, 128, 129, 130, 191, 192, 193, 255, 256, 257, 258, 1025, 4095, 4096, 4097, 4098, 8193}
	}
	for _, c := range longCases(r.R.Fork(), lens) {
		one(r, c)
		n++
	}
	r.Note("leg long: %d histories with ONE dictionary word of %v runes (literal, and with non-competing wildcards) matched and filtered inside texts, %.1fs", n, lens, time.Since(t0).Seconds())
	_ = fmt.Sprint
}
